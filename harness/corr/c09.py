"""
C09: concurrent sessions are isolated and each request is atomic.

A case is a set of 2..8 sessions (programs of request frames: single Read/Write Tag [Fragmented] requests and
Multiple Service Packets) against one freshly started REAL simulator (`cpppo.server.enip.main.main` in a thread,
127.0.0.1, ephemeral port, `--no-udp --no-config`), driven by real client threads (raw sockets speaking
EtherNet/IP, and cpppo's own `client.connector`).  Nothing in /repo is changed; the run is observed through

  * tag storage: `main(attribute_class=RecAttribute)` (the documented extension point) gives every tag a
    `RecList` (a `list` subclass) as its value; its `__getitem__/__setitem__` perform the ONE list operation
    and stamp it (global sequence number, thread, slice, values) under a private lock, i.e. exactly the
    trusted assumption "a list slice read/assignment is atomic" is where the stamp is taken.  `time.sleep(0)`
    before/after (outside that lock) and `sys.setswitchinterval(1e-6…)` widen the schedule space;
  * shared parsers: `automata.dfa_base.__enter__/__exit__` are wrapped (harness-side) to stamp the outermost
    acquire/release of a shared parser inside `enip_process`;
  * frames: `main(enip_process=…)` wraps `logix.process` to stamp frame-in / reply-out and to learn which
    server thread serves which peer.

From one run:  impl line  = "ok <replies per session> <final tag dump>" (what the clients received / what the
               tags hold),
               model line = the programs + the OBSERVED interleaving (trace of F A f R P X S steps); the Lean
               machine `Cpppo.Concurrent.runSched` (instance Logix `exec`) is stepped along it, checks that
               every observed step is the step the model says that thread takes next (program order, lock
               exclusion, one access per request) and answers with the replies / final state it computes.
The oracle is independent of the Lean model: reply/session integrity, linearizability against the array
model `ArraySpec` in access order, one-access-per-request, stripe atomicity, private-range last-write,
parser lock exclusion, chaos isolation.
"""
import itertools
import json
import logging
import os
import random
import socket
import struct
import sys
import threading
import time

from framework import Suite
from corr import logix_common as lc
from corr import logix_gen as lg

# --------------------------------------------------------------------------------------------------
# recording layer (installed once per process)
# --------------------------------------------------------------------------------------------------
REC = {"on": False, "events": [], "lock": threading.Lock(), "ctr": itertools.count(), "yield": True,
       "installed": False, "fuzz": 0.0, "nap": 0.001, "fuzz_store": 0.0,
       "thread_name": None, "polite": 0.0, "fuzz_only": None, "fuzz_first": False, "slow": None}
TL = threading.local()


UIDS = itertools.count(1)


def stamp(kind, *info):
    u = getattr(TL, "uid", None)        # one number per thread OBJECT (thread idents are reused once a thread has exited)
    if u is None:
        u = TL.uid = next(UIDS)
    REC["events"].append((next(REC["ctr"]), u, kind) + info)


class RecList(list):
    """The tag's storage.  One list operation + its stamp are atomic w.r.t. every other RecList operation."""
    name = "?"

    @staticmethod
    def _rng(k, n):
        if isinstance(k, slice):
            a, b, _ = k.indices(n)
            return a, b
        return k, k + 1

    def __getitem__(self, k):
        if not REC["on"]:
            return list.__getitem__(self, k)
        if REC["yield"]:
            time.sleep(0)
        with REC["lock"]:
            v = list.__getitem__(self, k)
            a, b = self._rng(k, len(self))
            stamp("X", self.name, "r", a, b)
        if REC["yield"]:
            time.sleep(0)
        return v

    def __setitem__(self, k, v):
        if not REC["on"]:
            return list.__setitem__(self, k, v)
        if isinstance(k, slice):
            v = list(v)
        if REC["yield"]:
            time.sleep(0)
        with REC["lock"]:
            n0 = len(self)
            list.__setitem__(self, k, v)
            a, b = self._rng(k, n0)
            stamp("X", self.name, "w", a, b)
        if REC["yield"]:
            time.sleep(0)


def install():
    """wrap the observation points (idempotent).  Returns the modules used."""
    import cpppo
    from cpppo import automata
    from cpppo.server.enip import device, logix, parser, client
    from cpppo.server.enip import main as enip_main
    if REC["installed"]:
        return REC["mods"]

    class RecAttribute(device.Attribute):
        def __init__(self, name, type_cls, default=0, **kw):
            if isinstance(default, list):
                rl = RecList(default)
                rl.name = name
                default = rl
            super().__init__(name, type_cls, default=default, **kw)

    orig_enter, orig_exit = automata.dfa_base.__enter__, automata.dfa_base.__exit__
    _polite_rnd = random.Random(0x9011).random

    def rec_enter(self):
        r = orig_enter(self)
        d = getattr(TL, "depth", None)
        if d is not None:
            if d == 0 and REC["on"]:
                stamp("A", id(self))
                if REC["yield"]:
                    time.sleep(0)
            TL.depth = d + 1
        return r

    def rec_exit(self, typ, val, tbk):
        d = getattr(TL, "depth", None)
        top = False
        if d is not None:
            TL.depth = d - 1
            if d == 1 and REC["on"]:
                stamp("R", id(self))
                top = True
        r = orig_exit(self, typ, val, tbk)
        if top and REC["polite"] and REC["on"]:
            # a "polite" (fair) lock: having released a shared parser, the thread lets a thread that is waiting
            # for it go first.  No semantics change; it selects the schedules in which a waiter enters the parser
            # at the very moment another thread leaves it (e.g. between a bundle header and its members).
            q = _polite_rnd()
            if q < REC["polite"]:
                time.sleep(0 if q < REC["polite"] / 2 else 0.001)
        return r

    automata.dfa_base.__enter__ = rec_enter
    automata.dfa_base.__exit__ = rec_exit

    def rec_process(addr, data, **kwds):
        TL.depth = 0
        if REC["thread_name"]:
            # the session threads of a server may carry any names, in particular all the same one (Thread names
            # need not be unique: e.g. a thread factory that calls every session thread "enip")
            th = threading.current_thread()
            if th.name != REC["thread_name"]:
                th.name = REC["thread_name"]
        if REC["on"]:
            stamp("F", tuple(addr) if addr else None)
        try:
            return logix.process(addr, data, **kwds)
        finally:
            TL.depth = None
            if REC["on"]:
                stamp("S", tuple(addr) if addr else None)

    install_fuzzer([logix.Logix.request, logix.Logix.reply_elements, logix.process, logix.setup, logix.setup_tag,
                    device.Attribute.__getitem__, device.Attribute.__setitem__, device.Attribute._validate_key,
                    device.Object.request, device.Message_Router.request, device.Message_Router.route,
                    device.Connection_Manager.request, device.state_multiple_service.terminate,
                    device.resolve, device.lookup, device.resolve_tag,
                    automata.dfa_post.__exit__, automata.dfa_post.post_process_closure]
                   + [getattr(m_, "request") for m_ in [__import__("cpppo.server.enip.ucmm", fromlist=["UCMM"]).UCMM]])
    REC["mods"] = dict(cpppo=cpppo, automata=automata, device=device, logix=logix, parser=parser, client=client,
                       enip_main=enip_main, RecAttribute=RecAttribute, rec_process=rec_process)
    REC["installed"] = True
    return REC["mods"]


def install_fuzzer(funcs):
    """Schedule fuzzing: at every new source line executed inside the request-handling functions `funcs` (and
    the functions nested in them) the running thread gives the GIL away with probability REC["fuzz"].  This
    only adds interleavings of the request-handling threads (the property quantifies over all of them); it
    never splits a single list operation and never bypasses a lock."""
    mon = getattr(sys, "monitoring", None)
    if mon is None:
        return
    tool = mon.PROFILER_ID
    try:
        mon.use_tool_id(tool, "c09-schedule-fuzzer")
    except ValueError:
        return
    rnd = random.Random(0xC09).random

    import linecache

    def on_line(code, line):
        key = (code, line)
        skip = boring.get(key)
        if skip is None:                # the parse loops (`for m,s in engine: pass`) run once per input symbol:
            txt = linecache.getline(code.co_filename, line).strip()   # no scheduling decision of interest there
            skip = boring[key] = txt == "pass" or txt.startswith("for m,s in engine")
        if skip:
            return mon.DISABLE
        p = REC["fuzz"]
        if p and REC["on"] and (REC["fuzz_only"] is None or code.co_name in REC["fuzz_only"]):
            if REC["fuzz_first"]:       # only the thread that got here first is held up; the others run freely
                me = getattr(TL, "uid", None) or id(threading.current_thread())
                if REC["slow"] is None:
                    REC["slow"] = me
                if REC["slow"] != me:
                    return
            # the line just left by this thread stored into an attribute / item / global (the only way
            # Python code changes state another thread could see): a preemption right here is the interesting one
            prev = getattr(TL, "prev", None)
            if prev is None:
                prev = TL.prev = {}
            if (code, prev.get(code)) in stores:      # previous line of this function, in this thread
                p = max(p, REC["fuzz_store"])
            prev[code] = line
            r = rnd()
            if r < p:                   # half the time just hand the GIL over, half the time stay away for a while
                time.sleep(0 if r < p / 2 else REC["nap"])

    boring = {}
    stores = set()
    mon.register_callback(tool, mon.events.LINE, on_line)
    seen = set()
    import dis
    MUTATORS = {"append", "pop", "setdefault", "update", "insert", "extend", "remove", "clear", "popitem"}

    def add(code):
        if code in seen:
            return
        seen.add(code)
        mon.set_local_events(tool, code, mon.events.LINE)
        line = None
        for ins in dis.get_instructions(code):
            if ins.starts_line is not None:
                line = ins.starts_line
            if ins.opname in ("STORE_ATTR", "STORE_SUBSCR", "STORE_GLOBAL", "DELETE_ATTR", "DELETE_SUBSCR") or (
                    ins.opname in ("LOAD_ATTR", "LOAD_METHOD") and ins.argval in MUTATORS):
                stores.add((code, line))
        for c in code.co_consts:
            if hasattr(c, "co_code"):
                add(c)

    for f in funcs:
        f = getattr(f, "__func__", f)
        if hasattr(f, "__code__"):
            add(f.__code__)


# --------------------------------------------------------------------------------------------------
# EtherNet/IP framing for the raw clients (independent of cpppo: plain struct)
# --------------------------------------------------------------------------------------------------
def enip_frame(cmd, session, ctx, payload):
    return struct.pack("<HHII8sI", cmd, len(payload), session, 0, ctx, 0) + payload


def rrdata(session, ctx, cip):
    """SendRRData carrying an Unconnected Send (to the Connection Manager, route path port 1 link 0) of `cip`"""
    us = (bytes([0x52, 2, 0x20, 6, 0x24, 1, 5, 157]) + struct.pack("<H", len(cip)) + cip
          + (b"\0" if len(cip) % 2 else b"") + bytes([1, 0, 1, 0]))
    cpf = struct.pack("<IHHHHHH", 0, 5, 2, 0, 0, 0xb2, len(us)) + us
    return enip_frame(0x6f, session, ctx, cpf)


def recv_frame(sock, _rest={}):
    buf = _rest.pop(id(sock), b"")
    while len(buf) < 24:
        d = sock.recv(8192)
        if not d:
            return None
        buf += d
    cmd, ln, sess, status, ctx, _opt = struct.unpack("<HHII8sI", buf[:24])
    while len(buf) < 24 + ln:
        d = sock.recv(8192)
        if not d:
            return None
        buf += d
    if len(buf) > 24 + ln:
        _rest[id(sock)] = buf[24 + ln:]
    return {"cmd": cmd, "session": sess, "status": status, "ctx": ctx, "payload": buf[24:24 + ln]}


def cip_of(payload):
    """the unconnected data item of a SendRRData reply"""
    if len(payload) < 8:
        return None
    cnt = struct.unpack("<H", payload[6:8])[0]
    p = 8
    for _ in range(cnt):
        if p + 4 > len(payload):
            return None
        ty, ln = struct.unpack("<HH", payload[p:p + 4])
        if ty == 0xb2:
            return payload[p + 4:p + 4 + ln]
        p += 4 + ln
    return None


CHAOS = ["unknown_tag", "garbage_cip", "bad_command", "truncated", "bad_service"]


def chaos_bytes(kind, session, ctx, rng_seed):
    r = random.Random(rng_seed)
    if kind == "unknown_tag":      # a single request for a tag that does not exist: no Object to route to
        cip = bytes([0x52, 4, 0x91, 5]) + b"NoTag" + b"\0" + bytes([1, 0, 0, 0, 0, 0])
        return rrdata(session, ctx, cip)
    if kind == "garbage_cip":
        return rrdata(session, ctx, bytes(r.randrange(256) for _ in range(r.randint(1, 24))))
    if kind == "bad_service":      # unknown service code on the Message Router
        return rrdata(session, ctx, bytes([0x7d, 2, 0x20, 2, 0x24, 1, 1, 2, 3]))
    if kind == "bad_command":
        return enip_frame(0x1234, session, ctx, b"\1\2\3\4")
    if kind == "truncated":        # half a frame, then EOF
        f = rrdata(session, ctx, bytes([0x52, 2, 0x20, 2, 0x24, 1, 1, 0, 0, 0, 0, 0]))
        return f[:len(f) // 2]
    raise ValueError(kind)


# --------------------------------------------------------------------------------------------------
# helpers over requests
# --------------------------------------------------------------------------------------------------
def members_of(fr):
    """the tag requests a frame carries (a Get Attribute List frame, op "gl", carries none: it is outside the
    Lean model and checked by the oracle only)"""
    if fr["op"] == "gl":
        return []
    return fr["reqs"] if fr["op"] == "mu" else [fr]


def encode_gl(fr):
    """Get Attribute List (service 0x03) on class/instance `path`, for the attribute numbers `attrs`"""
    c, i = fr["path"]
    return bytes([0x03, 2, 0x20, c, 0x24, i]) + struct.pack("<H", len(fr["attrs"])) + b"".join(
        struct.pack("<H", a) for a in fr["attrs"])


def tag_spec(t):
    if t.get("addr"):
        c, i, a = t["addr"]
        return f"{t['name']}@{c}/{i}/{a}={t['type']}[{t['len']}]"
    return f"{t['name']}={t['type']}[{t['len']}]"


ROUTER = [["c", 2], ["i", 1]]


from corr import c09_fwd


class C09(Suite):
    id = "C09"
    props_module = "Cpppo.Props.C09"
    always_oracle = True
    rule = ("TWO families. (A) Connected sessions (op=fwd): one interleaved sequence of Forward Open / Forward Close / session end / "
            "Connected request operations of 2..4 peers sharing hosts or ports (equal connection IDs and serials across peers; "
            "Null-type and Point-to-Point opens with scripted target-picked IDs), run in-process on the real Connection_Manager / UCMM "
            "and, for half of them, as EtherNet/IP frames through logix.process with enip_srv_tcp's drop-on-failure around it; every "
            "sequence of <= 2 (thorough <= 3) operations of two same-host peers exhaustively, then seeded random ones; compared with the "
            "Lean table model (answers + final dict) and, independently, each peer replayed alone on the real code; non-trivial = a Connected "
            "request served after another peer's close/end. (B) "
            "a case = one freshly started real simulator + 2..8 real client sessions (raw EtherNet/IP sockets and "
            "cpppo client.connector) issuing read/write/fragmented/bundled requests on a shared stripe (only ever "
            "written whole), per-session private ranges and a free-for-all range of 1..3 tags, ~12% invalid "
            "requests, optionally one session ending in a malformed frame; exhaustive pairs of request shapes for "
            "two sessions first, then seeded random cases and bundle-only cases; session threads run under their default "
            "names or all under ONE common Thread name; parser locks optionally polite (a releasing thread lets a "
            "waiter in); peers are ephemeral 127.0.0.1 ports or explicit look-alike source addresses (127.0.0.1:2NNNN / "
            "127.0.0.12:NNNN, one port on several hosts, adjacent ports) with every second such session ending "
            "early; sessions may start a few ms apart (start-up cases: Tags still to be set up, preemptions confined to "
            "setup_tag); raw sessions also issue Get Attribute List requests for attribute numbers only they ask for "
            "(oracle only, outside the model); attribute-service cases read/replace whole array attributes with Get/Set "
            "Attribute Single, Read Tag and Write Tag (one value over the whole array); the interleaving is whatever the OS/GIL produced under "
            "switch intervals 1e-6..5e-3 with injected yields, and is recorded.  evaluations = cases (concurrent "
            "runs); distinct_nontrivial = requests that were in flight together with a conflicting request "
            "(same tag, overlapping elements, at least one a write) of another session")
    assumptions = [
        "CPython executes one list slice read / slice assignment atomically (the stamp is taken at that operation)",
        "threading.Lock provides mutual exclusion; the OS/GIL produces only interleavings of the modelled steps",
        "tags are arrays (len >= 2) of fixed-size types; Get Attributes All/List (one access per attribute) are "
        "outside the model; Get Attribute List is exercised for non-existent attribute numbers only (oracle only)",
        "bundles are addressed to the Message Router (class 2, instance 1)",
    ]
    trusted_extra = [
        "CPython GIL: atomicity of a single list slice operation; threading.Lock exclusion (C09: named, not verified)",
        "the recording layer of harness/corr/c09.py (RecList stamps, dfa_base enter/exit wrappers, enip_process wrapper)",
        "real schedules are sampled (OS scheduler), not enumerated",
    ]

    # ------------------------------------------------------------------ generation
    def setup(self, tier, rng):
        self.mods = install()
        logging.disable(logging.CRITICAL)
        self._stats = {}

    TYPES = ["DINT", "INT", "SINT", "DINT", "INT", "UDINT", "REAL", "LINT"]
    NAMES = ["A", "parts", "Tag_1", "SCADA", "x.y", "zz"]

    @staticmethod
    def value(ty, sid, k, j=0):
        """a value that identifies (session, request) as far as the type allows"""
        if ty == "SINT":
            return ((sid * 13 + k * 3 + j) % 127) + 1
        if ty == "INT":
            return sid * 3600 + (k % 300) * 11 + j + 1
        if ty == "REAL":
            return {"f32": struct.unpack("<I", struct.pack("<f", float(sid * 1000 + k + j * 0.5)))[0]}
        return sid * 1000000 + k * 100 + j + 1

    def layout(self, rng, nsess):
        """tags with a shared stripe [0,w), private ranges per session, and a free range"""
        tags = []
        for name in rng.sample(self.NAMES, rng.choice([1, 1, 2, 3])):
            ty = rng.choice(self.TYPES)
            w = rng.choice([2, 3, 4, 6])
            pw = rng.choice([1, 2, 3])
            free = rng.choice([2, 4, 7])
            addr = [rng.choice([0x93, 300]), rng.choice([1, 2]), rng.randint(1, 4)] if rng.random() < 0.25 else None
            if addr and any(t.get("addr") == addr for t in tags):
                addr = None
            tags.append({"name": name, "type": ty, "len": w + pw * nsess + free, "addr": addr,
                         "stripe": w, "pw": pw, "free0": w + pw * nsess, "owners": nsess})
        return tags

    def rand_member(self, rng, tags, sid, k, invalid=0.12):
        t = rng.choice(tags)
        ty, L, w, pw = t["type"], t["len"], t["stripe"], t["pw"]
        siz = lc.SIZES[ty]
        region = rng.choice(["stripe", "stripe", "private", "private", "free", "other_private"])
        write = rng.random() < 0.5
        if region == "stripe":
            beg, n = 0, w
            if not write and rng.random() < 0.3:          # partial stripe reads are fine too
                beg = rng.randint(0, w - 1)
                n = rng.randint(1, w - beg)
            vals = [self.value(ty, sid, k)] * n
        elif region in ("private", "other_private"):
            owner = sid if (region == "private" or write) else rng.randrange(t["owners"])
            base = w + pw * (owner % t["owners"])
            off = rng.randint(0, pw - 1)
            beg, n = base + off, rng.randint(1, pw - off)
            if not write and rng.random() < 0.3:          # a read across stripe, private and free ranges
                beg = rng.randint(0, L - 1)
                n = rng.randint(1, L - beg)
            vals = [self.value(ty, sid, k, j) for j in range(n)]
        else:
            beg = rng.randint(t["free0"], L - 1)
            n = rng.randint(1, L - beg)
            vals = [self.value(ty, sid, k, j) for j in range(n)]
        path = lg.tag_path(rng, t, elem=beg if (beg or rng.random() < 0.5) else None)
        bad = rng.random() < invalid
        frag = rng.random() < 0.6
        if write:
            r = {"op": "wf" if frag else "wt", "path": path, "ty": lc.TYPES[ty], "n": n, "vals": vals}
            if frag:
                r["off"] = 0
                if region != "stripe" and n > 1 and rng.random() < 0.2:    # a later fragment of a fragmented write
                    j = rng.randint(1, n - 1)
                    r["off"], r["vals"] = j * siz, vals[j:]
            if bad:
                kind = rng.choice(["range", "type", "count"])
                if kind == "range":
                    r["path"] = lg.tag_path(rng, t, elem=L - 1)
                    r["n"], r["vals"] = 3, [self.value(ty, sid, k)] * 3
                elif kind == "type":
                    r["ty"] = lc.TYPES["LREAL" if ty != "LREAL" else "STRING"]
                    r["vals"] = [{"f64": 0x3ff0000000000000}] * n
                else:
                    r["n"] = L + 1
        else:
            r = {"op": "rf" if frag else "rt", "path": path, "n": n}
            if frag:
                r["off"] = 0
                if n > 1 and rng.random() < 0.25:         # continue a fragmented read at element j
                    r["off"] = rng.randint(1, n - 1) * siz
            if bad:
                kind = rng.choice(["range", "count", "zero"])
                if kind == "range":
                    r["path"] = lg.tag_path(rng, t, elem=L + rng.randint(0, 3))
                elif kind == "count":
                    r["n"] = L + 1
                else:
                    r["n"] = 0
        return r

    @staticmethod
    def gl_frame(rng, sid, k):
        """Get Attribute List for 1..3 attribute numbers nobody else asks for (and no object has)"""
        base = 1000 + sid * 600 + (k % 100) * 5
        return {"op": "gl", "path": rng.choice([[2, 1], [1, 1]]), "attrs": [base + j for j in range(rng.randint(1, 3))]}

    def rand_frame(self, rng, tags, sid, k, bundles=True, gl=0.0):
        if gl and rng.random() < gl:
            return self.gl_frame(rng, sid, k)
        if bundles and rng.random() < 0.25:
            ms = [self.rand_member(rng, tags, sid, k * 8 + j) for j in range(rng.choice([1, 2, 2, 3, 4]))]
            if rng.random() < 0.15:    # an unknown tag inside a bundle is refused with 0x05, the session goes on
                ms.insert(rng.randrange(len(ms) + 1), {"op": "rt", "path": [["s", "NoSuchTag"]], "n": 1})
            return {"op": "mu", "path": ROUTER, "reqs": ms}
        return self.rand_member(rng, tags, sid, k * 8)

    def rand_case(self, rng, tier):
        nsess = rng.choice([2, 2, 3, 4, 4, 6, 8])
        tags = self.layout(rng, nsess)
        per = rng.choice([4, 8, 12, 20]) if tier == "quick" else rng.choice([8, 16, 30, 50])
        sessions = []
        for sid in range(nsess):
            client = "cpppo" if rng.random() < 0.2 else "raw"
            frames = [self.rand_frame(rng, tags, sid, k, gl=0.06 if client == "raw" else 0.0)
                      for k in range(rng.randint(max(1, per // 2), per))]
            sessions.append({"client": client, "frames": frames, "chaos": None, "depth": rng.choice([1, 1, 2, 4]),
                             "delay": rng.choice([0, 0, 0, 0.002, 0.01, 0.03])})
        if rng.random() < 0.3:
            raws = [s for s in sessions if s["client"] == "raw"]
            if raws:
                rng.choice(raws)["chaos"] = rng.choice(CHAOS)
        return {"budget": rng.choice([488, 488, 488, 40, 12]), "tags": tags, "sessions": sessions,
                "si": rng.choice([1e-6, 1e-6, 1e-5, 1e-4, 5e-3]), "yield": rng.random() < 0.8,
                "fuzz": rng.choice([0.0, 0.005, 0.01, 0.02]), "nap": rng.choice([0.003, 0.01]),
                "fuzz_store": rng.choice([0.0, 0.05, 0.15]),
                "thread_name": rng.choice([None, "enip", "enip"]), "polite": rng.choice([0.0, 0.5, 1.0]),
                "peers": rng.choice([None, None, "concat", "sameport", "samehost-adjacent"]),
                "seed": rng.randrange(1 << 30)}

    def peer_case(self, rng, tier):
        """2..6 raw sessions whose peer addresses look alike (host+port spelling the same digits, one port on
        several hosts, adjacent ports), every second one ending early while its look-alike goes on: a session
        ending must not disturb any other session, whatever the peers' addresses"""
        nsess = rng.choice([2, 2, 4, 6])
        tags = self.layout(rng, nsess)
        per = rng.choice([8, 12]) if tier == "quick" else rng.choice([12, 24, 40])
        sessions = []
        for sid in range(nsess):
            n = per if sid % 2 == 0 else rng.randint(1, max(1, per // 4))
            frames = [self.rand_frame(rng, tags, sid, k) for k in range(n)]
            sessions.append({"client": "raw", "frames": frames, "chaos": None, "depth": 1})
        return {"budget": 488, "tags": tags, "sessions": sessions, "si": rng.choice([1e-5, 1e-4, 5e-3]),
                "yield": rng.random() < 0.5, "fuzz": 0.0, "nap": 0.003, "fuzz_store": 0.0,
                "thread_name": rng.choice([None, "enip"]), "polite": rng.choice([0.0, 0.5]),
                "peers": rng.choice(["concat", "concat", "sameport", "samehost-adjacent"]),
                "seed": rng.randrange(1 << 30)}

    def startup_case(self, rng, tier):
        """3..6 raw sessions arriving a few ms apart at a simulator whose Tags (several with explicit CIP addresses in
        classes that do not exist yet) are still to be set up by the first request; the set-up code is preempted
        often (schedule fuzzer): no session may be disturbed by another session's arrival during start-up"""
        nsess = rng.choice([4, 6, 8])
        tags = self.layout(rng, nsess)
        names = [n for n in self.NAMES + ["T9", "b", "Cfg.Val"] if n not in [t["name"] for t in tags]]
        used = {tuple(t["addr"]) for t in tags if t.get("addr")}
        for j in range(rng.choice([3, 4, 5])):          # more Tags, in further not-yet-existing classes
            addr = [rng.choice([0x93, 300, 0x401, 0x77]), rng.choice([1, 2]), rng.randint(1, 5)]
            if tuple(addr) in used:
                continue
            used.add(tuple(addr))
            tags.append({"name": names[j], "type": rng.choice(["DINT", "INT"]), "len": 4 + nsess, "addr": addr,
                         "stripe": 2, "pw": 1, "free0": 2 + nsess, "owners": nsess})
        sessions = []
        for sid in range(nsess):
            frames = [self.rand_frame(rng, tags, sid, k, bundles=False) for k in range(rng.choice([1, 2, 3]))]
            sessions.append({"client": "raw", "frames": frames, "chaos": None, "depth": 1,
                             "delay": 0 if sid == 0 else round(rng.uniform(0.005, 0.12), 3)})
        # the preemptions are confined to the Tag set-up (the first request handler is held up there), so that the
        # later arrivals find the simulator half set up
        return {"budget": 488, "tags": tags, "sessions": sessions, "si": rng.choice([1e-6, 1e-4, 5e-3]),
                "yield": True, "fuzz": 0.1, "nap": 0.005, "fuzz_store": 0.3, "fuzz_only": ["setup_tag"],
                "thread_name": rng.choice([None, "enip"]), "polite": 0.0,
                "peers": None, "seed": rng.randrange(1 << 30)}

    def gal_case(self, rng, tier):
        """2..4 raw sessions mixing Get Attribute List requests (each for attribute numbers only it asks for) with
        tag traffic: a reply must answer the list its own request carried"""
        nsess = rng.choice([2, 3, 4])
        tags = self.layout(rng, nsess)
        per = rng.choice([4, 6]) if tier == "quick" else rng.choice([8, 16])
        sessions = []
        for sid in range(nsess):
            frames = [self.rand_frame(rng, tags, sid, k, gl=0.5) for k in range(per)]
            sessions.append({"client": "raw", "frames": frames, "chaos": None, "depth": rng.choice([1, 2]), "delay": 0})
        return {"budget": 488, "tags": tags, "sessions": sessions, "si": rng.choice([1e-6, 1e-4, 5e-3]),
                "yield": rng.random() < 0.5, "fuzz": rng.choice([0.0, 0.01]), "nap": 0.003, "fuzz_store": 0.0,
                "thread_name": rng.choice([None, "enip"]), "polite": rng.choice([0.0, 0.5]), "peers": None,
                "seed": rng.randrange(1 << 30)}

    def attr_case(self, rng, tier):
        """2..4 sessions reading and replacing WHOLE array attributes: Get / Set Attribute Single on the numeric
        address, Read Tag of all elements, Write Tag of one value over all elements.  Every write writes one value
        over the whole array, so every read must return equal elements (a multi-element read never observes part
        of a multi-element write)"""
        nsess = rng.choice([2, 3, 4])
        tags, k_auto = [], 0
        for name in rng.sample(self.NAMES, rng.choice([1, 2])):
            ty = rng.choice(["DINT", "INT", "SINT", "UDINT", "LINT"])
            addr = [rng.choice([0x93, 300]), 1, rng.randint(1, 4)] if rng.random() < 0.4 else None
            if addr and any(t.get("addr") == addr for t in tags):
                addr = None
            if addr is None:
                k_auto += 1
            L = rng.choice([2, 4, 6, 12])
            tags.append({"name": name, "type": ty, "len": L, "addr": addr, "stripe": L, "pw": 0, "free0": L,
                         "owners": nsess, "numeric": addr or [2, 1, k_auto]})     # the Message Router numbers Tags 1, 2, …
        per = rng.choice([6, 10]) if tier == "quick" else rng.choice([12, 24, 40])
        sessions = []
        for sid in range(nsess):
            frames = []
            for k in range(per):
                t = rng.choice(tags)
                ty, L, siz = t["type"], t["len"], lc.SIZES[t["type"]]
                npath = [["c", t["numeric"][0]], ["i", t["numeric"][1]], ["a", t["numeric"][2]]]
                v = self.value(ty, sid, k)
                kind = rng.choice(["gs", "gs", "ss", "ss", "rt", "wt"])
                if kind == "gs":
                    fr = {"op": "gs", "path": npath}
                elif kind == "ss":
                    fr = {"op": "ss", "path": npath, "data": list(lc.encode_vals(ty, [v] * L))}
                elif kind == "rt":
                    fr = {"op": "rt", "path": [["s", t["name"]]], "n": L}
                else:
                    fr = {"op": "wt", "path": [["s", t["name"]]], "ty": lc.TYPES[ty], "n": L, "vals": [v] * L}
                frames.append(fr)
            sessions.append({"client": "raw", "frames": frames, "chaos": None, "depth": rng.choice([1, 2]), "delay": 0})
        return {"budget": 488, "tags": tags, "sessions": sessions, "si": rng.choice([1e-6, 1e-6, 1e-4]),
                "yield": True, "fuzz": rng.choice([0.0, 0.01]), "nap": 0.003, "fuzz_store": rng.choice([0.0, 0.05]),
                "thread_name": rng.choice([None, "enip"]), "polite": 0.0, "peers": None,
                "seed": rng.randrange(1 << 30)}

    def storm_case(self, rng, tier):
        """2..4 sessions that send nothing but bundles, served by threads that all carry one name, with polite
        parser locks: the schedules in which one thread enters the shared parser exactly when another leaves it
        between a bundle's header and its members"""
        nsess = rng.choice([2, 3, 3, 4])
        tags = self.layout(rng, nsess)
        per = rng.choice([6, 10]) if tier == "quick" else rng.choice([10, 20, 30])
        sessions = []
        for sid in range(nsess):
            frames = []
            for k in range(per):
                ms = [self.rand_member(rng, tags, sid, k * 8 + j, invalid=0.05) for j in range(rng.choice([1, 2, 3, 5]))]
                frames.append({"op": "mu", "path": ROUTER, "reqs": ms})
            sessions.append({"client": "raw", "frames": frames, "chaos": None, "depth": rng.choice([1, 2])})
        return {"budget": 488, "tags": tags, "sessions": sessions, "si": rng.choice([1e-6, 1e-4, 5e-3]),
                "yield": rng.random() < 0.5, "fuzz": rng.choice([0.0, 0.005]), "nap": 0.003,
                "fuzz_store": rng.choice([0.0, 0.05]), "thread_name": rng.choice(["enip", "enip", "worker", None]),
                "polite": rng.choice([0.5, 1.0, 1.0]), "seed": rng.randrange(1 << 30)}

    def pair_cases(self):
        """exhaustive small scope: every ordered pair of request shapes, two sessions, one 6-element DINT tag"""
        tag = {"name": "A", "type": "DINT", "len": 6, "addr": None, "stripe": 4, "pw": 1, "free0": 6, "owners": 2}

        def shapes(sid):
            v = lambda k, n: [self.value("DINT", sid, k)] * n
            P = lambda e: [["s", "A"]] + ([["e", e]] if e is not None else [])
            return [
                lambda k: {"op": "rf", "path": P(0), "n": 4, "off": 0},
                lambda k: {"op": "rt", "path": P(None), "n": 6},
                lambda k: {"op": "wf", "path": P(0), "ty": 0xc4, "n": 4, "off": 0, "vals": v(k, 4)},
                lambda k: {"op": "wt", "path": P(0), "ty": 0xc4, "n": 4, "vals": v(k, 4)},
                lambda k: {"op": "wt", "path": P(4 + sid), "ty": 0xc4, "n": 1, "vals": v(k, 1)},
                lambda k: {"op": "mu", "path": ROUTER, "reqs": [
                    {"op": "wf", "path": P(0), "ty": 0xc4, "n": 4, "off": 0, "vals": v(k, 4)},
                    {"op": "rf", "path": P(0), "n": 4, "off": 0}]},
                lambda k: {"op": "rf", "path": P(5), "n": 4, "off": 0},       # refused: beyond the end
            ]
        n = len(shapes(0))
        for a in range(n):
            for b in range(n):
                sess = []
                peers = "concat" if (a + b) % 3 == 1 else None
                for sid, sh in ((0, a), (1, b)):
                    sess.append({"client": "raw", "chaos": None,       # with look-alike peers, session 1 ends early
                                 "frames": [shapes(sid)[sh](k) for k in range(2 if (peers and sid) else 5)]})
                yield {"budget": 488, "tags": [dict(tag)], "sessions": sess, "si": 1e-6, "yield": True,
                       "fuzz": [0.0, 0.01, 0.02][(a + b) % 3], "nap": 0.005, "fuzz_store": [0.1, 0.0, 0.05][(a * 2 + b) % 3],
                       "thread_name": "enip" if (a + b) % 2 == 0 else None, "polite": [1.0, 0.0, 0.5][(a + 2 * b) % 3],
                       "peers": peers,
                       "seed": a * n + b}

    def cases(self, tier, rng):
        # Connected sessions: the Connection Manager's shared Forward Open table (in-process, see c09_fwd.py)
        for c in c09_fwd.pairs():
            yield c
        for wire in (False, True):     # every sequence of <= 2 (thorough: <= 3) operations of two same-host peers
            for c in c09_fwd.exhaustive(2 if tier == "quick" else 3, wire):
                yield c
        for k in range(150 if tier == "quick" else 1500):
            yield c09_fwd.gen(rng, big=(k % 6 == 5))
        for c in self.pair_cases():
            yield c
        n = 24 if tier == "quick" else 160
        for i in range(n):
            if i % 5 == 0:
                yield self.storm_case(rng, tier)
            if i % 5 == 2:
                yield self.peer_case(rng, tier)
            if i % 3 == 1:
                yield self.startup_case(rng, tier)
            if i % 10 == 3:
                yield self.gal_case(rng, tier)
            if i % 5 == 4:
                yield self.attr_case(rng, tier)
            yield self.rand_case(rng, tier)

    def search_cases(self, tier, rng):
        for c in c09_fwd.pairs():
            yield c
        while True:
            for _ in range(20):
                yield c09_fwd.gen(rng, big=rng.random() < 0.3)
            yield self.storm_case(rng, "thorough")
            yield self.peer_case(rng, "thorough")
            yield self.startup_case(rng, "thorough")
            yield self.gal_case(rng, "thorough")
            yield self.attr_case(rng, "thorough")
            yield self.rand_case(rng, "thorough")

    # ------------------------------------------------------------------ running the real thing
    def start_server(self, case):
        m = self.mods
        m["device"].lookup_reset()
        m["logix"].setup_reset()
        m["enip_main"].tags.clear()
        ctl = m["cpppo"].apidict(timeout=1.0)
        ctl["done"] = False
        ctl["latency"] = 0.01
        argv = ["--address", "127.0.0.1:0", "--no-udp", "--no-config"] + [tag_spec(t) for t in case["tags"]]
        kw = dict(argv=argv, attribute_class=m["RecAttribute"], enip_process=m["rec_process"],
                  server={"control": ctl})
        th = threading.Thread(target=m["enip_main"].main, kwargs=kw, daemon=True)
        th.start()
        t0 = time.time()
        while not ctl.get("address") or not ctl["address"][1]:
            time.sleep(0.002)
            if time.time() - t0 > 10 or not th.is_alive():
                raise RuntimeError("simulator did not start")
        return th, ctl

    def raw_session(self, port, sid, sess, encoded, out, barrier, bound=None):
        try:
            if bound is not None:           # a socket already bound to the peer address the case asks for
                s = bound
                s.settimeout(20)
                s.connect(("127.0.0.1", port))
            else:
                s = socket.create_connection(("127.0.0.1", port), timeout=20)
            s.setsockopt(socket.IPPROTO_TCP, socket.TCP_NODELAY, 1)
            out["port"] = s.getsockname()[1]
            out["peer"] = list(s.getsockname()[:2])
            barrier.wait(timeout=20)
            if sess.get("delay"):           # staggered arrivals: some sessions start while others are being set up
                time.sleep(sess["delay"])
            s.sendall(enip_frame(0x65, 0, b"register", struct.pack("<HH", 1, 0)))
            r = recv_frame(s)
            if r is None or r["status"] != 0:
                out["error"] = "Register Session not answered (connection closed by the simulator)"
                return
            out["handle"] = handle = r["session"]
            depth = max(1, int(sess.get("depth", 1)))      # requests in flight on this connection
            sent = 0
            for k in range(len(encoded)):
                try:
                    while sent < len(encoded) and sent < k + depth:
                        s.sendall(rrdata(handle, struct.pack("<II", sid, sent), encoded[sent]))
                        sent += 1
                    ctx = struct.pack("<II", sid, k)
                    r = recv_frame(s)
                except (ConnectionResetError, BrokenPipeError):      # the simulator closed the connection
                    r = None
                if r is None:
                    out["replies"].append(None)
                    out["closed_at"] = k
                    break
                ok = r["ctx"] == ctx and r["session"] == handle and r["cmd"] == 0x6f
                cipr = cip_of(r["payload"]) if r["status"] == 0 else None
                out["replies"].append({"enip": r["status"], "ctx_ok": ok, "cip": cipr.hex() if cipr else None})
            else:
                if sess.get("chaos"):
                    ctx = struct.pack("<II", sid, 0xFFFF)
                    s.sendall(chaos_bytes(sess["chaos"], handle, ctx, sid))
                    if sess["chaos"] == "truncated":
                        s.shutdown(socket.SHUT_WR)
                    try:
                        r = recv_frame(s)
                    except socket.timeout:
                        r = "timeout"
                    if r is None:
                        out["chaos"] = "closed"
                    elif r == "timeout":
                        out["chaos"] = "timeout"
                    else:
                        cipr = cip_of(r["payload"]) if r["status"] == 0 else None
                        out["chaos"] = {"enip": r["status"], "cip": cipr.hex() if cipr else None}
            s.close()
        except Exception as exc:  # noqa
            out["error"] = type(exc).__name__ + ":" + str(exc)[:120]

    def cpppo_session(self, port, sid, sess, out, barrier):
        m = self.mods
        try:
            with m["client"].connector(host="127.0.0.1", port=port, timeout=20.0) as conn:
                out["port"] = conn.conn.getsockname()[1]
                out["peer"] = list(conn.conn.getsockname()[:2])
                out["handle"] = conn.session
                barrier.wait(timeout=20)
                for k, fr in enumerate(sess["frames"]):
                    ctx = struct.pack("<II", sid, k)
                    conn.req_send(request=lc.req_dotdict(fr), sender_context=ctx)
                    rsp, _ = m["client"].await_response(conn, timeout=20.0)
                    if not rsp:
                        out["replies"].append(None)
                        out["closed_at"] = k
                        break
                    ok = (bytes(bytearray(rsp.enip.sender_context.input)) == ctx
                          and rsp.enip.session_handle == conn.session)
                    cipr = None
                    if rsp.enip.status == 0:
                        cipr = bytes(bytearray(rsp.enip.CIP.send_data.CPF.item[1].unconnected_send.request.input))
                    out["replies"].append({"enip": rsp.enip.status, "ctx_ok": ok,
                                           "cip": cipr.hex() if cipr else None})
        except Exception as exc:  # noqa
            out["error"] = type(exc).__name__ + ":" + str(exc)[:120]

    @staticmethod
    def bind_peers(case):
        """Sockets bound to the peer addresses the case asks for (all of 127/8 is loopback).  `peers`:
          "concat"    sessions 2i, 2i+1 come from 127.0.0.1:2NNNN and 127.0.0.12:NNNN (host+port spell the same digits)
          "sameport"  all sessions come from the same port NNNN of different hosts 127.0.0.(10+sid)
          "samehost-adjacent"  consecutive ports of one host
        Different peers, however alike their addresses look, are different sessions.  -> {sid: socket}"""
        kind = case.get("peers")
        if not kind:
            return {}
        rng = random.Random(case.get("seed", 0) ^ os.getpid())
        raw = [sid for sid, s_ in enumerate(case["sessions"]) if s_["client"] == "raw"]

        def bind(host, port):
            s = socket.socket(socket.AF_INET, socket.SOCK_STREAM)
            s.setsockopt(socket.SOL_SOCKET, socket.SO_REUSEADDR, 1)
            try:
                s.bind((host, port))
                return s
            except OSError:
                s.close()
                return None

        out = {}
        if kind == "concat":
            for a, b in zip(raw[0::2], raw[1::2]):
                for _ in range(50):
                    n = rng.randint(1100, 9999)
                    sa, sb = bind("127.0.0.1", 20000 + n), bind("127.0.0.12", n)
                    if sa and sb:
                        out[a], out[b] = sa, sb
                        break
                    for x in (sa, sb):
                        if x:
                            x.close()
        elif kind == "sameport":
            for _ in range(50):
                n = rng.randint(11000, 29999)
                socks = [bind(f"127.0.0.{10 + sid}", n) for sid in raw]
                if all(socks):
                    out = dict(zip(raw, socks))
                    break
                for x in socks:
                    if x:
                        x.close()
        elif kind == "samehost-adjacent":
            for _ in range(50):
                n = rng.randint(11000, 29000)
                socks = [bind("127.0.0.1", n + i) for i, _sid in enumerate(raw)]
                if all(socks):
                    out = dict(zip(raw, socks))
                    break
                for x in socks:
                    if x:
                        x.close()
        return out

    def run_clients(self, case, port, encoded):
        """the client sessions run in a forked child process (threads there), so that the simulator's threads
        have this interpreter to themselves and clients and server run truly in parallel"""
        rd, wr = os.pipe()
        pid = os.fork()
        if pid == 0:
            code = 0
            try:
                os.close(rd)
                REC["on"] = False
                REC["fuzz"] = 0.0
                sys.setswitchinterval(0.005)
                outs = [{"replies": []} for _ in case["sessions"]]
                barrier = threading.Barrier(len(case["sessions"]))
                bound = self.bind_peers(case)
                ths = []
                for sid, sess in enumerate(case["sessions"]):
                    if sess["client"] == "raw":
                        t = threading.Thread(target=self.raw_session,
                                             args=(port, sid, sess, encoded[sid], outs[sid], barrier, bound.get(sid)),
                                             daemon=True)
                    else:
                        t = threading.Thread(target=self.cpppo_session, args=(port, sid, sess, outs[sid], barrier),
                                             daemon=True)
                    ths.append(t)
                for t in ths:
                    t.start()
                hung = False
                for t in ths:
                    t.join(timeout=60)
                    hung = hung or t.is_alive()
                data = json.dumps({"outs": outs, "hung": hung}).encode()
                with os.fdopen(wr, "wb") as f:
                    f.write(data)
            except BaseException:  # noqa
                code = 1
            finally:
                os._exit(code)
        os.close(wr)
        buf = b""
        deadline = time.time() + 100
        import select
        with os.fdopen(rd, "rb", buffering=0) as f:
            while True:
                left = deadline - time.time()
                if left <= 0:
                    break
                r, _, _ = select.select([f], [], [], min(left, 1.0))
                if r:
                    d = f.read(1 << 16)
                    if not d:
                        break
                    buf += d
        try:
            if time.time() >= deadline:
                os.kill(pid, 9)
            os.waitpid(pid, 0)
        except OSError:
            pass
        if not buf:
            return [{"replies": [], "error": "client process failed"} for _ in case["sessions"]], True
        res = json.loads(buf.decode())
        return res["outs"], res["hung"]

    def impl(self, case):
        if case.get("op") == "fwd":
            return c09_fwd.run_case(case)
        m = self.mods if hasattr(self, "mods") else install()
        self.mods = m
        logging.disable(logging.CRITICAL)
        case.pop("obs", None)
        logix = m["logix"]
        saved_max, saved_si = logix.Logix.MAX_BYTES, sys.getswitchinterval()
        REC["events"] = []
        REC["ctr"] = itertools.count()
        th = ctl = None
        try:
            # encode the raw sessions' requests with cpppo's own encoder (before the race starts)
            encoded = []
            for sess in case["sessions"]:
                encoded.append([encode_gl(fr) if fr["op"] == "gl" else bytes(logix.Logix.produce(lc.req_dotdict(fr)))
                                for fr in sess["frames"]]
                               if sess["client"] == "raw" else None)
            th, ctl = self.start_server(case)
            port = ctl["address"][1]
            logix.Logix.MAX_BYTES = case["budget"]
            REC["yield"] = bool(case["yield"])
            REC["fuzz"] = float(case.get("fuzz", 0.0))
            REC["nap"] = float(case.get("nap", 0.001))
            REC["fuzz_store"] = float(case.get("fuzz_store", 0.0))
            REC["fuzz_only"] = set(case["fuzz_only"]) if case.get("fuzz_only") else None
            REC["fuzz_first"], REC["slow"] = bool(case.get("fuzz_first")), None
            REC["thread_name"] = case.get("thread_name") or None
            REC["polite"] = float(case.get("polite", 0.0))
            sys.setswitchinterval(case["si"])
            REC["on"] = True
            outs, hung = self.run_clients(case, port, encoded)
            REC["on"] = False
            REC["fuzz"] = 0.0
            sys.setswitchinterval(saved_si)
            time.sleep(0.01)
            events = list(REC["events"])
            obs = self.observe(case, outs, events, hung)
            case["obs"] = obs
            # lock discipline as observed (exclusion on every shared parser; 3 + members outermost sections per
            # frame): part of the correspondence with the model's step structure, not of the property oracle
            status = "ok"
            if obs.get("excl"):
                status = "anomaly:two-threads-inside-one-parser"
            elif obs.get("struct"):
                status = "anomaly:parser-sections"
            return status + " " + obs["replies_line"] + " " + obs["dump"]
        finally:
            REC["on"] = False
            REC["thread_name"], REC["polite"], REC["fuzz_only"], REC["fuzz_first"] = None, 0.0, None, False
            sys.setswitchinterval(saved_si)
            logix.Logix.MAX_BYTES = saved_max
            if ctl is not None:
                ctl["done"] = True
                th.join(timeout=3)

    # ------------------------------------------------------------------ turning the recording into an observation
    def observe(self, case, outs, events, hung):
        m = self.mods
        device = m["device"]
        obs = {"hung": hung, "errors": [o.get("error") for o in outs], "struct": [], "excl": []}
        # where did the real setup put the tags
        addrs, order = {}, []
        for t in case["tags"]:
            a = device.resolve_tag(t["name"])
            addrs[t["name"]] = list(a) if a else None
        obs["addrs"] = addrs
        missing = [n for n, a in addrs.items() if a is None or device.lookup(*a) is None]
        if missing:
            obs["missing_tags"] = missing
            obs["sessions"] = [{"replies": o["replies"]} for o in outs]
            obs["replies_line"], obs["dump"] = "-", "-"
            return obs
        parts = []
        for t in case["tags"]:
            c, i, a = addrs[t["name"]]
            parts.append(f"{t['name'].encode('latin-1').hex()}@{c}.{i}.{a}:{lc.TYPES[t['type']]}:{t['len']}:0")
            if (c, i, a) not in order:
                order.append((c, i, a))
        obs["tagline"] = ",".join(parts)
        # final dump, in the model's order: router object first, then objects by first appearance
        objs = [(2, 1)]
        for c, i, a in order:
            if (c, i) not in objs:
                objs.append((c, i))
        items = []
        for c, i in objs:
            for (cc, ii, a) in order:
                if (cc, ii) == (c, i):
                    try:
                        items.append(f"{c}.{i}.{a}={lc.hexs(device.lookup(c, i, a).produce())}")
                    except Exception:
                        items.append(f"{c}.{i}.{a}=X")
        obs["dump"] = ",".join(items) if items else "-"
        name2addr = {}
        for t in case["tags"]:          # RecList.name is the name of the tag that created the Attribute
            name2addr[t["name"]] = tuple(addrs[t["name"]])

        # replies as the clients saw them
        lines = []
        for o, sess_ in zip(outs, case["sessions"]):
            reps = [(r["cip"] if r and r["cip"] else "X") for r, fr_ in zip(o["replies"], sess_["frames"])
                    if r is not None and fr_["op"] != "gl"]
            lines.append(",".join(reps) if reps else "-")
        obs["replies_line"] = "^".join(lines)
        obs["sessions"] = [{"port": o.get("port"), "peer": o.get("peer"), "handle": o.get("handle"), "replies": o["replies"],
                            "chaos": o.get("chaos"), "closed_at": o.get("closed_at")} for o in outs]

        # server threads: groups F … S per thread, peer port -> session
        port2sid = {tuple(o["peer"]): sid for sid, o in enumerate(outs) if o.get("peer")}
        per_thread = {}
        for e in events:
            per_thread.setdefault(e[1], []).append(e)
        pid_of, sections_all = {}, []
        groups = {}                                     # sid -> list of groups
        for tid, evs in per_thread.items():
            fs = [e for e in evs if e[2] == "F"]
            if not fs or fs[0][3] is None:
                continue
            sid = port2sid.get(tuple(fs[0][3][:2]))
            if sid is None:
                continue
            cur, gl = None, []
            for e in evs:
                if e[2] == "F":
                    cur = {"F": e[0], "S": None, "sec": [], "X": []}
                    gl.append(cur)
                elif cur is None:
                    continue
                elif e[2] == "S":
                    cur["S"] = e[0]
                    cur = None
                elif e[2] == "A":
                    cur["sec"].append([e[0], None, e[3]])
                elif e[2] == "R":
                    for sec in reversed(cur["sec"]):
                        if sec[2] == e[3] and sec[1] is None:
                            sec[1] = e[0]
                            break
                elif e[2] == "X":
                    cur["X"].append({"seq": e[0], "addr": list(name2addr.get(e[3], (0, 0, 0))), "kind": e[4],
                                     "beg": e[5], "end": e[6]})
            groups[sid] = gl
        for gl in groups.values():
            for g in gl:
                for a, r, p in g["sec"]:
                    pid_of.setdefault(p, len(pid_of))
                    sections_all.append((a, r, pid_of[p]))
        # O6 lock exclusion on every shared parser
        byp = {}
        for a, r, p in sections_all:
            byp.setdefault(p, []).append((a, r))
        for p, secs in byp.items():
            secs.sort()
            for (a1, r1), (a2, _r2) in zip(secs, secs[1:]):
                if r1 is None or a2 < r1:
                    obs["excl"].append(f"parser #{p}: section entered at stamp {a2} while the section entered at {a1} "
                                       f"was still inside (left at {r1})")
                    break
        # per session: frame k of the program <-> group k+1 of its thread (group 0 is the Register)
        trace, prog_line, frames_obs = [], [], []
        for sid, sess in enumerate(case["sessions"]):
            gl = groups.get(sid, [])
            nrep = len([r for r in outs[sid]["replies"] if r is not None])
            fl, pl = [], []
            for k, fr in enumerate(sess["frames"]):
                mem = members_of(fr)
                g = gl[k + 1] if k + 1 < len(gl) else None
                if g is None or k >= nrep or g["S"] is None:
                    # not served (session died earlier): not part of the model's program
                    break
                if fr["op"] == "gl":            # outside the model: no steps; must not touch tag storage
                    fl.append({"F": g["F"], "S": g["S"], "acc": [], "extra": list(g["X"]), "statuses": []})
                    continue
                want = 3 + (len(mem) if fr["op"] == "mu" else 0)
                secs = g["sec"]
                if len(secs) != want or any(s[1] is None for s in secs):
                    obs["struct"].append(f"session {sid} frame {k}: {len(secs)} shared-parser sections, expected {want} "
                                         f"(this thread parsed something else than the members of its own request)")
                msecs = secs[-len(mem):] if len(secs) >= len(mem) else []
                statuses = self.member_statuses(fr, outs[sid]["replies"][k])
                key = (g["F"], 0)
                trace.append((key, sid, "F"))
                pids = []
                for j, _mm in enumerate(mem):
                    if j < len(msecs):
                        a, r, p = msecs[j]
                        pid = pid_of[p]
                        trace.append(((a, 0), sid, f"A{pid}"))
                        trace.append(((a, 1), sid, f"f{pid}"))
                        trace.append(((r if r is not None else a, 2), sid, f"R{pid}"))
                        key = (r if r is not None else a, 2)
                    else:
                        pid = 99
                    pids.append(pid)
                key = (key[0], key[1] + 1)
                trace.append((key, sid, "P"))
                xs = list(g["X"])
                acc = []
                for j, mm in enumerate(mem):
                    st = statuses[j] if j < len(statuses) else None
                    if st in (0, 6) and xs:
                        x = xs.pop(0)
                        key = (x["seq"], 0)
                        acc.append(x)
                    else:
                        key = (key[0], key[1] + 1)
                        acc.append(None)
                    trace.append((key, sid, "X"))
                for x in xs:                               # accesses the model has no step for
                    trace.append(((x["seq"], 0), sid, "X"))
                trace.append(((g["S"], 0), sid, "S"))
                fl.append({"F": g["F"], "S": g["S"], "acc": acc, "extra": [x for x in xs], "statuses": statuses})
                pl.append(".".join(map(str, pids)) + "~" + lc.req_line(fr))
            frames_obs.append(fl)
            prog_line.append(";".join(pl) if pl else "-")
            # chaos frame: the group after the last program frame must not touch storage
            if sess.get("chaos") and len(fl) == len(sess["frames"]):
                g = gl[len(sess["frames"]) + 1] if len(sess["frames"]) + 1 < len(gl) else None
                obs.setdefault("chaos_access", {})[str(sid)] = len(g["X"]) if g else 0
        trace.sort(key=lambda t: t[0])
        obs["trace"] = ",".join(f"{sid}{lab}" for _k, sid, lab in trace)
        obs["prog"] = "^".join(prog_line)
        obs["frames"] = frames_obs
        return obs

    @staticmethod
    def member_statuses(fr, reply):
        """CIP status of every member of the frame, from the reply the client received (None = unknown)"""
        if not reply or not reply.get("cip"):
            return [None] * len(members_of(fr))
        rep = lg.parse_reply(bytes.fromhex(reply["cip"]))
        if rep is None:
            return [None] * len(members_of(fr))
        if fr["op"] != "mu":
            return [rep["status"]]
        if rep["status"] != 0:
            return [None] * len(fr["reqs"])
        try:
            parts, _ = lg.split_multiple(rep["body"])
            return [(lg.parse_reply(p) or {}).get("status") for p in parts]
        except Exception:
            return [None] * len(fr["reqs"])

    def model_line(self, case):
        if case.get("op") == "fwd":
            return c09_fwd.model_line(case)
        obs = case.get("obs")
        if not obs or obs.get("missing_tags"):
            return "conc-no-observation"
        return f"conc {case['budget']} {obs['tagline']} {obs['prog']} {obs['trace'] or '-'}"

    def known_key(self, case):
        if case.get("op") == "fwd":
            return c09_fwd.model_line(case)
        return json.dumps({k: case[k] for k in ("budget", "tags", "sessions")}, sort_keys=True)

    # ------------------------------------------------------------------ the property oracle (no Lean involved)
    def oracle(self, case, out):
        if case.get("op") == "fwd":
            return c09_fwd.oracle(case, out)
        if out.startswith("harness-exception"):
            return out
        obs = case.get("obs")
        if not obs:
            return "no observation"
        if obs.get("missing_tags"):
            return f"tags {obs['missing_tags']} do not exist after the run (one-time setup raced)"
        if obs["hung"]:
            return "a session did not finish within 60 s (deadlock or lost reply)"
        # O1: every session got exactly its own replies, in order
        for sid, (sess, so) in enumerate(zip(case["sessions"], obs["sessions"])):
            if obs["errors"][sid]:
                return f"session {sid}: client failed: {obs['errors'][sid]}"
            reps = so["replies"]
            if len(reps) != len(sess["frames"]) or any(r is None for r in reps):
                k = next((i for i, r in enumerate(reps) if r is None), len(reps))
                peers = ", ".join(f"{i}={o_['peer'][0]}:{o_['peer'][1]}" for i, o_ in enumerate(obs["sessions"])
                                  if o_.get("peer"))
                return (f"session {sid}: no reply to request #{k} (connection closed by the simulator); "
                        f"peers: {peers}")
            for k, (fr, r) in enumerate(zip(sess["frames"], reps)):
                if not r["ctx_ok"]:
                    return f"session {sid} request #{k}: the reply carries another sender context / session handle"
                if r["enip"] != 0 or not r["cip"]:
                    return f"session {sid} request #{k}: encapsulation status {r['enip']:#x} (parse failure)"
                rep = lg.parse_reply(bytes.fromhex(r["cip"]))
                want = {"rt": 0x4c, "rf": 0x52, "wt": 0x4d, "wf": 0x53, "mu": 0x0a, "gl": 0x03, "gs": 0x0e, "ss": 0x10}[fr["op"]] | 0x80
                if rep is None or rep["svc"] != want:
                    return f"session {sid} request #{k}: reply service {rep and rep['svc']} is not the request's ({want:#x})"
                if fr["op"] == "gl":
                    # the reply answers exactly the attribute numbers THIS request asked for, in order (they are
                    # all numbers no object has: each is answered `number, status 0x16`, no value)
                    exp = b"".join(struct.pack("<HH", a, 0x16) for a in fr["attrs"])
                    if rep["status"] != 0 or rep["body"] != exp:
                        got = [int.from_bytes(rep["body"][q:q + 2], "little") for q in range(0, len(rep["body"]), 4)]
                        return (f"session {sid} request #{k}: Get Attribute List of {fr['attrs']} answered with status "
                                f"{rep['status']:#x} for attributes {got} (a reply to something this session did not ask)")
                if fr["op"] == "mu":
                    if rep["status"] != 0:
                        return f"session {sid} request #{k}: bundle refused with status {rep['status']:#x}"
                    parts, _ = lg.split_multiple(rep["body"])
                    if len(parts) != len(fr["reqs"]):
                        return f"session {sid} request #{k}: {len(parts)} member replies for {len(fr['reqs'])} members"
        handles = [so["handle"] for so in obs["sessions"]]
        if len(set(handles)) != len(handles) or not all(handles):
            return f"session handles are not distinct: {handles}"
        # O4 / O5 are checked from the programs and the replies alone (no stamps, no model)
        spec = lg.ArraySpec(case, obs["addrs"])
        dump = lg.parse_dump(obs["dump"])
        siz_of = {a: lc.SIZES[spec.ty[a]] for a in spec.arr}
        writes, reads = [], []          # accepted requests: (sid, k, j, addr, start, [encoded element values])
        flat = []
        for sid, sess in enumerate(case["sessions"]):
            for k, fr in enumerate(sess["frames"]):
                rep = lg.parse_reply(bytes.fromhex(obs["sessions"][sid]["replies"][k]["cip"]))
                mreps = [rep] if fr["op"] != "mu" else [lg.parse_reply(p) for p in lg.split_multiple(rep["body"])[0]]
                for j, (mm, mr) in enumerate(zip(members_of(fr), mreps)):
                    flat.append((sid, k, j, mm, mr))
        for sid, k, j, mm, mr in flat:
            if mr is None or mr["status"] not in (0, 6):
                continue
            a, elem = spec.resolve(mm["path"])
            ty = spec.ty[a]
            start = elem + (mm.get("off", 0) // siz_of[a] if mm["op"] in ("rf", "wf") else 0)
            if mm["op"] == "ss":        # Set Attribute Single: the whole array, element encodings as sent
                d_ = bytes(mm["data"])
                writes.append((sid, k, j, a, 0, [d_[q:q + siz_of[a]] for q in range(0, len(d_), siz_of[a])]))
            elif mm["op"] == "gs":      # Get Attribute Single: the whole array
                reads.append((sid, k, j, a, 0, lg.split_elems(ty, mr["body"]) or []))
            elif mm["op"] in ("wt", "wf"):
                reqty = lc.CODE2NAME[mm["ty"]]
                writes.append((sid, k, j, a, start, [spec.enc(ty, v, reqty) for v in mm["vals"]]))
            else:
                reads.append((sid, k, j, a, start, lg.split_elems(ty, mr["body"][2:]) or []))
        # O4: a multi-element read never observes part of a multi-element write: when every accepted write that
        #     touches the elements read covers all of them with one value, the elements read are equal
        for sid, k, j, a, start, elems in reads:
            end = start + len(elems)
            if len(elems) < 2:
                continue
            whole = True
            for (_s, _k, _j, wa, ws, wv) in writes:
                if wa != a or ws >= end or ws + len(wv) <= start:
                    continue
                if not (ws <= start and end <= ws + len(wv)) or len(set(wv[start - ws:end - ws])) != 1:
                    whole = False
                    break
            if whole and len(set(elems)) > 1:
                return (f"torn read: session {sid} request #{k}.{j} read elements [{start},{end}) at {a} = "
                        f"{[e.hex() for e in elems]} although every write touching them writes one value over all of them")
        # O5: an element that only one session writes holds that session's last accepted value at the end
        for a in spec.arr:
            owner, lastv = {}, {}
            for (sid, _k, _j, wa, ws, wv) in writes:       # in each session's own program order
                if wa != a:
                    continue
                for q, v in enumerate(wv):
                    owner.setdefault(ws + q, set()).add(sid)
                    lastv[(ws + q, sid)] = v
            got = dump.get(a) or b""
            sz = siz_of[a]
            for e, who in owner.items():
                if len(who) == 1:
                    sid = next(iter(who))
                    if got[e * sz:(e + 1) * sz] != lastv[(e, sid)]:
                        return (f"lost write: element {e} at {a} is written only by session {sid}, whose last accepted "
                                f"value is {lastv[(e, sid)].hex()}, but it holds {got[e * sz:(e + 1) * sz].hex()}")
        # (lock exclusion and lock discipline are reported through the impl line's status token, see impl)
        # O3: every accepted request made exactly one storage access (of its own kind, on its own elements),
        #     every refused request none
        spec0 = lg.ArraySpec(case, obs["addrs"])
        hist = []                                            # (key, sid, k, j, member, reply)
        for sid, sess in enumerate(case["sessions"]):
            prev = (-1, 0)
            for k, fr in enumerate(sess["frames"]):
                fo = obs["frames"][sid][k] if k < len(obs["frames"][sid]) else None
                if fo is None:
                    return f"session {sid} request #{k}: answered but never seen by the server thread"
                rep = lg.parse_reply(bytes.fromhex(obs["sessions"][sid]["replies"][k]["cip"]))
                mreps = [rep] if fr["op"] != "mu" else [lg.parse_reply(p) for p in lg.split_multiple(rep["body"])[0]]
                if fo["extra"]:
                    return (f"session {sid} request #{k}: {len(fo['extra']) + sum(1 for a in fo['acc'] if a)} storage "
                            f"accesses for {sum(1 for s in fo['statuses'] if s in (0, 6))} accepted requests "
                            f"(a request must take effect in ONE storage operation)")
                for j, (mm, mr) in enumerate(zip(members_of(fr), mreps)):
                    x = fo["acc"][j]
                    ok = mr is not None and mr["status"] in (0, 6)
                    if ok and x is None:
                        return f"session {sid} request #{k}.{j}: accepted without a storage access"
                    if x is not None:
                        why = self.check_access(spec0, mm, x)
                        if why:
                            return f"session {sid} request #{k}.{j}: {why}"
                        prev = (x["seq"], 0)
                    else:
                        prev = (prev[0], prev[1] + 1)
                    hist.append((prev, sid, k, j, mm, mr))
        # O2: linearizable — the replies and the final state are those of the array model run in access order
        hist.sort(key=lambda h: h[0])
        spec = lg.ArraySpec(case, obs["addrs"])
        for _key, sid, k, j, mm, mr in hist:
            why = lg.oracle_step(spec, mm, mr, True)
            if why:
                return (f"not linearizable in access order: session {sid} request #{k}.{j} "
                        f"({lc.req_line(mm)}): {why}")
        dump = lg.parse_dump(obs["dump"])
        for addr, arr in spec.arr.items():
            if dump.get(addr) != b"".join(arr):
                return (f"final state of {addr} is {dump.get(addr).hex() if dump.get(addr) else None}, the sequential "
                        f"order of all requests gives {b''.join(arr).hex()}")
        # O7: a malformed frame ends (only) its own session and touches no storage
        for sid, sess in enumerate(case["sessions"]):
            if sess.get("chaos"):
                ch = obs["sessions"][sid]["chaos"]
                if ch == "timeout":
                    return f"session {sid}: malformed frame ({sess['chaos']}) neither answered nor closed"
                if obs.get("chaos_access", {}).get(str(sid)):
                    return f"session {sid}: malformed frame ({sess['chaos']}) reached tag storage"
        return None

    @staticmethod
    def check_access(spec, mm, x):
        a, elem = spec.resolve(mm["path"])
        if a is None or list(a) != x["addr"]:
            return f"storage access on {x['addr']} for a request addressed to {a}"
        ty = spec.ty[a]
        siz = lc.SIZES[ty]
        if mm["op"] in ("gs", "ss"):    # attribute services: ONE access to the whole array
            kind = "r" if mm["op"] == "gs" else "w"
            if x["kind"] != kind or (x["beg"], x["end"]) != (0, len(spec.arr[a])):
                return (f"Get/Set Attribute Single made a storage {x['kind']} access to [{x['beg']},{x['end']}) "
                        f"instead of ONE {kind} access to the whole array [0,{len(spec.arr[a])})")
            return None
        start = elem + (mm.get("off", 0) // siz if mm["op"] in ("rf", "wf") else 0)
        kind = "r" if mm["op"] in ("rt", "rf") else "w"
        if x["kind"] != kind:
            return f"a {'read' if kind == 'r' else 'write'} request made a storage {x['kind']} access"
        if x["beg"] != start:
            return f"storage access starts at element {x['beg']}, the request at {start}"
        if kind == "w" and x["end"] - x["beg"] != len(mm["vals"]):
            return f"storage write of {x['end'] - x['beg']} elements for a request carrying {len(mm['vals'])}"
        if kind == "r" and not (x["beg"] < x["end"] <= elem + mm["n"]):
            return f"storage read [{x['beg']},{x['end']}) outside the requested elements"
        return None

    # ------------------------------------------------------------------ evidence
    def conflicts(self, case):
        """requests that were in flight together with a conflicting request of another session"""
        obs = case.get("obs")
        if not obs or "frames" not in obs:
            return []
        items = []
        for sid, fl in enumerate(obs["frames"]):
            for k, fo in enumerate(fl):
                for j, x in enumerate(fo["acc"]):
                    if x:
                        items.append((fo["F"], fo["S"], sid, k, j, x))
        out = []
        for (f1, s1, sid1, k1, j1, x1) in items:
            for (f2, s2, sid2, _k2, _j2, x2) in items:
                if sid1 != sid2 and x1["addr"] == x2["addr"] and (x1["kind"] == "w" or x2["kind"] == "w") \
                        and x1["beg"] < x2["end"] and x2["beg"] < x1["end"] and f1 < s2 and f2 < s1:
                    out.append(f"{case['seed']}:{sid1}:{k1}:{j1}")
                    break
        return out

    def nontrivial(self, case, out):
        if case.get("op") == "fwd":
            return c09_fwd.nontrivial(case, out)
        return self.conflicts(case)

    def classify(self, case, out):
        if case.get("op") == "fwd":
            return c09_fwd.classify(case, out)
        obs = case.get("obs") or {}
        n = len(case["sessions"])
        reqs = sum(len(members_of(fr)) for s in case["sessions"] for fr in s["frames"])
        xs = sorted((x["seq"], sid) for sid, fl in enumerate(obs.get("frames", [])) for fo in fl for x in fo["acc"] if x)
        sw = sum(1 for a, b in zip(xs, xs[1:]) if a[1] != b[1])
        swb = "0" if not xs else ("<25%" if sw * 4 < len(xs) else ("<75%" if sw * 4 < 3 * len(xs) else ">=75%"))
        self._stats["requests"] = self._stats.get("requests", 0) + reqs
        kind = "pairs" if len(case["tags"]) == 1 and case["tags"][0]["len"] == 6 and n == 2 else "random"
        fz = "on" if (case.get("fuzz") or case.get("fuzz_store")) else "off"
        if kind == "random" and all(fr["op"] == "mu" for s_ in case["sessions"] for fr in s_["frames"]):
            kind = "bundle-storm"
        elif kind == "random" and any(fr["op"] in ("gs", "ss") for s_ in case["sessions"] for fr in s_["frames"]):
            kind = "attribute-services"
        elif kind == "random" and sum(1 for s_ in case["sessions"] for fr in s_["frames"] if fr["op"] == "gl") * 4 >= sum(
                len(s_["frames"]) for s_ in case["sessions"]):
            kind = "get-attribute-list"
        elif kind == "random" and any(s_.get("delay") for s_ in case["sessions"]) and all(
                len(s_["frames"]) <= 3 for s_ in case["sessions"]):
            kind = "start-up"
        elif kind == "random" and case.get("fuzz") == 0.0 and case.get("peers") and all(
                s_["client"] == "raw" and s_.get("depth") == 1 for s_ in case["sessions"]):
            kind = "look-alike-peers"
        kind += " threads=" + ("same-name" if case.get("thread_name") else "default-names")
        kind += " polite=" + ("y" if case.get("polite") else "n")
        kind += " peers=" + (case.get("peers") or "ephemeral")
        return (f"{kind} sessions={n} si={case['si']:g} fuzz={fz}"
                f" chaos={'y' if any(s.get('chaos') for s in case['sessions']) else 'n'}"
                f" access-order-switches={swb}")

    def shrink(self, case):
        if case.get("op") == "fwd":
            yield from c09_fwd.shrink(case)
            return
        ss = case["sessions"]
        if len(ss) > 2:
            for i in range(len(ss)):
                yield dict(case, sessions=ss[:i] + ss[i + 1:])
        for i, s in enumerate(ss):
            if s.get("chaos"):
                yield dict(case, sessions=ss[:i] + [dict(s, chaos=None)] + ss[i + 1:])
            if len(s["frames"]) > 1:
                h = len(s["frames"]) // 2
                yield dict(case, sessions=ss[:i] + [dict(s, frames=s["frames"][:h])] + ss[i + 1:])
                yield dict(case, sessions=ss[:i] + [dict(s, frames=s["frames"][h:])] + ss[i + 1:])
