"""Encapsulation commands, CPF item ids, EPATH segment type bytes, Connection Manager services and the
shape of the encapsulation header, recovered from the live parser / device classes (C14)."""
NAME = "interop"


def section():
    from cpppo.server.enip import device, parser, ucmm

    out = []
    seg = parser.EPATH.SEGMENTS
    for nm, key in [("iopSegSymbolic", "symbolic"), ("iopSegClass", "class"), ("iopSegInstance", "instance"),
                    ("iopSegConnection", "connection"), ("iopSegAttribute", "attribute"), ("iopSegElement", "element"),
                    ("iopSegPort", "port")]:
        out.append(f"def {nm} : Nat := {seg[key]}")
    # CPF item ids by the parser class that handles them
    byname = {cls.__name__: tid for tid, cls in parser.CPF.ITEM_PARSERS.items()}
    out.append(f"def iopCpfConnectionId : Nat := {byname['connection_ID']}")
    out.append(f"def iopCpfConnectionData : Nat := {byname['connection_data']}")
    out.append(f"def iopCpfUnconnected : Nat := {byname['unconnected_send']}")
    out.append("def iopCpfParsed : List Nat := [" + ", ".join(str(k) for k in sorted(parser.CPF.ITEM_PARSERS)) + "]")
    # encapsulation commands by the parser class that handles them
    cmds = {cls.__name__: list(codes) for codes, cls in parser.CIP.COMMAND_PARSERS.items()}
    out.append(f"def iopCmdRegister : Nat := {cmds['register'][0]}")
    out.append(f"def iopCmdUnregister : Nat := {cmds['unregister'][0]}")
    out.append("def iopCmdSendData : List Nat := [" + ", ".join(str(c) for c in sorted(cmds['send_data'])) + "]")
    CM = device.Connection_Manager
    out.append(f"def iopCmClass : Nat := {CM.class_id}")
    out.append(f"def iopSvcFwdOpen : Nat := {CM.FWD_OPEN_REQ}")
    out.append(f"def iopSvcFwdOpenLarge : Nat := {CM.FWD_OPLG_REQ}")
    out.append(f"def iopSvcFwdClose : Nat := {CM.FWD_CLOS_REQ}")
    out.append("def iopCmServices : List Nat := [" + ", ".join(str(k) for k in sorted(
        k for k in CM.service if isinstance(k, int))) + "]")
    # the header chain of enip_header: struct sizes of the states along the `True` edges
    hdr = parser.enip_header()
    sizes = []
    st = hdr.initial
    for _ in range(16):
        nxt = dict.get(st, -1)          # the wildcard edge (`True`) is stored under the encoded key -1
        if nxt is None:
            break
        size = getattr(nxt, "struct_calcsize", None)
        if size is None:
            size = getattr(nxt, "repeat", None)
        sizes.append(int(size))
        st = nxt
    out.append("def iopHeaderFields : List Nat := [" + ", ".join(map(str, sizes)) + "]")
    out.append(f"def iopUnconnectedSend : Nat := {0x52}")
    del ucmm
    return "\n".join(out) + "\n"
