"""client defaults the route-path model depends on (C15), read from the live classes"""
NAME = "route"


def section():
    from cpppo.server.enip import client, ucmm
    rp = client.client.route_path_default
    sp = client.client.send_path_default
    assert isinstance(rp, str) and isinstance(sp, str), (rp, sp)
    cfg = ucmm.UCMM.route_path
    assert cfg is None, "the library's default UCMM personality is no longer 'accept any route path'"
    pts = lambda s: "[" + ", ".join(str(ord(ch)) for ch in s) + "]"
    return (f"/-- `client.route_path_default` = {rp!r} -/\n"
            f"def clientRouteDefault : List Nat := {pts(rp)}\n"
            f"/-- `client.send_path_default` = {sp!r} -/\n"
            f"def clientSendDefault : List Nat := {pts(sp)}\n")
