"""client.CIP_TYPES (name, tag_type, size, validator kind and range, probed), typed_data element sizes and
the size-estimate constants of connector.issue (locals of the method: recovered by probing where the
Multiple Service Packet is cut, on a connector whose sends are captured instead of transmitted)"""
NAME = "client"


def _probe_connector():
    from cpppo.server.enip import client

    class Probe(client.connector):
        def __init__(self):
            self.sent = []
            self.dialect = None
            self.session = None
            self.profiler = None
            self.conn = None

        def unconnected_send(self, request, **kwds):
            self.sent.append(request)
            return request

    return Probe()


def _one_packet(ops, multiple):
    p = _probe_connector()
    idx = {i for i, _c, _d, _o, _r in p.issue([dict(o) for o in ops], multiple=multiple)}
    return len(idx) == 1


def _threshold(ops, hi=1 << 22):
    """smallest `multiple` for which all ops travel in one Multiple Service Packet"""
    lo = 1
    assert _one_packet(ops, hi), "ops never fit into one packet"
    while lo < hi:
        mid = (lo + hi) // 2
        if _one_packet(ops, mid):
            hi = mid
        else:
            lo = mid + 1
    return lo


def _kind(name, cast):
    """classify a CIP_TYPES validator by probing it"""
    def ok(x):
        try:
            cast(x)
            return True
        except Exception:
            return False
    if ok("abc") and cast("abc") == "abc":
        return (0, 0, 0)
    if ok("true") and cast("true") is True:
        return (1, 0, 0)
    if ok("1.5") and cast("1.5") == 1.5:
        return (2, 0, 0)
    assert ok("0") or ok("1"), f"validator of {name} not understood"
    # integer range: the accepted set is an interval [lo, hi] around 0/1 (checked at the bounds)
    lo = 0
    while ok(str(lo * 2 - 1)) and lo > -(1 << 80):
        lo = lo * 2 - 1
    # refine lo by binary search between lo*2-1 (rejected) and lo (accepted)
    bad, good = lo * 2 - 1, lo
    while good - bad > 1:
        mid = (good + bad) // 2
        if ok(str(mid)):
            good = mid
        else:
            bad = mid
    lo = good
    hi = 1
    while ok(str(hi * 2 + 1)) and hi < (1 << 80):
        hi = hi * 2 + 1
    good, bad = hi, hi * 2 + 1
    while bad - good > 1:
        mid = (good + bad) // 2
        if ok(str(mid)):
            good = mid
        else:
            bad = mid
    hi = good
    return (3, lo, hi)


def section():
    from cpppo.server.enip import client, parser

    out = []
    rows = []
    for name, (tt, size, cast) in client.CIP_TYPES.items():
        k, lo, hi = _kind(name, cast)
        rows.append(f'("{name}", {tt}, {size}, {k}, {lo}, {hi})')
    out.append("def clientCipTypes : List (String × Nat × Nat × Nat × Int × Int) :=\n  ["
               + ",\n   ".join(rows) + "]")
    sizes = []
    for tt, cls in sorted(parser.typed_data.TYPES_SUPPORTED.items()):
        sz = getattr(cls, "struct_calcsize", None)
        if isinstance(sz, int):
            sizes.append(f"({tt}, {sz})")
    out.append("def clientTypeSizes : List (Nat × Nat) := [" + ", ".join(sizes) + "]")
    out.append(f"def clientTagSINT : Nat := {parser.SINT.tag_type}")
    out.append(f"def clientTagUSINT : Nat := {parser.USINT.tag_type}")

    # --- issue(): size estimates ---
    D = 10000
    rd = lambda ds=None, **kw: dict({"method": "read", "path": [{"symbolic": "T"}]}, **({"data_size": ds} if ds else {}), **kw)
    wr = lambda n, **kw: dict({"method": "write", "path": [{"symbolic": "T"}], "data": [0] * n, "elements": n}, **kw)
    f2, f3 = _threshold([rd(D)] * 2), _threshold([rd(D)] * 3)
    readRpy = f3 - f2 - D
    rpyMin = f2 - 1 - 2 * (readRpy + D)
    n = 1000
    g2, g3 = _threshold([wr(n)] * 2), _threshold([wr(n)] * 3)
    g2b = _threshold([wr(2 * n)] * 2)
    writeDef = (g2b - g2) // (2 * n)
    writeReq = g3 - g2 - writeDef * n
    reqMin = g2 - 1 - 2 * (writeReq + writeDef * n)
    # read request size: reads whose reply estimate is minimal (no elements) -> the request side decides
    r2, r3 = _threshold([rd(elements=0)] * 2), _threshold([rd(elements=0)] * 3)
    readReq = r3 - r2
    assert r2 == max(reqMin + 2 * readReq, rpyMin + 2 * readRpy) + 1, "read estimate not understood"
    # read default element size
    e2 = _threshold([rd(elements=n)] * 2)
    readDef = (e2 - 1 - rpyMin - 2 * readRpy) // (2 * n)
    assert e2 == rpyMin + 2 * (readRpy + readDef * n) + 1, "read default element size not understood"
    h1, h2 = _threshold([rd(D), wr(0)]), _threshold([rd(D), wr(0), wr(0)])
    writeRpy = h2 - h1
    sa = lambda n, **kw: dict({"method": "set_attribute_single", "path": [{"class": 1}, {"instance": 1}, {"attribute": 1}],
                               "data": [0] * n, "elements": n}, **kw)
    s2, s3, s2b = _threshold([sa(n)] * 2), _threshold([sa(n)] * 3), _threshold([sa(2 * n)] * 2)
    sasDef = (s2b - s2) // (2 * n)
    sasReq = s3 - s2 - sasDef * n
    assert s2 == reqMin + 2 * (sasReq + sasDef * n) + 1, "set_attribute_single estimate not understood"
    k1, k2 = _threshold([rd(D), sa(0)]), _threshold([rd(D), sa(0), sa(0)])
    sasRpy = k2 - k1
    ga = lambda m, ds: dict({"method": m, "path": [{"class": 1}, {"instance": 1}, {"attribute": 1}], "data_size": ds})
    consts = {}
    for m in ("get_attribute_single", "get_attributes_all"):
        j2, j3 = _threshold([ga(m, 1)] * 2), _threshold([ga(m, 1)] * 3)
        req = j3 - j2
        J2, J3 = _threshold([ga(m, D)] * 2), _threshold([ga(m, D)] * 3)
        rpy = J3 - J2 - D
        assert j2 == max(reqMin + 2 * req, rpyMin + 2 * (rpy + 1)) + 1, m + " estimate not understood"
        consts[m] = (req, rpy)
    assert consts["get_attribute_single"] == consts["get_attributes_all"], "G_A_S / G_A_A estimates differ"
    gaReq, gaRpy = consts["get_attribute_single"]
    sv = lambda n, ds: dict({"method": "service_code", "code": 0x0E, "path": [{"class": 1}, {"instance": 1}],
                             "data_size": ds}, **({"data": [0] * n} if n else {}))
    v2, v3 = _threshold([sv(n, 1)] * 2), _threshold([sv(n, 1)] * 3)
    svcReq = v3 - v2 - n
    V2, V3 = _threshold([sv(0, D)] * 2), _threshold([sv(0, D)] * 3)
    svcRpy = V3 - V2 - D
    for name, val in [("ReqMin", reqMin), ("RpyMin", rpyMin), ("ReadReq", readReq), ("ReadRpy", readRpy),
                      ("WriteReq", writeReq), ("WriteRpy", writeRpy), ("SasReq", sasReq), ("SasRpy", sasRpy),
                      ("GaReq", gaReq), ("GaRpy", gaRpy), ("SvcReq", svcReq), ("SvcRpy", svcRpy),
                      ("WriteDef", writeDef), ("ReadDef", readDef), ("SasDef", sasDef)]:
        assert isinstance(val, int) and val >= 0, f"issue constant {name} = {val!r}"
        out.append(f"def clientIssue{name} : Nat := {val}")
    return "\n".join(out) + "\n"
