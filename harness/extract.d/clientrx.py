"""EtherNet/IP encapsulation header layout (probed on the live framing machine), command and service codes the
client's receive path depends on (C13)"""
NAME = "clientrx"


def section():
    import cpppo
    from cpppo.server.enip import parser, device, logix, client

    def parse(data):
        d = cpppo.dotdict()
        src = cpppo.chainable(bytes(data))
        with parser.enip_machine(context='enip') as m:
            try:
                for _mch, _sta in m.run(source=src, data=d):
                    pass
            except Exception:
                pass
        return d

    # header length: the fewest bytes after which the last header field exists
    hdr = next(n for n in range(1, 64) if isinstance(parse(bytes(n)).get('enip.options'), int))
    # field layout: parse a header of distinct bytes and locate every field's bytes in it
    pat = bytearray(range(1, hdr + 1))
    d = parse(pat)
    lay = []
    for name, width in (("command", 2), ("length", 2), ("session_handle", 4), ("status", 4), ("options", 4)):
        val = int(d.enip[name])
        off = next(o for o in range(hdr) if int.from_bytes(pat[o:o + width], "little") == val)
        lay.append((name, off, width))
    ctx = bytes(bytearray(d.enip.sender_context.input))
    lay.append(("sender_context", bytes(pat).index(ctx), len(ctx)))
    lay.sort(key=lambda t: t[1])
    # the length field announces the payload: one more byte needed per unit
    loff = next(o for n, o, w in lay if n == "length")
    probe = bytearray(hdr)
    probe[loff] = 3
    short = parse(bytes(probe) + b"ab")
    full = parse(bytes(probe) + b"abc")
    assert 'enip.input' not in short or len(short.enip.input) < 3
    assert len(full.enip.input) == 3
    cmds = {v.__name__: k for k, v in parser.CIP.COMMAND_PARSERS.items()}
    ctx_ok = (client.parse_context(client.format_context(b"12")) == b"12"
              and len(client.format_context(b"123456789")) == 8)
    L = logix.Logix
    return (f"def crxHeaderLen : Nat := {hdr}\n"
            f"/-- (offset, width) of command, length, session, status, sender context, options -/\n"
            f"def crxHeaderLayout : List (Nat × Nat) := [{', '.join(f'({o}, {w})' for _n, o, w in lay)}]\n"
            f"def crxHeaderFields : List String := [{', '.join(chr(34) + n + chr(34) for n, _o, _w in lay)}]\n"
            f"def crxCmdRegister : Nat := {cmds['register'][0]}\n"
            f"def crxCmdSendData : List Nat := [{', '.join(map(str, cmds['send_data']))}]\n"
            f"def crxMultipleRpy : Nat := {device.Message_Router.MULTIPLE_RPY}\n"
            f"/-- reply services whose successful replies carry data: Read Tag, Read Tag Fragmented, Get Attribute Single, "
            f"Get Attributes All -/\n"
            f"def crxDataRpy : List Nat := [{L.RD_TAG_RPY}, {L.RD_FRG_RPY}, {L.GA_SNG_RPY}, {L.GA_ALL_RPY}]\n"
            f"def crxContextPadsTo8StripsNul : Bool := {'true' if ctx_ok else 'false'}\n")
