"""dotdict's reserved key names, read from the live class"""
NAME = "dotdict"


def section():
    from cpppo.dotdict import dotdict
    names = list(dotdict.__invalid_keys__)
    assert names and all(isinstance(n, str) and n.isidentifier() for n in names)
    items = ", ".join('"%s".toList' % n for n in names)
    import keyword
    # attribute names that exist on the classes an index expression can meet (an attribute access with
    # such a name yields a method, not a stored value: outside the model), and Python's keywords
    attrs = sorted({a for t in (int, list, dotdict) for a in dir(t) if not a.startswith("__")})
    kws = sorted(set(keyword.kwlist) | {"None", "True", "False"})
    fmt = lambda ns: ", ".join('"%s".toList' % n for n in ns)
    return (f"def dotdictInvalidKeys : List (List Char) := [{items}]\n"
            f"def evalAttrBlacklist : List (List Char) := [{fmt(attrs)}]\n"
            f"def pyKeywords : List (List Char) := [{fmt(kws)}]\n")
