"""dotdict's reserved key names, read from the live class"""
NAME = "dotdict"


def section():
    from cpppo.dotdict import dotdict
    names = list(dotdict.__invalid_keys__)
    assert names and all(isinstance(n, str) and n.isidentifier() for n in names)
    items = ", ".join('"%s".toList' % n for n in names)
    return f"def dotdictInvalidKeys : List (List Char) := [{items}]\n"
