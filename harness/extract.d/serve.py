"""Constants of the request pipeline used by the C08 model (Cpppo.Model.Serve): encapsulation commands that
carry a CPF, CPF item types, the Unconnected Send service, the Connection Manager address, EPATH segment
opcodes and the encapsulation header size -- read from the live parser/device classes."""
NAME = "serve"


def section():
    from cpppo.server.enip import device, parser
    out = []
    send = sorted(c for cmds, cls in parser.CIP.COMMAND_PARSERS.items() if cls is parser.send_data for c in cmds)
    out.append("def sendDataCommands : List Nat := [" + ", ".join(map(str, send)) + "]")
    unc = [t for t, cls in parser.CPF.ITEM_PARSERS.items() if cls is parser.unconnected_send]
    # out.append(f"def cpfUnconnected : Nat := {unc[0]}")   (also emitted, identically, by extract.d/session.py: defined once there)
    # out.append("def cpfItemTypes : List Nat := [" + ", ".join(map(str, sorted(parser.CPF.ITEM_PARSERS))) + "]")   (also emitted, identically, by extract.d/session.py: defined once there)
    # out.append(f"def cmClass : Nat := {device.Connection_Manager.class_id}")   (also emitted, identically, by extract.d/session.py: defined once there)
    # the Unconnected Send service code: the one first byte for which unconnected_send parses a routing wrapper
    import cpppo
    svc = []
    for b in range(256):
        if b == 0xd2:
            continue
        data = cpppo.dotdict()
        msg = bytes([b, 2, 0x20, 6, 0x24, 1, 5, 157, 2, 0, 0x0e, 0, 1, 0, 1, 0])
        try:
            with parser.unconnected_send() as m:
                for _ in m.run(source=cpppo.peekable(msg), data=data):
                    pass
            if 'unconnected_send.route_path' in data:
                svc.append(b)
        except Exception:
            pass
    assert len(svc) == 1, "exactly one Unconnected Send service code expected: %r" % svc
    out.append(f"def unconnectedSendService : Nat := {svc[0]}")
    for k, v in sorted(parser.EPATH.SEGMENTS.items()):
        out.append(f"def seg_{k} : Nat := {v}")
    hdr = (2 * parser.UINT.struct_calcsize + 3 * parser.UDINT.struct_calcsize + 8)
    out.append(f"def enipHeaderSize : Nat := {hdr}")
    return "\n".join(out) + "\n"
