"""wire-codec constants recovered from the live parser/device classes: EPATH segment opcodes, CPF item
type ids, encapsulation command codes, Object / Message Router / Connection Manager service numbers,
the encapsulation header layout (walked from the enip_header state graph)."""
NAME = "codec"


def lst(xs):
    return "[" + ", ".join(str(x) for x in xs) + "]"


def section():
    import struct
    from cpppo.server.enip import parser, device
    out = []
    seg = parser.EPATH.SEGMENTS
    out.append("def epathOpcodes : List (String × Nat) := ["
               + ", ".join(f'("{k}", {v})' for k, v in sorted(seg.items())) + "]")
    out.append("def cpfItemIds : List Nat := " + lst(sorted(parser.CPF.ITEM_PARSERS)))
    out.append("def cpfItemNames : List (Nat × String) := ["
               + ", ".join(f'({k}, "{v.__name__}")' for k, v in sorted(parser.CPF.ITEM_PARSERS.items())) + "]")
    cmds = sorted((c, cls.__name__) for cs, cls in parser.CIP.COMMAND_PARSERS.items() for c in cs)
    out.append("def encapCommands : List (Nat × String) := [" + ", ".join(f'({c}, "{n}")' for c, n in cmds) + "]")
    O, M, C = device.Object, device.Message_Router, device.Connection_Manager
    svc = [("GA_ALL", O.GA_ALL_REQ), ("GA_LST", O.GA_LST_REQ), ("GA_SNG", O.GA_SNG_REQ), ("SA_SNG", O.SA_SNG_REQ),
           ("MULTIPLE", M.MULTIPLE_REQ), ("FWD_OPEN", C.FWD_OPEN_REQ), ("FWD_OPLG", C.FWD_OPLG_REQ),
           ("FWD_CLOS", C.FWD_CLOS_REQ)]
    out.append("def objectServices : List (String × Nat) := [" + ", ".join(f'("{k}", {v})' for k, v in svc) + "]")
    # header layout: chain of struct formats of the enip_header machine, in order
    hdr = parser.enip_header()
    fmts, st, seen = [], hdr.initial, set()
    while st is not None and id(st) not in seen:
        seen.add(id(st))
        fmt = getattr(st, "struct_format", None) or getattr(st, "_format", None)
        if fmt:
            fmts.append((st.name, fmt, struct.calcsize(fmt)))
        elif getattr(st, "repeat", None):
            fmts.append((st.name, "octets", int(st.repeat)))
        nxt = None
        for _inp, tgt in st.edges():
            if tgt is not None and id(tgt) not in seen:
                nxt = tgt
                break
        st = nxt
    out.append("def codecHeaderFields : List (String × String × Nat) := ["
               + ", ".join(f'("{n}", "{f}", {s})' for n, f, s in fmts) + "]")
    out.append(f"def codecHeaderSize : Nat := {sum(s for _n, _f, s in fmts)}")
    return "\n".join(out) + "\n"
