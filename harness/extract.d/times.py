"""timestamp / duration constants of history/times.py, recovered from the live classes; the unit
words of duration.DURSPEC_RE are recovered by probing the compiled expression"""
NAME = "times"

STEMS = ["years", "yrs", "weeks", "wks", "days", "dys", "hours", "hrs", "minutes", "mins",
         "seconds", "secs", "ms", "msecs", "mseconds", "millis", "milliseconds", "millisecs",
         "us", "usecs", "useconds", "micros", "microseconds", "microsecs",
         "ns", "nsecs", "nseconds", "nanos", "nanoseconds", "nanosecs"]
GROUPS = ["y", "w", "d", "h", "m", "s", "ms", "us", "ns"]


def unit_words(regex):
    cands = set()
    for st in STEMS:
        for i in range(1, len(st) + 1):
            cands.add(st[:i])
            cands.add(st[:i] + "s")
    table = []
    for w in sorted(cands):
        m = regex.match("7" + w)
        if not m:
            continue
        hit = [g for g in GROUPS if m.group(g) == "7"]
        others = [g for g in GROUPS + ["s_man", "s_fra"] if g not in hit and m.group(g) is not None]
        assert len(hit) == 1 and not others, (w, hit, others)
        table.append((w, GROUPS.index(hit[0])))
    return table


def section():
    from cpppo.history.times import timestamp, duration
    eps_us = round(timestamp._epsilon * 10 ** 6)
    assert abs(timestamp._epsilon * 10 ** 6 - eps_us) < 1e-6, "epsilon is not a whole number of microseconds"
    seps = sorted(chr(k) for k, v in timestamp._timeseps.items() if chr(v) == " ")
    assert len(seps) == len(timestamp._timeseps)
    units = unit_words(duration.DURSPEC_RE)
    lines = [
        f"def tsEpsilonUs : Int := {eps_us}",
        f"def tsPrecision : Nat := {timestamp._precision}",
        "def tsSeps : List Char := [" + ", ".join(f"Char.ofNat {ord(c)}" for c in seps) + "]",
        f"def tsFmt : String := {lean_str(timestamp._fmt)}",
        f"def durYR : Nat := {duration.YR}",
        f"def durWK : Nat := {duration.WK}",
        f"def durDY : Nat := {duration.DY}",
        f"def durHR : Nat := {duration.HR}",
        f"def durMN : Nat := {duration.MN}",
        "def durUnits : List (String × Nat) := [" + ", ".join(f"({lean_str(w)}, {i})" for w, i in units) + "]",
    ]
    return "\n".join(lines) + "\n"


def lean_str(s):
    assert all(32 <= ord(c) < 127 and c not in '"\\' for c in s), s
    return '"' + s + '"'
