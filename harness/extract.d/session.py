"""Encapsulation-level constants of the simulator's session handling (C06): command codes, CPF item ids, the
Unconnected Send service code, the objects `logix.setup` creates, the fixed List*/Legacy reply payloads and the
default failure status -- read from the live tables or recovered by driving `logix.process` on probe frames."""
NAME = "session"


def _lean_bytes(b):
    return "[" + ", ".join(str(x) for x in bytes(b)) + "]"


def section():
    import logging
    import struct
    import cpppo
    from cpppo.server.enip import device, logix, parser, ucmm

    out = []
    by_name = {cls.__name__: cmds for cmds, cls in parser.CIP.COMMAND_PARSERS.items()}
    out.append(f"def cmdLegacy : Nat := {by_name['legacy'][0]}")
    out.append(f"def cmdListServices : Nat := {by_name['list_services'][0]}")
    out.append(f"def cmdListIdentity : Nat := {by_name['list_identity'][0]}")
    out.append(f"def cmdListInterfaces : Nat := {by_name['list_interfaces'][0]}")
    out.append(f"def cmdRegister : Nat := {by_name['register'][0]}")
    out.append(f"def cmdUnregister : Nat := {by_name['unregister'][0]}")
    out.append(f"def cmdSendRR : Nat := {by_name['send_data'][0]}")
    out.append(f"def cmdSendUnit : Nat := {by_name['send_data'][1]}")
    known = sorted(c for cmds in parser.CIP.COMMAND_PARSERS for c in cmds)
    out.append("def knownCommands : List Nat := [" + ", ".join(map(str, known)) + "]")
    items = {cls.__name__: t for t, cls in parser.CPF.ITEM_PARSERS.items()}
    out.append("def cpfItemTypes : List Nat := [" + ", ".join(map(str, sorted(parser.CPF.ITEM_PARSERS))) + "]")
    out.append(f"def cpfUnconnected : Nat := {items['unconnected_send']}")
    out.append(f"def cmClass : Nat := {device.Connection_Manager.class_id}")
    CM = device.Connection_Manager
    out.append(f"def svcFwdOpen : Nat := {CM.FWD_OPEN_REQ}")
    out.append(f"def svcFwdOpenLarge : Nat := {CM.FWD_OPLG_REQ}")
    out.append(f"def svcFwdClose : Nat := {CM.FWD_CLOS_REQ}")
    from cpppo.server.enip import defaults
    out.append(f"def connTypeP2P : Nat := {defaults.Connection.TYPE_P2P}")
    out.append(f"def connTypeMC : Nat := {defaults.Connection.TYPE_MC}")

    saved_dir, saved_sym, saved_ucmm = device.directory, device.symbol, logix.setup.ucmm
    saved_sessions = dict(ucmm.UCMM.sessions)
    lvl = logging.root.manager.disable
    logging.disable(logging.CRITICAL)
    try:
        device.lookup_reset()
        logix.setup_reset()

        # the first byte that makes the CPF data item parse as a routed Unconnected Send
        tail = b"\x02\x20\x06\x24\x01\x05\x9d\x02\x00\x01\x02\x01\x00\x01\x00"
        usend = []
        for b in range(256):
            data = cpppo.dotdict()
            try:
                with parser.unconnected_send() as machine:
                    for _m, _s in machine.run(source=cpppo.peekable(bytes([b]) + tail), data=data):
                        pass
            except Exception:
                continue
            if "unconnected_send.route_path" in data:
                usend.append(b)
        assert len(usend) == 1, usend
        out.append(f"def svcUnconnectedSend : Nat := {usend[0]}")

        def process(frame):
            data = cpppo.dotdict()
            with parser.enip_machine(context="enip") as machine:
                for _m, _s in machine.run(path="request", source=cpppo.peekable(frame), data=data):
                    pass
            proceed = logix.process(("127.0.0.1", 1), data=data)
            return proceed, data

        def hdr(cmd, payload=b""):
            return struct.pack("<HHII", cmd, len(payload), 0, 0) + b"\0" * 8 + struct.pack("<I", 0) + payload

        for nm, cmd in [("listServicesPayload", by_name["list_services"][0]),
                        ("listIdentityPayload", by_name["list_identity"][0]),
                        ("listInterfacesPayload", by_name["list_interfaces"][0]),
                        ("legacyPayload", by_name["legacy"][0])]:
            proceed, data = process(hdr(cmd))
            assert proceed and data.response.enip.status == 0
            out.append(f"def {nm} : List Nat := {_lean_bytes(data.response.enip.input)}")
        # objects created by logix.setup (class ids) -- requests to these are outside the tag-object model
        classes = sorted({int(k.split(".")[0]) for k in device.directory if k.split(".")[0].isdigit()})
        out.append("def builtinClasses : List Nat := [" + ", ".join(
            str(c) for c in classes if c != logix.Logix.class_id) + "]")
        # the status given to a request that cannot be processed: an unknown service to the Message Router
        bad = b"\x00\x00\x00\x00\x05\x00\x02\x00\x00\x00\x00\x00\xb2\x00\x06\x00" + b"\x77\x02\x20\x02\x24\x01"
        proceed, data = process(hdr(by_name["send_data"][0], bad))
        assert proceed and "input" not in data.response.enip
        out.append(f"def failStatusDefault : Nat := {data.response.enip.status}")
        # the status given to a request larger than the configured size limit: a Register Session under size=1
        data = cpppo.dotdict()
        with parser.enip_machine(context="enip") as machine:
            for _m, _s in machine.run(path="request", source=cpppo.peekable(hdr(by_name["register"][0], b"\x01\x00\x00\x00")), data=data):
                pass
        proceed = logix.process(("127.0.0.1", 1), data=data, size=1)
        assert proceed and "input" not in data.response.enip and data.response.enip.status, repr(data.response.enip)
        out.append(f"def sizeFailStatus : Nat := {data.response.enip.status}")
        # the status left by a routed request that fails: a routing table entry leading to a closed port
        logix.setup_reset()
        dead = type("UCMM_dead_route", (ucmm.UCMM,), {"route": {"1/9": "127.0.0.1:1"}})
        routed = (b"\x00\x00\x00\x00\x05\x00\x02\x00\x00\x00\x00\x00\xb2\x00\x14\x00"
                  + b"\x52\x02\x20\x06\x24\x01\x05\x9d\x06\x00" + b"\x0e\x02\x20\x02\x24\x01" + b"\x01\x00\x01\x09")
        data = cpppo.dotdict()
        with parser.enip_machine(context="enip") as machine:
            for _m, _s in machine.run(path="request", source=cpppo.peekable(hdr(by_name["send_data"][0], routed)), data=data):
                pass
        proceed = logix.process(("127.0.0.1", 1), data=data, UCMM_class=dead)
        assert proceed and "input" not in data.response.enip and data.response.enip.status, repr(data.response.enip)
        out.append(f"def routeFailStatus : Nat := {data.response.enip.status}")
    finally:
        device.directory, device.symbol, logix.setup.ucmm = saved_dir, saved_sym, saved_ucmm
        ucmm.UCMM.sessions.clear()
        ucmm.UCMM.sessions.update(saved_sessions)
        logging.disable(lvl)
    return "\n".join(out) + "\n"
