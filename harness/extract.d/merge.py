"""shatter default limits and merge bank size, recovered by probing the live functions"""
NAME = "merge"


def section():
    from cpppo.remote.plc_modbus import shatter, merge
    coil = next(iter(shatter(1, 10 ** 6)))[1]
    reg = next(iter(shatter(40001, 10 ** 6)))[1]
    block = None
    for b in range(2, 200001):  # smallest B such that adjacent registers B-1, B are not merged
        if len(list(merge([(b - 1, 1), (b, 1)], reach=1, limit=10 ** 9))) == 2:
            block = b
            break
    assert block, "no bank boundary found"
    return (f"def shatterCoilLimit : Nat := {coil}\n"
            f"def shatterRegLimit : Nat := {reg}\n"
            f"def mergeBlock : Nat := {block}\n")
