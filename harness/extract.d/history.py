"""history: the timestamp comparison tolerance and the numbering of the loader states (C18)"""
NAME = "history"


def section():
    from cpppo.history.files import loader
    from cpppo.history.times import timestamp
    eps_us = round(timestamp._epsilon * 1e6)
    names = ["INITIAL", "SWITCHING", "STREAMING", "EXHAUSTED", "AWAITING", "COMPLETE", "FAILED"]
    states = ", ".join(f'("{n}", {int(getattr(loader, n))})' for n in names)
    return (f"def historyEpsilonUs : Nat := {eps_us}\n"
            f"def historyPrecision : Nat := {int(timestamp._precision)}\n"
            f"def loaderStates : List (String × Nat) := [{states}]\n")
