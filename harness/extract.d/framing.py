"""Shape of the live `enip_header` / `enip_machine` state graphs (property C02): the chain of header fields
(context name, octets consumed, struct format), the kind of every edge in the chain (ANY symbol / no-input),
which states are terminal, and what drives the payload repeat.  Walked from the constructed machines."""
NAME = "framing"


def lean_str(s):
    return '"' + str(s).replace("\\", "\\\\").replace('"', '\\"') + '"'


def lean_bool(b):
    return "true" if b else "false"


def section():
    from cpppo import automata
    from cpppo.server.enip import parser

    mach = parser.enip_machine(context="enip")
    hdr = mach.initial
    ANY, NON = automata.state.ANY, automata.state.NON

    def out_edges(st):
        # (encoded input symbol, target) pairs of a state, recognizer predicates included
        return [(k, t) for k, t in st.edges()]

    chain, formats, calcsizes, kinds, terminals = [], [], [], [], []
    node = hdr.initial
    empty_terminal = bool(node._terminal)
    empty_plain = type(node) is automata.state           # consumes nothing itself
    seen = set()
    branching = False
    while True:
        seen.add(id(node))
        es = out_edges(node)
        if not es:
            break
        if len(es) != 1:
            branching = True
        k, nxt = es[0]
        kinds.append("any" if k == ANY else "non" if k == NON else "sym")
        if nxt is None or id(nxt) in seen:
            branching = True
            break
        node = nxt
        chain.append((node.context(), node.repeat))
        formats.append(getattr(node, "struct_format", None) or "octets")
        calcsizes.append(getattr(node, "struct_calcsize", None) or node.repeat)
        terminals.append(bool(node._terminal))

    hes = out_edges(hdr)
    pay = hes[0][1] if len(hes) == 1 else None
    lines = [
        "def enipHeaderChain : List (String × Nat) := ["
        + ", ".join(f"({lean_str(c)}, {int(n)})" for c, n in chain) + "]",
        "def enipHeaderFormats : List String := [" + ", ".join(lean_str(f) for f in formats) + "]",
        "def enipHeaderCalcsizes : List Nat := [" + ", ".join(str(int(n)) for n in calcsizes) + "]",
        "def enipHeaderEdgeKinds : List String := [" + ", ".join(lean_str(k) for k in kinds) + "]",
        "def enipHeaderTerminals : List Bool := [" + ", ".join(lean_bool(t) for t in terminals) + "]",
        f"def enipHeaderEmptyTerminal : Bool := {lean_bool(empty_terminal and empty_plain)}",
        f"def enipHeaderBranching : Bool := {lean_bool(branching)}",
        f"def enipHeaderOwnContext : String := {lean_str(hdr.context())}",
        f"def enipMachineInitialIsHeader : Bool := {lean_bool(isinstance(hdr, parser.enip_header))}",
        f"def enipPayloadEdges : Nat := {len(hes)}",
        f"def enipPayloadEdgeKind : String := "
        + lean_str("any" if hes and hes[0][0] == ANY else "non" if hes and hes[0][0] == NON else "sym"),
        f"def enipPayloadRepeat : String := {lean_str(pay.repeat if pay is not None else '')}",
        f"def enipPayloadIsOctets : Bool := {lean_bool(type(pay) is parser.octets)}",
        f"def enipPayloadTerminal : Bool := {lean_bool(pay is not None and pay._terminal)}",
        f"def enipPayloadOutEdges : Nat := {len(out_edges(pay)) if pay is not None else 99}",
        f"def enipPayloadContext : String := {lean_str(pay.context() if pay is not None else '?')}",
    ]
    return "\n".join(lines) + "\n"
