"""The Modbus address translation of poller_modbus._read / ._write, recovered by scanning every address
0..470001 through the live methods with a client that records the request it is handed."""
NAME = "poll"

KINDS = {"ReadCoilsRequest": 0, "ReadDiscreteInputsRequest": 1, "ReadHoldingRegistersRequest": 2,
         "ReadInputRegistersRequest": 3}
WKINDS = {"WriteSingleCoilRequest": 0, "WriteMultipleCoilsRequest": 0, "WriteSingleRegisterRequest": 2,
          "WriteMultipleRegistersRequest": 2}


def scan(method, kinds, **kw):
    from cpppo.remote import plc_modbus as pm

    class Stop(Exception):
        pass

    class Fake(pm.modbus_client_timeout):
        last = None

        def connect(self):
            return True

        def execute(self, no_response_expected=False, request=None):
            self.last = (type(request).__name__, request.address)
            raise Stop()

    f = Fake()

    class P(pm.poller_modbus):
        def __init__(self):
            self.client, self.unit, self.description, self.multi = f, 1, "scan", False

    p = P()
    banks, cur, start = [], None, None
    for a in range(0, 470002):
        f.last = None
        try:
            method(p, a, **kw)
        except Stop:
            pass
        except Exception:
            pass
        k = None if f.last is None else (kinds[f.last[0]], a - f.last[1])
        if k != cur:
            if cur is not None:
                banks.append((start, a - 1, cur[0], cur[1]))
            cur, start = k, a
    assert cur is None, "address translation does not end below 470001"
    return banks


def section():
    from cpppo.remote import plc_modbus as pm
    rd = scan(pm.poller_modbus._read, KINDS, count=1)
    wr = scan(pm.poller_modbus._write, WKINDS, value=1)
    fmt = lambda bs: "[" + ", ".join(f"({lo}, {hi}, {k}, {base})" for lo, hi, k, base in bs) + "]"
    return ("/-- (first address, last address, kind 0 coil / 1 discrete input / 2 holding / 3 input register, address of offset 0) -/\n"
            f"def modbusReadBanks : List (Nat × Nat × Nat × Nat) := {fmt(rd)}\n"
            f"def modbusWriteBanks : List (Nat × Nat × Nat × Nat) := {fmt(wr)}\n")
