"""CIP element types (code / struct size / struct format), Logix constants, service numbers, and the
write type-compatibility table (a local of Logix.request: recovered by probing a matrix of writes)."""
NAME = "logix"

TYPES = ["BOOL", "SINT", "INT", "DINT", "LINT", "USINT", "UINT", "UDINT", "ULINT", "REAL", "LREAL",
         "SSTRING", "STRING"]


def section():
    import logging
    import cpppo
    from cpppo.server.enip import device, logix, parser
    from cpppo.server.enip.device import Attribute

    out = []
    for t in TYPES:
        c = getattr(parser, t)
        out.append(f"def tt_{t}_code : Nat := {c.tag_type}")
        out.append(f"def tt_{t}_size : Nat := {c.struct_calcsize}")
        out.append(f"def tt_{t}_fmt : String := \"{getattr(c, 'struct_format', '')}\"")
    out.append(f"def tt_STRUCT_code : Nat := {parser.STRUCT.tag_type}")
    out.append("def typesSupported : List Nat := ["
               + ", ".join(str(k) for k in sorted(parser.typed_data.TYPES_SUPPORTED)) + "]")
    L = logix.Logix
    out.append(f"def logixMaxBytes : Nat := {L.MAX_BYTES}")
    for nm, attr in [("svcReadTag", "RD_TAG_REQ"), ("svcReadFrag", "RD_FRG_REQ"), ("svcWriteTag", "WR_TAG_REQ"),
                     ("svcWriteFrag", "WR_FRG_REQ"), ("svcGetAttrSingle", "GA_SNG_REQ"),
                     ("svcSetAttrSingle", "SA_SNG_REQ"), ("svcGetAttrAll", "GA_ALL_REQ"),
                     ("svcGetAttrList", "GA_LST_REQ"), ("svcMultiple", "MULTIPLE_REQ")]:
        out.append(f"def {nm} : Nat := {getattr(L, attr)}")
    out.append(f"def routerClass : Nat := {L.class_id}")

    # probe the allowed (tag type <- request type) matrix through the real request path
    saved_dir, saved_sym, saved_ucmm = device.directory, device.symbol, logix.setup.ucmm
    lvl = logging.root.manager.disable
    logging.disable(logging.CRITICAL)
    try:
        device.lookup_reset()
        logix.setup_reset()
        tags = cpppo.dotdict()
        for t in TYPES:
            e = cpppo.dotdict()
            dflt = '' if 'STRING' in t else (0.0 if 'REAL' in t else 0)
            e.attribute = Attribute("T" + t, getattr(parser, t), default=[dflt, dflt])
            e.path = None
            e.error = 0
            dict.__setitem__(tags, "T" + t, e)
        logix.setup(tags=tags)
        obj = device.lookup(L.class_id, 1)
        rows = []
        for tag_t in TYPES:
            ok = []
            for req_t in TYPES:
                v = '' if 'STRING' in req_t else (0.0 if 'REAL' in req_t else (False if req_t == 'BOOL' else 0))
                data = cpppo.dotdict({'path': {'segment': [{'symbolic': "T" + tag_t}]},
                                      'write_tag': {'type': getattr(parser, req_t).tag_type, 'data': [v], 'elements': 1}})
                obj.request(data)
                if data.status == 0:
                    ok.append(getattr(parser, req_t).tag_type)
            rows.append(f"({getattr(parser, tag_t).tag_type}, [{', '.join(map(str, ok))}])")
        out.append("def allowedTable : List (Nat × List Nat) := [" + ",\n  ".join(rows) + "]")
    finally:
        device.directory, device.symbol, logix.setup.ucmm = saved_dir, saved_sym, saved_ucmm
        logging.disable(lvl)
    return "\n".join(out) + "\n"
