#!/venv/bin/python
"""./check <property> [--tier quick|thorough] [--seed N] [--replay file]"""
import importlib
import os
import sys

sys.path.insert(0, os.path.dirname(os.path.abspath(__file__)))
if os.environ.get("CPPPO_SRC"):
    sys.path.insert(0, os.environ["CPPPO_SRC"])
import framework  # noqa: E402


class Lazy(dict):
    """property id -> suite class, imported on demand (harness/corr/cXX.py, class CXX)"""
    def __contains__(self, pid):
        return os.path.exists(os.path.join(os.path.dirname(__file__), "corr", pid.lower() + ".py"))

    def __getitem__(self, pid):
        mod = importlib.import_module("corr." + pid.lower())
        return getattr(mod, pid)


if __name__ == "__main__":
    sys.exit(framework.main(Lazy()))
