#!/venv/bin/python
"""./check <property> [--tier quick|thorough] [--seed N] [--replay file]"""
import importlib
import os
import sys

sys.path.insert(0, os.path.dirname(os.path.abspath(__file__)))
if os.environ.get("CPPPO_SRC"):
    sys.path.insert(0, os.environ["CPPPO_SRC"])
import framework  # noqa: E402


class Lazy(dict):
    """property id -> suite class, imported on demand (harness/corr/cXX.py, class CXX)"""
    def __contains__(self, pid):
        return os.path.exists(os.path.join(os.path.dirname(__file__), "corr", pid.lower() + ".py"))

    def __getitem__(self, pid):
        mod = importlib.import_module("corr." + pid.lower())
        return getattr(mod, pid)


if __name__ == "__main__":
    if len(sys.argv) > 1 and sys.argv[1] == "all":
        # convenience: every claimed property, one after the other; exit 1 if any reports a violation
        import json
        import subprocess
        here = os.path.dirname(os.path.abspath(__file__))
        ids = [c["property_id"] for c in json.load(open(os.path.join(here, "..", "MANIFEST.json")))["checks"]]
        worst = 0
        for pid in ids:
            rc = subprocess.call([sys.executable, os.path.abspath(__file__), pid] + sys.argv[2:])
            worst = max(worst, rc)
        sys.exit(worst)
    sys.exit(framework.main(Lazy()))
