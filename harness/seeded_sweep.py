#!/usr/bin/env python3
"""Re-verify every seeded change under seeded/ against the current checks.

    python3 harness/seeded_sweep.py [name-prefix ...]

One scratch worktree of /repo (HEAD) under /tmp/m/sweep is created, each patch is applied there in turn (never to
/repo), its demo and the checks that are recorded as detecting it (or the property's own check) are run with
CPPPO_SRC pointing at the scratch tree, and seeded/<name>/meta.json["verification"] is rewritten.  The scratch tree is
removed at the end.  Prints one line per change; exit 1 if a change that was detected is no longer detected.
"""
import json
import os
import subprocess
import sys

VERIF = os.path.dirname(os.path.dirname(os.path.abspath(__file__)))
BASE = os.environ.get("SWEEP_BASE", "/tmp/m/sweep")


def sh(cmd, **kw):
    return subprocess.run(cmd, shell=True, stdout=subprocess.PIPE, stderr=subprocess.STDOUT, text=True, **kw)


def main():
    want = sys.argv[1:]
    sh(f"git -C /repo worktree remove --force {BASE}/repo; rm -rf {BASE}; mkdir -p {BASE}")
    r = sh(f"git -C /repo worktree add -q --detach {BASE}/repo HEAD && ln -sfn repo {BASE}/cpppo")
    if r.returncode:
        print(r.stdout)
        return 2
    lost = 0
    try:
        for name in sorted(os.listdir(os.path.join(VERIF, "seeded"))):
            d = os.path.join(VERIF, "seeded", name)
            if not os.path.isfile(os.path.join(d, "patch.diff")) or (want and not any(name.startswith(w) for w in want)):
                continue
            meta = json.load(open(os.path.join(d, "meta.json")))
            pid = meta.get("property") or name.split("-")[0]
            before = meta.get("verification", {}).get("detected_by", [])
            checks = list(dict.fromkeys([pid] + before))
            r = sh(f"python3 harness/seedtest.py {pid} {d} {' '.join(checks)}", cwd=VERIF, env=dict(os.environ, SEED_BASE=BASE))
            try:
                res = json.loads(r.stdout[r.stdout.index("{"):])
            except Exception:
                print(f"{name}: seedtest failed: {r.stdout[-300:]}")
                lost += 1
                continue
            kinds = {c: v.get("kind") or ("ok" if v["rc"] == 0 else f"rc{v['rc']}") for c, v in res["checks"].items()}
            flag = ""
            if not res.get("patch_applies"):
                flag = "  PATCH-NO-LONGER-APPLIES"
            elif not res.get("confirmed"):
                flag = "  DEMO-NOT-CONFIRMED"
            elif before and not res["detected_by"]:
                flag = "  LOST"
                lost += 1
            print(f"{name}: detected_by={res.get('detected_by')} {kinds}{flag}", flush=True)
    finally:
        sh(f"git -C /repo worktree remove --force {BASE}/repo; rm -rf {BASE}; git -C /repo worktree prune")
        sh("/venv/bin/python harness/extract.py", cwd=VERIF)
    return 1 if lost else 0


if __name__ == "__main__":
    sys.exit(main())
