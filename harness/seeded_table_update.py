#!/usr/bin/env python3
"""Replace the seeded-changes table in DESIGN.md (between the seeded-table markers) by the current one."""
import os
import subprocess
import sys

VERIF = os.path.dirname(os.path.dirname(os.path.abspath(__file__)))
table = subprocess.check_output([sys.executable, os.path.join(VERIF, "harness", "seeded_table.py")], text=True)
p = os.path.join(VERIF, "DESIGN.md")
s = open(p).read()
a, b = "<!-- seeded-table-begin -->", "<!-- seeded-table-end -->"
i, j = s.index(a) + len(a), s.index(b)
open(p, "w").write(s[:i] + "\n" + table.rstrip("\n") + "\n" + s[j:])
print("table rows:", table.count("\n") - 2)
