"""
Shared machinery for the per-property checks.

A check =  extract tables from live /repo  ->  lake build (theorems re-checked)  ->  axiom audit
        ->  correspondence (real code vs compiled Lean model on the same cases)
        ->  [when anything broke, or always for cheap oracles] failing-input search on the real code
        ->  evidence/<id>.json, exit status, VIOLATION / KNOWN-FINDING lines.

Suites subclass `Suite` (one per property, in harness/corr/cXX.py).
"""
from __future__ import annotations

import fcntl
import json
import os
import random
import re
import subprocess
import sys
import time
import traceback

VERIF = os.path.dirname(os.path.dirname(os.path.abspath(__file__)))
LEAN = os.path.join(VERIF, "lean")
DRIVER = os.path.join(LEAN, ".lake", "build", "bin", "cpppo_model")
# runs against a scratch copy of the code (CPPPO_SRC, used for seeded changes) must not overwrite the evidence of /repo
OUT = os.environ.get("VERIF_OUT") or (os.path.join(os.environ["CPPPO_SRC"], "verif-out") if os.environ.get("CPPPO_SRC")
                                      else VERIF)
REPLAYS = os.path.join(OUT, "replays")
EVIDENCE = os.path.join(OUT, "evidence")
CORPUS = os.path.join(VERIF, "harness", "corpus")
KNOWN = os.path.join(VERIF, "known_findings.json")
ALLOWED_AXIOMS = {"propext", "Classical.choice", "Quot.sound"}
FORBIDDEN = re.compile(
    r"\b(sorry|admit|native_decide|bv_decide|implemented_by|unsafe)\b|^\s*axiom\s|maxHeartbeats\s+0\b")

TRUSTED_BASE = [
    "Lean 4.33.0 kernel (leanchecker re-check in the thorough tier)",
    "axioms allowed: propext, Classical.choice, Quot.sound (audited per theorem on every run)",
    "Lean compiler: the compiled driver cpppo_model computes the model definitions the theorems are about",
    "harness/extract.py (tables regenerated from the live modules) and the correspondence harness (Python)",
    "CPython semantics of the modelled fragments (int, list slices, struct, str) - modelled, not verified",
]


# ------------------------------------------------------------------------------------------------
# suites
# ------------------------------------------------------------------------------------------------
class Suite:
    """One property.  Subclasses fill in the class attributes and the case machinery."""
    id = "C00"
    props_module = None            # e.g. "Cpppo.Props.C19"
    extra_modules: list[str] = []   # further modules whose theorems count as obligations
    always_oracle = True           # run the property oracle on every correspondence case
    assumptions: list[str] = []
    trusted_extra: list[str] = []
    rule = ""

    def setup(self, tier, rng):
        pass

    def cases(self, tier, rng):
        """yield JSON-serialisable cases"""
        return []

    def search_cases(self, tier, rng):
        """extra cases for the failing-input search (default: a fresh, larger draw)"""
        return self.cases("thorough" if tier == "quick" else tier, rng)

    def model_line(self, case) -> str:
        raise NotImplementedError

    def impl(self, case) -> str:
        """run the real code; return the canonical output line (same syntax as the driver's)"""
        raise NotImplementedError

    def oracle(self, case, impl_out):
        """property oracle on the real code's behaviour, independent of the Lean model.
        Return None if the property holds on this case, else a short description."""
        return None

    def nontrivial(self, case, out):
        """return a hashable key when the case is non-trivial (for distinct_nontrivial), else None"""
        return json.dumps(case, sort_keys=True)

    def classify(self, case, out) -> str:
        """histogram bucket for the input-distribution report"""
        return "all"

    def shrink(self, case):
        """yield smaller variants of a failing case (optional)"""
        return []

    def known_key(self, case) -> str:
        return self.model_line(case)

    def normalize_model(self, case, out: str) -> str:
        """canonicalise the driver's answer before it is compared with `impl` (e.g. sort a field list)"""
        return out

    def teardown(self):
        pass


# ------------------------------------------------------------------------------------------------
# build + audit
# ------------------------------------------------------------------------------------------------
def run(cmd, cwd=None, timeout=None, env=None, input=None):
    p = subprocess.run(cmd, cwd=cwd, timeout=timeout, env=env, input=input,
                       stdout=subprocess.PIPE, stderr=subprocess.STDOUT, text=True)
    return p.returncode, p.stdout


class LakeLock:
    def __enter__(self):
        os.makedirs(os.path.join(LEAN, ".lake"), exist_ok=True)
        self.f = open(os.path.join(LEAN, ".lake", "verif.lock"), "w")
        fcntl.flock(self.f, fcntl.LOCK_EX)
        return self

    def __exit__(self, *a):
        fcntl.flock(self.f, fcntl.LOCK_UN)
        self.f.close()


def extract_tables():
    """regenerate lean/Cpppo/Generated/Tables.lean from the live modules (only rewritten on change)"""
    rc, out = run(["/venv/bin/python", os.path.join(VERIF, "harness", "extract.py")], cwd=VERIF, timeout=600)
    return rc == 0, out


def lake_build(targets, timeout=3000):
    with LakeLock():
        rc, out = run(["lake", "build"] + targets, cwd=LEAN, timeout=timeout)
    return rc == 0, out


def audit(module):
    """#print axioms on every theorem declared in `module` (via Cpppo.Audit.Tool)."""
    short = module.split(".")[-1]
    path = os.path.join("Cpppo", "Audit", short + ".lean")
    text = f"import Cpppo.Audit.Tool\nimport {module}\n#audit_module {module}\n"
    full = os.path.join(LEAN, path)
    if not os.path.exists(full) or open(full).read() != text:
        with open(full, "w") as f:
            f.write(text)
    rc, out = run(["lake", "env", "lean", path], cwd=LEAN, timeout=1800)
    thms = {}
    for m in re.finditer(r"AUDIT (\S+) \[(.*?)\]", out):
        name, axs = m.group(1), [a.strip() for a in m.group(2).split(",") if a.strip()]
        thms[name] = axs
    return rc == 0, thms, out


def forbidden_tokens():
    """grep the Lean sources (comments stripped) for sorry/admit/axiom/native_decide/... """
    hits = []
    for root, _, files in os.walk(os.path.join(LEAN, "Cpppo")):
        for fn in files:
            if not fn.endswith(".lean"):
                continue
            p = os.path.join(root, fn)
            if fn == "Tool.lean" and root.endswith("Audit"):
                continue
            src = open(p, encoding="utf-8").read()
            src = re.sub(r"/-.*?-/", lambda m: "\n" * m.group(0).count("\n"), src, flags=re.S)
            for i, line in enumerate(src.split("\n"), 1):
                line = line.split("--")[0]
                if FORBIDDEN.search(line):
                    hits.append(f"{os.path.relpath(p, LEAN)}:{i}: {line.strip()}")
    return hits


# ------------------------------------------------------------------------------------------------
# driver
# ------------------------------------------------------------------------------------------------
def run_model(lines, timeout=3000):
    if not lines:
        return []
    data = "\n".join(lines) + "\n"
    p = subprocess.run([DRIVER], input=data, stdout=subprocess.PIPE, stderr=subprocess.PIPE,
                       text=True, timeout=timeout)
    out = p.stdout.split("\n")
    if out and out[-1] == "":
        out.pop()
    if p.returncode != 0 or len(out) != len(lines):
        raise RuntimeError(f"driver failed rc={p.returncode} lines={len(lines)} out={len(out)} "
                           f"stderr={p.stderr[-2000:]}")
    return out


# ------------------------------------------------------------------------------------------------
# known findings
# ------------------------------------------------------------------------------------------------
def load_known(pid):
    try:
        data = json.load(open(KNOWN))
    except FileNotFoundError:
        return []
    return [f for f in data.get("findings", []) if f.get("property") == pid]


# ------------------------------------------------------------------------------------------------
# the check
# ------------------------------------------------------------------------------------------------
def impl_safe(suite, case):
    try:
        return suite.impl(case)
    except Exception as exc:  # the harness itself must not die on an unexpected exception class
        return "harness-exception:" + type(exc).__name__ + ":" + str(exc)[:200].replace("\n", " ")


def raised_in_library(exc) -> bool:
    """did this exception come out of the code under test (rather than out of the harness)?"""
    try:
        import cpppo
        root = os.path.dirname(os.path.abspath(cpppo.__file__)) + os.sep
    except Exception:
        return False
    tb = exc.__traceback__
    while tb is not None:
        if os.path.abspath(tb.tb_frame.f_code.co_filename).startswith(root):
            return True
        tb = tb.tb_next
    return False


def check(suite: Suite, tier: str, seed: int, replay: str | None = None, budget_s: float | None = None):
    t0 = time.time()
    pid = suite.id
    rng = random.Random(f"{pid}-{seed}")
    os.makedirs(REPLAYS, exist_ok=True)
    os.makedirs(EVIDENCE, exist_ok=True)
    report = {"broken_obligations": [], "disagreements": [], "oracle_failures": []}
    log = lambda *a: print(*a, file=sys.stderr, flush=True)

    # 1. tables from the live source, 2. theorems re-checked, 3. axioms
    ok_x, out_x = extract_tables()
    if not ok_x:
        report["broken_obligations"].append({"what": "extract.py failed", "log": out_x[-3000:]})
    modules = [suite.props_module] + list(suite.extra_modules)
    ok_b, out_b = lake_build(modules + ["Cpppo.Audit.Tool", "cpppo_model"])
    if not ok_b:
        errs = [l for l in out_b.split("\n") if "error" in l][:20]
        report["broken_obligations"].append({"what": "lake build failed", "errors": errs, "log": out_b[-4000:]})
    theorems, bad_axioms = {}, {}
    if ok_b:
        for mod in modules:
            ok_a, thms, out_a = audit(mod)
            if not ok_a or not thms:
                report["broken_obligations"].append({"what": f"audit of {mod} failed", "log": out_a[-3000:]})
            theorems.update(thms)
        bad_axioms = {n: a for n, a in theorems.items() if not set(a) <= ALLOWED_AXIOMS}
        for n, a in bad_axioms.items():
            report["broken_obligations"].append({"what": f"theorem {n} depends on non-allowed axioms {a}"})
        hits = forbidden_tokens()
        if hits:
            report["broken_obligations"].append({"what": "forbidden tokens in Lean sources", "hits": hits[:20]})
    leancheck = None
    if ok_b and tier == "thorough" and not replay:
        rc, out = run(["lake", "env", "leanchecker"] + modules, cwd=LEAN, timeout=3000)
        leancheck = (rc == 0)
        if rc != 0:
            report["broken_obligations"].append({"what": "leanchecker rejected", "log": out[-3000:]})

    # 4. correspondence
    setup_ok = True
    try:
        suite.setup(tier, rng)
    except Exception as exc:
        if not raised_in_library(exc):
            raise
        setup_ok = False
        report["broken_obligations"].append({
            "what": "the suite's setup raised inside the code under test: %s: %s" % (type(exc).__name__, str(exc)[:200]),
            "log": "".join(traceback.format_exception(type(exc), exc, exc.__traceback__))[-3000:]})
    cases = []
    corpus_file = os.path.join(CORPUS, pid + ".jsonl")
    if replay:
        rp = json.load(open(replay))
        cases = [c["case"] for c in rp.get("cases", [])]
    else:
        if os.path.exists(corpus_file):
            for line in open(corpus_file):
                line = line.strip()
                if line:
                    cases.append(json.loads(line))
        n_corpus = len(cases)
        try:
            for c in (suite.cases(tier, rng) if setup_ok else []):
                cases.append(c)
                if budget_s and time.time() - t0 > budget_s:
                    break
        except Exception as exc:
            # a generator that drives the library to build its inputs (payloads, devices) met an exception inside the
            # library: the correspondence cannot be run as planned; that is a broken obligation, not a harness crash
            if not raised_in_library(exc):
                raise
            report["broken_obligations"].append({
                "what": "case generation raised inside the code under test after %d cases: %s: %s" % (
                    len(cases) - n_corpus, type(exc).__name__, str(exc)[:200]),
                "log": "".join(traceback.format_exception(type(exc), exc, exc.__traceback__))[-3000:]})
    impl_out = [impl_safe(suite, c) for c in cases]
    def model_line_safe(c):
        try:
            return suite.model_line(c)
        except Exception as exc:      # a case whose device could not even be set up: the model is not asked
            return "model-line-failed " + type(exc).__name__

    lines = [model_line_safe(c) for c in cases]
    model_out = None
    if ok_b:
        try:
            model_out = run_model(lines)
            model_out = [suite.normalize_model(c, o) for c, o in zip(cases, model_out)]
        except Exception as exc:
            report["broken_obligations"].append({"what": "model driver failed", "log": str(exc)[-2000:]})
    known = load_known(pid)
    known_keys = {k["key"]: k for k in known}
    known_hit = {}
    hist, nontrivial = {}, set()
    for i, c in enumerate(cases):
        b = suite.classify(c, impl_out[i])
        hist[b] = hist.get(b, 0) + 1
        k = suite.nontrivial(c, impl_out[i])
        if isinstance(k, (list, tuple, set)):
            nontrivial.update(k)
        elif k is not None:
            nontrivial.add(k)
        if model_out is not None and model_out[i] != impl_out[i]:
            report["disagreements"].append({"case": c, "line": lines[i], "impl": impl_out[i], "model": model_out[i]})
        if suite.always_oracle:
            why = suite.oracle(c, impl_out[i])
            if why:
                key = suite.known_key(c)
                if key in known_keys:
                    known_hit[key] = why
                else:
                    report["oracle_failures"].append({"case": c, "line": lines[i], "impl": impl_out[i], "why": why})

    # 5. known findings are replayed against the implementation on every run
    for k in known:
        if "case" not in k:
            continue
        out = impl_safe(suite, k["case"])
        why = suite.oracle(k["case"], out)
        if why:
            known_hit[k["key"]] = why
    for key, why in known_hit.items():
        print(f"KNOWN-FINDING: property={pid} {known_keys[key].get('what', '')} [{key}] ({why})")

    # 6. failing-input search when something broke
    violation = None
    if report["oracle_failures"]:
        first = report["oracle_failures"][0]
        first = shrink_failure(suite, first)
        violation = {"kind": "failing-input", "cases": [first], "why": first["why"]}
    elif report["broken_obligations"] or report["disagreements"]:
        log(f"[{pid}] proof obligation or correspondence broken -> searching the real code for a failing input")
        found = None
        cand = [d["case"] for d in report["disagreements"]]
        for c in cand:
            out = impl_safe(suite, c)
            why = suite.oracle(c, out)
            if why and suite.known_key(c) not in known_keys:
                found = {"case": c, "line": suite.model_line(c), "impl": out, "why": why}
                break
        if not found and not replay and setup_ok:
            srng = random.Random(f"{pid}-search-{seed}")
            t1 = time.time()
            limit = 120 if tier == "quick" else 900
            try:
                for c in suite.search_cases(tier, srng):
                    out = impl_safe(suite, c)
                    why = suite.oracle(c, out)
                    if why and suite.known_key(c) not in known_keys:
                        found = {"case": c, "line": suite.model_line(c), "impl": out, "why": why}
                        break
                    if time.time() - t1 > limit:
                        break
            except Exception as exc:
                if not raised_in_library(exc):
                    raise
                log(f"[{pid}] the search's generator raised inside the code under test too: {type(exc).__name__}")
        if found:
            found = shrink_failure(suite, found)
            violation = {"kind": "failing-input", "cases": [found], "why": found["why"]}
        else:
            violation = {"kind": "no-failing-input-found",
                         "cases": report["disagreements"][:5],
                         "broken_obligations": report["broken_obligations"],
                         "why": "a proof obligation or the model/code correspondence no longer checks; "
                                "the property is no longer shown to hold"}
    suite.teardown()

    # 7. evidence
    user_thms = sorted(theorems)
    n_obl = max(len(user_thms), 1)
    n_dis = len([n for n in user_thms if n not in bad_axioms]) if ok_b else 0
    wall = time.time() - t0
    samples = [{"line": lines[i], "impl": impl_out[i]} for i in range(0, len(cases), max(1, len(cases) // 5))][:6]
    ev = {
        "property_id": pid, "tier": tier, "seed": seed, "level": "proof",
        "coverage": {
            "obligations": n_obl, "discharged": n_dis,
            "checker_cmd": f"cd lean && lake build {' '.join(modules)} && lake env lean Cpppo/Audit/{pid}.lean"
                           + (" && lake env leanchecker " + " ".join(modules) if tier == "thorough" else ""),
            "trusted_base": TRUSTED_BASE + list(suite.trusted_extra),
            "theorems": {n: theorems[n] for n in user_thms},
            "leanchecker": leancheck,
            "evaluations": len(cases), "distinct_nontrivial": len(nontrivial),
            "rule": suite.rule, "samples": samples, "input_distribution": hist,
            "correspondence_disagreements": len(report["disagreements"]),
            "oracle_failures": len(report["oracle_failures"]),
            "known_findings_reproduced": sorted(known_hit),
            "broken_obligations": [b["what"] for b in report["broken_obligations"]],
        },
        "assumptions": list(suite.assumptions),
        "wall_s": round(wall, 2),
        "violations": 1 if violation else 0,
    }
    with open(os.path.join(EVIDENCE, pid + ".json"), "w") as f:
        json.dump(ev, f, indent=1, sort_keys=True, default=str)
    log(f"[{pid}] tier={tier} seed={seed} theorems={n_dis}/{n_obl} cases={len(cases)} "
        f"nontrivial={len(nontrivial)} disagreements={len(report['disagreements'])} "
        f"oracle_failures={len(report['oracle_failures'])} wall={wall:.1f}s")
    if violation:
        path = os.path.join(REPLAYS, f"{pid}-{tier}-{seed}.json")
        with open(path, "w") as f:
            json.dump({"property": pid, "tier": tier, "seed": seed, **violation}, f, indent=1, default=str)
        tail = " no-failing-input-found" if violation["kind"] == "no-failing-input-found" else ""
        print(f"VIOLATION property={pid} replay={path}{tail}")
        log(f"[{pid}] {violation['why']}")
        return 1
    print(f"OK property={pid} tier={tier} seed={seed}")
    return 0


def shrink_failure(suite, failure):
    """greedy shrinking with the suite's own shrinker; the oracle decides"""
    best = failure
    improved, rounds = True, 0
    while improved and rounds < 200:
        improved = False
        rounds += 1
        for c in suite.shrink(best["case"]):
            out = impl_safe(suite, c)
            why = suite.oracle(c, out)
            if why:
                best = {"case": c, "line": suite.model_line(c), "impl": out, "why": why}
                improved = True
                break
    return best


def main(suites: dict):
    import argparse
    ap = argparse.ArgumentParser()
    ap.add_argument("property")
    ap.add_argument("--tier", default=os.environ.get("VERIF_TIER", "quick"), choices=["quick", "thorough"])
    ap.add_argument("--seed", type=int, default=int(os.environ.get("VERIF_SEED", "0") or 0))
    ap.add_argument("--replay")
    args = ap.parse_args()
    if args.property not in suites:
        print(f"unknown property {args.property}", file=sys.stderr)
        return 2
    try:
        return check(suites[args.property](), args.tier, args.seed, args.replay)
    except subprocess.TimeoutExpired as exc:
        print(f"TIMEOUT {exc}", file=sys.stderr)
        return 2
    except Exception:
        traceback.print_exc()
        return 2
