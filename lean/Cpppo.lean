import Cpppo.Props.C10
import Cpppo.Props.C19
