import Cpppo.Props.C01
import Cpppo.Props.C03
import Cpppo.Props.C04
import Cpppo.Props.C05
import Cpppo.Props.C07
import Cpppo.Props.C10
import Cpppo.Props.C17
import Cpppo.Props.C19
