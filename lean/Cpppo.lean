import Cpppo.Props.C17
import Cpppo.Props.C19
