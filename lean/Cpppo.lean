import Cpppo.Props.C12
import Cpppo.Props.C19
