import Cpppo.Props.C18
import Cpppo.Props.C19
