import Cpppo.Props.C03
import Cpppo.Props.C19
