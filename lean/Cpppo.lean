import Cpppo.Props.C19
