import Cpppo.Props.C16
import Cpppo.Props.C19
