import Cpppo.Props.C03
import Cpppo.Props.C04
import Cpppo.Props.C05
import Cpppo.Props.C07
import Cpppo.Props.C13
import Cpppo.Props.C19
