import Cpppo.Props.C11
import Cpppo.Props.C19
