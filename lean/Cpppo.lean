import Cpppo.Props.C19
import Cpppo.Props.C20
