import Cpppo.Props.C15
import Cpppo.Props.C19
