import Cpppo.Audit.Tool
import Cpppo.Proofs.Framing
#audit_module Cpppo.Proofs.Framing
