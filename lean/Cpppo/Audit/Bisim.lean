import Cpppo.Audit.Tool
import Cpppo.Proofs.Bisim
#audit_module Cpppo.Proofs.Bisim
