import Cpppo.Audit.Tool
import Cpppo.Props.C13
#audit_module Cpppo.Props.C13
