import Cpppo.Audit.Tool
import Cpppo.Props.C02
#audit_module Cpppo.Props.C02
