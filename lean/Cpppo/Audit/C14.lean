import Cpppo.Audit.Tool
import Cpppo.Props.C14
#audit_module Cpppo.Props.C14
