import Cpppo.Audit.Tool
import Cpppo.Props.C09
#audit_module Cpppo.Props.C09
