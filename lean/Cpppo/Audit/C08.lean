import Cpppo.Audit.Tool
import Cpppo.Props.C08
#audit_module Cpppo.Props.C08
