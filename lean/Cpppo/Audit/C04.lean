import Cpppo.Audit.Tool
import Cpppo.Props.C04
#audit_module Cpppo.Props.C04
