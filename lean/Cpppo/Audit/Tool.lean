import Lean
/-!
`#audit_module M` prints, for every theorem declared in module `M`, the axioms it depends on, as
`AUDIT <name> [ax1, ax2]`.  The harness parses these lines on every run.
-/
open Lean Elab Command

elab "#audit_module " m:ident : command => do
  let env ← getEnv
  let some idx := env.getModuleIdx? m.getId | throwError "module {m.getId} is not imported"
  let names := env.header.moduleData[idx.toNat]!.constNames
  for n in names do
    if n.isInternalDetail then continue
    -- skip compiler-generated equation / unfolding lemmas of definitions (`f.eq_1`, `f.eq_def`, …)
    let last := n.getString!
    if last.startsWith "eq_" || last == "eq_def" || last.startsWith "match_" || last == "induct" || last == "induct_unfolding"
        || last == "fun_cases" || last == "fun_cases_unfolding" || last.startsWith "sizeOf_" || last == "injEq" || last == "inj" then continue
    match env.find? n with
    | some (.thmInfo _) =>
      let axs ← Lean.collectAxioms n
      let axs := axs.toList.map (·.toString)
      logInfo m!"AUDIT {n} [{", ".intercalate axs}]"
    | _ => pure ()
