import Cpppo.Audit.Tool
import Cpppo.Props.C16
#audit_module Cpppo.Props.C16
