import Cpppo.Audit.Tool
import Cpppo.Proofs.Serve
#audit_module Cpppo.Proofs.Serve
