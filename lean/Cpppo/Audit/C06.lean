import Cpppo.Audit.Tool
import Cpppo.Props.C06
#audit_module Cpppo.Props.C06
