import Cpppo.Audit.Tool
import Cpppo.Props.C20
#audit_module Cpppo.Props.C20
