import Cpppo.Audit.Tool
import Cpppo.Props.C07
#audit_module Cpppo.Props.C07
