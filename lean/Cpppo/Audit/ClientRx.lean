import Cpppo.Audit.Tool
import Cpppo.Proofs.ClientRx
#audit_module Cpppo.Proofs.ClientRx
