import Cpppo.Audit.Tool
import Cpppo.Props.C05
#audit_module Cpppo.Props.C05
