import Cpppo.Audit.Tool
import Cpppo.Props.C12
#audit_module Cpppo.Props.C12
