import Cpppo.Audit.Tool
import Cpppo.Proofs.Natural
#audit_module Cpppo.Proofs.Natural
