import Cpppo.Audit.Tool
import Cpppo.Proofs.Crumbs
#audit_module Cpppo.Proofs.Crumbs
