import Cpppo.Audit.Tool
import Cpppo.Proofs.Regex
#audit_module Cpppo.Proofs.Regex
