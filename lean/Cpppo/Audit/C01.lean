import Cpppo.Audit.Tool
import Cpppo.Props.C01
#audit_module Cpppo.Props.C01
