import Cpppo.Audit.Tool
import Cpppo.Props.C17
#audit_module Cpppo.Props.C17
