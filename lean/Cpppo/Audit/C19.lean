import Cpppo.Audit.Tool
import Cpppo.Props.C19
#audit_module Cpppo.Props.C19
