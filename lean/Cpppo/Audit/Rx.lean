import Cpppo.Audit.Tool
import Cpppo.Proofs.Rx
#audit_module Cpppo.Proofs.Rx
