import Cpppo.Audit.Tool
import Cpppo.Props.C03
#audit_module Cpppo.Props.C03
