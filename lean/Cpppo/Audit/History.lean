import Cpppo.Audit.Tool
import Cpppo.Proofs.History
#audit_module Cpppo.Proofs.History
