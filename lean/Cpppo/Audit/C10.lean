import Cpppo.Audit.Tool
import Cpppo.Props.C10
#audit_module Cpppo.Props.C10
