import Cpppo.Audit.Tool
import Cpppo.Props.C15
#audit_module Cpppo.Props.C15
