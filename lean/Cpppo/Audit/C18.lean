import Cpppo.Audit.Tool
import Cpppo.Props.C18
#audit_module Cpppo.Props.C18
