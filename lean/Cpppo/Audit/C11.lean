import Cpppo.Audit.Tool
import Cpppo.Props.C11
#audit_module Cpppo.Props.C11
