import Cpppo.Model.Tnet
/-! Helper lemmas for C20 (decimal rendering vs Python `int()`, framing, UTF-8, fuel). -/
namespace Cpppo.Tnet

/-! ### decimal -/

def ofLE : List Nat → Nat
  | [] => 0
  | d :: ds => d + 10 * ofLE ds

theorem digitsLE_lt (fuel n : Nat) : ∀ d ∈ digitsLE fuel n, d < 10 := by
  induction fuel generalizing n with
  | zero => intro d hd; simp [digitsLE] at hd; omega
  | succ f ih =>
    intro d hd
    unfold digitsLE at hd
    split at hd
    · simp at hd; omega
    · simp only [List.mem_cons] at hd
      rcases hd with rfl | hd
      · omega
      · exact ih _ d hd

theorem digitsLE_ne_nil (fuel n : Nat) : digitsLE fuel n ≠ [] := by
  cases fuel <;> (unfold digitsLE; try split) <;> simp

theorem ofLE_digitsLE (fuel n : Nat) (h : n ≤ fuel) : ofLE (digitsLE fuel n) = n := by
  induction fuel generalizing n with
  | zero => simp [digitsLE, ofLE]; omega
  | succ f ih =>
    unfold digitsLE
    split
    · simp [ofLE]
    · simp only [ofLE]
      rw [ih _ (by omega)]; omega

/-- value of a string of ASCII digits, most significant first (what `int()` computes) -/
def decVal (acc : Nat) (ds : Bytes) : Nat := ds.foldl (fun a b => a * 10 + (b - 48)) acc

theorem decVal_natDec (n : Nat) : decVal 0 (natDec n) = n := by
  unfold decVal natDec
  rw [List.foldl_map, List.foldl_reverse]
  have : ∀ ds : List Nat, List.foldr (fun x y => y * 10 + (48 + x - 48)) 0 ds = ofLE ds := by
    intro ds; induction ds with
    | nil => rfl
    | cons d ds ih => simp only [List.foldr, ofLE, ih]; omega
  rw [this, ofLE_digitsLE _ _ (Nat.le_refl _)]

theorem natDec_digits (n : Nat) : ∀ b ∈ natDec n, isDigit b = true := by
  intro b hb
  simp only [natDec, List.mem_map, List.mem_reverse] at hb
  obtain ⟨d, hd, rfl⟩ := hb
  have := digitsLE_lt _ _ d hd
  simp [isDigit]; omega

theorem natDec_ne_nil (n : Nat) : natDec n ≠ [] := by
  simp [natDec, digitsLE_ne_nil]

theorem natDec_length_pos (n : Nat) : 0 < (natDec n).length :=
  List.length_pos_iff.mpr (natDec_ne_nil n)

theorem pyDigits_digits (ds : Bytes) (acc : Nat) (h : ∀ b ∈ ds, isDigit b = true) :
    pyDigits acc false ds = some (decVal acc ds) := by
  induction ds generalizing acc with
  | nil => simp [pyDigits, decVal]
  | cons b ds ih =>
    have hb := h b (by simp)
    simp only [pyDigits, hb, if_true]
    rw [ih _ (fun x hx => h x (by simp [hx]))]
    simp [decVal]

theorem pyNat_digits (ds : Bytes) (hne : ds ≠ []) (h : ∀ b ∈ ds, isDigit b = true) :
    pyNat ds = some (decVal 0 ds) := by
  cases ds with
  | nil => exact absurd rfl hne
  | cons b ds =>
    have hb := h b (by simp)
    simp only [pyNat, hb, if_true]
    rw [pyDigits_digits _ _ (fun x hx => h x (by simp [hx]))]
    simp [decVal]

theorem isDigit_not_space {b : Nat} (h : isDigit b = true) : isSpace b = false := by
  simp [isDigit] at h; simp [isSpace]; omega

theorem pyInt_digits (ds : Bytes) (hne : ds ≠ []) (h : ∀ b ∈ ds, isDigit b = true) :
    pyInt ds = some (Int.ofNat (decVal 0 ds)) := by
  cases ds with
  | nil => exact absurd rfl hne
  | cons b ds =>
    have hb := h b (by simp)
    have hs := isDigit_not_space hb
    have h43 : b ≠ 43 := by rintro rfl; simp [isDigit] at hb
    have h45 : b ≠ 45 := by rintro rfl; simp [isDigit] at hb
    have hd : dropSpace (b :: ds) = b :: ds := by simp [dropSpace, hs]
    unfold pyInt
    rw [hd]
    split
    · rename_i heq; simp at heq; exact absurd heq.1 h43
    · rename_i heq; simp at heq; exact absurd heq.1 h45
    · rw [pyNat_digits _ hne h]; rfl

theorem pyInt_natDec (n : Nat) : pyInt (natDec n) = some (Int.ofNat n) := by
  rw [pyInt_digits _ (natDec_ne_nil n) (natDec_digits n), decVal_natDec]

theorem pyInt_intDec (i : Int) : pyInt (intDec i) = some i := by
  cases i with
  | ofNat n => exact pyInt_natDec n
  | negSucc n =>
    have hne := natDec_ne_nil (n + 1)
    have h := pyNat_digits _ hne (natDec_digits (n + 1))
    rw [decVal_natDec] at h
    simp only [intDec, pyInt, dropSpace]
    have : isSpace 45 = false := by decide
    simp only [this]
    simp [Int.negSucc_eq]
    exact ⟨n + 1, h, by omega⟩


/-! ### framing -/

theorem splitColon_append (ds X : Bytes) (h : ∀ b ∈ ds, b ≠ 58) :
    splitColon (ds ++ 58 :: X) = some (ds, X) := by
  induction ds with
  | nil => simp [splitColon]
  | cons b ds ih =>
    have hb : (b == 58) = false := by simpa using h b (by simp)
    simp only [List.cons_append, splitColon, hb]
    rw [ih (fun x hx => h x (by simp [hx]))]
    simp

theorem digit_ne_colon {b : Nat} (h : isDigit b = true) : b ≠ 58 := by
  simp [isDigit] at h; omega

theorem frame_ne_nil (p : Bytes) (t : Nat) : frame p t ≠ [] := by
  have := natDec_ne_nil p.length
  simp [frame, this]

theorem frame_length (p : Bytes) (t : Nat) :
    (frame p t).length = (natDec p.length).length + p.length + 2 := by
  simp [frame]; omega

/-- `parse_payload` on any all-digit prefix whose value is the payload length (leading zeros allowed) -/
theorem parsePayload_digits (ds p : Bytes) (t : Nat) (rest : Bytes) (hne : ds ≠ [])
    (hd : ∀ b ∈ ds, isDigit b = true) (hl : decVal 0 ds = p.length) :
    parsePayload (ds ++ 58 :: (p ++ t :: rest)) = some (p, t, rest) := by
  have hne' : (ds ++ 58 :: (p ++ t :: rest)).isEmpty = false := by
    cases ds with
    | nil => exact absurd rfl hne
    | cons a l => rfl
  unfold parsePayload
  rw [hne']
  have hsplit := splitColon_append ds (p ++ t :: rest) (fun b hb => digit_ne_colon (hd b hb))
  simp only [hsplit, pyInt_digits ds hne hd, hl]
  simp

/-- **The length prefix is the only thing that delimits a payload**: whatever the payload bytes
are, `parse_payload` of a framed payload followed by anything returns exactly that payload, its
type byte and the remainder. -/
theorem parsePayload_frame (p : Bytes) (t : Nat) (rest : Bytes) :
    parsePayload (frame p t ++ rest) = some (p, t, rest) := by
  have : frame p t ++ rest = natDec p.length ++ 58 :: (p ++ t :: rest) := by simp [frame]
  rw [this]
  exact parsePayload_digits _ p t rest (natDec_ne_nil _) (natDec_digits _) (decVal_natDec _)

/-! ### UTF-8 -/

theorem utf8Dec_encCp (c : Nat) (hc : isScalar c = true) (rest : Bytes) :
    utf8Dec (utf8EncCp c ++ rest) = (utf8Dec rest).map (c :: ·) := by
  have hs := hc
  simp only [isScalar, Bool.or_eq_true, Bool.and_eq_true, decide_eq_true_eq] at hc
  unfold utf8EncCp
  split
  · rw [utf8Dec.eq_def]; simp [*]
  · split
    · have h1 : ¬ (192 + c / 64 < 128) := by omega
      have h2 : ¬ (192 + c / 64 < 194) := by omega
      have h3 : 192 + c / 64 < 224 := by omega
      have h4 : isCont (128 + c % 64) = true := by simp [isCont]; omega
      have h5 : c / 64 * 64 + c % 64 = c := by omega
      rw [utf8Dec.eq_def]; simp [h1, h2, h3, h4, h5]
    · split
      · have h1 : ¬ (224 + c / 4096 < 128) := by omega
        have h2 : ¬ (224 + c / 4096 < 194) := by omega
        have h3 : ¬ (224 + c / 4096 < 224) := by omega
        have h3' : 224 + c / 4096 < 240 := by omega
        have h4 : isCont (128 + c / 64 % 64) = true := by simp [isCont]; omega
        have h4' : isCont (128 + c % 64) = true := by simp [isCont]; omega
        have h5 : c / 4096 * 4096 + c / 64 % 64 * 64 + c % 64 = c := by omega
        have h7 : 2048 ≤ c := by omega
        rw [utf8Dec.eq_def]; simp [h1, h2, h3, h3', h4, h4', h5, hs, h7]
      · have h1 : ¬ (240 + c / 262144 < 128) := by omega
        have h2 : ¬ (240 + c / 262144 < 194) := by omega
        have h3 : ¬ (240 + c / 262144 < 224) := by omega
        have h3' : ¬ (240 + c / 262144 < 240) := by omega
        have h3'' : 240 + c / 262144 < 245 := by omega
        have h4 : isCont (128 + c / 4096 % 64) = true := by simp [isCont]; omega
        have h4' : isCont (128 + c / 64 % 64) = true := by simp [isCont]; omega
        have h4'' : isCont (128 + c % 64) = true := by simp [isCont]; omega
        have h5 : c / 262144 * 262144 + c / 4096 % 64 * 4096 + c / 64 % 64 * 64 + c % 64 = c := by omega
        have h7 : 65536 ≤ c := by omega
        have h8 : c < 1114112 := by omega
        rw [utf8Dec.eq_def]; simp [h1, h2, h3, h3', h3'', h4, h4', h4'', h5, h7, h8]

/-- `s.encode('utf-8').decode('utf-8') == s` for text made of Unicode scalar values -/
theorem utf8Dec_enc (cps : List Nat) (h : cps.all isScalar = true) :
    utf8Dec (utf8Enc cps) = some cps := by
  induction cps with
  | nil => simp [utf8Enc, utf8Dec]
  | cons c cs ih =>
    simp only [List.all_cons, Bool.and_eq_true] at h
    simp only [utf8Enc]
    rw [utf8Dec_encCp c h.1, ih h.2]
    rfl


/-! ### text codecs -/

theorem unitsOf_enc (cps : List Nat) :
    unitsOf true (utf16EncLE cps) = some (cps.flatMap utf16Units) := by
  induction cps with
  | nil => simp [utf16EncLE, unitsOf]
  | cons c cs ih =>
    simp only [utf16EncLE, List.flatMap_cons]
    by_cases hc : c < 65536
    · have hu : utf16Units c = [c] := by simp [utf16Units, hc]
      have h1 : c % 256 + 256 * (c / 256) = c := by omega
      rw [hu]
      simp [unitsOf, ih, h1]
    · have hu : utf16Units c = [55296 + (c - 65536) / 1024, 56320 + (c - 65536) % 1024] := by
        simp [utf16Units, hc]
      have h1 : (55296 + (c - 65536) / 1024) % 256 + 256 * ((55296 + (c - 65536) / 1024) / 256)
          = 55296 + (c - 65536) / 1024 := by omega
      have h2 : (56320 + (c - 65536) % 1024) % 256 + 256 * ((56320 + (c - 65536) % 1024) / 256)
          = 56320 + (c - 65536) % 1024 := by omega
      rw [hu]
      simp only [List.flatMap_cons, List.flatMap_nil, List.append_nil, List.cons_append, List.nil_append,
        unitsOf, if_true, h1, h2, ih]
      simp

theorem decUnits_units (c : Nat) (hc : isScalar c = true) (rest : List Nat) :
    decUnits (utf16Units c ++ rest) = (decUnits rest).map (c :: ·) := by
  simp only [isScalar, Bool.or_eq_true, Bool.and_eq_true, decide_eq_true_eq] at hc
  unfold utf16Units
  split
  · have h2 : c < 55296 ∨ 57344 ≤ c := by omega
    rw [decUnits.eq_def]
    simp [h2]
  · have h1 : ¬ (55296 + (c - 65536) / 1024 < 55296) := by omega
    have h2 : ¬ (57344 ≤ 55296 + (c - 65536) / 1024) := by omega
    have h3 : 55296 + (c - 65536) / 1024 < 56320 := by omega
    have h5 : ¬ (57344 ≤ 56320 + (c - 65536) % 1024) := by omega
    have h6 : 65536 + (c - 65536) / 1024 * 1024 + (c - 65536) % 1024 = c := by omega
    rw [decUnits.eq_def]
    simp [h1, h2, h3, h5, h6]

theorem decUnits_flatMap (cps : List Nat) (h : cps.all isScalar = true) :
    decUnits (cps.flatMap utf16Units) = some cps := by
  induction cps with
  | nil => simp [decUnits]
  | cons c cs ih =>
    simp only [List.all_cons, Bool.and_eq_true] at h
    simp only [List.flatMap_cons]
    rw [decUnits_units c h.1, ih h.2]
    rfl

theorem utf16Dec_enc (cps : List Nat) (h : cps.all isScalar = true) :
    utf16Dec true (utf16EncLE cps) = some cps := by
  simp [utf16Dec, unitsOf_enc, decUnits_flatMap cps h]

/-- `s.encode(E).decode(E) == s` for every modelled codec, whenever `encode` succeeds -/
theorem decText_encText (e : Enc) (cps : List Nat) (h : encOk e cps = true) :
    decText e (encText e cps) = some cps := by
  cases e with
  | utf8 => exact utf8Dec_enc cps h
  | latin1 => rfl
  | ascii => simp only [encOk] at h; simp [decText, encText, h]
  | utf16 => simp only [encOk] at h; simp only [decText, encText]; exact utf16Dec_enc cps h

/-! ### fuel -/

mutual
/-- recursion fuel that `parseF` needs for the serialisation of a value -/
def size : TVal → Nat
  | .list vs => 1 + sizeL vs
  | .dict kvs => 1 + sizeD kvs
  | _ => 1
def sizeL : TList → Nat
  | .nil => 1
  | .cons v vs => 1 + size v + sizeL vs
def sizeD : TDict → Nat
  | .nil => 1
  | .cons _ v kvs => 2 + size v + sizeD kvs
end

theorem frame_length_ge (p : Bytes) (t : Nat) : p.length + 3 ≤ (frame p t).length := by
  have := natDec_length_pos p.length
  rw [frame_length]; omega

mutual
theorem size_lt_dump (e : Enc) : ∀ v : TVal, size v + 1 ≤ (dump e v).length
  | .int i => by have := frame_length_ge (intDec i) 35; simp only [size, dump]; omega
  | .float tok => by have := frame_length_ge tok 94; simp only [size, dump]; omega
  | .bool b => by have := frame_length_ge (boolTok b) 33; simp only [size, dump]; omega
  | .null => by simp [size, dump]
  | .bytes bs => by have := frame_length_ge bs 44; simp only [size, dump]; omega
  | .text cps => by have := frame_length_ge (encText e cps) 36; simp only [size, dump]; omega
  | .list vs => by
    have := frame_length_ge (dumpList e vs) 93
    have := sizeL_le_dump e vs
    simp only [size, dump]; omega
  | .dict kvs => by
    have := frame_length_ge (dumpDict e kvs) 125
    have := sizeD_le_dump e kvs
    simp only [size, dump]; omega
theorem sizeL_le_dump (e : Enc) : ∀ vs : TList, sizeL vs ≤ (dumpList e vs).length + 1
  | .nil => by simp [sizeL, dumpList]
  | .cons v vs => by
    have := size_lt_dump e v
    have := sizeL_le_dump e vs
    simp only [sizeL, dumpList, List.length_append]; omega
theorem sizeD_le_dump (e : Enc) : ∀ kvs : TDict, sizeD kvs ≤ (dumpDict e kvs).length + 1
  | .nil => by simp [sizeD, dumpDict]
  | .cons k v kvs => by
    have := size_lt_dump e v
    have := sizeD_le_dump e kvs
    have := frame_length_ge k 44
    simp only [sizeD, dumpDict, List.length_append]; omega
end

theorem dump_ne_nil (e : Enc) (v : TVal) : dump e v ≠ [] := by
  have := size_lt_dump e v
  intro h; rw [h] at this; simp at this

/-! ### dictionaries with distinct keys are rebuilt as they were -/

theorem lookup_none_of_not_hasKey (k : List Nat) : ∀ kvs : TDict,
    TDict.hasKey k kvs = false → TDict.lookup k kvs = none
  | .nil, _ => rfl
  | .cons k' v kvs, h => by
    simp only [TDict.hasKey, Bool.or_eq_false_iff, beq_eq_false_iff_ne] at h
    simp only [TDict.lookup, lookup_none_of_not_hasKey k kvs h.2]
    simp [h.1]

theorem erase_of_not_hasKey (k : List Nat) : ∀ kvs : TDict,
    TDict.hasKey k kvs = false → TDict.erase k kvs = kvs
  | .nil, _ => rfl
  | .cons k' v kvs, h => by
    simp only [TDict.hasKey, Bool.or_eq_false_iff, beq_eq_false_iff_ne] at h
    simp only [TDict.erase, erase_of_not_hasKey k kvs h.2]
    simp [h.1]

theorem put_fresh (k : List Nat) (v : TVal) (kvs : TDict) (h : TDict.hasKey k kvs = false) :
    TDict.put k v kvs = .cons k v kvs := by
  simp [TDict.put, lookup_none_of_not_hasKey k kvs h, erase_of_not_hasKey k kvs h]

/-! ### the round trip, with explicit fuel -/

theorem isEmpty_append_of_ne_nil {a : Bytes} (b : Bytes) (h : a ≠ []) : (a ++ b).isEmpty = false := by
  cases a with
  | nil => exact absurd rfl h
  | cons x xs => rfl

/-- one step of `parseF` once `parse_payload` has split the input -/
theorem parseF_payload (e : Enc) (fuel : Nat) (data p : Bytes) (t : Nat) (rest : Bytes)
    (hp : parsePayload data = some (p, t, rest)) :
    parseF e (fuel + 1) data =
      (if t = 35 then (pyInt p).map fun i => (.int i, rest)
      else if t = 125 then (parseDictF e fuel p).map fun d => (.dict d, rest)
      else if t = 93 then (parseListF e fuel p).map fun l => (.list l, rest)
      else if t = 33 then some (.bool (p == [116, 114, 117, 101]), rest)
      else if t = 63 then (if p.length = 1 then some (.bool (p == [116]), rest) else none)
      else if t = 94 then (if floatTokOk p then some (.float p, rest) else none)
      else if t = 126 then (if p.length = 0 then some (.null, rest) else none)
      else if t = 44 then some (.bytes p, rest)
      else if t = 36 then (decText e p).map fun cps => (.text cps, rest)
      else none) := by
  rw [parseF, hp]

/-- one leaf step of `parseF` on a framed payload -/
theorem parseF_frame (e : Enc) (fuel : Nat) (p : Bytes) (t : Nat) (rest : Bytes) :
    parseF e (fuel + 1) (frame p t ++ rest) =
      (if t = 35 then (pyInt p).map fun i => (.int i, rest)
      else if t = 125 then (parseDictF e fuel p).map fun d => (.dict d, rest)
      else if t = 93 then (parseListF e fuel p).map fun l => (.list l, rest)
      else if t = 33 then some (.bool (p == [116, 114, 117, 101]), rest)
      else if t = 63 then (if p.length = 1 then some (.bool (p == [116]), rest) else none)
      else if t = 94 then (if floatTokOk p then some (.float p, rest) else none)
      else if t = 126 then (if p.length = 0 then some (.null, rest) else none)
      else if t = 44 then some (.bytes p, rest)
      else if t = 36 then (decText e p).map fun cps => (.text cps, rest)
      else none) :=
  parseF_payload e fuel _ p t rest (parsePayload_frame p t rest)

mutual
theorem parseF_dump (e : Enc) : ∀ (v : TVal) (fuel : Nat) (rest : Bytes), wf e v = true → size v ≤ fuel →
    parseF e fuel (dump e v ++ rest) = some (v, rest)
  | .int i, fuel + 1, rest, _, _ => by
    simp only [dump, parseF_frame, pyInt_intDec]; rfl
  | .float tok, fuel + 1, rest, h, _ => by
    simp only [wf] at h
    simp [dump, parseF_frame, h]
  | .bool b, fuel + 1, rest, _, _ => by
    cases b <;> simp [dump, parseF_frame, boolTok]
  | .null, fuel + 1, rest, _, _ => by
    have : ([48, 58, 126] : Bytes) = frame [] 126 := by decide
    simp [dump, this, parseF_frame]
  | .bytes bs, fuel + 1, rest, _, _ => by
    simp [dump, parseF_frame]
  | .text cps, fuel + 1, rest, h, _ => by
    simp only [wf] at h
    simp [dump, parseF_frame, decText_encText e cps h]
  | .list vs, fuel + 1, rest, h, hs => by
    simp only [wf] at h
    simp only [size] at hs
    have := parseListF_dump e vs fuel h (by omega)
    simp [dump, parseF_frame, this]
  | .dict kvs, fuel + 1, rest, h, hs => by
    simp only [wf] at h
    simp only [size] at hs
    have := parseDictF_dump e kvs fuel h (by omega)
    simp [dump, parseF_frame, this]
  | .int _, 0, _, _, hs | .float _, 0, _, _, hs | .bool _, 0, _, _, hs | .null, 0, _, _, hs
  | .bytes _, 0, _, _, hs | .text _, 0, _, _, hs => by simp [size] at hs
  | .list _, 0, _, _, hs | .dict _, 0, _, _, hs => by simp [size] at hs
theorem parseListF_dump (e : Enc) : ∀ (vs : TList) (fuel : Nat), wfList e vs = true → sizeL vs ≤ fuel →
    parseListF e fuel (dumpList e vs) = some vs
  | .nil, fuel + 1, _, _ => by simp [parseListF, dumpList]
  | .cons v vs, fuel + 1, h, hs => by
    simp only [wfList, Bool.and_eq_true] at h
    simp only [sizeL] at hs
    have h1 := parseF_dump e v fuel (dumpList e vs) h.1 (by omega)
    have h2 := parseListF_dump e vs fuel h.2 (by omega)
    simp only [dumpList, parseListF, isEmpty_append_of_ne_nil _ (dump_ne_nil e v), h1, h2]
    simp
  | .nil, 0, _, hs | .cons _ _, 0, _, hs => by simp [sizeL] at hs
theorem parseDictF_dump (e : Enc) : ∀ (kvs : TDict) (fuel : Nat), wfDict e kvs = true → sizeD kvs ≤ fuel →
    parseDictF e fuel (dumpDict e kvs) = some kvs
  | .nil, fuel + 1, _, _ => by simp [parseDictF, dumpDict]
  | .cons k v kvs, fuel + 1, h, hs => by
    simp only [wfDict, Bool.and_eq_true, Bool.not_eq_true'] at h
    simp only [sizeD] at hs
    obtain ⟨⟨⟨hk, hfresh⟩, hv⟩, hd⟩ := h
    have h1 := parseF_dump e v fuel (dumpDict e kvs) hv (by omega)
    have h2 := parseDictF_dump e kvs fuel hd (by omega)
    have hkey : parseF .utf8 fuel (frame k 44 ++ (dump e v ++ dumpDict e kvs))
        = some (.bytes k, dump e v ++ dumpDict e kvs) := by
      obtain ⟨f, rfl⟩ : ∃ f, fuel = f + 1 := ⟨fuel - 1, by omega⟩
      simp [parseF_frame]
    simp only [dumpDict, parseDictF, isEmpty_append_of_ne_nil _ (frame_ne_nil k 44), hkey,
      isEmpty_append_of_ne_nil _ (dump_ne_nil e v), h1, h2, hk]
    simp [put_fresh k v kvs hfresh]
  | .nil, 0, _, hs | .cons _ _ _, 0, _, hs => by simp [sizeD] at hs
end


/-! ### the streaming machine -/

variable (ign : Bytes)

theorem feed_append (r : Run) (a b : Bytes) : feed ign r (a ++ b) = feed ign (feed ign r a) b := by
  simp [feed, List.foldl_append]

theorem feed_cons (r : Run) (b : Nat) (bs : Bytes) : feed ign r (b :: bs) = feed ign (step ign r b) bs := rfl

theorem feed_nil (r : Run) : feed ign r [] = r := rfl

/-- feeding blocks one after the other is feeding their concatenation -/
theorem feedChunks_flatten (r : Run) (chunks : List Bytes) :
    feedChunks ign r chunks = feed ign r chunks.flatten := by
  induction chunks generalizing r with
  | nil => rfl
  | cons c cs ih =>
    simp only [List.flatten_cons, feed_append]
    exact ih (feed ign r c)

theorem feed_size_digits (ds : Bytes) (h : ∀ b ∈ ds, isDigit b = true) (n : Nat) (out : List (TVal × Nat))
    (s : Nat) : feed ign ⟨.size n, out, s⟩ ds = ⟨.size (decVal n ds), out, s + ds.length⟩ := by
  induction ds generalizing n s with
  | nil => rfl
  | cons b ds ih =>
    have hb := h b (by simp)
    rw [feed_cons]
    simp only [step, hb, if_true]
    rw [ih (fun x hx => h x (by simp [hx]))]
    simp [decVal]; omega

/-- the `ignore=` symbols must not be digits, or they would eat the length prefix -/
def IgnOk (ign : Bytes) : Prop := ∀ b ∈ ign, isDigit b = false

instance : Decidable (IgnOk ign) := by unfold IgnOk; infer_instance

theorem not_ign_of_digit {ign : Bytes} (hi : IgnOk ign) {b : Nat} (hb : isDigit b = true) :
    ign.contains b = false := by
  cases h : ign.contains b with
  | false => rfl
  | true =>
    have := hi b (by simpa using h)
    rw [hb] at this; exact absurd this (by simp)

theorem feed_start_digits (hi : IgnOk ign) (ds : Bytes) (hne : ds ≠ []) (h : ∀ b ∈ ds, isDigit b = true)
    (out : List (TVal × Nat)) (s : Nat) :
    feed ign ⟨.start, out, s⟩ ds = ⟨.size (decVal 0 ds), out, s + ds.length⟩ := by
  cases ds with
  | nil => exact absurd rfl hne
  | cons b ds =>
    have hb := h b (by simp)
    rw [feed_cons]
    simp only [step, hb, not_ign_of_digit hi hb, if_true, Bool.false_eq_true, if_false]
    rw [feed_size_digits ign ds (fun x hx => h x (by simp [hx]))]
    simp [decVal]; omega

/-- separators between messages are consumed and nothing else happens -/
theorem feed_start_seps (seps : Bytes) (h : ∀ b ∈ seps, ign.contains b = true)
    (out : List (TVal × Nat)) (s : Nat) :
    feed ign ⟨.start, out, s⟩ seps = ⟨.start, out, s + seps.length⟩ := by
  induction seps generalizing s with
  | nil => rfl
  | cons b seps ih =>
    rw [feed_cons]
    simp only [step, h b (by simp), if_true]
    rw [ih (fun x hx => h x (by simp [hx]))]
    simp; omega

theorem feed_data (p : Bytes) (k : Nat) (acc : Bytes) (out : List (TVal × Nat)) (s : Nat) :
    feed ign ⟨.data (p.length + k) acc, out, s⟩ p = ⟨.data k (acc ++ p), out, s + p.length⟩ := by
  induction p generalizing acc s with
  | nil => simp [feed_nil]
  | cons b p ih =>
    rw [feed_cons]
    have : (b :: p).length + k = (p.length + k) + 1 := by simp; omega
    rw [this]
    simp only [step]
    rw [ih]
    simp; omega

/-- the machine over one framed payload: SIZE digits, COLON, exactly SIZE bytes of DATA whatever they
are, then the TYPE byte -/
theorem feed_frame (hi : IgnOk ign) (p : Bytes) (t : Nat) (out : List (TVal × Nat)) (s : Nat) :
    feed ign ⟨.start, out, s⟩ (frame p t) =
      step ign ⟨.data 0 p, out, s + (natDec p.length).length + 1 + p.length⟩ t := by
  unfold frame
  rw [feed_append, feed_start_digits ign hi _ (natDec_ne_nil _) (natDec_digits _), decVal_natDec, feed_cons]
  have hc : isDigit 58 = false := by decide
  simp only [step, hc]
  have := feed_data ign p 0 [] out (s + (natDec p.length).length + 1)
  simp only [Nat.add_zero, List.nil_append] at this
  simp only [Bool.false_eq_true, if_false, beq_self_eq_true, if_true, feed_append, this, feed_cons, feed_nil]
  simp only [step]

theorem feed_frame_ok (hi : IgnOk ign) (p : Bytes) (t : Nat) (v : TVal) (ht : isType t = true)
    (hv : convert t p = some v) (out : List (TVal × Nat)) (s : Nat) (tail : Bytes) :
    feed ign ⟨.start, out, s⟩ (frame p t ++ tail) =
      feed ign ⟨.start, out ++ [(v, s + (frame p t).length)], s + (frame p t).length⟩ tail := by
  have hl : s + (natDec p.length).length + 1 + p.length + 1 = s + (frame p t).length := by
    rw [frame_length]; omega
  rw [feed_append, feed_frame ign hi]
  simp only [step, ht, hv, if_true, hl]

theorem feed_frame_bad (hi : IgnOk ign) (p : Bytes) (t : Nat) (h : isType t = false ∨ convert t p = none)
    (out : List (TVal × Nat)) (s : Nat) :
    (feed ign ⟨.start, out, s⟩ (frame p t)).st = .failed
      ∧ (feed ign ⟨.start, out, s⟩ (frame p t)).out = out := by
  rw [feed_frame ign hi]
  simp only [step]
  cases ht : isType t with
  | false => simp
  | true =>
    rcases h with h | h
    · simp [ht] at h
    · simp [h]

theorem feed_failed (bs : Bytes) (out : List (TVal × Nat)) (s : Nat) :
    feed ign ⟨.failed, out, s⟩ bs = ⟨.failed, out, s⟩ := by
  induction bs with
  | nil => rfl
  | cons b bs ih => rw [feed_cons]; simpa [step] using ih

/-- messages already delivered are never retracted or altered by further input -/
theorem step_out_prefix (r : Run) (b : Nat) : ∃ more, (step ign r b).out = r.out ++ more := by
  unfold step
  split
  · exact ⟨[], by simp⟩
  · split
    · exact ⟨[], by simp⟩
    · split <;> exact ⟨[], by simp⟩
  · split
    · exact ⟨[], by simp⟩
    · split <;> exact ⟨[], by simp⟩
  · exact ⟨[], by simp⟩
  · split
    · split
      · exact ⟨_, rfl⟩
      · exact ⟨[], by simp⟩
    · exact ⟨[], by simp⟩

theorem feed_out_prefix (bs : Bytes) (r : Run) : ∃ more, (feed ign r bs).out = r.out ++ more := by
  induction bs generalizing r with
  | nil => exact ⟨[], by simp [feed_nil]⟩
  | cons b bs ih =>
    rw [feed_cons]
    obtain ⟨m1, h1⟩ := step_out_prefix ign r b
    obtain ⟨m2, h2⟩ := ih (step ign r b)
    exact ⟨m1 ++ m2, by rw [h2, h1, List.append_assoc]⟩

/-! ### the first message of the machine as a function of the input (`scan1`), and its relation
to `parse` on arbitrary input -/

/-- DATA then TYPE: `k` more payload bytes, then the type byte; `s` = symbols consumed so far -/
def scanData : Nat → Bytes → Nat → Bytes → Option (TVal × Nat × Bytes)
  | _, _, _, [] => none
  | 0, acc, s, t :: rest => if isType t then (convert t acc).map fun v => (v, s + 1, rest) else none
  | k + 1, acc, s, b :: rest => scanData k (acc ++ [b]) (s + 1) rest

/-- SIZE (at least one digit already read, value `n`), then COLON -/
def scanSize : Nat → Nat → Bytes → Option (TVal × Nat × Bytes)
  | _, _, [] => none
  | n, s, b :: rest =>
    if isDigit b then scanSize (n * 10 + (b - 48)) (s + 1) rest
    else if b == 58 then scanData n [] (s + 1) rest
    else none

/-- the first message from a message boundary: leading `ignore=` symbols are skipped; result =
(payload, symbols consumed so far, remaining input), or `none` when the input ends first or the
machine fails -/
def scan1 (ign : Bytes) : Nat → Bytes → Option (TVal × Nat × Bytes)
  | _, [] => none
  | s, b :: rest =>
    if ign.contains b then scan1 ign (s + 1) rest
    else if isDigit b then scanSize (b - 48) (s + 1) rest else none

theorem scanData_feed (data : Bytes) : ∀ (k : Nat) (acc : Bytes) (s : Nat) (out : List (TVal × Nat)),
    match scanData k acc s data with
    | some (v, m, rest) => feed ign ⟨.data k acc, out, s⟩ data = feed ign ⟨.start, out ++ [(v, m)], m⟩ rest
    | none => (feed ign ⟨.data k acc, out, s⟩ data).out = out := by
  induction data with
  | nil => intro k acc s out; cases k <;> simp [scanData, feed_nil]
  | cons b data ih =>
    intro k acc s out
    cases k with
    | zero =>
      simp only [scanData, feed_cons, step]
      cases ht : isType b with
      | false => simp [feed_failed]
      | true =>
        cases hc : convert b acc with
        | none => simp [feed_failed]
        | some v => simp
    | succ k =>
      simp only [scanData, feed_cons, step]
      exact ih k (acc ++ [b]) (s + 1) out

theorem scanSize_feed (data : Bytes) : ∀ (n s : Nat) (out : List (TVal × Nat)),
    match scanSize n s data with
    | some (v, m, rest) => feed ign ⟨.size n, out, s⟩ data = feed ign ⟨.start, out ++ [(v, m)], m⟩ rest
    | none => (feed ign ⟨.size n, out, s⟩ data).out = out := by
  induction data with
  | nil => intro n s out; simp [scanSize, feed_nil]
  | cons b data ih =>
    intro n s out
    simp only [scanSize, feed_cons, step]
    cases hd : isDigit b with
    | true => simpa using ih (n * 10 + (b - 48)) (s + 1) out
    | false =>
      cases hc : b == 58 with
      | true => simpa using scanData_feed ign data n [] (s + 1) out
      | false => simp [feed_failed]

/-- the machine's behaviour up to and including its first message is `scan1` -/
theorem scan1_feed (data : Bytes) : ∀ (s : Nat) (out : List (TVal × Nat)),
    match scan1 ign s data with
    | some (v, m, rest) => feed ign ⟨.start, out, s⟩ data = feed ign ⟨.start, out ++ [(v, m)], m⟩ rest
    | none => (feed ign ⟨.start, out, s⟩ data).out = out := by
  induction data with
  | nil => intro s out; simp [scan1, feed_nil]
  | cons b data ih =>
    intro s out
    simp only [scan1, feed_cons, step]
    cases hi : ign.contains b with
    | true => simpa using ih (s + 1) out
    | false =>
      cases hd : isDigit b with
      | true => simpa using scanSize_feed ign data (b - 48) (s + 1) out
      | false => simp [feed_failed]

theorem scanData_inv (data : Bytes) : ∀ (k : Nat) (acc : Bytes) (s : Nat) (v : TVal) (m : Nat) (rest : Bytes),
    scanData k acc s data = some (v, m, rest) →
    ∃ p t, data = p ++ t :: rest ∧ p.length = k ∧ isType t = true ∧ convert t (acc ++ p) = some v
      ∧ m = s + k + 1 := by
  induction data with
  | nil => intro k acc s v m rest h; cases k <;> simp [scanData] at h
  | cons b data ih =>
    intro k acc s v m rest h
    cases k with
    | zero =>
      simp only [scanData] at h
      cases ht : isType b with
      | false => simp [ht] at h
      | true =>
        simp only [ht, if_true, Option.map_eq_some_iff] at h
        obtain ⟨w, hw, he⟩ := h
        simp only [Prod.mk.injEq] at he
        obtain ⟨rfl, rfl, rfl⟩ := he
        exact ⟨[], b, by simp, rfl, ht, by simpa using hw, by omega⟩
    | succ k =>
      simp only [scanData] at h
      obtain ⟨p, t, hd, hl, ht, hc, hm⟩ := ih k (acc ++ [b]) (s + 1) v m rest h
      exact ⟨b :: p, t, by simp [hd], by simp [hl], ht, by simpa using hc, by omega⟩

theorem scanSize_inv (data : Bytes) : ∀ (n s : Nat) (v : TVal) (m : Nat) (rest : Bytes),
    scanSize n s data = some (v, m, rest) →
    ∃ ds p t, data = ds ++ 58 :: (p ++ t :: rest) ∧ (∀ b ∈ ds, isDigit b = true)
      ∧ p.length = decVal n ds ∧ isType t = true ∧ convert t p = some v
      ∧ m = s + ds.length + 1 + p.length + 1 := by
  induction data with
  | nil => intro n s v m rest h; simp [scanSize] at h
  | cons b data ih =>
    intro n s v m rest h
    simp only [scanSize] at h
    cases hd : isDigit b with
    | true =>
      simp only [hd, if_true] at h
      obtain ⟨ds, p, t, hdat, hdig, hl, ht, hc, hm⟩ := ih _ _ v m rest h
      refine ⟨b :: ds, p, t, by simp [hdat], ?_, by simpa [decVal] using hl, ht, hc, by simp; omega⟩
      intro x hx
      simp only [List.mem_cons] at hx
      rcases hx with rfl | hx
      · exact hd
      · exact hdig x hx
    | false =>
      cases hc : b == 58 with
      | false => simp [hd, hc] at h
      | true =>
        simp only [hd, hc, if_true, Bool.false_eq_true, if_false] at h
        obtain ⟨p, t, hdat, hl, ht, hcv, hm⟩ := scanData_inv data n [] (s + 1) v m rest h
        have hb : b = 58 := by simpa using hc
        exact ⟨[], p, t, by simp [hdat, hb], by simp, by simp [decVal, hl], ht, by simpa using hcv,
          by simp; omega⟩

/-- what `convert` delivers is what `parse` (default codec, as the machine decodes `$` as utf-8)
returns for the same payload and type byte -/
theorem parseF_of_convert (fuel : Nat) (data p : Bytes) (t : Nat) (v : TVal) (rest : Bytes)
    (hp : parsePayload data = some (p, t, rest)) (hc : convert t p = some v) :
    parseF .utf8 (fuel + 1) data = some (v, rest) := by
  rw [parseF_payload .utf8 fuel data p t rest hp]
  unfold convert at hc
  by_cases h44 : t = 44
  · subst h44; simp at hc; simp [hc]
  · by_cases h36 : t = 36
    · subst h36
      simp only [show (36 : Nat) ≠ 44 by decide, if_false, if_true, Option.map_eq_some_iff] at hc
      obtain ⟨cps, h1, rfl⟩ := hc
      simp [decText, h1]
    · by_cases h35 : t = 35
      · subst h35
        simp only [show (35 : Nat) ≠ 44 by decide, show (35 : Nat) ≠ 36 by decide, if_false, if_true,
          Option.map_eq_some_iff] at hc
        obtain ⟨i, h1, rfl⟩ := hc
        simp [h1]
      · by_cases h126 : t = 126
        · subst h126
          simp only [show (126 : Nat) ≠ 44 by decide, show (126 : Nat) ≠ 36 by decide,
            show (126 : Nat) ≠ 35 by decide, if_false, if_true] at hc
          by_cases hl : p.length = 0
          · simp [hl] at hc; subst hc; simp [hl]
          · simp [hl] at hc
        · simp [h44, h36, h35, h126] at hc

/-- a first message of the machine is what `parse` returns on the same input once the leading
separators are dropped, and the machine has consumed exactly the separators plus what `parse` consumed -/
theorem scan1_parse (data : Bytes) : ∀ (s : Nat) (v : TVal) (m : Nat) (rest : Bytes),
    scan1 ign s data = some (v, m, rest) →
    ∃ seps body, data = seps ++ body ∧ (∀ b ∈ seps, ign.contains b = true)
      ∧ parse .utf8 body = some (v, rest) ∧ m + rest.length = s + data.length := by
  induction data with
  | nil => intro s v m rest h; simp [scan1] at h
  | cons b data ih =>
    intro s v m rest h
    simp only [scan1] at h
    cases hi : ign.contains b with
    | true =>
      simp only [hi, if_true] at h
      obtain ⟨seps, body, hd, hs, hp, hm⟩ := ih (s + 1) v m rest h
      refine ⟨b :: seps, body, by simp [hd], ?_, hp, by simp; omega⟩
      intro x hx
      simp only [List.mem_cons] at hx
      rcases hx with rfl | hx
      · exact hi
      · exact hs x hx
    | false =>
      simp only [hi, Bool.false_eq_true, if_false] at h
      cases hd : isDigit b with
      | false => simp [hd] at h
      | true =>
        simp only [hd, if_true] at h
        obtain ⟨ds, p, t, hdat, hdig, hl, ht, hc, hm⟩ := scanSize_inv data _ _ v m rest h
        have hdig' : ∀ x ∈ b :: ds, isDigit x = true := by
          intro x hx
          simp only [List.mem_cons] at hx
          rcases hx with rfl | hx
          · exact hd
          · exact hdig x hx
        have hval : decVal 0 (b :: ds) = p.length := by simp [decVal] at hl ⊢; exact hl.symm
        have hp := parsePayload_digits (b :: ds) p t rest (by simp) hdig' hval
        have hdata : b :: data = (b :: ds) ++ 58 :: (p ++ t :: rest) := by simp [hdat]
        refine ⟨[], b :: data, rfl, by simp, ?_, ?_⟩
        · unfold parse
          rw [← hdata] at hp
          exact parseF_of_convert _ _ p t v rest hp hc
        · rw [hdata]; simp; omega

end Cpppo.Tnet
