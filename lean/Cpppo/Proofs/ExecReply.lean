import Cpppo.Proofs.Values
import Cpppo.Proofs.Exec
/-! The replies `exec` builds for the tag services are in wire range (`ReplyOk`). -/
namespace Cpppo.Interop
open Cpppo Cpppo.Logix Cpppo.Fields

/-- every stored element of the tag survives the wire (decidable) -/
def tagWireOk (t : Tag) : Bool := t.vals.all (wireOk t.ty)

theorem errReply_ok (svc st : Nat) (ext : List Nat) (h1 : 128 ≤ svc) (h2 : svc < 256) (h3 : st < 256)
    (h4 : st ≠ 0) (h5 : st ≠ 6) (h6 : ext.length < 256) (h7 : ∀ w ∈ ext, w < 65536) : ReplyOk (errReply svc st ext) := by
  refine ⟨h1, h2, h3, h6, h7, fun h => absurd h h4, ?_⟩
  simp [errReply, h4, h5]

theorem execTag_replyOk (d : Dev) (self : Nat × Nat) (svc : Nat) (isRead isFrag : Bool) (p : Path)
    (reqTy n off : Nat) (data : Bytes) (h1 : 128 ≤ svc) (h2 : svc < 256) (hrd : isReadSvc svc = isRead)
    (hwire : ∀ c i a tag, resolveTag d self p = some (c, i, a, tag) → tagWireOk tag = true) :
    ReplyOk (execTag d self svc isRead isFrag p reqTy n off data).2 := by
  unfold execTag
  split
  · exact errReply_ok svc 5 [0] h1 h2 (by decide) (by decide) (by decide) (by decide) (by simp)
  · rename_i c i a tag hr
    split
    · exact errReply_ok svc 255 [0x2107] h1 h2 (by decide) (by decide) (by decide) (by decide) (by simp)
    · rename_i wvals hwv
      generalize hacc : tagAccess _ _ _ _ _ _ _ = acc
      cases acc with
      | refused => exact errReply_ok svc 255 [0x2105] h1 h2 (by decide) (by decide) (by decide) (by decide) (by simp)
      | wrote t' =>
        have hw : isRead = false := by
          cases isRead with
          | false => rfl
          | true => exact absurd hacc (tagAccess_read_ne_wrote _ _ _ _ _ _ _)
        refine ⟨h1, h2, by simp, by simp, by simp, by simp, ?_⟩
        simp [hrd, hw]
      | read st vals =>
        have hr' : isRead = true := by
          cases isRead with
          | true => rfl
          | false => exact absurd hacc (tagAccess_write_ne_read _ _ _ _ _ _ _ _)
        subst hr'
        rcases tagAccess_read_cases tag d.maxBytes (resolveElement p) n (if isFrag then off else 0) wvals
          with h | ⟨st', vals', h, hst, beg, k, hv, _⟩
        · rw [hacc] at h; simp at h
        · rw [hacc] at h
          simp only [Access.read.injEq] at h
          obtain ⟨rfl, rfl⟩ := h
          have hsub : ∀ v ∈ vals, wireOk tag.ty v = true := by
            intro v hv'
            rw [hv] at hv'
            have hm : v ∈ tag.vals := List.mem_of_mem_drop (List.mem_of_mem_take hv')
            have := hwire c i a tag hr
            simp only [tagWireOk, List.all_eq_true] at this
            exact this v hm
          show ReplyOk ({ svc := svc, status := st, ty := some tag.ty, vals := vals } : Reply)
          refine ⟨h1, h2, ?_, by simp, by simp, by simp, ?_⟩
          · show st < 256
            rcases hst with h | h <;> omega
          · simp only [hrd, true_and, hst, ↓reduceIte]
            exact ⟨tag.ty, rfl, valsOk_of_wireOk tag.ty vals hsub⟩

/-- the four tag services -/
def isTagSvc : Simple → Bool
  | .readTag .. | .readFrag .. | .writeTag .. | .writeFrag .. => true
  | _ => false

/-- every tag the device holds survives the wire (decidable for a concrete device) -/
def devWireOk (d : Dev) : Bool := d.objs.all fun o => o.attrs.all fun x => tagWireOk x.2

theorem attrGet_mem {l : List (Nat × Tag)} {a : Nat} {t : Tag} (h : attrGet l a = some t) : (a, t) ∈ l := by
  induction l with
  | nil => simp [attrGet] at h
  | cons x rest ih =>
    obtain ⟨k, t0⟩ := x
    simp only [attrGet] at h
    split at h
    · rename_i hk; simp only [Option.some.injEq] at h; subst h; subst hk; simp
    · exact List.mem_cons_of_mem _ (ih h)

theorem objGet_mem {l : List Obj} {c i : Nat} {o : Obj} (h : objGet l c i = some o) : o ∈ l := by
  induction l with
  | nil => simp [objGet] at h
  | cons x rest ih =>
    simp only [objGet] at h
    split at h
    · simp only [Option.some.injEq] at h; subst h; simp
    · exact List.mem_cons_of_mem _ (ih h)

theorem devWireOk_attr (d : Dev) (h : devWireOk d = true) (c i a : Nat) (t : Tag) (ht : d.attr? c i a = some t) :
    tagWireOk t = true := by
  unfold Dev.attr? Dev.obj? at ht
  cases ho : objGet d.objs c i with
  | none => simp [ho] at ht
  | some o =>
    simp only [ho, Option.bind_some, Obj.attr?] at ht
    have hm := objGet_mem ho
    have ha := attrGet_mem ht
    simp only [devWireOk, List.all_eq_true] at h
    exact h o hm (a, t) ha

theorem execSimple_replyOk (d : Dev) (s : Simple) (hs : isTagSvc s = true) (hw : devWireOk d = true) :
    ReplyOk (execSimple d s).2 := by
  have hwire : ∀ self p c i a tag, resolveTag d self p = some (c, i, a, tag) → tagWireOk tag = true := by
    intro self p c i a tag hr
    exact devWireOk_attr d hw c i a tag (resolveTag_some hr).1
  cases s <;> simp only [isTagSvc, Bool.false_eq_true] at hs <;>
    simp only [execSimple, execSimpleAt] <;>
    apply execTag_replyOk <;> first | decide | exact hwire _ _

end Cpppo.Interop
