import Cpppo.Proofs.Fields
import Cpppo.Model.RefCodec
import Cpppo.Model.Server
/-! The reference reply decoder inverts the server's reply producer (`Logix.encodeReply`). -/
namespace Cpppo.Interop
open Cpppo Cpppo.Logix Cpppo.Fields

/-- the elements survive the trip over the wire: decoding their encodings gives them back -/
def ValsOk (t : CipType) (vs : List Val) : Prop :=
  ∀ chunks, vs.mapM (Val.encode t) = some chunks → decodeVals t chunks.flatten = some vs

def isReadSvc (svc : Nat) : Bool := svc == 0xCC || svc == 0xD2

/-- a reply as the tag services build it, with every field in its wire range -/
structure ReplyOk (r : Reply) : Prop where
  svc_lo : 128 ≤ r.svc
  svc_hi : r.svc < 256
  status_hi : r.status < 256
  ext_len : r.ext.length < 256
  ext_hi : ∀ w ∈ r.ext, w < 65536
  ext_zero : r.status = 0 → r.ext = []
  data : if isReadSvc r.svc = true ∧ (r.status = 0 ∨ r.status = 6)
         then ∃ t, r.ty = some t ∧ r.raw = [] ∧ ValsOk t r.vals
         else r.ty = none ∧ r.vals = []

theorem code_lt (t : CipType) : t.code < 256 ^ 2 := by cases t <;> decide

theorem ofCode_code (t : CipType) : CipType.ofCode t.code = some t := by cases t <;> decide

theorem decStatus_encodeStatus (st : Nat) (ext : List Nat) (rest : Bytes) (h1 : ext.length < 256)
    (h2 : ∀ w ∈ ext, w < 65536) (h3 : st = 0 → ext = []) :
    Ref.decStatus (encodeStatus st ext ++ rest) = some (st, ext, rest) := by
  unfold encodeStatus
  split
  · rename_i h0
    subst h0
    rw [h3 rfl]
    simp [Ref.decStatus, words]
  · rename_i h0
    simp only [List.cons_append, List.nil_append, List.append_assoc, Ref.decStatus]
    rw [words_le ext rest h2]
    simp [h0]

/-- **Reply round trip**: the reference decoder reads back exactly the reply the server produced -/
theorem decReply_encodeReply (r : Reply) (bs : Bytes) (h : encodeReply r = some bs) (hok : ReplyOk r) :
    Ref.decReply bs = some r := by
  obtain ⟨h1, h2, h3, h4, h5, h6, h7⟩ := hok
  unfold encodeReply at h
  have hsvc : ¬ (0 ≠ 0 ∨ r.svc < 128) := by omega
  by_cases hrd : isReadSvc r.svc = true ∧ (r.status = 0 ∨ r.status = 6)
  · rw [if_pos hrd] at h7
    obtain ⟨t, hty, hraw, hvals⟩ := h7
    rw [hty] at h
    simp only [if_pos hrd.2] at h
    cases hm : r.vals.mapM (Val.encode t) with
    | none => simp [hm] at h
    | some chunks =>
      simp only [hm, Option.map_some, Option.some.injEq] at h
      subst h
      simp only [List.cons_append, List.nil_append, List.append_assoc, Ref.decReply]
      rw [if_neg hsvc, decStatus_encodeStatus r.status r.ext _ h4 h5 h6]
      simp only
      have hsv : (r.svc = 0xCC ∨ r.svc = 0xD2) := by
        have := hrd.1; simp only [isReadSvc, Bool.or_eq_true, beq_iff_eq] at this; exact this
      rw [if_pos ⟨hsv, hrd.2⟩, u_le 2 t.code _ (code_lt t)]
      simp only [ofCode_code, hraw, List.append_nil, hvals chunks hm]
      cases r; simp_all
  · rw [if_neg hrd] at h7
    obtain ⟨hty, hvals⟩ := h7
    rw [hty] at h
    simp only [Option.some.injEq] at h
    subst h
    simp only [List.cons_append, List.nil_append, List.append_assoc, Ref.decReply]
    rw [if_neg hsvc, decStatus_encodeStatus r.status r.ext _ h4 h5 h6]
    simp only
    have : ¬ ((r.svc = 0xCC ∨ r.svc = 0xD2) ∧ (r.status = 0 ∨ r.status = 6)) := by
      intro hc; apply hrd
      refine ⟨?_, hc.2⟩
      simp only [isReadSvc, Bool.or_eq_true, beq_iff_eq]; exact hc.1
    rw [if_neg this]
    cases r; simp_all

end Cpppo.Interop
