import Cpppo.Model.Logix

/-! Canonical stored values: `conv` is idempotent and canonical values always encode (C05, C07). -/
namespace Cpppo

theorem packInt_small (s : Bool) (k : Nat) (hk : 1 ≤ k) (b : Bool) :
    ∃ x, Bytes.packInt s k (if b then 1 else 0) = some x := by
  have h1 : (2 : Nat) ≤ 2 ^ (8 * k - 1) := by
    calc (2 : Nat) = 2 ^ 1 := rfl
      _ ≤ 2 ^ (8 * k - 1) := Nat.pow_le_pow_right (by decide) (by omega)
  have h2 : (2 : Nat) ≤ 2 ^ (8 * k) := by
    calc (2 : Nat) = 2 ^ 1 := rfl
      _ ≤ 2 ^ (8 * k) := Nat.pow_le_pow_right (by decide) (by omega)
  unfold Bytes.packInt
  generalize 2 ^ (8 * k - 1) = P at *
  generalize 2 ^ (8 * k) = Q at *
  cases s <;> cases b <;> simp only [↓reduceIte, Bool.false_eq_true] <;>
    (split
     · exact ⟨_, rfl⟩
     · exfalso; omega)

theorem Val.convInt_idem (t : CipType) (hk : 1 ≤ t.size) (v v' : Val) (h : Val.convInt t v = some v') :
    Val.convInt t v' = some v' := by
  unfold Val.convInt at h
  cases v with
  | int i =>
    simp only [Option.map_eq_some_iff] at h
    obtain ⟨x, hx, rfl⟩ := h
    simp [Val.convInt, hx]
  | bool b =>
    simp only [Option.some.injEq] at h
    subst h
    obtain ⟨x, hx⟩ := packInt_small t.signed t.size hk b
    simp [Val.convInt, hx]
  | f32 _ => simp at h
  | f64 _ => simp at h
  | str _ => simp at h

/-- `conv` yields canonical values: converting again changes nothing. -/
theorem Val.conv_idem (t : CipType) (v v' : Val) (h : Val.conv t v = some v') :
    Val.conv t v' = some v' := by
  cases t
  case bool =>
    cases v <;> simp [Val.conv] at h ⊢
    · obtain ⟨_, rfl⟩ := h; rfl
    · subst h; rfl
  case real =>
    cases v <;> simp [Val.conv] at h ⊢
    · obtain ⟨_, _, rfl⟩ := h; rfl
    · obtain ⟨_, _, rfl⟩ := h; rfl
    · subst h; rfl
  case lreal =>
    cases v <;> simp [Val.conv] at h ⊢
    · obtain ⟨_, _, rfl⟩ := h; rfl
    · obtain ⟨_, _, rfl⟩ := h; rfl
    · subst h; rfl
    · subst h; rfl
  case sstring =>
    cases v <;> simp [Val.conv] at h ⊢
    obtain ⟨hl, rfl⟩ := h; simp [Val.conv, hl]
  case string =>
    cases v <;> simp [Val.conv] at h ⊢
    obtain ⟨hl, rfl⟩ := h; simp [Val.conv, hl]
  all_goals exact Val.convInt_idem _ (by decide) v v' h

theorem Val.encode_int (t : CipType) (hi : t.isInt = true) (i : Int) :
    Val.encode t (.int i) = Bytes.packInt t.signed t.size i := by
  cases t <;> simp [CipType.isInt] at hi <;> simp [Val.encode, CipType.isInt]

theorem Val.encode_of_convInt (t : CipType) (hi : t.isInt = true) (hk : 1 ≤ t.size) (v v' : Val)
    (h : Val.convInt t v = some v') : ∃ bs, Val.encode t v' = some bs := by
  unfold Val.convInt at h
  cases v with
  | int i =>
    simp only [Option.map_eq_some_iff] at h
    obtain ⟨x, hx, rfl⟩ := h
    exact ⟨x, by rw [Val.encode_int t hi, hx]⟩
  | bool b =>
    simp only [Option.some.injEq] at h
    subst h
    obtain ⟨x, hx⟩ := packInt_small t.signed t.size hk b
    exact ⟨x, by rw [Val.encode_int t hi, hx]⟩
  | f32 _ => simp at h
  | f64 _ => simp at h
  | str _ => simp at h

/-- A canonical value of a tag's type can always be produced. -/
theorem Val.encode_of_canon (t : CipType) (v v' : Val) (h : Val.conv t v = some v') :
    ∃ bs, Val.encode t v' = some bs := by
  cases t
  case bool =>
    cases v <;> simp [Val.conv] at h
    · obtain ⟨_, rfl⟩ := h; exact ⟨_, rfl⟩
    · subst h; exact ⟨_, rfl⟩
  case real =>
    cases v <;> simp [Val.conv] at h
    · obtain ⟨_, _, rfl⟩ := h; exact ⟨_, rfl⟩
    · obtain ⟨_, _, rfl⟩ := h; exact ⟨_, rfl⟩
    · subst h; exact ⟨_, rfl⟩
  case lreal =>
    cases v <;> simp [Val.conv] at h
    · obtain ⟨_, _, rfl⟩ := h; exact ⟨_, rfl⟩
    · obtain ⟨_, _, rfl⟩ := h; exact ⟨_, rfl⟩
    · subst h; exact ⟨_, rfl⟩
    · subst h; exact ⟨_, rfl⟩
  case sstring =>
    cases v <;> simp [Val.conv] at h
    obtain ⟨hl, rfl⟩ := h; simp [Val.encode, hl]
  case string =>
    cases v <;> simp [Val.conv] at h
    obtain ⟨hl, rfl⟩ := h; simp [Val.encode, hl]
  all_goals exact Val.encode_of_convInt _ rfl (by decide) v v' h

end Cpppo
