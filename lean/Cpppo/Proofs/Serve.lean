import Cpppo.Model.Serve
import Cpppo.Props.C05

/-! Helper lemmas for C08: consumption of the byte readers and decoders, state protection of `exec`. -/
namespace Cpppo.Serve
open Cpppo.Logix

/-! ### readers -/

theorem u8_len {bs r : Bytes} {v : Nat} (h : u8 bs = some (v, r)) : bs.length = r.length + 1 := by
  cases bs with
  | nil => simp [u8] at h
  | cons b t => simp only [u8, Option.some.injEq, Prod.mk.injEq] at h; simp [← h.2]

theorem u16_len {bs r : Bytes} {v : Nat} (h : u16 bs = some (v, r)) : bs.length = r.length + 2 := by
  match bs, h with
  | a :: b :: t, h => simp only [u16, Option.some.injEq, Prod.mk.injEq] at h; simp [← h.2]

theorem u32_len {bs r : Bytes} {v : Nat} (h : u32 bs = some (v, r)) : bs.length = r.length + 4 := by
  match bs, h with
  | a :: b :: c :: d :: t, h => simp only [u32, Option.some.injEq, Prod.mk.injEq] at h; simp [← h.2]

theorem takeN_spec {n : Nat} {bs a r : Bytes} (h : takeN n bs = some (a, r)) :
    bs = a ++ r ∧ a.length = n := by
  unfold takeN at h
  split at h
  · simp at h
  · simp only [Option.some.injEq, Prod.mk.injEq] at h
    obtain ⟨rfl, rfl⟩ := h
    refine ⟨(List.take_append_drop n bs).symm, ?_⟩
    simp only [List.length_take]; omega

theorem takeN_len {n : Nat} {bs a r : Bytes} (h : takeN n bs = some (a, r)) : bs.length = n + r.length := by
  obtain ⟨h1, h2⟩ := takeN_spec h
  rw [h1, List.length_append, h2]

theorem readU16s_len {n : Nat} {bs r : Bytes} {vs : List Nat} (h : readU16s n bs = some (vs, r)) :
    bs.length = r.length + 2 * n ∧ vs.length = n := by
  induction n generalizing bs vs with
  | zero => simp only [readU16s, Option.some.injEq, Prod.mk.injEq] at h; obtain ⟨rfl, rfl⟩ := h; simp
  | succ k ih =>
    unfold readU16s at h
    split at h
    · simp at h
    · rename_i v r1 h1
      cases h2 : readU16s k r1 with
      | none => simp [h2] at h
      | some p =>
        obtain ⟨vs', r'⟩ := p
        simp only [h2, Option.map_some, Option.some.injEq, Prod.mk.injEq] at h
        obtain ⟨rfl, rfl⟩ := h
        obtain ⟨hl, hv⟩ := ih h2
        have := u16_len h1
        exact ⟨by omega, by simp [hv]⟩

/-! ### frames -/

theorem headerSize_eq : headerSize = 24 := by decide

theorem u8_app {bs r : Bytes} {v : Nat} (h : u8 bs = some (v, r)) : ∃ a : Bytes, a.length = 1 ∧ bs = a ++ r := by
  cases bs with
  | nil => simp [u8] at h
  | cons b t => simp only [u8, Option.some.injEq, Prod.mk.injEq] at h; exact ⟨[b], rfl, by simp [← h.2]⟩

theorem u16_app {bs r : Bytes} {v : Nat} (h : u16 bs = some (v, r)) : ∃ a : Bytes, a.length = 2 ∧ bs = a ++ r := by
  match bs, h with
  | a :: b :: t, h =>
    simp only [u16, Option.some.injEq, Prod.mk.injEq] at h; exact ⟨[a, b], rfl, by simp [← h.2]⟩

theorem u32_app {bs r : Bytes} {v : Nat} (h : u32 bs = some (v, r)) : ∃ a : Bytes, a.length = 4 ∧ bs = a ++ r := by
  match bs, h with
  | a :: b :: c :: d :: t, h =>
    simp only [u32, Option.some.injEq, Prod.mk.injEq] at h; exact ⟨[a, b, c, d], rfl, by simp [← h.2]⟩

/-- the header parser takes exactly the first 24 bytes -/
theorem parseHeader_app {bs r : Bytes} {h : Header} (hp : parseHeader bs = some (h, r)) :
    ∃ a : Bytes, a.length = 24 ∧ bs = a ++ r := by
  unfold parseHeader at hp
  cases h1 : u16 bs with
  | none => simp [h1] at hp
  | some p1 =>
    obtain ⟨v1, r1⟩ := p1
    simp only [h1] at hp
    cases h2 : u16 r1 with
    | none => simp [h2] at hp
    | some p2 =>
      obtain ⟨v2, r2⟩ := p2
      simp only [h2] at hp
      cases h3 : u32 r2 with
      | none => simp [h3] at hp
      | some p3 =>
        obtain ⟨v3, r3⟩ := p3
        simp only [h3] at hp
        cases h4 : u32 r3 with
        | none => simp [h4] at hp
        | some p4 =>
          obtain ⟨v4, r4⟩ := p4
          simp only [h4] at hp
          cases h5 : takeN 8 r4 with
          | none => simp [h5] at hp
          | some p5 =>
            obtain ⟨v5, r5⟩ := p5
            simp only [h5] at hp
            cases h6 : u32 r5 with
            | none => simp [h6] at hp
            | some p6 =>
              obtain ⟨v6, r6⟩ := p6
              simp only [h6, Option.some.injEq, Prod.mk.injEq] at hp
              obtain ⟨_, rfl⟩ := hp
              obtain ⟨a1, l1, e1⟩ := u16_app h1
              obtain ⟨a2, l2, e2⟩ := u16_app h2
              obtain ⟨a3, l3, e3⟩ := u32_app h3
              obtain ⟨a4, l4, e4⟩ := u32_app h4
              obtain ⟨e5, l5⟩ := takeN_spec h5
              obtain ⟨a6, l6, e6⟩ := u32_app h6
              refine ⟨a1 ++ a2 ++ a3 ++ a4 ++ v5 ++ a6, ?_, ?_⟩
              · simp only [List.length_append, l1, l2, l3, l4, l5, l6]
              · rw [e1, e2, e3, e4, e5, e6]; simp only [List.append_assoc]

theorem parseHeader_len {bs r : Bytes} {h : Header} (hp : parseHeader bs = some (h, r)) :
    bs.length = r.length + 24 := by
  obtain ⟨a, la, e⟩ := parseHeader_app hp
  rw [e, List.length_append, la]; omega

/-- A frame taken off the stream is a prefix of it: header (24 bytes), payload (`length` bytes), the rest. -/
theorem splitFrame_spec {bs pl rest : Bytes} {h : Header} (hs : splitFrame bs = some (h, pl, rest)) :
    bs.length = 24 + pl.length + rest.length ∧ pl.length = h.len ∧ bs = bs.take 24 ++ pl ++ rest := by
  unfold splitFrame at hs
  cases hp : parseHeader bs with
  | none => simp [hp] at hs
  | some p =>
    obtain ⟨h', r⟩ := p
    simp only [hp] at hs
    cases ht : takeN h'.len r with
    | none => simp [ht] at hs
    | some q =>
      obtain ⟨pl', rest'⟩ := q
      simp only [ht, Option.some.injEq, Prod.mk.injEq] at hs
      obtain ⟨rfl, rfl, rfl⟩ := hs
      obtain ⟨a, la, e⟩ := parseHeader_app hp
      obtain ⟨hr, hpl⟩ := takeN_spec ht
      refine ⟨?_, hpl, ?_⟩
      · rw [e, hr]; simp only [List.length_append, la]; omega
      · have : bs.take 24 = a := by rw [e, List.take_left' la]
        rw [this, List.append_assoc, ← hr, ← e]

theorem splitFrame_progress {bs pl rest : Bytes} {h : Header} (hs : splitFrame bs = some (h, pl, rest)) :
    rest.length + 24 ≤ bs.length := by
  have := (splitFrame_spec hs).1; omega


/-! ### bytes behind a complete frame do not matter to that frame -/

theorem u16_append {bs r : Bytes} {v : Nat} (x : Bytes) (h : u16 bs = some (v, r)) : u16 (bs ++ x) = some (v, r ++ x) := by
  match bs, h with
  | a :: b :: t, h =>
    simp only [u16, Option.some.injEq, Prod.mk.injEq] at h
    obtain ⟨rfl, rfl⟩ := h
    rfl

theorem u32_append {bs r : Bytes} {v : Nat} (x : Bytes) (h : u32 bs = some (v, r)) : u32 (bs ++ x) = some (v, r ++ x) := by
  match bs, h with
  | a :: b :: c :: e :: t, h =>
    simp only [u32, Option.some.injEq, Prod.mk.injEq] at h
    obtain ⟨rfl, rfl⟩ := h
    rfl

theorem takeN_append {n : Nat} {bs a r : Bytes} (x : Bytes) (h : takeN n bs = some (a, r)) :
    takeN n (bs ++ x) = some (a, r ++ x) := by
  obtain ⟨e, la⟩ := takeN_spec h
  subst e
  unfold takeN
  have : ¬ (a ++ r ++ x).length < n := by simp only [List.length_append]; omega
  rw [if_neg this, List.append_assoc, List.take_left' la, List.drop_left' la]

theorem parseHeader_append {bs r : Bytes} {h : Header} (x : Bytes) (hp : parseHeader bs = some (h, r)) :
    parseHeader (bs ++ x) = some (h, r ++ x) := by
  unfold parseHeader at hp ⊢
  cases h1 : u16 bs with
  | none => simp [h1] at hp
  | some p1 =>
    obtain ⟨v1, r1⟩ := p1
    simp only [h1] at hp
    rw [u16_append x h1]
    simp only
    cases h2 : u16 r1 with
    | none => simp [h2] at hp
    | some p2 =>
      obtain ⟨v2, r2⟩ := p2
      simp only [h2] at hp
      rw [u16_append x h2]
      simp only
      cases h3 : u32 r2 with
      | none => simp [h3] at hp
      | some p3 =>
        obtain ⟨v3, r3⟩ := p3
        simp only [h3] at hp
        rw [u32_append x h3]
        simp only
        cases h4 : u32 r3 with
        | none => simp [h4] at hp
        | some p4 =>
          obtain ⟨v4, r4⟩ := p4
          simp only [h4] at hp
          rw [u32_append x h4]
          simp only
          cases h5 : takeN 8 r4 with
          | none => simp [h5] at hp
          | some p5 =>
            obtain ⟨v5, r5⟩ := p5
            simp only [h5] at hp
            rw [takeN_append x h5]
            simp only
            cases h6 : u32 r5 with
            | none => simp [h6] at hp
            | some p6 =>
              obtain ⟨v6, r6⟩ := p6
              simp only [h6, Option.some.injEq, Prod.mk.injEq] at hp
              obtain ⟨rfl, rfl⟩ := hp
              rw [u32_append x h6]

/-- a complete frame is found in front of whatever follows it -/
theorem splitFrame_append {bs pl rest : Bytes} {h : Header} (x : Bytes) (hs : splitFrame bs = some (h, pl, rest)) :
    splitFrame (bs ++ x) = some (h, pl, rest ++ x) := by
  unfold splitFrame at hs ⊢
  cases hp : parseHeader bs with
  | none => simp [hp] at hs
  | some p =>
    obtain ⟨h', r⟩ := p
    simp only [hp] at hs
    rw [parseHeader_append x hp]
    simp only
    cases ht : takeN h'.len r with
    | none => simp [ht] at hs
    | some q =>
      obtain ⟨pl', rest'⟩ := q
      simp only [ht, Option.some.injEq, Prod.mk.injEq] at hs
      obtain ⟨rfl, rfl, rfl⟩ := hs
      rw [takeN_append x ht]

/-! ### the stream loop: progress and termination without the fuel -/

theorem serveStream_nil (fate : Nat → Bool) (fuel k : Nat) (d : Dev) : serveStream fate fuel k d [] = (d, []) := by
  cases fuel with
  | zero => rfl
  | succ n => simp [serveStream, splitFrame, parseHeader, u16]

/-- every processed frame takes at least the 24 header bytes off the stream -/
theorem serveStream_count (fate : Nat → Bool) (fuel k : Nat) (d : Dev) (bs : Bytes) :
    (serveStream fate fuel k d bs).2.length * 24 ≤ bs.length := by
  induction fuel generalizing k d bs with
  | zero => simp [serveStream]
  | succ n ih =>
    unfold serveStream
    split
    · simp
    · rename_i h pl rest hs
      have hp := splitFrame_progress hs
      dsimp only
      have := ih (k + 1) (serveFrame d h pl).1 rest
      repeat' split
      all_goals (simp only [List.length_cons, List.length_nil]; omega)

/-- the loop never ends because the fuel ran out: any two amounts of fuel above `length/24` give the same run -/
theorem serveStream_fuel (fate : Nat → Bool) (f1 f2 k : Nat) (d : Dev) (bs : Bytes)
    (h1 : bs.length < 24 * f1) (h2 : bs.length < 24 * f2) :
    serveStream fate f1 k d bs = serveStream fate f2 k d bs := by
  induction f1 generalizing f2 k d bs with
  | zero => omega
  | succ n ih =>
    cases f2 with
    | zero => omega
    | succ m =>
      unfold serveStream
      split
      · rfl
      · rename_i h pl rest hs
        have hp := splitFrame_progress hs
        dsimp only
        rw [ih m (k + 1) (serveFrame d h pl).1 rest (by omega) (by omega)]

/-! ### decoders: every loop iteration consumes input -/

theorem segSize_ge {bs : Bytes} {n : Nat} (h : segSize bs = some n) : 2 ≤ n := by
  unfold segSize at h
  split at h
  · simp at h
  · repeat' split at h
    all_goals first | (simp at h; done) | (simp only [Option.some.injEq] at h; omega)

theorem decodeSeg_progress {bs r : Bytes} {s : Seg} (h : decodeSeg bs = some (s, r)) : r.length + 2 ≤ bs.length := by
  unfold decodeSeg at h
  cases hn : segSize bs with
  | none => simp [hn] at h
  | some n =>
    simp only [hn] at h
    split at h
    · simp at h
    · simp only [Option.some.injEq, Prod.mk.injEq] at h
      obtain ⟨_, rfl⟩ := h
      have := segSize_ge hn
      simp only [List.length_drop]; omega

/-- one segment per two bytes at most -/
theorem decodeSegs_count {fuel : Nat} {bs : Bytes} {segs : List Seg} (h : decodeSegs fuel bs = some segs) :
    2 * segs.length ≤ bs.length := by
  induction fuel generalizing bs segs with
  | zero =>
    cases bs with
    | nil => simp only [decodeSegs, Option.some.injEq] at h; subst h; simp
    | cons b t => simp [decodeSegs] at h
  | succ n ih =>
    cases bs with
    | nil => simp only [decodeSegs, Option.some.injEq] at h; subst h; simp
    | cons b t =>
      simp only [decodeSegs] at h
      cases hd : decodeSeg (b :: t) with
      | none => simp [hd] at h
      | some p =>
        obtain ⟨s, r⟩ := p
        simp only [hd] at h
        cases hr : decodeSegs n r with
        | none => simp [hr] at h
        | some ss =>
          simp only [hr, Option.map_some, Option.some.injEq] at h
          subst h
          have := ih hr
          have := decodeSeg_progress hd
          simp only [List.length_cons] at *
          omega

theorem decodeEpath_progress {padded : Bool} {bs rest : Bytes} {p : Path}
    (h : decodeEpath padded bs = some (p, rest)) : 2 * p.length + rest.length + 1 ≤ bs.length := by
  unfold decodeEpath at h
  cases bs with
  | nil => simp at h
  | cons size r0 =>
    simp only at h
    split at h
    · simp at h
    · rename_i r1 hr1
      have hr1' : r1.length ≤ r0.length := by
        split at hr1
        · cases hu : u8 r0 with
          | none => simp [hu] at hr1
          | some q =>
            obtain ⟨v, r'⟩ := q
            simp only [hu, Option.map_some, Option.some.injEq] at hr1
            subst hr1
            have := u8_len hu; omega
        · simp only [Option.some.injEq] at hr1; subst hr1; omega
      cases ht : takeN (2 * size) r1 with
      | none => simp [ht] at h
      | some q =>
        obtain ⟨sb, rest'⟩ := q
        simp only [ht] at h
        cases hs : decodeSegs sb.length sb with
        | none => simp [hs] at h
        | some segs =>
          simp only [hs, Option.map_some, Option.some.injEq, Prod.mk.injEq] at h
          obtain ⟨rfl, rfl⟩ := h
          have := decodeSegs_count hs
          have := takeN_len ht
          obtain ⟨_, hl⟩ := takeN_spec ht
          simp only [List.length_cons]
          omega

/-- size of a parsed request: the request itself and every path segment (and every member of a bundle) -/
def simpleNodes (s : Simple) : Nat := 1 + (simplePath s).length

def reqNodes : Req → Nat
  | .simple s => simpleNodes s
  | .multiple p ms => 1 + p.length + (ms.map simpleNodes).sum

theorem decodeSimple_nodes {bs : Bytes} {s : Simple} (h : decodeSimple bs = some s) :
    2 * simpleNodes s ≤ bs.length := by
  unfold decodeSimple at h
  cases bs with
  | nil => simp at h
  | cons svc r0 =>
    simp only at h
    cases he : decodeEpath false r0 with
    | none => simp [he] at h
    | some q =>
      obtain ⟨p, r⟩ := q
      have hp := decodeEpath_progress he
      simp only [he] at h
      have key : simplePath s = p := by
        repeat' split at h
        all_goals first | (simp at h; done) | (simp only [Option.some.injEq] at h; subst h; rfl)
      unfold simpleNodes
      rw [key]
      simp only [List.length_cons]
      omega

theorem slices_length (body : Bytes) (offs : List Nat) : (slices body offs).length = offs.length := by
  induction offs with
  | nil => rfl
  | cons o rest ih =>
    cases rest with
    | nil => rfl
    | cons o' rest' => simp only [slices, List.length_cons] at ih ⊢; omega

/-- the member byte strings lie side by side inside the bundle body -/
theorem slices_sum (body : Bytes) (offs : List Nat) (hinc : increasing offs = true) :
    ((slices body offs).map List.length).sum + offs.head?.getD body.length ≤ max body.length (offs.head?.getD 0) := by
  induction offs with
  | nil => simp [slices]
  | cons o rest ih =>
    cases rest with
    | nil => simp only [slices, List.map_cons, List.map_nil, List.sum_cons, List.sum_nil, List.length_drop,
               List.head?_cons, Option.getD_some]; omega
    | cons o' rest' =>
      simp only [increasing, Bool.and_eq_true, decide_eq_true_eq] at hinc
      have := ih hinc.2
      simp only [slices, List.map_cons, List.sum_cons, List.length_take, List.length_drop,
        List.head?_cons, Option.getD_some] at this ⊢
      omega

theorem mapM_sum_le {α β : Type} (f : α → Option β) (g : β → Nat) (hsz : α → Nat) (l : List α) (r : List β)
    (h : l.mapM f = some r) (hle : ∀ x y, f x = some y → g y ≤ hsz x) :
    (r.map g).sum ≤ (l.map hsz).sum := by
  induction l generalizing r with
  | nil => simp only [List.mapM_nil, Option.pure_def, Option.some.injEq] at h; subst h; simp
  | cons a t ih =>
    rw [List.mapM_cons] at h
    cases hfa : f a with
    | none => simp [hfa] at h
    | some b =>
      cases ht : t.mapM f with
      | none => simp [hfa, ht] at h
      | some bs =>
        simp only [hfa, ht, Option.pure_def, Option.bind_eq_bind, Option.bind_some, Option.some.injEq] at h
        subst h
        have := ih bs ht
        have := hle a b hfa
        simp only [List.map_cons, List.sum_cons]
        omega

/-- the member byte strings: as many as the count says (≥ 1), side by side inside the body behind the table -/
theorem memberSlices_spec {body : Bytes} {ms : List Bytes} (h : memberSlices body = some ms) :
    (ms.map List.length).sum + 2 * ms.length + 2 ≤ body.length ∧ 1 ≤ ms.length := by
  unfold memberSlices at h
  cases hu : u16 body with
  | none => simp [hu] at h
  | some q =>
    obtain ⟨num, r⟩ := q
    simp only [hu] at h
    split at h
    · simp at h
    · rename_i hnum
      cases hr : readU16s num r with
      | none => simp [hr] at h
      | some q2 =>
        obtain ⟨offs, r2⟩ := q2
        simp only [hr] at h
        split at h
        · rename_i hc
          obtain ⟨hhead, hinc, _⟩ := hc
          simp only [Option.some.injEq] at h
          subst h
          obtain ⟨hl, hn⟩ := readU16s_len hr
          have hb := u16_len hu
          have hsum := slices_sum body offs hinc
          rw [hhead] at hsum
          simp only [Option.getD_some] at hsum
          rw [slices_length, hn]
          refine ⟨?_, by omega⟩
          omega
        · simp at h

theorem decodeMembers_nodes {body : Bytes} {ms : List Simple} (h : decodeMembers body = some ms) :
    2 * (ms.map simpleNodes).sum + 2 * ms.length + 2 ≤ body.length ∧ 1 ≤ ms.length := by
  unfold decodeMembers at h
  cases hm : memberSlices body with
  | none => simp [hm] at h
  | some sl =>
    simp only [hm] at h
    obtain ⟨h1, h2⟩ := memberSlices_spec hm
    have hlen := mapM_length _ _ _ h
    have hmm := mapM_sum_le decodeSimple (fun s => 2 * simpleNodes s) List.length _ _ h
      (fun x y hxy => decodeSimple_nodes hxy)
    have e : (ms.map fun s => 2 * simpleNodes s).sum = 2 * (ms.map simpleNodes).sum := by
      clear h hlen hmm
      induction ms with
      | nil => rfl
      | cons a t ih => simp only [List.map_cons, List.sum_cons, ih]; omega
    rw [e] at hmm
    exact ⟨by omega, by omega⟩

/-- **the parse tree is no larger than the input**: requests, path segments and bundle members together
(each of them one pass of a parser loop) number at most half the bytes -/
theorem decodeReq_nodes {bs : Bytes} {r : Req} (h : decodeReq bs = some r) : 2 * reqNodes r ≤ bs.length := by
  unfold decodeReq at h
  cases bs with
  | nil => simp at h
  | cons svc r0 =>
    simp only at h
    split at h
    · cases he : decodeEpath false r0 with
      | none => simp [he] at h
      | some q =>
        obtain ⟨p, body⟩ := q
        simp only [he] at h
        cases hm : decodeMembers body with
        | none => simp [hm] at h
        | some ms =>
          simp only [hm, Option.map_some, Option.some.injEq] at h
          subst h
          have := decodeEpath_progress he
          have := (decodeMembers_nodes hm).1
          simp only [reqNodes, List.length_cons]
          omega
    · cases hs : decodeSimple (svc :: r0) with
      | none => simp [hs] at h
      | some s =>
        simp only [hs, Option.map_some, Option.some.injEq] at h
        subst h
        exact decodeSimple_nodes hs

/-! ### the work of the bundle parser -/

theorem sum_map_le_mul (f : Bytes → Nat) (k : Nat) (l : List Bytes) (h : ∀ x ∈ l, f x ≤ k * x.length) :
    (l.map f).sum ≤ k * (l.map List.length).sum := by
  induction l with
  | nil => simp
  | cons a t ih =>
    have h1 := h a (by simp)
    have h2 := ih (fun x hx => h x (by simp [hx]))
    simp only [List.map_cons, List.sum_cons, Nat.mul_add]
    omega

/-- **true complexity**: a request nested `fuel` levels deep costs at most `fuel` passes over its bytes -/
theorem scanCost_le (fuel : Nat) (bs : Bytes) : scanCost fuel bs ≤ fuel * bs.length := by
  induction fuel generalizing bs with
  | zero => simp [scanCost]
  | succ n ih =>
    unfold scanCost
    have base : bs.length + 0 ≤ (n + 1) * bs.length := by
      rw [Nat.add_mul]; omega
    cases bs with
    | nil => simp
    | cons svc r0 =>
      simp only
      split
      · cases he : decodeEpath false r0 with
        | none => exact base
        | some q =>
          obtain ⟨p, body⟩ := q
          simp only
          cases hm : memberSlices body with
          | none => exact base
          | some ms =>
            simp only
            have hb := decodeEpath_progress he
            have hs := (memberSlices_spec hm).1
            have hsum := sum_map_le_mul (scanCost n) n ms (fun x _ => ih x)
            have : n * (ms.map List.length).sum ≤ n * (svc :: r0).length := by
              apply Nat.mul_le_mul_left
              simp only [List.length_cons]; omega
            rw [Nat.add_mul]
            omega
      · exact base

/-- a member that is a complete non-bundle request costs one pass -/
theorem scanCost_simple {bs : Bytes} {s : Simple} (h : decodeSimple bs = some s) (fuel : Nat) :
    scanCost (fuel + 1) bs = bs.length := by
  unfold scanCost
  cases bs with
  | nil => simp [decodeSimple] at h
  | cons svc r0 =>
    simp only
    split
    · rename_i hsvc
      -- decodeSimple knows no service 0x0a
      exfalso
      unfold decodeSimple at h
      simp only at h
      cases he : decodeEpath false r0 with
      | none => simp [he] at h
      | some q =>
        obtain ⟨p, r⟩ := q
        have e1 : ¬ Generated.svcMultiple = Generated.svcReadTag := by decide
        have e2 : ¬ Generated.svcMultiple = Generated.svcReadFrag := by decide
        have e3 : ¬ Generated.svcMultiple = Generated.svcWriteTag := by decide
        have e4 : ¬ Generated.svcMultiple = Generated.svcWriteFrag := by decide
        have e5 : ¬ Generated.svcMultiple = Generated.svcGetAttrSingle := by decide
        have e6 : ¬ Generated.svcMultiple = Generated.svcSetAttrSingle := by decide
        have e7 : ¬ Generated.svcMultiple = Generated.svcGetAttrAll := by decide
        simp only [he, hsvc, e1, e2, e3, e4, e5, e6, e7, if_false] at h
        exact absurd h (by simp)
    · rfl

theorem mapM_all_some {α β : Type} (f : α → Option β) (l : List α) (r : List β) (h : l.mapM f = some r) :
    ∀ x ∈ l, ∃ y, f x = some y := by
  induction l generalizing r with
  | nil => intro x hx; simp at hx
  | cons a t ih =>
    rw [List.mapM_cons] at h
    cases hfa : f a with
    | none => simp [hfa] at h
    | some b =>
      cases ht : t.mapM f with
      | none => simp [hfa, ht] at h
      | some bs =>
        intro x hx
        rcases List.mem_cons.mp hx with rfl | hx
        · exact ⟨b, hfa⟩
        · exact ih bs ht x hx

theorem sum_map_le_sum (f g : Bytes → Nat) (l : List Bytes) (h : ∀ x ∈ l, f x ≤ g x) :
    (l.map f).sum ≤ (l.map g).sum := by
  induction l with
  | nil => simp
  | cons a t ih =>
    have h1 := h a (by simp)
    have h2 := ih (fun x hx => h x (by simp [hx]))
    simp only [List.map_cons, List.sum_cons]
    omega

/-- **linear for the model's grammar** (no bundle inside a bundle): two passes at most -/
theorem scanCost_decoded {bs : Bytes} {r : Req} (h : decodeReq bs = some r) (fuel : Nat) :
    scanCost fuel bs ≤ 2 * bs.length := by
  cases fuel with
  | zero => simp [scanCost]
  | succ n =>
    unfold decodeReq at h
    cases bs with
    | nil => simp at h
    | cons svc r0 =>
      simp only at h
      split at h
      · rename_i hsvc
        cases he : decodeEpath false r0 with
        | none => simp [he] at h
        | some q =>
          obtain ⟨p, body⟩ := q
          simp only [he] at h
          cases hm : decodeMembers body with
          | none => simp [hm] at h
          | some ms =>
            unfold decodeMembers at hm
            cases hsl : memberSlices body with
            | none => simp [hsl] at hm
            | some sl =>
              simp only [hsl] at hm
              unfold scanCost
              simp only [hsvc, if_true, he, hsl]
              have hall := mapM_all_some _ _ _ hm
              have hle : (sl.map (scanCost n)).sum ≤ (sl.map List.length).sum := by
                apply sum_map_le_sum
                intro x hx
                obtain ⟨y, hy⟩ := hall x hx
                cases n with
                | zero => simp [scanCost]
                | succ k => rw [scanCost_simple hy k]; exact Nat.le_refl _
              have := (memberSlices_spec hsl).1
              have := decodeEpath_progress he
              simp only [List.length_cons] at *
              omega
      · cases hs : decodeSimple (svc :: r0) with
        | none => simp [hs] at h
        | some s =>
          rw [scanCost_simple hs n]
          omega

end Cpppo.Serve

namespace Cpppo.Serve
open Cpppo.Logix

/-! ### state protection -/

def isWrite : Simple → Bool
  | .writeTag .. | .writeFrag .. | .setAttrSingle .. => true
  | _ => false

theorem execAttr_get_noop (d : Dev) (self : Nat × Nat) (p : Path) :
    (execAttr d self (.getAttrSingle p)).1 = d ∧ (execAttr d self (.getAttrAll p)).1 = d := by
  constructor
  all_goals
    unfold execAttr
    simp only
    repeat' split
    all_goals first | rfl | simp_all

/-- a request changes the device only if it is a write service acknowledged with status 0 -/
theorem execSimpleAt_noop (d : Dev) (at_ : Nat × Nat) (s : Simple)
    (h : ¬ (isWrite s = true ∧ (execSimpleAt d at_ s).2.status = 0)) : (execSimpleAt d at_ s).1 = d := by
  unfold execSimpleAt at h ⊢
  cases s <;> simp only [isWrite, true_and, false_and, not_false_eq_true, Bool.false_eq_true] at h ⊢
  · exact execTag_read_noop _ _ _ _ _ _ _
  · exact execTag_read_noop _ _ _ _ _ _ _
  · exact execTag_refused_noop _ _ _ _ _ _ _ _ _ _ h
  · exact execTag_refused_noop _ _ _ _ _ _ _ _ _ _ h
  · exact (execAttr_get_noop _ _ _).1
  · exact execAttr_refused_noop _ _ _ h
  · exact (execAttr_get_noop _ _ _).2

/-- some member, in the state in which it is executed, is a write acknowledged with status 0 -/
def AcceptedWriteAt (at_ : Nat × Nat) : Dev → List Simple → Prop
  | _, [] => False
  | d, s :: rest =>
    (isWrite s = true ∧ (execSimpleAt d at_ s).2.status = 0) ∨ AcceptedWriteAt at_ (execSimpleAt d at_ s).1 rest

/-- the request is (or its bundle contains) a write service that the device acknowledges with status 0 -/
def AcceptedWrite (d : Dev) : Req → Prop
  | .simple s => isWrite s = true ∧ (execSimple d s).2.status = 0
  | .multiple p ms => AcceptedWriteAt ((routeTarget d router p).getD router) d ms

theorem execMembers_change (at_ : Nat × Nat) (d : Dev) (ms : List Simple)
    (h : (execMembers d at_ ms).1 ≠ d) : AcceptedWriteAt at_ d ms := by
  induction ms generalizing d with
  | nil => simp [execMembers] at h
  | cons s rest ih =>
    simp only [execMembers] at h
    by_cases hw : isWrite s = true ∧ (execSimpleAt d at_ s).2.status = 0
    · exact Or.inl hw
    · have hd := execSimpleAt_noop d at_ s hw
      right
      rw [hd]
      apply ih
      rw [hd] at h
      exact h

theorem exec_change_is_write (d : Dev) (r : Req) (h : (exec d r).1 ≠ d) : AcceptedWrite d r := by
  cases r with
  | simple s =>
    simp only [exec] at h
    show isWrite s = true ∧ (execSimple d s).2.status = 0
    by_cases hw : isWrite s = true ∧ (execSimpleAt d router s).2.status = 0
    · exact hw
    · exact absurd (execSimpleAt_noop d router s hw) h
  | multiple p ms =>
    simp only [exec, execMultiple] at h
    show AcceptedWriteAt ((routeTarget d router p).getD router) d ms
    split at h
    · exact absurd rfl h
    · apply execMembers_change
      split at h <;> exact h

end Cpppo.Serve
