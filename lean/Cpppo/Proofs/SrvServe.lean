import Cpppo.Proofs.Frame
/-! One request frame through the server model: parse, deliver, execute, produce; and back through the
reference decoder. -/
namespace Cpppo.Interop
open Cpppo Cpppo.Logix Cpppo.Fields

theorem encReq_head {r : Req} {b : Bytes} (h : Ref.encReq r = some b) :
    ∃ e tail, b = Ref.reqService r :: (e ++ tail) ∧ Ref.encEpath (reqPath r) = some e := by
  cases r with
  | simple s =>
    cases s with
    | readTag p n =>
      simp only [Ref.encReq, Ref.encSimple] at h
      split at h
      · rename_i e he
        split at h
        · simp only [Option.some.injEq] at h; subst h
          exact ⟨e, Bytes.le 2 n, by simp [Ref.reqService], he⟩
        · simp at h
      · simp at h
    | readFrag p n off =>
      simp only [Ref.encReq, Ref.encSimple] at h
      split at h
      · rename_i e he
        split at h
        · simp only [Option.some.injEq] at h; subst h
          exact ⟨e, Bytes.le 2 n ++ Bytes.le 4 off, by simp [Ref.reqService], he⟩
        · simp at h
      · simp at h
    | writeTag p ty n data =>
      simp only [Ref.encReq, Ref.encSimple] at h
      split at h
      · rename_i e he
        split at h
        · simp only [Option.some.injEq] at h; subst h
          exact ⟨e, Bytes.le 2 ty ++ (Bytes.le 2 n ++ data), by simp [Ref.reqService], he⟩
        · simp at h
      · simp at h
    | writeFrag p ty n off data =>
      simp only [Ref.encReq, Ref.encSimple] at h
      split at h
      · rename_i e he
        split at h
        · simp only [Option.some.injEq] at h; subst h
          exact ⟨e, Bytes.le 2 ty ++ (Bytes.le 2 n ++ (Bytes.le 4 off ++ data)), by simp [Ref.reqService], he⟩
        · simp at h
      · simp at h
    | getAttrSingle p => simp [Ref.encReq, Ref.encSimple] at h
    | setAttrSingle p d => simp [Ref.encReq, Ref.encSimple] at h
    | getAttrAll p => simp [Ref.encReq, Ref.encSimple] at h
  | multiple p ss =>
    simp only [Ref.encReq] at h
    split at h
    · rename_i e ms he hms
      split at h
      · simp only [Option.some.injEq] at h; subst h
        exact ⟨e, Ref.encTable ms, by simp [Ref.reqService], he⟩
      · simp at h
    · simp at h

theorem reqService_cases (r : Req) : Ref.reqService r ∈ [0x4C, 0x52, 0x4D, 0x53, 0, 0x0A] := by
  cases r with
  | simple s => cases s <;> simp [Ref.reqService]
  | multiple p ss => simp [Ref.reqService]

/-- a bare request that does not start with 0x52 is an opaque payload for the `unconnected_send` parser -/
theorem parseUnconn_bare {r : Req} {b : Bytes} (h : Ref.encReq r = some b) (h52 : Ref.reqService r ≠ 0x52) :
    Srv.parseUnconn b = some (.bare b) := by
  obtain ⟨e, tail, rfl, _⟩ := encReq_head h
  have := reqService_cases r
  simp only [List.mem_cons, List.not_mem_nil, or_false] at this
  have h2 : Ref.reqService r ≠ 82 + 128 := by rcases this with h | h | h | h | h | h <;> omega
  simp [Srv.parseUnconn, Generated.iopUnconnectedSend, h52, h2]

/-- the Connection Manager finds the target of an unconnected request, lets it parse and execute -/
theorem cmRequest_unconnected (st : Srv.St) (rnd : Srv.Rnd) (r : Req) (b : Bytes) (h : Ref.encReq r = some b)
    (hw : WFReq r = true) (hcm : notCM st.dev r = true) (hro : hasRouter st.dev = true) :
    Srv.cmRequest true st rnd none b = ({ st with dev := (exec st.dev r).1 }, (exec st.dev r).2) := by
  obtain ⟨e, tail, hb, he⟩ := encReq_head h
  obtain ⟨segs, hp, hs⟩ := parseEpath_encEpath (reqPath r) e tail he
  obtain ⟨t, ht, htcm, hex⟩ := execAt_targetOf st.dev r segs hs hcm hro
  have hparse := parseCip_encReq r b h hw
  unfold Srv.cmRequest
  simp only [Option.bind_none]
  subst hb
  simp only [hp, Option.map_some, ht, if_neg htcm, hparse, hex]

/-! ### SendRRData with a null address item and an unconnected data item -/

theorem parseSendData_rr (timeout : Nat) (cip : Bytes) (un : Srv.Unconn) (ht : timeout < 65536)
    (hc : cip ≠ []) (hl : cip.length < 65536) (hu : Srv.parseUnconn cip = some un) :
    Srv.parseSendData (Ref.encSendData 0 timeout (Ref.encItem 0x00 []) (Ref.encItem 0xB2 cip)) =
      some { iface := 0, timeout := timeout,
             items := [{ ty := 0, len := 0, body := .none }, { ty := 0xB2, len := cip.length, body := .unconn un }] } := by
  have e1 := fun rest => u_le 4 0 rest (by omega)
  have e2 := fun rest => u_le 2 timeout rest (by omega)
  have e3 := fun rest => u_le 2 2 rest (by omega)
  have e4 := fun rest => u_le 2 0 rest (by omega)
  have e5 := fun rest => u_le 2 0xB2 rest (by omega)
  have e6 := fun rest => u_le 2 cip.length rest (by omega)
  have e7 : take cip.length cip = some (cip, []) := by simpa using take_append cip.length cip [] rfl
  have hne : cip.length ≠ 0 := by
    intro h0; exact hc (List.length_eq_zero_iff.mp h0)
  simp only [Ref.encSendData, Ref.encItem, List.append_assoc, Srv.parseSendData, e1, e2, e3, Srv.parseItems,
    Srv.parseItem, e4, e5, e6, List.length_nil, List.nil_append, List.append_nil, take, Nat.not_lt_zero, ↓reduceIte,
    List.take_zero, List.drop_zero]
  simp only [Generated.iopCpfConnectionId, Generated.iopCpfConnectionData, Generated.iopCpfUnconnected, hne,
    ↓reduceIte, Nat.lt_irrefl, List.take_length, List.drop_length, hu]
  simp

/-- what the server puts around a CIP reply to an unconnected request -/
def rrPayload (timeout : Nat) (rep : Bytes) : Bytes :=
  Bytes.le 4 0 ++ Bytes.le 2 timeout ++ Bytes.le 2 2 ++ (Bytes.le 2 0 ++ Bytes.le 2 0)
    ++ (Bytes.le 2 0xB2 ++ Bytes.le 2 rep.length ++ rep)

theorem produceSendData_rr (timeout len0 : Nat) (rep : Bytes) :
    Srv.produceSendData ⟨0, timeout,
      [{ ty := 0, len := 0, body := .none }, { ty := 0xB2, len := len0, body := .unconn (.bare rep) }]⟩
      = some (rrPayload timeout rep) := by
  simp [Srv.produceSendData, Srv.produceItems, Srv.produceItem, Generated.iopCpfParsed, rrPayload]

theorem decSendData_rr (timeout : Nat) (rep : Bytes) (ht : timeout < 65536) (hl : rep.length < 65536) :
    Ref.decSendData (rrPayload timeout rep) = (Ref.decCip rep).map (Ref.RMsg.cip none 0 timeout) := by
  have e1 := fun rest => u_le 4 0 rest (by omega)
  have e2 := fun rest => u_le 2 timeout rest (by omega)
  have e3 := fun rest => u_le 2 2 rest (by omega)
  have e4 := fun rest => u_le 2 0 rest (by omega)
  have e5 := fun rest => u_le 2 0xB2 rest (by omega)
  have e6 := fun rest => u_le 2 rep.length rest (by omega)
  have e7 : take rep.length rep = some (rep, []) := by simpa using take_append rep.length rep [] rfl
  have e8 : ∀ rest : Bytes, take 0 rest = some ([], rest) := by intro rest; simp [take]
  simp only [rrPayload, List.append_assoc, Ref.decSendData, e1, e2, e3, Ref.decItem, e4, e5, e6, e7, e8,
    bind, Option.bind]
  simp

/-- session handle and sender context in range -/
def CtxOk (c : Ref.Ctx) : Bool :=
  decide (c.session < 4294967296) && decide (c.context.length = 8) && c.context.wf

theorem hdr_ok (c : Ref.Ctx) (cmd : Nat) (hc : CtxOk c = true) (hcmd : cmd < 65536) : (c.hdr cmd).ok = true := by
  simp only [CtxOk, Bool.and_eq_true, decide_eq_true_eq] at hc
  simp [Ref.Hdr.ok, Ref.Ctx.hdr, hc, hcmd]

/-- the reply frame of the server for an unconnected request -/
def rrFrame (c : Ref.Ctx) (timeout : Nat) (rep : Bytes) : Bytes :=
  Srv.produceEnip { command := 0x6F, session := c.session, status := 0, context := c.context, options := 0,
                    input := rrPayload timeout rep }

theorem rrPayload_length (timeout : Nat) (rep : Bytes) : (rrPayload timeout rep).length = 16 + rep.length := by
  simp [rrPayload, le_length]; omega

theorem decReplyMsg_rrFrame (c : Ref.Ctx) (timeout : Nat) (rep : Bytes) (hc : CtxOk c = true)
    (ht : timeout < 65536) (hl : rep.length < 65000) :
    Ref.decReplyMsg (rrFrame c timeout rep) =
      (Ref.decCip rep).map fun m => ((c.hdr 0x6F), Ref.RMsg.cip none 0 timeout m) := by
  simp only [CtxOk, Bool.and_eq_true, decide_eq_true_eq] at hc
  have hok : EnipOk { command := 0x6F, session := c.session, status := 0, context := c.context, options := 0,
                      input := rrPayload timeout rep } := by
    refine ⟨by simp, hc.1.1, by simp, hc.1.2, by simp, ?_⟩
    simp only [rrPayload_length]; omega
  unfold rrFrame Ref.decReplyMsg
  rw [decFrame_produceEnip _ hok]
  simp only [ne_eq, not_true_eq_false, ↓reduceIte, Nat.reduceEqDiff, true_or]
  rw [decSendData_rr timeout rep ht (by omega)]
  cases Ref.decCip rep <;> simp [Ref.Ctx.hdr]

/-- the server's half: a bare unconnected request frame is answered with the reply of `exec` -/
theorem serve_rr (st : Srv.St) (rnd : Srv.Rnd) (c : Ref.Ctx) (timeout : Nat) (cip : Bytes) (un : Srv.Unconn)
    (hc : CtxOk c = true) (ht : timeout < 65536) (hne : cip ≠ []) (hl : cip.length < 65000)
    (hu : Srv.parseUnconn cip = some un) (st' : Srv.St) (rep : Bytes)
    (hucmm : ∀ i0 i1 : Srv.Item, i0 = { ty := 0, len := 0, body := .none } → i1 = { ty := 0xB2, len := cip.length, body := .unconn un } →
      Srv.ucmmSend true st rnd { iface := 0, timeout := timeout, items := [i0, i1] } =
        (st', some { iface := 0, timeout := timeout, items := [i0, { i1 with body := .unconn (.bare rep) }] })) :
    Srv.serve st rnd (Ref.encFrame (c.hdr 0x6F) (Ref.encSendData 0 timeout (Ref.encItem 0x00 []) (Ref.encItem 0xB2 cip)))
      = (st', .reply (rrFrame c timeout rep)) := by
  have hlen : (Ref.encSendData 0 timeout (Ref.encItem 0x00 []) (Ref.encItem 0xB2 cip)).length < 65536 := by
    simp [Ref.encSendData, Ref.encItem, le_length]; omega
  unfold Srv.serve Srv.serveWith
  rw [parseEnip_encFrame _ _ (hdr_ok c 0x6F hc (by decide)) hlen]
  simp only [Ref.Ctx.hdr, Generated.iopCmdRegister, Generated.iopCmdUnregister, Generated.iopCmdSendData]
  simp only [Nat.reduceEqDiff, ↓reduceIte, List.contains_cons, Nat.reduceBEq, Bool.true_or]
  rw [parseSendData_rr timeout cip un ht hne (by omega) hu]
  simp only
  rw [hucmm _ _ rfl rfl]
  simp only [produceSendData_rr]
  rfl

/-! ### the Unconnected Send wrapper -/

theorem encPorts_cons {p l : Nat} {rest : List (Nat × Nat)} {b : Bytes} (h : Ref.encPorts ((p, l) :: rest) = some b) :
    ∃ b', Ref.encPorts rest = some b' ∧ b = p :: l :: b' ∧ 1 ≤ p ∧ p ≤ 14 := by
  simp only [Ref.encPorts] at h
  split at h
  · rename_i b' hb
    split at h
    · rename_i hc
      simp only [Option.some.injEq] at h
      exact ⟨b', hb, by simp [← h], hc.1, hc.2.1⟩
    · simp at h
  · simp at h

theorem parseSeg_port (p l : Nat) (rest : Bytes) (h1 : 1 ≤ p) (h2 : p ≤ 14) :
    Srv.parseSeg (p :: l :: rest) = some (.port p l, rest) := by
  have n1 : Srv.inKind Generated.iopSegElement true p = false := by
    simp [Srv.inKind, Generated.iopSegElement]; omega
  have n2 : Srv.inKind Generated.iopSegClass false p = false := by
    simp [Srv.inKind, Generated.iopSegClass]; omega
  have n3 : Srv.inKind Generated.iopSegInstance false p = false := by
    simp [Srv.inKind, Generated.iopSegInstance]; omega
  have n4 : Srv.inKind Generated.iopSegConnection false p = false := by
    simp [Srv.inKind, Generated.iopSegConnection]; omega
  have n5 : Srv.inKind Generated.iopSegAttribute false p = false := by
    simp [Srv.inKind, Generated.iopSegAttribute]; omega
  have n6 : p ≠ Generated.iopSegSymbolic := by simp [Generated.iopSegSymbolic]; omega
  simp [Srv.parseSeg, n1, n2, n3, n4, n5, n6, h1, h2]

theorem parseSegs_ports (route : List (Nat × Nat)) (b : Bytes) (h : Ref.encPorts route = some b) (fuel : Nat)
    (hf : b.length ≤ fuel) :
    Srv.parseSegs fuel b = some (route.map fun x => Srv.PSeg.port x.1 x.2) ∧ b.length = 2 * route.length := by
  induction route generalizing b fuel with
  | nil => simp [Ref.encPorts] at h; subst h; cases fuel <;> simp [Srv.parseSegs]
  | cons x rest ih =>
    obtain ⟨p, l⟩ := x
    obtain ⟨b', hb, rfl, h1, h2⟩ := encPorts_cons h
    match fuel, hf with
    | f + 1, hf =>
      have hf' : b'.length ≤ f := by simp at hf; omega
      obtain ⟨ih1, ih2⟩ := ih b' hb f hf'
      refine ⟨?_, by simp only [List.length_cons, ih2]; omega⟩
      simp only [Srv.parseSegs, parseSeg_port p l b' h1 h2, ih1, List.map_cons]

/-- the `unconnected_send` parser takes the reference encoder's Unconnected Send apart -/
theorem parseUnconn_usend (prio ticks : Nat) (req : Bytes) (route : List (Nat × Nat)) (w : Bytes)
    (h : Ref.encUnconnectedSend prio ticks req route = some w) :
    Srv.parseUnconn w = some (.usend [.cls 6, .ins 1] prio ticks req (route.map fun x => Srv.PSeg.port x.1 x.2)) := by
  unfold Ref.encUnconnectedSend at h
  split at h
  · simp at h
  · rename_i rp hrp
    split at h
    · rename_i hc
      obtain ⟨_, _, hlen, _⟩ := hc
      simp only [Option.some.injEq] at h
      subst h
      obtain ⟨hps, hpl⟩ := parseSegs_ports route rp hrp rp.length (Nat.le_refl _)
      have e1 : ∀ rest : Bytes, Srv.parseEpath false (2 :: 32 :: 6 :: 36 :: 1 :: rest) = some ([.cls 6, .ins 1], rest) := by
        intro rest
        have ht := take_append 4 [32, 6, 36, 1] rest rfl
        simp only [List.cons_append, List.nil_append] at ht
        simp [Srv.parseEpath, ht, Srv.parseSegs, Srv.parseSeg, Srv.inKind, Srv.logical, Generated.iopSegElement,
          Generated.iopSegClass, Generated.iopSegInstance, u1_cons]
      have e2 := fun rest => u_le 2 req.length rest (by omega : req.length < 256 ^ 2)
      have e3 := fun rest => take_append req.length req rest rfl
      have e4 : Srv.parseEpath true (route.length :: 0 :: rp) = some (route.map fun x => Srv.PSeg.port x.1 x.2, []) := by
        have ht : take (2 * route.length) rp = some (rp, []) := by
          rw [← hpl]; simpa using take_append rp.length rp [] rfl
        simp [Srv.parseEpath, Srv.skip1, ht, hps]
      simp only [List.cons_append, List.nil_append, List.append_assoc, Srv.parseUnconn, Generated.iopUnconnectedSend,
        ↓reduceIte, e1, u1_cons, e2, e3]
      by_cases hodd : req.length % 2 = 1
      · simp [hodd, Srv.skip1, e4]
      · simp [hodd, e4]
    · simp at h

theorem resolve_cm (syms : List (String × (Nat × Nat × Nat))) :
    resolve syms .no (Srv.toPath [.cls 6, .ins 1]) = some (6, 1, none) := by
  simp [Srv.toPath, Srv.PSeg.toSeg, resolve, resolveGo]

theorem encUnconnectedSend_ne {prio ticks : Nat} {req : Bytes} {route : List (Nat × Nat)} {w : Bytes}
    (h : Ref.encUnconnectedSend prio ticks req route = some w) : w ≠ [] ∧ w.length ≤ req.length + 2 * route.length + 14 := by
  unfold Ref.encUnconnectedSend at h
  split at h
  · simp at h
  · rename_i rp hrp
    split at h
    · simp only [Option.some.injEq] at h; subst h
      have := (parseSegs_ports route rp hrp rp.length (Nat.le_refl _)).2
      refine ⟨by simp, ?_⟩
      simp only [List.cons_append, List.nil_append, List.length_cons, List.length_append, le_length]
      split <;> simp <;> omega
    · simp at h

/-! ### unconnected requests, end to end on the server side -/

def Unconnected : Ref.Transport → Bool
  | .connected _ _ => false
  | _ => true

theorem encReq_ne {r : Req} {b : Bytes} (h : Ref.encReq r = some b) : b ≠ [] := by
  obtain ⟨e, tail, rfl, _⟩ := encReq_head h; simp

/-- a reference-encoded unconnected request (bare or inside an Unconnected Send) is executed by `exec` and
answered in a SendRRData frame around `exec`'s reply bytes -/
theorem serve_unconnected (st : Srv.St) (rnd : Srv.Rnd) (c : Ref.Ctx) (t : Ref.Transport) (timeout : Nat)
    (r : Req) (fr : Bytes) (hun : Unconnected t = true) (hc : CtxOk c = true)
    (henc : Ref.encMsg c (.request t timeout r) = some fr) (hw : WFReq r = true)
    (hcm : notCM st.dev r = true) (hro : hasRouter st.dev = true)
    (rep : Bytes) (hrep : (exec st.dev r).2 = some rep) :
    Srv.serve st rnd fr = ({ st with dev := (exec st.dev r).1 }, .reply (rrFrame c timeout rep)) := by
  cases t with
  | connected id seq => simp [Unconnected] at hun
  | direct =>
    simp only [Ref.encMsg] at henc
    split at henc
    · rename_i b hb
      split at henc
      · simp at henc
      · rename_i h52
        unfold Ref.encRR at henc
        split at henc
        · rename_i hcond
          simp only [Option.some.injEq] at henc
          subst henc
          have hcmr := cmRequest_unconnected st rnd r b hb hw hcm hro
          rw [hrep] at hcmr
          apply serve_rr st rnd c timeout b (.bare b) hc hcond.1 (encReq_ne hb) hcond.2
            (parseUnconn_bare hb h52)
          intro i0 i1 h0 h1
          subst h0 h1
          simp [Srv.ucmmSend, hcmr]
        · simp at henc
    · simp at henc
  | wrapped prio ticks route =>
    simp only [Ref.encMsg] at henc
    split at henc
    · rename_i b hb
      split at henc
      · rename_i w hwrap
        unfold Ref.encRR at henc
        split at henc
        · rename_i hcond
          simp only [Option.some.injEq] at henc
          subst henc
          have hcmr := cmRequest_unconnected st rnd r b hb hw hcm hro
          rw [hrep] at hcmr
          apply serve_rr st rnd c timeout w _ hc hcond.1 (encUnconnectedSend_ne hwrap).1 hcond.2
            (parseUnconn_usend prio ticks b route w hwrap)
          intro i0 i1 h0 h1
          subst h0 h1
          simp [Srv.ucmmSend, resolve_cm, Srv.cm, Generated.iopCmClass, hcmr]
        · simp at henc
      · simp at henc
    · simp at henc

end Cpppo.Interop
