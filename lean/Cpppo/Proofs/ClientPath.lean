import Cpppo.Model.ClientPath
import Cpppo.Proofs.PyText
/-! `format_path` followed by `parse_path_elements` (property C12): lemmas for the two documented
path shapes - symbolic tags and numeric class/instance/attribute - with an optional element index and
element count. -/
namespace Cpppo.Client
open Cpppo.Py

/-- a tag name that `format_path` / `parse_path` can carry: non-empty, free of the path syntax -/
def NameOk (n : Str) : Prop := n ≠ [] ∧ '.' ∉ n ∧ '[' ∉ n ∧ '*' ∉ n ∧ n.head? ≠ some '@'

instance (n : Str) : Decidable (NameOk n) := by unfold NameOk; infer_instance

/-- the `[e]` / `[e-l]` suffix written by `format_path` -/
def bracketText (elem : Option Nat) (count : Option Nat) : Str :=
  match elem with
  | none => []
  | some e =>
    match count with
    | none => '[' :: decimal e ++ [']']
    | some c => '[' :: decimal e ++ '-' :: decimal (e + c - 1) ++ [']']

def elemSegs (elem : Option Nat) : List Seg :=
  match elem with
  | none => []
  | some e => [elemSeg (e : Int)]

def countOut (elem count : Option Nat) : Option Int :=
  match elem with
  | none => none
  | some _ => count.map fun c => (c : Int)

theorem decimal_plain (n : Nat) : ∀ c ∈ decimal n, isSpecial c = false :=
  fun c hc => alnum_not_special c (decimal_alnum n c hc)

theorem decimalInt_nat (n : Nat) : decimalInt (n : Int) = decimal n := by
  have : ¬ ((n : Int) < 0) := by omega
  simp [decimalInt, this]

theorem not_mem_decimal (n : Nat) (d : Char) (hd : isSpecial d = true) : d ∉ decimal n :=
  not_mem_of_plain _ (decimal_plain n) d hd

theorem bracket_no (d : Char) (hd : isSpecial d = true) (h1 : d ≠ '[') (h2 : d ≠ ']') (h3 : d ≠ '-')
    (elem count : Option Nat) : d ∉ bracketText elem count := by
  unfold bracketText
  cases elem with
  | none => simp
  | some e =>
    have he := not_mem_decimal e d hd
    cases count with
    | none =>
      intro hm
      simp only [List.mem_cons, List.mem_append, List.not_mem_nil, or_false] at hm
      rcases hm with (hm | hm) | hm
      · exact h1 hm
      · exact he hm
      · exact h2 hm
    | some c =>
      have hl := not_mem_decimal (e + c - 1) d hd
      intro hm
      simp only [List.mem_cons, List.mem_append, List.not_mem_nil, or_false] at hm
      rcases hm with ((hm | hm) | (hm | hm)) | hm
      · exact h1 hm
      · exact he hm
      · exact h3 hm
      · exact hl hm
      · exact h2 hm

/-! ### parsing the bracket -/

theorem parseBracket_single (e : Nat) (cnt : Option Int) :
    parseBracket (decimal e) cnt = Except.ok ((e : Int), cnt) := by
  have hm : '-' ∉ decimal e := not_mem_decimal e '-' (by decide)
  have h : (decimal e).contains '-' = false := by simp [hm]
  unfold parseBracket
  rw [h]
  simp only [Bool.false_eq_true, if_false, pyInt10_decimal]
  rfl

theorem parseBracket_range (e c : Nat) (hc : 0 < c) (cnt : Option Int) :
    parseBracket (decimal e ++ '-' :: decimal (e + c - 1)) cnt
      = Except.ok ((e : Int), some (c : Int)) := by
  have h : (decimal e ++ '-' :: decimal (e + c - 1)).contains '-' = true := by simp
  have hs : splitAll '-' (decimal e ++ '-' :: decimal (e + c - 1)) = [decimal e, decimal (e + c - 1)] := by
    rw [splitAll_append _ _ _ (not_mem_decimal e '-' (by decide)),
      splitAll_none _ _ (not_mem_decimal _ '-' (by decide))]
  have harith : ((e + c - 1 : Nat) : Int) + 1 - (e : Int) = (c : Int) := by omega
  have hpos : ((c : Nat) : Int) > 0 := by omega
  unfold parseBracket
  rw [h]
  simp only [if_true, hs, pyInt10_decimal, harith, hpos]
  rfl

/-! ### parse_path_component on `<base><bracket>` -/

theorem parseComponent_bracket (base : Str) (segs : List Seg)
    (h1 : '*' ∉ base) (h2 : '[' ∉ base) (hsegs : stageSegs base = Except.ok segs)
    (elem count : Option Nat) (hc : ∀ c, count = some c → 0 < c) :
    parseComponent (base ++ bracketText elem count) none none
      = Except.ok (finishComponent segs (elem.map fun e => (e : Int)) (countOut elem count)) := by
  have hstar : stageStar (base ++ bracketText elem count) none
      = Except.ok (base ++ bracketText elem count, none) := by
    unfold stageStar
    rw [splitFirst_none]
    · rfl
    · intro hm
      rcases List.mem_append.mp hm with hm | hm
      · exact h1 hm
      · exact bracket_no '*' (by decide) (by decide) (by decide) (by decide) elem count hm
  cases elem with
  | none =>
    have hb : stageBracket base none none = Except.ok (base, none, none) := by
      unfold stageBracket; rw [splitFirst_none _ _ h2]; rfl
    simp only [bracketText, List.append_nil] at hstar ⊢
    simp [parseComponent, hstar, hb, hsegs, countOut]
  | some e =>
    cases count with
    | none =>
      have hsf : splitFirst '[' (base ++ '[' :: (decimal e ++ [']'])) = some (base, decimal e ++ [']']) :=
        splitFirst_append _ _ _ h2
      have hsa : splitAll ']' (decimal e ++ [']']) = [decimal e, []] := by
        rw [splitAll_append _ _ _ (not_mem_decimal e ']' (by decide))]; rfl
      have hb : stageBracket (base ++ bracketText (some e) none) none none
          = Except.ok (base, some (e : Int), none) := by
        simp only [stageBracket, bracketText, List.cons_append, hsf, hsa, parseBracket_single]
        simp
        rfl
      rw [parseComponent, hstar]
      simp only [hb, hsegs]
      rfl
    | some c =>
      have hcp := hc c rfl
      have hnot : ']' ∉ decimal e ++ '-' :: decimal (e + c - 1) := by
        intro hm
        simp only [List.mem_append, List.mem_cons] at hm
        rcases hm with hm | hm | hm
        · exact not_mem_decimal e ']' (by decide) hm
        · revert hm; decide
        · exact not_mem_decimal _ ']' (by decide) hm
      have hsf : splitFirst '[' (base ++ '[' :: (decimal e ++ '-' :: (decimal (e + c - 1) ++ [']'])))
          = some (base, decimal e ++ '-' :: (decimal (e + c - 1) ++ [']'])) :=
        splitFirst_append _ _ _ h2
      have hsa : splitAll ']' (decimal e ++ '-' :: (decimal (e + c - 1) ++ [']']))
          = [decimal e ++ '-' :: decimal (e + c - 1), []] := by
        have := splitAll_append ']' (decimal e ++ '-' :: decimal (e + c - 1)) [] hnot
        simp only [List.append_assoc, List.cons_append] at this
        rw [this]; rfl
      have hb : stageBracket (base ++ bracketText (some e) (some c)) none none
          = Except.ok (base, some (e : Int), some (c : Int)) := by
        simp only [stageBracket, bracketText, List.cons_append, List.append_assoc, hsf, hsa,
          parseBracket_range e c hcp]
        simp
        rfl
      rw [parseComponent, hstar]
      simp only [hb, hsegs]
      rfl

/-- the same with the count written as `*<count>` after the (optional) `[<elem>]` -/
theorem parseComponent_star (base : Str) (segs : List Seg)
    (h1 : '*' ∉ base) (h2 : '[' ∉ base) (hsegs : stageSegs base = Except.ok segs)
    (elem : Option Nat) (c : Nat) :
    parseComponent (base ++ bracketText elem none ++ '*' :: decimal c) none none
      = Except.ok (finishComponent segs (elem.map fun e => (e : Int)) (some (c : Int))) := by
  have hno : '*' ∉ base ++ bracketText elem none := by
    intro hm
    rcases List.mem_append.mp hm with hm | hm
    · exact h1 hm
    · exact bracket_no '*' (by decide) (by decide) (by decide) (by decide) elem none hm
  have hstar : stageStar (base ++ bracketText elem none ++ '*' :: decimal c) none
      = Except.ok (base ++ bracketText elem none, some (c : Int)) := by
    unfold stageStar
    rw [splitFirst_append _ _ _ hno]
    simp only [parseInt_decimal]
    rfl
  cases elem with
  | none =>
    have hb : stageBracket base none (some (c : Int)) = Except.ok (base, none, some (c : Int)) := by
      unfold stageBracket; rw [splitFirst_none _ _ h2]; rfl
    simp only [bracketText, List.append_nil] at hstar ⊢
    simp [parseComponent, hstar, hb, hsegs]
  | some e =>
    have hsf : splitFirst '[' (base ++ '[' :: (decimal e ++ [']'])) = some (base, decimal e ++ [']']) :=
      splitFirst_append _ _ _ h2
    have hsa : splitAll ']' (decimal e ++ [']']) = [decimal e, []] := by
      rw [splitAll_append _ _ _ (not_mem_decimal e ']' (by decide))]; rfl
    have hb : stageBracket (base ++ bracketText (some e) none) none (some (c : Int))
        = Except.ok (base, some (e : Int), some (c : Int)) := by
      simp only [stageBracket, bracketText, List.cons_append, hsf, hsa, parseBracket_single]
      simp
      rfl
    rw [parseComponent, hstar]
    simp only [hb, hsegs]
    rfl

/-! ### format_path, generally -/

theorem fmtLoop_append (a b : List Seg) (st : FmtState) :
    fmtLoop st (a ++ b) = match fmtLoop st a with
      | some st' => fmtLoop st' b
      | none => none := by
  induction a generalizing st with
  | nil => rfl
  | cons s a ih =>
    simp only [List.cons_append, fmtLoop]
    cases fmtStep st s with
    | none => rfl
    | some st' => exact ih st'

def pathOf (st : FmtState) : Str :=
  if st.symbolic ≠ [] then st.symbolic else '@' :: joinWith '/' st.numeric

theorem fmtStep_elem (st : FmtState) (e : Int)
    (h : (st.symbolic.isEmpty != st.numeric.isEmpty) = true) :
    fmtStep st (elemSeg e) = some { st with element := some e } := by
  have h1 : hasKey kSymbolic [(kElement, e)] = false := rfl
  have h2 : hasKey kClass [(kElement, e)] = false := rfl
  have h3 : hasKey kInstance [(kElement, e)] = false := rfl
  have h4 : hasKey kAttribute [(kElement, e)] = false := rfl
  have h5 : hasKey kElement [(kElement, e)] = true := rfl
  have h6 : getKey kElement [(kElement, e)] = e := by simp [getKey]
  simp [fmtStep, elemSeg, h1, h2, h3, h4, h5, h6, h]

/-- the body of a path formats to `st`; an element segment appended adds the bracket -/
theorem formatPath_with_elem (body : List Seg) (st : FmtState) (h : fmtLoop {} body = some st)
    (hx : (st.symbolic.isEmpty != st.numeric.isEmpty) = true) (he : st.element = none)
    (elem count : Option Nat) (hc : ∀ c, count = some c → 0 < c) :
    formatPath (body ++ elemSegs elem) (count.map fun c => (c : Int))
      = some (pathOf st ++ bracketText elem count) := by
  unfold formatPath
  rw [fmtLoop_append, h]
  cases elem with
  | none => simp [elemSegs, fmtLoop, he, pathOf, bracketText]
  | some e =>
    simp only [elemSegs, fmtLoop, fmtStep_elem st _ hx]
    cases count with
    | none => simp [pathOf, bracketText, decimalInt_nat]
    | some c =>
      have hcp := hc c rfl
      have : ((e : Nat) : Int) + ((c : Nat) : Int) - 1 = ((e + c - 1 : Nat) : Int) := by omega
      simp [pathOf, bracketText, this, decimalInt_nat]

/-! ### symbolic paths -/

/-- `Tag.Sub.Last` -/
def dotted : Str → List Str → Str
  | n, [] => n
  | n, m :: ms => n ++ '.' :: dotted m ms

theorem fmtStep_sym (st : FmtState) (n : Str) (hn : n ≠ []) (hnum : st.numeric = []) :
    fmtStep st (Seg.sym n) =
      some { st with symbolic := st.symbolic ++ (if st.symbolic ≠ [] then ['.'] else []) ++ n } := by
  simp only [fmtStep, hnum]
  have : (st.symbolic ++ (if st.symbolic ≠ [] then ['.'] else []) ++ n).isEmpty = false := by
    cases n with
    | nil => exact absurd rfl hn
    | cons c cs => simp
  simp [hn]

theorem fmtLoop_syms : ∀ (ms : List Str) (st : FmtState) (n : Str),
    n ≠ [] → (∀ m ∈ ms, m ≠ []) → st.numeric = [] →
    fmtLoop st ((n :: ms).map Seg.sym) =
      some { st with symbolic := st.symbolic ++ (if st.symbolic ≠ [] then ['.'] else [])
                                    ++ dotted n ms } := by
  intro ms
  induction ms with
  | nil =>
    intro st n hn _ hnum
    simp only [List.map_cons, List.map_nil, fmtLoop, fmtStep_sym st n hn hnum, dotted]
  | cons m ms ih =>
    intro st n hn hms hnum
    rw [List.map_cons, fmtLoop, fmtStep_sym st n hn hnum]
    simp only
    have := ih { st with symbolic := st.symbolic ++ (if st.symbolic ≠ [] then ['.'] else []) ++ n } m
      (hms m (by simp)) (fun x hx => hms x (by simp [hx])) hnum
    rw [this]
    have hne : st.symbolic ++ (if st.symbolic ≠ [] then ['.'] else []) ++ n ≠ [] := by
      cases n with
      | nil => exact absurd rfl hn
      | cons c cs => simp
    simp [hn, dotted, List.append_assoc]

theorem dotted_ne_nil (n : Str) (ms : List Str) (hn : n ≠ []) : dotted n ms ≠ [] := by
  cases ms with
  | nil => simpa [dotted]
  | cons m ms =>
    cases n with
    | nil => exact absurd rfl hn
    | cons c cs => simp [dotted]

theorem formatPath_symbolic (n : Str) (ms : List Str) (hn : n ≠ []) (hms : ∀ m ∈ ms, m ≠ [])
    (elem count : Option Nat) (hc : ∀ c, count = some c → 0 < c) :
    formatPath ((n :: ms).map Seg.sym ++ elemSegs elem) (count.map fun c => (c : Int))
      = some (dotted n ms ++ bracketText elem count) := by
  have hd := dotted_ne_nil n ms hn
  have h := fmtLoop_syms ms {} n hn hms rfl
  have hsym : ([] ++ (if ([] : Str) ≠ [] then ['.'] else []) ++ dotted n ms) = dotted n ms := by simp
  rw [formatPath_with_elem _ _ h (by
    simp only [hsym]
    cases hdn : dotted n ms with
    | nil => exact absurd hdn hd
    | cons _ _ => rfl) rfl elem count hc]
  simp [pathOf, hd]

theorem stageSegs_name (n : Str) (h : n.head? ≠ some '@') : stageSegs n = Except.ok [Seg.sym n] := by
  unfold stageSegs
  split
  · rename_i rest
    exact absurd rfl h
  · rfl

theorem parseComponent_name (n : Str) (h : NameOk n) :
    parseComponent n none none = Except.ok ([Seg.sym n], none, none) := by
  have := parseComponent_bracket n [Seg.sym n] h.2.2.2.1 h.2.2.1 (stageSegs_name n h.2.2.2.2)
    none none (by simp)
  simpa [bracketText, countOut, finishComponent] using this

theorem splitAll_dotted (n : Str) (ms : List Str) (tail : Str) (hn : '.' ∉ n)
    (hms : ∀ m ∈ ms, '.' ∉ m) (ht : '.' ∉ tail) :
    ∃ init last, splitAll '.' (dotted n ms ++ tail) = init ++ [last ++ tail]
      ∧ init ++ [last] = n :: ms := by
  induction ms generalizing n with
  | nil =>
    refine ⟨[], n, ?_, rfl⟩
    simp only [dotted, List.nil_append]
    exact splitAll_none _ _ (by
      intro hm; rcases List.mem_append.mp hm with h | h
      · exact hn h
      · exact ht h)
  | cons m ms ih =>
    obtain ⟨init, last, h1, h2⟩ := ih m (hms m (by simp)) (fun x hx => hms x (by simp [hx]))
    refine ⟨n :: init, last, ?_, by simp [h2]⟩
    simp only [dotted, List.append_assoc, List.cons_append]
    rw [splitAll_append _ _ _ hn, h1]

theorem parseElementsGo_names (init : List Str) (last : Str)
    (hinit : ∀ m ∈ init, NameOk m)
    (r : List Seg × Option Int × Option Int)
    (hlast : parseComponent last none none = Except.ok r) :
    parseElementsGo none none (init ++ [last])
      = Except.ok (init.map Seg.sym ++ r.1, r.2.1, r.2.2) := by
  induction init with
  | nil => simpa [parseElementsGo] using hlast
  | cons m ms ih =>
    have hm := parseComponent_name m (hinit m (by simp))
    have ih' := ih (fun x hx => hinit x (by simp [hx]))
    cases hl : ms ++ [last] with
    | nil => simp at hl
    | cons x xs =>
      rw [hl] at ih'
      simp only [List.cons_append, hl, parseElementsGo, hm, ih']
      simp

/-- what a component parser does with `<base><tail>` for every base free of '*' and '[' -/
def TailParses (tail : Str) (E C : Option Int) : Prop :=
  ∀ (base : Str) (segs : List Seg), '*' ∉ base → '[' ∉ base → stageSegs base = Except.ok segs →
    parseComponent (base ++ tail) none none = Except.ok (finishComponent segs E C)

def withElem (segs : List Seg) (E : Option Int) : List Seg :=
  match E with
  | some e => segs ++ [elemSeg e]
  | none => segs

theorem parse_symbolic_tail (n : Str) (ms : List Str) (hok : ∀ m ∈ n :: ms, NameOk m)
    (tail : Str) (htail : '.' ∉ tail) (E C : Option Int) (hcomp : TailParses tail E C) :
    parsePathElements (dotted n ms ++ tail)
      = Except.ok (withElem ((n :: ms).map Seg.sym) E, E, C) := by
  obtain ⟨init, last, hsplit, hnames⟩ := splitAll_dotted n ms tail
    (hok n (by simp)).2.1 (fun m hm => (hok m (by simp [hm])).2.1) htail
  have hmem : ∀ x, x ∈ init ++ [last] → NameOk x := by
    intro x hx; rw [hnames] at hx; exact hok x hx
  have hlastok := hmem last (by simp)
  have hmap : (n :: ms).map Seg.sym = init.map Seg.sym ++ [Seg.sym last] := by
    rw [← hnames]; simp
  have hlast := hcomp last [Seg.sym last] hlastok.2.2.2.1 hlastok.2.2.1
    (stageSegs_name last hlastok.2.2.2.2)
  unfold parsePathElements
  rw [hsplit, hmap, parseElementsGo_names init (last ++ tail)
    (fun m hm => hmem m (by simp [hm])) _ hlast]
  cases E with
  | none => simp [finishComponent, withElem]
  | some e => simp [finishComponent, withElem, setElement, List.append_assoc]

theorem bracket_tail (elem count : Option Nat) (hc : ∀ c, count = some c → 0 < c) :
    TailParses (bracketText elem count) (elem.map fun e => (e : Int)) (countOut elem count) :=
  fun base segs h1 h2 hsegs => parseComponent_bracket base segs h1 h2 hsegs elem count hc

theorem star_tail (elem : Option Nat) (c : Nat) :
    TailParses (bracketText elem none ++ '*' :: decimal c) (elem.map fun e => (e : Int))
      (some (c : Int)) := by
  intro base segs h1 h2 hsegs
  have := parseComponent_star base segs h1 h2 hsegs elem c
  simpa [List.append_assoc] using this

theorem withElem_map (segs : List Seg) (elem : Option Nat) :
    withElem segs (elem.map fun e => (e : Int)) = segs ++ elemSegs elem := by
  cases elem <;> simp [withElem, elemSegs]

theorem parse_symbolic_text (n : Str) (ms : List Str) (hok : ∀ m ∈ n :: ms, NameOk m)
    (elem count : Option Nat) (hc : ∀ c, count = some c → 0 < c) :
    parsePathElements (dotted n ms ++ bracketText elem count)
      = Except.ok ((n :: ms).map Seg.sym ++ elemSegs elem, elem.map (fun e => (e : Int)),
                   countOut elem count) := by
  rw [parse_symbolic_tail n ms hok _
    (bracket_no '.' (by decide) (by decide) (by decide) (by decide) elem count) _ _
    (bracket_tail elem count hc), withElem_map]

/-- **a formatted symbolic path parses back** -/
theorem format_parse_symbolic (n : Str) (ms : List Str) (hok : ∀ m ∈ n :: ms, NameOk m)
    (elem count : Option Nat) (hc : ∀ c, count = some c → 0 < c) :
    ∃ text, formatPath ((n :: ms).map Seg.sym ++ elemSegs elem) (count.map fun c => (c : Int)) = some text
      ∧ parsePathElements text
          = Except.ok ((n :: ms).map Seg.sym ++ elemSegs elem, elem.map (fun e => (e : Int)),
                       countOut elem count) :=
  ⟨dotted n ms ++ bracketText elem count,
   formatPath_symbolic n ms (hok n (by simp)).1 (fun m hm => (hok m (by simp [hm])).1) elem count hc,
   parse_symbolic_text n ms hok elem count hc⟩

/-! ### numeric paths: class [/ instance [/ attribute]] -/

theorem hex04_plain (n : Nat) : ∀ c ∈ hex04 (n : Int), isSpecial c = false :=
  fun c hc => alnum_not_special c (hex04_alnum n c hc)

theorem not_mem_hex04 (n : Nat) (d : Char) (hd : isSpecial d = true) : d ∉ hex04 (n : Int) :=
  not_mem_of_plain _ (hex04_plain n) d hd

theorem hex04_not_brace (n : Nat) : startsWith (hex04 (n : Int)) '{' = false := by
  rw [hex04_nat]; rfl

theorem decimal_not_brace (n : Nat) : startsWith (decimal n) '{' = false := by
  cases h : decimal n with
  | nil => rfl
  | cons c cs =>
    have := decimal_plain n c (by simp [h])
    simp only [startsWith]
    cases hc : c == '{' with
    | false => rfl
    | true =>
      have hc' : c = '{' := beq_iff_eq.mp hc
      subst hc'
      revert this; decide

/-- the numbers after the class: instance, attribute -/
def moreSegs : Nat → List Nat → List Seg
  | _, [] => []
  | i, v :: vs => Seg.dict [(defaultKey i, (v : Int))] :: moreSegs (i + 1) vs

def moreText : List Nat → Str
  | [] => []
  | v :: vs => '/' :: decimal v ++ moreText vs

def stdSegs (c : Nat) (rest : List Nat) : List Seg :=
  Seg.dict [(kClass, (c : Int))] :: moreSegs 1 rest

def stdText (c : Nat) (rest : List Nat) : Str := '@' :: hex04 (c : Int) ++ moreText rest

theorem moreText_no (d : Char) (hd : isSpecial d = true) (h : d ≠ '/') (vs : List Nat) :
    d ∉ moreText vs := by
  induction vs with
  | nil => simp [moreText]
  | cons v vs ih =>
    intro hm
    simp only [moreText, List.mem_cons, List.mem_append] at hm
    rcases hm with (hm | hm) | hm
    · exact h hm
    · exact not_mem_decimal v d hd hm
    · exact ih hm

theorem stdText_no (d : Char) (hd : isSpecial d = true) (h : d ≠ '/') (h' : d ≠ '@') (c : Nat)
    (vs : List Nat) : d ∉ stdText c vs := by
  intro hm
  simp only [stdText, List.mem_cons, List.mem_append] at hm
  rcases hm with (hm | hm) | hm
  · exact h' hm
  · exact not_mem_hex04 c d hd hm
  · exact moreText_no d hd h vs hm

theorem splitAll_more (pre : Str) (hpre : '/' ∉ pre) (vs : List Nat) :
    splitAll '/' (pre ++ moreText vs) = pre :: vs.map decimal := by
  induction vs generalizing pre with
  | nil => simpa [moreText] using splitAll_none '/' pre hpre
  | cons v vs ih =>
    simp only [moreText, List.map_cons, List.cons_append]
    rw [splitAll_append _ _ _ hpre, ih (decimal v) (not_mem_decimal v '/' (by decide))]

theorem numericSegs_more (i : Nat) (vs : List Nat) (h : i + vs.length ≤ 4) :
    numericSegs i (vs.map decimal) = Except.ok (moreSegs i vs) := by
  induction vs generalizing i with
  | nil => rfl
  | cons v vs ih =>
    have hi : i < 4 := by simp at h; omega
    have := ih (i + 1) (by simp at h ⊢; omega)
    simp [numericSegs, numericSeg, decimal_not_brace, hi, parseInt_decimal, this, moreSegs]

theorem stageSegs_std (c : Nat) (vs : List Nat) (h : vs.length ≤ 3) :
    stageSegs (stdText c vs) = Except.ok (stdSegs c vs) := by
  simp only [stageSegs, stdText, List.cons_append]
  rw [splitAll_more _ (not_mem_hex04 c '/' (by decide))]
  have := numericSegs_more 1 vs (by omega)
  simp [numericSegs, numericSeg, hex04_not_brace, parseInt_hex04, this, stdSegs, defaultKey]

theorem setElement_more (s : Seg) (i : Nat) (vs : List Nat) (e : Int) (hi : i + vs.length ≤ 3)
    (hs : ∀ kvs, s = Seg.dict kvs → hasKey kElement kvs = false) :
    setElement (s :: moreSegs i vs) e = s :: moreSegs i vs ++ [elemSeg e] := by
  induction vs generalizing s i with
  | nil =>
    simp only [moreSegs, List.cons_append, List.nil_append]
    cases s with
    | sym n => rfl
    | dict kvs => simp [setElement, hs kvs rfl]
  | cons v vs ih =>
    simp only [moreSegs, setElement, List.cons_append]
    rw [ih _ (i + 1) (by simp at hi ⊢; omega)]
    · rfl
    · intro kvs hk
      injection hk with hk
      subst hk
      have : i ≤ 2 := by simp at hi; omega
      match i, this with
      | 0, _ => rfl
      | 1, _ => rfl
      | 2, _ => rfl

theorem format_numeric_text (c : Nat) (rest : List Nat) (hr : rest.length ≤ 2)
    (elem count : Option Nat) (hc : ∀ k, count = some k → 0 < k) :
    formatPath (stdSegs c rest ++ elemSegs elem) (count.map fun k => (k : Int))
      = some (stdText c rest ++ bracketText elem count) := by
  have hfmt : fmtLoop {} (stdSegs c rest)
      = some { symbolic := [], numeric := hex04 (c : Int) :: rest.map decimal, element := none } := by
    match rest, hr with
    | [], _ =>
      simp [stdSegs, moreSegs, fmtLoop, fmtStep, hasKey, getKey, kClass, kSymbolic]
    | [i], _ =>
      simp [stdSegs, moreSegs, defaultKey, fmtLoop, fmtStep, hasKey, getKey, kClass, kSymbolic,
        kInstance, decimalInt_nat]
    | [i, a], _ =>
      simp [stdSegs, moreSegs, defaultKey, fmtLoop, fmtStep, hasKey, getKey, kClass, kSymbolic,
        kInstance, kAttribute, decimalInt_nat]
  rw [formatPath_with_elem _ _ hfmt (by simp) rfl elem count hc]
  congr 1
  simp only [pathOf, ne_eq, not_true_eq_false, if_false, stdText]
  congr 1
  have : ∀ (pre : Str) (vs : List Nat), joinWith '/' (pre :: vs.map decimal) = pre ++ moreText vs := by
    intro pre vs
    induction vs generalizing pre with
    | nil => simp [joinWith, moreText]
    | cons v vs ih => simp [joinWith, moreText, ih (decimal v)]
  rw [this]
  rfl

theorem parse_numeric_tail (c : Nat) (rest : List Nat) (hr : rest.length ≤ 2)
    (tail : Str) (htail : '.' ∉ tail) (E C : Option Int) (hcomp : TailParses tail E C) :
    parsePathElements (stdText c rest ++ tail) = Except.ok (withElem (stdSegs c rest) E, E, C) := by
  unfold parsePathElements
  have hdot : '.' ∉ stdText c rest ++ tail := by
    intro hm
    rcases List.mem_append.mp hm with hm | hm
    · exact stdText_no '.' (by decide) (by decide) (by decide) c rest hm
    · exact htail hm
  rw [splitAll_none _ _ hdot]
  simp only [parseElementsGo]
  rw [hcomp (stdText c rest) (stdSegs c rest)
    (stdText_no '*' (by decide) (by decide) (by decide) c rest)
    (stdText_no '[' (by decide) (by decide) (by decide) c rest)
    (stageSegs_std c rest (by omega))]
  cases E with
  | none => rfl
  | some e =>
    have := setElement_more (Seg.dict [(kClass, (c : Int))]) 1 rest e (by omega)
      (by intro kvs hk; injection hk with hk; subst hk; rfl)
    simp only [stdSegs, finishComponent, withElem] at this ⊢
    rw [this]

theorem parse_numeric_text (c : Nat) (rest : List Nat) (hr : rest.length ≤ 2)
    (elem count : Option Nat) (hc : ∀ k, count = some k → 0 < k) :
    parsePathElements (stdText c rest ++ bracketText elem count)
      = Except.ok (stdSegs c rest ++ elemSegs elem, elem.map (fun e => (e : Int)),
                   countOut elem count) := by
  rw [parse_numeric_tail c rest hr _
    (bracket_no '.' (by decide) (by decide) (by decide) (by decide) elem count) _ _
    (bracket_tail elem count hc), withElem_map]

/-- **a formatted numeric path parses back** (`rest` = instance, attribute: at most two numbers) -/
theorem format_parse_numeric (c : Nat) (rest : List Nat) (hr : rest.length ≤ 2)
    (elem count : Option Nat) (hc : ∀ k, count = some k → 0 < k) :
    ∃ text, formatPath (stdSegs c rest ++ elemSegs elem) (count.map fun k => (k : Int)) = some text
      ∧ parsePathElements text
          = Except.ok (stdSegs c rest ++ elemSegs elem, elem.map (fun e => (e : Int)),
                       countOut elem count) :=
  ⟨stdText c rest ++ bracketText elem count, format_numeric_text c rest hr elem count hc,
   parse_numeric_text c rest hr elem count hc⟩

/-! ### both shapes -/

inductive PathBody
  | symbolic (n : Str) (ms : List Str)
  | numeric (c : Nat) (rest : List Nat)

def PathBody.segs : PathBody → List Seg
  | PathBody.symbolic n ms => (n :: ms).map Seg.sym
  | PathBody.numeric c rest => stdSegs c rest

def PathBody.text : PathBody → Str
  | PathBody.symbolic n ms => dotted n ms
  | PathBody.numeric c rest => stdText c rest

def PathBody.Ok : PathBody → Prop
  | PathBody.symbolic n ms => ∀ m ∈ n :: ms, NameOk m
  | PathBody.numeric _ rest => rest.length ≤ 2

instance (b : PathBody) : Decidable b.Ok := by
  cases b <;> simp only [PathBody.Ok] <;> infer_instance

theorem format_body (b : PathBody) (hb : b.Ok) (elem count : Option Nat)
    (hc : ∀ k, count = some k → 0 < k) :
    formatPath (b.segs ++ elemSegs elem) (count.map fun k => (k : Int))
      = some (b.text ++ bracketText elem count) := by
  cases b with
  | symbolic n ms =>
    exact formatPath_symbolic n ms (hb n (by simp)).1 (fun m hm => (hb m (by simp [hm])).1) elem count hc
  | numeric c rest => exact format_numeric_text c rest hb elem count hc

theorem parse_body_tail (b : PathBody) (hb : b.Ok) (tail : Str) (htail : '.' ∉ tail)
    (E C : Option Int) (hcomp : TailParses tail E C) :
    parsePathElements (b.text ++ tail) = Except.ok (withElem b.segs E, E, C) := by
  cases b with
  | symbolic n ms => exact parse_symbolic_tail n ms hb tail htail E C hcomp
  | numeric c rest => exact parse_numeric_tail c rest hb tail htail E C hcomp

theorem parse_body (b : PathBody) (hb : b.Ok) (elem count : Option Nat)
    (hc : ∀ k, count = some k → 0 < k) :
    parsePathElements (b.text ++ bracketText elem count)
      = Except.ok (b.segs ++ elemSegs elem, elem.map (fun e => (e : Int)), countOut elem count) := by
  cases b with
  | symbolic n ms => exact parse_symbolic_text n ms hb elem count hc
  | numeric c rest => exact parse_numeric_text c rest hb elem count hc

end Cpppo.Client
