import Cpppo.Model.Framing
/-! helper lemmas for C02 (framing) -/
namespace Cpppo.Framing
open Cpppo Cpppo.Bytes

theorem le_length (k n : Nat) : (le k n).length = k := by
  induction k generalizing n with
  | zero => simp [le]
  | succ k ih => simp [le, ih]

theorem leNat_le (k n : Nat) (h : n < 256 ^ k) : leNat (le k n) = n := by
  induction k generalizing n with
  | zero => simp [le, leNat]; simp at h; omega
  | succ k ih =>
    have h' : n / 256 < 256 ^ k := by
      apply Nat.div_lt_of_lt_mul
      rw [Nat.pow_succ] at h; rw [Nat.mul_comm]; exact h
    simp only [le, leNat, ih _ h']
    omega

theorem field_spec (pre x post : Bytes) (off n : Nat) (ho : pre.length = off) (hn : x.length = n) :
    field (pre ++ x ++ post) off n = x := by
  subst ho; subst hn
  simp [field]

theorem field_append (bs more : Bytes) (off n : Nat) (h : off + n ≤ bs.length) :
    field (bs ++ more) off n = field bs off n := by
  unfold field
  rw [List.drop_append_of_le_length (by omega), List.take_append_of_le_length (by simp; omega)]

theorem lengthField_append (bs more : Bytes) (h : 4 ≤ bs.length) :
    lengthField (bs ++ more) = lengthField bs := by
  unfold lengthField lengthOffset lengthWidth
  rw [field_append _ _ _ _ (by omega)]


theorem encodeHeader_length (f : RawFrame) (h : f.WF) : (encodeHeader f).length = headerSize := by
  obtain ⟨_, _, _, _, hc, _, _⟩ := h
  simp [encodeHeader, le_length, hc, headerSize]

theorem encodeRaw_length (f : RawFrame) (h : f.WF) : (encodeRaw f).length = f.size := by
  have := encodeHeader_length f h
  obtain ⟨_, _, _, _, _, _, hp⟩ := h
  simp [encodeRaw, RawFrame.size, this, hp]

theorem lengthField_encode (f : RawFrame) (h : f.WF) (rest : Bytes) :
    lengthField (encodeRaw f ++ rest) = f.length := by
  obtain ⟨_, hl, _, _, _, _, _⟩ := h
  unfold lengthField lengthOffset lengthWidth
  have : encodeRaw f ++ rest = le 2 f.command ++ le 2 f.length ++
      (le 4 f.session ++ le 4 f.status ++ f.context ++ le 4 f.options ++ f.payload ++ rest) := by
    simp [encodeRaw, encodeHeader, List.append_assoc]
  rw [this, field_spec _ _ _ 2 2 (le_length _ _) (le_length _ _), leNat_le 2 _ (by omega)]

theorem parseFrame_encode (f : RawFrame) (h : f.WF) : parseFrame (encodeRaw f) = f := by
  have hl := lengthField_encode f h []
  rw [List.append_nil] at hl
  obtain ⟨hc, _, hs, hst, hctx, ho, hp⟩ := h
  have e0 : encodeRaw f = [] ++ le 2 f.command ++
      (le 2 f.length ++ le 4 f.session ++ le 4 f.status ++ f.context ++ le 4 f.options ++ f.payload) := by
    simp [encodeRaw, encodeHeader, List.append_assoc]
  have e4 : encodeRaw f = (le 2 f.command ++ le 2 f.length) ++ le 4 f.session ++
      (le 4 f.status ++ f.context ++ le 4 f.options ++ f.payload) := by
    simp [encodeRaw, encodeHeader, List.append_assoc]
  have e8 : encodeRaw f = (le 2 f.command ++ le 2 f.length ++ le 4 f.session) ++ le 4 f.status ++
      (f.context ++ le 4 f.options ++ f.payload) := by
    simp [encodeRaw, encodeHeader, List.append_assoc]
  have e12 : encodeRaw f = (le 2 f.command ++ le 2 f.length ++ le 4 f.session ++ le 4 f.status) ++ f.context ++
      (le 4 f.options ++ f.payload) := by
    simp [encodeRaw, encodeHeader, List.append_assoc]
  have e20 : encodeRaw f = (le 2 f.command ++ le 2 f.length ++ le 4 f.session ++ le 4 f.status ++ f.context) ++
      le 4 f.options ++ f.payload := by
    simp [encodeRaw, encodeHeader, List.append_assoc]
  have e24 : encodeRaw f = (le 2 f.command ++ le 2 f.length ++ le 4 f.session ++ le 4 f.status ++ f.context ++
      le 4 f.options) ++ f.payload ++ [] := by
    simp [encodeRaw, encodeHeader, List.append_assoc]
  have f0 : field (encodeRaw f) 0 2 = le 2 f.command := by
    rw [e0]; exact field_spec _ _ _ _ _ rfl (le_length _ _)
  have f4 : field (encodeRaw f) 4 4 = le 4 f.session := by
    rw [e4]; exact field_spec _ _ _ _ _ (by simp [le_length]) (le_length _ _)
  have f8 : field (encodeRaw f) 8 4 = le 4 f.status := by
    rw [e8]; exact field_spec _ _ _ _ _ (by simp [le_length]) (le_length _ _)
  have f12 : field (encodeRaw f) 12 8 = f.context := by
    rw [e12]; exact field_spec _ _ _ _ _ (by simp [le_length]) hctx
  have f20 : field (encodeRaw f) 20 4 = le 4 f.options := by
    rw [e20]; exact field_spec _ _ _ _ _ (by simp [le_length, hctx]) (le_length _ _)
  have f24 : field (encodeRaw f) headerSize f.length = f.payload := by
    rw [e24]; exact field_spec _ _ _ _ _ (by simp [le_length, hctx, headerSize]) hp
  unfold parseFrame
  rw [hl, f0, f4, f8, f12, f20, f24, leNat_le 2 _ (by omega), leNat_le 4 _ (by omega),
    leNat_le 4 _ (by omega), leNat_le 4 _ (by omega)]

/-! ### `split1` -/

theorem split1_none_iff (bs : Bytes) :
    split1 bs = none ↔ (bs.length < headerSize ∨ bs.length < headerSize + lengthField bs) := by
  unfold split1; split <;> simp <;> omega

theorem split1_append (bs more : Bytes) (f : RawFrame) (rest : Bytes) (h : split1 bs = some (f, rest)) :
    split1 (bs ++ more) = some (f, rest ++ more) := by
  unfold split1 at h ⊢
  split at h
  · rename_i hc
    have h4 : 4 ≤ bs.length := by unfold headerSize at hc; omega
    rw [lengthField_append _ _ h4]
    rw [if_pos (by simp; omega)]
    rw [List.take_append_of_le_length hc.2, List.drop_append_of_le_length hc.2]
    simp only [Option.some.injEq, Prod.mk.injEq] at h ⊢
    exact ⟨h.1, by rw [h.2]⟩
  · simp at h

theorem split1_encode (f : RawFrame) (h : f.WF) (rest : Bytes) :
    split1 (encodeRaw f ++ rest) = some (f, rest) := by
  have hlen := encodeRaw_length f h
  have hl := lengthField_encode f h rest
  unfold split1
  rw [hl, if_pos (by simp [hlen, RawFrame.size]; omega)]
  have : headerSize + f.length = (encodeRaw f).length := by rw [hlen]; rfl
  rw [this, List.take_left', List.drop_left', parseFrame_encode f h]
  all_goals rfl

/-- what `split1` leaves is shorter by at least the header -/
theorem split1_length (bs : Bytes) (f : RawFrame) (rest : Bytes) (h : split1 bs = some (f, rest)) :
    rest.length + headerSize + f.length = bs.length ∧ f.length = lengthField bs := by
  unfold split1 at h
  split at h
  · rename_i hc
    simp only [Option.some.injEq, Prod.mk.injEq] at h
    obtain ⟨hf, hr⟩ := h
    subst hr
    have h4 : 4 ≤ (bs.take (headerSize + lengthField bs)).length := by
      simp [List.length_take]; unfold headerSize at hc ⊢; omega
    have : f.length = lengthField bs := by
      rw [← hf]; show lengthField _ = _
      have e : bs = bs.take (headerSize + lengthField bs) ++ bs.drop (headerSize + lengthField bs) :=
        (List.take_append_drop _ _).symm
      conv => rhs; rw [e]
      exact (lengthField_append _ _ h4).symm
    refine ⟨?_, this⟩
    rw [this]; simp [List.length_drop]; omega
  · simp at h


/-! ### `frames` -/

theorem split1_nil : split1 [] = none := by decide

theorem framesFuel_eq (a b : Nat) (bs : Bytes) (ha : bs.length ≤ a) (hb : bs.length ≤ b) :
    framesFuel a bs = framesFuel b bs := by
  induction a generalizing b bs with
  | zero =>
    have : bs = [] := List.eq_nil_of_length_eq_zero (by omega)
    subst this
    cases b <;> simp [framesFuel, split1_nil]
  | succ a ih =>
    cases b with
    | zero =>
      have : bs = [] := List.eq_nil_of_length_eq_zero (by omega)
      subst this
      simp [framesFuel, split1_nil]
    | succ b =>
      simp only [framesFuel]
      cases hs : split1 bs with
      | none => rfl
      | some fr =>
        obtain ⟨f, rest⟩ := fr
        have hl := (split1_length bs f rest hs).1
        unfold headerSize at hl
        simp only
        rw [ih b rest (by omega) (by omega)]

theorem frames_unfold (bs : Bytes) :
    frames bs = match split1 bs with
      | none => ([], bs)
      | some (f, rest) => (f :: (frames rest).1, (frames rest).2) := by
  unfold frames
  cases hn : bs.length with
  | zero =>
    have : bs = [] := List.eq_nil_of_length_eq_zero hn
    subst this
    simp [framesFuel, split1_nil]
  | succ n =>
    simp only [framesFuel]
    cases hs : split1 bs with
    | none => rfl
    | some fr =>
      obtain ⟨f, rest⟩ := fr
      have hl := (split1_length bs f rest hs).1
      unfold headerSize at hl
      simp only
      rw [framesFuel_eq n rest.length rest (by omega) (Nat.le_refl _)]

theorem frames_of_none (bs : Bytes) (h : split1 bs = none) : frames bs = ([], bs) := by
  rw [frames_unfold, h]

theorem frames_of_some (bs : Bytes) (f : RawFrame) (rest : Bytes) (h : split1 bs = some (f, rest)) :
    frames bs = (f :: (frames rest).1, (frames rest).2) := by
  rw [frames_unfold, h]

/-- strong induction on the stream along `split1` -/
theorem frames_induct {P : Bytes → Prop}
    (hnone : ∀ bs, split1 bs = none → P bs)
    (hsome : ∀ bs f rest, split1 bs = some (f, rest) → P rest → P bs) : ∀ bs, P bs := by
  intro bs
  generalize hn : bs.length = n
  induction n using Nat.strongRecOn generalizing bs with
  | _ n ih =>
    cases hs : split1 bs with
    | none => exact hnone bs hs
    | some fr =>
      obtain ⟨f, rest⟩ := fr
      have hl := (split1_length bs f rest hs).1
      unfold headerSize at hl
      exact hsome bs f rest hs (ih rest.length (by omega) rest rfl)

/-- the remainder left by `frames` holds no complete frame -/
theorem frames_residue (bs : Bytes) : split1 (frames bs).2 = none := by
  induction bs using frames_induct with
  | hnone bs h => rw [frames_of_none bs h]; exact h
  | hsome bs f rest h ih => rw [frames_of_some bs f rest h]; exact ih

/-- the bytes are accounted for: frames' sizes + remainder -/
theorem frames_length (bs : Bytes) :
    ((frames bs).1.map RawFrame.size).sum + (frames bs).2.length = bs.length := by
  induction bs using frames_induct with
  | hnone bs h => rw [frames_of_none bs h]; simp
  | hsome bs f rest h ih =>
    rw [frames_of_some bs f rest h]
    have hl := (split1_length bs f rest h).1
    simp only [List.map_cons, List.sum_cons, RawFrame.size]
    omega

/-- complete frames of `a` are complete frames of `a ++ b`; the remainder of `a` is carried over -/
theorem frames_append (a b : Bytes) :
    frames (a ++ b) = ((frames a).1 ++ (frames ((frames a).2 ++ b)).1, (frames ((frames a).2 ++ b)).2) := by
  induction a using frames_induct with
  | hnone a h => rw [frames_of_none a h]; simp
  | hsome a f rest h ih =>
    rw [frames_of_some _ f (rest ++ b) (split1_append a b f rest h), frames_of_some a f rest h, ih]
    simp

theorem frames_cons' (f : RawFrame) (h : f.WF) (rest : Bytes) :
    frames (encodeRaw f ++ rest) = (f :: (frames rest).1, (frames rest).2) :=
  frames_of_some _ f rest (split1_encode f h rest)

theorem encodeAll_cons (f : RawFrame) (fs : List RawFrame) :
    encodeAll (f :: fs) = encodeRaw f ++ encodeAll fs := by simp [encodeAll]

theorem encodeAll_append (a b : List RawFrame) : encodeAll (a ++ b) = encodeAll a ++ encodeAll b := by
  simp [encodeAll]

theorem frames_encodeAll_append (fs : List RawFrame) (h : ∀ f ∈ fs, f.WF) (rest : Bytes) :
    frames (encodeAll fs ++ rest) = (fs ++ (frames rest).1, (frames rest).2) := by
  induction fs with
  | nil => simp [encodeAll]
  | cons f fs ih =>
    rw [encodeAll_cons, List.append_assoc, frames_cons' f (h f (by simp)), ih (fun g hg => h g (by simp [hg]))]
    simp

/-- a strict prefix of a well-formed frame holds no complete frame -/
theorem split1_strict_prefix (f : RawFrame) (h : f.WF) (p : Bytes) (hp : p <+: encodeRaw f)
    (hne : p ≠ encodeRaw f) : split1 p = none := by
  obtain ⟨t, ht⟩ := hp
  have hlen := encodeRaw_length f h
  have htl : p.length + t.length = f.size := by rw [← hlen, ← ht]; simp
  have htpos : 0 < t.length := by
    rcases t with _ | ⟨x, t⟩
    · simp at ht; exact absurd ht hne
    · simp
  rw [split1_none_iff]
  by_cases h24 : p.length < headerSize
  · left; exact h24
  · right
    have h4 : 4 ≤ p.length := by unfold headerSize at h24; omega
    have : lengthField p = f.length := by
      rw [← lengthField_append p t h4, ht]
      have := lengthField_encode f h []
      rwa [List.append_nil] at this
    rw [this]; unfold RawFrame.size at htl; omega

/-! ### the byte machine -/

theorem mrun_append (acc a b : Bytes) :
    mrun acc (a ++ b) = ((mrun acc a).1 ++ (mrun (mrun acc a).2 b).1, (mrun (mrun acc a).2 b).2) := by
  induction a generalizing acc with
  | nil => simp [mrun]
  | cons x a ih =>
    simp only [List.cons_append, mrun]
    cases hm : mstep acc x with
    | mk acc' o =>
      cases o with
      | none => simp only [ih]
      | some f => simp only [ih, List.cons_append]

theorem mrunAll_eq (acc : Bytes) (cs : List Bytes) : mrunAll acc cs = mrun acc cs.flatten := by
  induction cs generalizing acc with
  | nil => simp [mrunAll, mrun]
  | cons c cs ih => simp only [mrunAll, List.flatten_cons, mrun_append, ih]

theorem complete_iff (acc : Bytes) :
    complete acc = true ↔ headerSize ≤ acc.length ∧ acc.length = headerSize + lengthField acc := by
  simp [complete]

/-- the machine, started between frames or inside one, delivers exactly the frames of the specification -/
theorem mrun_eq_frames (acc bs : Bytes) (h : split1 acc = none) : mrun acc bs = frames (acc ++ bs) := by
  induction bs generalizing acc with
  | nil => simp [mrun, frames_of_none acc h]
  | cons b bs ih =>
    have hassoc : acc ++ b :: bs = (acc ++ [b]) ++ bs := by simp
    simp only [mrun, mstep]
    by_cases hc : complete (acc ++ [b]) = true
    · rw [if_pos hc]
      simp only
      obtain ⟨h24, hlen⟩ := (complete_iff _).mp hc
      have hs : split1 (acc ++ [b]) = some (parseFrame (acc ++ [b]), []) := by
        unfold split1
        rw [if_pos ⟨h24, by omega⟩, ← hlen, List.take_length, List.drop_length]
      rw [hassoc, frames_of_some _ _ _ (split1_append _ bs _ _ hs), ih [] split1_nil]
    · rw [if_neg hc]
      simp only
      have hn : split1 (acc ++ [b]) = none := by
        rw [split1_none_iff] at h ⊢
        rw [complete_iff] at hc
        have hl : (acc ++ [b]).length = acc.length + 1 := by simp
        by_cases h24 : (acc ++ [b]).length < headerSize
        · left; exact h24
        · right
          rcases h with h | h
          · omega
          · have h4 : 4 ≤ acc.length := by unfold headerSize at h24; omega
            rw [lengthField_append acc [b] h4] at hc ⊢
            omega
      rw [hassoc, ih _ hn]

/-! ### serving -/

section
variable {S R : Type} (step : S → RawFrame → S × Option R × Bool)

theorem serveFrames_append (s : S) (a b : List RawFrame) :
    serveFrames step s (a ++ b) =
      if (serveFrames step s a).2.2 then
        ((serveFrames step (serveFrames step s a).1 b).1,
         (serveFrames step s a).2.1 ++ (serveFrames step (serveFrames step s a).1 b).2.1,
         (serveFrames step (serveFrames step s a).1 b).2.2)
      else serveFrames step s a := by
  induction a generalizing s with
  | nil => simp [serveFrames]
  | cons f a ih =>
    simp only [List.cons_append, serveFrames]
    by_cases hc : (step s f).2.2 = true
    · simp only [hc, if_true, ih]
      split <;> simp
    · simp [hc]

theorem foldl_recv_dead (c : Conn S R) (h : c.alive = false) (cs : List Bytes) :
    cs.foldl (Conn.recv step) c = c := by
  induction cs with
  | nil => rfl
  | cons x cs ih => simp only [List.foldl_cons, Conn.recv, h, Bool.false_eq_true, if_false, ih]

/-- invariant of the receive loop -/
theorem foldl_recv (c : Conn S R) (halive : c.alive = true) (hacc : split1 c.acc = none) (cs : List Bytes) :
    let r := frames (c.acc ++ cs.flatten)
    let t := serveFrames step c.st r.1
    let c' := cs.foldl (Conn.recv step) c
    c'.st = t.1 ∧ c'.replies = c.replies ++ t.2.1 ∧ c'.alive = t.2.2 ∧ (t.2.2 = true → c'.acc = r.2) := by
  induction cs generalizing c with
  | nil =>
    simp only [List.flatten_nil, List.append_nil, List.foldl_nil, frames_of_none _ hacc, serveFrames]
    simp [halive]
  | cons x cs ih =>
    simp only [List.foldl_cons, List.flatten_cons]
    rw [← List.append_assoc, frames_append (c.acc ++ x) cs.flatten]
    have hm : mrun c.acc x = frames (c.acc ++ x) := mrun_eq_frames _ _ hacc
    generalize hc1 : Conn.recv step c x = c1
    have hc1' : c1 = { st := (serveFrames step c.st (frames (c.acc ++ x)).1).1, acc := (frames (c.acc ++ x)).2,
                        replies := c.replies ++ (serveFrames step c.st (frames (c.acc ++ x)).1).2.1,
                        alive := (serveFrames step c.st (frames (c.acc ++ x)).1).2.2 } := by
      rw [← hc1]; simp only [Conn.recv, halive, if_true, hm]
    simp only [serveFrames_append]
    by_cases hal : (serveFrames step c.st (frames (c.acc ++ x)).1).2.2 = true
    · have h1 : c1.alive = true := by rw [hc1']; exact hal
      have h2 : split1 c1.acc = none := by rw [hc1']; exact frames_residue _
      have := ih c1 h1 h2
      simp only [hc1'] at this
      rw [if_pos hal]
      simp only [hc1']
      obtain ⟨a1, a2, a3, a4⟩ := this
      refine ⟨a1, ?_, a3, a4⟩
      rw [a2, List.append_assoc]
    · have h1 : c1.alive = false := by rw [hc1']; simpa using hal
      rw [foldl_recv_dead step c1 h1, if_neg hal]
      simp only [hc1']
      refine ⟨trivial, trivial, trivial, ?_⟩
      intro h; exact absurd h hal

theorem trace_getElem (c : Conn S R) (cs : List Bytes) (i : Nat) (h : i < cs.length) :
    (Conn.trace step c cs)[i]? = some ((cs.take (i + 1)).foldl (Conn.recv step) c) := by
  induction cs generalizing c i with
  | nil => simp at h
  | cons x cs ih =>
    cases i with
    | zero => simp [Conn.trace]
    | succ i =>
      simp only [Conn.trace, List.getElem?_cons_succ, List.take_succ_cons, List.foldl_cons]
      exact ih _ i (by simpa using h)

theorem trace_length (c : Conn S R) (cs : List Bytes) : (Conn.trace step c cs).length = cs.length := by
  induction cs generalizing c with
  | nil => rfl
  | cons x cs ih => simp [Conn.trace, ih]

end

/-! ### counting complete frames -/

def sizeAll (fs : List RawFrame) : Nat := (fs.map RawFrame.size).sum

theorem encodeAll_length (fs : List RawFrame) (h : ∀ f ∈ fs, f.WF) : (encodeAll fs).length = sizeAll fs := by
  induction fs with
  | nil => simp [encodeAll, sizeAll]
  | cons f fs ih =>
    rw [encodeAll_cons, List.length_append, encodeRaw_length f (h f (by simp)),
      ih (fun g hg => h g (by simp [hg]))]
    simp [sizeAll]

theorem nComplete_le (fs : List RawFrame) (k : Nat) : nComplete fs k ≤ fs.length := by
  induction fs generalizing k with
  | nil => simp [nComplete]
  | cons f fs ih =>
    simp only [nComplete]; split
    · have := ih (k - f.size); simp; omega
    · simp

/-- the complete frames in the first `k` bytes of a stream of frames, and what is left over -/
theorem frames_take (fs : List RawFrame) (h : ∀ f ∈ fs, f.WF) (k : Nat) :
    frames ((encodeAll fs).take k) =
      (fs.take (nComplete fs k),
       (encodeAll (fs.drop (nComplete fs k))).take (k - sizeAll (fs.take (nComplete fs k)))) := by
  induction fs generalizing k with
  | nil => simp [encodeAll, nComplete, frames_of_none _ split1_nil]
  | cons f fs ih =>
    have hf := h f (by simp)
    have hlen := encodeRaw_length f hf
    rw [encodeAll_cons, List.take_append, hlen]
    simp only [nComplete]
    by_cases hk : f.size ≤ k
    · rw [if_pos hk, List.take_of_length_le (by omega), frames_cons' f hf,
        ih (fun g hg => h g (by simp [hg]))]
      simp only [List.take_succ_cons, List.drop_succ_cons, sizeAll, List.map_cons, List.sum_cons]
      congr 2
      omega
    · rw [if_neg hk]
      have h0 : k - f.size = 0 := by omega
      rw [h0]
      simp only [List.take_zero, List.append_nil, List.drop_zero, sizeAll, List.map_nil, List.sum_nil,
        Nat.sub_zero]
      have hp : split1 ((encodeRaw f).take k) = none := by
        apply split1_strict_prefix f hf _ (List.take_prefix _ _)
        intro he
        have := congrArg List.length he
        simp [hlen] at this; omega
      rw [frames_of_none _ hp, encodeAll_cons, List.take_append, hlen, h0]
      simp

theorem nComplete_iff (fs : List RawFrame) (k i : Nat) :
    i < nComplete fs k ↔ i < fs.length ∧ endOffset fs i ≤ k := by
  induction fs generalizing k i with
  | nil => simp [nComplete]
  | cons f fs ih =>
    simp only [nComplete]
    cases i with
    | zero =>
      simp only [endOffset, List.length_cons]
      split <;> omega
    | succ i =>
      simp only [endOffset, List.length_cons]
      split
      · rename_i hk
        have := ih (k - f.size) i
        constructor
        · intro hlt
          have := this.mp (by omega)
          omega
        · intro hh
          have := this.mpr ⟨by omega, by omega⟩
          omega
      · omega

end Cpppo.Framing
