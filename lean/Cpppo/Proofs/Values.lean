import Cpppo.Proofs.Reply
/-! Elements survive the wire: `decodeVals` inverts the concatenation of `Val.encode`. -/
namespace Cpppo.Interop
open Cpppo Cpppo.Logix Cpppo.Fields

/-- one element survives the wire (decidable) -/
def wireOk (t : CipType) (v : Val) : Bool :=
  match Val.encode t v with
  | some b => decodeVals t b == some [v]
  | none => false

/-! ### fixed-size chunks -/

theorem chunks_fuel (k : Nat) (hk : 0 < k) (f1 f2 : Nat) (bs : Bytes) (h1 : bs.length ≤ f1) (h2 : bs.length ≤ f2) :
    chunks k f1 bs = chunks k f2 bs := by
  induction f1 generalizing f2 bs with
  | zero =>
    have : bs = [] := List.length_eq_zero_iff.mp (by omega)
    subst this
    cases f2 <;> simp [chunks]
  | succ f1 ih =>
    cases f2 with
    | zero =>
      have : bs = [] := List.length_eq_zero_iff.mp (by omega)
      subst this; simp [chunks]
    | succ f2 =>
      simp only [chunks]
      split
      · rfl
      · rename_i hne
        split
        · rfl
        · rename_i hlen
          have hpos : 0 < bs.length := by
            cases bs with
            | nil => simp at hne
            | cons => simp
          rw [ih f2 (bs.drop k) (by simp; omega) (by simp; omega)]

theorem chunks_cons (k : Nat) (hk : 0 < k) (b rest : Bytes) (hb : b.length = k) :
    chunks k (b ++ rest).length (b ++ rest) = (chunks k rest.length rest).map (b :: ·) := by
  have hl : (b ++ rest).length = (k - 1 + rest.length) + 1 := by simp [hb]; omega
  rw [hl]
  simp only [chunks]
  have hne : (b ++ rest).isEmpty = false := by
    cases b with
    | nil => simp at hb; omega
    | cons => rfl
  simp only [hne, Bool.false_eq_true, ↓reduceIte]
  have : ¬ ((b ++ rest).length < k ∨ k = 0) := by simp [hb]; omega
  rw [if_neg this]
  have hd : (b ++ rest).drop k = rest := by rw [← hb]; simp
  have ht : (b ++ rest).take k = b := by rw [← hb]; simp
  rw [hd, ht, chunks_fuel k hk (k - 1 + rest.length) rest.length rest (by omega) (Nat.le_refl _)]

/-- decoding by fixed-size chunks -/
def decodeFixed (k : Nat) (f : Bytes → Val) (bs : Bytes) : Option (List Val) :=
  (chunks k bs.length bs).map (·.map f)

theorem decodeFixed_cons (k : Nat) (hk : 0 < k) (f : Bytes → Val) (b rest : Bytes) (hb : b.length = k) :
    decodeFixed k f (b ++ rest) = (decodeFixed k f rest).map (f b :: ·) := by
  unfold decodeFixed
  rw [chunks_cons k hk b rest hb]
  cases chunks k rest.length rest <;> simp

theorem decodeFixed_single (k : Nat) (hk : 0 < k) (f : Bytes → Val) (b : Bytes) (hb : b.length = k) :
    decodeFixed k f b = some [f b] := by
  have := decodeFixed_cons k hk f b [] hb
  simp only [List.append_nil] at this
  rw [this]
  simp [decodeFixed, chunks]

/-- the non-BOOL fixed-size types decode chunk by chunk -/
def chunkFn : CipType → Option (Nat × (Bytes → Val))
  | .real => some (4, fun c => .f32 (Float'.quiet32 (Bytes.leNat c)))
  | .lreal => some (8, fun c => .f64 (Bytes.leNat c))
  | .sstring | .string | .bool => none
  | t => some (t.size, fun c => .int (Bytes.unpackInt t.signed t.size c))

theorem decodeVals_fixed (t : CipType) (k : Nat) (f : Bytes → Val) (h : chunkFn t = some (k, f)) (bs : Bytes) :
    decodeVals t bs = decodeFixed k f bs ∧ 0 < k := by
  cases t <;> simp only [chunkFn, Option.some.injEq, Prod.mk.injEq] at h <;>
    first
    | (obtain ⟨rfl, rfl⟩ := h; exact ⟨rfl, by decide⟩)
    | simp at h

theorem packInt_length (s : Bool) (k : Nat) (i : Int) (b : Bytes) (h : Bytes.packInt s k i = some b) : b.length = k := by
  unfold Bytes.packInt at h
  split at h <;> split at h <;> simp at h <;> subst h <;> exact le_length _ _

theorem encode_length (t : CipType) (k : Nat) (f : Bytes → Val) (h : chunkFn t = some (k, f)) (v : Val) (b : Bytes)
    (he : Val.encode t v = some b) : b.length = k := by
  cases t <;> simp only [chunkFn, Option.some.injEq, Prod.mk.injEq] at h <;>
    first
    | simp at h
    | (obtain ⟨rfl, rfl⟩ := h
       cases v <;> simp only [Val.encode, CipType.isInt, Bool.false_eq_true, ↓reduceIte] at he <;>
         first
         | (subst he; exact le_length _ _)
         | exact packInt_length _ _ _ _ he
         | (simp only [Option.some.injEq] at he; subst he; exact le_length _ _)
         | simp at he)

theorem mapM_cons_some {α β : Type} {f : α → Option β} {x : α} {xs : List α} {ys : List β}
    (h : (x :: xs).mapM f = some ys) : ∃ y ys', f x = some y ∧ xs.mapM f = some ys' ∧ ys = y :: ys' := by
  simp only [List.mapM_cons, Option.bind_eq_bind, Option.bind_eq_some_iff] at h
  obtain ⟨y, hy, ys', hys, h⟩ := h
  simp only [Option.pure_def, Option.some.injEq] at h
  exact ⟨y, ys', hy, hys, h.symm⟩

theorem valsOk_fixed (t : CipType) (k : Nat) (f : Bytes → Val) (hcf : chunkFn t = some (k, f)) :
    ∀ vs : List Val, (∀ v ∈ vs, wireOk t v = true) → ValsOk t vs := by
  have hk := fun bs => decodeVals_fixed t k f hcf bs
  intro vs
  induction vs with
  | nil => intro _ chunks hm; simp at hm; subst hm; rw [(hk _).1]; simp [decodeFixed, chunks]
  | cons v rest ih =>
    intro h chunks hm
    obtain ⟨b, bs, hb, hbs, rfl⟩ := mapM_cons_some hm
    have hlen := encode_length t k f hcf v b hb
    have hv := h v (by simp)
    simp only [wireOk, hb, beq_iff_eq] at hv
    rw [(hk b).1, decodeFixed_single k (hk b).2 f b hlen] at hv
    simp only [Option.some.injEq, List.cons.injEq, and_true] at hv
    have hr := ih (fun x hx => h x (by simp [hx])) bs hbs
    simp only [List.flatten_cons]
    rw [(hk _).1, decodeFixed_cons k (hk b).2 f b _ hlen, ← (hk _).1, hr, hv]
    rfl

theorem valsOk_bool : ∀ vs : List Val, (∀ v ∈ vs, wireOk .bool v = true) → ValsOk .bool vs := by
  intro vs
  induction vs with
  | nil => intro _ chunks hm; simp at hm; subst hm; rfl
  | cons v rest ih =>
    intro h chunks hm
    obtain ⟨b, bs, hb, hbs, rfl⟩ := mapM_cons_some hm
    have hv := h v (by simp)
    simp only [wireOk, hb, beq_iff_eq, decodeVals, Option.some.injEq] at hv
    have hr := ih (fun x hx => h x (by simp [hx])) bs hbs
    simp only [decodeVals, Option.some.injEq] at hr ⊢
    simp only [List.flatten_cons, List.map_append, hr, hv]
    rfl

/-! ### strings -/

theorem decodeStrs_fuel (t : CipType) (f1 f2 : Nat) (bs : Bytes) (h1 : bs.length ≤ f1) (h2 : bs.length ≤ f2) :
    decodeStrs t f1 bs = decodeStrs t f2 bs := by
  induction f1 generalizing f2 bs with
  | zero =>
    have : bs = [] := List.length_eq_zero_iff.mp (by omega)
    subst this
    cases f2 <;> simp [decodeStrs]
  | succ f1 ih =>
    cases f2 with
    | zero =>
      have : bs = [] := List.length_eq_zero_iff.mp (by omega)
      subst this; simp [decodeStrs]
    | succ f2 =>
      simp only [decodeStrs]
      split
      · rfl
      · rename_i hne
        cases hd : decodeStr t bs with
        | none => rfl
        | some sr =>
          obtain ⟨s, r⟩ := sr
          have hr : r.length < bs.length := by
            cases t with
            | sstring =>
              cases bs with
              | nil => simp [decodeStr] at hd
              | cons n rest =>
                simp only [decodeStr] at hd
                split at hd
                · simp at hd
                · simp only [Option.some.injEq, Prod.mk.injEq] at hd
                  obtain ⟨_, rfl⟩ := hd
                  simp; omega
            | string =>
              match bs, hd with
              | [], hd => simp [decodeStr] at hd
              | [_], hd => simp [decodeStr] at hd
              | a :: b :: rest, hd =>
                simp only [decodeStr] at hd
                split at hd
                · simp at hd
                · simp only [Option.some.injEq, Prod.mk.injEq] at hd
                  obtain ⟨_, rfl⟩ := hd
                  simp; omega
            | _ => simp [decodeStr] at hd
          simp only
          rw [ih f2 r (by omega) (by omega)]

theorem decodeStrs_cons (t : CipType) (b rest : Bytes) (s : Bytes) (hb : b ≠ [])
    (hd : decodeStr t (b ++ rest) = some (s, rest)) :
    decodeStrs t (b ++ rest).length (b ++ rest) = (decodeStrs t rest.length rest).map (.str s :: ·) := by
  have hl : (b ++ rest).length = (b.length - 1 + rest.length) + 1 := by
    cases b with
    | nil => exact absurd rfl hb
    | cons x xs => simp
  rw [hl]
  simp only [decodeStrs]
  have hne : (b ++ rest).isEmpty = false := by
    cases b with
    | nil => exact absurd rfl hb
    | cons => rfl
  simp only [hne, Bool.false_eq_true, ↓reduceIte, hd]
  rw [decodeStrs_fuel t (b.length - 1 + rest.length) rest.length rest (by omega) (Nat.le_refl _)]

theorem decodeStr_enc (t : CipType) (hs : t.isString = true) (v : Val) (b rest : Bytes) (he : Val.encode t v = some b) :
    ∃ s, v = .str s ∧ b ≠ [] ∧ decodeStr t (b ++ rest) = some (s, rest) := by
  cases t <;> simp [CipType.isString] at hs
  · -- sstring
    cases v with
    | str s =>
      simp only [Val.encode] at he
      by_cases hlen : s.length < 256
      · rw [if_pos hlen] at he
        simp only [Option.some.injEq] at he; subst he
        refine ⟨s, rfl, by simp, ?_⟩
        simp [decodeStr]
      · rw [if_neg hlen] at he; simp at he
    | _ => simp [Val.encode, CipType.isInt] at he
  · -- string
    cases v with
    | str s =>
      simp only [Val.encode] at he
      by_cases hlen : s.length < 65536
      · rw [if_pos hlen] at he
        simp only [Option.some.injEq] at he; subst he
        refine ⟨s, rfl, ?_, ?_⟩
        · simp [Bytes.le]
        · have hmod : s.length % 256 + 256 * (s.length / 256 % 256) = s.length := by omega
          simp only [Bytes.le, List.cons_append, List.nil_append, List.append_assoc, decodeStr, hmod]
          have hlt : ¬ (s ++ ((if s.length % 2 = 1 then [0] else []) ++ rest)).length < s.length + s.length % 2 := by
            simp only [List.length_append]; split <;> simp <;> omega
          rw [if_neg hlt]
          congr 2
          · simp
          · rw [← List.append_assoc, List.drop_append]
            have : (s ++ if s.length % 2 = 1 then [0] else []).length = s.length + s.length % 2 := by
              simp only [List.length_append]; split <;> simp <;> omega
            rw [← this]; simp
      · rw [if_neg hlen] at he; simp at he
    | _ => simp [Val.encode, CipType.isInt] at he

theorem valsOk_str (t : CipType) (hs : t.isString = true) :
    ∀ vs : List Val, (∀ v ∈ vs, wireOk t v = true) → ValsOk t vs := by
  have hdv : ∀ bs, decodeVals t bs = decodeStrs t bs.length bs := by
    intro bs; cases t <;> simp [CipType.isString] at hs <;> rfl
  intro vs
  induction vs with
  | nil => intro _ chunks hm; simp at hm; subst hm; rw [hdv]; simp [decodeStrs]
  | cons v rest ih =>
    intro h chunks hm
    obtain ⟨b, bs, hb, hbs, rfl⟩ := mapM_cons_some hm
    obtain ⟨s, rfl, hne, hd⟩ := decodeStr_enc t hs v b bs.flatten hb
    have hr := ih (fun x hx => h x (by simp [hx])) bs hbs
    simp only [List.flatten_cons]
    rw [hdv, decodeStrs_cons t b _ s hne hd, ← hdv, hr]
    rfl

/-- **the elements of a reply survive the wire** when each of them does -/
theorem valsOk_of_wireOk (t : CipType) (vs : List Val) (h : ∀ v ∈ vs, wireOk t v = true) : ValsOk t vs := by
  cases hcf : chunkFn t with
  | some kf => exact valsOk_fixed t kf.1 kf.2 hcf vs h
  | none =>
    cases t <;> simp [chunkFn] at hcf
    · exact valsOk_bool vs h
    · exact valsOk_str .sstring rfl vs h
    · exact valsOk_str .string rfl vs h

end Cpppo.Interop
