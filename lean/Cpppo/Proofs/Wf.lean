import Cpppo.Proofs.Fields
import Cpppo.Model.RefCodec
/-! What the reference encoder emits are bytes: every element of the frame is below 256. -/
namespace Cpppo.Interop
open Cpppo Cpppo.Logix Cpppo.Fields

theorem wf_append {a b : Bytes} (ha : a.wf = true) (hb : b.wf = true) : (a ++ b).wf = true := by
  simp only [Bytes.wf, List.all_append, Bool.and_eq_true] at *; exact ⟨ha, hb⟩

theorem wf_cons {x : Nat} {b : Bytes} (hx : x < 256) (hb : b.wf = true) : Bytes.wf (x :: b) = true := by
  simp only [Bytes.wf, List.all_cons, Bool.and_eq_true, decide_eq_true_eq] at *; exact ⟨hx, hb⟩

theorem wf_nil : Bytes.wf [] = true := rfl

theorem wf_le (k n : Nat) : (Bytes.le k n).wf = true := le_wf k n

theorem encNum_wf {t n : Nat} {w : Bool} {b : Bytes} (ht : t + 2 < 256) (h : Ref.encNum t n w = some b) : b.wf = true := by
  unfold Ref.encNum at h
  split at h
  · simp only [Option.some.injEq] at h; subst h
    exact wf_cons (by omega) (wf_cons (by omega) wf_nil)
  · split at h
    · simp only [Option.some.injEq] at h; subst h
      exact wf_append (wf_cons (by omega) (wf_cons (by omega) wf_nil)) (wf_le _ _)
    · split at h
      · simp only [Option.some.injEq] at h; subst h
        exact wf_append (wf_cons (by omega) (wf_cons (by omega) wf_nil)) (wf_le _ _)
      · simp at h

theorem encSeg_wf {s : Seg} {b : Bytes} (h : Ref.encSeg s = some b) : b.wf = true := by
  cases s with
  | symbolic str =>
    simp only [Ref.encSeg] at h
    split at h
    · rename_i hc
      simp only [Option.some.injEq] at h; subst h
      refine wf_append (wf_append (wf_cons (by omega) (wf_cons hc.2.1 wf_nil)) ?_) ?_
      · exact hc.2.2
      · split <;> decide
    · simp at h
  | cls n => exact encNum_wf (by decide) h
  | ins n => exact encNum_wf (by decide) h
  | attr n => exact encNum_wf (by decide) h
  | elem n => exact encNum_wf (by decide) h
  | other => simp [Ref.encSeg] at h

theorem encSegs_wf {p : Path} {b : Bytes} (h : Ref.encSegs p = some b) : b.wf = true := by
  induction p generalizing b with
  | nil => simp [Ref.encSegs] at h; subst h; rfl
  | cons s rest ih =>
    simp only [Ref.encSegs] at h
    split at h
    · rename_i a b' ha hb
      simp only [Option.some.injEq] at h; subst h
      exact wf_append (encSeg_wf ha) (ih hb)
    · simp at h

theorem encEpath_wf {p : Path} {e : Bytes} (h : Ref.encEpath p = some e) : e.wf = true := by
  unfold Ref.encEpath at h
  split at h
  · simp at h
  · rename_i b hb
    split at h
    · simp only [Option.some.injEq] at h; subst h
      exact wf_cons (by omega) (encSegs_wf hb)
    · simp at h

theorem encSimple_wf {s : Simple} {b : Bytes} (h : Ref.encSimple s = some b) : b.wf = true := by
  cases s <;> simp only [Ref.encSimple] at h
  case readTag p n =>
    split at h
    · rename_i e he
      split at h
      · simp only [Option.some.injEq] at h; subst h
        exact wf_append (wf_append (wf_cons (by decide) wf_nil) (encEpath_wf he)) (wf_le _ _)
      · simp at h
    · simp at h
  case readFrag p n off =>
    split at h
    · rename_i e he
      split at h
      · simp only [Option.some.injEq] at h; subst h
        exact wf_append (wf_append (wf_append (wf_cons (by decide) wf_nil) (encEpath_wf he)) (wf_le _ _)) (wf_le _ _)
      · simp at h
    · simp at h
  case writeTag p ty n data =>
    split at h
    · rename_i e he
      split at h
      · rename_i hc
        simp only [Option.some.injEq] at h; subst h
        exact wf_append (wf_append (wf_append (wf_append (wf_cons (by decide) wf_nil) (encEpath_wf he)) (wf_le _ _)) (wf_le _ _)) hc.2.2
      · simp at h
    · simp at h
  case writeFrag p ty n off data =>
    split at h
    · rename_i e he
      split at h
      · rename_i hc
        simp only [Option.some.injEq] at h; subst h
        exact wf_append (wf_append (wf_append (wf_append (wf_append (wf_cons (by decide) wf_nil) (encEpath_wf he))
          (wf_le _ _)) (wf_le _ _)) (wf_le _ _)) hc.2.2.2
      · simp at h
    · simp at h
  all_goals simp at h

theorem flatten_wf {ms : List Bytes} (h : ∀ m ∈ ms, m.wf = true) : Bytes.wf ms.flatten = true := by
  induction ms with
  | nil => rfl
  | cons m rest ih =>
    simp only [List.flatten_cons]
    exact wf_append (h m (by simp)) (ih (fun x hx => h x (by simp [hx])))

theorem encSimples_wf {ss : List Simple} {ms : List Bytes} (h : Ref.encSimples ss = some ms) : ∀ m ∈ ms, m.wf = true := by
  induction ss generalizing ms with
  | nil => simp [Ref.encSimples] at h; subst h; simp
  | cons s rest ih =>
    simp only [Ref.encSimples] at h
    split at h
    · rename_i a b ha hb
      simp only [Option.some.injEq] at h; subst h
      intro m hm
      simp only [List.mem_cons] at hm
      rcases hm with rfl | hm
      · exact encSimple_wf ha
      · exact ih hb m hm
    · simp at h

theorem encTable_wf {ms : List Bytes} (h : ∀ m ∈ ms, m.wf = true) : (Ref.encTable ms).wf = true := by
  unfold Ref.encTable
  refine wf_append (wf_append (wf_le _ _) ?_) (flatten_wf h)
  apply flatten_wf
  intro m hm
  simp only [List.mem_map] at hm
  obtain ⟨o, _, rfl⟩ := hm
  exact wf_le _ _

theorem encReq_wf {r : Req} {b : Bytes} (h : Ref.encReq r = some b) : b.wf = true := by
  cases r with
  | simple s => exact encSimple_wf h
  | multiple p ss =>
    simp only [Ref.encReq] at h
    split at h
    · rename_i e ms he hms
      split at h
      · simp only [Option.some.injEq] at h; subst h
        exact wf_append (wf_append (wf_cons (by decide) wf_nil) (encEpath_wf he)) (encTable_wf (encSimples_wf hms))
      · simp at h
    · simp at h

theorem encPorts_wf {ports : List (Nat × Nat)} {b : Bytes} (h : Ref.encPorts ports = some b) : b.wf = true := by
  induction ports generalizing b with
  | nil => simp [Ref.encPorts] at h; subst h; rfl
  | cons x rest ih =>
    obtain ⟨p, l⟩ := x
    simp only [Ref.encPorts] at h
    split at h
    · rename_i b' hb
      split at h
      · rename_i hc
        simp only [Option.some.injEq] at h; subst h
        exact wf_cons (by omega) (wf_cons hc.2.2 (ih hb))
      · simp at h
    · simp at h

theorem encFrame_wf (h : Ref.Hdr) (payload : Bytes) (hok : h.ok = true) (hp : payload.wf = true) :
    (Ref.encFrame h payload).wf = true := by
  simp only [Ref.Hdr.ok, Bool.and_eq_true, decide_eq_true_eq] at hok
  unfold Ref.encFrame
  exact wf_append (wf_append (wf_append (wf_append (wf_append (wf_append (wf_le _ _) (wf_le _ _)) (wf_le _ _)) (wf_le _ _))
    hok.1.2) (wf_le _ _)) hp

theorem encItem_wf (ty : Nat) (d : Bytes) (hd : d.wf = true) : (Ref.encItem ty d).wf = true :=
  wf_append (wf_append (wf_le _ _) (wf_le _ _)) hd

theorem encSendData_wf (iface timeout : Nat) (a b : Bytes) (ha : a.wf = true) (hb : b.wf = true) :
    (Ref.encSendData iface timeout a b).wf = true :=
  wf_append (wf_append (wf_append (wf_append (wf_le _ _) (wf_le _ _)) (wf_le _ _)) ha) hb

theorem encUnconnectedSend_wf {prio ticks : Nat} {req : Bytes} {route : List (Nat × Nat)} {w : Bytes}
    (h : Ref.encUnconnectedSend prio ticks req route = some w) (hr : req.wf = true) : w.wf = true := by
  unfold Ref.encUnconnectedSend at h
  split at h
  · simp at h
  · rename_i rp hrp
    split at h
    · rename_i hc
      simp only [Option.some.injEq] at h; subst h
      refine wf_append (wf_append (wf_append (wf_append (wf_append ?_ (wf_le _ _)) hr) ?_) ?_) (encPorts_wf hrp)
      · exact wf_cons (by decide) (wf_cons (by decide) (wf_cons (by decide) (wf_cons (by decide) (wf_cons (by decide)
          (wf_cons (by decide) (wf_cons hc.1 (wf_cons hc.2.1 wf_nil)))))))
      · split <;> decide
      · exact wf_cons hc.2.2.2 (wf_cons (by decide) wf_nil)
    · simp at h

theorem encConnPath_wf {ports : List (Nat × Nat)} {target : Path} {cp : Bytes}
    (h : Ref.encConnPath ports target = some cp) : cp.wf = true ∧ cp.length < 512 := by
  unfold Ref.encConnPath at h
  split at h
  · rename_i a b ha hb
    split at h
    · rename_i hl
      simp only [Option.some.injEq] at h; subst h
      exact ⟨wf_append (encPorts_wf ha) (encSegs_wf hb), hl⟩
    · simp at h
  · simp at h

theorem encFwdOpen_wf {fo : Ref.FwdOpen} {b : Bytes} (h : Ref.encFwdOpen fo = some b) : b.wf = true := by
  obtain ⟨large, prio, ticks, otId, toId, serial, vendor, oserial, mult, otRpi, otNcp, toRpi, toNcp, tct, ports, target⟩ := fo
  unfold Ref.encFwdOpen at h
  simp only at h
  cases hcp : Ref.encConnPath ports target with
  | none => simp [hcp] at h
  | some cp =>
    simp only [hcp] at h
    obtain ⟨hcpw, hcpl⟩ := encConnPath_wf hcp
    cases large <;> simp only [Bool.false_eq_true, ↓reduceIte] at h <;>
      (split at h
       · rename_i hc
         obtain ⟨c1, c2, _, _, _, _, _, c8, _, _, _, _, c13⟩ := hc
         simp only [Option.some.injEq] at h; subst h
         repeat' apply wf_append
         all_goals first
           | exact wf_le _ _
           | exact hcpw
           | (simp only [Bytes.wf, List.all_cons, List.all_nil, Bool.and_true, Bool.and_eq_true, decide_eq_true_eq]; omega)
       · simp at h)

theorem encFwdClose_wf {fc : Ref.FwdClose} {b : Bytes} (h : Ref.encFwdClose fc = some b) : b.wf = true := by
  unfold Ref.encFwdClose at h
  split at h
  · simp at h
  · rename_i cp hcp
    obtain ⟨hcpw, hcpl⟩ := encConnPath_wf hcp
    split at h
    · rename_i hc
      simp only [Option.some.injEq] at h; subst h
      refine wf_append (wf_append (wf_append (wf_append (wf_append ?_ (wf_le _ _)) (wf_le _ _)) (wf_le _ _)) ?_) hcpw
      · exact wf_cons (by decide) (wf_cons (by decide) (wf_cons (by decide) (wf_cons (by decide) (wf_cons (by decide)
          (wf_cons (by decide) (wf_cons hc.1 (wf_cons hc.2.1 wf_nil)))))))
      · exact wf_cons (by omega) (wf_cons (by decide) wf_nil)
    · simp at h

/-- session handle and sender context in range (same as `CtxOk`) -/
def ctxOk (c : Ref.Ctx) : Bool :=
  decide (c.session < 4294967296) && decide (c.context.length = 8) && c.context.wf

theorem hdr_ok' (c : Ref.Ctx) (cmd : Nat) (hc : ctxOk c = true) (hcmd : cmd < 65536) : (c.hdr cmd).ok = true := by
  simp only [ctxOk, Bool.and_eq_true, decide_eq_true_eq] at hc
  simp [Ref.Hdr.ok, Ref.Ctx.hdr, hc, hcmd]

theorem encRR_wf {c : Ref.Ctx} {timeout : Nat} {cip fr : Bytes} (hc : ctxOk c = true) (hcip : cip.wf = true)
    (h : Ref.encRR c timeout cip = some fr) : fr.wf = true := by
  unfold Ref.encRR at h
  split at h
  · simp only [Option.some.injEq] at h; subst h
    exact encFrame_wf _ _ (hdr_ok' c _ hc (by decide))
      (encSendData_wf _ _ _ _ (encItem_wf _ _ wf_nil) (encItem_wf _ _ hcip))
  · simp at h

/-- **the reference encoder emits bytes** -/
theorem encMsg_wf (c : Ref.Ctx) (m : Ref.Msg) (fr : Bytes) (hc : ctxOk c = true) (h : Ref.encMsg c m = some fr) :
    fr.wf = true := by
  cases m with
  | register ver opts =>
    simp only [Ref.encMsg] at h
    split at h
    · simp only [Option.some.injEq] at h; subst h
      exact encFrame_wf _ _ (hdr_ok' c _ hc (by decide)) (wf_append (wf_le _ _) (wf_le _ _))
    · simp at h
  | unregister =>
    simp only [Ref.encMsg, Option.some.injEq] at h; subst h
    exact encFrame_wf _ _ (hdr_ok' c _ hc (by decide)) wf_nil
  | request t timeout r =>
    cases t with
    | direct =>
      simp only [Ref.encMsg] at h
      split at h
      · rename_i b hb
        split at h
        · simp at h
        · exact encRR_wf hc (encReq_wf hb) h
      · simp at h
    | wrapped prio ticks route =>
      simp only [Ref.encMsg] at h
      split at h
      · rename_i b hb
        split at h
        · rename_i w hw
          exact encRR_wf hc (encUnconnectedSend_wf hw (encReq_wf hb)) h
        · simp at h
      · simp at h
    | connected id seq =>
      simp only [Ref.encMsg] at h
      split at h
      · rename_i b hb
        split at h
        · simp only [Option.some.injEq] at h; subst h
          exact encFrame_wf _ _ (hdr_ok' c _ hc (by decide))
            (encSendData_wf _ _ _ _ (encItem_wf _ _ (wf_le _ _)) (encItem_wf _ _ (wf_append (wf_le _ _) (encReq_wf hb))))
        · simp at h
      · simp at h
  | fwdOpen timeout fo =>
    simp only [Ref.encMsg] at h
    split at h
    · rename_i b hb
      exact encRR_wf hc (encFwdOpen_wf hb) h
    · simp at h
  | fwdClose timeout fc =>
    simp only [Ref.encMsg] at h
    split at h
    · rename_i b hb
      exact encRR_wf hc (encFwdClose_wf hb) h
    · simp at h

end Cpppo.Interop
