import Cpppo.Model.Route
/-! helper lemmas for C15: decimal rendering, `int()`, IPv4 texts, split/join, the JSON scanner on a
leading number -/
namespace Cpppo.Route

/-! ### character classes -/

theorem isDigit_iff {c : Nat} : isDigit c = true ↔ 48 ≤ c ∧ c ≤ 57 := by
  simp [isDigit]

theorem isIntSpace_of_digit {c : Nat} (h : isDigit c = true) : isIntSpace c = false := by
  have := isDigit_iff.mp h
  simp [isIntSpace]; omega

theorem isSpace_of_digit {c : Nat} (h : isDigit c = true) : isSpace c = false := by
  have := isDigit_iff.mp h
  simp [isSpace]; omega

/-! ### strip -/

theorem lstripBy_id {p : Nat → Bool} : ∀ {t : Text}, (∀ c ∈ t, p c = false) → lstripBy p t = t
  | [], _ => rfl
  | c :: cs, h => by simp [lstripBy, h c (by simp)]

theorem stripBy_id {p : Nat → Bool} {t : Text} (h : ∀ c ∈ t, p c = false) : stripBy p t = t := by
  unfold stripBy
  rw [lstripBy_id h, lstripBy_id (by simpa using h)]
  simp

/-! ### decimal digits -/

theorem natDigits_digits : ∀ (f n : Nat), ∀ c ∈ natDigits f n, isDigit c = true
  | 0, _, c, h => by simp [natDigits] at h
  | f + 1, n, c, h => by
    unfold natDigits at h
    split at h
    · simp at h; subst h; simp [isDigit]; omega
    · rw [List.mem_append] at h
      rcases h with h | h
      · exact natDigits_digits f _ c h
      · simp at h; subst h; simp [isDigit]; omega

theorem natDigits_ne_nil (f n : Nat) : natDigits (f + 1) n ≠ [] := by
  unfold natDigits; split <;> simp

theorem decVal_append (a : Text) (c : Nat) : decVal (a ++ [c]) = decVal a * 10 + (c - 48) := by
  simp [decVal, List.foldl_append]

theorem decVal_natDigits : ∀ (f n : Nat), n < f → decVal (natDigits f n) = n
  | 0, _, h => by omega
  | f + 1, n, h => by
    unfold natDigits
    split
    · simp [decVal]
    · rw [decVal_append, decVal_natDigits f (n / 10) (by omega)]; omega

/-- the leading digit of a positive number is not `0` -/
theorem natDigits_head : ∀ (f n : Nat), n < f → 0 < n →
    ∃ c cs, natDigits f n = c :: cs ∧ 49 ≤ c ∧ c ≤ 57
  | 0, _, h, _ => by omega
  | f + 1, n, h, hp => by
    unfold natDigits
    split
    · exact ⟨48 + n, [], rfl, by omega, by omega⟩
    · obtain ⟨c, cs, he, h1, h2⟩ := natDigits_head f (n / 10) (by omega) (by omega)
      exact ⟨c, cs ++ [48 + n % 10], by simp [he], h1, h2⟩

theorem renderNat_digits (n : Nat) : ∀ c ∈ renderNat n, isDigit c = true := natDigits_digits _ _

theorem renderNat_ne_nil (n : Nat) : renderNat n ≠ [] := natDigits_ne_nil _ _

theorem decVal_renderNat (n : Nat) : decVal (renderNat n) = n := decVal_natDigits _ _ (by omega)

theorem renderNat_head (n : Nat) : ∃ c cs, renderNat n = c :: cs ∧ isDigit c = true := by
  have h := renderNat_ne_nil n
  match hr : renderNat n with
  | [] => exact absurd hr h
  | c :: cs => exact ⟨c, cs, rfl, renderNat_digits n c (by simp [hr])⟩

/-! ### `int()` -/

theorem digitsVal_digits : ∀ (t : Text) (acc : Nat) (st : DS), (∀ c ∈ t, isDigit c = true) →
    (t ≠ [] ∨ st = .digit) →
    digitsVal t acc st = some (t.foldl (fun a c => a * 10 + (c - 48)) acc)
  | [], acc, st, _, h => by
    rcases h with h | h
    · exact absurd rfl h
    · subst h; rfl
  | c :: cs, acc, st, hd, _ => by
    have hc := hd c (by simp)
    simp only [digitsVal, hc, if_true, List.foldl_cons]
    exact digitsVal_digits cs _ .digit (fun x hx => hd x (by simp [hx])) (Or.inr rfl)

theorem digitsVal_renderNat (n : Nat) : digitsVal (renderNat n) 0 .start = some n := by
  rw [digitsVal_digits _ _ _ (renderNat_digits n) (Or.inl (renderNat_ne_nil n))]
  exact congrArg some (decVal_renderNat n)

/-- a character that is neither a digit nor `_` makes the scan fail -/
theorem digitsVal_bad : ∀ (t : Text) (acc : Nat) (st : DS), (∃ c ∈ t, isDigit c = false ∧ c ≠ 95) →
    digitsVal t acc st = none
  | [], _, _, h => by simp at h
  | c :: cs, acc, st, h => by
    unfold digitsVal
    by_cases hc : isDigit c = true
    · simp only [hc, if_true]
      apply digitsVal_bad
      obtain ⟨x, hx, hx1, hx2⟩ := h
      simp at hx
      rcases hx with rfl | hx
      · simp [hc] at hx1
      · exact ⟨x, hx, hx1, hx2⟩
    · simp only [hc]
      by_cases h95 : c = 95
      · subst h95
        by_cases hs : st = .digit
        · subst hs
          simp
          apply digitsVal_bad
          obtain ⟨x, hx, hx1, hx2⟩ := h
          simp at hx
          rcases hx with rfl | hx
          · exact absurd rfl hx2
          · exact ⟨x, hx, hx1, hx2⟩
        · simp [hs]
      · simp [h95]

theorem pyInt_renderNat (n : Nat) : pyInt (renderNat n) = some (Int.ofNat n) := by
  have hs : stripBy isIntSpace (renderNat n) = renderNat n :=
    stripBy_id fun c hc => isIntSpace_of_digit (renderNat_digits n c hc)
  obtain ⟨c, cs, he, hc⟩ := renderNat_head n
  have hc' := isDigit_iff.mp hc
  have hv := digitsVal_renderNat n
  unfold pyInt
  rw [hs]
  rw [he] at hv ⊢
  split
  · rename_i r heq; simp at heq; omega
  · rename_i r heq; simp at heq; omega
  · simp [hv]

theorem pyInt_renderInt (n : Int) : pyInt (renderInt n) = some n := by
  cases n with
  | ofNat n => exact pyInt_renderNat n
  | negSucc n =>
    have hs : stripBy isIntSpace (45 :: renderNat (n + 1)) = 45 :: renderNat (n + 1) :=
      stripBy_id fun c hc => by
        simp at hc
        rcases hc with rfl | hc
        · simp [isIntSpace]
        · exact isIntSpace_of_digit (renderNat_digits _ c hc)
    simp only [renderInt, pyInt, hs, digitsVal_renderNat, Option.map_some]
    rfl

/-! ### split / join -/

theorem splitOn_ne_nil (sep : Nat) : ∀ t : Text, splitOn sep t ≠ []
  | [] => by simp [splitOn]
  | c :: cs => by
    unfold splitOn
    split
    · simp
    · split <;> simp

theorem splitOn_no_sep (sep : Nat) : ∀ t : Text, sep ∉ t → splitOn sep t = [t]
  | [], _ => rfl
  | c :: cs, h => by
    have hc : (c == sep) = false := by
      simp at h; simp; exact fun e => h.1 e.symm
    have ih := splitOn_no_sep sep cs (fun hm => h (by simp [hm]))
    simp [splitOn, hc, ih]

theorem splitOn_append (sep : Nat) : ∀ (p rest : Text), sep ∉ p →
    splitOn sep (p ++ sep :: rest) = p :: splitOn sep rest
  | [], rest, _ => by simp [splitOn]
  | c :: cs, rest, h => by
    have hc : (c == sep) = false := by
      simp at h; simp; exact fun e => h.1 e.symm
    have ih := splitOn_append sep cs rest (fun hm => h (by simp [hm]))
    simp [splitOn, hc, ih]

theorem splitOn_joinWith (sep : Nat) : ∀ parts : List Text, parts ≠ [] → (∀ p ∈ parts, sep ∉ p) →
    splitOn sep (joinWith sep parts) = parts
  | [], h, _ => absurd rfl h
  | [p], _, h => by simpa [joinWith] using splitOn_no_sep sep p (h p (by simp))
  | p :: q :: ps, _, h => by
    rw [joinWith, splitOn_append sep p _ (h p (by simp)),
      splitOn_joinWith sep (q :: ps) (by simp) (fun x hx => h x (by simp [hx]))]

/-- rejoining the parts gives the text back -/
theorem joinWith_splitOn (sep : Nat) : ∀ t : Text, joinWith sep (splitOn sep t) = t
  | [] => rfl
  | c :: cs => by
    have ih := joinWith_splitOn sep cs
    unfold splitOn
    by_cases hc : (c == sep) = true
    · simp only [hc, if_true]
      have : c = sep := by simpa using hc
      match hs : splitOn sep cs with
      | [] => exact absurd hs (splitOn_ne_nil sep cs)
      | q :: qs => rw [hs] at ih; simp [joinWith, ih, this]
    · simp only [hc]
      match hs : splitOn sep cs with
      | [] => exact absurd hs (splitOn_ne_nil sep cs)
      | [q] => rw [hs] at ih; simp [joinWith] at ih ⊢; exact ih
      | q :: r :: qs => rw [hs] at ih; simp [joinWith] at ih ⊢; exact ih

/-! ### IPv4 texts -/

theorem mem_joinWith (sep : Nat) : ∀ (parts : List Text) (c : Nat), c ∈ joinWith sep parts →
    c = sep ∨ ∃ p ∈ parts, c ∈ p
  | [], c, h => by simp [joinWith] at h
  | [p], c, h => Or.inr ⟨p, by simp, by simpa [joinWith] using h⟩
  | p :: q :: ps, c, h => by
    rw [joinWith, List.mem_append, List.mem_cons] at h
    rcases h with h | h | h
    · exact Or.inr ⟨p, by simp, h⟩
    · exact Or.inl h
    · rcases mem_joinWith sep (q :: ps) c h with h | ⟨x, hx, hc⟩
      · exact Or.inl h
      · exact Or.inr ⟨x, by simp at hx ⊢; exact Or.inr hx, hc⟩

theorem octetOk_digits {o : Text} (h : octetOk o = true) : o ≠ [] ∧ ∀ c ∈ o, isDigit c = true := by
  simp only [octetOk, Bool.and_eq_true] at h
  obtain ⟨⟨⟨⟨h1, h2⟩, _⟩, _⟩, _⟩ := h
  refine ⟨by intro e; subst e; simp at h1, ?_⟩
  simpa [List.all_eq_true] using h2

/-- what the code accepts as an IPv4 address consists of digits and dots, starts with a digit and
contains a dot -/
theorem ipv4Ok_shape {t : Text} (h : ipv4Ok t = true) :
    (∀ c ∈ t, isDigit c = true ∨ c = 46) ∧ 46 ∈ t ∧ ∃ c cs, t = c :: cs ∧ isDigit c = true := by
  simp only [ipv4Ok, Bool.and_eq_true, beq_iff_eq, List.all_eq_true] at h
  obtain ⟨hlen, hall⟩ := h
  have hj := joinWith_splitOn 46 t
  refine ⟨?_, ?_, ?_⟩
  · intro c hc
    rw [← hj] at hc
    rcases mem_joinWith 46 _ c hc with h | ⟨p, hp, hcp⟩
    · exact Or.inr h
    · exact Or.inl ((octetOk_digits (hall p hp)).2 c hcp)
  · by_cases hn : 46 ∈ t
    · exact hn
    · rw [splitOn_no_sep 46 t hn] at hlen
      simp at hlen
  · match hs : splitOn 46 t with
    | [] => exact absurd hs (splitOn_ne_nil 46 t)
    | [] :: ps =>
      exact absurd rfl (octetOk_digits (hall [] (by simp [hs]))).1
    | (c :: cs) :: ps =>
      have hp := octetOk_digits (hall (c :: cs) (by simp [hs]))
      rw [hs] at hj
      have hc := hp.2 c (by simp)
      match ps with
      | [] => exact ⟨c, cs, by simpa [joinWith] using hj.symm, hc⟩
      | q :: qs => exact ⟨c, _, by simpa [joinWith] using hj.symm, hc⟩

theorem pyInt_ipv4 {t : Text} (h : ipv4Ok t = true) : pyInt t = none := by
  obtain ⟨hch, hdot, c, cs, he, hc⟩ := ipv4Ok_shape h
  have hs : stripBy isIntSpace t = t := stripBy_id fun x hx => by
    rcases hch x hx with h | h
    · exact isIntSpace_of_digit h
    · subst h; simp [isIntSpace]
  have hbad : digitsVal t 0 .start = none :=
    digitsVal_bad t 0 .start ⟨46, hdot, by simp [isDigit], by omega⟩
  have hc' := isDigit_iff.mp hc
  unfold pyInt
  rw [hs]
  rw [he] at hbad ⊢
  split
  · rename_i r heq; simp at heq; omega
  · rename_i r heq; simp at heq; omega
  · simp [hbad]

end Cpppo.Route

namespace Cpppo.Route

/-! ### the JSON scanner on a text that starts with a positive decimal number and a '/' -/

theorem takeDigits_append : ∀ (ds : Text) (c : Nat) (rest : Text), (∀ d ∈ ds, isDigit d = true) →
    isDigit c = false → takeDigits (ds ++ c :: rest) = (ds, c :: rest)
  | [], c, rest, _, hc => by simp [takeDigits, hc]
  | d :: ds, c, rest, hd, hc => by
    have h1 := hd d (by simp)
    have ih := takeDigits_append ds c rest (fun x hx => hd x (by simp [hx])) hc
    simp [takeDigits, h1, ih]

theorem skipWs_digit {c : Nat} {cs : Text} (h : isDigit c = true) : skipWs (c :: cs) = c :: cs := by
  have := isDigit_iff.mp h
  have hw : isWs c = false := by simp [isWs]; omega
  simp [skipWs, hw]

theorem startsWith_head_ne {a c : Nat} {p cs : Text} (h : a ≠ c) : startsWith (a :: p) (c :: cs) = none := by
  have : (a == c) = false := by simpa using h
  simp [startsWith, this]

theorem pLiteral_digit {c : Nat} {cs : Text} (h : isDigit c = true) : pLiteral (c :: cs) = none := by
  have := isDigit_iff.mp h
  unfold pLiteral
  rw [startsWith_head_ne (by omega), startsWith_head_ne (by omega), startsWith_head_ne (by omega),
    startsWith_head_ne (by omega), startsWith_head_ne (by omega), startsWith_head_ne (by omega)]

/-- `json.loads("<positive number>/…")` raises ("Extra data") -/
theorem jsonLoads_number_slash (n : Nat) (hn : 0 < n) (rest : Text) :
    jsonLoads (renderNat n ++ 47 :: rest) = none := by
  obtain ⟨c, cs, he, h1, h2⟩ := natDigits_head (n + 1) n (by omega) hn
  have hdig := renderNat_digits n
  unfold renderNat at hdig
  have hc : isDigit c = true := isDigit_iff.mpr ⟨by omega, h2⟩
  have htd : takeDigits (natDigits (n + 1) n ++ 47 :: rest) = (natDigits (n + 1) n, 47 :: rest) :=
    takeDigits_append _ 47 rest hdig (by simp [isDigit])
  rw [he] at htd
  simp only [List.cons_append] at htd
  have h45 : (c == 45) = false := by simp; omega
  have h48 : (c == 48) = false := by simp; omega
  have h34 : (c == 34) = false := by simp; omega
  have h91 : (c == 91) = false := by simp; omega
  have h123 : (c == 123) = false := by simp; omega
  have h49 : (decide (49 ≤ c) && decide (c ≤ 57)) = true := by simp; omega
  have hnum : pNumber (c :: (cs ++ 47 :: rest)) = some (.int (Int.ofNat (decVal (c :: cs))), 47 :: rest) := by
    simp [pNumber, pUnsigned, h45, h48, h49, htd, pNumTail, pFrac, pExp]
  unfold jsonLoads renderNat
  rw [he]
  simp only [List.cons_append, List.length_cons]
  have hlen : 2 * ((cs ++ 47 :: rest).length + 1) + 2 = (2 * ((cs ++ 47 :: rest).length + 1) + 1) + 1 := by omega
  rw [hlen, pValue, skipWs_digit hc]
  simp [h34, h91, h123, pScalar, pLiteral_digit hc, hnum, skipWs, isWs]

end Cpppo.Route

namespace Cpppo.Route

/-! ### segments: what `port_link` accepts, and the two stages of `parse_route_path` on spelled segments -/

/-- a link the code can produce: any integer, or a text it accepts as an IPv4 address -/
def Link.WF : Link → Prop
  | .num _ => True
  | .addr s => ipv4Ok s = true

/-- a segment `port_link` can produce: positive port, well-formed link -/
def Seg.WF : Seg → Prop
  | .pl p l => 0 < p ∧ l.WF
  | .other _ _ => False

instance (l : Link) : Decidable l.WF := by cases l <;> unfold Link.WF <;> infer_instance
instance (s : Seg) : Decidable s.WF := by cases s <;> unfold Seg.WF <;> infer_instance

theorem toLink_linkJV (l : Link) (h : l.WF) : toLink (linkJV l) = some l := by
  cases l with
  | num n => simp [linkJV, toLink, toInt]
  | addr s => simp [linkJV, toLink, toInt, pyInt_ipv4 h, show ipv4Ok s = true from h]

theorem toLink_render (l : Link) (h : l.WF) : toLink (.str (renderLink l)) = some l := by
  cases l with
  | num n => simp [renderLink, toLink, toInt, pyInt_renderInt]
  | addr s => simp [renderLink, toLink, toInt, pyInt_ipv4 h, show ipv4Ok s = true from h]

theorem plPair_render (p : Int) (l : Link) (hp : 0 < p) (hl : l.WF) :
    plPair (.str (renderInt p)) (.str (renderLink l)) = some (.pl p l) := by
  simp [plPair, toInt, pyInt_renderInt, hp, toLink_render l hl]

theorem portLink_segJV (s : Seg) (h : s.WF) : portLink (segJV s) = some s := by
  cases s with
  | other k v => exact absurd h (by simp [Seg.WF])
  | pl p l =>
    obtain ⟨hp, hl⟩ := h
    have h1 : lookupLast kPort [(kPort, JV.int p), (kLink, linkJV l)] = some (JV.int p) := by
      simp [lookupLast, kPort, kLink]
    have h2 : lookupLast kLink [(kPort, JV.int p), (kLink, linkJV l)] = some (linkJV l) := by
      simp [lookupLast, kPort, kLink]
    simp [segJV, portLink, h1, h2, plPair, toInt, hp, toLink_linkJV l hl]

theorem stage2_segs : ∀ segs : List Seg, (∀ s ∈ segs, s.WF) → stage2 (segs.map segJV) = (segs, [])
  | [], _ => rfl
  | s :: rest, h => by
    have hs := h s (by simp)
    have ih := stage2_segs rest (fun x hx => h x (by simp [hx]))
    have ht : truthy (segJV s) = true := by
      cases s with
      | other k v => exact absurd hs (by simp [Seg.WF])
      | pl p l => simp [segJV, truthy]
    simp [stage2, ht, portLink_segJV s hs, ih]

theorem pairs_parts : ∀ segs : List Seg, (∀ s ∈ segs, s.WF) → pairs (segs.flatMap segParts) = (segs, [])
  | [], _ => by simp [pairs]
  | s :: rest, h => by
    have hs := h s (by simp)
    have ih := pairs_parts rest (fun x hx => h x (by simp [hx]))
    cases s with
    | other k v => exact absurd hs (by simp [Seg.WF])
    | pl p l =>
      simp only [List.flatMap_cons, segParts, List.cons_append, List.nil_append]
      rw [pairs, plPair_render p l hs.1 hs.2]
      simp [ih]

theorem no_slash_renderNat (n : Nat) : 47 ∉ renderNat n := fun h => by
  have := renderNat_digits n 47 h
  simp [isDigit] at this

theorem no_slash_renderInt (n : Int) : 47 ∉ renderInt n := by
  cases n with
  | ofNat n => exact no_slash_renderNat n
  | negSucc n =>
    intro h
    simp [renderInt] at h
    exact no_slash_renderNat _ h

theorem no_slash_renderLink (l : Link) (h : l.WF) : 47 ∉ renderLink l := by
  cases l with
  | num n => exact no_slash_renderInt n
  | addr s =>
    intro hm
    rcases (ipv4Ok_shape h).1 47 hm with h | h
    · simp [isDigit] at h
    · omega

theorem no_slash_parts (segs : List Seg) (h : ∀ s ∈ segs, s.WF) : ∀ p ∈ segs.flatMap segParts, 47 ∉ p := by
  intro p hp
  obtain ⟨s, hs, hps⟩ := List.mem_flatMap.mp hp
  have hw := h s hs
  cases s with
  | other k v => exact absurd hw (by simp [Seg.WF])
  | pl q l =>
    simp [segParts] at hps
    rcases hps with rfl | rfl
    · exact no_slash_renderInt q
    · exact no_slash_renderLink l hw.2

/-- the spelled text of a non-empty route path starts with the first port's decimal digits and a '/' -/
theorem renderSlash_head (p : Int) (l : Link) (rest : List Seg) (hp : 0 < p) :
    ∃ tail, renderSlash (.pl p l :: rest) = renderNat p.toNat ++ 47 :: tail := by
  have hp' : renderInt p = renderNat p.toNat := by
    cases p with
    | ofNat n => rfl
    | negSucc n => exact absurd hp (by simp)
  unfold renderSlash
  simp only [List.flatMap_cons, segParts, List.cons_append, List.nil_append]
  match hr : rest.flatMap segParts with
  | [] => exact ⟨renderLink l, by simp [joinWith, hp']⟩
  | q :: qs => exact ⟨renderLink l ++ 47 :: joinWith 47 (q :: qs), by simp [joinWith, hp']⟩

end Cpppo.Route

namespace Cpppo.Route

/-! ### sessions -/

section
variable {σ ρ π : Type} (exec : σ → ρ → Option (σ × π)) (cfg : Config)

/-- executing a list of frames one after the other, when every one is accepted and succeeds -/
def runAll : σ → List (Option RoutePath × ρ) → Option σ
  | st, [] => some st
  | st, (rp, req) :: rest =>
    if accept cfg rp then
      match exec st req with
      | some (st', _) => runAll st' rest
      | none => none
    else none


theorem runAll_nil (st : σ) : runAll exec cfg st [] = some st := rfl

theorem runAll_cons (st : σ) (rp : Option RoutePath) (req : ρ) (rest : List (Option RoutePath × ρ)) :
    runAll exec cfg st ((rp, req) :: rest)
      = if accept cfg rp then
          match exec st req with
          | some (st', _) => runAll exec cfg st' rest
          | none => none
        else none := by
  rw [runAll]

theorem sessionWith_nil (st : σ) : sessionWith exec cfg st [] = (st, []) := rfl

theorem sessionWith_cons (st : σ) (rp : Option RoutePath) (req : ρ) (rest : List (Option RoutePath × ρ)) :
    sessionWith exec cfg st ((rp, req) :: rest)
      = if (serveWith exec cfg st rp req).2.status == 0 then
          ((sessionWith exec cfg (serveWith exec cfg st rp req).1 rest).1,
           (serveWith exec cfg st rp req).2 :: (sessionWith exec cfg (serveWith exec cfg st rp req).1 rest).2)
        else ((serveWith exec cfg st rp req).1, [(serveWith exec cfg st rp req).2]) := by
  rw [sessionWith]

end

end Cpppo.Route
