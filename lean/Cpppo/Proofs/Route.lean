import Cpppo.Model.Route
/-! helper lemmas for C15 -/
namespace Cpppo.Route
end Cpppo.Route
