import Cpppo.Model.Concurrent
import Cpppo.Proofs.Frag

/-! The invariant behind C09: every reachable state of the concurrent machine is the image of the
sequential run of its access log (`hist`), and every thread is at a definite point of its own program. -/
namespace Cpppo.Concurrent

variable {σ τ α : Type}

@[simp] theorem upd_same {β : Type} (f : Nat → β) (k : Nat) (v : β) : upd f k v k = v := by simp [upd]

theorem upd_other {β : Type} (f : Nat → β) (k : Nat) (v : β) (j : Nat) (h : j ≠ k) : upd f k v j = f j := by
  simp [upd, h]

/-! ### `proj` and `runSeq` -/

@[simp] theorem proj_nil {β : Type} (s : Sid) : proj s ([] : List (Sid × β)) = [] := rfl

theorem proj_append {β : Type} (s : Sid) (l l' : List (Sid × β)) : proj s (l ++ l') = proj s l ++ proj s l' := by
  simp [proj, List.filterMap_append]

theorem proj_single_same {β : Type} (s : Sid) (b : β) : proj s [(s, b)] = [b] := by simp [proj]

theorem proj_single_other {β : Type} (s s' : Sid) (b : β) (h : s' ≠ s) : proj s' [(s, b)] = [] := by
  simp [proj, List.filterMap, Ne.symm h]

theorem proj_cons_same {β : Type} (s : Sid) (b : β) (l : List (Sid × β)) : proj s ((s, b) :: l) = b :: proj s l := by
  simp [proj]

theorem proj_cons_other {β : Type} (s s' : Sid) (b : β) (l : List (Sid × β)) (h : s' ≠ s) :
    proj s' ((s, b) :: l) = proj s' l := by
  simp [proj, Ne.symm h]

theorem runSeq_append (exec : σ → List τ → σ × α) (m : σ) (l l' : List (Sid × List τ)) :
    runSeq exec m (l ++ l') =
      ((runSeq exec (runSeq exec m l).1 l').1, (runSeq exec m l).2 ++ (runSeq exec (runSeq exec m l).1 l').2) := by
  induction l generalizing m with
  | nil => simp [runSeq]
  | cons e l ih =>
    obtain ⟨s, w⟩ := e
    simp only [List.cons_append, runSeq, ih, List.cons_append]

theorem runSeq_snoc (exec : σ → List τ → σ × α) (m : σ) (l : List (Sid × List τ)) (s : Sid) (w : List τ) :
    runSeq exec m (l ++ [(s, w)]) =
      ((exec (runSeq exec m l).1 w).1, (runSeq exec m l).2 ++ [(s, (exec (runSeq exec m l).1 w).2)]) := by
  rw [runSeq_append]; simp [runSeq]

/-- the replies of a sequential run are in one-to-one correspondence with its requests -/
theorem runSeq_length (exec : σ → List τ → σ × α) (m : σ) (l : List (Sid × List τ)) :
    (runSeq exec m l).2.length = l.length := by
  induction l generalizing m with
  | nil => rfl
  | cons e l ih => obtain ⟨s, w⟩ := e; simp [runSeq, ih]

theorem proj_runSeq_length (exec : σ → List τ → σ × α) (m : σ) (l : List (Sid × List τ)) (s : Sid) :
    (proj s (runSeq exec m l).2).length = (proj s l).length := by
  induction l generalizing m with
  | nil => rfl
  | cons e l ih =>
    obtain ⟨s', w⟩ := e
    by_cases h : s = s'
    · subst h; simp [runSeq, proj_cons_same, ih]
    · simp [runSeq, proj_cons_other _ _ _ _ h, ih]

/-! ### requests of a program -/

theorem requests_nil : requests ([] : List (Frame τ)) = [] := rfl

theorem requests_cons (f : Frame τ) (fs : List (Frame τ)) : requests (f :: fs) = f.map (·.2) ++ requests fs := by
  simp [requests]

/-! ### where a thread is in its program -/

/-- requests of the current frame that have not been executed yet, as they are going to be executed -/
def PC.pending (scratch : Pid → List τ) : PC τ α → List (List τ)
  | .idle => []
  | .toParse done more => done ++ more.map (·.2)
  | .parsing p rest done more => done ++ (scratch p ++ rest) :: more.map (·.2)
  | .exec todo _ => todo

/-- replies of the current frame already in hand -/
def PC.results : PC τ α → List α
  | .exec _ rs => rs
  | _ => []

/-- sizes: the current frame counts as one frame of this many members -/
def PC.frameSizes : PC τ α → List Nat
  | .idle => []
  | .toParse done more => [done.length + more.length]
  | .parsing _ _ done more => [done.length + 1 + more.length]
  | .exec todo rs => [rs.length + todo.length]

/-- the parser a thread is inside of -/
def PC.inside : PC τ α → Option Pid
  | .parsing p _ _ _ => some p
  | _ => none

theorem pending_congr (sc sc' : Pid → List τ) (pc : PC τ α) (h : ∀ p, pc.inside = some p → sc' p = sc p) :
    pc.pending sc' = pc.pending sc := by
  cases pc with
  | parsing p rest done more => simp [PC.pending, h p rfl]
  | _ => rfl

/-- The invariant: the shared memory and every reply are those of the sequential run of the access
log; every thread's executed requests, followed by what it still has to do, are its own program;
a thread inside a parser holds that parser's lock. -/
structure Inv (exec : σ → List τ → σ × α) (m0 : σ) (prog : Sid → List (Frame τ)) (st : State σ τ α) : Prop where
  mem : st.mem = (runSeq exec m0 st.hist).1
  ord : ∀ s, proj s st.hist ++ (st.thr s).pc.pending st.scratch ++ requests (st.thr s).frames = requests (prog s)
  rep : ∀ s, (st.thr s).sent.flatten ++ (st.thr s).pc.results = proj s (runSeq exec m0 st.hist).2
  frm : ∀ s, (st.thr s).sent.map List.length ++ (st.thr s).pc.frameSizes ++ (st.thr s).frames.map List.length
          = (prog s).map List.length
  lck : ∀ s p, (st.thr s).pc.inside = some p → st.lock p = some s
  own : ∀ s p, st.lock p = some s → (st.thr s).pc.inside = some p

theorem inv_init (exec : σ → List τ → σ × α) (m0 : σ) (prog : Sid → List (Frame τ)) :
    Inv exec m0 prog (init m0 prog) := by
  constructor <;> intros <;> simp_all [init, runSeq, PC.pending, PC.results, PC.frameSizes, PC.inside]

/-- two threads inside the same parser are the same thread -/
theorem Inv.excl {exec : σ → List τ → σ × α} {m0 : σ} {prog : Sid → List (Frame τ)} {st : State σ τ α}
    (h : Inv exec m0 prog st) {s s' : Sid} {p : Pid}
    (h1 : (st.thr s).pc.inside = some p) (h2 : (st.thr s').pc.inside = some p) : s = s' := by
  have a := h.lck s p h1
  have b := h.lck s' p h2
  rw [a] at b
  exact Option.some.inj b

theorem step_inv (exec : σ → List τ → σ × α) (m0 : σ) (prog : Sid → List (Frame τ)) (st : State σ τ α)
    (h : Inv exec m0 prog st) (s : Sid) : Inv exec m0 prog (step exec st s) := by
  unfold step stepWith
  dsimp only
  split
  · -- idle
    rename_i hpc
    split
    · exact h
    · rename_i f fs hfr
      constructor
      · exact h.mem
      · intro s'
        by_cases hs : s' = s
        · subst hs
          have := h.ord s'
          simp only [hpc, hfr, PC.pending, requests_cons, List.append_nil] at this
          simpa [PC.pending] using this
        · simpa [upd_other _ _ _ _ hs] using h.ord s'
      · intro s'
        by_cases hs : s' = s
        · subst hs
          have := h.rep s'
          simp only [hpc, PC.results] at this
          simpa [PC.results] using this
        · simpa [upd_other _ _ _ _ hs] using h.rep s'
      · intro s'
        by_cases hs : s' = s
        · subst hs
          have := h.frm s'
          simp only [hpc, hfr, PC.frameSizes, List.append_nil, List.map_cons] at this
          simpa [PC.frameSizes] using this
        · simpa [upd_other _ _ _ _ hs] using h.frm s'
      · intro s' p
        by_cases hs : s' = s
        · subst hs; simp [PC.inside]
        · simpa [upd_other _ _ _ _ hs] using h.lck s' p
      · intro s' p hl
        by_cases hs : s' = s
        · subst hs
          have := h.own s' p hl
          rw [hpc] at this; cases this
        · simpa [upd_other _ _ _ _ hs] using h.own s' p hl
  · -- toParse done [] : plan
    rename_i done hpc
    constructor
    · exact h.mem
    · intro s'
      by_cases hs : s' = s
      · subst hs
        have := h.ord s'
        simp only [hpc, PC.pending, List.map_nil, List.append_nil] at this
        simpa [PC.pending] using this
      · simpa [upd_other _ _ _ _ hs] using h.ord s'
    · intro s'
      by_cases hs : s' = s
      · subst hs
        have := h.rep s'
        simp only [hpc, PC.results] at this
        simpa [PC.results] using this
      · simpa [upd_other _ _ _ _ hs] using h.rep s'
    · intro s'
      by_cases hs : s' = s
      · subst hs
        have := h.frm s'
        simp only [hpc, PC.frameSizes, List.length_nil, Nat.add_zero] at this
        simpa [PC.frameSizes] using this
      · simpa [upd_other _ _ _ _ hs] using h.frm s'
    · intro s' p
      by_cases hs : s' = s
      · subst hs; simp [PC.inside]
      · simpa [upd_other _ _ _ _ hs] using h.lck s' p
    · intro s' q hl
      by_cases hs : s' = s
      · subst hs
        have := h.own s' q hl
        rw [hpc] at this; cases this
      · simpa [upd_other _ _ _ _ hs] using h.own s' q hl
  · -- toParse done ((p, w) :: more) : acquire
    rename_i done p w more hpc
    split
    · exact h
    · rename_i hfree
      have hnone : st.lock p = none := by
        simp only [Bool.true_and, Option.isSome_iff_ne_none, ne_eq, Decidable.not_not] at hfree
        cases hl : st.lock p <;> simp_all
      have hothers : ∀ s', s' ≠ s → ∀ q, (st.thr s').pc.inside = some q → q ≠ p := by
        intro s' _ q hq hqp
        subst hqp
        have := h.lck s' q hq
        rw [hnone] at this; cases this
      constructor
      · exact h.mem
      · intro s'
        by_cases hs : s' = s
        · subst hs
          have := h.ord s'
          simp only [hpc, PC.pending, List.map_cons] at this
          simpa [PC.pending] using this
        · simp only [upd_other _ _ _ _ hs]
          rw [pending_congr st.scratch]
          · exact h.ord s'
          · intro q hq
            exact upd_other _ _ _ _ (hothers s' hs q hq)
      · intro s'
        by_cases hs : s' = s
        · subst hs
          have := h.rep s'
          simp only [hpc, PC.results] at this
          simpa [PC.results] using this
        · simpa [upd_other _ _ _ _ hs] using h.rep s'
      · intro s'
        by_cases hs : s' = s
        · subst hs
          have := h.frm s'
          simp only [hpc, PC.frameSizes, List.length_cons] at this
          simp only [upd_same, PC.frameSizes]
          rw [← this]; congr 3; omega
        · simpa [upd_other _ _ _ _ hs] using h.frm s'
      · intro s' q
        by_cases hs : s' = s
        · subst hs
          simp only [upd_same, PC.inside, Option.some.injEq]
          intro hq; subst hq; simp
        · simp only [upd_other _ _ _ _ hs]
          intro hq
          rw [upd_other _ _ _ _ (hothers s' hs q hq)]
          exact h.lck s' q hq
      · intro s' q hl
        by_cases hq : q = p
        · subst hq
          simp only [upd_same, Option.some.injEq] at hl
          subst hl
          simp [PC.inside]
        · dsimp only at hl
          rw [upd_other _ _ _ _ hq] at hl
          have hin := h.own s' q hl
          by_cases hs : s' = s
          · subst hs; rw [hpc] at hin; cases hin
          · simpa [upd_other _ _ _ _ hs] using hin
  · -- parsing p (b :: rest) : feed
    rename_i p b rest done more hpc
    have hin : (st.thr s).pc.inside = some p := by rw [hpc]; rfl
    have hothers : ∀ s', s' ≠ s → ∀ q, (st.thr s').pc.inside = some q → q ≠ p := by
      intro s' hs q hq hqp
      subst hqp
      exact hs (h.excl hq hin)
    constructor
    · exact h.mem
    · intro s'
      by_cases hs : s' = s
      · subst hs
        have := h.ord s'
        simp only [hpc, PC.pending] at this
        simpa [PC.pending] using this
      · simp only [upd_other _ _ _ _ hs]
        rw [pending_congr st.scratch]
        · exact h.ord s'
        · intro q hq
          exact upd_other _ _ _ _ (hothers s' hs q hq)
    · intro s'
      by_cases hs : s' = s
      · subst hs
        have := h.rep s'
        simp only [hpc, PC.results] at this
        simpa [PC.results] using this
      · simpa [upd_other _ _ _ _ hs] using h.rep s'
    · intro s'
      by_cases hs : s' = s
      · subst hs
        have := h.frm s'
        simp only [hpc, PC.frameSizes] at this
        simpa [PC.frameSizes] using this
      · simpa [upd_other _ _ _ _ hs] using h.frm s'
    · intro s' q
      by_cases hs : s' = s
      · subst hs
        simp only [upd_same, PC.inside, Option.some.injEq]
        intro hq; subst hq; exact h.lck s' _ hin
      · simpa [upd_other _ _ _ _ hs] using h.lck s' q
    · intro s' q hl
      by_cases hs : s' = s
      · subst hs
        have := h.own s' q hl
        rw [hin] at this
        simpa [PC.inside] using this
      · simpa [upd_other _ _ _ _ hs] using h.own s' q hl
  · -- parsing p [] : release
    rename_i p done more hpc
    have hin : (st.thr s).pc.inside = some p := by rw [hpc]; rfl
    have hothers : ∀ s', s' ≠ s → ∀ q, (st.thr s').pc.inside = some q → q ≠ p := by
      intro s' hs q hq hqp
      subst hqp
      exact hs (h.excl hq hin)
    constructor
    · exact h.mem
    · intro s'
      by_cases hs : s' = s
      · subst hs
        have := h.ord s'
        simp only [hpc, PC.pending, List.append_nil] at this
        simpa [PC.pending] using this
      · simpa [upd_other _ _ _ _ hs] using h.ord s'
    · intro s'
      by_cases hs : s' = s
      · subst hs
        have := h.rep s'
        simp only [hpc, PC.results] at this
        simpa [PC.results] using this
      · simpa [upd_other _ _ _ _ hs] using h.rep s'
    · intro s'
      by_cases hs : s' = s
      · subst hs
        have := h.frm s'
        simp only [hpc, PC.frameSizes] at this
        simpa [PC.frameSizes] using this
      · simpa [upd_other _ _ _ _ hs] using h.frm s'
    · intro s' q
      by_cases hs : s' = s
      · subst hs; simp [PC.inside]
      · simp only [upd_other _ _ _ _ hs]
        intro hq
        rw [upd_other _ _ _ _ (hothers s' hs q hq)]
        exact h.lck s' q hq
    · intro s' q hl
      by_cases hq : q = p
      · subst hq; simp at hl
      · dsimp only at hl
        rw [upd_other _ _ _ _ hq] at hl
        have hin' := h.own s' q hl
        by_cases hs : s' = s
        · subst hs; rw [hin] at hin'; exact absurd (Option.some.inj hin').symm hq
        · simpa [upd_other _ _ _ _ hs] using hin'
  · -- exec (w :: todo) : access
    rename_i w todo rs hpc
    constructor
    · simp only [runSeq_snoc, ← h.mem]
    · intro s'
      by_cases hs : s' = s
      · subst hs
        have := h.ord s'
        simp only [hpc, PC.pending] at this
        simpa [PC.pending, proj_append, proj_single_same] using this
      · simp only [upd_other _ _ _ _ hs, proj_append, proj_single_other _ _ _ hs, List.append_nil]
        exact h.ord s'
    · intro s'
      by_cases hs : s' = s
      · subst hs
        have := h.rep s'
        simp only [hpc, PC.results] at this
        simp only [upd_same, PC.results, runSeq_snoc, proj_append, proj_single_same, ← h.mem]
        rw [← this, List.append_assoc]
      · simp only [upd_other _ _ _ _ hs, runSeq_snoc, proj_append, proj_single_other _ _ _ hs, List.append_nil]
        exact h.rep s'
    · intro s'
      by_cases hs : s' = s
      · subst hs
        have := h.frm s'
        simp only [hpc, PC.frameSizes, List.length_cons] at this
        simp only [upd_same, PC.frameSizes, List.length_append, List.length_cons, List.length_nil]
        rw [← this]; congr 3; omega
      · simpa [upd_other _ _ _ _ hs] using h.frm s'
    · intro s' q
      by_cases hs : s' = s
      · subst hs; simp [PC.inside]
      · simpa [upd_other _ _ _ _ hs] using h.lck s' q
    · intro s' q hl
      by_cases hs : s' = s
      · subst hs
        have := h.own s' q hl
        rw [hpc] at this; cases this
      · simpa [upd_other _ _ _ _ hs] using h.own s' q hl
  · -- exec [] : send
    rename_i rs hpc
    constructor
    · exact h.mem
    · intro s'
      by_cases hs : s' = s
      · subst hs
        have := h.ord s'
        simp only [hpc, PC.pending] at this
        simpa [PC.pending] using this
      · simpa [upd_other _ _ _ _ hs] using h.ord s'
    · intro s'
      by_cases hs : s' = s
      · subst hs
        have := h.rep s'
        simp only [hpc, PC.results] at this
        simpa [PC.results] using this
      · simpa [upd_other _ _ _ _ hs] using h.rep s'
    · intro s'
      by_cases hs : s' = s
      · subst hs
        have := h.frm s'
        simp only [hpc, PC.frameSizes, List.length_nil, Nat.add_zero] at this
        simpa [PC.frameSizes] using this
      · simpa [upd_other _ _ _ _ hs] using h.frm s'
    · intro s' q
      by_cases hs : s' = s
      · subst hs; simp [PC.inside]
      · simpa [upd_other _ _ _ _ hs] using h.lck s' q
    · intro s' q hl
      by_cases hs : s' = s
      · subst hs
        have := h.own s' q hl
        rw [hpc] at this; cases this
      · simpa [upd_other _ _ _ _ hs] using h.own s' q hl

theorem runSched_inv (exec : σ → List τ → σ × α) (m0 : σ) (prog : Sid → List (Frame τ)) (st : State σ τ α)
    (h : Inv exec m0 prog st) (sched : List Sid) : Inv exec m0 prog (runSched exec st sched) := by
  induction sched generalizing st with
  | nil => exact h
  | cons s rest ih => exact ih _ (step_inv exec m0 prog st h s)

/-! ### consequences used by the property theorems -/

theorem mem_proj_of_mem {β : Type} {e : Sid × β} {l : List (Sid × β)} (h : e ∈ l) : e.2 ∈ proj e.1 l := by
  unfold proj
  rw [List.mem_filterMap]
  exact ⟨e, h, by simp⟩

/-- every logged access is a request of the program of the session it is logged for -/
theorem hist_mem_prog {exec : σ → List τ → σ × α} {m0 : σ} {prog : Sid → List (Frame τ)} {st : State σ τ α}
    (h : Inv exec m0 prog st) (e : Sid × List τ) (he : e ∈ st.hist) : e.2 ∈ requests (prog e.1) := by
  rw [← h.ord e.1]
  exact List.mem_append_left _ (List.mem_append_left _ (mem_proj_of_mem he))

theorem runSeq_invariant (exec : σ → List τ → σ × α) (I : σ → Prop) (m : σ) (l : List (Sid × List τ))
    (h0 : I m) (h : ∀ e ∈ l, ∀ m, I m → I (exec m e.2).1) : I (runSeq exec m l).1 := by
  induction l generalizing m with
  | nil => exact h0
  | cons e l ih =>
    obtain ⟨s, w⟩ := e
    simp only [runSeq]
    exact ih _ (h (s, w) List.mem_cons_self m h0) (fun e he => h e (List.mem_cons_of_mem _ he))

/-- the `i`-th reply to session `s` in a sequential run is the reply to the `i`-th request of `s` in
that run, computed on the memory the requests before it leave -/
theorem proj_runSeq_getElem (exec : σ → List τ → σ × α) (m : σ) (l : List (Sid × List τ)) (s : Sid) (i : Nat)
    (a : α) (h : (proj s (runSeq exec m l).2)[i]? = some a) :
    ∃ pre post w, l = pre ++ (s, w) :: post ∧ (proj s pre).length = i ∧ a = (exec (runSeq exec m pre).1 w).2 := by
  induction l generalizing m i with
  | nil => simp [runSeq] at h
  | cons e l ih =>
    obtain ⟨s', w'⟩ := e
    by_cases hs : s = s'
    · subst hs
      simp only [runSeq, proj_cons_same] at h
      cases i with
      | zero =>
        simp only [List.getElem?_cons_zero, Option.some.injEq] at h
        exact ⟨[], l, w', rfl, rfl, h.symm⟩
      | succ i =>
        simp only [List.getElem?_cons_succ] at h
        obtain ⟨pre, post, w, hl, hlen, ha⟩ := ih _ i h
        refine ⟨(s, w') :: pre, post, w, by rw [hl]; rfl, by simp [proj_cons_same, hlen], ?_⟩
        simpa [runSeq] using ha
    · simp only [runSeq, proj_cons_other _ _ _ _ hs] at h
      obtain ⟨pre, post, w, hl, hlen, ha⟩ := ih _ i h
      refine ⟨(s', w') :: pre, post, w, by rw [hl]; rfl, by simp [proj_cons_other _ _ _ _ hs, hlen], ?_⟩
      simpa [runSeq] using ha

/-! ### progress -/

/-- a thread whose next step is of this kind can move -/
def Kind.enabled : Kind → Bool
  | .blocked _ => false
  | .finished => false
  | _ => true

theorem inv_no_deadlock {exec : σ → List τ → σ × α} {m0 : σ} {prog : Sid → List (Frame τ)} {st : State σ τ α}
    (h : Inv exec m0 prog st) (s : Sid) (hs : (st.thr s).finished = false) :
    ∃ s', (nextKind st s').enabled = true := by
  cases hpc : (st.thr s).pc with
  | idle =>
    cases hf : (st.thr s).frames with
    | nil => simp [Thread.finished, hpc, hf] at hs
    | cons f fs => exact ⟨s, by simp [nextKind, hpc, hf, Kind.enabled]⟩
  | toParse done more =>
    cases more with
    | nil => exact ⟨s, by simp [nextKind, hpc, Kind.enabled]⟩
    | cons m more =>
      obtain ⟨p, w⟩ := m
      cases hl : st.lock p with
      | none => exact ⟨s, by simp [nextKind, hpc, hl, Kind.enabled]⟩
      | some s' =>
        have hin := h.own s' p hl
        refine ⟨s', ?_⟩
        cases hpc' : (st.thr s').pc with
        | parsing q rest done' more' =>
          cases rest <;> simp [nextKind, hpc', Kind.enabled]
        | _ => rw [hpc'] at hin; cases hin
  | parsing p rest done more =>
    exact ⟨s, by cases rest <;> simp [nextKind, hpc, Kind.enabled]⟩
  | exec todo rs =>
    exact ⟨s, by cases todo <;> simp [nextKind, hpc, Kind.enabled]⟩

/-- steps a thread still has to take for these members' parse sections -/
def memberWork : List (Member τ) → Nat
  | [] => 0
  | m :: rest => m.2.length + 2 + memberWork rest

/-- recv + parse sections + plan + accesses + send -/
def frameWork (f : Frame τ) : Nat := 1 + memberWork f + 1 + f.length + 1

def framesWork : List (Frame τ) → Nat
  | [] => 0
  | f :: fs => frameWork f + framesWork fs

def PC.work : PC τ α → Nat
  | .idle => 0
  | .toParse done more => memberWork more + 1 + (done.length + more.length) + 1
  | .parsing _ rest done more => rest.length + 1 + memberWork more + 1 + (done.length + 1 + more.length) + 1
  | .exec todo _ => todo.length + 1

/-- the number of steps a thread still has to take -/
def Thread.work (t : Thread τ α) : Nat := t.pc.work + framesWork t.frames

theorem step_work (exec : σ → List τ → σ × α) (st : State σ τ α) (s : Sid)
    (hen : (nextKind st s).enabled = true) :
    ((step exec st s).thr s).work + 1 = (st.thr s).work ∧
    ∀ s', s' ≠ s → ((step exec st s).thr s').work = (st.thr s').work := by
  unfold step stepWith
  unfold nextKind at hen
  dsimp only at hen ⊢
  split
  · rename_i hpc
    rw [hpc] at hen
    split
    · rename_i hf; rw [hf] at hen; simp [Kind.enabled] at hen
    · rename_i f fs hf
      refine ⟨?_, fun s' hs => by simp [upd_other _ _ _ _ hs]⟩
      simp [Thread.work, hpc, hf, PC.work, framesWork, frameWork]; omega
  · rename_i done hpc
    refine ⟨?_, fun s' hs => by simp [upd_other _ _ _ _ hs]⟩
    simp [Thread.work, hpc, PC.work, memberWork]; omega
  · rename_i done p w more hpc
    rw [hpc] at hen
    split
    · rename_i hl
      simp only [Bool.true_and] at hl
      simp [hl, Kind.enabled] at hen
    · refine ⟨?_, fun s' hs => by simp [upd_other _ _ _ _ hs]⟩
      simp [Thread.work, hpc, PC.work, memberWork]; omega
  · rename_i p b rest done more hpc
    refine ⟨?_, fun s' hs => by simp [upd_other _ _ _ _ hs]⟩
    simp [Thread.work, hpc, PC.work]; omega
  · rename_i p done more hpc
    refine ⟨?_, fun s' hs => by simp [upd_other _ _ _ _ hs]⟩
    simp [Thread.work, hpc, PC.work]; omega
  · rename_i w todo rs hpc
    refine ⟨?_, fun s' hs => by simp [upd_other _ _ _ _ hs]⟩
    simp [Thread.work, hpc, PC.work]; omega
  · rename_i rs hpc
    refine ⟨?_, fun s' hs => by simp [upd_other _ _ _ _ hs]⟩
    simp [Thread.work, hpc, PC.work]; omega

/-! ### a step of one thread leaves the other threads alone -/

theorem step_thr_other (exec : σ → List τ → σ × α) (st : State σ τ α) (s s' : Sid) (h : s' ≠ s) :
    (step exec st s).thr s' = st.thr s' := by
  unfold step stepWith
  dsimp only
  split
  · split
    · rfl
    · simp [upd_other _ _ _ _ h]
  · simp [upd_other _ _ _ _ h]
  · split
    · rfl
    · simp [upd_other _ _ _ _ h]
  all_goals simp [upd_other _ _ _ _ h]

theorem runSched_thr_of_not_mem (exec : σ → List τ → σ × α) (st : State σ τ α) (sched : List Sid) (s : Sid)
    (h : s ∉ sched) : (runSched exec st sched).thr s = st.thr s := by
  induction sched generalizing st with
  | nil => rfl
  | cons x rest ih =>
    simp only [List.mem_cons, not_or] at h
    show (runSched exec (step exec st x) rest).thr s = st.thr s
    rw [ih _ h.2, step_thr_other _ _ _ _ h.1]

end Cpppo.Concurrent
