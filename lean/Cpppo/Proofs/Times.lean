import Cpppo.Model.Times
set_option linter.unusedSimpArgs false

/-! Helper lemmas for C17 (`Cpppo.Times`): decimal digits, the civil calendar, tokenisation of a
rendering, zone tables. -/
deriving instance DecidableEq for Except

namespace Cpppo.Times

/-! ### calendar -/

theorem era_arith (doe c r1 q r2 yq doy yoe : Int) (h0 : 0 ≤ doe) (h1 : doe < 146097)
    (hc : c = if doe / 36524 ≥ 4 then 3 else doe / 36524) (hr1 : r1 = doe - 36524 * c)
    (hq : q = r1 / 1461) (hr2 : r2 = r1 % 1461)
    (hyq : yq = if r2 / 365 ≥ 4 then 3 else r2 / 365) (hdoy : doy = r2 - 365 * yq)
    (hyoe : yoe = 100 * c + 4 * q + yq) :
    0 ≤ yoe ∧ yoe ≤ 399 ∧ 0 ≤ doy ∧ doy ≤ 365 ∧ yoe * 365 + yoe / 4 - yoe / 100 + doy = doe
    ∧ (doy = 365 → (yoe + 1) % 4 = 0 ∧ ((yoe + 1) % 100 ≠ 0 ∨ yoe + 1 = 400)) := by
  have c0 : 0 ≤ c ∧ c ≤ 3 := by omega
  have r1b : 0 ≤ r1 ∧ r1 ≤ 36524 ∧ (r1 = 36524 → c = 3) := by omega
  have qb : 0 ≤ q ∧ q ≤ 24 := by omega
  have r2b : 0 ≤ r2 ∧ r2 ≤ 1460 ∧ r1 = 1461 * q + r2 := by omega
  have q24 : q = 24 → r2 = 1460 → c = 3 := by omega
  have yqb : 0 ≤ yq ∧ yq ≤ 3 := by omega
  have doyb : 0 ≤ doy ∧ doy ≤ 365 ∧ (doy = 365 → yq = 3 ∧ r2 = 1460) := by omega
  have d4 : yoe / 4 = 25 * c + q := by omega
  have d100 : yoe / 100 = c := by omega
  refine ⟨by omega, by omega, by omega, by omega, by omega, ?_⟩
  intro h
  have := doyb.2.2 h
  refine ⟨by omega, ?_⟩
  by_cases hq24 : q = 24
  · right; have := q24 hq24 this.2; omega
  · left; omega

/-- the civil date of a day number in terms of the era decomposition -/
theorem civil_spec (z : Int) : ∃ era yoe doy mp : Int,
    0 ≤ yoe ∧ yoe ≤ 399 ∧ 0 ≤ doy ∧ doy ≤ 365 ∧ 0 ≤ mp ∧ mp ≤ 11 ∧
    mp = (5 * doy + 2) / 153 ∧
    era * 146097 + (yoe * 365 + yoe / 4 - yoe / 100 + doy) = z + 719468 ∧
    (doy = 365 → (yoe + 1) % 4 = 0 ∧ ((yoe + 1) % 100 ≠ 0 ∨ yoe + 1 = 400)) ∧
    civilFromDays z =
      (yoe + era * 400 + (if (if mp < 10 then mp + 3 else mp - 9) ≤ 2 then 1 else 0),
       (if mp < 10 then mp + 3 else mp - 9), doy - (153 * mp + 2) / 5 + 1) := by
  have h := era_arith ((z + 719468) % 146097) _ _ _ _ _ _ _ (by omega) (by omega) rfl rfl rfl rfl rfl rfl rfl
  obtain ⟨a1, a2, a3, a4, a5, a6⟩ := h
  refine ⟨(z + 719468) / 146097, _, _, _, a1, a2, a3, a4, ?_, ?_, rfl, ?_, a6, rfl⟩
  · omega
  · omega
  · rw [a5]; omega

theorem daysFromCivil_spec (era yoe mp d : Int) (h1 : 0 ≤ yoe) (h2 : yoe ≤ 399) (h5 : 0 ≤ mp) (h6 : mp ≤ 11) :
    daysFromCivil (yoe + era * 400 + (if (if mp < 10 then mp + 3 else mp - 9) ≤ 2 then 1 else 0))
      (if mp < 10 then mp + 3 else mp - 9) d
    = era * 146097 + (yoe * 365 + yoe / 4 - yoe / 100 + ((153 * mp + 2) / 5 + d - 1)) - 719468 := by
  by_cases hm : mp < 10
  · rw [if_pos hm, if_neg (by omega : ¬ (mp + 3 ≤ 2))]
    unfold daysFromCivil
    simp only [if_neg (by omega : ¬ (mp + 3 ≤ 2)), if_pos (by omega : mp + 3 > 2)]
    have e4 : (yoe + era * 400 + 0) / 400 = era := by omega
    rw [e4]
    rw [show yoe + era * 400 + 0 - era * 400 = yoe by omega, show mp + 3 - 3 = mp by omega]
  · rw [if_neg hm, if_pos (by omega : mp - 9 ≤ 2)]
    unfold daysFromCivil
    simp only [if_pos (by omega : mp - 9 ≤ 2), if_neg (by omega : ¬ (mp - 9 > 2))]
    have e4 : (yoe + era * 400 + 1 - 1) / 400 = era := by omega
    rw [e4]
    rw [show yoe + era * 400 + 1 - 1 - era * 400 = yoe by omega, show mp - 9 + 9 = mp by omega]

theorem daysFromCivil_civilFromDays (z : Int) :
    daysFromCivil (civilFromDays z).1 (civilFromDays z).2.1 (civilFromDays z).2.2 = z := by
  obtain ⟨era, yoe, doy, mp, h1, h2, h3, h4, h5, h6, h7, h8, -, h10⟩ := civil_spec z
  rw [h10]
  simp only []
  rw [daysFromCivil_spec era yoe mp _ h1 h2 h5 h6]
  omega

theorem isLeap_iff (y : Int) : isLeap y = true ↔ y % 4 = 0 ∧ (y % 100 ≠ 0 ∨ y % 400 = 0) := by
  simp [isLeap]

theorem civilFromDays_valid (z : Int) :
    1 ≤ (civilFromDays z).2.1 ∧ (civilFromDays z).2.1 ≤ 12 ∧ 1 ≤ (civilFromDays z).2.2 ∧
    (civilFromDays z).2.2 ≤ daysInMonth (civilFromDays z).1 (civilFromDays z).2.1 := by
  obtain ⟨era, yoe, doy, mp, h1, h2, h3, h4, h5, h6, h7, h8, h9, h10⟩ := civil_spec z
  rw [h10]
  simp only []
  have hmp : mp = 0 ∨ mp = 1 ∨ mp = 2 ∨ mp = 3 ∨ mp = 4 ∨ mp = 5 ∨ mp = 6 ∨ mp = 7 ∨ mp = 8 ∨ mp = 9
      ∨ mp = 10 ∨ mp = 11 := by omega
  rcases hmp with hm | hm | hm | hm | hm | hm | hm | hm | hm | hm | hm | hm
  case inr.inr.inr.inr.inr.inr.inr.inr.inr.inr.inr =>
    subst hm
    refine ⟨by simp, by simp, by omega, ?_⟩
    show doy - (153 * 11 + 2) / 5 + 1 ≤ daysInMonth (yoe + era * 400 + 1) 2
    simp only [daysInMonth, beq_self_eq_true, if_true]
    by_cases hd : doy = 365
    · have := h9 hd
      rw [if_pos ((isLeap_iff _).2 ⟨by omega, by omega⟩)]
      omega
    · split <;> omega
  all_goals (subst hm; simp [daysInMonth]; omega)

theorem secsOfCivil_civilOfSecs (s : Int) : secsOfCivil (civilOfSecs s) = s := by
  simp only [secsOfCivil, civilOfSecs]
  rw [daysFromCivil_civilFromDays]
  omega

theorem civilOfSecs_fields (s : Int) :
    1 ≤ (civilOfSecs s).m ∧ (civilOfSecs s).m ≤ 12 ∧ 1 ≤ (civilOfSecs s).d ∧
    (civilOfSecs s).d ≤ daysInMonth (civilOfSecs s).y (civilOfSecs s).m ∧
    0 ≤ (civilOfSecs s).hh ∧ (civilOfSecs s).hh < 24 ∧ 0 ≤ (civilOfSecs s).mm ∧ (civilOfSecs s).mm < 60 ∧
    0 ≤ (civilOfSecs s).ss ∧ (civilOfSecs s).ss < 60 := by
  have h := civilFromDays_valid (s / 86400)
  simp only [civilOfSecs]
  refine ⟨h.1, h.2.1, h.2.2.1, h.2.2.2, ?_, ?_, ?_, ?_, ?_, ?_⟩ <;> omega

theorem daysInMonth_le (y m : Int) : daysInMonth y m ≤ 31 := by
  simp only [daysInMonth]
  split
  · split <;> omega
  · split <;> omega

theorem civilOfSecs_valid (s : Int) (h1 : 1 ≤ (civilOfSecs s).y) (h2 : (civilOfSecs s).y ≤ 9999) :
    (civilOfSecs s).valid = true := by
  have h := civilOfSecs_fields s
  simp only [Civil.valid, Bool.and_eq_true, decide_eq_true_eq]
  omega

/-! ### decimal digits -/

theorem digitVal_digitOf {k : Nat} (h : k < 10) : digitVal (digitOf k) = some k := by
  have : k = 0 ∨ k = 1 ∨ k = 2 ∨ k = 3 ∨ k = 4 ∨ k = 5 ∨ k = 6 ∨ k = 7 ∨ k = 8 ∨ k = 9 := by omega
  rcases this with rfl | rfl | rfl | rfl | rfl | rfl | rfl | rfl | rfl | rfl <;> rfl

theorem isDigit_digitOf {k : Nat} (h : k < 10) : isDigit (digitOf k) = true := by
  simp [isDigit, digitVal_digitOf h]

theorem isDigit_iff (c : Char) : isDigit c = true ↔
    c = '0' ∨ c = '1' ∨ c = '2' ∨ c = '3' ∨ c = '4' ∨ c = '5' ∨ c = '6' ∨ c = '7' ∨ c = '8' ∨ c = '9' := by
  unfold isDigit digitVal
  split <;> simp_all

/-- a digit is neither white space, nor a separator, nor a letter, nor a sign -/
theorem isDigit_props {c : Char} (h : isDigit c = true) :
    isWsOrSep c = false ∧ isWs c = false ∧ isAlpha c = false ∧ c ≠ '+' ∧ c ≠ '-' ∧ c ≠ '_'
    ∧ isDecPoint c = false := by
  rw [isDigit_iff] at h
  rcases h with rfl | rfl | rfl | rfl | rfl | rfl | rfl | rfl | rfl | rfl <;> decide

/-- every character of `l` is a decimal digit -/
def Digits (l : List Char) : Prop := ∀ c ∈ l, isDigit c = true

theorem Digits.append {a b : List Char} (ha : Digits a) (hb : Digits b) : Digits (a ++ b) := by
  intro c hc
  rcases List.mem_append.mp hc with h | h
  · exact ha c h
  · exact hb c h

theorem natDigitsAux_acc (f n : Nat) (acc : List Char) :
    natDigitsAux f n acc = natDigitsAux f n [] ++ acc := by
  induction f generalizing n acc with
  | zero => simp [natDigitsAux]
  | succ f ih =>
    simp only [natDigitsAux]
    split
    · simp
    · rw [ih (n / 10) (digitOf (n % 10) :: acc), ih (n / 10) [digitOf (n % 10)]]
      simp

theorem natDigitsAux_fuel (f n : Nat) (acc : List Char) (h : n < f) :
    natDigitsAux (f + 1) n acc = natDigitsAux f n acc := by
  induction f generalizing n acc with
  | zero => omega
  | succ f ih =>
    have e1 : natDigitsAux (f + 1 + 1) n acc = if n < 10 then digitOf n :: acc
        else natDigitsAux (f + 1) (n / 10) (digitOf (n % 10) :: acc) := rfl
    have e2 : natDigitsAux (f + 1) n acc = if n < 10 then digitOf n :: acc
        else natDigitsAux f (n / 10) (digitOf (n % 10) :: acc) := rfl
    rw [e1, e2]
    split
    · rfl
    · exact ih (n / 10) _ (by omega)

theorem natDigitsAux_fuel_ge (f n : Nat) (acc : List Char) (h : n < f) :
    natDigitsAux f n acc = natDigitsAux (n + 1) n acc := by
  induction f with
  | zero => omega
  | succ f ih =>
    by_cases hf : n < f
    · rw [natDigitsAux_fuel f n acc hf]; exact ih hf
    · have : f = n := by omega
      rw [this]

/-- the defining recursion of decimal notation -/
theorem natDigits_rec (n : Nat) :
    natDigits n = if n < 10 then [digitOf n] else natDigits (n / 10) ++ [digitOf (n % 10)] := by
  unfold natDigits
  rw [natDigitsAux]
  split
  · rfl
  · rw [natDigitsAux_acc, natDigitsAux_fuel_ge n (n / 10) [] (by omega)]

theorem natDigits_digits (n : Nat) : Digits (natDigits n) := by
  induction n using Nat.strongRecOn with
  | _ n ih =>
    rw [natDigits_rec]
    split
    · intro c hc
      simp only [List.mem_singleton] at hc
      rw [hc]; exact isDigit_digitOf (by omega)
    · apply Digits.append (ih (n / 10) (by omega))
      intro c hc
      simp only [List.mem_singleton] at hc
      rw [hc]; exact isDigit_digitOf (by omega)

theorem natDigits_ne_nil (n : Nat) : natDigits n ≠ [] := by
  rw [natDigits_rec]
  split <;> simp

theorem digitsValAcc_snoc (a : Nat) (xs : List Char) (c : Char) (d : Nat) (h : digitVal c = some d) :
    digitsValAcc a (xs ++ [c]) = (digitsValAcc a xs).map (fun v => v * 10 + d) := by
  induction xs generalizing a with
  | nil => simp [digitsValAcc, h]
  | cons x xs ih =>
    simp only [List.cons_append, digitsValAcc]
    split
    · exact ih _
    · rfl

theorem digitsValAcc_natDigits (n : Nat) : digitsValAcc 0 (natDigits n) = some n := by
  induction n using Nat.strongRecOn with
  | _ n ih =>
    rw [natDigits_rec]
    split
    · rename_i h
      simp [digitsValAcc, digitVal_digitOf h]
    · rw [digitsValAcc_snoc 0 _ _ (n % 10) (digitVal_digitOf (by omega)), ih (n / 10) (by omega)]
      simp only [Option.map_some, Option.some.injEq]
      omega

theorem digitsValAcc_append (a : Nat) (xs ys : List Char) :
    digitsValAcc a (xs ++ ys) = (digitsValAcc a xs).bind (fun v => digitsValAcc v ys) := by
  induction xs generalizing a with
  | nil => simp [digitsValAcc]
  | cons x xs ih =>
    simp only [List.cons_append, digitsValAcc]
    split
    · exact ih _
    · rfl

theorem pow10_pos (p : Nat) : 0 < pow10 p := by
  induction p with
  | zero => simp [pow10]
  | succ p ih => simp only [pow10]; omega

theorem fixDigits_digits (p k : Nat) : Digits (fixDigits p k) := by
  induction p generalizing k with
  | zero => intro c hc; simp [fixDigits] at hc
  | succ p ih =>
    intro c hc
    simp only [fixDigits, List.mem_cons] at hc
    rcases hc with rfl | hc
    · exact isDigit_digitOf (Nat.mod_lt _ (by omega))
    · exact ih _ c hc

theorem fixDigits_length (p k : Nat) : (fixDigits p k).length = p := by
  induction p generalizing k with
  | zero => rfl
  | succ p ih => simp [fixDigits, ih]

theorem digitsValAcc_fixDigits (p k a : Nat) (h : k < pow10 p) :
    digitsValAcc a (fixDigits p k) = some (a * pow10 p + k) := by
  induction p generalizing k a with
  | zero => simp only [pow10] at h; simp [fixDigits, digitsValAcc, pow10]; omega
  | succ p ih =>
    have hp := pow10_pos p
    simp only [pow10] at h
    have hq : k / pow10 p < 10 := (Nat.div_lt_iff_lt_mul hp).mpr h
    simp only [fixDigits, digitsValAcc, Nat.mod_eq_of_lt hq, digitVal_digitOf hq]
    rw [ih (k % pow10 p) _ (Nat.mod_lt _ hp)]
    simp only [pow10, Option.some.injEq]
    have := Nat.div_add_mod k (pow10 p)
    rw [Nat.add_mul, Nat.mul_assoc, Nat.add_assoc, Nat.mul_comm (k / pow10 p)]
    omega

theorem digitsValAcc_zeros (a n : Nat) : digitsValAcc a (List.replicate n '0') = some (a * pow10 n) := by
  induction n generalizing a with
  | zero => simp [digitsValAcc, pow10]
  | succ n ih =>
    simp only [List.replicate_succ, digitsValAcc]
    show digitsValAcc (a * 10 + 0) _ = _
    rw [ih]; simp only [pow10, Option.some.injEq]
    rw [Nat.add_zero, Nat.mul_assoc]

theorem pad2_digits (n : Nat) : Digits (pad2 n) := by
  intro c hc
  simp only [pad2, List.mem_cons, List.not_mem_nil, or_false] at hc
  rcases hc with rfl | rfl <;> exact isDigit_digitOf (Nat.mod_lt _ (by omega))

theorem digitsValAcc_pad2 (n : Nat) (h : n < 100) : digitsValAcc 0 (pad2 n) = some n := by
  have h1 : n / 10 % 10 < 10 := Nat.mod_lt _ (by omega)
  have h2 : n % 10 < 10 := Nat.mod_lt _ (by omega)
  simp only [pad2, digitsValAcc, digitVal_digitOf h1, digitVal_digitOf h2, Option.some.injEq]
  omega

/-- on a string of digits Python's `int` is the decimal value -/
theorem pyDigitsGo_digits (a : Nat) (s : List Char) (h : Digits s) :
    pyDigitsGo a true s = digitsValAcc a s := by
  induction s generalizing a with
  | nil => rfl
  | cons c cs ih =>
    have hc := h c (by simp)
    simp only [isDigit, Option.isSome_iff_exists] at hc
    obtain ⟨d, hd⟩ := hc
    simp only [pyDigitsGo, digitsValAcc, hd]
    exact ih _ (fun x hx => h x (by simp [hx]))

theorem pyInt_digits (s : List Char) (h : Digits s) (hne : s ≠ []) :
    pyInt s = (digitsValAcc 0 s).map Int.ofNat := by
  match s, hne with
  | c :: cs, _ =>
    have hc := h c (by simp)
    have hp := isDigit_props hc
    simp only [isDigit, Option.isSome_iff_exists] at hc
    obtain ⟨d, hd⟩ := hc
    have hgo : pyDigitsGo 0 false (c :: cs) = digitsValAcc 0 (c :: cs) := by
      simp only [pyDigitsGo, digitsValAcc, hd]
      exact pyDigitsGo_digits _ cs (fun x hx => h x (by simp [hx]))
    unfold pyInt
    split
    · rename_i heq; simp only [List.cons.injEq] at heq; exact absurd heq.1 hp.2.2.2.1
    · rename_i heq; simp only [List.cons.injEq] at heq; exact absurd heq.1 hp.2.2.2.2.1
    · rw [hgo]

/-! ### splitting a rendering into terms -/

theorem splitAux_word (isD : Char → Bool) (w cur rest : List Char) (hw : ∀ c ∈ w, isD c = false) :
    splitAux isD cur (w ++ rest) = splitAux isD (w.reverse ++ cur) rest := by
  induction w generalizing cur with
  | nil => rfl
  | cons x xs ih =>
    have hx : isD x = false := hw x (by simp)
    simp only [List.cons_append, splitAux, hx, Bool.false_eq_true, if_false]
    rw [ih _ (fun c hc => hw c (by simp [hc]))]
    simp

theorem splitOn_word_cons (isD : Char → Bool) (w : List Char) (d : Char) (rest : List Char)
    (hne : w ≠ []) (hw : ∀ c ∈ w, isD c = false) (hd : isD d = true) :
    splitOn isD (w ++ d :: rest) = w :: splitOn isD rest := by
  unfold splitOn
  rw [splitAux_word isD w [] _ hw]
  have : w.reverse.isEmpty = false := by
    cases w with
    | nil => exact absurd rfl hne
    | cons a as => simp
  simp only [splitAux, hd, if_true, List.append_nil, this, Bool.false_eq_true, if_false,
    List.reverse_reverse]

theorem splitOn_word (isD : Char → Bool) (w : List Char) (hne : w ≠ [])
    (hw : ∀ c ∈ w, isD c = false) : splitOn isD w = [w] := by
  unfold splitOn
  have h := splitAux_word isD w [] [] hw
  rw [List.append_nil] at h
  rw [h]
  have : w.reverse.isEmpty = false := by
    cases w with
    | nil => exact absurd rfl hne
    | cons a as => simp
  simp only [splitAux, List.append_nil, this, Bool.false_eq_true, if_false, List.reverse_reverse]

theorem Digits.noWsOrSep {l : List Char} (h : Digits l) : ∀ c ∈ l, isWsOrSep c = false :=
  fun c hc => (isDigit_props (h c hc)).1

theorem Digits.noWs {l : List Char} (h : Digits l) : ∀ c ∈ l, isWs c = false :=
  fun c hc => (isDigit_props (h c hc)).2.1

theorem pad2_ne_nil (n : Nat) : pad2 n ≠ [] := by simp [pad2]

/-- the date word and the time word of a rendering -/
def dateText (c : Civil) : List Char :=
  natDigits c.y.toNat ++ '-' :: (pad2 c.m.toNat ++ '-' :: pad2 c.d.toNat)

def timeText (c : Civil) (p frac : Nat) : List Char :=
  pad2 c.hh.toNat ++ ':' :: (pad2 c.mm.toNat ++ ':' :: (pad2 c.ss.toNat ++
    (if p = 0 then [] else '.' :: fixDigits p frac)))

theorem formatCivil_eq (c : Civil) (p frac : Nat) :
    formatCivil c p frac = dateText c ++ ' ' :: timeText c p frac := by
  simp [formatCivil, dateText, timeText, List.append_assoc]

/-- every character is a digit or one of `:-.` -/
def DigSep (l : List Char) : Prop := ∀ c ∈ l, isDigit c = true ∨ isSep c = true

theorem DigSep.noWs {l : List Char} (h : DigSep l) : ∀ c ∈ l, isWs c = false := by
  intro c hc
  rcases h c hc with hd | hs
  · exact (isDigit_props hd).2.1
  · simp only [isSep, Bool.or_eq_true, beq_iff_eq] at hs
    rcases hs with (rfl | rfl) | rfl <;> decide

theorem Digits.digSep {l : List Char} (h : Digits l) : DigSep l := fun c hc => Or.inl (h c hc)

theorem DigSep.append {a b : List Char} (ha : DigSep a) (hb : DigSep b) : DigSep (a ++ b) := by
  intro c hc
  rcases List.mem_append.mp hc with h | h
  · exact ha c h
  · exact hb c h

theorem DigSep.cons {c : Char} {l : List Char} (hc : isSep c = true) (hl : DigSep l) :
    DigSep (c :: l) := by
  intro x hx
  rcases List.mem_cons.mp hx with rfl | h
  · exact Or.inr hc
  · exact hl x h

theorem dateText_digSep (c : Civil) : DigSep (dateText c) := by
  unfold dateText
  exact (natDigits_digits _).digSep.append (DigSep.cons (c := '-') (by decide)
    ((pad2_digits _).digSep.append (DigSep.cons (c := '-') (by decide) (pad2_digits _).digSep)))

theorem timeText_digSep (c : Civil) (p frac : Nat) : DigSep (timeText c p frac) := by
  unfold timeText
  refine (pad2_digits _).digSep.append (DigSep.cons (c := ':') (by decide)
    ((pad2_digits _).digSep.append (DigSep.cons (c := ':') (by decide) ((pad2_digits _).digSep.append ?_))))
  split
  · intro c hc; simp at hc
  · exact DigSep.cons (c := '.') (by decide) (fixDigits_digits _ _).digSep

theorem dateText_ne_nil (c : Civil) : dateText c ≠ [] := by
  unfold dateText
  have := natDigits_ne_nil c.y.toNat
  cases h : natDigits c.y.toNat with
  | nil => exact absurd h this
  | cons a as => simp

theorem timeText_head (c : Civil) (p frac : Nat) :
    ∃ d rest, timeText c p frac = d :: rest ∧ isDigit d = true := by
  exact ⟨digitOf (c.hh.toNat / 10 % 10), _, rfl, isDigit_digitOf (Nat.mod_lt _ (by omega))⟩

theorem sep_is_delim {d : Char} (h : isSep d = true) : isWsOrSep d = true := by
  simp [isWsOrSep, h]

theorem split_dateText (c : Civil) :
    splitOn isWsOrSep (dateText c) = [natDigits c.y.toNat, pad2 c.m.toNat, pad2 c.d.toNat] := by
  unfold dateText
  rw [splitOn_word_cons isWsOrSep _ '-' _ (natDigits_ne_nil _) (natDigits_digits _).noWsOrSep (by decide),
    splitOn_word_cons isWsOrSep _ '-' _ (pad2_ne_nil _) (pad2_digits _).noWsOrSep (by decide),
    splitOn_word isWsOrSep _ (pad2_ne_nil _) (pad2_digits _).noWsOrSep]

theorem split_timeText (c : Civil) (p frac : Nat) :
    splitOn isWsOrSep (timeText c p frac) =
      [pad2 c.hh.toNat, pad2 c.mm.toNat, pad2 c.ss.toNat] ++ (if p = 0 then [] else [fixDigits p frac]) := by
  unfold timeText
  rw [splitOn_word_cons isWsOrSep _ ':' _ (pad2_ne_nil _) (pad2_digits _).noWsOrSep (by decide),
    splitOn_word_cons isWsOrSep _ ':' _ (pad2_ne_nil _) (pad2_digits _).noWsOrSep (by decide)]
  by_cases hp : p = 0
  · simp only [hp, if_true, List.append_nil]
    rw [splitOn_word isWsOrSep _ (pad2_ne_nil _) (pad2_digits _).noWsOrSep]
  · simp only [hp, if_false]
    have hne : fixDigits p frac ≠ [] := by
      intro h
      have := fixDigits_length p frac
      rw [h] at this
      exact hp this.symm
    rw [splitOn_word_cons isWsOrSep _ '.' _ (pad2_ne_nil _) (pad2_digits _).noWsOrSep (by decide),
      splitOn_word isWsOrSep _ hne (fixDigits_digits _ _).noWsOrSep]
    rfl

/-- the terms of a rendering -/
def termsOf (c : Civil) (p frac : Nat) : List (List Char) :=
  [natDigits c.y.toNat, pad2 c.m.toNat, pad2 c.d.toNat, pad2 c.hh.toNat, pad2 c.mm.toNat, pad2 c.ss.toNat]
    ++ (if p = 0 then [] else [fixDigits p frac])

/-- a trailing word that the (repaired) parser takes for a time zone: not empty, no white space,
not starting with a digit -/
def ZoneWord (w : List Char) : Prop :=
  (∀ c ∈ w, isWs c = false) ∧ ∃ a rest, w = a :: rest ∧ isDigit a = false

theorem tokenize_plain (c : Civil) (p frac : Nat) :
    tokenize true (formatCivil c p frac) = .ok (termsOf c p frac, none) := by
  rw [formatCivil_eq]
  have hsplit : splitOn isWs (dateText c ++ ' ' :: timeText c p frac) = [dateText c, timeText c p frac] := by
    rw [splitOn_word_cons isWs _ ' ' _ (dateText_ne_nil c) (dateText_digSep c).noWs (by decide)]
    obtain ⟨d, rest, hd, _⟩ := timeText_head c p frac
    rw [splitOn_word isWs _ (by rw [hd]; simp) (timeText_digSep c p frac).noWs]
  obtain ⟨d, rest, hd, hdig⟩ := timeText_head c p frac
  simp only [tokenize, if_true, hsplit, List.reverse_cons, List.reverse_nil, List.nil_append,
    List.cons_append]
  rw [hd]
  simp only [hdig, if_true]
  rw [← hd]
  simp only [List.flatMap_cons, List.flatMap_nil, List.append_nil, split_dateText, split_timeText, termsOf]
  rfl

theorem tokenize_zone (c : Civil) (p frac : Nat) (w : List Char) (hw : ZoneWord w) :
    tokenize true (formatCivil c p frac ++ ' ' :: w) = .ok (termsOf c p frac, some w) := by
  rw [formatCivil_eq]
  obtain ⟨hws, a, rest, hwa, hnd⟩ := hw
  obtain ⟨d, rest', hd, hdig⟩ := timeText_head c p frac
  have hsplit : splitOn isWs ((dateText c ++ ' ' :: timeText c p frac) ++ ' ' :: w)
      = [dateText c, timeText c p frac, w] := by
    rw [List.append_assoc, List.cons_append]
    rw [splitOn_word_cons isWs _ ' ' _ (dateText_ne_nil c) (dateText_digSep c).noWs (by decide),
      splitOn_word_cons isWs _ ' ' _ (by rw [hd]; simp) (timeText_digSep c p frac).noWs (by decide),
      splitOn_word isWs _ (by rw [hwa]; simp) hws]
  simp only [tokenize, if_true, hsplit, List.reverse_cons, List.reverse_nil, List.nil_append,
    List.cons_append]
  rw [hwa]
  simp only [hnd, Bool.false_eq_true, if_false]
  simp only [List.reverse_cons, List.reverse_nil, List.nil_append, List.cons_append,
    List.flatMap_cons, List.flatMap_nil, List.append_nil, split_dateText, split_timeText, termsOf]

/-! ### reading the terms back -/

theorem pyInt_natDigits (n : Nat) : pyInt (natDigits n) = some (n : Int) := by
  rw [pyInt_digits _ (natDigits_digits n) (natDigits_ne_nil n), digitsValAcc_natDigits]; rfl

theorem pyInt_pad2 (n : Nat) (h : n < 100) : pyInt (pad2 n) = some (n : Int) := by
  rw [pyInt_digits _ (pad2_digits n) (pad2_ne_nil n), digitsValAcc_pad2 n h]; rfl

theorem pyInt_padFraction (p frac : Nat) (hp1 : 1 ≤ p) (hp : p ≤ 6) (hf : frac < pow10 p) :
    pyInt (padFraction (fixDigits p frac)) = some ((frac * pow10 (6 - p) : Nat) : Int) := by
  have hd : Digits (padFraction (fixDigits p frac)) := by
    unfold padFraction
    apply (fixDigits_digits p frac).append
    intro c hc
    rw [List.mem_replicate] at hc
    rw [hc.2]; decide
  have hne : padFraction (fixDigits p frac) ≠ [] := by
    unfold padFraction
    intro h
    have := congrArg List.length h
    simp only [List.length_append, fixDigits_length, List.length_replicate, List.length_nil] at this
    omega
  rw [pyInt_digits _ hd hne]
  unfold padFraction
  rw [digitsValAcc_append, digitsValAcc_fixDigits p frac 0 hf, fixDigits_length]
  simp only [Nat.zero_mul, Nat.zero_add, Option.bind_some, digitsValAcc_zeros, Option.map_some]
  rfl

theorem readTerms_termsOf (c : Civil) (p frac : Nat) (hv : c.valid = true) (hp : p ≤ 6)
    (hf : frac < pow10 p) :
    readTerms (termsOf c p frac) = .ok (c, if p = 0 then 0 else ((frac * pow10 (6 - p) : Nat) : Int)) := by
  simp only [Civil.valid, Bool.and_eq_true, decide_eq_true_eq] at hv
  have hdim := daysInMonth_le c.y c.m
  have ey : ((c.y.toNat : Nat) : Int) = c.y := Int.toNat_of_nonneg (by omega)
  have em : ((c.m.toNat : Nat) : Int) = c.m := Int.toNat_of_nonneg (by omega)
  have ed : ((c.d.toNat : Nat) : Int) = c.d := Int.toNat_of_nonneg (by omega)
  have eh : ((c.hh.toNat : Nat) : Int) = c.hh := Int.toNat_of_nonneg (by omega)
  have emi : ((c.mm.toNat : Nat) : Int) = c.mm := Int.toNat_of_nonneg (by omega)
  have es : ((c.ss.toNat : Nat) : Int) = c.ss := Int.toNat_of_nonneg (by omega)
  have i1 := pyInt_natDigits c.y.toNat
  have i2 := pyInt_pad2 c.m.toNat (by omega)
  have i3 := pyInt_pad2 c.d.toNat (by omega)
  have i4 := pyInt_pad2 c.hh.toNat (by omega)
  have i5 := pyInt_pad2 c.mm.toNat (by omega)
  have i6 := pyInt_pad2 c.ss.toNat (by omega)
  rw [ey] at i1; rw [em] at i2; rw [ed] at i3; rw [eh] at i4; rw [emi] at i5; rw [es] at i6
  have hvalid : c.valid = true := by
    simp only [Civil.valid, Bool.and_eq_true, decide_eq_true_eq]; exact hv
  by_cases hp0 : p = 0
  · simp only [hp0, if_true, termsOf, List.append_nil, readTerms, List.length_cons, List.length_nil,
      mapInts, i1, i2, i3, i4, i5, i6]
    simp [hvalid]
  · have i7 := pyInt_padFraction p frac (by omega) hp hf
    have hlt : ((frac * pow10 (6 - p) : Nat) : Int) < 1000000 := by
      have h6 : pow10 p * pow10 (6 - p) = 1000000 := by
        have : p = 1 ∨ p = 2 ∨ p = 3 ∨ p = 4 ∨ p = 5 ∨ p = 6 := by omega
        rcases this with rfl | rfl | rfl | rfl | rfl | rfl <;> rfl
      have hpos := pow10_pos (6 - p)
      have : frac * pow10 (6 - p) < pow10 p * pow10 (6 - p) := Nat.mul_lt_mul_of_pos_right hf hpos
      omega
    simp only [hp0, if_false, termsOf, List.cons_append, List.nil_append, readTerms, List.length_cons,
      List.length_nil, mapInts, i1, i2, i3, i4, i5, i6, i7]
    simp [hvalid]
    omega

/-! ### rounding -/

theorem pow10_six (p : Nat) (hp : p ≤ 6) : pow10 p * pow10 (6 - p) = 1000000 := by
  have : p = 0 ∨ p = 1 ∨ p = 2 ∨ p = 3 ∨ p = 4 ∨ p = 5 ∨ p = 6 := by omega
  rcases this with rfl | rfl | rfl | rfl | rfl | rfl | rfl <;> rfl

/-- `roundTo` with the quantum made explicit -/
theorem roundTo_spec (p : Nat) (μ bias : Int) (hp : p ≤ 6) :
    ∃ k : Int, roundTo p μ bias = k * (pow10 (6 - p) : Nat) ∧
      2 * (roundTo p μ bias - μ) ≤ (pow10 (6 - p) : Nat) ∧ 2 * (μ - roundTo p μ bias) ≤ (pow10 (6 - p) : Nat) := by
  have : p = 0 ∨ p = 1 ∨ p = 2 ∨ p = 3 ∨ p = 4 ∨ p = 5 ∨ p = 6 := by omega
  rcases this with rfl | rfl | rfl | rfl | rfl | rfl | rfl
  all_goals
    simp only [roundTo]
    first
      | rw [show ((pow10 (6 - 0) : Nat) : Int) = 1000000 from rfl]
      | rw [show ((pow10 (6 - 1) : Nat) : Int) = 100000 from rfl]
      | rw [show ((pow10 (6 - 2) : Nat) : Int) = 10000 from rfl]
      | rw [show ((pow10 (6 - 3) : Nat) : Int) = 1000 from rfl]
      | rw [show ((pow10 (6 - 4) : Nat) : Int) = 100 from rfl]
      | rw [show ((pow10 (6 - 5) : Nat) : Int) = 10 from rfl]
      | rw [show ((pow10 (6 - 6) : Nat) : Int) = 1 from rfl]
    split
    · exact ⟨_, rfl, by omega, by omega⟩
    · split
      · exact ⟨_, rfl, by omega, by omega⟩
      · split
        · exact ⟨_, rfl, by omega, by omega⟩
        · split
          · exact ⟨_, rfl, by omega, by omega⟩
          · split
            · exact ⟨_, rfl, by omega, by omega⟩
            · exact ⟨_, rfl, by omega, by omega⟩

/-! ### zone tables -/

theorem transWf_cons (c : Int) (g : Option Int) (t : Int) (p : Period) (rest : List (Int × Period)) :
    transWf c g ((t, p) :: rest) = true ↔
      (∀ h, g = some h → h ≤ t + min c p.off) ∧ transWf p.off (some (t + max c p.off)) rest = true := by
  cases g <;> simp [transWf]

/-- in a well-formed table every later transition starts at or after `h - c` -/
theorem transWf_lower (c h : Int) (T : List (Int × Period)) (hwf : transWf c (some h) T = true) :
    ∀ x ∈ T, h - c ≤ x.1 := by
  induction T generalizing c h with
  | nil => intro x hx; simp at hx
  | cons tp rest ih =>
    obtain ⟨t, p⟩ := tp
    rw [transWf_cons] at hwf
    have h1 := hwf.1 h rfl
    intro x hx
    rcases List.mem_cons.mp hx with rfl | hx
    · show h - c ≤ t; omega
    · have := ih _ _ hwf.2 x hx; omega

/-- no transition of `T` has been reached at UTC second `u` -/
theorem walkU_before (cur : Period) (T : List (Int × Period)) (u : Int) (h : ∀ x ∈ T, u < x.1) :
    walkU cur T u = cur := by
  cases T with
  | nil => rfl
  | cons tp rest =>
    obtain ⟨t, p⟩ := tp
    have := h (t, p) (by simp)
    simp only [walkU]
    rw [if_neg (by omega)]

/-- **Lemma B**: if the wall second lies before the fold-1 threshold of the first transition,
its only possible preimage is in the current period -/
theorem pre_in_cur (w : Int) (cur : Period) (g : Option Int) (T : List (Int × Period))
    (hwf : transWf cur.off g T = true)
    (hw : ∀ t p rest, T = (t, p) :: rest → w < t + min cur.off p.off) :
    (∀ u, u + (walkU cur T u).off = w → u = w - cur.off) ∧
    walkU cur T (w - cur.off) = cur := by
  induction T generalizing cur g with
  | nil => simp only [walkU]; exact ⟨by intros; omega, trivial⟩
  | cons tp rest ih =>
    obtain ⟨t, p⟩ := tp
    have hw0 := hw t p rest rfl
    rw [transWf_cons] at hwf
    have ih' := ih p _ hwf.2 (by
      intro t' p' rest' hr
      rw [hr, transWf_cons] at hwf
      have := hwf.2.1 _ rfl
      omega)
    constructor
    · intro u hu
      simp only [walkU] at hu
      split at hu
      · have := ih'.1 u hu; omega
      · omega
    · simp only [walkU]
      rw [if_neg (by omega)]

theorem wallThreshold_false (t a b : Int) : wallThreshold false t a b = t + max a b := by
  simp [wallThreshold]

theorem wallThreshold_true (t a b : Int) : wallThreshold true t a b = t + min a b := by
  simp [wallThreshold]

theorem walkW_cons_pos (fold : Bool) (cur : Period) (t : Int) (p : Period) (rest : List (Int × Period))
    (w : Int) (h : wallThreshold fold t cur.off p.off ≤ w) :
    walkW fold cur ((t, p) :: rest) w = walkW fold p rest w := by
  simp [walkW, h]

theorem walkW_cons_neg (fold : Bool) (cur : Period) (t : Int) (p : Period) (rest : List (Int × Period))
    (w : Int) (h : ¬ wallThreshold fold t cur.off p.off ≤ w) :
    walkW fold cur ((t, p) :: rest) w = cur := by
  simp [walkW, h]

/-- the fold-1 walk stops at the current period when `w` is before the next fold-1 threshold -/
theorem walkW_stop (fold : Bool) (w : Int) (cur : Period) (T : List (Int × Period))
    (hw : ∀ t p rest, T = (t, p) :: rest → w < wallThreshold fold t cur.off p.off) :
    walkW fold cur T w = cur := by
  cases T with
  | nil => rfl
  | cons tp rest =>
    obtain ⟨t, p⟩ := tp
    have := hw t p rest rfl
    exact walkW_cons_neg _ _ _ _ _ _ (by omega)

/-- the three possible situations of a wall second in a zone -/
inductive Situation (cur : Period) (T : List (Int × Period)) (w : Int) : Prop where
  | unique (P : Period) (h0 : walkW false cur T w = P) (h1 : walkW true cur T w = P)
      (hper : walkU cur T (w - P.off) = P)
      (huniq : ∀ u, u + (walkU cur T u).off = w → u = w - P.off)
  | gap (hoff : (walkW false cur T w).off < (walkW true cur T w).off)
      (hnone : ∀ u, u + (walkU cur T u).off ≠ w)
  | overlap (hoff : (walkW true cur T w).off < (walkW false cur T w).off)
      (hper0 : walkU cur T (w - (walkW false cur T w).off) = walkW false cur T w)
      (hper1 : walkU cur T (w - (walkW true cur T w).off) = walkW true cur T w)
      (hall : ∀ u, u + (walkU cur T u).off = w →
        u = w - (walkW false cur T w).off ∨ u = w - (walkW true cur T w).off)

theorem situation (w : Int) (cur : Period) (g : Option Int) (T : List (Int × Period))
    (hwf : transWf cur.off g T = true) : Situation cur T w := by
  induction T generalizing cur g with
  | nil =>
    exact .unique cur rfl rfl rfl (by intro u hu; simp only [walkU] at hu; omega)
  | cons tp rest ih =>
    obtain ⟨t, p⟩ := tp
    rw [transWf_cons] at hwf
    have hsorted := transWf_lower _ _ _ hwf.2
    by_cases ha : t + max cur.off p.off ≤ w
    · -- both folds step over the transition; preimages are those of the rest
      have e0 : walkW false cur ((t, p) :: rest) w = walkW false p rest w :=
        walkW_cons_pos _ _ _ _ _ _ (by rw [wallThreshold_false]; exact ha)
      have e1 : walkW true cur ((t, p) :: rest) w = walkW true p rest w :=
        walkW_cons_pos _ _ _ _ _ _ (by rw [wallThreshold_true]; omega)
      have hbefore : ∀ u, ¬ t ≤ u → walkU p rest u = p := fun u hu =>
        walkU_before p rest u (by intro x hx; have := hsorted x hx; omega)
      have eU : ∀ u, u + (walkU cur ((t, p) :: rest) u).off = w ↔ u + (walkU p rest u).off = w := by
        intro u
        simp only [walkU]
        by_cases hu : t ≤ u
        · rw [if_pos hu]
        · rw [if_neg hu, hbefore u hu]; omega
      -- a preimage in the rest of the table lies at or after this transition
      have eP : ∀ u, u + (walkU p rest u).off = w →
          walkU cur ((t, p) :: rest) u = walkU p rest u := by
        intro u hu
        simp only [walkU]
        by_cases hge : t ≤ u
        · rw [if_pos hge]
        · rw [hbefore u hge] at hu; omega
      rcases ih p _ hwf.2 with ⟨P, h0, h1, hper, huniq⟩ | ⟨hoff, hnone⟩ | ⟨hoff, hper0, hper1, hall⟩
      · refine .unique P (e0 ▸ h0) (e1 ▸ h1) ?_ (fun u hu => huniq u ((eU u).1 hu))
        rw [eP _ (by rw [hper]; omega), hper]
      · exact .gap (by rw [e0, e1]; exact hoff) (fun u hu => hnone u ((eU u).1 hu))
      · refine .overlap (by rw [e0, e1]; exact hoff) ?_ ?_ ?_
        · rw [e0, eP _ (by rw [hper0]; omega), hper0]
        · rw [e1, eP _ (by rw [hper1]; omega), hper1]
        · intro u hu; rw [e0, e1]; exact hall u ((eU u).1 hu)
    · have e0 : walkW false cur ((t, p) :: rest) w = cur :=
        walkW_cons_neg _ _ _ _ _ _ (by rw [wallThreshold_false]; exact ha)
      have hnext : ∀ t' p' rest', rest = (t', p') :: rest' → t + max cur.off p.off ≤ t' + min p.off p'.off := by
        intro t' p' rest' hr
        rw [hr, transWf_cons] at hwf
        exact hwf.2.1 _ rfl
      by_cases hb : t + min cur.off p.off ≤ w
      · -- inside the confusion interval of this transition
        have e1 : walkW true cur ((t, p) :: rest) w = p := by
          rw [walkW_cons_pos _ _ _ _ _ _ (by rw [wallThreshold_true]; exact hb)]
          exact walkW_stop true w p rest (by
            intro t' p' rest' hr
            have := hnext t' p' rest' hr
            rw [wallThreshold_true]; omega)
        have hB := pre_in_cur w p _ rest hwf.2 (by
          intro t' p' rest' hr; have := hnext t' p' rest' hr; omega)
        by_cases hlt : cur.off < p.off
        · refine .gap (by rw [e0, e1]; exact hlt) ?_
          intro u hu
          simp only [walkU] at hu
          split at hu
          · have := hB.1 u hu; omega
          · omega
        · refine .overlap (by rw [e0, e1]; omega) ?_ ?_ ?_
          · rw [e0]; simp only [walkU]; rw [if_neg (by omega)]
          · rw [e1]; simp only [walkU]; rw [if_pos (by omega)]; exact hB.2
          · intro u hu
            rw [e0, e1]
            simp only [walkU] at hu
            split at hu
            · right; exact hB.1 u hu
            · left; omega
      · have e1 : walkW true cur ((t, p) :: rest) w = cur :=
          walkW_cons_neg _ _ _ _ _ _ (by rw [wallThreshold_true]; exact hb)
        have hB := pre_in_cur w cur g ((t, p) :: rest) (by rw [transWf_cons]; exact hwf) (by
          intro t' p' rest' hr
          simp only [List.cons.injEq, Prod.mk.injEq] at hr
          obtain ⟨⟨rfl, rfl⟩, -⟩ := hr
          omega)
        exact .unique cur e0 e1 hB.2 hB.1

/-- `u` is a UTC second whose local time in zone `z` is the wall-clock second `w` -/
def IsPre (z : Zone) (w u : Int) : Prop := u + (periodAt z u).off = w

/-- the year of UTC second `u` is one `datetime` can hold -/
def InRange (u : Int) : Prop := 1 ≤ (civilOfSecs u).y ∧ (civilOfSecs u).y ≤ 9999

instance (u : Int) : Decidable (InRange u) := by unfold InRange; infer_instance

theorem zone_situation (z : Zone) (hwf : z.wf = true) (w : Int) : Situation z.first z.trans w :=
  situation w z.first none z.trans hwf

theorem localize_range (z : Zone) (flag : Option Bool) (w u : Int) (h : localize z flag w = .ok u) :
    InRange (w - (wallPeriod false z w).off) := by
  unfold localize at h
  simp only [] at h
  split at h
  · exact absurd h (by simp)
  · rename_i hr
    simp only [Bool.or_eq_true, decide_eq_true_eq, not_or, Int.not_lt] at hr
    exact ⟨hr.1, hr.2⟩

/-- unconditionally: what `localize` returns for an undesignated zone is a preimage of the wall time -/
theorem localize_sound (z : Zone) (w u : Int) (h : localize z none w = .ok u) : IsPre z w u := by
  unfold localize at h
  simp only [] at h
  split at h
  · exact absurd h (by simp)
  · split at h
    · exact absurd h (by simp)
    · rename_i himg
      split at h
      · exact absurd h (by simp)
      · simp only [Except.ok.injEq] at h
        subst h
        simpa [IsPre] using himg

theorem localize_eq (z : Zone) (flag : Option Bool) (w : Int) :
    localize z flag w =
      (if (civilOfSecs (w - (wallPeriod false z w).off)).y < 1 ||
          (civilOfSecs (w - (wallPeriod false z w).off)).y > 9999 then .error .value
       else
        let p0 := wallPeriod false z w
        let p1 := wallPeriod true z w
        let u0 := w - p0.off
        let imaginary := u0 + (periodAt z u0).off != w
        let ambiguous := !imaginary && p0.off != p1.off
        match flag with
        | none =>
          if imaginary then .error .nonexistent
          else if ambiguous then .error .ambiguous
          else .ok u0
        | some flag =>
          if ambiguous || imaginary then
            let enfoldedDst := if p0.dst == p1.dst then decide (p1.off > p0.off) else p1.dst
            .ok (if flag == enfoldedDst then w - p1.off else u0)
          else .ok u0) := rfl

theorem inRange_iff (u : Int) :
    ((civilOfSecs u).y < 1 || (civilOfSecs u).y > 9999) = false ↔ InRange u := by
  simp only [InRange, Bool.or_eq_false_iff, decide_eq_false_iff_not, Int.not_lt, gt_iff_lt]

theorem localize_unique_case (z : Zone) (w : Int) (P : Period)
    (h0 : wallPeriod false z w = P) (h1 : wallPeriod true z w = P)
    (hpre : IsPre z w (w - P.off)) (hr : InRange (w - P.off)) (flag : Option Bool) :
    localize z flag w = .ok (w - P.off) := by
  rw [localize_eq, h0, h1]
  rw [if_neg (by rw [Bool.not_eq_true]; exact (inRange_iff _).2 hr)]
  unfold IsPre at hpre
  cases flag <;> simp [hpre]

theorem localize_gap_case (z : Zone) (w : Int)
    (hnone : ∀ u, ¬ IsPre z w u) (hr : InRange (w - (wallPeriod false z w).off)) :
    localize z none w = .error .nonexistent := by
  rw [localize_eq]
  rw [if_neg (by rw [Bool.not_eq_true]; exact (inRange_iff _).2 hr)]
  have := hnone (w - (wallPeriod false z w).off)
  unfold IsPre at this
  simp [this]

theorem localize_overlap_case (z : Zone) (w : Int)
    (hoff : (wallPeriod true z w).off < (wallPeriod false z w).off)
    (hpre0 : IsPre z w (w - (wallPeriod false z w).off))
    (hr : InRange (w - (wallPeriod false z w).off)) :
    localize z none w = .error .ambiguous := by
  rw [localize_eq]
  rw [if_neg (by rw [Bool.not_eq_true]; exact (inRange_iff _).2 hr)]
  unfold IsPre at hpre0
  have : (wallPeriod false z w).off ≠ (wallPeriod true z w).off := by omega
  simp [hpre0, this]

/-- with a daylight-saving designation an ambiguous wall time is resolved, not refused -/
theorem localize_overlap_flag (z : Zone) (w : Int) (flag : Bool)
    (hoff : (wallPeriod true z w).off < (wallPeriod false z w).off)
    (hpre0 : IsPre z w (w - (wallPeriod false z w).off))
    (hr : InRange (w - (wallPeriod false z w).off)) :
    localize z (some flag) w = .ok
      (if flag == (if (wallPeriod false z w).dst == (wallPeriod true z w).dst
                   then decide ((wallPeriod true z w).off > (wallPeriod false z w).off)
                   else (wallPeriod true z w).dst)
       then w - (wallPeriod true z w).off else w - (wallPeriod false z w).off) := by
  rw [localize_eq]
  rw [if_neg (by rw [Bool.not_eq_true]; exact (inRange_iff _).2 hr)]
  unfold IsPre at hpre0
  have : (wallPeriod false z w).off ≠ (wallPeriod true z w).off := by omega
  simp [hpre0, this]

theorem localize_out_of_range (z : Zone) (flag : Option Bool) (w : Int)
    (hr : ¬ InRange (w - (wallPeriod false z w).off)) : localize z flag w = .error .value := by
  rw [localize_eq]
  rw [if_pos]
  rw [← Bool.not_eq_false, inRange_iff]; exact hr


/-! ### parsing a rendering -/

/-- the microseconds term that the parser reads from `p` fraction digits `frac` -/
def microOf (p frac : Nat) : Int := if p = 0 then 0 else ((frac * pow10 (6 - p) : Nat) : Int)

theorem parse_format_plain (db : TzDb) (c : Civil) (p frac : Nat) (hv : c.valid = true) (hp : p ≤ 6)
    (hf : frac < pow10 p) :
    parse db (formatCivil c p frac) = instantOf utcZone none c (microOf p frac) := by
  unfold parse parseWith
  rw [tokenize_plain]
  simp only [resolveZone, readTerms_termsOf c p frac hv hp hf, microOf]

theorem parse_format_zone (db : TzDb) (c : Civil) (p frac : Nat) (hv : c.valid = true) (hp : p ≤ 6)
    (hf : frac < pow10 p) (w : List Char) (hw : ZoneWord w) (z : Zone) (flag : Option Bool)
    (hdb : db.info w = .ok (z, flag)) :
    parse db (formatCivil c p frac ++ ' ' :: w) = instantOf z flag c (microOf p frac) := by
  unfold parse parseWith
  rw [tokenize_zone c p frac w hw]
  simp only [resolveZone, hdb, readTerms_termsOf c p frac hv hp hf, microOf]

theorem parse_format_nozone (db : TzDb) (c : Civil) (p frac : Nat) (w : List Char) (hw : ZoneWord w)
    (e : Reject) (hdb : db.info w = .error e) :
    parse db (formatCivil c p frac ++ ' ' :: w) = .error e := by
  unfold parse parseWith
  rw [tokenize_zone c p frac w hw]
  simp only [resolveZone, hdb]

/-- the fraction digits of a rounded instant denote exactly its sub-second part -/
theorem micro_of_rounded (p : Nat) (μ bias : Int) (hp1 : 1 ≤ p) (hp : p ≤ 6) :
    microOf p ((roundTo p μ bias % 1000000).toNat / pow10 (6 - p)) = roundTo p μ bias % 1000000 := by
  obtain ⟨k, hk, -, -⟩ := roundTo_spec p μ bias hp
  generalize roundTo p μ bias = v at hk ⊢
  have : p = 1 ∨ p = 2 ∨ p = 3 ∨ p = 4 ∨ p = 5 ∨ p = 6 := by omega
  rcases this with rfl | rfl | rfl | rfl | rfl | rfl
  all_goals
    simp only [microOf]
    first
      | rw [show pow10 (6 - 1) = 100000 from rfl] at hk ⊢
      | rw [show pow10 (6 - 2) = 10000 from rfl] at hk ⊢
      | rw [show pow10 (6 - 3) = 1000 from rfl] at hk ⊢
      | rw [show pow10 (6 - 4) = 100 from rfl] at hk ⊢
      | rw [show pow10 (6 - 5) = 10 from rfl] at hk ⊢
      | rw [show pow10 (6 - 6) = 1 from rfl] at hk ⊢
    rw [if_neg (by decide)]
    omega

theorem frac_lt (p : Nat) (hp : p ≤ 6) (s : Nat) (hs : s < 1000000) : s / pow10 (6 - p) < pow10 p := by
  rw [Nat.div_lt_iff_lt_mul (pow10_pos _), pow10_six p hp]; exact hs

/-! ### durations -/

/-- one `{n}{unit}` item of `duration._format` (omitted when `n = 0`) -/
def durItem (n : Nat) (u : String) : List Char := if n = 0 then [] else natDigits n ++ u.toList

theorem unitText_nat (n : Nat) (u : String) : unitText (n : Int) u = durItem n u := by
  unfold unitText durItem intDigits
  by_cases h : n = 0
  · subst h; simp
  · have h1 : ¬ ((n : Int) = 0) := by omega
    have h2 : ¬ ((n : Int) < 0) := by omega
    simp only [h, h1, h2, if_false, Int.toNat_natCast]

/-- the sub-minute tail of `duration._format` -/
def durTail (S s micro : Nat) : List Char :=
  let isUs := micro % 1000 > 0
  let isMs := micro / 1000 > 0
  if isMs && (s > 0 || isUs) then
    rstripZeros (natDigits s ++ '.' :: fixDigits 6 micro) ++ ['s']
  else if micro > 0 || s > 0 then
    (if s = 0 then [] else natDigits s ++ ['s'])
      ++ (if isUs then natDigits micro ++ "us".toList
          else if isMs then natDigits (micro / 1000) ++ "ms".toList else [])
  else if micro = 0 && S = 0 then "0s".toList
  else []

/-- `durFormat` on a non-negative count, in natural-number arithmetic -/
theorem durFormat_nat (cfg : DurCfg) (d : Nat) :
    durFormat cfg (d : Int) =
      let S := d / 1000000
      let micro := d % 1000000
      let ySecs := S % cfg.yr
      let wSecs := ySecs % cfg.wk
      let dSecs := wSecs % cfg.dy
      let hSecs := dSecs % cfg.hr
      durItem (S / cfg.yr) "y" ++ durItem (ySecs / cfg.wk) "w" ++ durItem (wSecs / cfg.dy) "d"
        ++ durItem (dSecs / cfg.hr) "h" ++ durItem (hSecs / cfg.mn) "m" ++ durTail S (hSecs % cfg.mn) micro := by
  unfold durFormat
  have e1 : ((d : Int) / 1000000) = ((d / 1000000 : Nat) : Int) := by omega
  have e2 : ((d : Int) % 1000000).toNat = d % 1000000 := by omega
  simp only [e1, e2]
  have e3 : (((d / 1000000 : Nat) : Int) / (cfg.yr : Int)) = (((d / 1000000) / cfg.yr : Nat) : Int) :=
    (Int.natCast_ediv _ _).symm
  have e4 : (((d / 1000000 : Nat) : Int) % (cfg.yr : Int)).toNat = (d / 1000000) % cfg.yr := by
    rw [← Int.natCast_emod]; exact Int.toNat_natCast _
  have e5 : (((d / 1000000 : Nat) : Int) = 0) = (d / 1000000 = 0) := by
    apply propext; omega
  simp only [e3, e4, unitText_nat, durTail, e5]

/-- `text` parses (for every sufficient fuel) from state `(next, f)` to the fields `r` -/
def Parses (tbl : UnitTable) (next : Nat) (f : DurFields) (text : List Char) (r : DurFields) : Prop :=
  ∀ fuel, text.length + 1 ≤ fuel → durItems tbl fuel next f text = some r

/-- the rest of the text does not continue a unit word -/
def StartsOk (rest : List Char) : Prop := rest = [] ∨ ∃ c r, rest = c :: r ∧ isDigit c = true

theorem Parses_nil (tbl : UnitTable) (next : Nat) (f : DurFields) : Parses tbl next f [] f := by
  intro fuel hf
  match fuel, hf with
  | k + 1, _ => simp [durItems, dropWs]

theorem spanDigits_append (ds rest : List Char) (hd : Digits ds)
    (hr : ∀ c r, rest = c :: r → isDigit c = false) :
    spanDigits (ds ++ rest) = (ds, rest) := by
  induction ds with
  | nil =>
    cases rest with
    | nil => rfl
    | cons c r => simp [spanDigits, hr c r rfl]
  | cons d ds ih =>
    have h1 : isDigit d = true := hd d (by simp)
    simp only [List.cons_append, spanDigits, h1, if_true]
    rw [ih (fun c hc => hd c (by simp [hc]))]

theorem spanAlpha_append (w rest : List Char) (hw : ∀ c ∈ w, isAlpha c = true)
    (hr : ∀ c r, rest = c :: r → isAlpha c = false) :
    spanAlpha (w ++ rest) = (w, rest) := by
  induction w with
  | nil =>
    cases rest with
    | nil => rfl
    | cons c r => simp [spanAlpha, hr c r rfl]
  | cons d ds ih =>
    have h1 : isAlpha d = true := hw d (by simp)
    simp only [List.cons_append, spanAlpha, h1, if_true]
    rw [ih (fun c hc => hw c (by simp [hc]))]

/-- a unit word: letters only -/
def UnitWord (u : List Char) : Prop :=
  u ≠ [] ∧ ∀ c ∈ u, isAlpha c = true ∧ isDigit c = false ∧ isWs c = false ∧ isDecPoint c = false

theorem dropWs_of_head (c : Char) (r : List Char) (h : isWs c = false) : dropWs (c :: r) = c :: r := by
  simp [dropWs, h]

theorem StartsOk.notAlpha {rest : List Char} (h : StartsOk rest) :
    ∀ c r, rest = c :: r → isAlpha c = false := by
  intro c r hr
  rcases h with h | ⟨c', r', h, hd⟩
  · rw [h] at hr; exact absurd hr (by simp)
  · rw [h] at hr; simp only [List.cons.injEq] at hr; rw [← hr.1]; exact (isDigit_props hd).2.2.1

/-- one `{n}{unit}` item is consumed and sets its group -/
theorem Parses_item (tbl : UnitTable) (next idx n : Nat) (f r : DurFields) (u rest : List Char)
    (hu : UnitWord u) (hidx : unitIndex tbl u = some idx) (hnext : next ≤ idx) (hrest : StartsOk rest)
    (h : Parses tbl (idx + 1) (f.set idx n) rest r) :
    Parses tbl next f (natDigits n ++ (u ++ rest)) r := by
  intro fuel hf
  obtain ⟨hne, hchars⟩ := hu
  have hdne := natDigits_ne_nil n
  have hdig := natDigits_digits n
  match fuel, hf with
  | k + 1, hf =>
    obtain ⟨d, ds, hd⟩ : ∃ d ds, natDigits n = d :: ds := by
      cases hnd : natDigits n with
      | nil => exact absurd hnd hdne
      | cons d ds => exact ⟨d, ds, rfl⟩
    obtain ⟨a, as, ha⟩ : ∃ a as, u = a :: as := by
      cases hu' : u with
      | nil => exact absurd hu' hne
      | cons a as => exact ⟨a, as, rfl⟩
    have hd1 : isDigit d = true := hdig d (by rw [hd]; simp)
    have ha1 := hchars a (by rw [ha]; simp)
    have hspan : spanDigits (natDigits n ++ (u ++ rest)) = (natDigits n, u ++ rest) :=
      spanDigits_append _ _ hdig (by
        intro c r' hc; rw [ha] at hc; simp only [List.cons_append, List.cons.injEq] at hc
        rw [← hc.1]; exact ha1.2.1)
    have hspanA : spanAlpha (u ++ rest) = (u, rest) :=
      spanAlpha_append _ _ (fun c hc => (hchars c hc).1) hrest.notAlpha
    have hlen : rest.length + 1 ≤ k := by
      simp only [List.length_append] at hf
      have : 1 ≤ (natDigits n).length := by rw [hd]; simp
      omega
    have hval : (digitsValAcc 0 (natDigits n)).getD 0 = n := by rw [digitsValAcc_natDigits]; rfl
    have hdw : dropWs (natDigits n ++ (u ++ rest)) = natDigits n ++ (u ++ rest) := by
      rw [hd, List.cons_append]; exact dropWs_of_head d _ (isDigit_props hd1).2.1
    have hdw2 : dropWs (a :: (as ++ rest)) = a :: (as ++ rest) := dropWs_of_head a _ ha1.2.2.1
    have hne1 : (natDigits n ++ (u ++ rest)).isEmpty = false := by rw [hd]; rfl
    have hne2 : (natDigits n).isEmpty = false := by rw [hd]; rfl
    unfold durItems
    rw [hdw, hspan]
    simp only [hne1, Bool.false_eq_true, if_false]
    rw [ha, List.cons_append]
    simp only [ha1.2.2.2, Bool.false_eq_true, if_false, hne2]
    rw [hdw2, ← List.cons_append, ← ha, hspanA]
    simp only [hidx]
    rw [if_neg (by omega), hval]
    exact h k hlen

theorem StartsOk_digits (n : Nat) (rest : List Char) : StartsOk (natDigits n ++ rest) := by
  right
  cases hnd : natDigits n with
  | nil => exact absurd hnd (natDigits_ne_nil n)
  | cons d ds => exact ⟨d, ds ++ rest, rfl, natDigits_digits n d (by rw [hnd]; simp)⟩

theorem StartsOk_item (n : Nat) (u : String) (rest : List Char) (h : StartsOk rest) :
    StartsOk (durItem n u ++ rest) := by
  unfold durItem
  split
  · simpa using h
  · rw [List.append_assoc]; exact StartsOk_digits _ _

/-- an optional item: nothing when `n = 0` (the group keeps its default 0) -/
theorem Parses_opt (tbl : UnitTable) (next idx n : Nat) (f r : DurFields) (u : String) (rest : List Char)
    (hu : UnitWord u.toList) (hidx : unitIndex tbl u.toList = some idx) (hnext : next ≤ idx)
    (hrest : StartsOk rest) (hz : n = 0 → f.set idx n = f)
    (h : ∀ next', next' ≤ idx + 1 → Parses tbl next' (f.set idx n) rest r) :
    Parses tbl next f (durItem n u ++ rest) r := by
  unfold durItem
  split
  · rename_i h0
    rw [List.nil_append]
    have := h next (by omega)
    rw [hz h0] at this
    exact this
  · rw [List.append_assoc]
    exact Parses_item tbl next idx n f r _ rest hu hidx hnext hrest (h _ (Nat.le_refl _))

/-! #### the fractional form -/

theorem dropWhile_append_of_ne_nil {α : Type} (p : α → Bool) (xs ys : List α)
    (h : xs.dropWhile p ≠ []) : (xs ++ ys).dropWhile p = xs.dropWhile p ++ ys := by
  induction xs with
  | nil => exact absurd rfl h
  | cons x xs ih =>
    simp only [List.cons_append, List.dropWhile_cons] at h ⊢
    split
    · rename_i hp; rw [if_pos hp] at h; exact ih h
    · rfl

theorem rstripZeros_append (a b : List Char) (h : rstripZeros b ≠ []) :
    rstripZeros (a ++ b) = a ++ rstripZeros b := by
  unfold rstripZeros at h ⊢
  rw [List.reverse_append, dropWhile_append_of_ne_nil _ _ _ (by
    intro h'; rw [h'] at h; exact h rfl)]
  simp

theorem takeWhile_zero (l : List Char) :
    l.takeWhile (· == '0') = List.replicate (l.takeWhile (· == '0')).length '0' := by
  induction l with
  | nil => rfl
  | cons x xs ih =>
    simp only [List.takeWhile_cons]
    split
    · rename_i hx
      have : x = '0' := by simpa using hx
      simp only [List.length_cons, List.replicate_succ, this]
      rw [← ih]
    · rfl

/-- stripping and re-padding trailing zeros gives the string back -/
theorem rstripZeros_pad (l : List Char) :
    rstripZeros l ++ List.replicate (l.length - (rstripZeros l).length) '0' = l := by
  unfold rstripZeros
  have h := List.takeWhile_append_dropWhile (p := (· == '0')) (l := l.reverse)
  have hlen : l.length = (l.reverse.takeWhile (· == '0')).length + (l.reverse.dropWhile (· == '0')).length := by
    have := congrArg List.length h
    simp only [List.length_append, List.length_reverse] at this
    omega
  have h2 : l = (l.reverse.dropWhile (· == '0')).reverse ++ (l.reverse.takeWhile (· == '0')).reverse := by
    have := congrArg List.reverse h
    simp only [List.reverse_append, List.reverse_reverse] at this
    exact this.symm
  rw [List.length_reverse]
  have h3 : l.length - (l.reverse.dropWhile (· == '0')).length = (l.reverse.takeWhile (· == '0')).length := by omega
  rw [h3]
  conv => rhs; rw [h2]
  congr 1
  rw [takeWhile_zero l.reverse]
  simp

theorem rstripZeros_digits (l : List Char) (h : Digits l) : Digits (rstripZeros l) := by
  intro c hc
  apply h
  have := rstripZeros_pad l
  rw [← this]
  exact List.mem_append_left _ hc

/-- the stripped fraction digits of a non-zero `micro < 10^6` -/
theorem stripped_fraction (micro : Nat) (h0 : 0 < micro) (h1 : micro < 1000000) :
    rstripZeros (fixDigits 6 micro) ≠ [] ∧ Digits (rstripZeros (fixDigits 6 micro)) ∧
    fractionMicros (some (rstripZeros (fixDigits 6 micro))) = micro := by
  have hpad := rstripZeros_pad (fixDigits 6 micro)
  rw [fixDigits_length] at hpad
  have hval : digitsValAcc 0 (fixDigits 6 micro) = some micro := by
    rw [digitsValAcc_fixDigits 6 micro 0 (by simpa [pow10] using h1)]; simp
  refine ⟨?_, rstripZeros_digits _ (fixDigits_digits _ _), ?_⟩
  · intro hnil
    rw [hnil] at hpad
    simp only [List.nil_append, List.length_nil, Nat.sub_zero] at hpad
    rw [← hpad, digitsValAcc_zeros] at hval
    simp only [Nat.zero_mul, Option.some.injEq] at hval
    omega
  · unfold fractionMicros
    simp only []
    rw [hpad, hval]; rfl

/-- `"{s}.{frac}s"` as the last item -/
theorem Parses_fraction (tbl : UnitTable) (next s : Nat) (f : DurFields) (fra : List Char)
    (hs : unitIndex tbl ['s'] = some 5) (hnext : next ≤ 5) (hfra : fra ≠ []) (hdig : Digits fra) :
    Parses tbl next f (natDigits s ++ '.' :: (fra ++ ['s'])) { f with s := s, sFra := some fra } := by
  intro fuel hf
  match fuel, hf with
  | k + 1, _ =>
    obtain ⟨d, ds, hd⟩ : ∃ d ds, natDigits s = d :: ds := by
      cases hnd : natDigits s with
      | nil => exact absurd hnd (natDigits_ne_nil s)
      | cons d ds => exact ⟨d, ds, rfl⟩
    have hd1 : isDigit d = true := natDigits_digits s d (by rw [hd]; simp)
    have hdw : dropWs (natDigits s ++ '.' :: (fra ++ ['s'])) = natDigits s ++ '.' :: (fra ++ ['s']) := by
      rw [hd, List.cons_append]; exact dropWs_of_head d _ (isDigit_props hd1).2.1
    have hspan : spanDigits (natDigits s ++ '.' :: (fra ++ ['s'])) = (natDigits s, '.' :: (fra ++ ['s'])) :=
      spanDigits_append _ _ (natDigits_digits s) (by
        intro c r hc; simp only [List.cons.injEq] at hc; rw [← hc.1]; decide)
    have hspan2 : spanDigits (fra ++ ['s']) = (fra, ['s']) :=
      spanDigits_append _ _ hdig (by
        intro c r hc; simp only [List.cons.injEq] at hc; rw [← hc.1]; decide)
    have hne1 : (natDigits s ++ '.' :: (fra ++ ['s'])).isEmpty = false := by rw [hd]; rfl
    have hne2 : fra.isEmpty = false := by
      cases fra with
      | nil => exact absurd rfl hfra
      | cons _ _ => rfl
    have hval : (digitsValAcc 0 (natDigits s)).getD 0 = s := by rw [digitsValAcc_natDigits]; rfl
    unfold durItems
    rw [hdw, hspan]
    simp only [hne1, Bool.false_eq_true, if_false]
    rw [if_pos (by decide)]
    simp only [hspan2, hne2, hval]
    have e1 : dropWs ['s'] = ['s'] := by decide
    have e2 : spanAlpha ['s'] = (['s'], []) := by decide
    rw [e1, e2]
    simp only [hs]
    rw [if_neg]
    simp only [Bool.or_eq_true, decide_eq_true_eq, not_or]
    refine ⟨⟨⟨by simp, by omega⟩, by simp⟩, by decide⟩

/-- the unit words that `duration._format` writes close the groups they should
(discharged for the table extracted from the live regular expression) -/
structure UnitsOk (tbl : UnitTable) : Prop where
  y : unitIndex tbl "y".toList = some 0
  w : unitIndex tbl "w".toList = some 1
  d : unitIndex tbl "d".toList = some 2
  h : unitIndex tbl "h".toList = some 3
  m : unitIndex tbl "m".toList = some 4
  s : unitIndex tbl "s".toList = some 5
  ms : unitIndex tbl "ms".toList = some 6
  us : unitIndex tbl "us".toList = some 7

theorem unitWord_of (u : String) (h : u.toList ≠ [] ∧ u.toList.all (fun c =>
    isAlpha c && !isDigit c && !isWs c && !isDecPoint c) = true) : UnitWord u.toList := by
  refine ⟨h.1, fun c hc => ?_⟩
  have := List.all_eq_true.mp h.2 c hc
  simp only [Bool.and_eq_true, Bool.not_eq_true'] at this
  exact ⟨this.1.1.1, this.1.1.2, this.1.2, this.2⟩

theorem uw_y : UnitWord "y".toList := unitWord_of _ (by decide)
theorem uw_w : UnitWord "w".toList := unitWord_of _ (by decide)
theorem uw_d : UnitWord "d".toList := unitWord_of _ (by decide)
theorem uw_h : UnitWord "h".toList := unitWord_of _ (by decide)
theorem uw_m : UnitWord "m".toList := unitWord_of _ (by decide)
theorem uw_s : UnitWord "s".toList := unitWord_of _ (by decide)
theorem uw_ms : UnitWord "ms".toList := unitWord_of _ (by decide)
theorem uw_us : UnitWord "us".toList := unitWord_of _ (by decide)

/-- the sub-minute tail parses to seconds `s` and sub-second groups worth `micro` µs -/
theorem Parses_tail (tbl : UnitTable) (hU : UnitsOk tbl) (S s micro : Nat) (hm : micro < 1000000)
    (Y W D H Mi : Nat) :
    ∃ r, (∀ next, next ≤ 5 → Parses tbl next { y := Y, w := W, d := D, h := H, m := Mi } (durTail S s micro) r) ∧
      r.y = Y ∧ r.w = W ∧ r.d = D ∧ r.h = H ∧ r.m = Mi ∧ r.s = s ∧
      fractionMicros r.sFra + r.ms * 1000 + r.us + r.ns / 1000 = micro := by
  unfold durTail
  simp only []
  split
  · -- fractional form
    rename_i hc
    simp only [Bool.and_eq_true, Bool.or_eq_true, decide_eq_true_eq] at hc
    obtain ⟨hne, hdig, hval⟩ := stripped_fraction micro (by omega) hm
    have htext : rstripZeros (natDigits s ++ '.' :: fixDigits 6 micro) ++ ['s']
        = natDigits s ++ '.' :: (rstripZeros (fixDigits 6 micro) ++ ['s']) := by
      have : natDigits s ++ '.' :: fixDigits 6 micro = (natDigits s ++ ['.']) ++ fixDigits 6 micro := by simp
      rw [this, rstripZeros_append _ _ hne]; simp
    rw [htext]
    refine ⟨_, fun next hnext => Parses_fraction tbl next s _ _ hU.s hnext hne hdig, rfl, rfl, rfl, rfl, rfl, rfl, ?_⟩
    simp only [hval]; omega
  · rename_i hc
    split
    · rename_i hc2
      simp only [Bool.and_eq_true, Bool.or_eq_true, decide_eq_true_eq, not_and, not_or] at hc hc2
      have hs : (if s = 0 then [] else natDigits s ++ ['s']) = durItem s "s" := rfl
      rw [hs]
      by_cases hus : micro % 1000 > 0
      · simp only [hus, decide_true, if_true]
        have e : natDigits micro ++ "us".toList = durItem micro "us" ++ [] := by
          simp [durItem, show micro ≠ 0 by omega]
        rw [e]
        refine ⟨{ y := Y, w := W, d := D, h := H, m := Mi, s := s, us := micro }, ?_, rfl, rfl, rfl, rfl, rfl, rfl, ?_⟩
        · intro next hnext
          apply Parses_opt tbl next 5 s _ _ "s" _ uw_s hU.s hnext (StartsOk_item _ _ _ (Or.inl rfl))
            (by intro h0; subst h0; rfl)
          intro next' hn'
          apply Parses_opt tbl next' 7 micro _ _ "us" _ uw_us hU.us (by omega) (Or.inl rfl)
            (by intro h0; omega)
          intro next'' _
          exact Parses_nil _ _ _
        · simp [fractionMicros]
      · by_cases hms : micro / 1000 > 0
        · simp only [hus, hms, decide_true, decide_false, if_true, if_false, Bool.false_eq_true]
          have e : natDigits (micro / 1000) ++ "ms".toList = durItem (micro / 1000) "ms" ++ [] := by
            simp [durItem, show micro / 1000 ≠ 0 by omega]
          rw [e]
          refine ⟨{ y := Y, w := W, d := D, h := H, m := Mi, s := s, ms := micro / 1000 }, ?_,
            rfl, rfl, rfl, rfl, rfl, rfl, ?_⟩
          · intro next hnext
            apply Parses_opt tbl next 5 s _ _ "s" _ uw_s hU.s hnext (StartsOk_item _ _ _ (Or.inl rfl))
              (by intro h0; subst h0; rfl)
            intro next' hn'
            apply Parses_opt tbl next' 6 (micro / 1000) _ _ "ms" _ uw_ms hU.ms (by omega) (Or.inl rfl)
              (by intro h0; omega)
            intro next'' _
            exact Parses_nil _ _ _
          · simp only [fractionMicros]; omega
        · simp only [hus, hms, decide_false, if_false, Bool.false_eq_true, List.append_nil]
          refine ⟨{ y := Y, w := W, d := D, h := H, m := Mi, s := s }, ?_, rfl, rfl, rfl, rfl, rfl, rfl, ?_⟩
          · intro next hnext
            have e : durItem s "s" = durItem s "s" ++ [] := by simp
            rw [e]
            apply Parses_opt tbl next 5 s _ _ "s" _ uw_s hU.s hnext (Or.inl rfl)
              (by intro h0; subst h0; rfl)
            intro next' _
            exact Parses_nil _ _ _
          · simp only [fractionMicros]; omega
    · rename_i hc2
      simp only [Bool.or_eq_true, decide_eq_true_eq, not_or] at hc2
      have hs0 : s = 0 := by omega
      have hm0 : micro = 0 := by omega
      subst hs0; subst hm0
      split
      · refine ⟨{ y := Y, w := W, d := D, h := H, m := Mi }, ?_, rfl, rfl, rfl, rfl, rfl, rfl, by simp [fractionMicros]⟩
        intro next hnext
        have e : "0s".toList = natDigits 0 ++ ("s".toList ++ []) := by decide
        rw [e]
        exact Parses_item tbl next 5 0 _ _ _ [] uw_s hU.s hnext (Or.inl rfl) (Parses_nil _ _ _)
      · exact ⟨_, fun _ _ => Parses_nil _ _ _, rfl, rfl, rfl, rfl, rfl, rfl, by simp [fractionMicros]⟩

theorem rstripZeros_cons_ne_nil (c : Char) (l : List Char) (hc : c ≠ '0') : rstripZeros (c :: l) ≠ [] := by
  intro hnil
  have hpad := rstripZeros_pad (c :: l)
  rw [hnil] at hpad
  simp only [List.nil_append, List.length_nil, Nat.sub_zero, List.length_cons, List.replicate_succ,
    List.cons.injEq] at hpad
  exact hc hpad.1.symm

theorem durTail_startsOk (S s m : Nat) : StartsOk (durTail S s m) := by
  unfold durTail
  simp only []
  split
  · have : natDigits s ++ '.' :: fixDigits 6 m = natDigits s ++ ('.' :: fixDigits 6 m) := rfl
    rw [rstripZeros_append _ _ (rstripZeros_cons_ne_nil '.' _ (by decide)), List.append_assoc]
    exact StartsOk_digits _ _
  · split
    · have hs : (if s = 0 then [] else natDigits s ++ ['s']) = durItem s "s" := rfl
      rw [hs]
      apply StartsOk_item
      split
      · exact StartsOk_digits _ _
      · split
        · exact StartsOk_digits _ _
        · exact Or.inl rfl
    · split
      · exact Or.inr ⟨'0', ['s'], rfl, by decide⟩
      · exact Or.inl rfl

/-- `duration._format` of a non-negative duration parses to groups that add up to it -/
theorem durItems_format (cfg : DurCfg) (tbl : UnitTable) (hU : UnitsOk tbl) (d : Nat) :
    ∃ r, durItems tbl ((durFormat cfg (d : Int)).length + 1) 0 {} (durFormat cfg (d : Int)) = some r ∧
      (r.s + cfg.mn * r.m + cfg.hr * r.h + cfg.dy * r.d + cfg.wk * r.w + cfg.yr * r.y) * 1000000
        + (fractionMicros r.sFra + r.ms * 1000 + r.us + r.ns / 1000) = d := by
  rw [durFormat_nat]
  simp only []
  generalize hS : d / 1000000 = S
  generalize hmicro : d % 1000000 = micro
  obtain ⟨r, hp, hy, hw, hd, hh, hm, hs, hmic⟩ := Parses_tail tbl hU S
    (S % cfg.yr % cfg.wk % cfg.dy % cfg.hr % cfg.mn) micro (by omega)
    (S / cfg.yr) (S % cfg.yr / cfg.wk) (S % cfg.yr % cfg.wk / cfg.dy)
    (S % cfg.yr % cfg.wk % cfg.dy / cfg.hr) (S % cfg.yr % cfg.wk % cfg.dy % cfg.hr / cfg.mn)
  have htl := durTail_startsOk S (S % cfg.yr % cfg.wk % cfg.dy % cfg.hr % cfg.mn) micro
  refine ⟨r, ?_, ?_⟩
  · apply (?_ : Parses tbl 0 {} _ r) _ (Nat.le_refl _)
    simp only [List.append_assoc]
    apply Parses_opt tbl 0 0 _ _ _ "y" _ uw_y hU.y (Nat.le_refl _)
      (StartsOk_item _ _ _ (StartsOk_item _ _ _ (StartsOk_item _ _ _ (StartsOk_item _ _ _ htl))))
      (by intro h0; rw [h0]; rfl)
    intro n1 h1
    apply Parses_opt tbl n1 1 _ _ _ "w" _ uw_w hU.w h1
      (StartsOk_item _ _ _ (StartsOk_item _ _ _ (StartsOk_item _ _ _ htl)))
      (by intro h0; rw [h0]; rfl)
    intro n2 h2
    apply Parses_opt tbl n2 2 _ _ _ "d" _ uw_d hU.d h2
      (StartsOk_item _ _ _ (StartsOk_item _ _ _ htl))
      (by intro h0; rw [h0]; rfl)
    intro n3 h3
    apply Parses_opt tbl n3 3 _ _ _ "h" _ uw_h hU.h h3 (StartsOk_item _ _ _ htl)
      (by intro h0; rw [h0]; rfl)
    intro n4 h4
    apply Parses_opt tbl n4 4 _ _ _ "m" _ uw_m hU.m h4 htl
      (by intro h0; rw [h0]; rfl)
    intro n5 h5
    exact hp n5 h5
  · rw [hy, hw, hd, hh, hm, hs, hmic]
    have e1 := Nat.div_add_mod S cfg.yr
    have e2 := Nat.div_add_mod (S % cfg.yr) cfg.wk
    have e3 := Nat.div_add_mod (S % cfg.yr % cfg.wk) cfg.dy
    have e4 := Nat.div_add_mod (S % cfg.yr % cfg.wk % cfg.dy) cfg.hr
    have e5 := Nat.div_add_mod (S % cfg.yr % cfg.wk % cfg.dy % cfg.hr) cfg.mn
    have e6 := Nat.div_add_mod d 1000000
    rw [hS, hmicro] at e6
    omega


/-! ### the order of renderings -/

/-- days before March-based year `y'` (relative to the calendar's own origin) -/
def marchDays (y : Int) : Int := 365 * y + y / 4 - y / 100 + y / 400

/-- the March-based year and day-of-year of a day number -/
theorem civil_march (z : Int) : ∃ y' doy mp : Int,
    0 ≤ doy ∧ doy ≤ 365 ∧ (doy = 365 → (y' + 1) % 4 = 0 ∧ ((y' + 1) % 100 ≠ 0 ∨ (y' + 1) % 400 = 0)) ∧
    marchDays y' + doy = z + 719468 ∧ mp = (5 * doy + 2) / 153 ∧ 0 ≤ mp ∧ mp ≤ 11 ∧
    civilFromDays z = (y' + (if mp < 10 then 0 else 1), (if mp < 10 then mp + 3 else mp - 9),
      doy - (153 * mp + 2) / 5 + 1) := by
  obtain ⟨era, yoe, doy, mp, h1, h2, h3, h4, h5, h6, h7, h8, h9, h10⟩ := civil_spec z
  refine ⟨yoe + era * 400, doy, mp, h3, h4, ?_, ?_, h7, h5, h6, ?_⟩
  · intro hd; have := h9 hd; omega
  · unfold marchDays
    have e4 : (yoe + era * 400) / 4 = yoe / 4 + era * 100 := by omega
    have e100 : (yoe + era * 400) / 100 = yoe / 100 + era * 4 := by omega
    have e400 : (yoe + era * 400) / 400 = era := by omega
    rw [e4, e100, e400]; omega
  · rw [h10]
    by_cases hm : mp < 10
    · simp only [hm, if_true]
      rw [if_neg (by omega)]
    · simp only [hm, if_false]
      rw [if_pos (by omega)]

theorem marchDays_step (y : Int) :
    marchDays (y + 1) - marchDays y = if (y + 1) % 4 = 0 ∧ ((y + 1) % 100 ≠ 0 ∨ (y + 1) % 400 = 0) then 366 else 365 := by
  unfold marchDays
  split <;> omega

theorem marchDays_mono (a b : Int) (h : a ≤ b) : marchDays a ≤ marchDays b := by
  unfold marchDays; omega

/-- lexicographic order on civil dates -/
def dateLt (a b : Int × Int × Int) : Prop :=
  a.1 < b.1 ∨ (a.1 = b.1 ∧ (a.2.1 < b.2.1 ∨ (a.2.1 = b.2.1 ∧ a.2.2 < b.2.2)))

theorem civilFromDays_lt (n1 n2 : Int) (h : n1 < n2) : dateLt (civilFromDays n1) (civilFromDays n2) := by
  obtain ⟨y1, d1, m1, a1, a2, a3, a4, a5, a6, a7, a8⟩ := civil_march n1
  obtain ⟨y2, d2, m2, b1, b2, b3, b4, b5, b6, b7, b8⟩ := civil_march n2
  rw [a8, b8]
  have s1 := marchDays_step y1
  have hy : y1 ≤ y2 := by
    by_cases hc : y1 ≤ y2
    · exact hc
    · have := marchDays_mono (y2 + 1) y1 (by omega)
      have s2 := marchDays_step y2
      split at s2 <;> omega
  unfold dateLt
  simp only []
  have hm12 : y1 = y2 → m1 ≤ m2 := by intro e; subst e; omega
  have hT : y1 < y2 → marchDays (y1 + 1) ≤ marchDays y2 := fun hlt => marchDays_mono _ _ (by omega)
  have hdd : y1 = y2 → d1 < d2 := by intro e; subst e; omega
  by_cases h10 : m1 < 10 <;> by_cases h20 : m2 < 10 <;> simp only [h10, h20, if_true, if_false]
  all_goals
    by_cases hyy : y1 = y2
    · have := hm12 hyy; have := hdd hyy; omega
    · have := hT (by omega); split at s1 <;> omega

theorem lex_append_left (a x y : List Char) (h : x < y) : a ++ x < a ++ y := by
  induction a with
  | nil => exact h
  | cons c a ih => exact List.Lex.cons ih

theorem lex_append_of_lt (a1 a2 x y : List Char) (h : a1 < a2) (hl : a1.length = a2.length) :
    a1 ++ x < a2 ++ y := by
  induction a1 generalizing a2 with
  | nil =>
    cases a2 with
    | nil => exact absurd h (by intro h'; cases h')
    | cons c l => simp at hl
  | cons c1 l1 ih =>
    cases a2 with
    | nil => simp at hl
    | cons c2 l2 =>
      cases h with
      | rel hr => exact List.Lex.rel hr
      | cons hc => exact List.Lex.cons (ih l2 hc (by simpa using hl))

theorem digitOf_toNat {k : Nat} (h : k < 10) : (digitOf k).toNat = 48 + k := by
  have : k = 0 ∨ k = 1 ∨ k = 2 ∨ k = 3 ∨ k = 4 ∨ k = 5 ∨ k = 6 ∨ k = 7 ∨ k = 8 ∨ k = 9 := by omega
  rcases this with rfl | rfl | rfl | rfl | rfl | rfl | rfl | rfl | rfl | rfl <;> rfl

theorem digitOf_lt {k1 k2 : Nat} (h : k1 < k2) (h2 : k2 < 10) : digitOf k1 < digitOf k2 := by
  apply Char.lt_def.mpr
  have e1 := digitOf_toNat (show k1 < 10 by omega)
  have e2 := digitOf_toNat h2
  show (digitOf k1).toNat < (digitOf k2).toNat
  omega

theorem fixDigits_lt (p k1 k2 : Nat) (h : k1 < k2) (h2 : k2 < pow10 p) :
    fixDigits p k1 < fixDigits p k2 := by
  induction p generalizing k1 k2 with
  | zero => simp only [pow10] at h2; omega
  | succ p ih =>
    have hp := pow10_pos p
    simp only [pow10] at h2
    have q2 : k2 / pow10 p < 10 := (Nat.div_lt_iff_lt_mul hp).mpr h2
    have q1 : k1 / pow10 p < 10 := (Nat.div_lt_iff_lt_mul hp).mpr (by omega)
    have hle : k1 / pow10 p ≤ k2 / pow10 p := Nat.div_le_div_right (by omega)
    simp only [fixDigits, Nat.mod_eq_of_lt q1, Nat.mod_eq_of_lt q2]
    by_cases hq : k1 / pow10 p < k2 / pow10 p
    · exact List.Lex.rel (digitOf_lt hq q2)
    · have heq : k1 / pow10 p = k2 / pow10 p := by omega
      rw [heq]
      apply List.Lex.cons
      apply ih _ _ _ (Nat.mod_lt _ hp)
      have e1 := Nat.div_add_mod k1 (pow10 p)
      have e2 := Nat.div_add_mod k2 (pow10 p)
      rw [heq] at e1
      omega

/-- a numeric field of fixed width followed by a separator: smaller number, or equal number and
smaller rest, gives a smaller string -/
theorem num_step (wd n1 n2 : Nat) (c : Char) (r1 r2 : List Char) (h2 : n2 < pow10 wd)
    (h : n1 < n2 ∨ (n1 = n2 ∧ r1 < r2)) :
    fixDigits wd n1 ++ c :: r1 < fixDigits wd n2 ++ c :: r2 := by
  rcases h with h | ⟨rfl, h⟩
  · exact lex_append_of_lt _ _ _ _ (fixDigits_lt wd n1 n2 h h2) (by simp [fixDigits_length])
  · exact lex_append_left _ _ _ (List.Lex.cons h)

theorem natDigits_eq_fix4 (y : Nat) (h1 : 1000 ≤ y) (h2 : y ≤ 9999) : natDigits y = fixDigits 4 y := by
  rw [natDigits_rec, if_neg (by omega), natDigits_rec (y / 10), if_neg (by omega),
    natDigits_rec (y / 10 / 10), if_neg (by omega), natDigits_rec (y / 10 / 10 / 10), if_pos (by omega)]
  simp only [fixDigits, pow10, List.cons_append, List.nil_append, List.cons.injEq, and_true]
  exact ⟨congrArg digitOf (by omega), congrArg digitOf (by omega), congrArg digitOf (by omega),
    congrArg digitOf (by omega)⟩

theorem pad2_eq_fix2 (n : Nat) (_h : n < 100) : pad2 n = fixDigits 2 n := by
  have e1 : n / pow10 1 % 10 = n / 10 % 10 := by simp [pow10]
  have e2 : n % pow10 1 / pow10 0 % 10 = n % 10 := by simp [pow10]
  simp only [pad2, fixDigits, e1, e2]

/-- lexicographic order on (civil fields, fraction) -/
def keyLt (c1 : Civil) (f1 : Nat) (c2 : Civil) (f2 : Nat) : Prop :=
  c1.y < c2.y ∨ (c1.y = c2.y ∧ (c1.m < c2.m ∨ (c1.m = c2.m ∧ (c1.d < c2.d ∨ (c1.d = c2.d ∧
    (c1.hh < c2.hh ∨ (c1.hh = c2.hh ∧ (c1.mm < c2.mm ∨ (c1.mm = c2.mm ∧
      (c1.ss < c2.ss ∨ (c1.ss = c2.ss ∧ f1 < f2)))))))))))

theorem civilOfSecs_key (s1 s2 : Int) (f1 f2 : Nat) (h : s1 < s2 ∨ (s1 = s2 ∧ f1 < f2)) :
    keyLt (civilOfSecs s1) f1 (civilOfSecs s2) f2 := by
  unfold keyLt
  rcases h with h | ⟨rfl, h⟩
  · by_cases hd : s1 / 86400 < s2 / 86400
    · have := civilFromDays_lt _ _ hd
      unfold dateLt at this
      simp only [civilOfSecs]
      omega
    · have hd' : s1 / 86400 = s2 / 86400 := by omega
      simp only [civilOfSecs, hd', Int.lt_irrefl, false_or, true_and]
      have hr : s1 % 86400 < s2 % 86400 := by omega
      have b1 : 0 ≤ s1 % 86400 := by omega
      have b2 : s2 % 86400 < 86400 := by omega
      generalize s1 % 86400 = r1 at *
      generalize s2 % 86400 = r2 at *
      omega
  · omega

theorem formatCivil_lt (c1 c2 : Civil) (p f1 f2 : Nat) (hp : 1 ≤ p) (hv1 : c1.valid = true)
    (hv2 : c2.valid = true) (hy1 : 1000 ≤ c1.y) (hy2 : 1000 ≤ c2.y) (hf : f2 < pow10 p)
    (h : keyLt c1 f1 c2 f2) : formatCivil c1 p f1 < formatCivil c2 p f2 := by
  simp only [Civil.valid, Bool.and_eq_true, decide_eq_true_eq] at hv1 hv2
  have hd1 := daysInMonth_le c1.y c1.m
  have hd2 := daysInMonth_le c2.y c2.m
  rw [formatCivil_eq, formatCivil_eq]
  unfold dateText timeText
  rw [if_neg (by omega), if_neg (by omega)]
  rw [natDigits_eq_fix4 _ (by omega) (by omega), natDigits_eq_fix4 _ (by omega) (by omega)]
  repeat rw [pad2_eq_fix2 _ (by omega)]
  simp only [List.append_assoc, List.cons_append]
  unfold keyLt at h
  apply num_step 4 _ _ '-' _ _ (by simp only [pow10]; omega)
  rcases h with h | ⟨h0, h⟩
  · left; omega
  right; refine ⟨by omega, ?_⟩
  apply num_step 2 _ _ '-' _ _ (by simp only [pow10]; omega)
  rcases h with h | ⟨h0, h⟩
  · left; omega
  right; refine ⟨by omega, ?_⟩
  apply num_step 2 _ _ ' ' _ _ (by simp only [pow10]; omega)
  rcases h with h | ⟨h0, h⟩
  · left; omega
  right; refine ⟨by omega, ?_⟩
  apply num_step 2 _ _ ':' _ _ (by simp only [pow10]; omega)
  rcases h with h | ⟨h0, h⟩
  · left; omega
  right; refine ⟨by omega, ?_⟩
  apply num_step 2 _ _ ':' _ _ (by simp only [pow10]; omega)
  rcases h with h | ⟨h0, h⟩
  · left; omega
  right; refine ⟨by omega, ?_⟩
  apply num_step 2 _ _ '.' _ _ (by simp only [pow10]; omega)
  rcases h with h | ⟨h0, h⟩
  · left; omega
  right; exact ⟨by omega, fixDigits_lt p f1 f2 h hf⟩


/-- fraction digits of two rendered instants within the same second are ordered like the instants -/
theorem frac_lt_of (p : Nat) (hp1 : 1 ≤ p) (hp : p ≤ 6) (a b ba bb : Int)
    (hlt : roundTo p a ba < roundTo p b bb)
    (hs : roundTo p a ba / 1000000 = roundTo p b bb / 1000000) :
    (roundTo p a ba % 1000000).toNat / pow10 (6 - p) < (roundTo p b bb % 1000000).toNat / pow10 (6 - p) := by
  obtain ⟨k1, hk1, -, -⟩ := roundTo_spec p a ba hp
  obtain ⟨k2, hk2, -, -⟩ := roundTo_spec p b bb hp
  generalize roundTo p a ba = v1 at *
  generalize roundTo p b bb = v2 at *
  have : p = 1 ∨ p = 2 ∨ p = 3 ∨ p = 4 ∨ p = 5 ∨ p = 6 := by omega
  rcases this with rfl | rfl | rfl | rfl | rfl | rfl
  all_goals
    first
      | rw [show pow10 (6 - 1) = 100000 from rfl] at *
      | rw [show pow10 (6 - 2) = 10000 from rfl] at *
      | rw [show pow10 (6 - 3) = 1000 from rfl] at *
      | rw [show pow10 (6 - 4) = 100 from rfl] at *
      | rw [show pow10 (6 - 5) = 10 from rfl] at *
      | rw [show pow10 (6 - 6) = 1 from rfl] at *
    omega

end Cpppo.Times
