import Cpppo.Model.Engine
/-!
Invariants of the engine model (helper lemmas for `Props/C10.lean`).

`Adv w w'`   : `w'` is `w` after consuming a prefix of what was still to be delivered
               (nothing skipped or reordered; `sent` advanced by exactly that many symbols)
`Idle w w'`  : nothing consumed (`sent` and the symbols still to come are the same)
`Quiet w w'` : only the driver's hook ran (additionally the data artifact and tape are the same)
`CrumbsLe`   : no crumb of a `seen` set lies in the future (`sent` beyond the given position)
`Good`       : what one `state.run` guarantees to the `delegate` that started it
-/
namespace Cpppo.Engine
open Cpppo.Source

def Adv (w w' : World) : Prop :=
  ∃ c : List Sym, w.total = c ++ w'.total ∧ w'.sent = w.sent + c.length

structure Idle (w w' : World) : Prop where
  sent : w'.sent = w.sent
  total : w'.total = w.total

structure Quiet (w w' : World) : Prop extends Idle w w' where
  data : w'.data = w.data
  tape : w'.tape = w.tape

theorem Adv.refl (w : World) : Adv w w := ⟨[], by simp, by simp⟩

theorem Adv.trans {a b c : World} (h1 : Adv a b) (h2 : Adv b c) : Adv a c := by
  obtain ⟨x, hx, sx⟩ := h1
  obtain ⟨y, hy, sy⟩ := h2
  refine ⟨x ++ y, by rw [hx, hy, List.append_assoc], ?_⟩
  rw [sy, sx, List.length_append]; omega

theorem Adv.sent_le {a b : World} (h : Adv a b) : a.sent ≤ b.sent := by
  obtain ⟨x, _, sx⟩ := h; omega

theorem Idle.adv {a b : World} (h : Idle a b) : Adv a b := ⟨[], by simp [h.total], by simp [h.sent]⟩

theorem Idle.refl (w : World) : Idle w w := ⟨rfl, rfl⟩

theorem Idle.trans {a b c : World} (h1 : Idle a b) (h2 : Idle b c) : Idle a c :=
  ⟨h2.sent.trans h1.sent, h2.total.trans h1.total⟩

theorem Quiet.refl (w : World) : Quiet w w := ⟨Idle.refl w, rfl, rfl⟩

theorem Quiet.trans {a b c : World} (h1 : Quiet a b) (h2 : Quiet b c) : Quiet a c :=
  ⟨h1.toIdle.trans h2.toIdle, h2.data.trans h1.data, h2.tape.trans h1.tape⟩

/-- a change that does not touch the source or the pending blocks -/
theorem Idle.of_src {w w' : World} (h1 : w'.src = w.src) (h2 : w'.pend = w.pend) : Idle w w' :=
  ⟨by simp [World.sent, h1], by simp [World.total, h1, h2]⟩

/-! ### primitives -/

theorem hook_quiet (w : World) (t : Option Nat) : Quiet w (w.hook t) := by
  unfold World.hook
  split
  · exact Quiet.refl w
  · split
    · exact Quiet.refl w
    · rename_i b r hp
      refine ⟨⟨rfl, ?_⟩, rfl, rfl⟩
      simp [World.total, ASrc.chainBlock, hp]

theorem setDfa_idle (w : World) (i : Nat) (d : DfaSt) : Idle w (w.setDfa i d) :=
  Idle.of_src rfl rfl

theorem setField_idle (w : World) (k v : Nat) : Idle w (w.setField k v) :=
  Idle.of_src rfl rfl

theorem pop_src (w : World) : w.pop.2.src = w.src ∧ w.pop.2.pend = w.pend ∧ w.pop.2.data = w.data := by
  unfold World.pop; split <;> simp

theorem evalPred_src (w : World) (p : Pred) :
    (evalPred w p).2.src = w.src ∧ (evalPred w p).2.pend = w.pend := by
  cases p <;> simp [evalPred, (pop_src w).1, (pop_src w).2.1]

theorem evalChoice_src (w : World) (ch : List Target) :
    (evalChoice w ch).2.src = w.src ∧ (evalChoice w ch).2.pend = w.pend := by
  induction ch generalizing w with
  | nil => simp [evalChoice]
  | cons t r ih =>
    cases t with
    | plain t => simp [evalChoice]
    | guard p t =>
      have hp := evalPred_src w p
      simp only [evalChoice]
      generalize evalPred w p = ep at hp
      obtain ⟨b, w'⟩ := ep
      simp only at hp ⊢
      have := ih w'
      split
      · cases t with
        | some x => exact hp
        | none => exact ⟨this.1.trans hp.1, this.2.trans hp.2⟩
      · exact ⟨this.1.trans hp.1, this.2.trans hp.2⟩

theorem evalChoice_idle (w : World) (ch : List Target) : Idle w (evalChoice w ch).2 :=
  Idle.of_src (evalChoice_src w ch).1 (evalChoice_src w ch).2

theorem resolve_src (w : World) (sp : Spec) :
    (resolve w sp).2.src = w.src ∧ (resolve w sp).2.pend = w.pend := by
  cases sp <;> simp [resolve, (pop_src w).1, (pop_src w).2.1]

theorem resolve_idle (w : World) (sp : Spec) : Idle w (resolve w sp).2 :=
  Idle.of_src (resolve_src w sp).1 (resolve_src w sp).2

/-- the value a spec resolves to depends only on the data artifact and the tape -/
theorem resolve_congr {w w' : World} (hd : w'.data = w.data) (ht : w'.tape = w.tape) (sp : Spec) :
    (resolve w' sp).1 = (resolve w sp).1 := by
  cases sp <;> simp [resolve, World.field, World.pop, hd, ht]
  split <;> rfl

theorem advance_adv (w : World) : Adv w w.advance ∧ w.advance.sent ≤ w.sent + 1 ∧
    w.advance.data = w.data ∧ w.advance.tape = w.tape := by
  unfold World.advance ASrc.next
  cases hr : w.src.rest with
  | nil =>
    refine ⟨⟨[], ?_, ?_⟩, ?_, rfl, rfl⟩
    · simp [World.total, hr]
    · simp [World.sent]
    · simp only [World.sent]; omega
  | cons x r =>
    refine ⟨⟨[x], ?_, ?_⟩, ?_, rfl, rfl⟩
    · simp [World.total, hr]
    · simp [World.sent]
    · simp [World.sent]

theorem process_adv (s : State) (w : World) : Adv w (process s w) ∧ (process s w).sent ≤ w.sent + 1 ∧
    (process s w).data = w.data ∧ (process s w).tape = w.tape := by
  unfold process
  split
  · exact advance_adv w
  · exact advance_adv w
  · exact ⟨Adv.refl w, by omega, rfl, rfl⟩

/-- states that consume nothing on entry -/
def State.quiet (s : State) : Prop := s.kind ≠ .input ∧ s.kind ≠ .drop

theorem process_quiet {s : State} (h : s.quiet) (w : World) : process s w = w := by
  unfold process
  split
  · exact absurd ‹_› h.1
  · exact absurd ‹_› h.2
  · rfl

/-! ### `shrink` -/

theorem shrink_le_enclosing {e : Option Int} {s : Int} {l : Option Nat} {x : Int} (h : e = some x) :
    ∃ y, shrink e s l = some y ∧ y ≤ x := by
  subst h
  cases l with
  | none => exact ⟨x, rfl, Int.le_refl x⟩
  | some l =>
    simp only [shrink]
    split
    · exact ⟨_, rfl, by omega⟩
    · exact ⟨_, rfl, Int.le_refl x⟩

theorem shrink_le_limit {e : Option Int} {s : Int} {l : Option Nat} {L : Nat} (h : l = some L) :
    ∃ y, shrink e s l = some y ∧ y ≤ s + L := by
  subst h
  cases e with
  | none => exact ⟨_, rfl, Int.le_refl _⟩
  | some x =>
    simp only [shrink]
    split
    · exact ⟨_, rfl, Int.le_refl _⟩
    · exact ⟨_, rfl, by omega⟩

theorem shrink_none {e : Option Int} {s : Int} {l : Option Nat} (h : shrink e s l = none) :
    e = none ∧ l = none := by
  cases l with
  | none => exact ⟨h, rfl⟩
  | some l =>
    cases e with
    | none => simp [shrink] at h
    | some x => simp only [shrink] at h; split at h <;> simp at h

/-- the new ending is never before the current position when the old one was not -/
theorem shrink_ge {e : Option Int} {s : Int} {l : Option Nat} (h : ∀ x, e = some x → s ≤ x) :
    ∀ y, shrink e s l = some y → s ≤ y := by
  intro y hy
  cases l with
  | none => exact h y hy
  | some l =>
    cases e with
    | none => simp only [shrink, Option.some.injEq] at hy; omega
    | some x =>
      simp only [shrink] at hy
      split at hy
      · simp only [Option.some.injEq] at hy; omega
      · simp only [Option.some.injEq] at hy; subst hy; exact h x rfl

/-! ### crumbs and events -/

def CrumbsLe (ps : Option (List Crumb)) (s : Int) : Prop := ∀ l, ps = some l → ∀ c ∈ l, c.2.2 ≤ s

theorem CrumbsLe.mono {ps : Option (List Crumb)} {s t : Int} (h : CrumbsLe ps s) (hst : s ≤ t) :
    CrumbsLe ps t := fun l hl c hc => Int.le_trans (h l hl c hc) hst

theorem CrumbsLe.none (s : Int) : CrumbsLe none s := fun _ h => by simp at h

theorem crumb_sent (w : World) (t : Option Nat) : (w.crumb t).2.2 = w.sent := rfl

theorem emit_spec (ps : Option (List Crumb)) (w : World) (t : Option Nat) :
    Quiet w (emit ps w t).2.1
    ∧ (∀ s, CrumbsLe ps s → w.sent ≤ s → CrumbsLe (emit ps w t).1 s)
    ∧ ((emit ps w t).2.2 = true → ∃ l, ps = some l ∧ w.crumb t ∈ l)
    ∧ (ps = none → (emit ps w t).2.2 = false ∧ (emit ps w t).1 = none) := by
  unfold emit
  cases ps with
  | none => exact ⟨hook_quiet w t, fun s h _ => h, by simp, by simp⟩
  | some l =>
    by_cases hm : w.crumb t ∈ l
    · simp only [hm, if_true]
      exact ⟨hook_quiet w t, fun s h _ => h, fun _ => ⟨l, rfl, hm⟩, by simp⟩
    · simp only [hm, if_false]
      refine ⟨hook_quiet w t, ?_, by simp, by simp⟩
      intro s h hs l' hl' c hc
      simp only [Option.some.injEq] at hl'
      subst hl'
      rcases List.mem_cons.mp hc with rfl | hc
      · exact hs
      · exact h l rfl c hc

theorem acceptLoop_spec (s : State) (f : Nat) (seen : List Crumb) (ps : Option (List Crumb))
    (w : World) (out : Option (List Crumb) × World × Bool)
    (h : acceptLoop s f seen ps w = .ok out) :
    Quiet w out.2.1
    ∧ (∀ s0, CrumbsLe ps s0 → w.sent ≤ s0 → CrumbsLe out.1 s0)
    ∧ (ps = none → out.2.2 = false ∧ out.1 = none) := by
  induction f generalizing seen ps w with
  | zero => simp [acceptLoop] at h
  | succ f ih =>
    simp only [acceptLoop] at h
    split at h
    · simp only [Except.ok.injEq] at h; subst h
      exact ⟨Quiet.refl w, fun _ h _ => h, fun h => ⟨rfl, h⟩⟩
    · split at h
      · simp at h
      · have he := emit_spec ps w none
        split at h
        · rename_i ps' w' heq
          simp only [Except.ok.injEq] at h; subst h
          rw [heq] at he
          refine ⟨he.1, he.2.1, fun hn => ?_⟩
          have := (he.2.2.2 hn).1
          simp at this
        · rename_i ps' w' heq
          rw [heq] at he
          have := ih _ _ _ h
          refine ⟨he.1.trans this.1, ?_, ?_⟩
          · intro s0 hc hs
            exact this.2.1 s0 (he.2.1 s0 hc hs) (by rw [he.1.sent]; exact hs)
          · intro hn
            exact this.2.2 (he.2.2.2 hn).2

theorem transLoop_spec (M : Machine) (i : Nat) (limited : Bool) (f : Nat) (seen : List Crumb)
    (ps : Option (List Crumb)) (w : World) (t : TransOut)
    (h : transLoop M i limited f seen ps w = .ok t) :
    Idle w t.w
    ∧ (∀ s0, CrumbsLe ps s0 → w.sent ≤ s0 → CrumbsLe t.ps s0)
    ∧ (t.closed = true → limited = true → ∃ l, ps = some l ∧ ∃ c ∈ l, c.2.2 = w.sent)
    ∧ (ps = none → t.closed = false ∧ t.ps = none) := by
  induction f generalizing seen ps w with
  | zero => simp [transLoop] at h
  | succ f ih =>
    simp only [transLoop] at h
    split at h
    · simp only [Except.ok.injEq] at h; subst h
      exact ⟨Idle.refl w, fun _ h _ => h, by simp, fun h => ⟨rfl, h⟩⟩
    · split at h
      · -- no transition for this input
        split at h
        · simp only [Except.ok.injEq] at h; subst h
          exact ⟨Idle.refl w, fun _ h _ => h, by simp, fun h => ⟨rfl, h⟩⟩
        · rename_i hlim
          split at h
          · split at h
            · simp only [Except.ok.injEq] at h; subst h
              exact ⟨Idle.refl w, fun _ h _ => h, by simp, fun h => ⟨rfl, h⟩⟩
            · have he := emit_spec ps w none
              split at h
              · rename_i ps' w' heq
                simp only [Except.ok.injEq] at h; subst h
                rw [heq] at he
                refine ⟨he.1.toIdle, he.2.1, ?_, fun hn => ?_⟩
                · intro _ hl; exact absurd hl hlim
                · have := (he.2.2.2 hn).1
                  simp at this
              · rename_i ps' w' heq
                rw [heq] at he
                have := ih _ _ _ h
                refine ⟨he.1.toIdle.trans this.1, ?_, ?_, ?_⟩
                · intro s0 hc hs
                  exact this.2.1 s0 (he.2.1 s0 hc hs) (by rw [he.1.sent]; exact hs)
                · intro _ hl; exact absurd hl hlim
                · intro hn
                  exact this.2.2.2 (he.2.2.2 hn).2
          · simp only [Except.ok.injEq] at h; subst h
            exact ⟨Idle.refl w, fun _ h _ => h, by simp, fun h => ⟨rfl, h⟩⟩
      · -- a transition (or choice list) was found
        rename_i ch hch
        have hi := evalChoice_idle w ch
        generalize hec : evalChoice w ch = ec at h hi
        obtain ⟨tgt, w1⟩ := ec
        simp only at h hi
        split at h
        · simp only [Except.ok.injEq] at h; subst h
          exact ⟨hi, fun _ h _ => h, by simp, fun h => ⟨rfl, h⟩⟩
        · have he := emit_spec ps w1 tgt
          split at h
          · rename_i ps' w' heq
            simp only [Except.ok.injEq] at h; subst h
            rw [heq] at he
            refine ⟨hi.trans he.1.toIdle, ?_, ?_, fun hn => ?_⟩
            · intro s0 hc hs
              exact he.2.1 s0 hc (by rw [hi.sent]; exact hs)
            · intro _ _
              obtain ⟨l, hl, hm⟩ := he.2.2.1 rfl
              exact ⟨l, hl, _, hm, by rw [crumb_sent, hi.sent]⟩
            · have := (he.2.2.2 hn).1
              simp at this
          · rename_i ps' w' heq
            simp only [Except.ok.injEq] at h; subst h
            rw [heq] at he
            refine ⟨hi.trans he.1.toIdle, ?_, by simp, fun hn => ⟨rfl, (he.2.2.2 hn).2⟩⟩
            intro s0 hc hs
            exact he.2.1 s0 hc (by rw [hi.sent]; exact hs)

/-! ### what a state's run guarantees to its delegate -/

/-- the number of symbols a state takes on entry -/
def State.own (s : State) : Nat :=
  match s.kind with
  | .input => 1
  | .drop => 1
  | _ => 0

theorem process_own (s : State) (w : World) : (process s w).sent ≤ w.sent + s.own := by
  unfold process State.own
  cases s.kind with
  | input => exact (advance_adv w).2.1
  | drop => exact (advance_adv w).2.1
  | null => simp
  | dfa _ _ _ => simp

structure Good (M : Machine) (i : Nat) (ps : Option (List Crumb)) (e : Option Int) (w : World)
    (r : RunOut) : Prop where
  /-- nothing skipped, nothing reordered, `sent` counts what was taken -/
  adv : Adv w r.w
  /-- a run that ends by itself ends at or before the enclosing ending -/
  lim : r.closed = false → ∀ x, e = some x → r.w.sent ≤ x
  crumbs : ∀ s0, CrumbsLe ps s0 → r.w.sent ≤ s0 → CrumbsLe r.ps s0
  /-- so does a run closed by its delegate -/
  closedLim : r.closed = true → CrumbsLe ps w.sent → ∀ x, e = some x → w.sent ≤ x → r.w.sent ≤ x
  /-- the state's own limit: at most `limit` symbols after its own -/
  ownLim : ∀ L, (resolve w (M.st i).limit).1 = some L → (r.closed = true → CrumbsLe ps w.sent) →
    r.w.sent ≤ w.sent + (M.st i).own + L
  /-- the outermost run is never closed -/
  top : ps = none → r.closed = false

def ChildOK (M : Machine) (child : Child) : Prop :=
  ∀ i ps e w r, child i ps e w = .ok r → Good M i ps e w r

/-- a position not beyond the ending (vacuous without one) -/
def Within (e : Option Int) (s : Int) : Prop := ∀ x, e = some x → s ≤ x

theorem innerLoop_spec {M : Machine} {child : Child} (hc : ChildOK M child) (i : Nat) (e : Option Int)
    (cycle final f cur : Nat) (seen : List Crumb) (w : World) (out : Nat × World × Bool)
    (h : innerLoop child i e cycle final f cur seen w = .ok out) :
    Adv w out.2.1 ∧ (CrumbsLe (some seen) w.sent → Within e w.sent → Within e out.2.1.sent) := by
  induction f generalizing cur seen w with
  | zero => simp [innerLoop] at h
  | succ f ih =>
    simp only [innerLoop] at h
    split at h
    · simp at h
    · rename_i r hr
      have g := hc _ _ _ _ _ hr
      split at h
      · rename_i hcl
        simp only [Except.ok.injEq] at h; subst h
        exact ⟨g.adv, fun hcr hw x hx => g.closedLim hcl hcr x hx (hw x hx)⟩
      · rename_i hcl
        have hcl : r.closed = false := by simpa using hcl
        split at h
        · rename_i t ht
          have := ih _ _ _ h
          refine ⟨g.adv.trans ((setDfa_idle _ _ _).adv.trans this.1), ?_⟩
          intro hcr hw
          apply this.2
          · have h1 : CrumbsLe r.ps r.w.sent :=
              g.crumbs _ (hcr.mono g.adv.sent_le) (Int.le_refl _)
            intro l hl c hcm
            simp only [Option.some.injEq] at hl
            subst hl
            cases hps : r.ps with
            | none => simp [hps] at hcm
            | some l' =>
              simp only [hps, Option.getD_some] at hcm
              exact h1 l' hps c hcm
          · intro x hx
            exact g.lim hcl x hx
        · simp only [Except.ok.injEq] at h; subst h
          exact ⟨g.adv, fun _ _ x hx => g.lim hcl x hx⟩

theorem cycleLoop_spec {M : Machine} {child : Child} (hc : ChildOK M child) (i init : Nat)
    (e : Option Int) (final f cycle : Nat) (w : World) (out : World × Nat × Bool)
    (h : cycleLoop M child i init e final f cycle w = .ok out) :
    Adv w out.1 ∧ (Within e w.sent → Within e out.1.sent)
    ∧ out.2.1 ≤ final - cycle ∧ (out.2.2 = false → out.2.1 = final - cycle)
    ∧ (out.2.2 = true → 1 ≤ out.2.1) ∧ (final ≤ cycle → out.1 = w) := by
  induction f generalizing cycle w out with
  | zero => simp [cycleLoop] at h
  | succ f ih =>
    simp only [cycleLoop] at h
    split at h
    · rename_i hlt
      split at h
      · simp at h
      · rename_i cur w1 stasis hin
        have hi := innerLoop_spec hc _ _ _ _ _ _ _ _ _ hin
        have h0 := setDfa_idle w i { cur := init, cycle := cycle + 1, final := final }
        have hadv : Adv w w1 := h0.adv.trans hi.1
        have hwithin : Within e w.sent → Within e w1.sent := by
          intro hw
          apply hi.2
          · intro l hl c hcm
            simp only [Option.some.injEq] at hl
            subst hl
            simp only [List.mem_singleton] at hcm
            subst hcm
            exact Int.le_refl _
          · rw [h0.sent]; exact hw
        split at h
        · simp at h
        · split at h
          · simp only [Except.ok.injEq] at h; subst h
            exact ⟨hadv, hwithin, by simp only; omega, by simp, by simp, by omega⟩
          · split at h
            · simp at h
            · rename_i w2 k st hrec
              simp only [Except.ok.injEq] at h; subst h
              have := ih _ _ _ hrec
              simp only at this ⊢
              refine ⟨hadv.trans this.1, fun hw => this.2.1 (hwithin hw), by omega, ?_, by omega, by omega⟩
              intro hst
              have := this.2.2.2.1 hst
              omega
    · rename_i hge
      simp only [Except.ok.injEq] at h; subst h
      exact ⟨Adv.refl w, id, by simp, by simp only; omega, by simp, fun _ => rfl⟩

/-- the repeat count a dfa's `repeat=` resolves to in a world (`None` is one run) -/
def repeatOf (w : World) (rep : Spec) : Nat := (resolve w rep).1.getD 1

theorem delegate_spec {M : Machine} {child : Child} (hc : ChildOK M child) (i : Nat) (e : Option Int)
    (f : Nat) (w : World) (out : World × Nat × Bool) (h : delegate M child i e f w = .ok out) :
    Adv w out.1 ∧ (Within e w.sent → Within e out.1.sent)
    ∧ (∀ init rep store, (M.st i).kind = .dfa init rep store →
        out.2.1 ≤ repeatOf w rep ∧ (out.2.2 = false → out.2.1 = repeatOf w rep)
        ∧ (out.2.2 = true → 1 ≤ out.2.1)
        ∧ (repeatOf w rep = 0 → out.2.1 = 0 ∧ out.1.sent = w.sent ∧ out.1.total = w.total)) := by
  unfold delegate at h
  split at h
  · rename_i init rep store hk
    have hr := resolve_idle w rep
    generalize hres : resolve w rep = res at h hr
    obtain ⟨n, w0⟩ := res
    simp only at h hr
    have h1 := setDfa_idle w0 i { (w0.dfa M i) with cycle := 0, final := n.getD 1 }
    split at h
    · simp at h
    · rename_i w2 k st hcy
      have hcs := cycleLoop_spec hc _ _ _ _ _ _ _ _ hcy
      have hadv : Adv w w2 := hr.adv.trans (h1.adv.trans hcs.1)
      have hwithin : Within e w.sent → Within e w2.sent := by
        intro hw; apply hcs.2.1; rw [h1.sent, hr.sent]; exact hw
      have hrep : ∀ init' rep' store', (M.st i).kind = .dfa init' rep' store' →
          k ≤ repeatOf w rep' ∧ (st = false → k = repeatOf w rep') ∧ (st = true → 1 ≤ k)
          ∧ (repeatOf w rep' = 0 → k = 0 ∧ w2.sent = w.sent ∧ w2.total = w.total) := by
        intro init' rep' store' hk'
        rw [hk] at hk'
        simp only [Kind.dfa.injEq] at hk'
        obtain ⟨_, rfl, _⟩ := hk'
        have hn : repeatOf w rep = n.getD 1 := by simp [repeatOf, hres]
        rw [hn]
        refine ⟨by have := hcs.2.2.1; simpa using this, fun hst => by have := hcs.2.2.2.1 hst; simpa using this,
          hcs.2.2.2.2.1, fun h0 => ?_⟩
        have hw2 := hcs.2.2.2.2.2 (by omega)
        have hk0 : k ≤ n.getD 1 - 0 := hcs.2.2.1
        simp only at hw2
        refine ⟨by omega, ?_, ?_⟩
        · rw [hw2, h1.sent, hr.sent]
        · rw [hw2, h1.total, hr.total]
      split at h
      · simp only [Except.ok.injEq] at h; subst h
        exact ⟨hadv, hwithin, hrep⟩
      · simp only [Except.ok.injEq] at h; subst h
        have hs := setField_idle w2 ‹Nat›
          (leNat ((List.take (w2.sent - (w0.setDfa i { (w0.dfa M i) with cycle := 0, final := n.getD 1 }).sent).toNat
            (w0.setDfa i { (w0.dfa M i) with cycle := 0, final := n.getD 1 }).total).take (n.getD 1)))
        refine ⟨hadv.trans hs.adv, fun hw => ?_, ?_⟩
        · intro x hx; rw [hs.sent]; exact hwithin hw x hx
        · intro init' rep' store' hk'
          have := hrep init' rep' store' hk'
          refine ⟨this.1, this.2.1, this.2.2.1, fun h0 => ?_⟩
          have := this.2.2.2 h0
          exact ⟨this.1, by rw [hs.sent]; exact this.2.1, by rw [hs.total]; exact this.2.2⟩
  · rename_i hk
    simp only [Except.ok.injEq] at h; subst h
    refine ⟨Adv.refl w, id, ?_⟩
    intro init rep store hk'
    exact absurd hk' (hk init rep store)

/-- **every run of every state, at every depth, is `Good`** -/
theorem runState_good (M : Machine) (f : Nat) : ChildOK M (runState M f) := by
  induction f with
  | zero => intro i ps e w r h; simp [runState] at h
  | succ f ih =>
    intro i ps e w r h
    simp only [runState] at h
    split at h
    · simp at h
    · -- closed while waiting for an acceptable symbol
      rename_i ps1 w1 hacc
      have ha := acceptLoop_spec _ _ _ _ _ _ hacc
      simp only [Except.ok.injEq] at h; subst h
      refine ⟨ha.1.toIdle.adv, by simp, fun s0 hc hs => ha.2.1 s0 hc (by rw [← ha.1.sent]; exact hs),
        fun _ _ x _ hw => by simp only; rw [ha.1.sent]; exact hw, ?_, fun hn => ?_⟩
      · intro L _ _
        simp only; rw [ha.1.sent]; omega
      · have := (ha.2.2 hn).1
        simp at this
    · rename_i ps1 w1 hacc
      have ha := acceptLoop_spec _ _ _ _ _ _ hacc
      simp only at ha
      have hp := process_adv (M.st i) w1
      have hown := process_own (M.st i) w1
      have hri := resolve_idle (process (M.st i) w1) (M.st i).limit
      have hrv : (resolve (process (M.st i) w1) (M.st i).limit).1 = (resolve w (M.st i).limit).1 :=
        resolve_congr (hp.2.2.1.trans ha.1.data) (hp.2.2.2.trans ha.1.tape) _
      generalize hres : resolve (process (M.st i) w1) (M.st i).limit = res at h hri hrv
      obtain ⟨lim, w3⟩ := res
      simp only at h hri hrv
      have hadv3 : Adv w w3 := ha.1.toIdle.adv.trans (hp.1.trans hri.adv)
      have hs3 : w3.sent ≤ w.sent + (M.st i).own := by
        rw [hri.sent, ← ha.1.sent]; exact hown
      split at h
      · simp at h
      · rename_i w4 k st hdel
        have hd := delegate_spec ih _ _ _ _ _ hdel
        simp only at hd
        have hadv4 : Adv w w4 := hadv3.trans hd.1
        split at h
        · simp at h
        · rename_i t htr
          have ht := transLoop_spec _ _ _ _ _ _ _ _ htr
          have hadvt : Adv w t.w := hadv4.trans ht.1.adv
          have hcr : ∀ s0, CrumbsLe ps s0 → t.w.sent ≤ s0 → CrumbsLe t.ps s0 := by
            intro s0 hc hs
            have h4 : w4.sent ≤ s0 := by rw [← ht.1.sent]; exact hs
            exact ht.2.1 s0 (ha.2.1 s0 hc (Int.le_trans hadv4.sent_le h4)) h4
          split at h
          · -- closed in the state's own transition
            rename_i hcl
            simp only [Except.ok.injEq] at h; subst h
            -- either not limited (strictly before the ending), or the stasis crumb is an old one
            have key : ∀ y, shrink e w3.sent lim = some y → CrumbsLe ps w.sent →
                Within e w.sent → t.w.sent ≤ y := by
              intro y hy hc hw
              rw [ht.1.sent]
              by_cases hl : y ≤ w4.sent
              · have hlim := ht.2.2.1 hcl (by rw [hy]; simpa using hl)
                obtain ⟨l, hl1, c, hc1, hc2⟩ := hlim
                have h1 : CrumbsLe ps1 w.sent := ha.2.1 _ hc (Int.le_refl _)
                have h2 : w4.sent ≤ w.sent := by rw [← hc2]; exact h1 l hl1 c hc1
                -- so nothing was consumed since entry, and entry was within the ending
                have h3 : w.sent ≤ w3.sent := hadv3.sent_le
                have h5 : w3.sent ≤ w4.sent := hd.1.sent_le
                have h6 : w3.sent ≤ y :=
                  shrink_ge (e := e) (s := w3.sent) (l := lim) (fun x hx => by have := hw x hx; omega) y hy
                omega
              · omega
            refine ⟨hadvt, by simp, hcr, ?_, ?_, fun hn => ?_⟩
            · intro _ hc x hx hw
              obtain ⟨y, hy, hyx⟩ := shrink_le_enclosing (s := w3.sent) (l := lim) hx
              have := key y hy hc (fun x' hx' => by rw [hx] at hx'; cases hx'; exact hw)
              simp only; omega
            · intro L hL hc
              rw [← hrv] at hL
              obtain ⟨y, hy, hyl⟩ := shrink_le_limit (e := e) (s := w3.sent) hL
              simp only
              by_cases hl : y ≤ w4.sent
              · have hlim := ht.2.2.1 hcl (by rw [hy]; simpa using hl)
                obtain ⟨l, hl1, c, hc1, hc2⟩ := hlim
                have h1 : CrumbsLe ps1 w.sent := ha.2.1 _ (hc (by simp)) (Int.le_refl _)
                have h2 : w4.sent ≤ w.sent := by rw [← hc2]; exact h1 l hl1 c hc1
                rw [ht.1.sent]; omega
              · rw [ht.1.sent]; omega
            · have := (ht.2.2.2 (ha.2.2 hn).2).1
              rw [this] at hcl; simp at hcl
          · rename_i hcl
            have hcl : t.closed = false := by simpa using hcl
            -- the final `assert source.sent <= ending`
            have fin : ∀ y, shrink e w3.sent lim = some y → (match shrink e w3.sent lim with
                | some x => if x < t.w.sent then (Except.error (Err.assertion, t.w) : Res RunOut)
                    else .ok { w := t.w, ps := t.ps, closed := false, target := t.target }
                | none => .ok { w := t.w, ps := t.ps, closed := false, target := t.target }) = .ok r →
                t.w.sent ≤ y := by
              intro y hy hm
              rw [hy] at hm
              simp only at hm
              split at hm
              · simp at hm
              · omega
            have hr : r = { w := t.w, ps := t.ps, closed := false, target := t.target } := by
              split at h
              · split at h
                · simp at h
                · simp only [Except.ok.injEq] at h; exact h.symm
              · simp only [Except.ok.injEq] at h; exact h.symm
            have fin' := fun y hy => fin y hy h
            subst hr
            refine ⟨hadvt, ?_, hcr, by simp, ?_, fun _ => rfl⟩
            · intro _ x hx
              obtain ⟨y, hy, hyx⟩ := shrink_le_enclosing (s := w3.sent) (l := lim) hx
              have := fin' y hy
              simp only; omega
            · intro L hL _
              rw [← hrv] at hL
              obtain ⟨y, hy, hyl⟩ := shrink_le_limit (e := e) (s := w3.sent) hL
              have := fin' y hy
              simp only; omega

end Cpppo.Engine

namespace Cpppo.Engine
open Cpppo.Source

/-! ### `octets`: a dfa over one consuming, terminal state without edges -/

/-- the sub-machine state of `octets` / `octets_drop` / `octets_struct` -/
def State.isByte (s : State) : Prop :=
  (s.kind = .input ∨ s.kind = .drop) ∧ s.term = true ∧ s.limit = .none ∧ s.edges = []

/-- waiting for a symbol never ends in stasis when every no-target crumb the delegate has seen is
also in the state's own `seen` set (the state fails with "no progress" first) -/
theorem acceptLoop_no_stasis (s : State) (f : Nat) (seen : List Crumb) (l : List Crumb) (w : World)
    (out : Option (List Crumb) × World × Bool)
    (hinv : ∀ c ∈ l, c.1 = none → c ∈ seen)
    (h : acceptLoop s f seen (some l) w = .ok out) :
    out.2.2 = false ∧ accepts s out.2.1 = true := by
  induction f generalizing seen l w with
  | zero => simp [acceptLoop] at h
  | succ f ih =>
    simp only [acceptLoop] at h
    split at h
    · rename_i hacc
      simp only [Except.ok.injEq] at h; subst h
      exact ⟨rfl, hacc⟩
    · split at h
      · simp at h
      · rename_i hns
        have hnl : w.crumb none ∉ l := fun hm => hns (hinv _ hm rfl)
        simp only [emit, hnl, if_false] at h
        apply ih _ _ _ _ h
        intro c hc hcn
        rcases List.mem_cons.mp hc with rfl | hc
        · exact List.mem_cons_self
        · exact List.mem_cons_of_mem _ (hinv c hc hcn)

theorem terminal_byte (M : Machine) (w : World) (j : Nat) (hb : (M.st j).isByte) :
    isTerminal M w j = true := by
  unfold isTerminal Machine.depth terminal
  rcases hb.1 with hk | hk <;> simp [hk, hb.2.1]

theorem accepts_byte {s : State} (hb : s.isByte) {w : World} (h : accepts s w = true) :
    ∃ x r, w.src.rest = x :: r := by
  unfold accepts at h
  have : w.peek.isSome = true := by rcases hb.1 with hk | hk <;> simpa [hk] using h
  unfold World.peek ASrc.peek at this
  cases hr : w.src.rest with
  | nil => simp [hr] at this
  | cons x r => exact ⟨x, r, rfl⟩

/-- one run of the byte state started by a delegate at the beginning of a cycle: it takes exactly
one symbol, does not transit, and is not closed -/
theorem run_byte (M : Machine) (f j : Nat) (e : Option Int) (w : World) (t : Option Nat) (r : RunOut)
    (hb : (M.st j).isByte) (ht : t ≠ none)
    (h : runState M f j (some [w.crumb t]) e w = .ok r) :
    r.closed = false ∧ r.target = none ∧ r.w.sent = w.sent + 1 := by
  cases f with
  | zero => simp [runState] at h
  | succ f =>
    simp only [runState] at h
    split at h
    · simp at h
    · rename_i ps1 w1 hacc
      have := acceptLoop_no_stasis _ _ _ _ _ _ (by
        intro c hc hcn
        simp only [List.mem_singleton] at hc
        subst hc
        exact absurd hcn ht) hacc
      simp at this
    · rename_i ps1 w1 hacc
      have hq := (acceptLoop_spec _ _ _ _ _ _ hacc).1
      have hns := acceptLoop_no_stasis _ _ _ _ _ _ (by
        intro c hc hcn
        simp only [List.mem_singleton] at hc
        subst hc
        exact absurd hcn ht) hacc
      obtain ⟨x, rest, hrest⟩ := accepts_byte hb hns.2
      simp only at hrest hq
      have hproc : (process (M.st j) w1).sent = w.sent + 1 := by
        have : process (M.st j) w1 = w1.advance := by
          unfold process; rcases hb.1 with hk | hk <;> simp [hk]
        rw [this, ← hq.sent]
        simp [World.advance, ASrc.next, hrest, World.sent]
      simp only [hb.2.2.1, resolve] at h
      have hdel : ∀ e' f', delegate M (runState M f) j e' f' (process (M.st j) w1)
          = .ok (process (M.st j) w1, 0, false) := by
        intro e' f'
        unfold delegate
        rcases hb.1 with hk | hk <;> simp [hk]
      rw [hdel] at h
      simp only at h
      -- the transition loop: no edges, no event
      have htr : ∀ lim, transLoop M j lim f [] ps1 (process (M.st j) w1)
          = .error (.fuel, process (M.st j) w1) ∨
          transLoop M j lim f [] ps1 (process (M.st j) w1) = .ok ⟨ps1, process (M.st j) w1, false, none⟩ := by
        intro lim
        cases f with
        | zero => left; rfl
        | succ f =>
          right
          simp only [transLoop]
          split
          · rfl
          · have : ∀ inp, lookup (M.st j) inp = none := by
              intro inp; unfold lookup; rw [hb.2.2.2]; cases inp <;> simp [findLabel]
            rw [this]
            simp [hb.2.2.2]
      split at h
      · simp at h
      · rename_i tt htt
        have htt' : tt = ⟨ps1, process (M.st j) w1, false, none⟩ := by
          rcases htr _ with hh | hh
          · rw [hh] at htt; simp at htt
          · rw [hh] at htt; simp only [Except.ok.injEq] at htt; exact htt.symm
        subst htt'
        simp only [Bool.false_eq_true, if_false] at h
        split at h
        · split at h
          · simp at h
          · simp only [Except.ok.injEq] at h; subst h
            exact ⟨rfl, rfl, hproc⟩
        · simp only [Except.ok.injEq] at h; subst h
          exact ⟨rfl, rfl, hproc⟩

theorem cycleLoop_bytes (M : Machine) (f0 i j : Nat) (e : Option Int) (final f cycle : Nat)
    (w : World) (out : World × Nat × Bool) (hb : (M.st j).isByte)
    (h : cycleLoop M (runState M f0) i j e final f cycle w = .ok out) :
    out.1.sent = w.sent + ((final - cycle : Nat) : Int) ∧ out.2.2 = false := by
  induction f generalizing cycle w out with
  | zero => simp [cycleLoop] at h
  | succ f ih =>
    simp only [cycleLoop] at h
    split at h
    · rename_i hlt
      split at h
      · simp at h
      · rename_i cur w1 stasis hin
        -- the inner loop runs the byte state once
        have hinner : cur = j ∧ stasis = false ∧ w1.sent = w.sent + 1 := by
          cases f with
          | zero => simp [innerLoop] at hin
          | succ f =>
            simp only [innerLoop] at hin
            split at hin
            · simp at hin
            · rename_i r hr
              have := run_byte M f0 j e _ (some j) r hb (by simp) hr
              simp only [this.1, this.2.1, Bool.false_eq_true, if_false, Except.ok.injEq,
                Prod.mk.injEq] at hin
              obtain ⟨rfl, rfl, rfl⟩ := hin
              exact ⟨rfl, rfl, by rw [this.2.2]; rfl⟩
        obtain ⟨rfl, rfl, hs1⟩ := hinner
        rw [terminal_byte M w1 cur hb] at h
        simp only [Bool.not_true, Bool.false_eq_true, if_false] at h
        split at h
        · simp at h
        · rename_i w2 k st hrec
          simp only [Except.ok.injEq] at h; subst h
          have := ih _ _ _ hrec
          simp only at this ⊢
          refine ⟨?_, this.2⟩
          rw [this.1, hs1]
          have : ((final - cycle : Nat) : Int) = ((final - (cycle + 1) : Nat) : Int) + 1 := by omega
          omega
    · rename_i hge
      simp only [Except.ok.injEq] at h; subst h
      have : final - cycle = 0 := by omega
      simp [this]

end Cpppo.Engine
