import Mathlib.Computability.RegularExpressions
import Cpppo.Model.Rx

/-!
Semantics of the expressions of `Cpppo.Model.Rx` and correctness of the derivative matcher.

* `Rx.lang r : Language Sym` — the standard denotational semantics, with Mathlib's `Language`
  operations (`+`, `*`, `∗`);
* `rmatch_iff` — the derivative matcher decides `lang`;
* `inhabited_iff` — `inhabited` decides non-emptiness;
* `toRE σ r : RegularExpression Sym` — the expression as a Mathlib `RegularExpression` over a finite
  alphabet `σ` (`.` and negated classes become finite sums), and `matches'_toRE`: on words over `σ`
  Mathlib's `matches'` is `lang`;
* `specGo_*` — the specification run consumes the longest prefix that can be extended to a sentence.
-/
set_option linter.dupNamespace false
namespace Cpppo.Rx
open Language Computability

namespace Rx

/-- standard regular-expression semantics -/
def lang : Rx → Language Sym
  | none => 0
  | eps => 1
  | lit c => {[c]}
  | cls neg cs => {w | ∃ c, w = [c] ∧ clsMatch neg cs c = true}
  | dot => {w | ∃ c, w = [c]}
  | alt r s => lang r + lang s
  | cat r s => lang r * lang s
  | star r => KStar.kstar (lang r)

theorem mem_lang_lit {c : Sym} {w : List Sym} : w ∈ lang (lit c) ↔ w = [c] := Iff.rfl
theorem mem_lang_cls {neg : Bool} {cs : List Sym} {w : List Sym} :
    w ∈ lang (cls neg cs) ↔ ∃ c, w = [c] ∧ clsMatch neg cs c = true := Iff.rfl
theorem mem_lang_dot {w : List Sym} : w ∈ lang dot ↔ ∃ c, w = [c] := Iff.rfl
theorem mem_lang_none {w : List Sym} : w ∈ lang none ↔ False := Iff.rfl
theorem mem_lang_eps {w : List Sym} : w ∈ lang eps ↔ w = [] := Language.mem_one w
theorem mem_lang_alt {r s : Rx} {w : List Sym} : w ∈ lang (alt r s) ↔ w ∈ lang r ∨ w ∈ lang s :=
  Language.mem_add _ _ _
theorem mem_lang_cat {r s : Rx} {w : List Sym} :
    w ∈ lang (cat r s) ↔ ∃ a ∈ lang r, ∃ b ∈ lang s, a ++ b = w := Language.mem_mul

theorem nullable_iff (r : Rx) : nullable r = true ↔ [] ∈ lang r := by
  induction r with
  | none => simp [nullable, mem_lang_none]
  | eps => simp [nullable, mem_lang_eps]
  | lit c => simp [nullable, mem_lang_lit]
  | cls neg cs => simp [nullable, mem_lang_cls]
  | dot => simp [nullable, mem_lang_dot]
  | alt r s ihr ihs => simp [nullable, mem_lang_alt, ihr, ihs]
  | cat r s ihr ihs =>
    simp only [nullable, mem_lang_cat, Bool.and_eq_true, ihr, ihs]
    constructor
    · rintro ⟨h1, h2⟩; exact ⟨[], h1, [], h2, rfl⟩
    · rintro ⟨a, ha, b, hb, hab⟩
      have h := List.append_eq_nil_iff.mp hab
      rw [h.1] at ha; rw [h.2] at hb; exact ⟨ha, hb⟩
  | star r _ => simp only [nullable, lang, true_iff]; exact Language.nil_mem_kstar _

theorem cons_mem_mul {l m : Language Sym} (c : Sym) (w : List Sym) :
    c :: w ∈ l * m ↔ ([] ∈ l ∧ c :: w ∈ m) ∨ ∃ a b, c :: a ∈ l ∧ b ∈ m ∧ a ++ b = w := by
  rw [Language.mem_mul]
  constructor
  · rintro ⟨a, ha, b, hb, hab⟩
    cases a with
    | nil => left; simp at hab; subst hab; exact ⟨ha, hb⟩
    | cons x a' =>
      right
      simp only [List.cons_append, List.cons.injEq] at hab
      obtain ⟨rfl, rfl⟩ := hab
      exact ⟨a', b, ha, hb, rfl⟩
  · rintro (⟨h1, h2⟩ | ⟨a, b, ha, hb, rfl⟩)
    · exact ⟨[], h1, c :: w, h2, rfl⟩
    · exact ⟨c :: a, ha, b, hb, rfl⟩

theorem cons_mem_kstar {l : Language Sym} (c : Sym) (w : List Sym) :
    c :: w ∈ l∗ ↔ ∃ a b, c :: a ∈ l ∧ b ∈ l∗ ∧ a ++ b = w := by
  constructor
  · intro h
    rw [Language.mem_kstar_iff_exists_nonempty] at h
    obtain ⟨S, hS, hall⟩ := h
    cases S with
    | nil => simp at hS
    | cons y S' =>
      have hy := hall y (by simp)
      cases y with
      | nil => exact absurd rfl hy.2
      | cons x y' =>
        simp only [List.flatten_cons, List.cons_append, List.cons.injEq] at hS
        obtain ⟨rfl, rfl⟩ := hS
        refine ⟨y', S'.flatten, hy.1, ?_, rfl⟩
        rw [Language.mem_kstar]
        exact ⟨S', rfl, fun z hz => (hall z (by simp [hz])).1⟩
  · rintro ⟨a, b, ha, hb, rfl⟩
    rw [Language.mem_kstar] at hb ⊢
    obtain ⟨S, rfl, hS⟩ := hb
    refine ⟨(c :: a) :: S, by simp, ?_⟩
    intro y hy
    simp only [List.mem_cons] at hy
    rcases hy with rfl | hy
    · exact ha
    · exact hS y hy

/-- the derivative is the left quotient by one symbol -/
theorem mem_deriv (c : Sym) (r : Rx) : ∀ w, w ∈ lang (deriv c r) ↔ c :: w ∈ lang r := by
  induction r with
  | none => intro w; simp [deriv, mem_lang_none]
  | eps => intro w; simp [deriv, mem_lang_none, mem_lang_eps]
  | lit a =>
    intro w
    by_cases h : a = c
    · subst h; simp [deriv, mem_lang_eps, mem_lang_lit]
    · simp only [deriv, h, if_false, mem_lang_lit, mem_lang_none, false_iff]
      intro h'
      simp at h'; exact absurd h'.1.symm h
  | cls neg cs =>
    intro w
    by_cases h : clsMatch neg cs c = true
    · simp only [deriv, h, if_true, mem_lang_cls, mem_lang_eps]
      constructor
      · rintro rfl; exact ⟨c, rfl, h⟩
      · rintro ⟨d, hd, _⟩; simp at hd; exact hd.2
    · have h' : clsMatch neg cs c = false := by simpa using h
      simp only [deriv, h', mem_lang_cls, mem_lang_none, false_iff, Bool.false_eq_true, if_false]
      rintro ⟨d, hd, hm⟩
      simp at hd; rw [← hd.1] at hm; exact absurd hm h
  | dot =>
    intro w
    simp only [deriv, mem_lang_dot, mem_lang_eps]
    constructor
    · rintro rfl; exact ⟨c, rfl⟩
    · rintro ⟨d, hd⟩; simp at hd; exact hd.2
  | alt r s ihr ihs => intro w; simp only [deriv, mem_lang_alt, ihr, ihs]
  | cat r s ihr ihs =>
    intro w
    have key : c :: w ∈ lang r * lang s ↔
        (nullable r = true ∧ w ∈ lang (deriv c s)) ∨ w ∈ lang (deriv c r) * lang s := by
      rw [cons_mem_mul, nullable_iff, ihs, Language.mem_mul]
      constructor
      · rintro (h | ⟨a, b, ha, hb, hab⟩)
        · exact Or.inl h
        · exact Or.inr ⟨a, (ihr a).mpr ha, b, hb, hab⟩
      · rintro (h | ⟨a, ha, b, hb, hab⟩)
        · exact Or.inl h
        · exact Or.inr ⟨a, b, (ihr a).mp ha, hb, hab⟩
    show w ∈ lang (deriv c (cat r s)) ↔ c :: w ∈ lang r * lang s
    by_cases hn : nullable r = true
    · simp only [deriv, hn, if_true, mem_lang_alt]
      rw [key]; simp only [hn, true_and]
      rw [show lang (cat (deriv c r) s) = lang (deriv c r) * lang s from rfl]
      exact or_comm
    · have hn' : nullable r = false := by simpa using hn
      simp only [deriv, hn', Bool.false_eq_true, if_false]
      rw [key, show lang (cat (deriv c r) s) = lang (deriv c r) * lang s from rfl]
      simp [hn']
  | star r ih =>
    intro w
    show w ∈ lang (deriv c r) * KStar.kstar (lang r) ↔ c :: w ∈ KStar.kstar (lang r)
    rw [cons_mem_kstar, Language.mem_mul]
    constructor
    · rintro ⟨a, ha, b, hb, hab⟩; exact ⟨a, b, (ih a).mp ha, hb, hab⟩
    · rintro ⟨a, b, ha, hb, hab⟩; exact ⟨a, (ih a).mpr ha, b, hb, hab⟩

theorem mem_derivs (r : Rx) (p w : List Sym) : w ∈ lang (derivs r p) ↔ p ++ w ∈ lang r := by
  induction p generalizing r with
  | nil => simp [derivs]
  | cons c p ih =>
    have : derivs r (c :: p) = derivs (deriv c r) p := rfl
    rw [this, ih, mem_deriv]; rfl

/-- **the derivative matcher decides the language** -/
theorem rmatch_iff (r : Rx) (w : List Sym) : rmatch r w = true ↔ w ∈ lang r := by
  unfold rmatch
  rw [nullable_iff, mem_derivs, List.append_nil]

/-- a symbol that is not in a list -/
theorem exists_bound (cs : List Nat) : ∃ b : Nat, ∀ c ∈ cs, c < b := by
  induction cs with
  | nil => exact ⟨0, by simp⟩
  | cons x xs ih =>
    obtain ⟨b, hb⟩ := ih
    refine ⟨max b (x + 1), fun c hc => ?_⟩
    simp only [List.mem_cons] at hc
    rcases hc with rfl | hc
    · omega
    · have := hb c hc; omega

theorem exists_not_mem (cs : List Nat) : ∃ c : Nat, c ∉ cs := by
  obtain ⟨b, hb⟩ := exists_bound cs
  exact ⟨b, fun h => Nat.lt_irrefl _ (hb b h)⟩

theorem inhabited_iff (r : Rx) : inhabited r = true ↔ ∃ w, w ∈ lang r := by
  induction r with
  | none => simp [inhabited, mem_lang_none]
  | eps => simp [inhabited, mem_lang_eps]
  | lit c => simp only [inhabited, true_iff]; exact ⟨[c], rfl⟩
  | cls neg cs =>
    simp only [inhabited, mem_lang_cls, clsMatch, Bool.or_eq_true]
    constructor
    · rintro (h | h)
      · obtain ⟨c, hc⟩ := exists_not_mem cs
        exact ⟨[c], c, rfl, by simp [h, hc]⟩
      · cases cs with
        | nil => simp at h
        | cons x xs =>
          cases neg with
          | true => obtain ⟨c, hc⟩ := exists_not_mem (x :: xs); exact ⟨[c], c, rfl, by simp at hc ⊢; exact hc⟩
          | false => exact ⟨[x], x, rfl, by simp⟩
    · rintro ⟨w, c, _, hm⟩
      cases neg with
      | true => left; rfl
      | false =>
        right
        cases cs with
        | nil => simp at hm
        | cons x xs => simp
  | dot => simp only [inhabited, true_iff]; exact ⟨[0], 0, rfl⟩
  | alt r s ihr ihs =>
    simp only [inhabited, mem_lang_alt, Bool.or_eq_true, ihr, ihs]
    constructor
    · rintro (⟨w, h⟩ | ⟨w, h⟩)
      · exact ⟨w, Or.inl h⟩
      · exact ⟨w, Or.inr h⟩
    · rintro ⟨w, h | h⟩
      · exact Or.inl ⟨w, h⟩
      · exact Or.inr ⟨w, h⟩
  | cat r s ihr ihs =>
    simp only [inhabited, mem_lang_cat, Bool.and_eq_true, ihr, ihs]
    constructor
    · rintro ⟨⟨a, ha⟩, ⟨b, hb⟩⟩; exact ⟨a ++ b, a, ha, b, hb, rfl⟩
    · rintro ⟨w, a, ha, b, hb, _⟩; exact ⟨⟨a, ha⟩, ⟨b, hb⟩⟩
  | star r _ => simp only [inhabited, true_iff]; exact ⟨[], Language.nil_mem_kstar (lang r)⟩

/-- `p` can be extended to a sentence -/
def Viable (L : Language Sym) (p : List Sym) : Prop := ∃ v, p ++ v ∈ L

theorem viable_iff (r : Rx) (p : List Sym) : viable r p = true ↔ Viable (lang r) p := by
  unfold viable Viable
  rw [inhabited_iff]
  simp only [mem_derivs]

theorem Viable.prefix {L : Language Sym} {p q : List Sym} (h : Viable L (p ++ q)) : Viable L p := by
  obtain ⟨v, hv⟩ := h
  exact ⟨q ++ v, by rwa [← List.append_assoc]⟩

/-! ### the specification run -/

theorem specGo_prefix (r : Rx) (w : List Sym) : (specGo r w).1 <+: w := by
  induction w generalizing r with
  | nil => simp [specGo]
  | cons c w ih =>
    simp only [specGo]
    split
    · simp only []
      have := ih (deriv c r)
      obtain ⟨t, ht⟩ := this
      exact ⟨t, by simp [ht]⟩
    · exact List.nil_prefix

theorem specGo_derivs (r : Rx) (w : List Sym) : (specGo r w).2 = derivs r (specGo r w).1 := by
  induction w generalizing r with
  | nil => simp [specGo, derivs]
  | cons c w ih =>
    simp only [specGo]
    split
    · simp only []
      rw [ih (deriv c r)]; rfl
    · simp [derivs]

/-- what is consumed can be extended to a sentence (when the language is not empty) -/
theorem specGo_viable (r : Rx) (h : inhabited r = true) (w : List Sym) :
    inhabited (derivs r (specGo r w).1) = true := by
  induction w generalizing r with
  | nil => simpa [specGo, derivs] using h
  | cons c w ih =>
    simp only [specGo]
    split
    · rename_i hc
      simp only []
      exact ih (deriv c r) hc
    · simpa [derivs] using h

/-- no longer prefix of the input can be extended to a sentence -/
theorem specGo_longest (r : Rx) (w p : List Sym) (hp : p <+: w)
    (hv : inhabited (derivs r p) = true) : p.length ≤ (specGo r w).1.length := by
  induction w generalizing r p with
  | nil => simp [List.prefix_nil.mp hp]
  | cons c w ih =>
    cases p with
    | nil => simp
    | cons d p' =>
      obtain ⟨t, ht⟩ := hp
      simp only [List.cons_append, List.cons.injEq] at ht
      obtain ⟨rfl, ht⟩ := ht
      have hv' : inhabited (derivs (deriv d r) p') = true := hv
      have hd : inhabited (deriv d r) = true := by
        rw [inhabited_iff] at hv' ⊢
        obtain ⟨v, hv'⟩ := hv'
        rw [mem_derivs] at hv'
        exact ⟨_, hv'⟩
      simp only [specGo, hd, if_true, List.length_cons]
      have := ih (deriv d r) p' ⟨t, ht⟩ hv'
      omega

/-! ### Mathlib's `RegularExpression` over a finite alphabet -/

/-- the sum of the single-symbol expressions of a list -/
def sumChars : List Sym → RegularExpression Sym
  | [] => 0
  | c :: cs => RegularExpression.char c + sumChars cs

theorem matches'_sumChars (cs : List Sym) (w : List Sym) :
    w ∈ (sumChars cs).matches' ↔ ∃ c ∈ cs, w = [c] := by
  induction cs with
  | nil => simp [sumChars]
  | cons c cs ih =>
    simp only [sumChars, RegularExpression.matches'_add, RegularExpression.matches'_char,
      Language.mem_add, ih, List.mem_cons]
    constructor
    · rintro (h | ⟨d, hd, rfl⟩)
      · exact ⟨c, Or.inl rfl, h⟩
      · exact ⟨d, Or.inr hd, rfl⟩
    · rintro ⟨d, rfl | hd, rfl⟩
      · left; rfl
      · right; exact ⟨d, hd, rfl⟩

/-- the expression over the finite alphabet `σ`, as a Mathlib `RegularExpression` -/
def toRE (σ : List Sym) : Rx → RegularExpression Sym
  | none => 0
  | eps => 1
  | lit c => RegularExpression.char c
  | cls neg cs => sumChars (σ.filter fun c => clsMatch neg cs c)
  | dot => sumChars σ
  | alt r s => toRE σ r + toRE σ s
  | cat r s => toRE σ r * toRE σ s
  | star r => RegularExpression.star (toRE σ r)

/-- **on words over `σ` the semantics is Mathlib's `RegularExpression.matches'`** -/
theorem matches'_toRE (σ : List Sym) (r : Rx) :
    ∀ w, (∀ c ∈ w, c ∈ σ) → (w ∈ (toRE σ r).matches' ↔ w ∈ lang r) := by
  induction r with
  | none => intro w _; simp [toRE, lang]
  | eps => intro w _; simp [toRE, lang]
  | lit c => intro w _; simp [toRE, lang]
  | cls neg cs =>
    intro w hw
    simp only [toRE, lang, matches'_sumChars, List.mem_filter]
    constructor
    · rintro ⟨c, ⟨_, hm⟩, rfl⟩; exact ⟨c, rfl, hm⟩
    · rintro ⟨c, rfl, hm⟩; exact ⟨c, ⟨hw c (by simp), hm⟩, rfl⟩
  | dot =>
    intro w hw
    simp only [toRE, lang, matches'_sumChars]
    constructor
    · rintro ⟨c, _, rfl⟩; exact ⟨c, rfl⟩
    · rintro ⟨c, rfl⟩; exact ⟨c, hw c (by simp), rfl⟩
  | alt r s ihr ihs =>
    intro w hw
    simp only [toRE, lang, RegularExpression.matches'_add, Language.mem_add, ihr w hw, ihs w hw]
  | cat r s ihr ihs =>
    intro w hw
    simp only [toRE, lang, RegularExpression.matches'_mul, Language.mem_mul]
    constructor
    · rintro ⟨a, ha, b, hb, rfl⟩
      exact ⟨a, (ihr a fun c hc => hw c (by simp [hc])).mp ha, b,
        (ihs b fun c hc => hw c (by simp [hc])).mp hb, rfl⟩
    · rintro ⟨a, ha, b, hb, rfl⟩
      exact ⟨a, (ihr a fun c hc => hw c (by simp [hc])).mpr ha, b,
        (ihs b fun c hc => hw c (by simp [hc])).mpr hb, rfl⟩
  | star r ih =>
    intro w hw
    simp only [toRE, lang, RegularExpression.matches'_star, Language.mem_kstar]
    constructor
    · rintro ⟨S, rfl, hS⟩
      refine ⟨S, rfl, fun y hy => (ih y fun c hc => hw c ?_).mp (hS y hy)⟩
      exact List.mem_flatten.mpr ⟨y, hy, hc⟩
    · rintro ⟨S, rfl, hS⟩
      refine ⟨S, rfl, fun y hy => (ih y fun c hc => hw c ?_).mpr (hS y hy)⟩
      exact List.mem_flatten.mpr ⟨y, hy, hc⟩

/-! ### the derived operators -/

theorem lang_plus (r : Rx) : lang (plus r) = lang r * KStar.kstar (lang r) := rfl
theorem lang_opt (r : Rx) : lang (opt r) = lang r + 1 := rfl

theorem lang_pow (r : Rx) (k : Nat) : lang (pow r k) = lang r ^ k := by
  induction k with
  | zero => simp [pow, lang]
  | succ k ih => simp [pow, lang, ih, pow_succ']

theorem lang_optPow (r : Rx) (k : Nat) : lang (optPow r k) = (lang r + 1) ^ k := by
  induction k with
  | zero => simp [optPow, lang]
  | succ k ih => simp [optPow, lang, opt, ih, pow_succ']

/-- `r{m,n}`: `m` copies followed by up to `n - m` more -/
theorem lang_rep (r : Rx) (m n : Nat) (h : m ≤ n) :
    lang (rep r m n) = lang r ^ m * (lang r + 1) ^ (n - m) := by
  simp [rep, Nat.not_lt.mpr h, lang, lang_pow, lang_optPow]

end Rx
end Cpppo.Rx
