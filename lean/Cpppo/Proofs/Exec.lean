import Cpppo.Proofs.Frag
import Cpppo.Proofs.Canon

/-! Lemmas about `execTag` / `execSimple` / `execMembers` (C03, C05, C07). -/
namespace Cpppo.Logix

/-! ### storage frame rules -/

theorem attrGet_attrSet (l : List (Nat × Tag)) (a a' : Nat) (t : Tag) :
    attrGet (attrSet l a t) a' = if a' = a then (attrGet l a).map (fun _ => t) else attrGet l a' := by
  induction l with
  | nil => simp [attrGet, attrSet]
  | cons p ps ih =>
    obtain ⟨k, t0⟩ := p
    simp only [attrSet, attrGet]
    by_cases hk : k = a
    · subst hk
      by_cases ha : a' = k
      · subst ha; simp [attrGet]
      · have : ¬ k = a' := fun h => ha h.symm
        simp [attrGet, ha, this]
    · by_cases ha : a' = a
      · subst ha; simp [attrGet, hk, ih]
      · simp only [hk, ↓reduceIte, attrGet, ih, ha]

theorem objGet_objSet (l : List Obj) (c i c' i' : Nat) (f : Obj → Obj)
    (hf : ∀ o, (f o).cls = o.cls ∧ (f o).ins = o.ins) :
    objGet (objSet l c i f) c' i' =
      if c' = c ∧ i' = i then (objGet l c i).map f else objGet l c' i' := by
  induction l with
  | nil => simp [objGet, objSet]
  | cons o os ih =>
    simp only [objSet, objGet]
    by_cases ho : o.cls = c ∧ o.ins = i
    · by_cases hc : c' = c ∧ i' = i
      · obtain ⟨rfl, rfl⟩ := hc
        simp [objGet, ho, hf o]
      · have : ¬ (o.cls = c' ∧ o.ins = i') := by
          intro h; apply hc; constructor <;> omega
        have h2 : ¬ ((f o).cls = c' ∧ (f o).ins = i') := by rw [(hf o).1, (hf o).2]; exact this
        have h3 : ¬ (c = c' ∧ i = i') := fun h => hc ⟨h.1.symm, h.2.symm⟩
        simp only [objGet, ho, and_self, ↓reduceIte, h2, hc, h3]
    · by_cases hc : c' = c ∧ i' = i
      · obtain ⟨rfl, rfl⟩ := hc
        simp [objGet, ho, ih]
      · simp only [ho, ↓reduceIte, objGet, ih, hc]

/-- After a write to `(c,i,a)`: that attribute (if it existed) holds the new tag; every other address
is untouched. -/
theorem Dev.attr?_setAttr (d : Dev) (c i a c' i' a' : Nat) (t : Tag) :
    (d.setAttr c i a t).attr? c' i' a' =
      if c' = c ∧ i' = i ∧ a' = a then (d.attr? c i a).map (fun _ => t) else d.attr? c' i' a' := by
  unfold Dev.setAttr Dev.attr? Dev.obj?
  simp only
  rw [objGet_objSet _ _ _ _ _ (fun x => x.setAttr a t) (fun o => ⟨rfl, rfl⟩)]
  by_cases hc : c' = c ∧ i' = i
  · obtain ⟨rfl, rfl⟩ := hc
    simp only [and_self, ↓reduceIte, true_and]
    cases objGet d.objs c' i' with
    | none => simp
    | some o =>
      simp only [Option.map_some, Option.bind_some, Obj.attr?, Obj.setAttr, attrGet_attrSet]
  · have : ¬ (c' = c ∧ i' = i ∧ a' = a) := fun h => hc ⟨h.1, h.2.1⟩
    simp [hc, this]

theorem Dev.setAttr_symbols (d : Dev) (c i a : Nat) (t : Tag) :
    (d.setAttr c i a t).symbols = d.symbols ∧ (d.setAttr c i a t).maxBytes = d.maxBytes := ⟨rfl, rfl⟩

/-! ### what the slice access can do -/

theorem tagAccess_read_cases (tag : Tag) (B index n off : Nat) (w : List Val) :
    tagAccess tag B true index n off w = .refused ∨
    ∃ st vals, tagAccess tag B true index n off w = .read st vals ∧ (st = 0 ∨ st = 6)
      ∧ ∃ beg k, vals = (tag.vals.drop beg).take k ∧ beg = index + off / tag.ty.size := by
  unfold tagAccess
  split
  · left; rfl
  · rename_i x hx
    have hx' := replyElements_offremains _ _ _ _ _ _ _ _ x hx
    split
    · left; rfl
    · simp only [↓reduceIte]
      split
      · left; rfl
      · right
        refine ⟨_, _, rfl, ?_, x.beg, x.end - x.beg, rfl, hx'.2.1⟩
        split <;> simp

theorem tagAccess_write_cases (tag : Tag) (B index n off : Nat) (w : List Val) :
    tagAccess tag B false index n off w = .refused ∨
    ∃ t', tagAccess tag B false index n off w = .wrote t' ∧ t'.ty = tag.ty ∧ t'.scalar = tag.scalar := by
  unfold tagAccess
  split
  · left; rfl
  · split
    · left; rfl
    · rename_i x _ _
      right
      exact ⟨{ tag with vals := if tag.scalar then w.take 1 else spliceAt tag.vals x.beg w },
        by simp, rfl, rfl⟩

/-! ### range errors are refused (one direction: what the property lists) -/

theorem tagAccess_range_refused (tag : Tag) (B : Nat) (isRead : Bool) (index n off : Nat) (w : List Val)
    (h : tag.len ≤ index ∨ tag.len < n ∨ tag.len < index + n ∨ n = 0) :
    tagAccess tag B isRead index n off w = .refused := by
  unfold tagAccess
  split
  · rfl
  · rename_i x hx
    have hx' := replyElements_offremains _ _ _ _ _ _ _ _ x hx
    generalize off / tag.ty.size = q at hx'
    exfalso; omega

end Cpppo.Logix

namespace Cpppo.Logix

/-! ### well-formed storage (what `Attribute.produce` needs) -/

/-- every stored element is canonical for the tag's type; a scalar holds exactly one element -/
def Tag.WF (t : Tag) : Prop :=
  (∀ v ∈ t.vals, Val.conv t.ty v = some v) ∧ (t.scalar = true → t.vals.length = 1)

/-- every attribute that can be looked up is well-formed -/
def Dev.WF (d : Dev) : Prop := ∀ c i a t, d.attr? c i a = some t → t.WF

theorem mem_spliceAt {l new : List Val} {beg : Nat} {v : Val} (h : v ∈ spliceAt l beg new) :
    v ∈ l ∨ v ∈ new := by
  unfold spliceAt at h
  simp only [List.mem_append] at h
  rcases h with (h | h) | h
  · exact Or.inl (List.mem_of_mem_take h)
  · exact Or.inr h
  · exact Or.inl (List.mem_of_mem_drop h)

theorem mapM_conv_canon {t : CipType} {vs ws : List Val} (h : vs.mapM (Val.conv t) = some ws) :
    ∀ v ∈ ws, Val.conv t v = some v := by
  induction vs generalizing ws with
  | nil => simp at h; subst h; simp
  | cons x xs ih =>
    simp only [List.mapM_cons, Option.bind_eq_bind, Option.bind_eq_some_iff] at h
    obtain ⟨y, hy, ys, hys, h⟩ := h
    simp only [Option.pure_def, Option.some.injEq] at h
    subst h
    intro v hv
    simp only [List.mem_cons] at hv
    rcases hv with rfl | hv
    · exact Val.conv_idem t x v hy
    · exact ih hys v hv

theorem convWrite_canon {tag : Tag} {reqTy : Nat} {data : Bytes} {ws : List Val}
    (h : convWrite tag reqTy data = some ws) : ∀ v ∈ ws, Val.conv tag.ty v = some v := by
  unfold convWrite at h
  split at h
  · simp at h
  · split at h
    · simp at h
    · simp only [Option.bind_eq_some_iff] at h
      obtain ⟨vs, _, hvs⟩ := h
      exact mapM_conv_canon hvs

/-- a slice assignment of canonical values keeps the tag well-formed -/
theorem tagAccess_wrote_wf (tag : Tag) (hwf : tag.WF) (B index n off : Nat) (w : List Val)
    (hw : ∀ v ∈ w, Val.conv tag.ty v = some v) (t' : Tag)
    (h : tagAccess tag B false index n off w = .wrote t') :
    t'.WF ∧ t'.ty = tag.ty ∧ t'.scalar = tag.scalar ∧ t'.vals.length = tag.vals.length := by
  unfold tagAccess at h
  split at h
  · simp at h
  · rename_i x hx
    have hx' := replyElements_offremains _ _ _ _ _ _ _ _ x hx
    have hend : x.end = x.beg + w.length ∧ x.beg + w.length ≤ x.endactual := by
      unfold replyElements at hx
      simp only [Bool.false_eq_true, false_or, ↓reduceIte] at hx
      split at hx
      · rename_i hc
        injection hx with hx; subst hx; simp only at *; omega
      · simp at hx
    split at h
    · simp at h
    · simp only [Bool.false_eq_true, ↓reduceIte, Access.wrote.injEq] at h
      subst h
      have hlen : tag.len = tag.vals.length := by
        unfold Tag.len; split
        · rename_i hs; exact (hwf.2 hs).symm
        · rfl
      simp only
      by_cases hs : tag.scalar = true
      · have h1 := hwf.2 hs
        have hlen1 : tag.len = 1 := by unfold Tag.len; simp [hs]
        rw [hlen1] at hx'
        have hwl : 1 ≤ w.length := by omega
        refine ⟨⟨?_, ?_⟩, trivial, trivial, ?_⟩
        · intro v hv; simp only [hs, ↓reduceIte] at hv; exact hw v (List.mem_of_mem_take hv)
        · intro _; simp only [hs, ↓reduceIte, List.length_take]; omega
        · simp only [hs, ↓reduceIte, List.length_take]; omega
      · have hs' : tag.scalar = false := by simpa using hs
        refine ⟨⟨?_, ?_⟩, trivial, trivial, ?_⟩
        · intro v hv
          simp only [hs', Bool.false_eq_true, ↓reduceIte] at hv
          rcases mem_spliceAt hv with h1 | h1
          · exact hwf.1 v h1
          · exact hw v h1
        · intro h; simp [hs'] at h
        · simp only [hs', Bool.false_eq_true, ↓reduceIte]
          exact spliceAt_length _ _ _ (by omega)

theorem resolveTag_some {d : Dev} {self : Nat × Nat} {p : Path} {c i a : Nat} {tag : Tag}
    (hr : resolveTag d self p = some (c, i, a, tag)) : d.attr? c i a = some tag ∧ (c, i) = self := by
  unfold resolveTag at hr
  split at hr
  · simp at hr
  · dsimp only at hr
    split at hr
    · simp at hr
    · rename_i hself
      split at hr
      · simp at hr
      · rename_i h2
        simp only [Option.some.injEq, Prod.mk.injEq] at hr
        obtain ⟨rfl, rfl, rfl, rfl⟩ := hr
        exact ⟨h2, by simpa using hself⟩

/-- a read access never writes, a write access never reads -/
theorem tagAccess_read_ne_wrote (tag : Tag) (B index n off : Nat) (w : List Val) (t' : Tag) :
    tagAccess tag B true index n off w ≠ .wrote t' := by
  intro h
  rcases tagAccess_read_cases tag B index n off w with h' | ⟨_, _, h', _⟩ <;> rw [h] at h' <;> simp at h'

theorem tagAccess_write_ne_read (tag : Tag) (B index n off : Nat) (w : List Val) (st : Nat) (vs : List Val) :
    tagAccess tag B false index n off w ≠ .read st vs := by
  intro h
  rcases tagAccess_write_cases tag B index n off w with h' | ⟨_, h', _⟩ <;> rw [h] at h' <;> simp at h'

end Cpppo.Logix

namespace Cpppo.Logix

/-! ### Set Attribute Single keeps the device well-formed -/

theorem chunks_length (k : Nat) (hk : 0 < k) (fuel : Nat) (bs : Bytes) (cs : List Bytes)
    (h : chunks k fuel bs = some cs) : bs.length = k * cs.length := by
  induction fuel generalizing bs cs with
  | zero =>
    simp only [chunks] at h
    split at h
    · rename_i he; simp only [Option.some.injEq] at h; subst h; simp [List.isEmpty_iff.mp he]
    · simp at h
  | succ f ih =>
    simp only [chunks] at h
    split at h
    · rename_i he; simp only [Option.some.injEq] at h; subst h; simp [List.isEmpty_iff.mp he]
    · split at h
      · simp at h
      · rename_i hlen
        simp only [Option.map_eq_some_iff] at h
        obtain ⟨rest, hrest, rfl⟩ := h
        have := ih _ _ hrest
        simp only [List.length_drop] at this
        simp only [List.length_cons, Nat.mul_add, Nat.mul_one]
        omega

theorem mapM_length {α β : Type} (f : α → Option β) (l : List α) (r : List β) (h : l.mapM f = some r) :
    r.length = l.length := by
  induction l generalizing r with
  | nil => simp at h; subst h; rfl
  | cons x xs ih =>
    simp only [List.mapM_cons, Option.bind_eq_bind, Option.bind_eq_some_iff] at h
    obtain ⟨y, _, ys, hys, h⟩ := h
    simp only [Option.pure_def, Option.some.injEq] at h
    subst h
    simp [ih ys hys]

/-- for the fixed-size types the number of decoded values is `bytes / size` -/
theorem decodeVals_length (t : CipType) (hf : t.fixed = true) (hs : 0 < t.size) (bs : Bytes) (vs : List Val)
    (h : decodeVals t bs = some vs) : bs.length = t.size * vs.length := by
  cases t <;> simp [CipType.fixed, CipType.isString] at hf <;> simp only [decodeVals] at h
  case bool =>
    simp only [Option.some.injEq] at h; subst h
    simp [CipType.size, Generated.tt_BOOL_size]
  all_goals
    simp only [Option.map_eq_some_iff] at h
    obtain ⟨cs, hcs, rfl⟩ := h
    have := chunks_length _ (by first | exact hs | decide) _ _ _ hcs
    simpa [CipType.size, Generated.tt_REAL_size, Generated.tt_LREAL_size] using this

/-! ### inversion of the slice access -/

theorem tagAccess_read_inv (tag : Tag) (B index n off : Nat) (w : List Val) (st : Nat) (vals : List Val)
    (h : tagAccess tag B true index n off w = .read st vals) :
    ∃ beg k, beg = index + off / tag.ty.size ∧ 1 ≤ k ∧ beg + k ≤ index + n ∧ index + n ≤ tag.len
      ∧ vals = (tag.vals.drop beg).take k ∧ (st = 0 ∨ st = 6) ∧ (st = 0 ↔ beg + k = index + n) := by
  unfold tagAccess at h
  split at h
  · simp at h
  · rename_i x hx
    have hx' := replyElements_offremains _ _ _ _ _ _ _ _ x hx
    split at h
    · simp at h
    · simp only [↓reduceIte] at h
      split at h
      · simp at h
      · simp only [Access.read.injEq] at h
        obtain ⟨rfl, rfl⟩ := h
        refine ⟨x.beg, x.end - x.beg, hx'.2.1, by omega, by omega, by omega, rfl, ?_, ?_⟩
        · split <;> simp
        · split
          · rename_i he; simp; omega
          · rename_i he; simp; omega

theorem tagAccess_wrote_inv (tag : Tag) (B index n off : Nat) (w : List Val) (t' : Tag)
    (h : tagAccess tag B false index n off w = .wrote t') :
    ∃ beg, beg = index + off / tag.ty.size ∧ 1 ≤ w.length ∧ beg + w.length ≤ index + n ∧ index + n ≤ tag.len
      ∧ t' = { tag with vals := if tag.scalar then w.take 1 else spliceAt tag.vals beg w } := by
  unfold tagAccess at h
  split at h
  · simp at h
  · rename_i x hx
    have hx' := replyElements_offremains _ _ _ _ _ _ _ _ x hx
    have hend : x.end = x.beg + w.length := by
      unfold replyElements at hx
      simp only [Bool.false_eq_true, false_or, ↓reduceIte] at hx
      split at hx
      · injection hx with hx; subst hx; simp only at *; omega
      · simp at hx
    split at h
    · simp at h
    · simp only [Bool.false_eq_true, ↓reduceIte, Access.wrote.injEq] at h
      exact ⟨x.beg, hx'.2.1, by omega, by omega, by omega, h.symm⟩

end Cpppo.Logix
