import Cpppo.Model.Forwards

/-! helper lemmas for the Forward Open table (`Props/C09.lean`, section "Connected sessions") -/
namespace Cpppo.Forwards

theorem lookup_append (t u : Table) (k : Key) :
    lookup (t ++ u) k = match lookup t k with | some e => some e | none => lookup u k := by
  induction t with
  | nil => simp [lookup]
  | cons kv r ih =>
    obtain ⟨k', e⟩ := kv
    simp only [List.cons_append, lookup]
    split
    · rfl
    · exact ih

theorem lookup_filter_of_keep (f : Key × Entry → Bool) (t : Table) (k : Key)
    (hk : ∀ e, f (k, e) = true) : lookup (t.filter f) k = lookup t k := by
  induction t with
  | nil => rfl
  | cons kv r ih =>
    obtain ⟨k', e⟩ := kv
    by_cases h : k' = k
    · subst h
      simp [List.filter, hk, lookup]
    · cases hf : f (k', e) <;> simp [List.filter, hf, lookup, h, ih]

theorem lookup_filter_of_drop (f : Key × Entry → Bool) (t : Table) (k : Key)
    (hk : ∀ e, f (k, e) = false) : lookup (t.filter f) k = none := by
  induction t with
  | nil => rfl
  | cons kv r ih =>
    obtain ⟨k', e⟩ := kv
    by_cases h : k' = k
    · subst h
      simp [List.filter, hk, ih]
    · cases hf : f (k', e) <;> simp [List.filter, hf, lookup, h, ih]

theorem lookup_restrict (p : Peer) (t : Table) (c : Nat) :
    lookup (restrict p t) ⟨p, c⟩ = lookup t ⟨p, c⟩ :=
  lookup_filter_of_keep _ t _ (by intro e; simp)

theorem restrict_append (p : Peer) (t u : Table) : restrict p (t ++ u) = restrict p t ++ restrict p u := by
  simp [restrict]

theorem restrict_filter_comm (p : Peer) (f : Key × Entry → Bool) (t : Table) :
    restrict p (t.filter f) = (restrict p t).filter f := by
  simp only [restrict, List.filter_filter]
  congr 1
  funext kv
  exact Bool.and_comm _ _

/-- a filter that keeps every entry of `p` does not change `p`'s part of the table -/
theorem restrict_filter_of_keep (p : Peer) (f : Key × Entry → Bool) (t : Table)
    (hk : ∀ kv : Key × Entry, kv.1.peer = p → f kv = true) : restrict p (t.filter f) = restrict p t := by
  simp only [restrict, List.filter_filter]
  apply List.filter_congr
  intro kv _
  by_cases h : kv.1.peer = p
  · simp [h, hk kv h]
  · simp [h]

/-- an operation of the session itself acts on its own part of the table exactly as on the whole table -/
theorem step_restrict_own (p : Peer) (t : Table) (op : Op) (h : op.peer = p) :
    step (restrict p t) op = (restrict p (step t op).1, (step t op).2) := by
  cases op with
  | fopen q cid serial tgt =>
    simp only [Op.peer] at h
    subst h
    simp only [step, lookup_restrict]
    cases lookup t ⟨q, cid⟩ with
    | some e => rfl
    | none => simp [restrict]
  | fclose q serial =>
    simp only [step, restrict_filter_comm]
  | fin q =>
    simp only [step, restrict_filter_comm]
  | send q cid pl =>
    simp only [Op.peer] at h
    subst h
    simp only [step, lookup_restrict]

/-- an operation of another session leaves this session's part of the table alone -/
theorem step_restrict_other (p : Peer) (t : Table) (op : Op) (h : op.peer ≠ p) :
    restrict p (step t op).1 = restrict p t := by
  cases op with
  | fopen q cid serial tgt =>
    simp only [Op.peer] at h
    simp only [step]
    cases lookup t ⟨q, cid⟩ with
    | some e => rfl
    | none =>
      simp only [restrict_append]
      have : restrict p [((⟨q, cid⟩ : Key), (⟨serial, tgt⟩ : Entry))] = [] := by
        simp [restrict, h]
      rw [this, List.append_nil]
  | fclose q serial =>
    simp only [Op.peer] at h
    simp only [step]
    apply restrict_filter_of_keep
    intro kv hkv
    have : kv.1.peer ≠ q := by rw [hkv]; exact fun e => h e.symm
    simp [this]
  | fin q =>
    simp only [Op.peer] at h
    simp only [step]
    apply restrict_filter_of_keep
    intro kv hkv
    have : kv.1.peer ≠ q := by rw [hkv]; exact fun e => h e.symm
    simp [this]
  | send q cid pl => rfl

theorem outsOf_restrict (p : Peer) (ops : List Op) (t : Table) :
    outsOf p t ops = (run (restrict p t) (ops.filter (fun op => decide (op.peer = p)))).2 := by
  induction ops generalizing t with
  | nil => rfl
  | cons op ops ih =>
    by_cases h : op.peer = p
    · simp only [outsOf, h, if_true, List.filter, decide_true, run, step_restrict_own p t op h]
      rw [ih]
    · simp only [outsOf, h, if_false, List.filter, decide_false]
      rw [ih, step_restrict_other p t op h]

theorem stepWire_restrict_own (p : Peer) (t : Table) (op : Op) (h : op.peer = p) :
    stepWire (restrict p t) op = (restrict p (stepWire t op).1, (stepWire t op).2) := by
  unfold stepWire
  rw [step_restrict_own p t op h]
  by_cases hf : (step t op).2 = .failed
  · simp only [hf, if_true]
    rw [step_restrict_own p (step t op).1 (.fin op.peer) h]
  · simp only [hf, if_false]

theorem stepWire_restrict_other (p : Peer) (t : Table) (op : Op) (h : op.peer ≠ p) :
    restrict p (stepWire t op).1 = restrict p t := by
  unfold stepWire
  by_cases hf : (step t op).2 = .failed
  · simp only [hf, if_true]
    rw [step_restrict_other p (step t op).1 (.fin op.peer) h,
      step_restrict_other p t op h]
  · simp only [hf, if_false]
    exact step_restrict_other p t op h

theorem outsOfWire_restrict (p : Peer) (ops : List Op) (t : Table) :
    outsOfWire p t ops = (runWire (restrict p t) (ops.filter (fun op => decide (op.peer = p)))).2 := by
  induction ops generalizing t with
  | nil => rfl
  | cons op ops ih =>
    by_cases h : op.peer = p
    · simp only [outsOfWire, h, if_true, List.filter, decide_true, runWire, stepWire_restrict_own p t op h]
      rw [ih]
    · simp only [outsOfWire, h, if_false, List.filter, decide_false]
      rw [ih, stepWire_restrict_other p t op h]

/-- a whole request (a list of operations) of the session itself commutes with restriction -/
theorem run_restrict_own (p : Peer) (w : List Op) (t : Table) (h : ∀ op ∈ w, op.peer = p) :
    run (restrict p t) w = (restrict p (run t w).1, (run t w).2) := by
  induction w generalizing t with
  | nil => rfl
  | cons op ops ih =>
    have h1 := h op List.mem_cons_self
    have h2 : ∀ o ∈ ops, o.peer = p := fun o ho => h o (List.mem_cons_of_mem _ ho)
    simp only [run, step_restrict_own p t op h1, ih _ h2]

/-- a whole request of another session leaves this session's part of the table alone -/
theorem run_restrict_other (p : Peer) (w : List Op) (t : Table) (h : ∀ op ∈ w, op.peer ≠ p) :
    restrict p (run t w).1 = restrict p t := by
  induction w generalizing t with
  | nil => rfl
  | cons op ops ih =>
    have h1 := h op List.mem_cons_self
    have h2 : ∀ o ∈ ops, o.peer ≠ p := fun o ho => h o (List.mem_cons_of_mem _ ho)
    simp only [run]
    rw [ih _ h2, step_restrict_other p t op h1]

/-- keys stay unique (the list really is a dict) -/
def KeysNodup (t : Table) : Prop := (t.map (·.1)).Nodup

theorem lookup_none_not_mem (t : Table) (k : Key) (h : lookup t k = none) : k ∉ t.map (·.1) := by
  induction t with
  | nil => simp
  | cons kv r ih =>
    obtain ⟨k', e⟩ := kv
    simp only [lookup] at h
    split at h
    · cases h
    · rename_i hne
      simp only [List.map_cons, List.mem_cons, not_or]
      exact ⟨fun e => hne e.symm, ih h⟩

theorem keysNodup_filter (f : Key × Entry → Bool) (t : Table) (h : KeysNodup t) : KeysNodup (t.filter f) := by
  unfold KeysNodup at *
  exact List.Nodup.sublist (List.Sublist.map _ List.filter_sublist) h

theorem step_keysNodup (t : Table) (op : Op) (h : KeysNodup t) : KeysNodup (step t op).1 := by
  cases op with
  | fopen q cid serial tgt =>
    simp only [step]
    cases hl : lookup t ⟨q, cid⟩ with
    | some e => exact h
    | none =>
      unfold KeysNodup at *
      simp only [List.map_append, List.map_cons, List.map_nil]
      rw [List.nodup_append]
      refine ⟨h, by simp, ?_⟩
      intro a ha b hb
      simp only [List.mem_singleton] at hb
      subst hb
      intro e
      subst e
      exact lookup_none_not_mem t _ hl ha
  | fclose q serial => exact keysNodup_filter _ t h
  | fin q => exact keysNodup_filter _ t h
  | send q cid pl => exact h

theorem run_keysNodup (ops : List Op) (t : Table) (h : KeysNodup t) : KeysNodup (run t ops).1 := by
  induction ops generalizing t with
  | nil => exact h
  | cons op ops ih => exact ih _ (step_keysNodup t op h)

end Cpppo.Forwards
