import Cpppo.Model.PyText
/-! Lemmas about the Python text primitives: digit rendering round-trips through `int()`,
splitting at characters that do not occur, stripping text without blanks. -/
namespace Cpppo.Py

/-! ### characters -/

def isAlnum (c : Char) : Bool :=
  ('0' ≤ c && c ≤ '9') || ('a' ≤ c && c ≤ 'z') || ('A' ≤ c && c ≤ 'Z')

/-- the characters the grammar gives a meaning to, blanks and the sign characters -/
def isSpecial (c : Char) : Bool :=
  c == '.' || c == '[' || c == ']' || c == '-' || c == '*' || c == '/' || c == '@' || c == '+'
  || c == '=' || c == ',' || c == '(' || c == ')' || c == '{' || c == '_' || c == '"' || isSpace c

theorem alnum_not_special (c : Char) (h : isAlnum c = true) : isSpecial c = false := by
  cases hs : isSpecial c with
  | false => rfl
  | true =>
    exfalso
    simp only [isSpecial, isSpace, Bool.or_eq_true, beq_iff_eq] at hs
    rcases hs with (((((((((((((((h1 | h1) | h1) | h1) | h1) | h1) | h1) | h1) | h1) | h1) | h1) | h1) | h1)
      | h1) | h1) | h1)
    all_goals first
      | (subst h1; revert h; decide)
      | (rcases h1 with (((((((((h2 | h2) | h2) | h2) | h2) | h2) | h2) | h2) | h2) | h2)
         all_goals (subst h2; revert h; decide))

theorem digitChar_facts : ∀ d, d < 36 →
    digitVal (digitChar true d) = some d ∧ isAlnum (digitChar true d) = true := by
  decide

theorem digitChar_isDigit10 : ∀ d, d < 10 → ('0' ≤ digitChar true d ∧ digitChar true d ≤ '9') := by
  decide

/-! ### digits -/

def ofDigitsFrom (b : Nat) (acc : Nat) (ds : List Nat) : Nat := ds.foldl (fun a d => a * b + d) acc

def ofDigits (b : Nat) (ds : List Nat) : Nat := ofDigitsFrom b 0 ds

theorem toDigitsAux_value (b : Nat) (hb : 2 ≤ b) : ∀ (fuel n : Nat) (acc : List Nat), n < fuel →
    ofDigits b (toDigitsAux b fuel n acc) = ofDigitsFrom b n acc := by
  intro fuel
  induction fuel with
  | zero => intro n acc h; exact absurd h (Nat.not_lt_zero _)
  | succ fuel ih =>
    intro n acc h
    rw [toDigitsAux]
    split
    · simp [ofDigits, ofDigitsFrom]
    · rename_i hnb
      have hlt : n / b < fuel := by
        have : n / b < n := Nat.div_lt_self (by omega) (by omega)
        omega
      rw [ih (n / b) (n % b :: acc) hlt]
      simp only [ofDigitsFrom, List.foldl_cons]
      rw [Nat.div_add_mod' n b]

theorem toDigits_value (b : Nat) (hb : 2 ≤ b) (n : Nat) : ofDigits b (toDigits b n) = n := by
  unfold toDigits
  rw [toDigitsAux_value b hb (n + 1) n [] (by omega)]
  rfl

theorem toDigitsAux_lt (b : Nat) (hb : 2 ≤ b) : ∀ (fuel n : Nat) (acc : List Nat), n < fuel →
    (∀ d ∈ acc, d < b) → ∀ d ∈ toDigitsAux b fuel n acc, d < b := by
  intro fuel
  induction fuel with
  | zero => intro n acc h; exact absurd h (Nat.not_lt_zero _)
  | succ fuel ih =>
    intro n acc h hacc
    rw [toDigitsAux]
    split
    · rename_i hnb
      intro d hd
      simp only [List.mem_cons] at hd
      rcases hd with rfl | hd
      · exact hnb
      · exact hacc d hd
    · have hlt : n / b < fuel := by
        have : n / b < n := Nat.div_lt_self (by omega) (by omega)
        omega
      apply ih (n / b) (n % b :: acc) hlt
      intro d hd
      simp only [List.mem_cons] at hd
      rcases hd with rfl | hd
      · exact Nat.mod_lt _ (by omega)
      · exact hacc d hd

theorem toDigits_lt (b : Nat) (hb : 2 ≤ b) (n : Nat) : ∀ d ∈ toDigits b n, d < b :=
  toDigitsAux_lt b hb (n + 1) n [] (by omega) (by simp)

theorem toDigitsAux_ne_nil (b : Nat) : ∀ (fuel n : Nat) (acc : List Nat),
    (0 < fuel ∨ acc ≠ []) → toDigitsAux b fuel n acc ≠ [] := by
  intro fuel
  induction fuel with
  | zero => intro n acc h; rcases h with h | h; exact absurd h (Nat.lt_irrefl 0); simpa [toDigitsAux]
  | succ fuel ih =>
    intro n acc _
    rw [toDigitsAux]
    split
    · simp
    · exact ih _ _ (Or.inr (by simp))

theorem toDigits_ne_nil (b n : Nat) : toDigits b n ≠ [] :=
  toDigitsAux_ne_nil b (n + 1) n [] (Or.inl (by omega))

theorem toDigitsAux_length (b : Nat) (hb : 2 ≤ b) : ∀ (fuel n k : Nat) (acc : List Nat), n < fuel →
    1 ≤ k → n < b ^ k → (toDigitsAux b fuel n acc).length ≤ k + acc.length := by
  intro fuel
  induction fuel with
  | zero => intro n k acc h; exact absurd h (Nat.not_lt_zero _)
  | succ fuel ih =>
    intro n k acc h hk hn
    rw [toDigitsAux]
    split
    · simp; omega
    · rename_i hnb
      have hlt : n / b < fuel := by
        have : n / b < n := Nat.div_lt_self (by omega) (by omega)
        omega
      have hk2 : 2 ≤ k := by
        rcases Nat.lt_or_ge k 2 with h1 | h1
        · have : k = 1 := by omega
          subst this
          simp at hn
          omega
        · exact h1
      have hdiv : n / b < b ^ (k - 1) := by
        apply Nat.div_lt_of_lt_mul
        have : b ^ k = b * b ^ (k - 1) := by
          conv => lhs; rw [show k = (k - 1) + 1 by omega]
          rw [Nat.pow_succ, Nat.mul_comm]
        omega
      have := ih (n / b) (k - 1) (n % b :: acc) hlt (by omega) hdiv
      simp only [List.length_cons] at this
      omega

theorem toDigits_length (b : Nat) (hb : 2 ≤ b) (n k : Nat) (hk : 1 ≤ k) (hn : n < b ^ k) :
    (toDigits b n).length ≤ k := by
  have := toDigitsAux_length b hb (n + 1) n k [] (by omega) hk hn
  simpa [toDigits] using this

/-! ### `int()` of rendered digits -/

theorem digitsGo_map (base : Nat) (hb : base ≤ 36) : ∀ (ds : List Nat) (acc : Nat) (last : Bool),
    (∀ d ∈ ds, d < base) → (ds ≠ [] ∨ last = true) →
    digitsGo base (ds.map (digitChar true)) acc last = some (ofDigitsFrom base acc ds) := by
  intro ds
  induction ds with
  | nil =>
    intro acc last _ h
    rcases h with h | h
    · exact absurd rfl h
    · simp [digitsGo, h, ofDigitsFrom]
  | cons d ds ih =>
    intro acc last hlt _
    have hd : d < base := hlt d (by simp)
    have hf := digitChar_facts d (by omega)
    have hne : (digitChar true d == '_') = false := by
      have := alnum_not_special _ hf.2
      simp only [isSpecial, Bool.or_eq_false_iff] at this
      exact this.1.1.2
    simp only [List.map_cons, digitsGo, hne, hf.1, hd, if_true, Bool.false_eq_true, if_false]
    rw [ih (acc * base + d) true (fun x hx => hlt x (by simp [hx])) (Or.inr rfl)]
    simp [ofDigitsFrom]

theorem pyDigits_render (base : Nat) (hb2 : 2 ≤ base) (hb : base ≤ 36) (n : Nat) :
    pyDigits base ((toDigits base n).map (digitChar true)) = some n := by
  unfold pyDigits
  rw [digitsGo_map base hb _ 0 false (toDigits_lt base hb2 n) (Or.inl (toDigits_ne_nil base n))]
  exact congrArg some (toDigits_value base hb2 n)

/-- the characters of a rendered number are letters or digits -/
theorem render_alnum (base : Nat) (hb2 : 2 ≤ base) (hb : base ≤ 36) (n : Nat) :
    ∀ c ∈ (toDigits base n).map (digitChar true), isAlnum c = true := by
  intro c hc
  simp only [List.mem_map] at hc
  obtain ⟨d, hd, rfl⟩ := hc
  exact (digitChar_facts d (by have := toDigits_lt base hb2 n d hd; omega)).2

theorem decimal_alnum (n : Nat) : ∀ c ∈ decimal n, isAlnum c = true :=
  render_alnum 10 (by omega) (by omega) n

theorem decimal_ne_nil (n : Nat) : decimal n ≠ [] := by
  unfold decimal
  intro h
  exact toDigits_ne_nil 10 n (List.map_eq_nil_iff.mp h)

/-! ### strip / split on text without the character -/

theorem not_mem_of_plain (s : Str) (h : ∀ c ∈ s, isSpecial c = false) (d : Char)
    (hd : isSpecial d = true) : d ∉ s := by
  intro hm
  have := h d hm
  rw [hd] at this
  cases this

theorem lstrip_plain (s : Str) (h : ∀ c ∈ s, isSpace c = false) : lstrip s = s := by
  unfold lstrip
  cases s with
  | nil => rfl
  | cons c cs => simp [List.dropWhile, h c (by simp)]

theorem rstrip_plain (s : Str) (h : ∀ c ∈ s, isSpace c = false) : rstrip s = s := by
  induction s with
  | nil => rfl
  | cons c cs ih =>
    have ihc := ih (fun x hx => h x (by simp [hx]))
    rw [rstrip, ihc]
    cases cs with
    | nil => simp [h c (by simp)]
    | cons _ _ => rfl

theorem strip_plain (s : Str) (h : ∀ c ∈ s, isSpace c = false) : strip s = s := by
  unfold strip
  rw [lstrip_plain s h, rstrip_plain s h]

theorem special_of_space (c : Char) (h : isSpace c = true) : isSpecial c = true := by
  simp [isSpecial, h]

theorem plain_not_space (s : Str) (h : ∀ c ∈ s, isSpecial c = false) : ∀ c ∈ s, isSpace c = false := by
  intro c hc
  cases hsp : isSpace c with
  | false => rfl
  | true => have := h c hc; rw [special_of_space c hsp] at this; cases this

theorem splitFirst_none (d : Char) (s : Str) (h : d ∉ s) : splitFirst d s = none := by
  induction s with
  | nil => rfl
  | cons c cs ih =>
    have hc : (c == d) = false := by
      cases hcd : c == d with
      | false => rfl
      | true => exact absurd (by simp [beq_iff_eq.mp hcd]) h
    simp [splitFirst, hc, ih (fun hm => h (by simp [hm]))]

theorem splitFirst_append (d : Char) (a b : Str) (h : d ∉ a) :
    splitFirst d (a ++ d :: b) = some (a, b) := by
  induction a with
  | nil => simp [splitFirst]
  | cons c cs ih =>
    have hc : (c == d) = false := by
      cases hcd : c == d with
      | false => rfl
      | true => exact absurd (by simp [beq_iff_eq.mp hcd]) h
    simp [splitFirst, hc, ih (fun hm => h (by simp [hm]))]

theorem splitAll_none (d : Char) (s : Str) (h : d ∉ s) : splitAll d s = [s] := by
  induction s with
  | nil => rfl
  | cons c cs ih =>
    have hc : (c == d) = false := by
      cases hcd : c == d with
      | false => rfl
      | true => exact absurd (by simp [beq_iff_eq.mp hcd]) h
    simp [splitAll, hc, ih (fun hm => h (by simp [hm]))]

theorem splitAll_append (d : Char) (a b : Str) (h : d ∉ a) :
    splitAll d (a ++ d :: b) = a :: splitAll d b := by
  induction a with
  | nil => simp [splitAll]
  | cons c cs ih =>
    have hc : (c == d) = false := by
      cases hcd : c == d with
      | false => rfl
      | true => exact absurd (by simp [beq_iff_eq.mp hcd]) h
    simp [splitAll, hc, ih (fun hm => h (by simp [hm]))]

/-! ### `int()` of `"%d" % n` and `"0x%04X" % n` -/

theorem splitSign_alnum (s : Str) (c : Char) (hc : isAlnum c = true) :
    splitSign (c :: s) = (false, c :: s) := by
  have h := alnum_not_special c hc
  simp only [isSpecial, Bool.or_eq_false_iff, beq_eq_false_iff_ne] at h
  have h1 : c ≠ '-' := h.1.1.1.1.1.1.1.1.1.1.1.1.2
  have h2 : c ≠ '+' := h.1.1.1.1.1.1.1.1.2
  unfold splitSign
  split
  · rename_i heq; injection heq with h3 _; exact absurd h3.symm (by simpa using h1.symm)
  · rename_i heq; injection heq with h3 _; exact absurd h3.symm (by simpa using h2.symm)
  · rfl

theorem pyInt10_decimal (n : Nat) : pyInt10 (decimal n) = some (n : Int) := by
  have hal := decimal_alnum n
  have hpl : ∀ c ∈ decimal n, isSpace c = false :=
    plain_not_space _ (fun c hc => alnum_not_special c (hal c hc))
  unfold pyInt10
  rw [strip_plain _ hpl]
  cases hdec : decimal n with
  | nil => exact absurd hdec (decimal_ne_nil n)
  | cons c cs =>
    rw [splitSign_alnum cs c (hal c (by simp [hdec]))]
    simp only
    rw [← hdec]
    unfold decimal
    rw [pyDigits_render 10 (by omega) (by omega) n]
    rfl

theorem parseInt_decimal (n : Nat) : parseInt (decimal n) = some (n : Int) := by
  unfold parseInt
  rw [pyInt10_decimal]

/-- `"0x%04X" % n` for `n ≥ 0`: the digits, zero-padded -/
def hexDigitsPadded (n : Nat) : List Nat :=
  List.replicate (4 - (toDigits 16 n).length) 0 ++ toDigits 16 n

theorem hex04_nat (n : Nat) :
    hex04 (n : Int) = '0' :: 'x' :: (hexDigitsPadded n).map (digitChar true) := by
  have h0 : ¬ ((n : Int) < 0) := by omega
  simp only [hex04, h0, if_false, Int.natAbs_natCast, zeroPad, hexUpper, hexDigitsPadded,
    List.length_map, List.map_append, List.map_replicate]
  rfl

theorem hexDigitsPadded_lt (n : Nat) : ∀ d ∈ hexDigitsPadded n, d < 16 := by
  intro d hd
  simp only [hexDigitsPadded, List.mem_append, List.mem_replicate] at hd
  rcases hd with ⟨_, rfl⟩ | hd
  · omega
  · exact toDigits_lt 16 (by omega) n d hd

theorem hexDigitsPadded_value (n : Nat) : ofDigitsFrom 16 0 (hexDigitsPadded n) = n := by
  have hz : ∀ k, ofDigitsFrom 16 0 (List.replicate k 0 ++ toDigits 16 n) = n := by
    intro k
    induction k with
    | zero => simpa [ofDigits] using toDigits_value 16 (by omega) n
    | succ k ih => simpa [List.replicate_succ, ofDigitsFrom] using ih
  exact hz _

theorem hexDigitsPadded_ne_nil (n : Nat) : hexDigitsPadded n ≠ [] := by
  simp [hexDigitsPadded, toDigits_ne_nil]

theorem hex04_alnum (n : Nat) : ∀ c ∈ hex04 (n : Int), isAlnum c = true := by
  rw [hex04_nat]
  intro c hc
  simp only [List.mem_cons, List.mem_map] at hc
  rcases hc with rfl | rfl | ⟨d, hd, rfl⟩
  · decide
  · decide
  · exact (digitChar_facts d (by have := hexDigitsPadded_lt n d hd; omega)).2

theorem parseInt_hex04 (n : Nat) : parseInt (hex04 (n : Int)) = some (n : Int) := by
  have hal := hex04_alnum n
  have hpl : ∀ c ∈ hex04 (n : Int), isSpace c = false :=
    plain_not_space _ (fun c hc => alnum_not_special c (hal c hc))
  have hform := hex04_nat n
  have h10 : pyInt10 (hex04 (n : Int)) = none := by
    unfold pyInt10
    rw [strip_plain _ hpl, hform, splitSign_alnum _ '0' (by decide)]
    simp [pyDigits, digitsGo, digitVal]
  have hpre : pyIntPrefixed (hex04 (n : Int)) = some (n : Int) := by
    unfold pyIntPrefixed
    rw [strip_plain _ hpl, hform, splitSign_alnum _ '0' (by decide)]
    simp only [beq_self_eq_true, Bool.true_or, if_true]
    have hdig : pyDigits 16 ((hexDigitsPadded n).map (digitChar true)) = some n := by
      unfold pyDigits
      rw [digitsGo_map 16 (by omega) _ 0 false (hexDigitsPadded_lt n)
        (Or.inl (hexDigitsPadded_ne_nil n)), hexDigitsPadded_value]
    have hap : afterPrefix 16 ((hexDigitsPadded n).map (digitChar true)) = some n := by
      cases hds : hexDigitsPadded n with
      | nil => exact absurd hds (hexDigitsPadded_ne_nil n)
      | cons d ds =>
        rw [hds] at hdig
        have hd : d < 16 := hexDigitsPadded_lt n d (by simp [hds])
        have hne : digitChar true d ≠ '_' := by
          have := alnum_not_special _ (digitChar_facts d (by omega)).2
          simp only [isSpecial, Bool.or_eq_false_iff, beq_eq_false_iff_ne] at this
          exact this.1.1.2
        simp only [List.map_cons] at hdig ⊢
        unfold afterPrefix
        split
        · rename_i heq; injection heq with h1 _; exact absurd h1 hne
        · exact hdig
    rw [hap]
    rfl
  unfold parseInt
  rw [h10, hpre]

end Cpppo.Py
