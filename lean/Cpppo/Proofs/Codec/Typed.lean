import Cpppo.Model.Types
import Cpppo.Proofs.Codec.Prim

/-! Typed data at the element level: `decodeVals` inverts the element encoders (C01, all 13 types). -/
namespace Cpppo
open Cpppo.Codec

theorem chunks_flatten (k : Nat) (hk : 0 < k) (cs : List Bytes) (h : ∀ c ∈ cs, c.length = k) (fuel : Nat)
    (hf : cs.flatten.length ≤ fuel) : chunks k fuel cs.flatten = some cs := by
  induction cs generalizing fuel with
  | nil => cases fuel <;> simp [chunks]
  | cons c rest ih =>
    have hc : c.length = k := h c (by simp)
    simp only [List.flatten_cons, List.length_append] at hf ⊢
    cases fuel with
    | zero => omega
    | succ f =>
      simp only [chunks]
      have hne : (c ++ rest.flatten).isEmpty = false := by
        cases c with
        | nil => simp at hc; omega
        | cons x xs => simp
      simp only [hne, Bool.false_eq_true, ↓reduceIte]
      rw [if_neg (by simp only [List.length_append]; omega)]
      have h1 : (c ++ rest.flatten).take k = c := by rw [← hc, List.take_left]
      have h2 : (c ++ rest.flatten).drop k = rest.flatten := by rw [← hc, List.drop_left]
      rw [h1, h2, ih (fun x hx => h x (by simp [hx])) f (by omega)]
      rfl

theorem pow_split (k : Nat) (hk : 1 ≤ k) : 2 ^ (8 * k) = 2 * 2 ^ (8 * k - 1) := by
  have h : 8 * k = (8 * k - 1) + 1 := by omega
  calc 2 ^ (8 * k) = 2 ^ ((8 * k - 1) + 1) := by rw [← h]
    _ = 2 ^ (8 * k - 1) * 2 := Nat.pow_succ _ _
    _ = 2 * 2 ^ (8 * k - 1) := Nat.mul_comm _ _

theorem pow256 (k : Nat) : 256 ^ k = 2 ^ (8 * k) := by
  rw [Nat.pow_mul]

/-- two's complement core arithmetic, with the powers abstracted -/
theorem signed_core (P Q : Nat) (hQ : Q = 2 * P) (i : Int) (h1 : -(P : Int) ≤ i) (h2 : i < (P : Int)) :
    (if 0 ≤ i then i.toNat else (i + (Q : Int)).toNat) < Q
    ∧ (if (if 0 ≤ i then i.toNat else (i + (Q : Int)).toNat) < P
        then ((if 0 ≤ i then i.toNat else (i + (Q : Int)).toNat : Nat) : Int)
        else ((if 0 ≤ i then i.toNat else (i + (Q : Int)).toNat : Nat) : Int) - (Q : Int)) = i := by
  by_cases hi : 0 ≤ i
  · simp only [hi, ↓reduceIte]
    refine ⟨by omega, ?_⟩
    rw [if_pos (by omega)]; omega
  · simp only [hi, ↓reduceIte]
    refine ⟨by omega, ?_⟩
    rw [if_neg (by omega)]; omega

/-- `struct.unpack` inverts `struct.pack` for every integer format -/
theorem unpack_pack (signed : Bool) (k : Nat) (hk : 1 ≤ k) (i : Int) (bs : Bytes)
    (h : Bytes.packInt signed k i = some bs) : Bytes.unpackInt signed k bs = i ∧ bs.length = k := by
  unfold Bytes.packInt at h
  have hp := pow_split k hk
  have h256 := pow256 k
  cases signed
  · simp only [Bool.false_eq_true, ↓reduceIte] at h
    split at h
    · rename_i hr
      simp only [Option.some.injEq] at h; subst h
      refine ⟨?_, le_length _ _⟩
      simp only [Bytes.unpackInt, Bool.false_eq_true, ↓reduceIte]
      have hlt : i.toNat < 256 ^ k := by rw [h256]; omega
      rw [leNat_le k _ hlt]; omega
    · simp at h
  · simp only [↓reduceIte] at h
    split at h
    · rename_i hr
      simp only [Option.some.injEq] at h; subst h
      refine ⟨?_, le_length _ _⟩
      have hc := signed_core (2 ^ (8 * k - 1)) (2 ^ (8 * k)) hp i hr.1 hr.2
      have hl := leNat_le k (Bytes.ofSigned k i) (by rw [h256]; simpa [Bytes.ofSigned] using hc.1)
      simp only [Bytes.unpackInt, ↓reduceIte, Bytes.toSigned, hl]
      simpa [Bytes.ofSigned] using hc.2
    · simp at h

/-- integer types: the decoded elements are the encoded integers -/
theorem decodeVals_int (t : CipType) (hi : t.isInt = true) (is : List Int) (bss : List Bytes)
    (h : is.mapM (Bytes.packInt t.signed t.size) = some bss) :
    decodeVals t bss.flatten = some (is.map .int) := by
  have hk : 1 ≤ t.size := by cases t <;> simp [CipType.isInt] at hi <;> decide
  have hall : ∀ (is : List Int) (bss : List Bytes), is.mapM (Bytes.packInt t.signed t.size) = some bss →
      (∀ c ∈ bss, c.length = t.size) ∧ bss.map (Bytes.unpackInt t.signed t.size) = is := by
    intro is
    induction is with
    | nil => intro bss h; simp at h; subst h; simp
    | cons i rest ih =>
      intro bss h
      simp only [List.mapM_cons, Option.bind_eq_bind, Option.bind_eq_some_iff] at h
      obtain ⟨b, hb, bs, hbs, h⟩ := h
      simp only [Option.pure_def, Option.some.injEq] at h; subst h
      obtain ⟨h1, h2⟩ := unpack_pack _ _ hk i b hb
      obtain ⟨h3, h4⟩ := ih bs hbs
      refine ⟨?_, by simp [h1, h4]⟩
      intro c hc; simp only [List.mem_cons] at hc
      rcases hc with rfl | hc
      · exact h2
      · exact h3 c hc
  obtain ⟨hlen, hun⟩ := hall is bss h
  have hch := chunks_flatten t.size (by omega) bss hlen bss.flatten.length (Nat.le_refl _)
  cases t <;> simp [CipType.isInt] at hi <;> simp only [decodeVals, hch, Option.map_some] <;>
    (congr 1; rw [← hun]; simp)

/-- BOOL: 0x00 / 0xFF -/
theorem decodeVals_bool (bs : List Bool) :
    decodeVals .bool (bs.map fun b => if b then 255 else 0) = some (bs.map .bool) := by
  simp only [decodeVals, List.map_map, Option.some.injEq]
  apply List.map_congr_left
  intro b _
  cases b <;> simp

/-- REAL / LREAL bit patterns (a binary32 that has passed through a parser is quiet) -/
theorem decodeVals_real (ws : List Nat) (h : ∀ w ∈ ws, w < 2 ^ 32 ∧ Float'.quiet32 w = w) :
    decodeVals .real ((ws.map (Bytes.le 4)).flatten) = some (ws.map .f32) := by
  have hch := chunks_flatten 4 (by decide) (ws.map (Bytes.le 4)) (by simp [le_length]) _ (Nat.le_refl _)
  simp only [decodeVals, hch, Option.map_some, List.map_map, Option.some.injEq]
  apply List.map_congr_left
  intro w hw
  obtain ⟨h1, h2⟩ := h w hw
  simp only [Function.comp_apply, leNat_le 4 w (by simpa using h1), h2]

theorem decodeVals_lreal (ws : List Nat) (h : ∀ w ∈ ws, w < 2 ^ 64) :
    decodeVals .lreal ((ws.map (Bytes.le 8)).flatten) = some (ws.map .f64) := by
  have hch := chunks_flatten 8 (by decide) (ws.map (Bytes.le 8)) (by simp [le_length]) _ (Nat.le_refl _)
  simp only [decodeVals, hch, Option.map_some, List.map_map, Option.some.injEq]
  apply List.map_congr_left
  intro w hw
  simp only [Function.comp_apply, leNat_le 8 w (by simpa using h w hw)]

end Cpppo
