import Cpppo.Model.Codec.Encap
import Cpppo.Proofs.Codec.Service

/-! Round trips of the encapsulation layer: frame, Unconnected Send, CPF items, commands (C01, C02). -/
namespace Cpppo.Codec
open Cpppo

/-! ### frame -/

def Header.WF (h : Header) : Prop :=
  h.command < 65536 ∧ h.session < 4294967296 ∧ h.status < 4294967296 ∧ h.context.length = 8
  ∧ h.options < 4294967296

/-- **the encapsulation frame: 24 bytes of header plus the declared length, nothing of what follows** -/
theorem decodeFrame_encode (f : Frame) (rest : Bytes) (h : f.hdr.WF) (hl : f.payload.length < 65536) :
    decodeFrame (encodeFrame f ++ rest) = some (f, rest) := by
  obtain ⟨h1, h2, h3, h4, h5⟩ := h
  simp only [encodeFrame, decodeFrame, List.append_assoc]
  rw [takeLE_append 2 _ _ (by simpa using h1)]; simp only
  rw [takeLE_append 2 _ _ (by simpa using hl)]; simp only
  rw [takeLE_append 4 _ _ (by simpa using h2)]; simp only
  rw [takeLE_append 4 _ _ (by simpa using h3)]; simp only
  rw [takeN_append' 8 _ _ h4]; simp only
  rw [takeLE_append 4 _ _ (by simpa using h5)]; simp only
  rw [takeN_append]

theorem encodeFrame_length (f : Frame) (h : f.hdr.context.length = 8) :
    (encodeFrame f).length = 24 + f.payload.length := by
  simp only [encodeFrame, List.length_append, le_length, h]

/-! ### big-endian fields -/

theorem be_length (k n : Nat) : (Bytes.be k n).length = k := by simp [Bytes.be, le_length]

theorem takeBE_append (k n : Nat) (rest : Bytes) (h : n < 256 ^ k) :
    takeBE k (Bytes.be k n ++ rest) = some (n, rest) := by
  unfold takeBE
  have hl := be_length k n
  rw [if_neg (by simp [hl])]
  have h1 : (Bytes.be k n ++ rest).take k = Bytes.be k n := by
    rw [List.take_append_of_le_length (by omega)]
    exact List.take_of_length_le (by omega)
  have h2 : (Bytes.be k n ++ rest).drop k = rest := by
    rw [List.drop_append_of_le_length (by omega), List.drop_of_length_le (by omega), List.nil_append]
  rw [h1, h2]
  simp only [Bytes.beNat, Bytes.be, List.reverse_reverse, leNat_le k n h]

/-! ### Unconnected Send -/

def USend.WF : USend → Prop
  | .send path prio ticks req route =>
    EpathWF path ∧ prio < 256 ∧ ticks < 256 ∧ req.length < 65536 ∧ EpathWF route
  | .error st => st.code < 16 ∧ st.code ≠ 0 ∧ st.ext = []
  | .other req => ∃ b rest, req = b :: rest ∧ b ≠ 0x52 ∧
      -- a payload starting with the wrapper's own reply code 0xD2 is passed through unless it could be the wrapper's
      -- error reply: at most 6 bytes, status < 0x10, no extended status (the ambiguity documented in the code)
      (b = 0xD2 → ∀ pad sts ext r, rest = pad :: sts :: ext :: r → ¬ (r.length + 4 ≤ 6 ∧ sts < 0x10 ∧ ext = 0))

theorem decodeUSend_encode (u : USend) (h : u.WF) : decodeUSend (encodeUSend u) = some u := by
  cases u with
  | send path prio ticks req route =>
    obtain ⟨hp, _, _, hl, hr⟩ := h
    simp only [encodeUSend, List.cons_append, List.nil_append, List.append_assoc, decodeUSend]
    rw [decodePlain path _ hp]; simp only
    rw [takeLE_append 2 _ _ (by simpa using hl)]; simp only
    rw [takeN_append]; simp only
    have hpad := dropPad_append (decide (req.length % 2 = 1)) (encodeEpath .padded route)
    simp only [decide_eq_true_eq] at hpad
    rw [hpad]; simp only
    have := decodePadded route [] hr
    simp only [List.append_nil] at this
    rw [this]
  | error st =>
    obtain ⟨h1, h2, h3⟩ := h
    obtain ⟨code, ext⟩ := st
    simp only at h1 h2 h3
    subst h3
    simp only [encodeUSend, encodeStatus, h2, ↓reduceIte, List.length_nil, List.map_nil, List.flatten_nil,
      List.append_nil, List.cons_append, List.nil_append, decodeUSend, List.length_cons]
    rw [if_pos (by refine ⟨by omega, h1, ?_⟩; trivial)]
    simp
  | other req =>
    obtain ⟨b, rest, rfl, h1, h2⟩ := h
    simp only [encodeUSend]
    unfold decodeUSend
    split
    · rename_i heq; simp only [List.cons.injEq] at heq; exact absurd heq.1 h1
    · rename_i pad sts ext r heq
      simp only [List.cons.injEq] at heq
      have := h2 heq.1 pad sts ext r heq.2
      rw [if_neg (by simpa [← heq.1, heq.2] using this)]
      simp
    · simp

theorem encodeUSend_ne_nil (u : USend) (h : u.WF) : encodeUSend u ≠ [] := by
  cases u with
  | send => simp [encodeUSend]
  | error => simp [encodeUSend]
  | other req => obtain ⟨b, rest, rfl, _⟩ := h; simp [encodeUSend]

/-! ### NUL-terminated / NUL-filled strings -/

theorem takeWhile_nz (s tail : Bytes) (hs : ∀ b ∈ s, b ≠ 0) :
    (s ++ 0 :: tail).takeWhile (· ≠ 0) = s ∧ (s ++ 0 :: tail).dropWhile (· ≠ 0) = 0 :: tail := by
  induction s with
  | nil => simp
  | cons b bs ih =>
    have hb : decide (b ≠ 0) = true := by simpa using hs b (by simp)
    have := ih (fun x hx => hs x (by simp [hx]))
    simp only [List.cons_append, List.takeWhile_cons, List.dropWhile_cons, hb, ↓reduceIte, this]
    exact ⟨trivial, trivial⟩

theorem takeWhile_nz_end (s : Bytes) (hs : ∀ b ∈ s, b ≠ 0) :
    s.takeWhile (· ≠ 0) = s ∧ s.dropWhile (· ≠ 0) = [] := by
  induction s with
  | nil => simp
  | cons b bs ih =>
    have hb : decide (b ≠ 0) = true := by simpa using hs b (by simp)
    have := ih (fun x hx => hs x (by simp [hx]))
    simp only [List.takeWhile_cons, List.dropWhile_cons, hb, ↓reduceIte, this]
    exact ⟨trivial, trivial⟩

/-! ### CPF items -/

def Identity.WF (i : Identity) : Prop :=
  i.version < 65536 ∧ i.family < 65536 ∧ i.port < 65536 ∧ i.addr < 4294967296 ∧ i.vendor < 65536
  ∧ i.devType < 65536 ∧ i.product < 65536 ∧ i.revision < 65536 ∧ i.statusWord < 65536
  ∧ i.serial < 4294967296 ∧ i.name.length < 256 ∧ i.state.isSome

def Legacy1.WF (l : Legacy1) : Prop :=
  l.version < 65536 ∧ l.unknown1 < 65536 ∧ l.family < 65536 ∧ l.port < 65536 ∧ l.addr < 4294967296
  ∧ 1 ≤ l.ip.length ∧ l.ip.length ≤ 16 ∧ ∀ b ∈ l.ip, b ≠ 0

theorem decodeIdentity_encode (i : Identity) (h : i.WF) : decodeIdentity (encodeIdentity i) = some i := by
  obtain ⟨h1, h2, h3, h4, h5, h6, h7, h8, h9, h10, _, h12⟩ := h
  obtain ⟨version, family, port, addr, vendor, devType, product, revision, statusWord, serial, name, state, extra⟩ := i
  simp only at h1 h2 h3 h4 h5 h6 h7 h8 h9 h10 h12
  obtain ⟨st, rfl⟩ := Option.isSome_iff_exists.mp h12
  simp only [encodeIdentity, List.append_assoc, decodeIdentity, Option.getD_some]
  rw [takeLE_append 2 version _ (by simpa using h1)]; simp only
  rw [takeBE_append 2 family _ (by simpa using h2)]; simp only
  rw [takeBE_append 2 port _ (by simpa using h3)]; simp only
  rw [takeBE_append 4 addr _ (by simpa using h4)]; simp only
  rw [takeN_append' 8 _ _ (by simp)]; simp only
  rw [takeLE_append 2 vendor _ (by simpa using h5)]; simp only
  rw [takeLE_append 2 devType _ (by simpa using h6)]; simp only
  rw [takeLE_append 2 product _ (by simpa using h7)]; simp only
  rw [takeLE_append 2 revision _ (by simpa using h8)]; simp only
  rw [takeLE_append 2 statusWord _ (by simpa using h9)]; simp only
  rw [takeLE_append 4 serial _ (by simpa using h10)]; simp only
  rw [decodeSString_encode]; simp

theorem decodeLegacy1_encode (l : Legacy1) (h : l.WF) : decodeLegacy1 (encodeLegacy1 l) = some l := by
  obtain ⟨h1, h2, h3, h4, h5, h6, h7, h8⟩ := h
  obtain ⟨version, unknown1, family, port, addr, ip⟩ := l
  simp only at h1 h2 h3 h4 h5 h6 h7 h8
  simp only [encodeLegacy1, List.append_assoc, decodeLegacy1]
  rw [takeLE_append 2 version _ (by simpa using h1)]; simp only
  rw [takeLE_append 2 unknown1 _ (by simpa using h2)]; simp only
  rw [takeBE_append 2 family _ (by simpa using h3)]; simp only
  rw [takeBE_append 2 port _ (by simpa using h4)]; simp only
  rw [takeBE_append 4 addr _ (by simpa using h5)]; simp only
  rw [takeN_append' 8 _ _ (by simp)]; simp only
  have hne : ip.isEmpty = false := by cases ip <;> simp at h6 ⊢
  cases hk : 16 - ip.length with
  | zero =>
    simp only [List.replicate_zero, List.append_nil]
    have := takeWhile_nz_end ip h8
    rw [this.1, this.2]; simp [hne]
  | succ k =>
    simp only [List.replicate_succ]
    have := takeWhile_nz ip (List.replicate k 0) h8
    rw [this.1, this.2]; simp [hne]

def ItemBody.WF (ty : Nat) : ItemBody → Prop
  | .empty => True
  | .usend u => ty = 0x00B2 ∧ u.WF
  | .connId n => ty = 0x00A1 ∧ n < 4294967296
  | .connData seq req => ty = 0x00B1 ∧ seq < 65536 ∧ req ≠ []
  | .commSvc v c name => ty = 0x0100 ∧ v < 65536 ∧ c < 65536 ∧ name ≠ [] ∧ ∀ b ∈ name, b ≠ 0
  | .identity i => ty = 0x000C ∧ i.WF
  | .legacy1 l => ty = 0x0001 ∧ l.WF
  | .raw bs => recognised ty = false ∧ bs ≠ []

theorem decodeItemBody_encode (ty : Nat) (b : ItemBody) (h : b.WF ty) :
    decodeItemBody ty (encodeItemBody b) = some b := by
  cases b with
  | empty => simp [encodeItemBody, decodeItemBody]
  | usend u =>
    obtain ⟨rfl, hu⟩ := h
    have hne := encodeUSend_ne_nil u hu
    simp only [encodeItemBody, decodeItemBody]
    rw [if_neg (by simpa [List.isEmpty_iff] using hne)]
    simp [decodeUSend_encode u hu]
  | connId n =>
    obtain ⟨rfl, hn⟩ := h
    simp only [encodeItemBody, decodeItemBody]
    rw [if_neg (by simp [Bytes.le])]
    simp (config := { decide := true }) only [↓reduceIte]
    rw [takeLE_exact 4 n (by simpa using hn)]
  | connData seq req =>
    obtain ⟨rfl, hs, hr⟩ := h
    simp only [encodeItemBody, decodeItemBody]
    rw [if_neg (by simp [Bytes.le])]
    simp (config := { decide := true }) only [↓reduceIte]
    rw [takeLE_append 2 seq _ (by simpa using hs)]; simp only
    rw [if_neg (by simpa [List.isEmpty_iff] using hr)]
  | commSvc v c name =>
    obtain ⟨rfl, hv, hc, hne, hz⟩ := h
    simp only [encodeItemBody, decodeItemBody, List.append_assoc]
    rw [if_neg (by simp [Bytes.le])]
    simp (config := { decide := true }) only [↓reduceIte]
    rw [takeLE_append 2 v _ (by simpa using hv)]; simp only
    rw [takeLE_append 2 c _ (by simpa using hc)]; simp only
    have := takeWhile_nz name [] hz
    rw [this.1, this.2]
    rw [if_neg (by simpa [List.isEmpty_iff] using hne)]
    simp
  | identity i =>
    obtain ⟨rfl, hi⟩ := h
    simp only [encodeItemBody, decodeItemBody]
    rw [if_neg (by simp [encodeIdentity, Bytes.le])]
    simp (config := { decide := true }) only [↓reduceIte]
    simp [decodeIdentity_encode i hi]
  | legacy1 l =>
    obtain ⟨rfl, hl⟩ := h
    simp only [encodeItemBody, decodeItemBody]
    rw [if_neg (by simp [encodeLegacy1, Bytes.le])]
    simp (config := { decide := true }) only [↓reduceIte]
    simp [decodeLegacy1_encode l hl]
  | raw bs =>
    obtain ⟨hr, hne⟩ := h
    simp only [recognised, Bool.or_eq_false_iff, beq_eq_false_iff_ne, ne_eq] at hr
    obtain ⟨⟨⟨⟨⟨h1, h2⟩, h3⟩, h4⟩, h5⟩, h6⟩ := hr
    have he : bs.isEmpty = false := by cases bs <;> simp at hne ⊢
    simp only [encodeItemBody, decodeItemBody, he, Bool.false_eq_true, ↓reduceIte, h1, h2, h3, h4, h5, h6]

def Item.WF (it : Item) : Prop :=
  it.typeId < 65536 ∧ it.body.WF it.typeId ∧ (encodeItemBody it.body).length < 65536

/-- every item, of recognised type or not, is delimited by its own length field -/
theorem decodeItem_encode (it : Item) (rest : Bytes) (h : it.WF) :
    decodeItem (encodeItem it ++ rest) = some (it, rest) := by
  obtain ⟨hty, hb, hl⟩ := h
  obtain ⟨ty, body⟩ := it
  simp only at hty hb hl
  simp only [encodeItem, List.append_assoc, decodeItem]
  rw [takeLE_append 2 ty _ (by simpa using hty)]; simp only
  rw [takeLE_append 2 _ _ (by simpa using hl)]; simp only
  rw [takeN_append]
  simp only
  rw [decodeItemBody_encode ty body hb]; rfl

def ItemsWF (items : List Item) : Prop := ∀ it ∈ items, it.WF

theorem decodeItems_encode (items : List Item) (rest : Bytes) (h : ItemsWF items) :
    decodeItems items.length ((items.map encodeItem).flatten ++ rest) = some (items, rest) := by
  induction items with
  | nil => rfl
  | cons it more ih =>
    simp only [List.length_cons, List.map_cons, List.flatten_cons, List.append_assoc, decodeItems]
    rw [decodeItem_encode it _ (h it (by simp))]
    simp only
    rw [ih (fun x hx => h x (by simp [hx]))]

def CpfWF : Option (List Item) → Prop
  | none => True
  | some items => items.length < 65536 ∧ ItemsWF items

/-- **CPF round trip: 0..N items, each length-delimited** -/
theorem decodeCpf_encode (cpf : Option (List Item)) (h : CpfWF cpf) : decodeCpf (encodeCpf cpf) = some cpf := by
  cases cpf with
  | none => simp [encodeCpf, decodeCpf]
  | some items =>
    obtain ⟨hl, hw⟩ := h
    have hne : (Bytes.le 2 items.length ++ (items.map encodeItem).flatten).isEmpty = false := by simp [Bytes.le]
    simp only [encodeCpf, decodeCpf, hne, Bool.false_eq_true, ↓reduceIte]
    rw [takeLE_append 2 _ _ (by simpa using hl)]; simp only
    have := decodeItems_encode items [] hw
    simp only [List.append_nil] at this
    rw [this]

/-! ### commands and whole messages -/

def Cmd.WF (command : Nat) : Cmd → Prop
  | .register v o => command = 0x0065 ∧ v < 65536 ∧ o < 65536
  | .unregister => command = 0x0066
  | .sendData i t cpf => (command = 0x006F ∨ command = 0x0070) ∧ i < 4294967296 ∧ t < 65536 ∧ CpfWF cpf
  | .cpfService cpf => (command = 0x0001 ∨ command = 0x0004 ∨ command = 0x0063 ∨ command = 0x0064) ∧ CpfWF cpf

theorem decodeCmd_encode (command : Nat) (c : Cmd) (h : c.WF command) :
    decodeCmd command (encodeCmd c) = some c := by
  cases c with
  | register v o =>
    obtain ⟨rfl, hv, ho⟩ := h
    simp only [encodeCmd, decodeCmd, ↓reduceIte]
    rw [takeLE_append 2 v _ (by simpa using hv)]; simp only
    rw [takeLE_exact 2 o (by simpa using ho)]
  | unregister =>
    simp only [Cmd.WF] at h
    subst h
    simp (config := { decide := true }) [encodeCmd, decodeCmd]
  | sendData i t cpf =>
    obtain ⟨hc, hi, ht, hcpf⟩ := h
    simp only [encodeCmd, decodeCmd, List.append_assoc]
    rw [if_neg (by omega), if_neg (by omega), if_pos hc]
    rw [takeLE_append 4 i _ (by simpa using hi)]; simp only
    rw [takeLE_append 2 t _ (by simpa using ht)]; simp only
    rw [decodeCpf_encode cpf hcpf]; rfl
  | cpfService cpf =>
    obtain ⟨hc, hcpf⟩ := h
    simp only [encodeCmd, decodeCmd]
    rw [if_neg (by omega), if_neg (by omega), if_neg (by omega), if_pos hc]
    rw [decodeCpf_encode cpf hcpf]; rfl

def Message.WF (m : Message) : Prop :=
  m.hdr.WF ∧ m.cmd.WF m.hdr.command ∧ (encodeCmd m.cmd).length < 65536

/-- **Whole-message round trip: header, command, CPF items, Unconnected Send; followed by anything.** -/
theorem decodeMessage_encode (m : Message) (rest : Bytes) (h : m.WF) :
    decodeMessage (encodeMessage m ++ rest) = some (m, rest) := by
  obtain ⟨hh, hc, hl⟩ := h
  simp only [encodeMessage, decodeMessage]
  rw [decodeFrame_encode _ rest hh hl]
  simp only
  rw [decodeCmd_encode _ _ hc]; rfl

end Cpppo.Codec
