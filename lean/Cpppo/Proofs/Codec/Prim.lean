import Cpppo.Model.Codec.Prim

/-! Round-trip lemmas for the wire primitives (C01, C10, C14). -/
namespace Cpppo.Codec
open Cpppo

theorem le_length (k n : Nat) : (Bytes.le k n).length = k := by
  induction k generalizing n with
  | zero => rfl
  | succ k ih => simp [Bytes.le, ih]

theorem leNat_le (k n : Nat) (h : n < 256 ^ k) : Bytes.leNat (Bytes.le k n) = n := by
  induction k generalizing n with
  | zero => simp [Bytes.le, Bytes.leNat]; have : n < 1 := by simpa using h
            omega
  | succ k ih =>
    simp only [Bytes.le, Bytes.leNat]
    have h' : n / 256 < 256 ^ k := by
      rw [Nat.pow_succ] at h
      exact Nat.div_lt_of_lt_mul (by rw [Nat.mul_comm]; exact h)
    rw [ih _ h']
    have := Nat.div_add_mod n 256
    omega

theorem takeN_append (s rest : Bytes) : takeN s.length (s ++ rest) = some (s, rest) := by
  unfold takeN
  rw [if_neg (by simp)]
  simp

theorem takeLE_append (k n : Nat) (rest : Bytes) (h : n < 256 ^ k) :
    takeLE k (Bytes.le k n ++ rest) = some (n, rest) := by
  unfold takeLE
  rw [if_neg (by simp [le_length])]
  have h1 : (Bytes.le k n ++ rest).take k = Bytes.le k n := by
    rw [List.take_append_of_le_length (by simp [le_length])]
    exact List.take_of_length_le (by simp [le_length])
  have h2 : (Bytes.le k n ++ rest).drop k = rest := by
    have hl := le_length k n
    rw [List.drop_append_of_le_length (by omega), List.drop_of_length_le (by omega), List.nil_append]
  rw [h1, h2, leNat_le k n h]

/-! ### strings -/

theorem decodeSString_encode (s rest : Bytes) : decodeSString (encodeSString s ++ rest) = some (s, rest) := by
  simp only [encodeSString, List.cons_append, decodeSString]
  exact takeN_append s rest

theorem decodeString_encode (s rest : Bytes) (h : s.length < 65536) :
    decodeString (encodeString s ++ rest) = some (s, rest) := by
  unfold decodeString encodeString
  rw [List.append_assoc, List.append_assoc, takeLE_append 2 s.length _ (by simpa using h)]
  simp only
  rw [takeN_append]
  simp only
  split <;> simp

/-! ### status -/

theorem takeWords_append (ws : List Nat) (rest : Bytes) (h : ∀ w ∈ ws, w < 65536) :
    takeWords ws.length ((ws.map (Bytes.le 2)).flatten ++ rest) = some (ws, rest) := by
  induction ws with
  | nil => simp [takeWords]
  | cons w ws ih =>
    simp only [List.length_cons, takeWords, List.map_cons, List.flatten_cons, List.append_assoc]
    rw [takeLE_append 2 w _ (by have := h w (by simp); simpa using this)]
    simp only
    rw [ih (fun x hx => h x (by simp [hx]))]

/-- canonical status: no extended words with status 0 (they are not written) -/
def Status.WF (s : Status) : Prop :=
  s.code < 256 ∧ s.ext.length < 256 ∧ (∀ w ∈ s.ext, w < 65536) ∧ (s.code = 0 → s.ext = [])

theorem decodeStatus_encode (s : Status) (rest : Bytes) (h : s.WF) :
    decodeStatus (encodeStatus s ++ rest) = some (s, rest) := by
  obtain ⟨_, _, hw, h0⟩ := h
  unfold encodeStatus
  split
  · rename_i hc
    have := h0 hc
    obtain ⟨code, ext⟩ := s
    simp only at hc this
    subst hc this
    simp [decodeStatus, takeWords]
  · simp only [List.cons_append, List.nil_append, decodeStatus]
    rw [takeWords_append _ _ hw]

/-! ### EPATH segments -/

def Link.WF : Link → Prop
  | .num n => n < 256
  | .addr s => 1 ≤ s.length ∧ s.length < 256

def Seg.WF : Seg → Prop
  | .cls n | .ins n | .conn n | .attr n => n < 65536
  | .elem n => n < 4294967296
  | .sym s => 1 ≤ s.length ∧ s.length < 256
  | .port p l => 1 ≤ p ∧ p < 65536 ∧ l.WF

theorem dropPad_append (odd : Bool) (rest : Bytes) :
    dropPad odd ((if odd then [0] else []) ++ rest) = some rest := by
  cases odd <;> simp [dropPad]

theorem decodeSeg_encode (s : Seg) (rest : Bytes) (h : s.WF) :
    decodeSeg (encodeSeg s ++ rest) = some (s, rest) := by
  cases s with
  | cls n =>
    simp only [Seg.WF] at h
    have h2 := takeLE_append 2 n rest (by simpa using h)
    simp only [encodeSeg, encodeLogical]
    split
    · simp [decodeSeg]
    · rw [if_pos (by omega)]; simp [decodeSeg, h2]
  | ins n =>
    simp only [Seg.WF] at h
    have h2 := takeLE_append 2 n rest (by simpa using h)
    simp only [encodeSeg, encodeLogical]
    split
    · simp [decodeSeg]
    · rw [if_pos (by omega)]; simp [decodeSeg, h2]
  | conn n =>
    simp only [Seg.WF] at h
    have h2 := takeLE_append 2 n rest (by simpa using h)
    simp only [encodeSeg, encodeLogical]
    split
    · simp [decodeSeg]
    · rw [if_pos (by omega)]; simp [decodeSeg, h2]
  | attr n =>
    simp only [Seg.WF] at h
    have h2 := takeLE_append 2 n rest (by simpa using h)
    simp only [encodeSeg, encodeLogical]
    split
    · simp [decodeSeg]
    · rw [if_pos (by omega)]; simp [decodeSeg, h2]
  | elem n =>
    simp only [Seg.WF] at h
    have h4 := takeLE_append 4 n rest (by simpa using h)
    simp only [encodeSeg, encodeLogical]
    split
    · simp [decodeSeg]
    · split
      · rename_i h16
        have h2 := takeLE_append 2 n rest (by simp; omega)
        simp [decodeSeg, h2]
      · simp [decodeSeg, h4]
  | sym s =>
    simp only [Seg.WF] at h
    have hpad := dropPad_append (decide (s.length % 2 = 1)) rest
    simp only [decide_eq_true_eq] at hpad
    simp [encodeSeg, decodeSeg, takeN_append, hpad]
  | port p l =>
    simp only [Seg.WF] at h
    obtain ⟨hp1, hp2, hl⟩ := h
    cases l with
    | num n =>
      simp only [Link.WF] at hl
      simp only [encodeSeg]
      split
      · rename_i hlt
        simp only [List.cons_append, List.nil_append, decodeSeg]
        rw [if_neg (by omega), if_neg (by omega), if_neg (by omega), if_neg (by omega), if_pos (by omega)]
      · have h2 := takeLE_append 2 p (n :: rest) (by simpa using hp2)
        simp [decodeSeg, h2]
    | addr s =>
      simp only [Link.WF] at hl
      simp only [encodeSeg]
      have hpad := dropPad_append (decide (s.length % 2 = 1)) rest
      simp only [decide_eq_true_eq] at hpad
      split
      · rename_i hlt
        simp only [List.cons_append, List.nil_append, List.append_assoc, decodeSeg]
        rw [if_neg (by omega), if_neg (by omega), if_neg (by omega), if_neg (by omega), if_neg (by omega),
          if_neg (by omega), if_pos (by omega)]
        rw [takeN_append]
        simp only
        rw [hpad]
        simp only [Option.map_some, Option.some.injEq, Prod.mk.injEq, and_true]
        congr 1
      · have h2 := takeLE_append 2 p (s ++ ((if s.length % 2 = 1 then [0] else []) ++ rest)) (by simpa using hp2)
        simp [decodeSeg, h2, takeN_append, hpad]

theorem encodeSeg_length (s : Seg) (h : s.WF) :
    2 ≤ (encodeSeg s).length ∧ (encodeSeg s).length % 2 = 0 := by
  cases s with
  | cls n | ins n | conn n | attr n =>
    simp only [Seg.WF] at h
    simp only [encodeSeg, encodeLogical]
    split
    · simp
    · rw [if_pos (by omega)]; simp [le_length]
  | elem n =>
    simp only [encodeSeg, encodeLogical]
    split
    · simp
    · split
      · simp [le_length]
      · simp [le_length]
  | sym s =>
    simp only [encodeSeg, List.length_append, List.length_cons, List.length_nil]
    split <;> simp <;> omega
  | port p l =>
    cases l with
    | num n => simp only [encodeSeg]; split <;> simp [le_length]
    | addr s =>
      simp only [encodeSeg]
      split <;> split <;> simp [le_length] <;> omega

theorem decodeSegs_encode (segs : List Seg) (h : ∀ s ∈ segs, s.WF) (fuel : Nat)
    (hf : (encodeSegs segs).length ≤ fuel) : decodeSegs fuel (encodeSegs segs) = some segs := by
  induction segs generalizing fuel with
  | nil => cases fuel <;> simp [encodeSegs, decodeSegs]
  | cons s rest ih =>
    have hs := h s (by simp)
    have hl := encodeSeg_length s hs
    simp only [encodeSegs, List.map_cons, List.flatten_cons, List.length_append] at hf ⊢
    cases fuel with
    | zero => omega
    | succ f =>
      simp only [decodeSegs]
      rw [if_neg (by
        intro he
        have := List.isEmpty_iff.mp he
        have hlen : (encodeSeg s ++ (List.map encodeSeg rest).flatten).length = 0 := by rw [this]; rfl
        simp only [List.length_append] at hlen
        omega)]
      rw [decodeSeg_encode s _ hs]
      simp only
      have := ih (fun x hx => h x (by simp [hx])) f (by simp only [encodeSegs]; omega)
      simp only [encodeSegs] at this
      rw [this]; rfl

theorem encodeSegs_even (segs : List Seg) (h : ∀ s ∈ segs, s.WF) : (encodeSegs segs).length % 2 = 0 := by
  induction segs with
  | nil => rfl
  | cons s rest ih =>
    have := (encodeSeg_length s (h s (by simp))).2
    have := ih (fun x hx => h x (by simp [hx]))
    simp only [encodeSegs, List.map_cons, List.flatten_cons, List.length_append] at *
    omega

/-- a well-formed path: well-formed segments, at most 255 words -/
def EpathWF (segs : List Seg) : Prop := (∀ s ∈ segs, s.WF) ∧ (encodeSegs segs).length / 2 < 256

/-- **EPATH round trip** (plain and padded forms; size byte = words; every segment kind and width) -/
theorem decodeEpath_encode (padded : Bool) (segs : List Seg) (rest : Bytes) (h : EpathWF segs) :
    decodeEpath padded (encodeEpath (if padded then .padded else .plain) segs ++ rest) = some (segs, rest) := by
  obtain ⟨hs, hlen⟩ := h
  have hev := encodeSegs_even segs hs
  have h2 : 2 * ((encodeSegs segs).length / 2) = (encodeSegs segs).length := by omega
  cases padded
  · simp only [Bool.false_eq_true, ↓reduceIte, encodeEpath, List.cons_append, decodeEpath, dropPad]
    rw [h2, takeN_append]
    simp only
    rw [decodeSegs_encode segs hs _ (Nat.le_refl _)]; rfl
  · simp only [↓reduceIte, encodeEpath, List.cons_append, decodeEpath, dropPad]
    rw [h2, takeN_append]
    simp only
    rw [decodeSegs_encode segs hs _ (Nat.le_refl _)]; rfl

/-- single-segment EPATH (no size): one segment, rest untouched -/
theorem decodeSingle_encode (s : Seg) (rest : Bytes) (h : s.WF) :
    decodeSeg (encodeEpath .single [s] ++ rest) = some (s, rest) := by
  simp only [encodeEpath, encodeSegs, List.map_cons, List.map_nil, List.flatten_cons, List.flatten_nil,
    List.append_nil]
  exact decodeSeg_encode s rest h

end Cpppo.Codec
