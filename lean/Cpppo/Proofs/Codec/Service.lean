import Cpppo.Model.Codec.Service
import Cpppo.Proofs.Codec.Prim

/-! Round trips of the CIP service layer (C01). -/
namespace Cpppo.Codec
open Cpppo

/-- rewrite one `takeLE` over an encoded integer, discharging the range side condition from context -/
macro "take_le " k:num : tactic =>
  `(tactic| (rw [takeLE_append $k _ _ (by first | assumption | (simp only [Nat.reducePow]; omega))]; simp only))

theorem takeN_append' (n : Nat) (s rest : Bytes) (h : s.length = n) : takeN n (s ++ rest) = some (s, rest) := by
  subst h; exact takeN_append s rest

theorem takeLE_exact (k n : Nat) (h : n < 256 ^ k) : takeLE k (Bytes.le k n) = some (n, []) := by
  have := takeLE_append k n [] h
  simpa using this

def Typed.WF (t : Typed) : Prop :=
  t.ty < 65536 ∧ t.data ≠ [] ∧
    (match t.handle with | some h => t.ty = structType ∧ h < 65536 | none => t.ty ≠ structType)

theorem decodeTyped_encode (t : Typed) (h : t.WF) : decodeTyped (encodeTyped t) = some t := by
  obtain ⟨hty, _, hh⟩ := h
  obtain ⟨ty, handle, data⟩ := t
  simp only at hty hh
  unfold decodeTyped encodeTyped
  cases handle with
  | none =>
    simp only at hh
    simp only [List.append_nil, List.append_assoc]
    rw [takeLE_append 2 ty _ (by simpa using hty)]
    simp only [hh, ↓reduceIte, List.nil_append]
  | some hd =>
    simp only at hh
    obtain ⟨rfl, hhd⟩ := hh
    simp only [List.append_assoc]
    rw [takeLE_append 2 _ _ (by simpa using hty)]
    simp only [↓reduceIte]
    rw [takeLE_append 2 hd _ (by simpa using hhd)]

/-! ### Network Connection Parameters -/

def Ncp.WF (large : Bool) (p : Ncp) : Prop :=
  p.size < (if large then 2 ^ 16 else 2 ^ 9) ∧ p.var < 2 ∧ p.prio < 4 ∧ p.kind < 4 ∧ p.redundant < 2

/-- **bit-field round trip of the Forward Open connection parameters** (small and large layouts) -/
theorem decodeNcp_encode (large : Bool) (p : Ncp) (h : p.WF large) : decodeNcp large (encodeNcp large p) = p := by
  obtain ⟨hs, hv, hp, hk, hr⟩ := h
  obtain ⟨size, var, prio, kind, red⟩ := p
  simp only at hs hv hp hk hr
  cases large
  · simp only [Bool.false_eq_true, ↓reduceIte] at hs
    simp only [decodeNcp, encodeNcp, Bool.false_eq_true, ↓reduceIte, Nat.add_zero, Nat.mul_one, Nat.reducePow,
      Ncp.mk.injEq]
    refine ⟨?_, ?_, ?_, ?_, ?_⟩ <;> omega
  · simp only [↓reduceIte] at hs
    simp only [decodeNcp, encodeNcp, ↓reduceIte, Nat.reduceAdd, Nat.reducePow, Ncp.mk.injEq]
    refine ⟨?_, ?_, ?_, ?_, ?_⟩ <;> omega

/-! ### Multiple Service Packet member table -/

theorem msOffsets_go_length (o : Nat) (ms : List Bytes) : (msOffsets.go o ms).length = ms.length := by
  induction ms generalizing o with
  | nil => rfl
  | cons m rest ih => simp [msOffsets.go, ih]

theorem sliceMembers_go (pre : Bytes) (ms : List Bytes) :
    sliceMembers (pre ++ ms.flatten) (msOffsets.go pre.length ms) = ms := by
  induction ms generalizing pre with
  | nil => rfl
  | cons m rest ih =>
    cases rest with
    | nil =>
      simp only [msOffsets.go, sliceMembers, List.flatten_cons, List.flatten_nil, List.append_nil]
      rw [List.drop_left]
    | cons m2 rest2 =>
      have := ih (pre ++ m)
      simp only [msOffsets.go, List.length_append, List.flatten_cons, List.append_assoc] at this ⊢
      simp only [sliceMembers]
      rw [this]
      congr 1
      rw [List.drop_left, show pre.length + m.length - pre.length = m.length by omega, List.take_left]

theorem msOffsets_go_bound (o : Nat) (ms : List Bytes) : ∀ x ∈ msOffsets.go o ms, x ≤ o + ms.flatten.length := by
  induction ms generalizing o with
  | nil => simp [msOffsets.go]
  | cons m rest ih =>
    intro x hx
    simp only [msOffsets.go, List.mem_cons] at hx
    simp only [List.flatten_cons, List.length_append]
    rcases hx with rfl | hx
    · omega
    · have := ih (o + m.length) x hx; omega

/-- the bundle fits the 16-bit count and offsets -/
def MembersWF (ms : List Bytes) : Prop := 2 + 2 * ms.length + ms.flatten.length < 65536

theorem offsetWords_length (os : List Nat) : ((os.map (Bytes.le 2)).flatten).length = 2 * os.length := by
  induction os with
  | nil => rfl
  | cons o rest ih => simp [List.flatten_cons, le_length, ih]; omega

/-- **the offset table of a Multiple Service Packet locates every member exactly** -/
theorem decodeMembers_encode (ms : List Bytes) (h : MembersWF ms) :
    decodeMembers (encodeMembers ms) = some ms := by
  unfold MembersWF at h
  unfold decodeMembers encodeMembers
  rw [List.append_assoc, takeLE_append 2 _ _ (by simp only [Nat.reducePow]; omega)]
  simp only
  have hlen : (msOffsets ms).length = ms.length := msOffsets_go_length _ ms
  have hb : ∀ w ∈ msOffsets ms, w < 65536 := by
    intro w hw
    have := msOffsets_go_bound _ ms w hw
    omega
  have := takeWords_append (msOffsets ms) ms.flatten hb
  rw [hlen] at this
  rw [this]
  simp only [Option.some.injEq]
  have hpre : (Bytes.le 2 ms.length ++ ((msOffsets ms).map (Bytes.le 2)).flatten).length = 2 + 2 * ms.length := by
    rw [List.length_append, le_length, offsetWords_length, hlen]
  have := sliceMembers_go (Bytes.le 2 ms.length ++ ((msOffsets ms).map (Bytes.le 2)).flatten) ms
  rw [hpre] at this
  rw [← List.append_assoc]
  exact this

/-! ### services -/

theorem decodePlain (p : List Seg) (rest : Bytes) (h : EpathWF p) :
    decodeEpath false (encodeEpath .plain p ++ rest) = some (p, rest) := by
  have := decodeEpath_encode false p rest h
  simpa using this

theorem decodePadded (p : List Seg) (rest : Bytes) (h : EpathWF p) :
    decodeEpath true (encodeEpath .padded p ++ rest) = some (p, rest) := by
  have := decodeEpath_encode true p rest h
  simpa using this

def AppWF (app : Bytes) : Prop := app.length % 2 = 0 ∧ app.length / 2 < 256

theorem decodeApp_encode (app : Bytes) (h : AppWF app) : decodeApp (encodeApp app) = some app := by
  obtain ⟨h1, _⟩ := h
  simp only [encodeApp, List.cons_append, List.nil_append, decodeApp]
  rw [if_pos (by omega)]

def FwdOpen.WF (large : Bool) (fo : FwdOpen) : Prop :=
  fo.priority < 256 ∧ fo.ticks < 256 ∧ fo.otId < 4294967296 ∧ fo.toId < 4294967296 ∧ fo.connSerial < 65536
  ∧ fo.vendor < 65536 ∧ fo.serial < 4294967296 ∧ fo.multiplier < 256 ∧ fo.otRpi < 4294967296
  ∧ fo.otNcp < 256 ^ (if large then 4 else 2) ∧ fo.toRpi < 4294967296 ∧ fo.toNcp < 256 ^ (if large then 4 else 2)
  ∧ fo.trigger < 256 ∧ EpathWF fo.connPath

theorem decodeFwdOpenBody_encode (large : Bool) (fo : FwdOpen) (h : fo.WF large) :
    decodeFwdOpenBody large (encodeFwdOpenBody large fo) = some fo := by
  obtain ⟨_, _, h3, h4, h5, h6, h7, _, h9, h10, h11, h12, _, h14⟩ := h
  obtain ⟨priority, ticks, otId, toId, cs, vendor, serial, mult, otRpi, otNcp, toRpi, toNcp, trigger, cp⟩ := fo
  simp only at h3 h4 h5 h6 h7 h9 h10 h11 h12 h14
  simp only [encodeFwdOpenBody, List.cons_append, List.nil_append, List.append_assoc, decodeFwdOpenBody]
  rw [takeLE_append 4 otId _ (by simpa using h3)]; simp only
  rw [takeLE_append 4 toId _ (by simpa using h4)]; simp only
  rw [takeLE_append 2 cs _ (by simpa using h5)]; simp only
  rw [takeLE_append 2 vendor _ (by simpa using h6)]; simp only
  rw [takeLE_append 4 serial _ (by simpa using h7)]; simp only
  rw [takeLE_append 4 otRpi _ (by simpa using h9)]; simp only
  rw [takeLE_append _ otNcp _ h10]; simp only
  rw [takeLE_append 4 toRpi _ (by simpa using h11)]; simp only
  rw [takeLE_append _ toNcp _ h12]; simp only
  have := decodePlain cp [] h14
  simp only [List.append_nil] at this
  rw [this]

def Svc.WF : Svc → Prop
  | .readTagReq p n => EpathWF p ∧ n < 65536
  | .readFragReq p n off => EpathWF p ∧ n < 65536 ∧ off < 4294967296
  | .writeTagReq p t n => EpathWF p ∧ t.WF ∧ n < 65536
  | .writeFragReq p t n off => EpathWF p ∧ t.WF ∧ n < 65536 ∧ off < 4294967296
  | .readReply _ st t =>
    st.WF ∧ (match t with | some t => (st.code = 0 ∨ st.code = 6) ∧ t.WF | none => st.code ≠ 0 ∧ st.code ≠ 6)
  | .writeReply _ st => st.WF
  | .gaAllReq p | .gaSngReq p => EpathWF p
  | .gaLstReq p attrs => EpathWF p ∧ attrs ≠ [] ∧ attrs.length < 65536 ∧ ∀ a ∈ attrs, a < 65536
  | .saSngReq p data => EpathWF p ∧ data ≠ []
  | .dataReply svc st _ =>
    st.WF ∧ svc < 256 ∧ svc ∉ [0x4C, 0x52, 0x4D, 0x53, 0xCC, 0xD2, 0xCD, 0xD3, 0x01, 0x0E, 0x03, 0x10, 0x90, 0x0A, 0x8A,
                                 0x54, 0x5B, 0xD4, 0xDB, 0x4E, 0xCE]
  | .saSngReply st => st.WF
  | .multipleReq p ms => EpathWF p ∧ MembersWF ms
  | .multipleReply st ms => st.WF ∧ (match ms with | some ms => MembersWF ms | none => True)
  | .fwdOpenReq large p fo => EpathWF p ∧ fo.WF large
  | .fwdOpenOk _ otId toId cs v s otApi toApi app =>
    otId < 4294967296 ∧ toId < 4294967296 ∧ cs < 65536 ∧ v < 65536 ∧ s < 4294967296 ∧ otApi < 4294967296
    ∧ toApi < 4294967296 ∧ AppWF app
  | .fwdOpenFail _ st cs v s rem =>
    st.WF ∧ st.code ≠ 0 ∧ cs < 65536 ∧ v < 65536 ∧ s < 4294967296 ∧ (match rem with | some r => r < 256 | none => True)
  | .fwdCloseReq p fc =>
    EpathWF p ∧ fc.priority < 256 ∧ fc.ticks < 256 ∧ fc.connSerial < 65536 ∧ fc.vendor < 65536
    ∧ fc.serial < 4294967296 ∧ EpathWF fc.connPath
  | .fwdCloseReply st cs v s app => st.WF ∧ cs < 65536 ∧ v < 65536 ∧ s < 4294967296 ∧ AppWF app

theorem decodeStatus_exact (st : Status) (h : st.WF) : decodeStatus (encodeStatus st) = some (st, []) := by
  have := decodeStatus_encode st [] h
  simpa using this

theorem rt_readTagReq (p : List Seg) (n : Nat) (h : (Svc.readTagReq p n).WF) :
    decodeSvc (encodeSvc (.readTagReq p n)) = some (.readTagReq p n) := by
  obtain ⟨hp, hn⟩ := h
  simp only [encodeSvc, List.cons_append, List.nil_append, List.append_assoc, decodeSvc, ↓reduceIte]
  rw [decodePlain p _ hp]; simp only
  rw [takeLE_exact 2 n (by simpa using hn)]

theorem rt_readFragReq (p : List Seg) (n off : Nat) (h : (Svc.readFragReq p n off).WF) :
    decodeSvc (encodeSvc (.readFragReq p n off)) = some (.readFragReq p n off) := by
  obtain ⟨hp, hn, ho⟩ := h
  simp only [encodeSvc, List.cons_append, List.nil_append, List.append_assoc, decodeSvc,
    show ¬ (0x52 : Nat) = 0x4C by decide, ↓reduceIte]
  rw [decodePlain p _ hp]; simp only
  rw [takeLE_append 2 n _ (by simpa using hn)]; simp only
  rw [takeLE_exact 4 off (by simpa using ho)]

theorem rt_writeTagReq (p : List Seg) (t : Typed) (n : Nat) (h : (Svc.writeTagReq p t n).WF) :
    decodeSvc (encodeSvc (.writeTagReq p t n)) = some (.writeTagReq p t n) := by
  obtain ⟨hp, ⟨hty, hd, hh⟩, hn⟩ := h
  obtain ⟨ty, handle, data⟩ := t
  simp only at hty hd hh
  simp only [encodeSvc, List.cons_append, List.nil_append, List.append_assoc, decodeSvc,
    show ¬ (0x4D : Nat) = 0x4C by decide, show ¬ (0x4D : Nat) = 0x52 by decide, true_or, ↓reduceIte]
  rw [decodePlain p _ hp]; simp only
  rw [takeLE_append 2 ty _ (by simpa using hty)]; simp only
  cases handle with
  | none =>
    simp only at hh
    simp only [hh, ↓reduceIte, List.nil_append]
    rw [takeLE_append 2 n _ (by simpa using hn)]; simp only
    rw [if_neg (by simpa [List.isEmpty_iff] using hd)]
  | some hd' =>
    simp only at hh
    obtain ⟨rfl, hhd⟩ := hh
    simp only [↓reduceIte]
    rw [takeLE_append 2 hd' _ (by simpa using hhd)]; simp only [Option.map_some]
    rw [takeLE_append 2 n _ (by simpa using hn)]; simp only
    rw [if_neg (by simpa [List.isEmpty_iff] using hd)]

theorem rt_writeFragReq (p : List Seg) (t : Typed) (n off : Nat) (h : (Svc.writeFragReq p t n off).WF) :
    decodeSvc (encodeSvc (.writeFragReq p t n off)) = some (.writeFragReq p t n off) := by
  obtain ⟨hp, ⟨hty, hd, hh⟩, hn, ho⟩ := h
  obtain ⟨ty, handle, data⟩ := t
  simp only at hty hd hh
  simp only [encodeSvc, List.cons_append, List.nil_append, List.append_assoc, decodeSvc,
    show ¬ (0x53 : Nat) = 0x4C by decide, show ¬ (0x53 : Nat) = 0x52 by decide,
    show ¬ (0x53 : Nat) = 0x4D by decide, or_true, ↓reduceIte]
  rw [decodePlain p _ hp]; simp only
  rw [takeLE_append 2 ty _ (by simpa using hty)]; simp only
  cases handle with
  | none =>
    simp only at hh
    simp only [hh, ↓reduceIte, List.nil_append]
    rw [takeLE_append 2 n _ (by simpa using hn)]; simp only
    rw [takeLE_append 4 off _ (by simpa using ho)]; simp only
    rw [if_neg (by simpa [List.isEmpty_iff] using hd)]
  | some hd' =>
    simp only at hh
    obtain ⟨rfl, hhd⟩ := hh
    simp only [↓reduceIte]
    rw [takeLE_append 2 hd' _ (by simpa using hhd)]; simp only [Option.map_some]
    rw [takeLE_append 2 n _ (by simpa using hn)]; simp only
    rw [takeLE_append 4 off _ (by simpa using ho)]; simp only
    rw [if_neg (by simpa [List.isEmpty_iff] using hd)]

theorem rt_readReply (frag : Bool) (st : Status) (t : Option Typed) (h : (Svc.readReply frag st t).WF) :
    decodeSvc (encodeSvc (.readReply frag st t)) = some (.readReply frag st t) := by
  obtain ⟨hst, ht⟩ := h
  simp only [encodeSvc, List.cons_append, List.nil_append, List.append_assoc, decodeSvc]
  have hsvc : (if frag = true then (0xD2 : Nat) else 0xCC) = 0xCC ∨ (if frag = true then (0xD2 : Nat) else 0xCC) = 0xD2 := by
    cases frag <;> simp
  have hfrag : decide ((if frag = true then (0xD2 : Nat) else 0xCC) = 0xD2) = frag := by cases frag <;> simp
  rw [if_neg (by cases frag <;> decide), if_neg (by cases frag <;> decide), if_neg (by cases frag <;> decide),
    if_pos hsvc]
  rw [decodeStatus_encode st _ hst]; simp only
  cases t with
  | none =>
    simp only at ht
    simp only [List.isEmpty_nil, ↓reduceIte, hfrag]
    rw [if_neg (by omega)]
  | some t =>
    simp only at ht
    obtain ⟨hc, htw⟩ := ht
    rw [if_pos hc, decodeTyped_encode t htw]
    simp only [hfrag]
    rw [if_neg (by simpa [List.isEmpty_iff] using htw.2.1)]

theorem rt_writeReply (frag : Bool) (st : Status) (h : (Svc.writeReply frag st).WF) :
    decodeSvc (encodeSvc (.writeReply frag st)) = some (.writeReply frag st) := by
  simp only [encodeSvc, List.cons_append, List.nil_append, decodeSvc]
  have hsvc : (if frag = true then (0xD3 : Nat) else 0xCD) = 0xCD ∨ (if frag = true then (0xD3 : Nat) else 0xCD) = 0xD3 := by
    cases frag <;> simp
  have hfrag : decide ((if frag = true then (0xD3 : Nat) else 0xCD) = 0xD3) = frag := by cases frag <;> simp
  rw [if_neg (by cases frag <;> decide), if_neg (by cases frag <;> decide), if_neg (by cases frag <;> decide),
    if_neg (by cases frag <;> decide), if_pos hsvc]
  rw [decodeStatus_exact st h]; simp only [hfrag]

theorem rt_gaAllReq (p : List Seg) (h : EpathWF p) : decodeSvc (encodeSvc (.gaAllReq p)) = some (.gaAllReq p) := by
  have := decodePlain p [] h
  simp only [List.append_nil] at this
  simp (config := { decide := true }) only [encodeSvc, List.cons_append, List.nil_append, decodeSvc, ↓reduceIte, this,
    false_or, or_false]

theorem rt_gaSngReq (p : List Seg) (h : EpathWF p) : decodeSvc (encodeSvc (.gaSngReq p)) = some (.gaSngReq p) := by
  have := decodePlain p [] h
  simp only [List.append_nil] at this
  simp (config := { decide := true }) only [encodeSvc, List.cons_append, List.nil_append, decodeSvc, ↓reduceIte, this,
    false_or, or_false]

theorem takeWords_exact (ws : List Nat) (h : ∀ w ∈ ws, w < 65536) :
    takeWords ws.length ((ws.map (Bytes.le 2)).flatten) = some (ws, []) := by
  have := takeWords_append ws [] h
  simpa using this

theorem rt_gaLstReq (p : List Seg) (attrs : List Nat) (h : (Svc.gaLstReq p attrs).WF) :
    decodeSvc (encodeSvc (.gaLstReq p attrs)) = some (.gaLstReq p attrs) := by
  obtain ⟨hp, hne, hl, ha⟩ := h
  simp (config := { decide := true }) only [encodeSvc, List.cons_append, List.nil_append, List.append_assoc,
    decodeSvc, ↓reduceIte, false_or, or_false]
  rw [decodePlain p _ hp]; simp only
  rw [takeLE_append 2 _ _ (by simpa using hl)]; simp only
  rw [takeWords_exact attrs ha]; simp only
  rw [if_neg (by simpa [List.isEmpty_iff] using hne)]

theorem rt_saSngReq (p : List Seg) (data : Bytes) (h : (Svc.saSngReq p data).WF) :
    decodeSvc (encodeSvc (.saSngReq p data)) = some (.saSngReq p data) := by
  obtain ⟨hp, hne⟩ := h
  simp (config := { decide := true }) only [encodeSvc, List.cons_append, List.nil_append, List.append_assoc,
    decodeSvc, ↓reduceIte, false_or, or_false]
  rw [decodePlain p _ hp]; simp only
  rw [if_neg (by simpa [List.isEmpty_iff] using hne)]

theorem rt_saSngReply (st : Status) (h : st.WF) : decodeSvc (encodeSvc (.saSngReply st)) = some (.saSngReply st) := by
  simp (config := { decide := true }) only [encodeSvc, List.cons_append, List.nil_append, decodeSvc, ↓reduceIte,
    false_or, or_false]
  rw [decodeStatus_exact st h]

theorem rt_dataReply (svc : Nat) (st : Status) (data : Bytes) (h : (Svc.dataReply svc st data).WF) :
    decodeSvc (encodeSvc (.dataReply svc st data)) = some (.dataReply svc st data) := by
  obtain ⟨hst, _, hsvc⟩ := h
  simp only [List.mem_cons, List.not_mem_nil, or_false, not_or] at hsvc
  obtain ⟨h1, h2, h3, h4, h5, h6, h7, h8, h9, h10, h11, h12, h13, h14, h15, h16, h17, h18, h19, h20, h21⟩ := hsvc
  simp only [encodeSvc, List.cons_append, List.nil_append, List.append_assoc, decodeSvc]
  rw [if_neg h1, if_neg h2, if_neg (by omega), if_neg (by omega), if_neg (by omega), if_neg h9, if_neg h10,
    if_neg h11, if_neg h12, if_neg h13, if_neg h14, if_neg h15, if_neg (by omega), if_neg (by omega), if_neg h20,
    if_neg h21]
  rw [decodeStatus_encode st data hst]

theorem rt_multipleReq (p : List Seg) (ms : List Bytes) (h : (Svc.multipleReq p ms).WF) :
    decodeSvc (encodeSvc (.multipleReq p ms)) = some (.multipleReq p ms) := by
  obtain ⟨hp, hm⟩ := h
  simp (config := { decide := true }) only [encodeSvc, List.cons_append, List.nil_append, List.append_assoc,
    decodeSvc, ↓reduceIte, false_or, or_false]
  rw [decodePlain p _ hp]; simp only
  rw [decodeMembers_encode ms hm]; rfl

theorem encodeMembers_ne_nil (ms : List Bytes) : (encodeMembers ms).isEmpty = false := by
  unfold encodeMembers
  simp [Bytes.le]

theorem rt_multipleReply (st : Status) (ms : Option (List Bytes)) (h : (Svc.multipleReply st ms).WF) :
    decodeSvc (encodeSvc (.multipleReply st ms)) = some (.multipleReply st ms) := by
  obtain ⟨hst, hm⟩ := h
  simp (config := { decide := true }) only [encodeSvc, List.cons_append, List.nil_append, List.append_assoc,
    decodeSvc, ↓reduceIte, false_or, or_false]
  rw [decodeStatus_encode st _ hst]; simp only
  cases ms with
  | none => simp
  | some ms =>
    simp only at hm
    simp only [encodeMembers_ne_nil, Bool.false_eq_true, ↓reduceIte]
    rw [decodeMembers_encode ms hm]; rfl

theorem rt_fwdOpenReq (large : Bool) (p : List Seg) (fo : FwdOpen) (h : (Svc.fwdOpenReq large p fo).WF) :
    decodeSvc (encodeSvc (.fwdOpenReq large p fo)) = some (.fwdOpenReq large p fo) := by
  obtain ⟨hp, hfo⟩ := h
  simp only [encodeSvc, List.cons_append, List.nil_append, List.append_assoc, decodeSvc]
  have hsvc : (if large = true then (0x5B : Nat) else 0x54) = 0x54 ∨ (if large = true then (0x5B : Nat) else 0x54) = 0x5B := by
    cases large <;> simp
  have hl : decide ((if large = true then (0x5B : Nat) else 0x54) = 0x5B) = large := by cases large <;> simp
  rw [if_neg (by cases large <;> decide), if_neg (by cases large <;> decide), if_neg (by cases large <;> decide),
    if_neg (by cases large <;> decide), if_neg (by cases large <;> decide), if_neg (by cases large <;> decide),
    if_neg (by cases large <;> decide), if_neg (by cases large <;> decide), if_neg (by cases large <;> decide),
    if_neg (by cases large <;> decide), if_neg (by cases large <;> decide), if_neg (by cases large <;> decide),
    if_pos hsvc]
  rw [decodePlain p _ hp]; simp only [hl]
  rw [decodeFwdOpenBody_encode large fo hfo]; rfl

theorem rt_fwdOpenOk (large : Bool) (otId toId cs v s otApi toApi : Nat) (app : Bytes)
    (h : (Svc.fwdOpenOk large otId toId cs v s otApi toApi app).WF) :
    decodeSvc (encodeSvc (.fwdOpenOk large otId toId cs v s otApi toApi app))
      = some (.fwdOpenOk large otId toId cs v s otApi toApi app) := by
  obtain ⟨h1, h2, h3, h4, h5, h6, h7, h8⟩ := h
  simp only [encodeSvc, List.cons_append, List.nil_append, List.append_assoc, decodeSvc]
  have hsvc : (if large = true then (0xDB : Nat) else 0xD4) = 0xD4 ∨ (if large = true then (0xDB : Nat) else 0xD4) = 0xDB := by
    cases large <;> simp
  have hl : decide ((if large = true then (0xDB : Nat) else 0xD4) = 0xDB) = large := by cases large <;> simp
  rw [if_neg (by cases large <;> decide), if_neg (by cases large <;> decide), if_neg (by cases large <;> decide),
    if_neg (by cases large <;> decide), if_neg (by cases large <;> decide), if_neg (by cases large <;> decide),
    if_neg (by cases large <;> decide), if_neg (by cases large <;> decide), if_neg (by cases large <;> decide),
    if_neg (by cases large <;> decide), if_neg (by cases large <;> decide), if_neg (by cases large <;> decide),
    if_neg (by cases large <;> decide), if_pos hsvc]
  simp only [decodeStatus, takeWords, ↓reduceIte]
  rw [takeLE_append 4 otId _ (by simpa using h1)]; simp only
  rw [takeLE_append 4 toId _ (by simpa using h2)]; simp only
  rw [takeLE_append 2 cs _ (by simpa using h3)]; simp only
  rw [takeLE_append 2 v _ (by simpa using h4)]; simp only
  rw [takeLE_append 4 s _ (by simpa using h5)]; simp only
  rw [takeLE_append 4 otApi _ (by simpa using h6)]; simp only
  rw [takeLE_append 4 toApi _ (by simpa using h7)]; simp only
  rw [decodeApp_encode app h8]; simp only [Option.map_some, hl]

theorem rt_fwdOpenFail (large : Bool) (st : Status) (cs v s : Nat) (rem : Option Nat)
    (h : (Svc.fwdOpenFail large st cs v s rem).WF) :
    decodeSvc (encodeSvc (.fwdOpenFail large st cs v s rem)) = some (.fwdOpenFail large st cs v s rem) := by
  obtain ⟨hst, hne, h3, h4, h5, hr⟩ := h
  simp only [encodeSvc, List.cons_append, List.nil_append, List.append_assoc, decodeSvc]
  have hsvc : (if large = true then (0xDB : Nat) else 0xD4) = 0xD4 ∨ (if large = true then (0xDB : Nat) else 0xD4) = 0xDB := by
    cases large <;> simp
  have hl : decide ((if large = true then (0xDB : Nat) else 0xD4) = 0xDB) = large := by cases large <;> simp
  rw [if_neg (by cases large <;> decide), if_neg (by cases large <;> decide), if_neg (by cases large <;> decide),
    if_neg (by cases large <;> decide), if_neg (by cases large <;> decide), if_neg (by cases large <;> decide),
    if_neg (by cases large <;> decide), if_neg (by cases large <;> decide), if_neg (by cases large <;> decide),
    if_neg (by cases large <;> decide), if_neg (by cases large <;> decide), if_neg (by cases large <;> decide),
    if_neg (by cases large <;> decide), if_pos hsvc]
  rw [decodeStatus_encode st _ hst]; simp only
  rw [if_neg hne]
  rw [takeLE_append 2 cs _ (by simpa using h3)]; simp only
  rw [takeLE_append 2 v _ (by simpa using h4)]; simp only
  rw [takeLE_append 4 s _ (by simpa using h5)]; simp only
  cases rem <;> simp [hl]

theorem rt_fwdCloseReq (p : List Seg) (fc : FwdClose) (h : (Svc.fwdCloseReq p fc).WF) :
    decodeSvc (encodeSvc (.fwdCloseReq p fc)) = some (.fwdCloseReq p fc) := by
  obtain ⟨hp, _, _, h3, h4, h5, h6⟩ := h
  obtain ⟨priority, ticks, cs, v, s, cp⟩ := fc
  simp only at h3 h4 h5 h6
  simp (config := { decide := true }) only [encodeSvc, List.cons_append, List.nil_append, List.append_assoc,
    decodeSvc, ↓reduceIte, false_or, or_false]
  rw [decodePlain p _ hp]; simp only
  rw [takeLE_append 2 cs _ (by simpa using h3)]; simp only
  rw [takeLE_append 2 v _ (by simpa using h4)]; simp only
  rw [takeLE_append 4 s _ (by simpa using h5)]; simp only
  have := decodePadded cp [] h6
  simp only [List.append_nil] at this
  rw [this]

theorem rt_fwdCloseReply (st : Status) (cs v s : Nat) (app : Bytes) (h : (Svc.fwdCloseReply st cs v s app).WF) :
    decodeSvc (encodeSvc (.fwdCloseReply st cs v s app)) = some (.fwdCloseReply st cs v s app) := by
  obtain ⟨hst, h3, h4, h5, h8⟩ := h
  simp (config := { decide := true }) only [encodeSvc, List.cons_append, List.nil_append, List.append_assoc,
    decodeSvc, ↓reduceIte, false_or, or_false]
  rw [decodeStatus_encode st _ hst]; simp only
  rw [takeLE_append 2 cs _ (by simpa using h3)]; simp only
  rw [takeLE_append 2 v _ (by simpa using h4)]; simp only
  rw [takeLE_append 4 s _ (by simpa using h5)]; simp only
  rw [decodeApp_encode app h8]; rfl

/-- **Service-layer round trip: every request and reply of the Logix-dialect, Object, Multiple Service and
Connection Manager services.** -/
theorem decodeSvc_encode (s : Svc) (h : s.WF) : decodeSvc (encodeSvc s) = some s := by
  cases s with
  | readTagReq p n => exact rt_readTagReq p n h
  | readFragReq p n off => exact rt_readFragReq p n off h
  | writeTagReq p t n => exact rt_writeTagReq p t n h
  | writeFragReq p t n off => exact rt_writeFragReq p t n off h
  | readReply frag st t => exact rt_readReply frag st t h
  | writeReply frag st => exact rt_writeReply frag st h
  | gaAllReq p => exact rt_gaAllReq p h
  | gaSngReq p => exact rt_gaSngReq p h
  | gaLstReq p attrs => exact rt_gaLstReq p attrs h
  | saSngReq p data => exact rt_saSngReq p data h
  | dataReply svc st data => exact rt_dataReply svc st data h
  | saSngReply st => exact rt_saSngReply st h
  | multipleReq p ms => exact rt_multipleReq p ms h
  | multipleReply st ms => exact rt_multipleReply st ms h
  | fwdOpenReq large p fo => exact rt_fwdOpenReq large p fo h
  | fwdOpenOk large a b c d e f g app => exact rt_fwdOpenOk large a b c d e f g app h
  | fwdOpenFail large st a b c rem => exact rt_fwdOpenFail large st a b c rem h
  | fwdCloseReq p fc => exact rt_fwdCloseReq p fc h
  | fwdCloseReply st a b c app => exact rt_fwdCloseReply st a b c app h

end Cpppo.Codec
