import Cpppo.Model.Serve
import Batteries.Data.List.Perm
import Mathlib.Data.List.ProdSigma

/-! The no-progress detection (`seen` crumbs) bounds the number of passes of a machine level. -/
namespace Cpppo.Serve

/-- distinct crumbs (state < S, position ≤ L) number at most S·(L+1) -/
theorem crumbs_pigeonhole (S L : Nat) (l : List (Nat × Nat)) (hn : l.Nodup) (hv : ∀ x ∈ l, x.1 < S ∧ x.2 ≤ L) :
    l.length ≤ S * (L + 1) := by
  have hsub : l ⊆ (List.range S) ×ˢ (List.range (L + 1)) := by
    intro x hx
    obtain ⟨h1, h2⟩ := hv x hx
    obtain ⟨a, b⟩ := x
    rw [List.mem_product]
    exact ⟨List.mem_range.mpr h1, List.mem_range.mpr (by simpa using Nat.lt_succ_of_le h2)⟩
  have := (List.subperm_of_subset hn hsub).length_le
  simpa [List.length_product] using this

theorem Machine.next_valid {m : Machine} {input : List Nat} {c c' : Nat × Nat} (h : m.next input c = some c') :
    c'.1 < m.nstates ∧ c'.2 ≤ input.length := by
  unfold Machine.next at h
  split at h
  · simp at h
  · split at h
    · simp only [Option.some.injEq] at h; subst h; assumption
    · simp at h

/-- passes made + crumbs already seen never exceed the number of possible crumbs (+1 for the pass that
comes to a seen crumb) -/
theorem runCrumbs_le (m : Machine) (input : List Nat) (fuel : Nat) (seen : List (Nat × Nat)) (c : Nat × Nat)
    (hn : seen.Nodup) (hv : ∀ x ∈ seen, x.1 < m.nstates ∧ x.2 ≤ input.length) :
    (runCrumbs m input fuel seen c).passes + seen.length ≤ m.nstates * (input.length + 1) + 1 := by
  have hp := crumbs_pigeonhole _ _ seen hn hv
  induction fuel generalizing seen c with
  | zero => simp only [runCrumbs]; omega
  | succ n ih =>
    unfold runCrumbs
    cases hnx : m.next input c with
    | none => simp only; omega
    | some c' =>
      simp only
      by_cases hc : seen.contains c' = true
      · simp only [hc, if_true]; omega
      · simp only [hc, Bool.false_eq_true, if_false]
        have hnot : c' ∉ seen := by simpa using hc
        have hn' : (c' :: seen).Nodup := List.nodup_cons.mpr ⟨hnot, hn⟩
        have hv' : ∀ x ∈ c' :: seen, x.1 < m.nstates ∧ x.2 ≤ input.length := by
          intro x hx
          rcases List.mem_cons.mp hx with rfl | hx
          · exact Machine.next_valid hnx
          · exact hv x hx
        have := ih (c' :: seen) c' hn' hv' (crumbs_pigeonhole _ _ _ hn' hv')
        simp only [List.length_cons] at this
        omega

/-- with that much fuel the loop has ended by itself -/
theorem runCrumbs_stops (m : Machine) (input : List Nat) (fuel : Nat) (seen : List (Nat × Nat)) (c : Nat × Nat)
    (hn : seen.Nodup) (hv : ∀ x ∈ seen, x.1 < m.nstates ∧ x.2 ≤ input.length)
    (hf : m.nstates * (input.length + 1) + 1 < fuel + seen.length) :
    (runCrumbs m input fuel seen c).stop ≠ .fuel := by
  induction fuel generalizing seen c with
  | zero =>
    have := crumbs_pigeonhole _ _ seen hn hv
    omega
  | succ n ih =>
    unfold runCrumbs
    cases hnx : m.next input c with
    | none => simp
    | some c' =>
      simp only
      by_cases hc : seen.contains c' = true
      · simp only [hc, if_true]; exact fun h => by cases h
      · simp only [hc, Bool.false_eq_true, if_false]
        have hnot : c' ∉ seen := by simpa using hc
        have hn' : (c' :: seen).Nodup := List.nodup_cons.mpr ⟨hnot, hn⟩
        have hv' : ∀ x ∈ c' :: seen, x.1 < m.nstates ∧ x.2 ≤ input.length := by
          intro x hx
          rcases List.mem_cons.mp hx with rfl | hx
          · exact Machine.next_valid hnx
          · exact hv x hx
        exact ih (c' :: seen) c' hn' hv' (by simp only [List.length_cons]; omega)

end Cpppo.Serve
