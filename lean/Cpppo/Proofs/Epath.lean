import Cpppo.Proofs.Fields
import Cpppo.Model.RefCodec
import Cpppo.Model.Server
/-! The server's EPATH parser inverts the reference EPATH encoder. -/
namespace Cpppo.Interop
open Cpppo Cpppo.Logix Cpppo.Fields

theorem strOfBytes_strBytes (s : String) : strOfBytes (strBytes s) = s := by
  unfold strOfBytes strBytes
  simp [List.map_map, Function.comp_def, Char.ofNat_toNat]

/-- the parsed form of a reference segment -/
def segOf : Seg → Srv.PSeg
  | .symbolic s => .sym (strBytes s)
  | .cls n => .cls n
  | .ins n => .ins n
  | .attr n => .attr n
  | .elem n => .elem n
  | .other => .port 0 0

theorem encSeg_ne_other {s : Seg} {b : Bytes} (h : Ref.encSeg s = some b) : s ≠ .other := by
  intro hs; subst hs; simp [Ref.encSeg] at h

theorem toSeg_segOf (s : Seg) (h : s ≠ .other) : (segOf s).toSeg = s := by
  cases s <;> simp_all [segOf, Srv.PSeg.toSeg, strOfBytes_strBytes]

theorem encNum_len {t n : Nat} {w : Bool} {b : Bytes} (h : Ref.encNum t n w = some b) :
    2 ≤ b.length ∧ b.length % 2 = 0 := by
  unfold Ref.encNum at h
  split at h
  · simp at h; subst h; simp
  · split at h
    · simp at h; subst h; simp [le_length]
    · split at h
      · simp at h; subst h; simp [le_length]
      · simp at h

theorem encSeg_len {s : Seg} {b : Bytes} (h : Ref.encSeg s = some b) : 2 ≤ b.length ∧ b.length % 2 = 0 := by
  cases s with
  | symbolic str =>
    simp only [Ref.encSeg] at h
    split at h
    · simp only [Option.some.injEq] at h
      subst h
      simp only [List.length_append, List.length_cons, List.length_nil]
      split <;> simp <;> omega
    · simp at h
  | cls n => exact encNum_len h
  | ins n => exact encNum_len h
  | attr n => exact encNum_len h
  | elem n => exact encNum_len h
  | other => simp [Ref.encSeg] at h

/-- a logical segment written by the reference encoder is read back by the server's parser -/
theorem logical_encNum (base n : Nat) (w : Bool) (b rest : Bytes) (h : Ref.encNum base n w = some b) :
    ∃ t r, b ++ rest = t :: r ∧ Srv.inKind base w t = true ∧ Srv.logical base w t r = some (n, rest) := by
  unfold Ref.encNum at h
  split at h
  · simp only [Option.some.injEq] at h; subst h
    refine ⟨base, n :: rest, rfl, by simp [Srv.inKind], ?_⟩
    simp [Srv.logical, u1_cons]
  · split at h
    · simp only [Option.some.injEq] at h; subst h
      refine ⟨base + 1, 0 :: (Bytes.le 2 n ++ rest), by simp, by simp [Srv.inKind], ?_⟩
      have hn : n < 256 ^ 2 := by omega
      simp [Srv.logical, Srv.skip1, u_le 2 n rest hn]
    · split at h
      · rename_i h3
        simp only [Option.some.injEq] at h; subst h
        obtain ⟨hw, hn⟩ := h3
        refine ⟨base + 2, 0 :: (Bytes.le 4 n ++ rest), by simp, by simp [Srv.inKind, hw], ?_⟩
        have hn : n < 256 ^ 4 := by omega
        simp [Srv.logical, Srv.skip1, u_le 4 n rest hn, hw]
      · simp at h

theorem parseSeg_encSeg (s : Seg) (b rest : Bytes) (h : Ref.encSeg s = some b) :
    Srv.parseSeg (b ++ rest) = some (segOf s, rest) := by
  cases s with
  | symbolic str =>
    simp only [Ref.encSeg] at h
    split at h
    · rename_i hc
      obtain ⟨h0, h1, _⟩ := hc
      simp only [Option.some.injEq] at h
      subst h
      simp only [List.cons_append, List.nil_append, List.append_assoc, Srv.parseSeg, Srv.inKind,
        Generated.iopSegElement, Generated.iopSegClass, Generated.iopSegInstance, Generated.iopSegConnection,
        Generated.iopSegAttribute, Generated.iopSegSymbolic, segOf]
      simp only [Nat.reduceBEq, Nat.reduceAdd, Bool.or_self, Bool.and_false, Bool.false_eq_true, ↓reduceIte]
      have hlen : ¬ (strBytes str ++ ((if (strBytes str).length % 2 = 1 then [0] else []) ++ rest)).length
          < (strBytes str).length + (strBytes str).length % 2 := by
        simp only [List.length_append]
        split <;> simp <;> omega
      rw [if_neg hlen]
      congr 2
      · simp
      · rw [← List.append_assoc, List.drop_append]
        have : (strBytes str ++ if (strBytes str).length % 2 = 1 then [0] else []).length
            = (strBytes str).length + (strBytes str).length % 2 := by
          simp only [List.length_append]; split <;> simp <;> omega
        rw [← this]; simp
    · simp at h
  | cls n =>
    obtain ⟨t, r, he, hk, hl⟩ := logical_encNum 0x20 n false b rest h
    rw [he]
    simp only [Srv.inKind, Bool.false_and, Bool.or_false, Bool.or_eq_true, beq_iff_eq] at hk
    rcases hk with rfl | rfl <;>
      simp [Srv.parseSeg, Srv.inKind, Generated.iopSegElement, Generated.iopSegClass, hl, segOf]
  | ins n =>
    obtain ⟨t, r, he, hk, hl⟩ := logical_encNum 0x24 n false b rest h
    rw [he]
    simp only [Srv.inKind, Bool.false_and, Bool.or_false, Bool.or_eq_true, beq_iff_eq] at hk
    rcases hk with rfl | rfl <;>
      simp [Srv.parseSeg, Srv.inKind, Generated.iopSegElement, Generated.iopSegClass,
        Generated.iopSegInstance, hl, segOf]
  | attr n =>
    obtain ⟨t, r, he, hk, hl⟩ := logical_encNum 0x30 n false b rest h
    rw [he]
    simp only [Srv.inKind, Bool.false_and, Bool.or_false, Bool.or_eq_true, beq_iff_eq] at hk
    rcases hk with rfl | rfl <;>
      simp [Srv.parseSeg, Srv.inKind, Generated.iopSegElement, Generated.iopSegClass,
        Generated.iopSegInstance, Generated.iopSegConnection, Generated.iopSegAttribute, hl, segOf]
  | elem n =>
    obtain ⟨t, r, he, hk, hl⟩ := logical_encNum 0x28 n true b rest h
    rw [he]
    simp only [Srv.inKind, Bool.true_and, Bool.or_eq_true, beq_iff_eq] at hk
    rcases hk with (rfl | rfl) | rfl <;>
      simp [Srv.parseSeg, Srv.inKind, Generated.iopSegElement, hl, segOf]
  | other => simp [Ref.encSeg] at h

theorem encSegs_cons {s : Seg} {rest : Path} {b : Bytes} (h : Ref.encSegs (s :: rest) = some b) :
    ∃ a b', Ref.encSeg s = some a ∧ Ref.encSegs rest = some b' ∧ b = a ++ b' := by
  simp only [Ref.encSegs] at h
  split at h
  · rename_i a b' ha hb
    simp only [Option.some.injEq] at h
    exact ⟨a, b', ha, hb, h.symm⟩
  · simp at h

theorem encSegs_even {p : Path} {b : Bytes} (h : Ref.encSegs p = some b) : b.length % 2 = 0 := by
  induction p generalizing b with
  | nil => simp [Ref.encSegs] at h; subst h; rfl
  | cons s rest ih =>
    obtain ⟨a, b', ha, hb, rfl⟩ := encSegs_cons h
    have := (encSeg_len ha).2
    have := ih hb
    simp only [List.length_append]; omega

theorem parseSegs_encSegs (p : Path) (b : Bytes) (h : Ref.encSegs p = some b) (fuel : Nat)
    (hf : b.length ≤ fuel) : Srv.parseSegs fuel b = some (p.map segOf) := by
  induction p generalizing b fuel with
  | nil => simp [Ref.encSegs] at h; subst h; cases fuel <;> rfl
  | cons s rest ih =>
    obtain ⟨a, b', ha, hb, rfl⟩ := encSegs_cons h
    have hlen := (encSeg_len ha).1
    match a, hlen, ha with
    | x :: a', _, ha =>
      match fuel, hf with
      | f + 1, hf =>
        simp only [List.cons_append, Srv.parseSegs]
        have hp := parseSeg_encSeg s (x :: a') b' ha
        simp only [List.cons_append] at hp
        rw [hp]
        simp only
        have : b'.length ≤ f := by simp only [List.cons_append, List.length_cons, List.length_append] at hf; omega
        rw [ih b' hb f this]
        rfl

theorem toPath_segOf (p : Path) (b : Bytes) (h : Ref.encSegs p = some b) : Srv.toPath (p.map segOf) = p := by
  induction p generalizing b with
  | nil => rfl
  | cons s rest ih =>
    obtain ⟨a, b', ha, hb, rfl⟩ := encSegs_cons h
    simp only [Srv.toPath, List.map_cons, List.map_map] at ih ⊢
    rw [toSeg_segOf s (encSeg_ne_other ha)]
    congr 1
    exact ih b' hb

/-- **EPATH round trip**: what the reference encoder writes, the server's parser reads back (and leaves
the rest of the buffer untouched) -/
theorem parseEpath_encEpath (p : Path) (e rest : Bytes) (h : Ref.encEpath p = some e) :
    ∃ segs, Srv.parseEpath false (e ++ rest) = some (segs, rest) ∧ Srv.toPath segs = p := by
  unfold Ref.encEpath at h
  split at h
  · simp at h
  · rename_i b hb
    split at h
    · simp only [Option.some.injEq] at h
      subst h
      refine ⟨p.map segOf, ?_, toPath_segOf p b hb⟩
      have hev := encSegs_even hb
      have h2 : 2 * (b.length / 2) = b.length := by omega
      simp only [List.cons_append, Srv.parseEpath, Bool.false_eq_true, ↓reduceIte]
      rw [h2, take_append b.length b rest rfl]
      simp only
      rw [parseSegs_encSegs p b hb b.length (Nat.le_refl _)]
    · simp at h

end Cpppo.Interop
