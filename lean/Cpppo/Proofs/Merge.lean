import Cpppo.Model.Merge

/-! Helper lemmas for C19 (shatter / merge). -/
namespace Cpppo.Merge

/-- `x` is one of the registers of range `r`. -/
def InRange (r : Range) (x : Nat) : Prop := r.1 ≤ x ∧ x < r.1 + r.2

/-- `x` is covered by some range of `out`. -/
def Covers (out : List Range) (x : Nat) : Prop := ∃ r ∈ out, InRange r x

/-- `out` is a sequence of non-empty consecutive ranges starting at `s` and ending at `e`. -/
def Consec : Nat → List Range → Nat → Prop
  | s, [], e => s = e
  | s, (a, t) :: rest, e => a = s ∧ 1 ≤ t ∧ Consec (s + t) rest e

/-- a range lies inside one `block`-sized bank -/
def InBank (block : Nat) (r : Range) : Prop := r.1 + r.2 ≤ (r.1 / block + 1) * block

theorem shatterFuel_consec (fuel a c lim : Nat) (hl : 0 < lim) (hf : c ≤ fuel) :
    Consec a (shatterFuel fuel a c lim) (a + c) := by
  induction fuel generalizing a c with
  | zero => have : c = 0 := by omega
            simp [shatterFuel, Consec, this]
  | succ f ih =>
    simp only [shatterFuel]
    split
    · have : c = 0 := by omega
      simp [Consec, this]
    · simp only [Consec, true_and]
      refine ⟨by omega, ?_⟩
      have : a + min c lim + (c - min c lim) = a + c := by omega
      rw [← this]; exact ih _ _ (by omega)

theorem shatterGo_consec (a c lim : Nat) (hl : 0 < lim) : Consec a (shatterGo a c lim) (a + c) :=
  shatterFuel_consec c a c lim hl (Nat.le_refl _)

theorem shatterFuel_le (fuel a c lim : Nat) : ∀ r ∈ shatterFuel fuel a c lim, r.2 ≤ lim := by
  induction fuel generalizing a c with
  | zero => simp [shatterFuel]
  | succ f ih =>
    simp only [shatterFuel]
    split
    · simp
    · intro r hr
      simp only [List.mem_cons] at hr
      rcases hr with rfl | hr
      · simp; omega
      · exact ih _ _ r hr

theorem shatterGo_le (a c lim : Nat) : ∀ r ∈ shatterGo a c lim, r.2 ≤ lim := shatterFuel_le c a c lim

theorem Consec.le {s e : Nat} {out : List Range} (h : Consec s out e) : s ≤ e := by
  induction out generalizing s with
  | nil => simp [Consec] at h; omega
  | cons r l ih => obtain ⟨a, t⟩ := r; simp only [Consec] at h; have := ih h.2.2; omega

theorem Consec.covers_iff {s e : Nat} {out : List Range} (h : Consec s out e) (x : Nat) :
    Covers out x ↔ s ≤ x ∧ x < e := by
  induction out generalizing s with
  | nil => simp [Consec] at h; subst h; simp [Covers, InRange]
  | cons r rest ih =>
    obtain ⟨a, t⟩ := r
    simp only [Consec] at h
    obtain ⟨rfl, ht, hrest⟩ := h
    have hle : a + t ≤ e := hrest.le
    have := ih hrest
    simp only [Covers, List.mem_cons, exists_eq_or_imp, InRange] at this ⊢
    rw [this]; omega

/-- every piece of a consecutive tiling lies inside `[s, e)` and is non-empty -/
theorem Consec.mem {s e : Nat} {out : List Range} (h : Consec s out e) :
    ∀ r ∈ out, s ≤ r.1 ∧ r.1 + r.2 ≤ e ∧ 1 ≤ r.2 := by
  induction out generalizing s with
  | nil => simp
  | cons r l ih =>
    obtain ⟨a, t⟩ := r; simp only [Consec] at h
    obtain ⟨rfl, ht, hrest⟩ := h
    intro r hr
    simp only [List.mem_cons] at hr
    rcases hr with rfl | hr
    · have := hrest.le; simp; omega
    · have := ih hrest r hr; omega

/-- consecutive pieces are pairwise ordered and disjoint -/
theorem Consec.pairwise {s e : Nat} {out : List Range} (h : Consec s out e) :
    out.Pairwise (fun r q => r.1 + r.2 ≤ q.1) := by
  induction out generalizing s with
  | nil => simp
  | cons r l ih =>
    obtain ⟨a, t⟩ := r; simp only [Consec] at h
    obtain ⟨rfl, ht, hrest⟩ := h
    simp only [List.pairwise_cons]
    refine ⟨?_, ih hrest⟩
    intro q hq
    have := hrest.mem q hq
    simp; omega

theorem defaultLimit_pos {coil reg a : Nat} (hc : 0 < coil) (hr : 0 < reg) :
    0 < defaultLimit coil reg a := by
  unfold defaultLimit; split <;> assumption

theorem effLimit_pos {coil reg a : Nat} {lim : Option Nat} (hc : 0 < coil) (hr : 0 < reg) :
    0 < effLimit coil reg a lim := by
  unfold effLimit
  split
  · split
    · exact defaultLimit_pos hc hr
    · omega
  · exact defaultLimit_pos hc hr

/-! ### sorting -/

theorem rangeLe_total' (a b : Range) : rangeLe a b = false → rangeLe b a = true := by
  simp only [rangeLe, Bool.or_eq_true, Bool.and_eq_true, decide_eq_true_eq, beq_iff_eq,
    Bool.or_eq_false_iff, Bool.and_eq_false_iff, decide_eq_false_iff_not, beq_eq_false_iff_ne]; omega

theorem rangeLe_addr {a b : Range} : rangeLe a b = true → a.1 ≤ b.1 := by
  simp only [rangeLe, Bool.or_eq_true, Bool.and_eq_true, decide_eq_true_eq, beq_iff_eq]; omega

theorem insertRange_perm (x : Range) (l : List Range) : (insertRange x l).Perm (x :: l) := by
  induction l with
  | nil => simp [insertRange]
  | cons y ys ih =>
    simp only [insertRange]; split
    · exact List.Perm.refl _
    · exact (List.Perm.cons y ih).trans (List.Perm.swap x y ys)

theorem sortRanges_perm (l : List Range) : (sortRanges l).Perm l := by
  induction l with
  | nil => simp [sortRanges]
  | cons x xs ih => exact (insertRange_perm x _).trans (List.Perm.cons x ih)

theorem insertRange_sorted (x : Range) (l : List Range)
    (h : l.Pairwise (fun r q => r.1 ≤ q.1)) : (insertRange x l).Pairwise (fun r q => r.1 ≤ q.1) := by
  induction l with
  | nil => simp [insertRange]
  | cons y ys ih =>
    simp only [List.pairwise_cons] at h
    simp only [insertRange]; split
    · rename_i hle
      have hxy := rangeLe_addr hle
      simp only [List.pairwise_cons, List.mem_cons, forall_eq_or_imp]
      exact ⟨⟨hxy, fun q hq => Nat.le_trans hxy (h.1 q hq)⟩, h.1, h.2⟩
    · rename_i hle
      have hyx := rangeLe_addr (rangeLe_total' x y (by simpa using hle))
      simp only [List.pairwise_cons]
      refine ⟨?_, ih h.2⟩
      intro q hq
      have := (insertRange_perm x ys).mem_iff.mp hq
      simp only [List.mem_cons] at this
      rcases this with rfl | hq
      · exact hyx
      · exact h.1 q hq

theorem sorted_addr (rs : List Range) : (sortRanges rs).Pairwise (fun r q => r.1 ≤ q.1) := by
  induction rs with
  | nil => simp [sortRanges]
  | cons x xs ih => exact insertRange_sorted x _ ih

/-! ### the sweep -/

theorem div_block_lt {block base a : Nat} (hle : base ≤ a) (hne : ¬ a / block = base / block) :
    (base / block + 1) * block ≤ a := by
  have h1 : base / block ≤ a / block := Nat.div_le_div_right hle
  have h2 : base / block + 1 ≤ a / block := by omega
  calc (base / block + 1) * block ≤ (a / block) * block := Nat.mul_le_mul_right _ h2
    _ ≤ a := Nat.div_mul_le_self a block

/-- every block produced by the sweep starts at or after `base` -/
theorem sweep_base_le (fixed : Bool) (block reach : Nat) (base len : Nat) (rest : List Range)
    (hsorted : rest.Pairwise (fun r q => r.1 ≤ q.1)) (hbase : ∀ r ∈ rest, base ≤ r.1) :
    ∀ s ∈ sweep fixed block reach base len rest, base ≤ s.1 := by
  induction rest generalizing base len with
  | nil => simp [sweep]
  | cons r rest ih =>
    obtain ⟨a, c⟩ := r
    simp only [List.pairwise_cons] at hsorted
    have hba : base ≤ a := hbase (a, c) (by simp)
    have hrest : ∀ r ∈ rest, base ≤ r.1 := fun r hr => hbase r (by simp [hr])
    have hresta : ∀ r ∈ rest, a ≤ r.1 := fun r hr => hsorted.1 r hr
    simp only [sweep]
    split
    · split
      · exact ih _ _ hsorted.2 hrest
      · intro s hs
        simp only [List.mem_cons] at hs
        rcases hs with rfl | hs
        · simp
        · have := ih a c hsorted.2 hresta s hs; omega
    · intro s hs
      have := ih a c hsorted.2 hresta s hs; omega

/-- Coverage (repaired code): whatever was in the running block or in a pending range is covered. -/
theorem sweep_covers (block reach : Nat) (base len : Nat) (rest : List Range)
    (hsorted : rest.Pairwise (fun r q => r.1 ≤ q.1)) (hbase : ∀ r ∈ rest, base ≤ r.1) (x : Nat)
    (hx : InRange (base, len) x ∨ ∃ r ∈ rest, InRange r x) :
    Covers (sweep true block reach base len rest) x := by
  induction rest generalizing base len with
  | nil =>
    rcases hx with hx | ⟨r, hr, _⟩
    · exact ⟨(base, len), by simp [sweep], hx⟩
    · simp at hr
  | cons r rest ih =>
    obtain ⟨a, c⟩ := r
    simp only [List.pairwise_cons] at hsorted
    have hba : base ≤ a := hbase (a, c) (by simp)
    have hrest : ∀ r ∈ rest, base ≤ r.1 := fun r hr => hbase r (by simp [hr])
    have hresta : ∀ r ∈ rest, a ≤ r.1 := fun r hr => hsorted.1 r hr
    simp only [sweep]
    split
    · split
      · apply ih _ _ hsorted.2 hrest
        rcases hx with hx | ⟨r, hr, hrx⟩
        · left; simp only [InRange] at hx ⊢; simp only [if_true]; omega
        · simp only [List.mem_cons] at hr
          rcases hr with rfl | hr
          · left; simp only [InRange] at hrx ⊢; simp only [if_true]; omega
          · right; exact ⟨r, hr, hrx⟩
      · rcases hx with hx | ⟨r, hr, hrx⟩
        · exact ⟨(base, len), by simp, hx⟩
        · have : Covers (sweep true block reach a c rest) x := by
            apply ih _ _ hsorted.2 hresta
            simp only [List.mem_cons] at hr
            rcases hr with rfl | hr
            · left; exact hrx
            · right; exact ⟨r, hr, hrx⟩
          obtain ⟨s, hs, hsx⟩ := this
          exact ⟨s, by simp [hs], hsx⟩
    · apply ih _ _ hsorted.2 hresta
      rcases hx with hx | ⟨r, hr, hrx⟩
      · simp only [InRange] at hx; omega
      · simp only [List.mem_cons] at hr
        rcases hr with rfl | hr
        · left; exact hrx
        · right; exact ⟨r, hr, hrx⟩

/-- Blocks are ordered, disjoint and each stays inside its bank. -/
theorem sweep_blocks (fixed : Bool) (block reach : Nat) (base len : Nat) (rest : List Range)
    (hsorted : rest.Pairwise (fun r q => r.1 ≤ q.1)) (hbase : ∀ r ∈ rest, base ≤ r.1)
    (hbank : InBank block (base, len)) (hbanks : ∀ r ∈ rest, InBank block r) :
    (sweep fixed block reach base len rest).Pairwise (fun r q => r.1 + r.2 ≤ q.1)
    ∧ ∀ s ∈ sweep fixed block reach base len rest, InBank block s := by
  induction rest generalizing base len with
  | nil => simp [sweep, hbank]
  | cons r rest ih =>
    obtain ⟨a, c⟩ := r
    simp only [List.pairwise_cons] at hsorted
    have hba : base ≤ a := hbase (a, c) (by simp)
    have hrest : ∀ r ∈ rest, base ≤ r.1 := fun r hr => hbase r (by simp [hr])
    have hresta : ∀ r ∈ rest, a ≤ r.1 := fun r hr => hsorted.1 r hr
    have hbanka : InBank block (a, c) := hbanks (a, c) (by simp)
    have hbanks' : ∀ r ∈ rest, InBank block r := fun r hr => hbanks r (by simp [hr])
    simp only [sweep]
    split
    · split
      · rename_i hm
        apply ih _ _ hsorted.2 hrest _ hbanks'
        simp only [InBank] at hbank hbanka ⊢
        rw [hm.1] at hbanka
        cases fixed <;> simp <;> omega
      · rename_i hm
        have hsep : base + len ≤ a := by
          by_cases h1 : a / block = base / block
          · have : ¬ a < base + len + effReach reach := fun h => hm ⟨h1, h⟩
            omega
          · have := div_block_lt hba h1
            simp only [InBank] at hbank; omega
        have ⟨ihp, ihb⟩ := ih a c hsorted.2 hresta hbanka hbanks'
        refine ⟨?_, ?_⟩
        · simp only [List.pairwise_cons]
          refine ⟨?_, ihp⟩
          intro q hq
          have := sweep_base_le fixed block reach a c rest hsorted.2 hresta q hq
          simp; omega
        · intro s hs
          simp only [List.mem_cons] at hs
          rcases hs with rfl | hs
          · exact hbank
          · exact ihb s hs
    · exact ih a c hsorted.2 hresta hbanka hbanks'

/-- `x` is within distance `< d` of a requested register. -/
def Near (Req : Nat → Prop) (d : Nat) (x : Nat) : Prop := ∃ y, Req y ∧ x < y + d ∧ y < x + d

theorem effReach_pos (reach : Nat) : 0 < effReach reach := by unfold effReach; split <;> omega

/-- Tightness: every register of every block is near a requested one (non-empty input ranges). -/
theorem sweep_tight (fixed : Bool) (block reach : Nat) (Req : Nat → Prop) (base len : Nat)
    (rest : List Range)
    (hsorted : rest.Pairwise (fun r q => r.1 ≤ q.1)) (hbase : ∀ r ∈ rest, base ≤ r.1)
    (hne : ∀ r ∈ rest, 1 ≤ r.2)
    (hreq : ∀ r ∈ rest, ∀ y, InRange r y → Req y)
    (hblk : ∀ x, InRange (base, len) x → Near Req (effReach reach) x) :
    ∀ s ∈ sweep fixed block reach base len rest, ∀ x, InRange s x → Near Req (effReach reach) x := by
  induction rest generalizing base len with
  | nil => intro s hs; simp [sweep] at hs; subst hs; exact hblk
  | cons r rest ih =>
    obtain ⟨a, c⟩ := r
    simp only [List.pairwise_cons] at hsorted
    have hba : base ≤ a := hbase (a, c) (by simp)
    have hrest : ∀ r ∈ rest, base ≤ r.1 := fun r hr => hbase r (by simp [hr])
    have hresta : ∀ r ∈ rest, a ≤ r.1 := fun r hr => hsorted.1 r hr
    have hc : 1 ≤ c := hne (a, c) (by simp)
    have hne' : ∀ r ∈ rest, 1 ≤ r.2 := fun r hr => hne r (by simp [hr])
    have hreqa : ∀ y, InRange (a, c) y → Req y := hreq (a, c) (by simp)
    have hreq' : ∀ r ∈ rest, ∀ y, InRange r y → Req y := fun r hr => hreq r (by simp [hr])
    have hpos := effReach_pos reach
    have hnew : ∀ x, InRange (a, c) x → Near Req (effReach reach) x := by
      intro x hx; exact ⟨x, hreqa x hx, by omega, by omega⟩
    simp only [sweep]
    split
    · split
      · rename_i hm
        apply ih _ _ hsorted.2 hrest hne' hreq'
        intro x hx
        by_cases h1 : x < base + len
        · exact hblk x ⟨hx.1, h1⟩
        · by_cases h2 : a ≤ x
          · apply hnew; simp only [InRange] at hx ⊢
            cases fixed <;> simp at hx <;> omega
          · -- a gap register: near `a`, which is requested
            refine ⟨a, hreqa a (by simp [InRange]; omega), by omega, by omega⟩
      · intro s hs
        simp only [List.mem_cons] at hs
        rcases hs with rfl | hs
        · exact hblk
        · exact ih a c hsorted.2 hresta hne' hreq' hnew s hs
    · exact ih a c hsorted.2 hresta hne' hreq' hnew

end Cpppo.Merge
