import Cpppo.Model.Regex

/-!
Helper lemmas for C11: the graph built by `state.from_regex` (model `nodeOfC`, `origNode`, …) steps
exactly like the fsm restricted to the states that are kept; runs, chunks, liveness, UTF-8 chains.
-/
namespace Cpppo.Regex
open Cpppo.Rx (Sym)

/-! ### association lists -/

theorem lookup_of_mem (t : Tab) (k : Option Sym) (d : Nat)
    (hnd : keysNodup t = true) (hm : (k, d) ∈ t) : t.lookup k = some d := by
  induction t with
  | nil => simp at hm
  | cons e t ih =>
    obtain ⟨k', d'⟩ := e
    simp only [keysNodup, Bool.and_eq_true, Bool.not_eq_true', List.any_eq_false] at hnd
    simp only [List.mem_cons, Prod.mk.injEq] at hm
    rw [List.lookup_cons]
    rcases hm with ⟨rfl, rfl⟩ | hm
    · simp
    · have h1 := hnd.1 (k, d) hm
      have : (k == k') = false := by simpa using h1
      simp only [this]
      exact ih hnd.2 hm

theorem mem_of_lookup (t : Tab) (k : Option Sym) (d : Nat) (h : t.lookup k = some d) : (k, d) ∈ t := by
  induction t with
  | nil => simp at h
  | cons e t ih =>
    obtain ⟨k', d'⟩ := e
    rw [List.lookup_cons] at h
    by_cases hk : (k == k') = true
    · simp only [hk, Option.some.injEq] at h
      have : k = k' := by simpa using hk
      subst this; subst h; simp
    · have hk' : (k == k') = false := by simpa using hk
      simp only [hk'] at h
      exact List.mem_cons_of_mem _ (ih h)

theorem lookup_none_of_not_key (t : Tab) (k : Option Sym) (h : ∀ e ∈ t, e.1 ≠ k) : t.lookup k = none := by
  induction t with
  | nil => rfl
  | cons e t ih =>
    obtain ⟨k', d'⟩ := e
    rw [List.lookup_cons]
    have : (k == k') = false := by
      have := h (k', d') (by simp)
      simp at this; simpa using fun hh => this hh.symm
    simp only [this]
    exact ih fun e he => h e (List.mem_cons_of_mem _ he)

/-! ### well-formedness, unpacked -/

structure Fsm.WF (F : Fsm) : Prop where
  init : F.inMap F.init = true
  hasAny : ∀ q, F.inMap q = true → ∃ d, (F.tab q).lookup none = some d
  nodup : ∀ q, keysNodup (F.tab q) = true
  closed : ∀ q, ∀ e ∈ F.tab q, F.inMap e.2 = true

theorem lookup_map_mem (m : List (Nat × Tab)) (q : Nat) (t : Tab) (h : m.lookup q = some t) : (q, t) ∈ m := by
  induction m with
  | nil => simp at h
  | cons e m ih =>
    obtain ⟨q', t'⟩ := e
    rw [List.lookup_cons] at h
    by_cases hk : (q == q') = true
    · simp only [hk, Option.some.injEq] at h
      have : q = q' := by simpa using hk
      subst this; subst h; simp
    · have hk' : (q == q') = false := by simpa using hk
      simp only [hk'] at h
      exact List.mem_cons_of_mem _ (ih h)

theorem Fsm.tab_mem_or_nil (F : Fsm) (q : Nat) : (q, F.tab q) ∈ F.map ∨ F.tab q = [] := by
  unfold Fsm.tab
  cases h : F.map.lookup q with
  | none => right; rfl
  | some t => left; exact lookup_map_mem _ _ _ h

theorem Fsm.wf_WF (F : Fsm) (h : F.wf = true) : F.WF := by
  simp only [Fsm.wf, Bool.and_eq_true, List.all_eq_true, List.any_eq_true] at h
  obtain ⟨hinit, hall⟩ := h
  refine ⟨hinit, ?_, ?_, ?_⟩
  · intro q hq
    rcases F.tab_mem_or_nil q with hm | hnil
    · obtain ⟨⟨⟨x, hx, hxn⟩, hnd⟩, _⟩ := hall _ hm
      obtain ⟨k, d⟩ := x
      have : k = none := by simpa using hxn
      subst this
      exact ⟨d, lookup_of_mem _ _ _ hnd hx⟩
    · unfold Fsm.inMap at hq
      unfold Fsm.tab at hnil
      cases hl : F.map.lookup q with
      | none => simp [hl] at hq
      | some t =>
        simp only [hl, Option.getD_some] at hnil
        subst hnil
        obtain ⟨⟨⟨x, hx, _⟩, _⟩, _⟩ := hall _ (lookup_map_mem _ _ _ hl)
        simp at hx
  · intro q
    rcases F.tab_mem_or_nil q with hm | hnil
    · exact (hall _ hm).1.2
    · rw [hnil]; rfl
  · intro q e he
    rcases F.tab_mem_or_nil q with hm | hnil
    · exact (hall _ hm).2 e he
    · rw [hnil] at he; simp at he

theorem Fsm.step_inMap (F : Fsm) (h : F.WF) (q : Nat) (hq : F.inMap q = true) (c : Sym) :
    F.inMap (F.step q c) = true := by
  unfold Fsm.step
  cases h1 : (F.tab q).lookup (some c) with
  | some d => exact h.closed q _ (mem_of_lookup _ _ _ h1)
  | none =>
    obtain ⟨d, hd⟩ := h.hasAny q hq
    simp only [hd, Option.getD_some]
    exact h.closed q _ (mem_of_lookup _ _ _ hd)

/-! ### one step of the built graph (no encoder, or a symbol that encodes to itself) -/

/-- the keys the entry `c ↦ nxt` may put on node `q` -/
def headKey (bytes : Bool) (c : Sym) : Option Sym := (encode bytes c).head?

theorem symExact_keys (F : Fsm) (bytes : Bool) (v : Variant) (q c nxt : Nat) :
    ∀ e ∈ symExact F bytes v q c nxt, some e.1 = headKey bytes c := by
  intro e he
  unfold symExact at he
  have hb : ∀ b l, edgeBytes F bytes v c nxt = b :: l → some b = headKey bytes c := by
    intro b l hbl
    unfold edgeBytes at hbl
    unfold headKey
    split at hbl
    · cases h : encode bytes c with
      | nil => simp [h] at hbl
      | cons x xs => simp [h] at hbl; simp [hbl.1]
    · simp [hbl]
  split at he
  · simp at he
  · rename_i b hbl
    split at he
    · simp at he
    · simp only [List.mem_singleton] at he; subst he; exact hb _ _ hbl
  · rename_i b l _ hbl
    simp only [List.mem_singleton] at he; subst he; exact hb _ _ hbl

/-- Looking a symbol `x` up in the exact edges built from a table, when `x` encodes to itself and no
other symbol's encoding starts with `x`: the entry for `x` decides, unless it was skipped as redundant
(then the wildcard edge is a non-transition, which gives the same answer). -/
theorem lookup_exactOf (F : Fsm) (bytes : Bool) (v : Variant) (q : Nat) (x : Sym)
    (hx : encode bytes x = [x]) (hother : ∀ c, c ≠ x → headKey bytes c ≠ some x) :
    ∀ (t : Tab), keysNodup t = true →
      (∀ nxt, t.lookup (some x) = some nxt →
          (exactOf F bytes v q t).lookup x = some (target F nxt) ∨
          ((exactOf F bytes v q t).lookup x = none ∧ target F nxt = none ∧ anyEdge F q = some none)) ∧
      (t.lookup (some x) = none → (exactOf F bytes v q t).lookup x = none) := by
  intro t
  induction t with
  | nil => intro _; simp [exactOf]
  | cons e t ih =>
    intro hnd
    obtain ⟨k, d⟩ := e
    have hnd' : keysNodup t = true := by
      simp only [keysNodup, Bool.and_eq_true] at hnd; exact hnd.2
    have hfresh : ∀ e' ∈ t, e'.1 ≠ k := by
      simp only [keysNodup, Bool.and_eq_true, Bool.not_eq_true', List.any_eq_false] at hnd
      intro e' he' heq
      have := hnd.1 e' he'
      simp [heq] at this
    obtain ⟨ih1, ih2⟩ := ih hnd'
    cases k with
    | none =>
      simp only [exactOf]
      rw [List.lookup_cons]
      have : (some x == (none : Option Sym)) = false := by simp
      simp only [this]
      exact ⟨ih1, ih2⟩
    | some c =>
      simp only [exactOf, List.lookup_append]
      rw [List.lookup_cons]
      by_cases hc : c = x
      · subst hc
        have hk : (some c == some c) = true := by simp
        simp only [hk]
        have hrest : (exactOf F bytes v q t).lookup c = none := by
          apply ih2
          exact lookup_none_of_not_key t (some c) hfresh
        have heb : edgeBytes F bytes v c d = [c] := by
          unfold edgeBytes; rw [hx]; split <;> rfl
        constructor
        · intro nxt hn
          simp only [Option.some.injEq] at hn; subst hn
          unfold symExact
          rw [heb]
          simp only
          split
          · rename_i hred
            right
            simp [hrest, hred.1, hred.2]
          · left
            simp
        · intro h; simp at h
      · have hk : (some x == some c) = false := by
          simp; exact fun h => hc h.symm
        simp only [hk]
        have hsym : (symExact F bytes v q c d).lookup x = none := by
          have hkeys := symExact_keys F bytes v q c d
          have hne := hother c hc
          generalize symExact F bytes v q c d = l at hkeys
          induction l with
          | nil => rfl
          | cons e l ihl =>
            obtain ⟨b, tg⟩ := e
            rw [List.lookup_cons]
            have : (x == b) = false := by
              have := hkeys (b, tg) (by simp)
              simp only at this
              simp only [beq_eq_false_iff_ne, ne_eq]
              intro hxb; subst hxb; exact hne this.symm
            simp only [this]
            exact ihl fun e he => hkeys e (List.mem_cons_of_mem _ he)
        simp only [hsym, Option.none_or]
        exact ⟨ih1, ih2⟩

/-- **one step of the node for `q` is one step of the fsm, cut at dead states** -/
theorem stepNode_origNode (F : Fsm) (h : F.WF) (bytes : Bool) (v : Variant) (q : Nat)
    (hq : F.inMap q = true) (x : Sym)
    (hx : encode bytes x = [x]) (hother : ∀ c, c ≠ x → headKey bytes c ≠ some x) :
    stepNode (origNode F bytes v q) x = target F (F.step q x) := by
  obtain ⟨l1, l2⟩ := lookup_exactOf F bytes v q x hx hother (F.tab q) (h.nodup q)
  obtain ⟨d0, hd0⟩ := h.hasAny q hq
  unfold stepNode origNode Fsm.step
  simp only
  cases hl : (F.tab q).lookup (some x) with
  | some nxt =>
    rcases l1 nxt hl with h1 | ⟨h1, h2, h3⟩
    · simp [h1]
    · simp [h1, h2, h3]
  | none =>
    have h1 := l2 hl
    simp only [h1, anyEdge, hd0, Option.map_some, Option.getD_some]

theorem encode_false (c : Sym) : encode false c = [c] := rfl

theorem headKey_false (x c : Sym) (h : c ≠ x) : headKey false c ≠ some x := by
  simp [headKey, encode]; exact h

/-! ### runs -/

/-- the fsm restricted to kept states: the longest prefix all of whose states are kept -/
def Fsm.liveGo (F : Fsm) : Nat → List Sym → List Sym × Nat
  | q, [] => ([], q)
  | q, c :: w =>
    if F.kept (F.step q c) then
      let r := Fsm.liveGo F (F.step q c) w
      (c :: r.1, r.2)
    else ([], q)

theorem Fsm.liveGo_nil (F : Fsm) (q : Nat) (w : List Sym) (h : (F.liveGo q w).1 = []) :
    (F.liveGo q w).2 = q := by
  cases w with
  | nil => rfl
  | cons c w =>
    simp only [Fsm.liveGo] at h ⊢
    split
    · rename_i hk; simp [hk] at h
    · rfl

theorem target_kept (F : Fsm) (q : Nat) (h : F.kept q = true) : target F q = some (.orig q) := by
  simp [target, h]

theorem target_not_kept (F : Fsm) (q : Nat) (h : F.kept q = false) : target F q = none := by
  simp [target, h]

theorem kept_inMap (F : Fsm) (q : Nat) (h : F.kept q = true) : F.inMap q = true := by
  simp only [Fsm.kept, Bool.and_eq_true] at h; exact h.1

/-- a node with the edges of `n` but another terminal flag steps like `n` -/
theorem stepNode_terminal (n : Node) (t : Bool) (c : Sym) :
    stepNode { n with terminal := t } c = stepNode n c := rfl

/-- the run of the graph without encoder from the node of a kept state -/
theorem walk_orig (F : Fsm) (h : F.WF) (v : Variant) (coll : List (Nat × Nat)) :
    ∀ (w : List Sym) (q : Nat) (n : Node), F.kept q = true →
      (∀ c, stepNode n c = stepNode (origNode F false v q) c) →
      (walk (nodeOfC F false v coll) n w).1 = (F.liveGo q w).1 ∧
      (walk (nodeOfC F false v coll) n w).2.1 =
        (if (F.liveGo q w).1 = [] then n else origNode F false v (F.liveGo q w).2) := by
  intro w
  induction w with
  | nil => intro q n _ _; simp [walk, Fsm.liveGo]
  | cons c w ih =>
    intro q n hq hn
    have hstep := stepNode_origNode F h false v q (kept_inMap F q hq) c (encode_false c)
      (fun c' hc' => headKey_false c c' hc')
    simp only [walk, Fsm.liveGo, hn c, hstep]
    by_cases hk : F.kept (F.step q c) = true
    · simp only [target_kept F _ hk, hk, if_true, nodeOfC]
      have := ih (F.step q c) (origNode F false v (F.step q c)) hk (fun _ => rfl)
      simp only [this.1, this.2, true_and, List.cons_ne_nil, if_false]
      split
      · rename_i hnil; rw [F.liveGo_nil _ _ hnil]
      · rfl
    · have hk' : F.kept (F.step q c) = false := by simpa using hk
      simp [target_not_kept F _ hk', hk']

/-! ### liveness: the local dead test against reachability of a final state -/

theorem Fsm.run_cons (F : Fsm) (q : Nat) (c : Sym) (w : List Sym) :
    F.run q (c :: w) = F.run (F.step q c) w := rfl

theorem Fsm.run_append (F : Fsm) (q : Nat) (a b : List Sym) :
    F.run q (a ++ b) = F.run (F.run q a) b := by
  simp [Fsm.run, List.foldl_append]

/-- a final state can be reached from `q` -/
def Fsm.Live (F : Fsm) (q : Nat) : Prop := ∃ v, F.final (F.run q v) = true

theorem Fsm.Live.of_step {F : Fsm} {q : Nat} {c : Sym} (h : F.Live (F.step q c)) : F.Live q := by
  obtain ⟨v, hv⟩ := h
  exact ⟨c :: v, hv⟩

theorem Fsm.Live.of_run {F : Fsm} {q : Nat} (a : List Sym) (h : F.Live (F.run q a)) : F.Live q := by
  obtain ⟨v, hv⟩ := h
  exact ⟨a ++ v, by rwa [F.run_append]⟩

/-- at most one state cannot reach a final state (true of a minimal automaton) -/
def Fsm.Reduced (F : Fsm) : Prop :=
  ∀ q q', F.inMap q = true → F.inMap q' = true → ¬ F.Live q → ¬ F.Live q' → q = q'

/-- the local dead test is exact: a state is dropped iff no final state can be reached from it -/
def Fsm.DeadExact (F : Fsm) : Prop :=
  ∀ q, F.inMap q = true → (F.dead q = true ↔ ¬ F.Live q)

theorem Fsm.step_of_loopback (F : Fsm) (q : Nat) (h : F.loopback q = true) (c : Sym) : F.step q c = q := by
  simp only [Fsm.loopback, List.all_eq_true, beq_iff_eq] at h
  unfold Fsm.step
  cases h1 : (F.tab q).lookup (some c) with
  | some d => exact h _ (mem_of_lookup _ _ _ h1)
  | none =>
    cases h2 : (F.tab q).lookup none with
    | some d => exact h _ (mem_of_lookup _ _ _ h2)
    | none => rfl

/-- a state that fails the local test cannot reach a final state -/
theorem Fsm.dead_not_live (F : Fsm) (q : Nat) (h : F.dead q = true) : ¬ F.Live q := by
  simp only [Fsm.dead, Bool.and_eq_true, Bool.not_eq_true'] at h
  obtain ⟨⟨hl, hf⟩, _⟩ := h
  rintro ⟨v, hv⟩
  have : ∀ v : List Sym, F.run q v = q := by
    intro v
    induction v with
    | nil => rfl
    | cons c v ih => rw [F.run_cons, F.step_of_loopback q hl]; exact ih
  rw [this v, hf] at hv
  exact Bool.false_ne_true hv

theorem exists_bound (cs : List Nat) : ∃ b : Nat, ∀ c ∈ cs, c < b := by
  induction cs with
  | nil => exact ⟨0, by simp⟩
  | cons x xs ih =>
    obtain ⟨b, hb⟩ := ih
    refine ⟨max b (x + 1), fun c hc => ?_⟩
    simp only [List.mem_cons] at hc
    rcases hc with rfl | hc
    · omega
    · have := hb c hc; omega

/-- a symbol that is no key of a table -/
theorem exists_fresh (t : Tab) : ∃ c : Nat, ∀ e ∈ t, e.1 ≠ some c := by
  obtain ⟨b, hb⟩ := exists_bound (t.filterMap (·.1))
  refine ⟨b, fun e he heq => ?_⟩
  have : b ∈ t.filterMap (·.1) := List.mem_filterMap.mpr ⟨e, he, heq⟩
  exact Nat.lt_irrefl _ (hb b this)

/-- every entry of a table is taken by some symbol -/
theorem Fsm.exists_sym_step (F : Fsm) (q : Nat) (hnd : keysNodup (F.tab q) = true)
    (e : Option Sym × Nat) (he : e ∈ F.tab q) : ∃ c, F.step q c = e.2 := by
  obtain ⟨k, d⟩ := e
  cases k with
  | some a =>
    refine ⟨a, ?_⟩
    simp [Fsm.step, lookup_of_mem _ _ _ hnd he]
  | none =>
    obtain ⟨c, hc⟩ := exists_fresh (F.tab q)
    refine ⟨c, ?_⟩
    simp [Fsm.step, lookup_none_of_not_key _ _ hc, lookup_of_mem _ _ _ hnd he]

theorem Fsm.live_of_entry (F : Fsm) (h : F.WF) (q : Nat) (e : Option Sym × Nat) (he : e ∈ F.tab q)
    (hl : F.Live e.2) : F.Live q := by
  obtain ⟨c, hc⟩ := F.exists_sym_step q (h.nodup q) e he
  rw [← hc] at hl
  exact hl.of_step

/-- **under reducedness the local dead test coincides with semantic deadness** -/
theorem Fsm.deadExact_of_reduced (F : Fsm) (h : F.WF) (hr : F.Reduced) (hi : F.Live F.init) :
    F.DeadExact := by
  intro q hq
  refine ⟨F.dead_not_live q, fun hnl => ?_⟩
  simp only [Fsm.dead, Bool.and_eq_true, Bool.not_eq_true', Fsm.loopback, List.all_eq_true, beq_iff_eq]
  refine ⟨⟨fun e he => ?_, ?_⟩, ?_⟩
  · exact hr _ _ (h.closed q e he) hq (fun hl => hnl (F.live_of_entry h q e he hl)) hnl
  · cases hf : F.final q with
    | false => rfl
    | true => exact absurd ⟨[], hf⟩ hnl
  · cases hb : (q == F.init) with
    | false => rfl
    | true =>
      have : q = F.init := by simpa using hb
      subst this; exact absurd hi hnl

theorem Fsm.inMap_tab_mem (F : Fsm) (q : Nat) (hq : F.inMap q = true) : (q, F.tab q) ∈ F.map := by
  unfold Fsm.inMap at hq
  unfold Fsm.tab
  cases hl : F.map.lookup q with
  | none => simp [hl] at hq
  | some t => simp only [Option.getD_some]; exact lookup_map_mem _ _ _ hl

theorem liveIter_sound (F : Fsm) (h : F.WF) : ∀ k q, q ∈ liveIter F k → F.Live q := by
  intro k
  induction k with
  | zero =>
    intro q hq
    simp only [liveIter, List.mem_filter] at hq
    exact ⟨[], hq.2⟩
  | succ k ih =>
    intro q hq
    simp only [liveIter, liveStep, List.mem_filter, Bool.or_eq_true, List.any_eq_true,
      List.contains_iff_mem] at hq
    rcases hq.2 with h1 | ⟨e, he, h2⟩
    · exact ih q h1
    · exact F.live_of_entry h q e he (ih _ h2)

/-- **the liveness certificate (decidable, evaluated for every tested fsm) makes the local test exact** -/
theorem Fsm.deadExact_of_cert (F : Fsm) (h : F.WF) (hc : F.certLive = true) : F.DeadExact := by
  intro q hq
  refine ⟨F.dead_not_live q, fun hnl => ?_⟩
  simp only [Fsm.certLive, List.all_eq_true, Bool.or_eq_true, List.contains_iff_mem] at hc
  rcases hc _ (F.inMap_tab_mem q hq) with h1 | h1
  · exact h1
  · exact absurd (liveIter_sound F h _ q h1) hnl

theorem Fsm.kept_iff_live (F : Fsm) (hd : F.DeadExact) (q : Nat) (hq : F.inMap q = true) :
    F.kept q = true ↔ F.Live q := by
  have := hd q hq
  simp only [Fsm.kept, hq, Bool.true_and, Bool.not_eq_true']
  constructor
  · intro h1
    apply Classical.byContradiction
    intro hnl
    rw [this.mpr hnl] at h1
    exact absurd h1 (by decide)
  · intro hl
    cases hdq : F.dead q with
    | false => rfl
    | true => exact absurd hl (this.mp hdq)

/-! ### the restricted run consumes the longest prefix from which a final state stays reachable -/

theorem Fsm.liveGo_prefix (F : Fsm) : ∀ (w : List Sym) (q : Nat),
    ∃ t, w = (F.liveGo q w).1 ++ t ∧ (F.liveGo q w).2 = F.run q (F.liveGo q w).1 := by
  intro w
  induction w with
  | nil => intro q; exact ⟨[], rfl, rfl⟩
  | cons c w ih =>
    intro q
    simp only [Fsm.liveGo]
    split
    · obtain ⟨t, ht1, ht2⟩ := ih (F.step q c)
      exact ⟨t, by simp only [List.cons_append]; rw [← ht1], by simp only [ht2]; rfl⟩
    · exact ⟨c :: w, rfl, rfl⟩

theorem Fsm.liveGo_live (F : Fsm) (h : F.WF) (hd : F.DeadExact) : ∀ (w : List Sym) (q : Nat),
    F.inMap q = true → F.Live q → F.Live (F.liveGo q w).2 ∧ F.inMap (F.liveGo q w).2 = true := by
  intro w
  induction w with
  | nil => intro q hq hl; exact ⟨hl, hq⟩
  | cons c w ih =>
    intro q hq hl
    simp only [Fsm.liveGo]
    split
    · rename_i hk
      have hin := F.step_inMap h q hq c
      exact ih _ hin ((F.kept_iff_live hd _ hin).mp hk)
    · exact ⟨hl, hq⟩

theorem Fsm.liveGo_longest (F : Fsm) (h : F.WF) (hd : F.DeadExact) : ∀ (w : List Sym) (q : Nat) (p t : List Sym),
    F.inMap q = true → w = p ++ t → F.Live (F.run q p) → p.length ≤ (F.liveGo q w).1.length := by
  intro w
  induction w with
  | nil =>
    intro q p t _ hw _
    have := List.append_eq_nil_iff.mp hw.symm
    simp [this.1]
  | cons c w ih =>
    intro q p t hq hw hl
    cases p with
    | nil => simp
    | cons d p' =>
      simp only [List.cons_append, List.cons.injEq] at hw
      obtain ⟨rfl, hw⟩ := hw
      rw [F.run_cons] at hl
      have hin := F.step_inMap h q hq c
      have hk : F.kept (F.step q c) = true := (F.kept_iff_live hd _ hin).mpr (hl.of_run p')
      simp only [Fsm.liveGo, hk, if_true, List.length_cons]
      have := ih (F.step q c) p' t hin hw hl
      omega

/-! ### chunks -/

theorem walk_append (M : StId → Option Node) :
    ∀ (a b : List Sym) (n : Node),
      walk M n (a ++ b) =
        match walk M n a with
        | (p, e, true) => (p, e, true)
        | (p, e, false) => ((p ++ (walk M e b).1), (walk M e b).2.1, (walk M e b).2.2) := by
  intro a
  induction a with
  | nil => intro b n; simp [walk]
  | cons c a ih =>
    intro b n
    simp only [List.cons_append, walk]
    cases hs : stepNode n c with
    | none => simp
    | some s =>
      simp only
      cases hm : M s with
      | none => simp
      | some n' =>
        simp only [ih b n']
        rcases hw : walk M n' a with ⟨p, e, st⟩
        cases st <;> simp

theorem walkChunks_flatten (M : StId → Option Node) :
    ∀ (chunks : List (List Sym)) (n : Node), (∀ ch ∈ chunks, ch ≠ []) →
      walkChunks M n chunks = ((walk M n chunks.flatten).1, (walk M n chunks.flatten).2.1) := by
  intro chunks
  induction chunks with
  | nil => intro n _; simp [walkChunks, walk]
  | cons ch rest ih =>
    intro n hne
    have hch : ch.isEmpty = false := by
      have := hne ch (by simp)
      cases ch <;> simp_all
    simp only [walkChunks, hch, List.flatten_cons, walk_append]
    rcases hw : walk M n ch with ⟨p, e, st⟩
    cases st with
    | true => simp
    | false =>
      simp only [Bool.false_eq_true, if_false]
      rw [ih e (fun c hc => hne c (List.mem_cons_of_mem _ hc))]

/-! ### UTF-8 chains (the repaired code) -/

theorem utf8_single (x : Nat) (h : x < 128) : utf8 x = [x] := by simp [utf8, h]

theorem utf8_cases (x : Nat) (h : 128 ≤ x) :
    (∃ b1 b2, utf8 x = [b1, b2] ∧ 128 ≤ b1) ∨ (∃ b1 b2 b3, utf8 x = [b1, b2, b3] ∧ 128 ≤ b1) ∨
    (∃ b1 b2 b3 b4, utf8 x = [b1, b2, b3, b4] ∧ 128 ≤ b1) := by
  unfold utf8
  have h0 : ¬ x < 128 := by omega
  simp only [h0, if_false]
  split
  · left; exact ⟨_, _, rfl, by omega⟩
  · split
    · right; left; exact ⟨_, _, _, rfl, by omega⟩
    · right; right; exact ⟨_, _, _, _, rfl, by omega⟩

theorem encode_true_single (x : Nat) (h : x < 128) : encode true x = [x] := by
  simp [encode, utf8_single x h]

theorem headKey_true_ne (x c : Nat) (hx : x < 128) (hc : c ≠ x) : headKey true c ≠ some x := by
  unfold headKey encode
  simp only [if_true]
  by_cases h : c < 128
  · simp [utf8_single c h]; exact hc
  · have key : ∀ b1 : Nat, 128 ≤ b1 → b1 ≠ x := fun b1 hb => by omega
    rcases utf8_cases c (by omega) with ⟨b1, b2, he, hb⟩ | ⟨b1, b2, b3, he, hb⟩ | ⟨b1, b2, b3, b4, he, hb⟩
    · simp [he]; exact key b1 hb
    · simp [he]; exact key b1 hb
    · simp [he]; exact key b1 hb

/-- every state's table has an entry for `x` (the alphabet names `x`) -/
def Fsm.named (F : Fsm) (x : Sym) : Bool := F.map.all fun e => (e.2.lookup (some x)).isSome

/-- hypothesis of the byte-machine clause: every character is named by the alphabet or is one byte -/
def Utf8Dom (F : Fsm) (w : List Sym) : Prop := ∀ x ∈ w, x < 128 ∨ F.named x = true

/-- in a machine that is not refused, a kept state with an entry for a multi-byte symbol has exactly
that entry and the anything-else entry -/
theorem tab_shape (F : Fsm) (h : F.WF) (hnr : refused F true = false) (q : Nat) (hq : F.kept q = true)
    (x nxt : Nat) (hx : 128 ≤ x) (hm : (some x, nxt) ∈ F.tab q) :
    ∃ d0, F.tab q = [(none, d0), (some x, nxt)] ∨ F.tab q = [(some x, nxt), (none, d0)] := by
  have hin := kept_inMap F q hq
  have hmem := F.inMap_tab_mem q hin
  simp only [refused, List.any_eq_false, Bool.and_eq_true, not_and, Bool.not_eq_true] at hnr
  have htr := hnr _ hmem hq
  simp only [tabRefused, List.any_eq_false] at htr
  have h1 := htr _ hm
  have hlen : (encode true x).length > 1 := by
    rcases utf8_cases x hx with ⟨b1, b2, he, _⟩ | ⟨b1, b2, b3, he, _⟩ | ⟨b1, b2, b3, b4, he, _⟩ <;>
      simp [encode, he]
  simp only [hlen, decide_true, Bool.true_and] at h1
  obtain ⟨d0, hd0⟩ := h.hasAny q hin
  have hm0 := mem_of_lookup _ _ _ hd0
  generalize F.tab q = t at *
  match t, h1, hm, hm0 with
  | [a], _, hm, hm0 =>
    simp only [List.mem_singleton] at hm hm0
    rw [← hm] at hm0; simp at hm0
  | [a, b], _, hm, hm0 =>
    simp only [List.mem_cons, List.not_mem_nil, or_false] at hm hm0
    refine ⟨d0, ?_⟩
    rcases hm with rfl | rfl <;> rcases hm0 with h0 | h0
    · simp at h0
    · right; rw [← h0]
    · left; rw [← h0]
    · simp at h0
  | [], h1, _, _ => simp at h1
  | _ :: _ :: _ :: _, h1, _, _ => simp at h1

theorem named_lookup (F : Fsm) (q : Nat) (hq : F.inMap q = true) (x : Sym) (hn : F.named x = true) :
    ∃ nxt, (F.tab q).lookup (some x) = some nxt := by
  simp only [Fsm.named, List.all_eq_true] at hn
  have := hn _ (F.inMap_tab_mem q hq)
  exact Option.isSome_iff_exists.mp this

/-- **one character of the text, in the byte machine**: its UTF-8 bytes are consumed and the node of the
fsm's next state is reached when that state is kept; otherwise nothing is consumed -/
theorem walk_utf8_char (F : Fsm) (h : F.WF) (hnr : refused F true = false) (q : Nat) (hq : F.kept q = true)
    (n : Node) (hn : ∀ c, stepNode n c = stepNode (origNode F true .fixed q) c)
    (x : Nat) (hx : x < 128 ∨ F.named x = true) (rest : List Sym) :
    walk (nodeOfC F true .fixed []) n (utf8 x ++ rest) =
      if F.kept (F.step q x) = true then
        (utf8 x ++ (walk (nodeOfC F true .fixed []) (origNode F true .fixed (F.step q x)) rest).1,
         (walk (nodeOfC F true .fixed []) (origNode F true .fixed (F.step q x)) rest).2.1,
         (walk (nodeOfC F true .fixed []) (origNode F true .fixed (F.step q x)) rest).2.2)
      else ([], n, true) := by
  have hin := kept_inMap F q hq
  by_cases hsmall : x < 128
  · -- a single byte: as without encoder
    have hstep := stepNode_origNode F h true .fixed q hin x (encode_true_single x hsmall)
      (fun c hc => headKey_true_ne x c hsmall hc)
    rw [utf8_single x hsmall]
    simp only [List.singleton_append, walk, hn x, hstep]
    by_cases hk : F.kept (F.step q x) = true
    · simp [target_kept F _ hk, hk, nodeOfC]
    · have hk' : F.kept (F.step q x) = false := by simpa using hk
      simp [target_not_kept F _ hk', hk']
  · -- several bytes: the state has just this entry and the anything-else entry
    have hbig : 128 ≤ x := by omega
    have hnamed : F.named x = true := by rcases hx with h1 | h1; exact absurd h1 hsmall; exact h1
    obtain ⟨nxt, hl⟩ := named_lookup F q hin x hnamed
    have hm := mem_of_lookup _ _ _ hl
    obtain ⟨d0, hshape⟩ := tab_shape F h hnr q hq x nxt hbig hm
    have hstepq : F.step q x = nxt := by simp [Fsm.step, hl]
    have hexact : (origNode F true .fixed q).exact = symExact F true .fixed q x nxt := by
      rcases hshape with hs | hs <;> simp [origNode, hs, exactOf]
    have hany : (origNode F true .fixed q).any = anyEdge F q := rfl
    have hchains : chainsOf F true .fixed [] q (F.tab q) = symChain F true .fixed [] q x nxt := by
      rcases hshape with hs | hs <;> simp [hs, chainsOf]
    rw [hstepq]
    by_cases hk : F.kept nxt = true
    · simp only [hk, if_true]
      have heb : edgeBytes F true .fixed x nxt = utf8 x := by
        simp [edgeBytes, hk, encode]
      have htn := target_kept F nxt hk
      have hM0 : nodeOfC F true .fixed [] (.orig nxt) = some (origNode F true .fixed nxt) := by
        simp [nodeOfC, hk]
      rcases utf8_cases x hbig with ⟨b1, b2, he, _⟩ | ⟨b1, b2, b3, he, _⟩ | ⟨b1, b2, b3, b4, he, _⟩
      · have hsx : symExact F true .fixed q x nxt = [(b1, some (.chain q 0))] := by
          simp [symExact, heb, he]
        have hM1 : nodeOfC F true .fixed [] (.chain q 0) =
            some { terminal := false, any := none, exact := [(b2, some (.orig nxt))] } := by
          simp [nodeOfC, hq, hchains, symChain, heb, he, chainNodes, lookupId, htn]
        rw [he]
        simp only [List.cons_append, List.nil_append, walk, hn]
        simp [stepNode, hexact, hsx, hM1, hM0]
      · have hsx : symExact F true .fixed q x nxt = [(b1, some (.chain q 0))] := by
          simp [symExact, heb, he]
        have hM1 : nodeOfC F true .fixed [] (.chain q 0) =
            some { terminal := false, any := none, exact := [(b2, some (.chain q 1))] } := by
          simp [nodeOfC, hq, hchains, symChain, heb, he, chainNodes, lookupId]
        have hM2 : nodeOfC F true .fixed [] (.chain q 1) =
            some { terminal := false, any := none, exact := [(b3, some (.orig nxt))] } := by
          simp [nodeOfC, hq, hchains, symChain, heb, he, chainNodes, lookupId, htn]
        rw [he]
        simp only [List.cons_append, List.nil_append, walk, hn]
        simp [stepNode, hexact, hsx, hM1, hM2, hM0]
      · have hsx : symExact F true .fixed q x nxt = [(b1, some (.chain q 0))] := by
          simp [symExact, heb, he]
        have hM1 : nodeOfC F true .fixed [] (.chain q 0) =
            some { terminal := false, any := none, exact := [(b2, some (.chain q 1))] } := by
          simp [nodeOfC, hq, hchains, symChain, heb, he, chainNodes, lookupId]
        have hM2 : nodeOfC F true .fixed [] (.chain q 1) =
            some { terminal := false, any := none, exact := [(b3, some (.chain q 2))] } := by
          simp [nodeOfC, hq, hchains, symChain, heb, he, chainNodes, lookupId]
        have hM3 : nodeOfC F true .fixed [] (.chain q 2) =
            some { terminal := false, any := none, exact := [(b4, some (.orig nxt))] } := by
          simp [nodeOfC, hq, hchains, symChain, heb, he, chainNodes, lookupId, htn]
        rw [he]
        simp only [List.cons_append, List.nil_append, walk, hn]
        simp [stepNode, hexact, hsx, hM1, hM2, hM3, hM0]
    · have hk' : F.kept nxt = false := by simpa using hk
      simp only [hk', Bool.false_eq_true, if_false]
      have htn := target_not_kept F nxt hk'
      obtain ⟨b1, l, he⟩ : ∃ b1 l, utf8 x = b1 :: l := by
        rcases utf8_cases x hbig with ⟨b1, b2, he, _⟩ | ⟨b1, b2, b3, he, _⟩ | ⟨b1, b2, b3, b4, he, _⟩ <;>
          exact ⟨_, _, he⟩
      have heb : edgeBytes F true .fixed x nxt = [b1] := by
        simp [edgeBytes, hk', encode, he, Variant.fixed]
      rw [he]
      simp only [List.cons_append, walk, hn b1]
      have : stepNode (origNode F true .fixed q) b1 = none := by
        unfold stepNode
        rw [hexact, hany]
        unfold symExact
        rw [heb]
        simp only [htn, true_and]
        by_cases hred : anyEdge F q = some none
        · simp [hred]
        · simp [hred]
      simp [this]

theorem utf8_ne_nil (x : Nat) : utf8 x ≠ [] := by
  unfold utf8; split; simp; split; simp; split <;> simp

/-- **the byte machine on the UTF-8 encoding of a text follows the fsm character by character** -/
theorem walk_utf8 (F : Fsm) (h : F.WF) (hnr : refused F true = false) :
    ∀ (w : List Sym) (q : Nat) (n : Node), F.kept q = true →
      (∀ c, stepNode n c = stepNode (origNode F true .fixed q) c) → Utf8Dom F w →
      (walk (nodeOfC F true .fixed []) n (w.flatMap utf8)).1 = (F.liveGo q w).1.flatMap utf8 ∧
      (walk (nodeOfC F true .fixed []) n (w.flatMap utf8)).2.1 =
        (if (F.liveGo q w).1 = [] then n else origNode F true .fixed (F.liveGo q w).2) := by
  intro w
  induction w with
  | nil => intro q n _ _ _; simp [walk, Fsm.liveGo]
  | cons x w ih =>
    intro q n hq hn hdom
    have hx := hdom x (by simp)
    have hdom' : Utf8Dom F w := fun y hy => hdom y (List.mem_cons_of_mem _ hy)
    rw [List.flatMap_cons, walk_utf8_char F h hnr q hq n hn x hx]
    simp only [Fsm.liveGo]
    by_cases hk : F.kept (F.step q x) = true
    · simp only [hk, if_true, List.flatMap_cons, List.cons_ne_nil, if_false]
      have := ih (F.step q x) (origNode F true .fixed (F.step q x)) hk (fun _ => rfl) hdom'
      rw [this.1, this.2]
      refine ⟨rfl, ?_⟩
      split
      · rename_i hnil; rw [F.liveGo_nil _ _ hnil]
      · rfl
    · have hk' : F.kept (F.step q x) = false := by simpa using hk
      simp [hk']

/-! ### the results -/

theorem Fsm.kept_init (F : Fsm) (h : F.WF) : F.kept F.init = true := by
  simp [Fsm.kept, h.init, Fsm.dead]

theorem refused_false (F : Fsm) : refused F false = false := by
  simp only [refused, List.any_eq_false, Bool.and_eq_true, not_and, Bool.not_eq_true]
  intro e _ _
  simp only [tabRefused, List.any_eq_false]
  intro x _
  cases x.1 with
  | none => simp
  | some c => simp [encode]

/-- outcome of a run that consumed `p` and stopped in a state with final flag `fin` -/
def outcomeOf (p : List Sym) (fin : Bool) : Outcome := if !p.isEmpty && fin then .ok else .nonTerminal

theorem outcome_of_end (F : Fsm) (bytes : Bool) (p : List Sym) (e : Nat) :
    (if (if p = [] then initCopy F bytes .fixed else origNode F bytes .fixed e).terminal = true
      then Outcome.ok else Outcome.nonTerminal) = outcomeOf p (F.final e) := by
  unfold outcomeOf
  cases p with
  | nil => simp [initCopy]
  | cons c p => simp [origNode]

theorem rxRun_char (F : Fsm) (h : F.WF) (w : List Sym) :
    rxRun F false .fixed w =
      ⟨outcomeOf (F.liveGo F.init w).1 (F.final (F.liveGo F.init w).2), (F.liveGo F.init w).1⟩ := by
  have hk := F.kept_init h
  have := walk_orig F h .fixed (collisions F false .fixed) w F.init (initCopy F false .fixed) hk (fun _ => rfl)
  unfold rxRun
  simp only [refused_false, Bool.false_eq_true, if_false, initNode, hk, if_true]
  rw [this.1, this.2, outcome_of_end]

theorem collisions_fixed (F : Fsm) (bytes : Bool) : collisions F bytes .fixed = [] := rfl

theorem rxRun_bytes (F : Fsm) (h : F.WF) (hnr : refused F true = false) (w : List Sym) (hdom : Utf8Dom F w) :
    rxRun F true .fixed (w.flatMap utf8) =
      ⟨outcomeOf (F.liveGo F.init w).1 (F.final (F.liveGo F.init w).2),
       (F.liveGo F.init w).1.flatMap utf8⟩ := by
  have hk := F.kept_init h
  have this : (walk (nodeOfC F true .fixed (collisions F true .fixed)) (initCopy F true .fixed)
        (w.flatMap utf8)).1 = (F.liveGo F.init w).1.flatMap utf8 ∧
      (walk (nodeOfC F true .fixed (collisions F true .fixed)) (initCopy F true .fixed)
        (w.flatMap utf8)).2.1 =
        (if (F.liveGo F.init w).1 = [] then initCopy F true .fixed
          else origNode F true .fixed (F.liveGo F.init w).2) :=
    walk_utf8 F h hnr w F.init (initCopy F true .fixed) hk (fun _ => rfl) hdom
  unfold rxRun
  simp only [hnr, Bool.false_eq_true, if_false, initNode, hk, if_true]
  rw [this.1, this.2, outcome_of_end]

/-- chunking does not matter (no chunk empty) -/
theorem rxRunChunks_eq (F : Fsm) (bytes : Bool) (v : Variant) (chunks : List (List Sym))
    (hne : ∀ ch ∈ chunks, ch ≠ []) : rxRunChunks F bytes v chunks = rxRun F bytes v chunks.flatten := by
  unfold rxRunChunks rxRun
  split
  · rfl
  · split
    · rfl
    · simp only [walkChunks_flatten _ chunks _ hne]

end Cpppo.Regex
