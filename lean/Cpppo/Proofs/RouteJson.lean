import Cpppo.Proofs.Route
namespace Cpppo.Route

/-- a character that ends a JSON number without making it a float -/
def numEnd (c : Nat) : Prop := isDigit c = false ∧ c ≠ 46 ∧ c ≠ 101 ∧ c ≠ 69

theorem pNumTail_end (neg : Bool) (ds : Text) (c : Nat) (rest : Text) (h : numEnd c) :
    pNumTail neg ds (c :: rest)
      = (.int (if neg then - Int.ofNat (decVal ds) else Int.ofNat (decVal ds)), c :: rest) := by
  obtain ⟨_, h46, h101, h69⟩ := h
  have a : (c == 46) = false := by simpa using h46
  have b : (c == 101) = false := by simpa using h101
  have d : (c == 69) = false := by simpa using h69
  have hf : pFrac (c :: rest) = (false, c :: rest) := by
    unfold pFrac
    split
    · rename_i r heq; simp at heq; exact absurd heq.1 h46
    · rfl
  simp [pNumTail, hf, pExp, b, d]

theorem pUnsigned_renderNat (neg : Bool) (n : Nat) (c : Nat) (rest : Text) (h : numEnd c) :
    pUnsigned neg (renderNat n ++ c :: rest)
      = some (.int (if neg then - Int.ofNat n else Int.ofNat n), c :: rest) := by
  by_cases hn : n = 0
  · subst hn
    have : renderNat 0 = [48] := rfl
    rw [this]
    simp [pUnsigned, pNumTail_end neg [48] c rest h, decVal]
  · obtain ⟨d, ds, he, h1, h2⟩ := natDigits_head (n + 1) n (by omega) (by omega)
    have hdig := renderNat_digits n
    have hv := decVal_renderNat n
    unfold renderNat at hdig hv ⊢
    have htd : takeDigits (natDigits (n + 1) n ++ c :: rest) = (natDigits (n + 1) n, c :: rest) :=
      takeDigits_append _ c rest hdig h.1
    rw [he] at htd hv ⊢
    simp only [List.cons_append] at htd ⊢
    have h48 : (d == 48) = false := by simp; omega
    have h49 : (decide (49 ≤ d) && decide (d ≤ 57)) = true := by simp; omega
    simp [pUnsigned, h48, h49, htd, pNumTail_end neg (d :: ds) c rest h, hv]

theorem skipWs_nonws {c : Nat} {cs : Text} (h : isWs c = false) : skipWs (c :: cs) = c :: cs := by
  simp [skipWs, h]

/-- a JSON integer followed by a character that ends it is scanned as that integer -/
theorem pValue_int (f : Nat) (n : Int) (c : Nat) (rest : Text) (h : numEnd c) :
    pValue (f + 1) (renderInt n ++ c :: rest) = some (.int n, c :: rest) := by
  cases n with
  | ofNat n =>
    obtain ⟨d, ds, he, hd⟩ := renderNat_head n
    have hd' := isDigit_iff.mp hd
    have hnum := pUnsigned_renderNat false n c rest h
    simp only [renderInt]
    rw [he] at hnum ⊢
    simp only [List.cons_append] at hnum ⊢
    have h34 : (d == 34) = false := by simp; omega
    have h91 : (d == 91) = false := by simp; omega
    have h123 : (d == 123) = false := by simp; omega
    have h45 : (d == 45) = false := by simp; omega
    rw [pValue, skipWs_digit hd]
    simp [h34, h91, h123, pScalar, pLiteral_digit hd, pNumber, h45, hnum]
  | negSucc n =>
    obtain ⟨d, ds, he, hd⟩ := renderNat_head (n + 1)
    have hd' := isDigit_iff.mp hd
    have hnum := pUnsigned_renderNat true (n + 1) c rest h
    have hlit : pLiteral (45 :: (renderNat (n + 1) ++ c :: rest)) = none := by
      rw [he]
      unfold pLiteral
      rw [startsWith_head_ne (by omega), startsWith_head_ne (by omega), startsWith_head_ne (by omega),
        startsWith_head_ne (by omega), startsWith_head_ne (by omega)]
      have : startsWith [45, 73, 110, 102, 105, 110, 105, 116, 121] (45 :: (d :: ds ++ c :: rest)) = none := by
        have h73 : (73 == d) = false := by simp; omega
        simp [startsWith, h73]
      rw [this]
    simp only [renderInt, List.cons_append]
    rw [pValue, skipWs_nonws (by simp [isWs])]
    simp [pScalar, hlit, pNumber, hnum]
    rfl

/-- a string body without quotes, backslashes and control characters, up to its closing quote -/
theorem pString_lit : ∀ (s rest : Text), (∀ x ∈ s, 32 ≤ x ∧ x ≠ 34 ∧ x ≠ 92) →
    pString (s ++ 34 :: rest) = some (s, rest)
  | [], rest, _ => by simp [pString]
  | x :: xs, rest, h => by
    obtain ⟨h1, h2, h3⟩ := h x (by simp)
    have ih := pString_lit xs rest (fun y hy => h y (by simp [hy]))
    have a : (x == 34) = false := by simpa using h2
    have b : (x == 92) = false := by simpa using h3
    have c : ¬ x < 32 := by omega
    simp [pString, a, b, c, ih]


theorem addr_chars {t : Text} (h : ipv4Ok t = true) : ∀ x ∈ t, 32 ≤ x ∧ x ≠ 34 ∧ x ≠ 92 := by
  intro x hx
  rcases (ipv4Ok_shape h).1 x hx with h | h
  · have := isDigit_iff.mp h; omega
  · omega

theorem numEnd_44 : numEnd 44 := by simp [numEnd, isDigit]
theorem numEnd_125 : numEnd 125 := by simp [numEnd, isDigit]
theorem numEnd_93 : numEnd 93 := by simp [numEnd, isDigit]

theorem pValue_link (f : Nat) (l : Link) (hl : l.WF) (rest : Text) :
    pValue (f + 1) (renderLinkJson l ++ 125 :: rest) = some (linkJV l, 125 :: rest) := by
  cases l with
  | num n => exact pValue_int f n 125 rest numEnd_125
  | addr t =>
    have hs := pString_lit t (125 :: rest) (addr_chars hl)
    simp only [renderLinkJson, List.cons_append, List.append_assoc, List.nil_append]
    rw [pValue, skipWs_nonws (by simp [isWs])]
    simp [hs, linkJV]

theorem kPort_chars : ∀ x ∈ kPort, 32 ≤ x ∧ x ≠ 34 ∧ x ≠ 92 := by decide
theorem kLink_chars : ∀ x ∈ kLink, 32 ≤ x ∧ x ≠ 34 ∧ x ≠ 92 := by decide

/-- `{"port":p,"link":l}` is scanned as the dict `port_link` would return -/
theorem pValue_segDict (f : Nat) (p : Int) (l : Link) (hl : l.WF) (rest : Text) :
    pValue (f + 4) (renderSegDict (.pl p l) ++ rest) = some (segJV (.pl p l), rest) := by
  have shape : renderSegDict (.pl p l) ++ rest
      = 123 :: 34 :: (kPort ++ 34 :: 58 :: (renderInt p ++ 44 :: 34 :: (kLink ++ 34 :: 58 ::
          (renderLinkJson l ++ 125 :: rest)))) := by
    simp [renderSegDict, List.append_assoc]
  -- the second member, then the closing brace
  have hm2 : pMembers (f + 2) (34 :: (kLink ++ 34 :: 58 :: (renderLinkJson l ++ 125 :: rest)))
      = some (.dict [(kLink, linkJV l)], rest) := by
    rw [pMembers, skipWs_nonws (by simp [isWs])]
    simp [pString_lit kLink _ kLink_chars, skipWs_nonws (show isWs 58 = false by simp [isWs]),
      pValue_link f l hl rest, skipWs_nonws (show isWs 125 = false by simp [isWs])]
  -- the first member, a comma, the rest
  have hm1 : pMembers (f + 3) (34 :: (kPort ++ 34 :: 58 :: (renderInt p ++ 44 :: 34 :: (kLink ++ 34 :: 58 ::
          (renderLinkJson l ++ 125 :: rest)))))
      = some (.dict [(kPort, .int p), (kLink, linkJV l)], rest) := by
    rw [pMembers, skipWs_nonws (by simp [isWs])]
    simp [pString_lit kPort _ kPort_chars, skipWs_nonws (show isWs 58 = false by simp [isWs]),
      pValue_int (f + 1) p 44 _ numEnd_44, skipWs_nonws (show isWs 44 = false by simp [isWs]), hm2]
  rw [shape, pValue, skipWs_nonws (by simp [isWs])]
  simp [skipWs_nonws (show isWs 34 = false by simp [isWs]), hm1, segJV]


theorem renderSegDict_head (p : Int) (l : Link) : ∃ t, renderSegDict (.pl p l) = 123 :: t :=
  ⟨_, by simp [renderSegDict]; rfl⟩

theorem pElems_dicts : ∀ (segs : List Seg) (f : Nat) (rest : Text), segs ≠ [] → (∀ s ∈ segs, s.WF) →
    segs.length + 4 ≤ f →
    pElems f (joinWith 44 (segs.map renderSegDict) ++ 93 :: rest) = some (.list (segs.map segJV), rest)
  | [], _, _, h, _, _ => absurd rfl h
  | [s], f, rest, _, hwf, hf => by
    have hs := hwf s (by simp)
    cases s with
    | other k v => exact absurd hs (by simp [Seg.WF])
    | pl p l =>
      obtain ⟨g, rfl⟩ : ∃ g, f = g + 5 := ⟨f - 5, by simp at hf; omega⟩
      simp only [List.map_cons, List.map_nil, joinWith]
      rw [pElems, pValue_segDict g p l hs.2]
      simp [skipWs_nonws (show isWs 93 = false by simp [isWs])]
  | s :: t :: ts, f, rest, _, hwf, hf => by
    have hs := hwf s (by simp)
    have ih := fun g hg => pElems_dicts (t :: ts) g rest (by simp) (fun x hx => hwf x (by simp [hx])) hg
    cases s with
    | other k v => exact absurd hs (by simp [Seg.WF])
    | pl p l =>
      obtain ⟨g, rfl⟩ : ∃ g, f = g + 5 := ⟨f - 5, by simp at hf; omega⟩
      simp only [List.map_cons, joinWith, List.append_assoc, List.cons_append]
      rw [pElems, pValue_segDict g p l hs.2]
      have := ih (g + 4) (by simp at hf ⊢; omega)
      simp only [List.map_cons] at this
      simp [skipWs_nonws (show isWs 44 = false by simp [isWs]), this]

theorem length_joinWith_ge (sep : Nat) : ∀ elems : List Text, (∀ e ∈ elems, 1 ≤ e.length) →
    elems.length ≤ (joinWith sep elems).length
  | [], _ => by simp [joinWith]
  | [p], h => by simpa [joinWith] using h p (by simp)
  | p :: q :: ps, h => by
    have ih := length_joinWith_ge sep (q :: ps) (fun e he => h e (by simp [he]))
    have hp := h p (by simp)
    simp only [joinWith, List.length_append, List.length_cons] at ih ⊢
    omega

/-- `json.loads('[{"port":p,"link":l},…]')` is the list of dicts `port_link` would return -/
theorem jsonLoads_dicts (segs : List Seg) (hne : segs ≠ []) (hwf : ∀ s ∈ segs, s.WF) :
    jsonLoads (renderJsonList (segs.map renderSegDict)) = some (.list (segs.map segJV)) := by
  have hlen : segs.length ≤ (joinWith 44 (segs.map renderSegDict)).length := by
    have := length_joinWith_ge 44 (segs.map renderSegDict) (by
      intro e he
      obtain ⟨s, hs, rfl⟩ := List.mem_map.mp he
      have hw := hwf s hs
      cases s with
      | other k v => exact absurd hw (by simp [Seg.WF])
      | pl p l => obtain ⟨t, ht⟩ := renderSegDict_head p l; rw [ht]; simp)
    simpa using this
  -- the first element starts with '{', so the array is not empty
  obtain ⟨t, ht⟩ : ∃ t, joinWith 44 (segs.map renderSegDict) = 123 :: t := by
    match segs, hne with
    | s :: rest, _ =>
      have hw := hwf s (by simp)
      cases s with
      | other k v => exact absurd hw (by simp [Seg.WF])
      | pl p l =>
        obtain ⟨t, ht⟩ := renderSegDict_head p l
        cases rest with
        | nil => exact ⟨t, by simp [joinWith, ht]⟩
        | cons r rs => exact ⟨_, by simp [joinWith, ht]; rfl⟩
  have hel := pElems_dicts segs (2 * (joinWith 44 (segs.map renderSegDict) ++ [93]).length + 3) [] hne hwf
    (by simp; omega)
  unfold jsonLoads renderJsonList
  simp only [List.cons_append, List.length_cons]
  have hfuel : 2 * ((joinWith 44 (segs.map renderSegDict) ++ [93]).length + 1) + 2
      = (2 * (joinWith 44 (segs.map renderSegDict) ++ [93]).length + 3) + 1 := by omega
  rw [hfuel, pValue, skipWs_nonws (by simp [isWs])]
  rw [ht] at hel ⊢
  simp only [List.cons_append] at hel ⊢
  have hw : skipWs (123 :: (t ++ [93])) = 123 :: (t ++ [93]) := skipWs_nonws (by simp [isWs])
  have h1 : ((91 : Nat) == 34) = false := by decide
  have h2 : ((91 : Nat) == 91) = true := by decide
  have h3 : ((123 : Nat) == 93) = false := by decide
  simp only [h1, h2, h3, hw, hel, Bool.false_eq_true, if_false, if_true]
  simp [skipWs]

/-- the list-of-dicts spelling parses to the segments it spells -/
theorem parseRoutePath_dicts (segs : List Seg) (hne : segs ≠ []) (hwf : ∀ s ∈ segs, s.WF) :
    parseRoutePath (renderJsonList (segs.map renderSegDict)) = some segs := by
  have hmap : (segs.map segJV).isEmpty = false := by
    cases segs with
    | nil => exact absurd rfl hne
    | cons a b => rfl
  simp [parseRoutePath, parseRoute, jsonLoads_dicts segs hne hwf, finish, hmap, stage2_segs segs hwf]


/-- a bare `{"port":p,"link":l}` parses to that single segment -/
theorem parseRoutePath_dict1 (s : Seg) (hs : s.WF) : parseRoutePath (renderSegDict s) = some [s] := by
  cases s with
  | other k v => exact absurd hs (by simp [Seg.WF])
  | pl p l =>
    have hv := pValue_segDict (2 * (renderSegDict (.pl p l)).length - 2) p l hs.2 []
    obtain ⟨t, ht⟩ := renderSegDict_head p l
    have hf : 2 * (renderSegDict (.pl p l)).length - 2 + 4 = 2 * (renderSegDict (.pl p l)).length + 2 := by
      rw [ht]; simp; omega
    rw [hf, List.append_nil] at hv
    have h2 := stage2_segs [.pl p l] (by simpa using hs)
    simp only [List.map_cons, List.map_nil] at h2
    simp [parseRoutePath, parseRoute, jsonLoads, hv, skipWs, segJV, finish] at h2 ⊢
    simp [h2]

/-! ### the list-of-strings spelling `["p/l", …]` -/

/-- the text between the quotes -/
def segText : Seg → Text
  | .pl p l => renderInt p ++ 47 :: renderLink l
  | .other _ _ => []

theorem renderInt_chars (n : Int) : ∀ x ∈ renderInt n, isDigit x = true ∨ x = 45 := by
  intro x hx
  cases n with
  | ofNat n => exact Or.inl (renderNat_digits n x hx)
  | negSucc n =>
    simp [renderInt] at hx
    rcases hx with rfl | hx
    · exact Or.inr rfl
    · exact Or.inl (renderNat_digits _ x hx)

theorem renderLink_chars (l : Link) (h : l.WF) : ∀ x ∈ renderLink l, isDigit x = true ∨ x = 45 ∨ x = 46 := by
  intro x hx
  cases l with
  | num n => rcases renderInt_chars n x hx with h | h <;> simp [h]
  | addr t => rcases (ipv4Ok_shape h).1 x hx with h | h <;> simp [h]

theorem segText_chars (p : Int) (l : Link) (hl : l.WF) : ∀ x ∈ segText (.pl p l), 32 ≤ x ∧ x ≠ 34 ∧ x ≠ 92 := by
  intro x hx
  simp only [segText, List.mem_append, List.mem_cons] at hx
  rcases hx with hx | rfl | hx
  · rcases renderInt_chars p x hx with h | h
    · have := isDigit_iff.mp h; omega
    · omega
  · omega
  · rcases renderLink_chars l hl x hx with h | h | h
    · have := isDigit_iff.mp h; omega
    · omega
    · omega

theorem splitFirst_append (sep : Nat) : ∀ (a b : Text), sep ∉ a → splitFirst sep (a ++ sep :: b) = some (a, b)
  | [], b, _ => by simp [splitFirst]
  | c :: cs, b, h => by
    have hc : (c == sep) = false := by
      simp at h; simp; exact fun e => h.1 e.symm
    have ih := splitFirst_append sep cs b (fun hm => h (by simp [hm]))
    simp [splitFirst, hc, ih]

theorem portLink_segText (p : Int) (l : Link) (hp : 0 < p) (hl : l.WF) :
    portLink (.str (segText (.pl p l))) = some (.pl p l) := by
  have h1 : strip (renderInt p) = renderInt p := stripBy_id fun x hx => by
    rcases renderInt_chars p x hx with h | h
    · exact isSpace_of_digit h
    · subst h; simp [isSpace]
  have h2 : strip (renderLink l) = renderLink l := stripBy_id fun x hx => by
    rcases renderLink_chars l hl x hx with h | h | h
    · exact isSpace_of_digit h
    · subst h; simp [isSpace]
    · subst h; simp [isSpace]
  simp [portLink, segText, splitFirst_append 47 _ _ (no_slash_renderInt p), h1, h2, plPair_render p l hp hl]

theorem renderSegStr_pl (p : Int) (l : Link) : renderSegStr (.pl p l) = 34 :: (segText (.pl p l) ++ [34]) := by
  simp [renderSegStr, segText]

theorem pElems_strs : ∀ (segs : List Seg) (f : Nat) (rest : Text), segs ≠ [] → (∀ s ∈ segs, s.WF) →
    segs.length + 1 ≤ f →
    pElems f (joinWith 44 (segs.map renderSegStr) ++ 93 :: rest)
      = some (.list (segs.map fun s => .str (segText s)), rest)
  | [], _, _, h, _, _ => absurd rfl h
  | [s], f, rest, _, hwf, hf => by
    have hs := hwf s (by simp)
    cases s with
    | other k v => exact absurd hs (by simp [Seg.WF])
    | pl p l =>
      obtain ⟨g, rfl⟩ : ∃ g, f = g + 2 := ⟨f - 2, by simp at hf; omega⟩
      have hstr := pString_lit (segText (.pl p l)) (93 :: rest) (segText_chars p l hs.2)
      have hshape : joinWith 44 (List.map renderSegStr [Seg.pl p l]) ++ 93 :: rest
          = 34 :: (segText (.pl p l) ++ 34 :: 93 :: rest) := by
        simp [joinWith, renderSegStr_pl]
      rw [hshape, pElems, pValue, skipWs_nonws (by simp [isWs])]
      simp [hstr, skipWs_nonws (show isWs 93 = false by simp [isWs])]
  | s :: t :: ts, f, rest, _, hwf, hf => by
    have hs := hwf s (by simp)
    have ih := fun g hg => pElems_strs (t :: ts) g rest (by simp) (fun x hx => hwf x (by simp [hx])) hg
    cases s with
    | other k v => exact absurd hs (by simp [Seg.WF])
    | pl p l =>
      obtain ⟨g, rfl⟩ : ∃ g, f = g + 2 := ⟨f - 2, by simp at hf; omega⟩
      have hstr := pString_lit (segText (.pl p l))
        (44 :: (joinWith 44 ((t :: ts).map renderSegStr) ++ 93 :: rest)) (segText_chars p l hs.2)
      have := ih (g + 1) (by simp at hf ⊢; omega)
      have hshape : joinWith 44 (List.map renderSegStr (Seg.pl p l :: t :: ts)) ++ 93 :: rest
          = 34 :: (segText (.pl p l) ++ 34 :: 44 :: (joinWith 44 (List.map renderSegStr (t :: ts)) ++ 93 :: rest)) := by
        simp [joinWith, renderSegStr_pl]
      rw [hshape, pElems, pValue, skipWs_nonws (by simp [isWs])]
      simp only [show ((34 : Nat) == 34) = true by decide, if_true, hstr,
        skipWs_nonws (show isWs 44 = false by simp [isWs]), this]
      simp

theorem stage2_strs : ∀ segs : List Seg, (∀ s ∈ segs, s.WF) →
    stage2 (segs.map fun s => .str (segText s)) = (segs, [])
  | [], _ => rfl
  | s :: rest, h => by
    have hs := h s (by simp)
    have ih := stage2_strs rest (fun x hx => h x (by simp [hx]))
    cases s with
    | other k v => exact absurd hs (by simp [Seg.WF])
    | pl p l =>
      have ht : truthy (.str (segText (.pl p l))) = true := by
        obtain ⟨c, cs, hc, _⟩ : ∃ c cs, renderInt p = c :: cs ∧ True := by
          cases p with
          | ofNat n => obtain ⟨c, cs, hc, _⟩ := renderNat_head n; exact ⟨c, cs, hc, trivial⟩
          | negSucc n => exact ⟨45, _, rfl, trivial⟩
        simp [truthy, segText, hc]
      simp [stage2, ht, portLink_segText p l hs.1 hs.2, ih]

/-- the list-of-strings spelling parses to the segments it spells -/
theorem parseRoutePath_strs (segs : List Seg) (hne : segs ≠ []) (hwf : ∀ s ∈ segs, s.WF) :
    parseRoutePath (renderJsonList (segs.map renderSegStr)) = some segs := by
  have hlen : segs.length ≤ (joinWith 44 (segs.map renderSegStr)).length := by
    have := length_joinWith_ge 44 (segs.map renderSegStr) (by
      intro e he
      obtain ⟨s, hs, rfl⟩ := List.mem_map.mp he
      have hw := hwf s hs
      cases s with
      | other k v => exact absurd hw (by simp [Seg.WF])
      | pl p l => simp [renderSegStr])
    simpa using this
  obtain ⟨t, ht⟩ : ∃ t, joinWith 44 (segs.map renderSegStr) = 34 :: t := by
    match segs, hne with
    | s :: rest, _ =>
      have hw := hwf s (by simp)
      cases s with
      | other k v => exact absurd hw (by simp [Seg.WF])
      | pl p l =>
        cases rest with
        | nil => exact ⟨_, by simp [joinWith, renderSegStr]; rfl⟩
        | cons r rs => exact ⟨_, by simp [joinWith, renderSegStr]; rfl⟩
  have hel := pElems_strs segs (2 * (joinWith 44 (segs.map renderSegStr) ++ [93]).length + 3) [] hne hwf
    (by simp; omega)
  have hjson : jsonLoads (renderJsonList (segs.map renderSegStr))
      = some (.list (segs.map fun s => .str (segText s))) := by
    unfold jsonLoads renderJsonList
    simp only [List.cons_append, List.length_cons]
    have hfuel : 2 * ((joinWith 44 (segs.map renderSegStr) ++ [93]).length + 1) + 2
        = (2 * (joinWith 44 (segs.map renderSegStr) ++ [93]).length + 3) + 1 := by omega
    rw [hfuel, pValue, skipWs_nonws (by simp [isWs])]
    rw [ht] at hel ⊢
    simp only [List.cons_append] at hel ⊢
    have hw : skipWs (34 :: (t ++ [93])) = 34 :: (t ++ [93]) := skipWs_nonws (by simp [isWs])
    have h1 : ((91 : Nat) == 34) = false := by decide
    have h2 : ((91 : Nat) == 91) = true := by decide
    have h3 : ((34 : Nat) == 93) = false := by decide
    simp only [h1, h2, h3, hw, hel, Bool.false_eq_true, if_false, if_true]
    simp [skipWs]
  have hmap : (segs.map fun s => JV.str (segText s)).isEmpty = false := by
    cases segs with
    | nil => exact absurd rfl hne
    | cons a b => rfl
  simp [parseRoutePath, parseRoute, hjson, finish, hmap, stage2_strs segs hwf]

end Cpppo.Route
