import Cpppo.Proofs.Dotdict
import Cpppo.Proofs.DotdictText

/-!
Key iteration of C16: `iteritems` as a list of segment paths (`itemsP`), its one-level
characterisation (`itemsP_iff`), "every listed key looks up to the listed value" (`itemsP_get`,
`items_lookup`) and "the listed keys are exactly the leaf paths" (`itemsP_leafAt`).
-/
namespace Cpppo.Dotdict

/-! ### key iteration as paths -/

/-- the segment `k[i]` as `iteritems` writes it -/
def idxSeg (k : Name) (width i : Nat) : Name := k ++ '[' :: (padIdx width i ++ [']'])

mutual
/-- `iteritems()` with every key kept as its list of segments -/
def itemsP : Kvs → List (List Name × Tree)
  | [] => []
  | (k, .node (x :: sub)) :: r =>
    (itemsP (x :: sub)).map (fun (p, v) => (k :: p, v)) ++ itemsP r
  | (k, .list (x :: xs)) :: r =>
    (if allNodes (x :: xs) then itemsPL k (natStr xs.length).length 0 (x :: xs)
     else [([k], .list (x :: xs))]) ++ itemsP r
  | (k, v) :: r => ([k], v) :: itemsP r
def itemsPL (k : Name) (width : Nat) : Nat → List Tree → List (List Name × Tree)
  | _, [] => []
  | i, .node sub :: r =>
    (itemsP sub).map (fun (p, v) => (idxSeg k width i :: p, v)) ++ itemsPL k width (i + 1) r
  | i, _ :: r => itemsPL k width (i + 1) r
end

/-- segments joined by single dots -/
def dotted : List Name → List (Name × Nat)
  | [] => []
  | [s] => [(s, 0)]
  | s :: r => (s, 1) :: dotted r

def joinDots (p : List Name) : Name := renderComps (dotted p)

theorem joinDots_cons (s : Name) (p : List Name) (hp : p ≠ []) :
    joinDots (s :: p) = s ++ '.' :: joinDots p := by
  cases p with
  | nil => exact absurd rfl hp
  | cons a r => simp [joinDots, dotted, renderComps, dots]

theorem joinDots_single (s : Name) : joinDots [s] = s := by
  simp [joinDots, dotted, renderComps, dots]

mutual
theorem itemsP_ne : ∀ (kvs : Kvs) (p : List Name) (v : Tree), (p, v) ∈ itemsP kvs → p ≠ []
  | [], _, _, h => by simp [itemsP] at h
  | (k, .node (x :: sub)) :: r, p, v, h => by
    simp only [itemsP, List.mem_append, List.mem_map, Prod.mk.injEq, Prod.exists] at h
    rcases h with ⟨p', v', _, rfl, _⟩ | h
    · simp
    · exact itemsP_ne r p v h
  | (k, .list (x :: xs)) :: r, p, v, h => by
    simp only [itemsP, List.mem_append] at h
    rcases h with h | h
    · split at h
      · exact itemsPL_ne k _ 0 (x :: xs) p v h
      · simp only [List.mem_singleton, Prod.mk.injEq] at h
        rw [h.1]; simp
    · exact itemsP_ne r p v h
  | (k, .leaf _) :: r, p, v, h => by
    simp only [itemsP, List.mem_cons, Prod.mk.injEq] at h
    rcases h with ⟨rfl, _⟩ | h
    · simp
    · exact itemsP_ne r p v h
  | (k, .node []) :: r, p, v, h => by
    simp only [itemsP, List.mem_cons, Prod.mk.injEq] at h
    rcases h with ⟨rfl, _⟩ | h
    · simp
    · exact itemsP_ne r p v h
  | (k, .list []) :: r, p, v, h => by
    simp only [itemsP, List.mem_cons, Prod.mk.injEq] at h
    rcases h with ⟨rfl, _⟩ | h
    · simp
    · exact itemsP_ne r p v h
theorem itemsPL_ne (k : Name) (w : Nat) : ∀ (i : Nat) (xs : List Tree) (p : List Name) (v : Tree),
    (p, v) ∈ itemsPL k w i xs → p ≠ []
  | _, [], _, _, h => by simp [itemsPL] at h
  | i, .node sub :: r, p, v, h => by
    simp only [itemsPL, List.mem_append, List.mem_map, Prod.mk.injEq, Prod.exists] at h
    rcases h with ⟨p', v', _, rfl, _⟩ | h
    · simp
    · exact itemsPL_ne k w (i + 1) r p v h
  | i, .leaf _ :: r, p, v, h => by
    simp only [itemsPL] at h
    exact itemsPL_ne k w (i + 1) r p v h
  | i, .list _ :: r, p, v, h => by
    simp only [itemsPL] at h
    exact itemsPL_ne k w (i + 1) r p v h
end


theorem map_join_cons (k : Name) (l : List (List Name × Tree)) (hl : ∀ p v, (p, v) ∈ l → p ≠ []) :
    (l.map fun (p, v) => (k :: p, v)).map (fun (p, v) => (joinDots p, v))
      = (l.map fun (p, v) => (joinDots p, v)).map fun (sk, sv) => (k ++ '.' :: sk, sv) := by
  induction l with
  | nil => rfl
  | cons hd tl ih =>
    obtain ⟨p, v⟩ := hd
    simp only [List.map_cons, List.cons.injEq, Prod.mk.injEq, and_true]
    refine ⟨joinDots_cons k p (hl p v (by simp)), ih (fun p' v' h => hl p' v' (by simp [h]))⟩

mutual
/-- the keys `iteritems` yields are the paths joined by single dots -/
theorem itemsK_eq : ∀ (kvs : Kvs), itemsK kvs = (itemsP kvs).map fun (p, v) => (joinDots p, v)
  | [] => by simp [itemsK, itemsP]
  | (k, .node (x :: sub)) :: r => by
    simp only [itemsK, itemsP, List.map_append, itemsK_eq (x :: sub), itemsK_eq r]
    rw [map_join_cons k _ (itemsP_ne (x :: sub))]
  | (k, .list (x :: xs)) :: r => by
    simp only [itemsK, itemsP, List.map_append, itemsK_eq r]
    congr 1
    split
    · exact itemsL_eq k _ 0 (x :: xs)
    · simp [joinDots_single]
  | (k, .leaf _) :: r => by simp [itemsK, itemsP, itemsK_eq r, joinDots_single]
  | (k, .node []) :: r => by simp [itemsK, itemsP, itemsK_eq r, joinDots_single]
  | (k, .list []) :: r => by simp [itemsK, itemsP, itemsK_eq r, joinDots_single]
theorem itemsL_eq (k : Name) (w : Nat) : ∀ (i : Nat) (xs : List Tree),
    itemsL k w i xs = (itemsPL k w i xs).map fun (p, v) => (joinDots p, v)
  | _, [] => by simp [itemsL, itemsPL]
  | i, .node sub :: r => by
    simp only [itemsL, itemsPL, List.map_append, itemsK_eq sub, itemsL_eq k w (i + 1) r]
    congr 1
    have := map_join_cons (idxSeg k w i) (itemsP sub) (itemsP_ne sub)
    rw [this]
    simp [idxSeg]
  | i, .leaf _ :: r => by simp only [itemsL, itemsPL, itemsL_eq k w (i + 1) r]
  | i, .list _ :: r => by simp only [itemsL, itemsPL, itemsL_eq k w (i + 1) r]
end


theorem isIdentChar_ne (c : Char) (h : isIdentChar c = true) : c ≠ '.' ∧ c ≠ '[' ∧ c ≠ ']' := by
  refine ⟨?_, ?_, ?_⟩ <;> (intro e; subst e; revert h; decide)

theorem isIdent_chars {k : Name} (h : isIdent k = true) :
    k ≠ [] ∧ '.' ∉ k ∧ '[' ∉ k ∧ ']' ∉ k := by
  cases k with
  | nil => simp [isIdent] at h
  | cons c s =>
    simp only [isIdent, Bool.and_eq_true, List.all_eq_true] at h
    have hc : isIdentChar c = true := by simp [isIdentChar, h.1]
    have hall : ∀ x ∈ c :: s, isIdentChar x = true := by
      intro x hx
      simp only [List.mem_cons] at hx
      rcases hx with rfl | hx
      · exact hc
      · exact h.2 x hx
    refine ⟨by simp, ?_, ?_, ?_⟩ <;> intro hm
    · exact (isIdentChar_ne _ (hall _ hm)).1 rfl
    · exact (isIdentChar_ne _ (hall _ hm)).2.1 rfl
    · exact (isIdentChar_ne _ (hall _ hm)).2.2 rfl

theorem digit_char_facts : ∀ d : Fin 10,
    isDigit (Char.ofNat (48 + d.val)) = true ∧ (Char.ofNat (48 + d.val)).toNat - 48 = d.val ∧
    Char.ofNat (48 + d.val) ≠ ' ' ∧ Char.ofNat (48 + d.val) ≠ ']' ∧ Char.ofNat (48 + d.val) ≠ '[' ∧
    Char.ofNat (48 + d.val) ≠ '.' ∧ Char.ofNat (48 + d.val) ≠ '-' ∧
    (d.val ≠ 0 → Char.ofNat (48 + d.val) ≠ '0') := by decide

theorem digitsVal_append : ∀ (a b : Name) (acc : Nat), digitsVal (a ++ b) acc = digitsVal b (digitsVal a acc)
  | [], _, _ => rfl
  | c :: a, b, acc => by simp only [List.cons_append, digitsVal]; exact digitsVal_append a b _

/-- the decimal digits `natDigits` writes: all digits, non-empty, read back as `n`, no leading zero -/
theorem natDigits_spec : ∀ (fuel n : Nat), n < fuel →
    (natDigits fuel n).all isDigit = true ∧ natDigits fuel n ≠ [] ∧ digitsVal (natDigits fuel n) 0 = n ∧
    (∀ c r, natDigits fuel n = c :: r → c ≠ '0' ∨ r = []) ∧
    (∀ c ∈ natDigits fuel n, c ≠ ' ' ∧ c ≠ ']' ∧ c ≠ '[' ∧ c ≠ '.' ∧ c ≠ '-')
  | 0, _, h => by omega
  | fuel + 1, n, h => by
    by_cases hn : n < 10
    · have hf := digit_char_facts ⟨n, hn⟩
      simp only at hf
      simp only [natDigits, hn, if_true]
      refine ⟨by simp [hf.1], by simp, by simp [digitsVal, hf.2.1], ?_, ?_⟩
      · intro c r e
        simp only [List.cons.injEq] at e
        exact Or.inr e.2.symm
      · intro c hc
        simp only [List.mem_singleton] at hc
        subst hc
        exact ⟨hf.2.2.1, hf.2.2.2.1, hf.2.2.2.2.1, hf.2.2.2.2.2.1, hf.2.2.2.2.2.2.1⟩
    · have hlt : n / 10 < fuel := by omega
      obtain ⟨h1, h2, h3, h4, h5⟩ := natDigits_spec fuel (n / 10) hlt
      have hd := digit_char_facts ⟨n % 10, Nat.mod_lt _ (by omega)⟩
      simp only at hd
      simp only [natDigits, hn, if_false]
      refine ⟨?_, by simp, ?_, ?_, ?_⟩
      · simp [List.all_append, h1, hd.1]
      · rw [digitsVal_append, h3]
        simp only [digitsVal, hd.2.1]
        omega
      · intro c r e
        cases hq : natDigits fuel (n / 10) with
        | nil => exact absurd hq h2
        | cons c' r' =>
          rw [hq] at e
          simp only [List.cons_append, List.cons.injEq] at e
          left
          rw [← e.1]
          -- the leading digit of n/10 (which is ≥ 1)
          have hge : 1 ≤ n / 10 := by omega
          rcases h4 c' r' hq with hc | hr
          · exact hc
          · subst hr
            intro hz
            subst hz
            rw [hq] at h3
            simp [digitsVal] at h3
            omega
      · intro c hc
        simp only [List.mem_append, List.mem_singleton] at hc
        rcases hc with hc | rfl
        · exact h5 c hc
        · exact ⟨hd.2.2.1, hd.2.2.2.1, hd.2.2.2.2.1, hd.2.2.2.2.2.1, hd.2.2.2.2.2.2.1⟩

theorem parseInt_natStr (n : Nat) : parseInt (natStr n) = some (n : Int) := by
  obtain ⟨h1, h2, h3, h4, h5⟩ := natDigits_spec (n + 1) n (by omega)
  unfold natStr
  cases hq : natDigits (n + 1) n with
  | nil => exact absurd hq h2
  | cons c r =>
    rw [hq] at h1 h3
    have hc : c ≠ '-' := (h5 c (by rw [hq]; simp)).2.2.2.2
    have h40 := h4 c r hq
    unfold parseInt
    split
    rename_i neg ds heq
    split at heq
    · rename_i r' e
      simp only [List.cons.injEq] at e
      exact absurd e.1 hc
    simp only [Prod.mk.injEq] at heq
    obtain ⟨rfl, rfl⟩ := heq
    simp only [h1, h40, and_self, if_true, h3]
    rfl

/-- **a right-aligned index reads back as the index** -/
theorem parseIdx_padIdx (w n : Nat) : parseIdx (padIdx w n) = some (n : Int) := by
  obtain ⟨_, h2, _, _, h5⟩ := natDigits_spec (n + 1) n (by omega)
  unfold parseIdx padIdx
  have : (List.replicate (w - (natStr n).length) ' ' ++ natStr n).dropWhile (· = ' ') = natStr n := by
    cases hq : natStr n with
    | nil => exact absurd hq (by unfold natStr; exact h2)
    | cons c r =>
      have hc : c ≠ ' ' := (h5 c (by have : natStr n = natDigits (n + 1) n := rfl; rw [← this, hq]; simp)).1
      have := dropWhile_append_stop (fun x => decide (x = ' ')) (List.replicate (w - (c :: r).length) ' ') c r
        (by intro x hx; simp [List.eq_of_mem_replicate hx]) (by simpa using hc)
      simpa using this
  simp only [this]
  exact parseInt_natStr n

theorem padIdx_chars (w n : Nat) : ∀ c ∈ padIdx w n, c ≠ ']' ∧ c ≠ '[' ∧ c ≠ '.' := by
  obtain ⟨_, _, _, _, h5⟩ := natDigits_spec (n + 1) n (by omega)
  intro c hc
  simp only [padIdx, List.mem_append] at hc
  rcases hc with hc | hc
  · rw [List.eq_of_mem_replicate hc]; decide
  · have := h5 c hc
    exact ⟨this.2.1, this.2.2.1, this.2.2.2.1⟩

theorem beforeBracket_append (k x : Name) (hk : '[' ∉ k) : beforeBracket (k ++ '[' :: x) = k := by
  unfold beforeBracket
  exact takeWhile_append_stop _ k '[' x (by intro c hc; have : c ≠ '[' := fun e => hk (e ▸ hc); simpa using this) (by simp)

theorem fromBracket_append (k x : Name) (hk : '[' ∉ k) : fromBracket (k ++ '[' :: x) = '[' :: x := by
  unfold fromBracket
  exact dropWhile_append_stop _ k '[' x (by intro c hc; have : c ≠ '[' := fun e => hk (e ▸ hc); simpa using this) (by simp)

/-- the segment `k[ i]` that iteration writes for an element of a list of mappings reads back as
`(k, [i])`, whatever the width of the index field -/
theorem parseSeg_idxSeg (k : Name) (w i : Nat) (hk : isIdent k = true) :
    parseSeg (idxSeg k w i) = some (k, [(i : Int)]) := by
  have hb := (isIdent_chars hk).2.2.1
  have hch := padIdx_chars w i
  unfold parseSeg idxSeg
  rw [beforeBracket_append k _ hb, fromBracket_append k _ hb]
  simp only [hk, true_and, ne_eq, reduceCtorEq, not_false_eq_true, if_true]
  simp only [List.length_cons, parseGroups]
  rw [takeWhile_append_stop _ (padIdx w i) ']' [] (by intro x hx; simpa using (hch x hx).1) (by simp),
    dropWhile_append_stop _ (padIdx w i) ']' [] (by intro x hx; simpa using (hch x hx).1) (by simp)]
  simp only [if_true, parseIdx_padIdx, parseGroups]
  rfl

theorem listGet_drop : ∀ (xs : List Tree) (i j : Nat), listGet (xs.drop i) j = listGet xs (i + j)
  | [], i, j => by simp [listGet]
  | x :: r, 0, j => by simp
  | x :: r, i + 1, j => by
    simp only [List.drop_succ_cons]
    rw [listGet_drop r i j]
    have : i + 1 + j = (i + j) + 1 := by omega
    rw [this, listGet]

theorem normIndex_nat (n j : Nat) (h : j < n) : normIndex n (j : Int) = some j := by
  unfold normIndex
  have h1 : ¬ ((j : Int) < 0) := by omega
  simp only [h1, if_false]
  have h2 : (0 : Int) ≤ j ∧ (j : Int) < n := by omega
  simp [h2]

/-- the first segment of every listed path is based on a key of the level -/
theorem itemsPL_head (k : Name) (w : Nat) : ∀ (i : Nat) (xs : List Tree) (p : List Name) (v : Tree),
    (p, v) ∈ itemsPL k w i xs →
    ∃ j sub p', p = idxSeg k w (i + j) :: p' ∧ listGet xs j = some (.node sub) ∧ (p', v) ∈ itemsP sub
  | _, [], _, _, h => by simp [itemsPL] at h
  | i, .node sub :: r, p, v, h => by
    simp only [itemsPL, List.mem_append, List.mem_map, Prod.mk.injEq, Prod.exists] at h
    rcases h with ⟨p', v', hm, rfl, rfl⟩ | h
    · exact ⟨0, sub, p', by simp, by simp [listGet], hm⟩
    · obtain ⟨j, sub', p', hp, hg, hm⟩ := itemsPL_head k w (i + 1) r p v h
      exact ⟨j + 1, sub', p', by rw [hp]; congr 2; omega, by simpa [listGet] using hg, hm⟩
  | i, .leaf _ :: r, p, v, h => by
    simp only [itemsPL] at h
    obtain ⟨j, sub', p', hp, hg, hm⟩ := itemsPL_head k w (i + 1) r p v h
    exact ⟨j + 1, sub', p', by rw [hp]; congr 2; omega, by simpa [listGet] using hg, hm⟩
  | i, .list _ :: r, p, v, h => by
    simp only [itemsPL] at h
    obtain ⟨j, sub', p', hp, hg, hm⟩ := itemsPL_head k w (i + 1) r p v h
    exact ⟨j + 1, sub', p', by rw [hp]; congr 2; omega, by simpa [listGet] using hg, hm⟩

theorem itemsP_head : ∀ (kvs : Kvs) (p : List Name) (v : Tree), wfK isIdent kvs = true →
    (p, v) ∈ itemsP kvs → ∃ m rest, p = m :: rest ∧ beforeBracket m ∈ keysK kvs
  | [], _, _, _, h => by simp [itemsP] at h
  | (k, val) :: r, p, v, hw, h => by
    obtain ⟨hk, _, _, hwr⟩ := wfK_cons.mp hw
    have hb := (isIdent_chars hk).2.2.1
    have tailcase : (p, v) ∈ itemsP r → ∃ m rest, p = m :: rest ∧ beforeBracket m ∈ keysK ((k, val) :: r) := by
      intro h
      obtain ⟨m, rest, hp, hm⟩ := itemsP_head r p v hwr h
      exact ⟨m, rest, hp, by simp [keysK] at hm ⊢; exact Or.inr hm⟩
    have here : ∀ rest, p = k :: rest → ∃ m rest, p = m :: rest ∧ beforeBracket m ∈ keysK ((k, val) :: r) := by
      intro rest hp
      exact ⟨k, rest, hp, by simp [keysK, beforeBracket_plain k hb]⟩
    cases val with
    | leaf _ =>
      simp only [itemsP, List.mem_cons, Prod.mk.injEq] at h
      rcases h with ⟨hp, _⟩ | h
      · exact here [] hp
      · exact tailcase h
    | node sub =>
      cases sub with
      | nil =>
        simp only [itemsP, List.mem_cons, Prod.mk.injEq] at h
        rcases h with ⟨hp, _⟩ | h
        · exact here [] hp
        · exact tailcase h
      | cons x sub' =>
        simp only [itemsP, List.mem_append, List.mem_map, Prod.mk.injEq, Prod.exists] at h
        rcases h with ⟨p', v', _, hp, _⟩ | h
        · exact here p' hp.symm
        · exact tailcase h
    | list xs =>
      cases xs with
      | nil =>
        simp only [itemsP, List.mem_cons, Prod.mk.injEq] at h
        rcases h with ⟨hp, _⟩ | h
        · exact here [] hp
        · exact tailcase h
      | cons x xs' =>
        simp only [itemsP, List.mem_append] at h
        rcases h with h | h
        · split at h
          · obtain ⟨j, sub, p', hp, _, _⟩ := itemsPL_head k _ 0 (x :: xs') p v h
            refine ⟨_, p', hp, ?_⟩
            simp [keysK, idxSeg, beforeBracket_append k _ hb]
          · simp only [List.mem_singleton, Prod.mk.injEq] at h
            exact here [] h.1
        · exact tailcase h


/-- a value that iteration yields as it is: not a non-empty level, not a non-empty list of levels -/
def IsLeafVal : Tree → Prop
  | .node (_ :: _) => False
  | .list (x :: xs) => allNodes (x :: xs) = false
  | _ => True

/-- width of the index field `iteritems` uses for a list -/
def idxWidth (xs : List Tree) : Nat := (natStr (xs.length - 1)).length

/-- what the entry `k ↦ val` of a level contributes to the listing: `val` itself when it is a leaf
value, else the listing of the sub-level / of the elements of the list of levels, prefixed -/
inductive EntryAt (k : Name) (val : Tree) : List Name → Tree → Prop
  | leaf : IsLeafVal val → EntryAt k val [k] val
  | down {sub : Kvs} {p : List Name} {v : Tree} : val = .node sub → sub ≠ [] →
      (p, v) ∈ itemsP sub → EntryAt k val (k :: p) v
  | elem {xs : List Tree} {j : Nat} {sub : Kvs} {p : List Name} {v : Tree} :
      val = .list xs → xs ≠ [] → allNodes xs = true → listGet xs j = some (.node sub) →
      (p, v) ∈ itemsP sub → EntryAt k val (idxSeg k (idxWidth xs) j :: p) v

/-- one level of the listing -/
def Entry (kvs : Kvs) (p : List Name) (v : Tree) : Prop :=
  ∃ k val, lookupK k kvs = some val ∧ EntryAt k val p v

def headItems (k : Name) : Tree → List (List Name × Tree)
  | .node (x :: sub) => (itemsP (x :: sub)).map (fun (p, v) => (k :: p, v))
  | .list (x :: xs) =>
    if allNodes (x :: xs) then itemsPL k (natStr xs.length).length 0 (x :: xs) else [([k], .list (x :: xs))]
  | v => [([k], v)]

theorem itemsP_cons (k : Name) (val : Tree) (r : Kvs) :
    itemsP ((k, val) :: r) = headItems k val ++ itemsP r := by
  cases val with
  | leaf _ => simp [itemsP, headItems]
  | node sub => cases sub <;> simp [itemsP, headItems]
  | list xs => cases xs <;> simp [itemsP, headItems]

theorem itemsPL_mem (k : Name) (w : Nat) : ∀ (xs : List Tree) (i j : Nat) (sub : Kvs) (p : List Name) (v : Tree),
    listGet xs j = some (.node sub) → (p, v) ∈ itemsP sub →
    (idxSeg k w (i + j) :: p, v) ∈ itemsPL k w i xs
  | [], _, _, _, _, _, h, _ => by simp [listGet] at h
  | x :: r, i, 0, sub, p, v, h, hm => by
    simp only [listGet, Option.some.injEq] at h
    subst h
    simp only [itemsPL, List.mem_append, List.mem_map, Prod.mk.injEq, Prod.exists, Nat.add_zero]
    exact Or.inl ⟨p, v, hm, rfl, rfl⟩
  | x :: r, i, j + 1, sub, p, v, h, hm => by
    simp only [listGet] at h
    have ih := itemsPL_mem k w r (i + 1) j sub p v h hm
    have e : i + 1 + j = i + (j + 1) := by omega
    rw [e] at ih
    cases x with
    | node s => simp only [itemsPL, List.mem_append]; exact Or.inr ih
    | leaf _ => simpa only [itemsPL] using ih
    | list _ => simpa only [itemsPL] using ih

theorem headItems_iff (k : Name) (val : Tree) (p : List Name) (v : Tree) :
    (p, v) ∈ headItems k val ↔ EntryAt k val p v := by
  have leafcase : IsLeafVal val → headItems k val = [([k], val)] →
      ((p, v) ∈ headItems k val ↔ EntryAt k val p v) := by
    intro hv hh
    rw [hh]
    simp only [List.mem_singleton, Prod.mk.injEq]
    constructor
    · rintro ⟨rfl, rfl⟩; exact EntryAt.leaf hv
    · intro h
      cases h with
      | leaf _ => exact ⟨rfl, rfl⟩
      | @down sub p' v' he hs _ => subst he; cases sub <;> simp [IsLeafVal] at hv hs
      | @elem xs j sub p' v' he hx ha _ _ =>
        subst he
        cases xs with
        | nil => exact absurd rfl hx
        | cons x xs' => simp [IsLeafVal, ha] at hv
  cases val with
  | leaf n => exact leafcase trivial rfl
  | node sub =>
    cases sub with
    | nil => exact leafcase trivial rfl
    | cons x sub' =>
      simp only [headItems, List.mem_map, Prod.mk.injEq, Prod.exists]
      constructor
      · rintro ⟨p', v', hm, rfl, rfl⟩
        exact EntryAt.down rfl (by simp) hm
      · intro h
        cases h with
        | leaf hv => simp [IsLeafVal] at hv
        | down he hs hm =>
          simp only [Tree.node.injEq] at he
          subst he
          exact ⟨_, _, hm, rfl, rfl⟩
        | elem he _ _ _ _ => simp at he
  | list xs =>
    cases xs with
    | nil => exact leafcase trivial rfl
    | cons x xs' =>
      by_cases ha : allNodes (x :: xs') = true
      · simp only [headItems, ha, if_true]
        have hw : (natStr xs'.length).length = idxWidth (x :: xs') := by simp [idxWidth]
        constructor
        · intro h
          obtain ⟨j, sub, p', hp, hg, hm⟩ := itemsPL_head k _ 0 (x :: xs') p v h
          rw [hp, Nat.zero_add, hw]
          exact EntryAt.elem rfl (by simp) ha hg hm
        · intro h
          cases h with
          | leaf hv => simp [IsLeafVal, ha] at hv
          | down he _ _ => simp at he
          | elem he _ _ hg hm =>
            simp only [Tree.list.injEq] at he
            subst he
            have := itemsPL_mem k (natStr xs'.length).length (x :: xs') 0 _ _ _ _ hg hm
            rw [Nat.zero_add, hw] at this
            exact this
      · have ha' : allNodes (x :: xs') = false := by simpa using ha
        exact leafcase (by simp [IsLeafVal, ha']) (by simp [headItems, ha'])

/-- **one level of key iteration**: a path is listed exactly when its first segment is an entry of
the level that is either a leaf value (then the path ends) or a non-empty level / list of levels
whose own listing has the rest -/
theorem itemsP_iff : ∀ (kvs : Kvs) (p : List Name) (v : Tree), (keysK kvs).Nodup →
    ((p, v) ∈ itemsP kvs ↔ Entry kvs p v)
  | [], p, v, _ => by
    constructor
    · intro h; simp [itemsP] at h
    · rintro ⟨k, val, hl, _⟩; simp [lookupK] at hl
  | (k, val) :: r, p, v, hn => by
    simp only [keysK, List.map_cons, List.nodup_cons] at hn
    have ih := itemsP_iff r p v hn.2
    rw [itemsP_cons, List.mem_append, headItems_iff, ih]
    constructor
    · rintro (h | ⟨k', val', hl, he⟩)
      · exact ⟨k, val, by simp [lookupK], h⟩
      · have hk' : k' ∈ keysK r := by
          have : lookupK k' r ≠ none := by rw [hl]; simp
          have h2 := mt (lookupK_none_iff k' r).mpr this
          simpa using h2
        have hne : k' ≠ k := fun e => hn.1 (e ▸ hk')
        exact ⟨k', val', by simp [lookupK, hne, hl], he⟩
    · rintro ⟨k', val', hl, he⟩
      by_cases hk : k' = k
      · subst hk
        simp only [lookupK, if_true, Option.some.injEq] at hl
        subst hl
        exact Or.inl he
      · simp only [lookupK, hk, if_false] at hl
        exact Or.inr ⟨k', val', hl, he⟩


theorem textSeg_ident {k : Name} (h : isIdent k = true) : TextSeg k := by
  obtain ⟨h1, h2, h3, h4⟩ := isIdent_chars h
  refine ⟨h1, h2, ?_⟩
  simp [balanced, opens, closes, List.count_eq_zero.mpr h3, List.count_eq_zero.mpr h4]

theorem textSeg_idxSeg {k : Name} (h : isIdent k = true) (w j : Nat) : TextSeg (idxSeg k w j) := by
  obtain ⟨h1, h2, h3, h4⟩ := isIdent_chars h
  have hch := padIdx_chars w j
  have f3 : '[' ∉ padIdx w j := fun hm => (hch _ hm).2.1 rfl
  have f4 : ']' ∉ padIdx w j := fun hm => (hch _ hm).1 rfl
  have f5 : '.' ∉ padIdx w j := fun hm => (hch _ hm).2.2 rfl
  refine ⟨by simp [idxSeg], ?_, ?_⟩
  · simp [idxSeg, h2, f5]
  · simp [balanced, opens, closes, idxSeg, List.count_append,
      List.count_eq_zero.mpr h3, List.count_eq_zero.mpr h4,
      List.count_eq_zero.mpr f3, List.count_eq_zero.mpr f4]

/-- **every listed key looks up to the listed value** (path form), and the listed segments are
proper components -/
theorem itemsP_get : ∀ (p : List Name) (kvs : Kvs) (v : Tree), wfK isIdent kvs = true →
    (p, v) ∈ itemsP kvs → getK kvs p none = .ok v ∧ ∀ m ∈ p, TextSeg m
  | [], kvs, v, _, h => absurd rfl (itemsP_ne kvs [] v h)
  | m :: p', kvs, v, hw, h => by
    obtain ⟨k, val, hl, he⟩ := (itemsP_iff kvs (m :: p') v (wfK_nodup hw)).mp h
    obtain ⟨hk, hwv⟩ := wfK_lookup hw hl
    have hkb := (isIdent_chars hk).2.2.1
    cases he with
    | leaf hv =>
      refine ⟨?_, by intro x hx; simp only [List.mem_singleton] at hx; subst hx; exact textSeg_ident hk⟩
      rw [getK]
      simp [segGet, hkb, hl]
    | @down sub _ _ hval hne hm =>
      subst hval
      have ih := itemsP_get p' sub v (by simpa [wfT] using hwv) hm
      have hp' := itemsP_ne sub p' v hm
      refine ⟨?_, ?_⟩
      · rw [getK]
        simp [segGet, hkb, hl, hp', ih.1]
      · intro x hx
        simp only [List.mem_cons] at hx
        rcases hx with rfl | hx
        · exact textSeg_ident hk
        · exact ih.2 x hx
    | @elem xs j sub _ _ hval hne ha hg hm =>
      subst hval
      simp only [wfT] at hwv
      have hjl := listGet_lt _ _ _ hg
      have hwsub := wfL_listGet hwv hg
      have ih := itemsP_get p' sub v (by simpa [wfT] using hwsub) hm
      have hp' := itemsP_ne sub p' v hm
      refine ⟨?_, ?_⟩
      · rw [getK]
        have hbr : '[' ∈ idxSeg k (idxWidth xs) j := by simp [idxSeg]
        simp only [segGet, hbr, if_true, evalSeg, parseSeg_idxSeg k (idxWidth xs) j hk, hl, subscripts, subscript,
          normIndex_nat _ _ hjl, hg]
        simp [hp', ih.1]
      · intro x hx
        simp only [List.mem_cons] at hx
        rcases hx with rfl | hx
        · exact textSeg_idxSeg hk (idxWidth xs) j
        · exact ih.2 x hx


theorem dotted_spec : ∀ (p : List Name), (∀ m ∈ p, TextSeg m) →
    WFC (dotted p) ∧ RedC (dotted p) ∧ segsOf (dotted p) = p
  | [], _ => by simp [dotted, WFC, RedC, segsOf]
  | [s], h => by
    have := h s (by simp)
    simp [dotted, WFC, RedC, segsOf, this]
  | s :: a :: r, h => by
    have hs := h s (by simp)
    obtain ⟨h1, h2, h3⟩ := dotted_spec (a :: r) (fun m hm => h m (by simp [hm]))
    have hd : dotted (s :: a :: r) = (s, 1) :: dotted (a :: r) := by simp [dotted]
    have hne : ∃ c t, dotted (a :: r) = c :: t := by
      cases r <;> simp [dotted]
    obtain ⟨c, t, hct⟩ := hne
    rw [hd]
    refine ⟨⟨hs, fun _ => Nat.le_refl 1, h1⟩, ⟨Nat.le_refl 1, h2⟩, ?_⟩
    rw [hct] at h3 ⊢
    obtain ⟨s2, d2⟩ := c
    simp only [segsOf]
    rw [h3]

/-- a key written with single dots resolves to its segments -/
theorem chain_joinDots (fixed : Bool) (p : List Name) (hp : p ≠ []) (h : ∀ m ∈ p, TextSeg m) :
    chain fixed (joinDots p) = ⟨p, none⟩ := by
  obtain ⟨h1, h2, h3⟩ := dotted_spec p h
  have hne : dotted p ≠ [] := by
    cases p with
    | nil => exact absurd rfl hp
    | cons a r => cases r <;> simp [dotted]
  have := chainF_reduced fixed (dotted p) ((joinDots p).length + 1) h1 h2 hne
    (by have := renderComps_length_ge (dotted p) h1; simp only [joinDots]; omega)
  simp only [joinDots] at this
  rw [chain, joinDots, this, h3]

/-- **every listed key looks up to the listed value, and is a member** -/
theorem items_lookup (cfg : Cfg) (kvs : Kvs) (hw : wfK isIdent kvs = true)
    (k : Name) (v : Tree) (h : (k, v) ∈ items (.node kvs)) :
    getT cfg (.node kvs) k = .ok v ∧ containsT cfg (.node kvs) k = .ok true := by
  simp only [items, itemsK_eq, List.mem_map, Prod.mk.injEq, Prod.exists] at h
  obtain ⟨p, v', hm, rfl, rfl⟩ := h
  obtain ⟨hg, ht⟩ := itemsP_get p kvs v' hw hm
  have hc := chain_joinDots cfg.fixResolve p (itemsP_ne kvs p v' hm) ht
  have : getT cfg (.node kvs) (joinDots p) = .ok v' := by
    simp only [getT, hc, rootKvs, hg]
  exact ⟨this, by simp [containsT, this]⟩

/-- the leaf paths of a level: through non-empty levels by name, through non-empty lists of levels
by `name[i]`, down to a value that is neither -/
inductive LeafAt : Kvs → List Name → Tree → Prop
  | leaf {kvs : Kvs} {k : Name} {v : Tree} : lookupK k kvs = some v → IsLeafVal v → LeafAt kvs [k] v
  | down {kvs : Kvs} {k : Name} {sub : Kvs} {p : List Name} {v : Tree} :
      lookupK k kvs = some (.node sub) → sub ≠ [] → LeafAt sub p v → LeafAt kvs (k :: p) v
  | elem {kvs : Kvs} {k : Name} {xs : List Tree} {j : Nat} {sub : Kvs} {p : List Name} {v : Tree} :
      lookupK k kvs = some (.list xs) → xs ≠ [] → allNodes xs = true → listGet xs j = some (.node sub) →
      LeafAt sub p v → LeafAt kvs (idxSeg k (idxWidth xs) j :: p) v

variable {P : Name → Bool}

/-- **key iteration lists exactly the leaf paths** -/
theorem itemsP_leafAt_mp : ∀ (p : List Name) (kvs : Kvs) (v : Tree), wfK P kvs = true →
    (p, v) ∈ itemsP kvs → LeafAt kvs p v
  | [], kvs, v, _, h => absurd rfl (itemsP_ne kvs [] v h)
  | m :: p', kvs, v, hw, h => by
    obtain ⟨k, val, hl, he⟩ := (itemsP_iff kvs (m :: p') v (wfK_nodup hw)).mp h
    obtain ⟨_, hwv⟩ := wfK_lookup hw hl
    cases he with
    | leaf hv => exact LeafAt.leaf hl hv
    | @down sub _ _ hval hne hm =>
      subst hval
      exact LeafAt.down hl hne (itemsP_leafAt_mp p' sub v (by simpa [wfT] using hwv) hm)
    | @elem xs j sub _ _ hval hne ha hg hm =>
      subst hval
      simp only [wfT] at hwv
      have hwsub := wfL_listGet hwv hg
      exact LeafAt.elem hl hne ha hg (itemsP_leafAt_mp p' sub v (by simpa [wfT] using hwsub) hm)

theorem itemsP_leafAt_mpr {kvs : Kvs} {p : List Name} {v : Tree} (h : LeafAt kvs p v) :
    wfK P kvs = true → (p, v) ∈ itemsP kvs := by
  induction h with
  | @leaf kvs k v hl hv =>
    intro hw
    exact (itemsP_iff kvs _ _ (wfK_nodup hw)).mpr ⟨k, v, hl, EntryAt.leaf hv⟩
  | @down kvs k sub p v hl hne _ ih =>
    intro hw
    have hwv := (wfK_lookup hw hl).2
    exact (itemsP_iff kvs _ _ (wfK_nodup hw)).mpr
      ⟨k, _, hl, EntryAt.down rfl hne (ih (by simpa [wfT] using hwv))⟩
  | @elem kvs k xs j sub p v hl hne ha hg _ ih =>
    intro hw
    have hwv := (wfK_lookup hw hl).2
    simp only [wfT] at hwv
    have hwsub := wfL_listGet hwv hg
    exact (itemsP_iff kvs _ _ (wfK_nodup hw)).mpr
      ⟨k, _, hl, EntryAt.elem rfl hne ha hg (ih (by simpa [wfT] using hwsub))⟩

theorem itemsP_leafAt (kvs : Kvs) (p : List Name) (v : Tree) (hw : wfK P kvs = true) :
    (p, v) ∈ itemsP kvs ↔ LeafAt kvs p v :=
  ⟨itemsP_leafAt_mp p kvs v hw, fun h => itemsP_leafAt_mpr h hw⟩

theorem leafAt_isLeaf {kvs : Kvs} {p : List Name} {v : Tree} (hl : LeafAt kvs p v) : IsLeafVal v := by
  induction hl with
  | leaf _ hv => exact hv
  | down _ _ _ ih => exact ih
  | elem _ _ _ _ _ ih => exact ih

end Cpppo.Dotdict
