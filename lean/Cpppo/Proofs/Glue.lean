import Cpppo.Proofs.Connected
import Cpppo.Proofs.CanonWire
import Cpppo.Proofs.Bundle
import Cpppo.Proofs.Wf
import Cpppo.Props.C03
import Cpppo.Props.C07
import Cpppo.Model.IopClient
/-! Small lemmas that glue the layers together for `Props/C14.lean`. -/
namespace Cpppo.Interop
open Cpppo Cpppo.Logix Cpppo.Fields

theorem encodeReply_head {r : Reply} {rep : Bytes} (h : encodeReply r = some rep) : ∃ tail, rep = r.svc :: 0 :: tail := by
  unfold encodeReply at h
  cases hty : r.ty with
  | none =>
    simp only [hty, Option.some.injEq] at h
    exact ⟨encodeStatus r.status r.ext ++ r.raw, by rw [← h]; simp⟩
  | some t =>
    simp only [hty] at h
    by_cases hst : r.status = 0 ∨ r.status = 6
    · rw [if_pos hst] at h
      cases hm : r.vals.mapM (Val.encode t) with
      | none => simp [hm] at h
      | some cks =>
        simp only [hm, Option.map_some, Option.some.injEq] at h
        exact ⟨encodeStatus r.status r.ext ++ Bytes.le 2 t.code ++ cks.flatten ++ r.raw, by rw [← h]; simp⟩
    · rw [if_neg hst] at h
      simp only [Option.some.injEq] at h
      exact ⟨encodeStatus r.status r.ext ++ r.raw, by rw [← h]; simp⟩

theorem decCip_tag (r : Reply) (rep : Bytes) (h : encodeReply r = some rep) (hok : ReplyOk r)
    (hsvc : r.svc ≠ 0xD4 ∧ r.svc ≠ 0xDB ∧ r.svc ≠ 0xCE) : Ref.decCip rep = some (.tag r) := by
  obtain ⟨tail, ht⟩ := encodeReply_head h
  have hd := decReply_encodeReply r rep h hok
  subst ht
  simp only [Ref.decCip, hsvc.1, hsvc.2.1, hsvc.2.2, or_self, ↓reduceIte, hd, Option.map_some]

theorem isTagSvc_svc (d : Dev) (s : Simple) (hs : isTagSvc s = true) :
    (execSimple d s).2.svc ≠ 0xD4 ∧ (execSimple d s).2.svc ≠ 0xDB ∧ (execSimple d s).2.svc ≠ 0xCE := by
  have key : ∀ self svc isRead isFrag p ty n off data,
      (execTag d self svc isRead isFrag p ty n off data).2.svc = svc := by
    intro self svc isRead isFrag p ty n off data
    unfold execTag
    split
    · rfl
    · split
      · rfl
      · split <;> rfl
  cases s <;> simp only [isTagSvc, Bool.false_eq_true] at hs <;>
    simp only [execSimple, execSimpleAt, key] <;> decide

theorem runSingly_reads (d : Dev) (ps : List Path) :
    runSingly d (ps.map fun p => Simple.readTag p 1) = (d, ps.map fun p => (execSimple d (.readTag p 1)).2) := by
  induction ps with
  | nil => rfl
  | cons p rest ih =>
    have h1 : (execSimple d (.readTag p 1)).1 = d := by
      unfold execSimple execSimpleAt; exact execTag_read_noop _ _ _ _ _ _ _
    have h2 : execSimple d (.readTag p 1) = (d, (execSimple d (.readTag p 1)).2) := Prod.ext h1 rfl
    simp only [List.map_cons, runSingly]
    rw [h2]
    simp only [ih]

end Cpppo.Interop
