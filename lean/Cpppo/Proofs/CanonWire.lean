import Cpppo.Proofs.ExecReply
import Cpppo.Proofs.Canon
/-! Canonical stored values of the integer, BOOL and string types survive the wire. -/
namespace Cpppo.Interop
open Cpppo Cpppo.Logix Cpppo.Fields

theorem pow256 (k : Nat) : 256 ^ k = 2 ^ (8 * k) := by
  rw [Nat.pow_mul]

theorem unpackInt_packInt (s : Bool) (k : Nat) (hk : 1 ≤ k) (i : Int) (b : Bytes)
    (h : Bytes.packInt s k i = some b) : Bytes.unpackInt s k b = i := by
  have h2 : (2 : Nat) ^ (8 * k) = 2 * 2 ^ (8 * k - 1) := by
    have : 8 * k = (8 * k - 1) + 1 := by omega
    conv => lhs; rw [this, Nat.pow_succ]
    omega
  unfold Bytes.packInt at h
  cases s with
  | true =>
    simp only [↓reduceIte] at h
    split at h
    · rename_i hr
      simp only [Option.some.injEq] at h; subst h
      have hlt : Bytes.ofSigned k i < 256 ^ k := by
        rw [pow256]; unfold Bytes.ofSigned; split <;> omega
      simp only [Bytes.unpackInt, ↓reduceIte]
      rw [leNat_le k _ hlt]
      unfold Bytes.toSigned Bytes.ofSigned
      split <;> split <;> omega
    · simp at h
  | false =>
    simp only [Bool.false_eq_true, ↓reduceIte] at h
    split at h
    · rename_i hr
      simp only [Option.some.injEq] at h; subst h
      have hlt : i.toNat < 256 ^ k := by rw [pow256]; omega
      simp only [Bytes.unpackInt, Bool.false_eq_true, ↓reduceIte, leNat_le k _ hlt]
      omega
    · simp at h

theorem wireOk_int (t : CipType) (hi : t.isInt = true) (i : Int) (b : Bytes)
    (h : Bytes.packInt t.signed t.size i = some b) : wireOk t (.int i) = true := by
  have hsz : 1 ≤ t.size := by cases t <;> simp [CipType.isInt] at hi <;> decide
  have hcf : chunkFn t = some (t.size, fun c => .int (Bytes.unpackInt t.signed t.size c)) := by
    cases t <;> simp [CipType.isInt] at hi <;> rfl
  have henc : Val.encode t (.int i) = some b := by
    cases t <;> simp [CipType.isInt] at hi <;> simp [Val.encode, CipType.isInt, h]
  have hk := decodeVals_fixed t _ _ hcf b
  have hlen := packInt_length _ _ _ _ h
  simp only [wireOk, henc, beq_iff_eq]
  rw [hk.1, decodeFixed_single _ hk.2 _ b hlen, unpackInt_packInt _ _ hsz i b h]

/-- a canonical stored element of a non-float tag survives the wire -/
theorem canon_wireOk (t : CipType) (hf : t ≠ .real ∧ t ≠ .lreal) (v : Val) (h : Val.conv t v = some v) :
    wireOk t v = true := by
  cases t with
  | real => exact absurd rfl hf.1
  | lreal => exact absurd rfl hf.2
  | bool =>
    cases v <;> simp [Val.conv] at h
    rename_i b
    cases b <;> decide
  | sstring =>
    cases v <;> simp [Val.conv] at h
    rename_i s
    have he : Val.encode .sstring (.str s) = some (s.length :: s) := by simp [Val.encode, h]
    obtain ⟨s', hs', hne, hd⟩ := decodeStr_enc .sstring rfl (.str s) _ [] he
    simp only [Val.str.injEq] at hs'; subst hs'
    have := decodeStrs_cons .sstring (s.length :: s) [] s hne hd
    simp only [List.append_nil] at this
    simp only [wireOk, he, beq_iff_eq, decodeVals, this]
    simp [decodeStrs]
  | string =>
    cases v <;> simp [Val.conv] at h
    rename_i s
    have he : Val.encode .string (.str s) =
        some (Bytes.le 2 s.length ++ s ++ (if s.length % 2 = 1 then [0] else [])) := by simp [Val.encode, h]
    obtain ⟨s', hs', hne, hd⟩ := decodeStr_enc .string rfl (.str s) _ [] he
    simp only [Val.str.injEq] at hs'; subst hs'
    have := decodeStrs_cons .string _ [] s hne hd
    simp only [List.append_nil] at this
    simp only [wireOk, he, beq_iff_eq, decodeVals, this]
    simp [decodeStrs]
  | sint | int | dint | lint | usint | uint | udint | ulint =>
    all_goals
      (cases v <;> simp only [Val.conv, Val.convInt, Option.map_eq_some_iff] at h <;>
        first
        | (obtain ⟨b, hb, _⟩ := h; exact wireOk_int _ rfl _ b hb)
        | simp at h)

/-- a well-formed tag of a non-float type survives the wire -/
theorem tagWireOk_of_wf (t : Tag) (hwf : t.WF) (hf : t.ty ≠ .real ∧ t.ty ≠ .lreal) : tagWireOk t = true := by
  simp only [tagWireOk, List.all_eq_true]
  intro v hv
  exact canon_wireOk t.ty hf v (hwf.1 v hv)

end Cpppo.Interop
