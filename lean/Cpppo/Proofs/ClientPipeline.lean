import Cpppo.Proofs.ClientIssue
import Cpppo.Proofs.PyText
/-!
Lemmas about `pipeline` / `synchronous` (property C12): an invariant over the
`while issuer or inflight` loop showing that, whatever the depth, the harvested sequence is the zip of
the issued items with the replies of the in-order device.
-/
namespace Cpppo.Client

variable {α σ ρ : Type}

def tagged (i : Nat) (rs : List ρ) : List (Nat × ρ) := rs.map fun r => (i, r)

/-- the replies of the device to the packets not yet sent, tagged with the packet index -/
def future (step : σ → α → σ × ρ) : σ → List (Packet α) → List (Nat × ρ)
  | _, [] => []
  | s, p :: ps =>
    tagged p.index (runMembers step s p.members).2 ++ future step (runMembers step s p.members).1 ps

def itemEvents (its : List (Nat × α)) : List (Event α) := its.map fun it => Event.item it.1 it.2

def mk (it : Nat × α) (rp : Nat × ρ) : Nat × ρ := (it.1, rp.2)

theorem runMembers_length (step : σ → α → σ × ρ) (s : σ) (as : List α) :
    (runMembers step s as).2.length = as.length := by
  induction as generalizing s with
  | nil => rfl
  | cons a as ih => simp [runMembers, ih]

theorem runMembers_append (step : σ → α → σ × ρ) (s : σ) (as bs : List α) :
    runMembers step s (as ++ bs) =
      ((runMembers step (runMembers step s as).1 bs).1,
       (runMembers step s as).2 ++ (runMembers step (runMembers step s as).1 bs).2) := by
  induction as generalizing s with
  | nil => simp [runMembers]
  | cons a as ih => simp [runMembers, ih]

/-- the bodies of all future replies are the sequential run over all members -/
theorem future_bodies (step : σ → α → σ × ρ) (s : σ) (ps : List (Packet α)) :
    (future step s ps).map Prod.snd = (runMembers step s (flatMembers ps)).2 := by
  induction ps generalizing s with
  | nil => rfl
  | cons p ps ih =>
    simp only [future, flatMembers, List.flatMap_cons, List.map_append, runMembers_append]
    rw [ih]
    simp [tagged, flatMembers, Function.comp_def]

theorem future_length (step : σ → α → σ × ρ) (s : σ) (ps : List (Packet α)) :
    (future step s ps).length = (flatItems ps).length := by
  induction ps generalizing s with
  | nil => rfl
  | cons p ps ih =>
    simp [future, flatItems, tagged, runMembers_length, ih] at ih ⊢

theorem eventsOf_cons (p : Packet α) (ps : List (Packet α)) :
    eventsOf (p :: ps) = Event.send p :: itemEvents (p.members.map fun a => (p.index, a)) ++ eventsOf ps := by
  simp [eventsOf, packetEvents, itemEvents, Function.comp_def]

theorem pull_nil (step : σ → α → σ × ρ) (s : σ) (w : List (Nat × ρ)) :
    pull step ([] : List (Event α)) s w = none := rfl

theorem pull_item (step : σ → α → σ × ρ) (it : Nat × α) (its : List (Nat × α))
    (es : List (Event α)) (s : σ) (w : List (Nat × ρ)) :
    pull step (itemEvents (it :: its) ++ es) s w = some (it, itemEvents its ++ es, s, w) := by
  simp [itemEvents, pull]

theorem pull_packet (step : σ → α → σ × ρ) (p : Packet α) (ps : List (Packet α)) (a : α)
    (as : List α) (h : p.members = a :: as) (s : σ) (w : List (Nat × ρ)) :
    pull step (eventsOf (p :: ps)) s w =
      some ((p.index, a), itemEvents (as.map fun b => (p.index, b)) ++ eventsOf ps,
            (runMembers step s p.members).1, w ++ tagged p.index (runMembers step s p.members).2) := by
  rw [eventsOf_cons, h]
  simp only [pull, List.map_cons, List.cons_append]
  rw [← h]
  have := pull_item step (p.index, a) (as.map fun b => (p.index, b)) (eventsOf ps)
    (runMembers step s p.members).1 (w ++ tagged p.index (runMembers step s p.members).2)
  simpa [itemEvents, tagged] using this

/-! ### the loop invariant -/

structure Inv (st : PState α σ ρ) (its : List (Nat × α)) (ps : List (Packet α)) : Prop where
  ev : st.events = itemEvents its ++ eventsOf ps
  ne : ∀ p ∈ ps, p.members ≠ []
  wire : (st.inflight ++ its).map Prod.fst = st.wire.map Prod.fst
  harv : st.harv = true
  cnt : st.requests = st.complete + st.inflight.length
  live : st.live = true ∨ (its = [] ∧ ps = [])
  okI : ∀ it ∈ st.inflight ++ its, ctxEq it.1 it.1 = true
  okP : ∀ p ∈ ps, ctxEq p.index p.index = true

def expect (step : σ → α → σ × ρ) (st : PState α σ ρ) (its : List (Nat × α))
    (ps : List (Packet α)) : List (Nat × ρ) :=
  st.out ++ List.zipWith mk (st.inflight ++ its ++ flatItems ps) (st.wire ++ future step st.srv ps)

def meas (st : PState α σ ρ) (its : List (Nat × α)) (ps : List (Packet α)) : Nat :=
  2 * (its.length + (eventsOf ps).length) + st.inflight.length + (if st.live then 1 else 0)

/-- the issuing half of an iteration keeps the invariant and the expected result -/
theorem issueStep_inv (step : σ → α → σ × ρ) (st : PState α σ ρ) (its : List (Nat × α))
    (ps : List (Packet α)) (inv : Inv st its ps) :
    ∃ its1 ps1, Inv (issueStep step st) its1 ps1
      ∧ expect step (issueStep step st) its1 ps1 = expect step st its ps
      ∧ meas (issueStep step st) its1 ps1 + 1 ≤ meas st its ps + (if st.live then 0 else 1)
      ∧ ((issueStep step st).inflight = [] → (issueStep step st).live = false) := by
  cases hl : st.live with
  | false =>
    have h1 : issueStep step st = st := by simp [issueStep, hl]
    rw [h1]
    exact ⟨its, ps, inv, rfl, by simp, fun _ => hl⟩
  | true =>
    cases its with
    | cons it its' =>
      have hp : pull step st.events st.srv st.wire
          = some (it, itemEvents its' ++ eventsOf ps, st.srv, st.wire) := by
        rw [inv.ev]; exact pull_item step it its' _ _ _
      have h1 : issueStep step st =
          { st with events := itemEvents its' ++ eventsOf ps, curr := (it.1 : Int),
                    requests := st.requests + 1, inflight := st.inflight ++ [it] } := by
        simp [issueStep, hl, hp]
      rw [h1]
      refine ⟨its', ps, ⟨rfl, inv.ne, ?_, inv.harv, ?_, Or.inl hl, ?_, inv.okP⟩, ?_, ?_, ?_⟩
      · simpa [List.append_assoc] using inv.wire
      · simp [inv.cnt]; omega
      · intro x hx; exact inv.okI x (by simpa [List.append_assoc] using hx)
      · simp [expect, List.append_assoc]
      · simp [meas, hl]; omega
      · intro h; simp at h
    | nil =>
      cases ps with
      | nil =>
        have hp : pull step st.events st.srv st.wire = none := by
          rw [inv.ev]; rfl
        have h1 : issueStep step st = { st with live := false } := by
          simp [issueStep, hl, hp]
        rw [h1]
        refine ⟨[], [], ⟨inv.ev, inv.ne, inv.wire, inv.harv, inv.cnt, Or.inr ⟨rfl, rfl⟩, inv.okI,
          inv.okP⟩, rfl, ?_, fun _ => rfl⟩
        simp [meas, hl]
      | cons p ps' =>
        have hne := inv.ne p (by simp)
        cases hm : p.members with
        | nil => exact absurd hm hne
        | cons a as =>
          have hp : pull step st.events st.srv st.wire
              = some ((p.index, a), itemEvents (as.map fun b => (p.index, b)) ++ eventsOf ps',
                      (runMembers step st.srv p.members).1,
                      st.wire ++ tagged p.index (runMembers step st.srv p.members).2) := by
            rw [inv.ev]; exact pull_packet step p ps' a as hm _ _
          have h1 : issueStep step st =
              { st with events := itemEvents (as.map fun b => (p.index, b)) ++ eventsOf ps',
                        srv := (runMembers step st.srv p.members).1,
                        wire := st.wire ++ tagged p.index (runMembers step st.srv p.members).2,
                        curr := (p.index : Int), requests := st.requests + 1,
                        inflight := st.inflight ++ [(p.index, a)] } := by
            simp [issueStep, hl, hp]
          rw [h1]
          have hlen := runMembers_length step st.srv p.members
          refine ⟨as.map fun b => (p.index, b), ps', ⟨rfl, fun q hq => inv.ne q (by simp [hq]), ?_,
            inv.harv, ?_, Or.inl hl, ?_, fun q hq => inv.okP q (by simp [hq])⟩, ?_, ?_, ?_⟩
          · -- the wire: old part for the old inflight, the new replies for the packet's items
            have hold := inv.wire
            simp only [List.append_nil] at hold
            have hnew : p.index :: (as.map fun b => (p.index, b)).map Prod.fst
                = (tagged p.index (runMembers step st.srv p.members).2).map Prod.fst := by
              simp only [tagged, List.map_map, Function.comp_def, List.map_const', hlen]
              rw [hm]; simp [List.replicate_succ]
            simp only [List.append_assoc, List.singleton_append, List.map_append, List.map_cons]
            rw [hold, hnew]
          · simp [inv.cnt]; omega
          · intro x hx
            simp only [List.append_assoc, List.singleton_append, List.mem_append, List.mem_cons,
              List.mem_map] at hx
            rcases hx with hx | rfl | ⟨b, _, rfl⟩
            · exact inv.okI x (by simp [hx])
            · exact inv.okP p (by simp)
            · exact inv.okP p (by simp)
          · simp [expect, flatItems, future, hm, List.append_assoc]
          · simp [meas, hl, eventsOf_cons, itemEvents, hm]; omega
          · intro h; simp at h

/-- the harvesting half of an iteration, given the induction hypothesis for the remaining fuel -/
theorem harvest_phase (step : σ → α → σ × ρ) (depth : Int) (fuel : Nat)
    (IH : ∀ (st : PState α σ ρ) its ps, Inv st its ps → meas st its ps < fuel →
      pipeLoop step depth fuel st = (expect step st its ps, Outcome.ok))
    (st1 : PState α σ ρ) (its : List (Nat × α)) (ps : List (Packet α)) (inv : Inv st1 its ps)
    (hm : meas st1 its ps < fuel + 1) (hne : st1.inflight = [] → st1.live = false) :
    (match harvestNext st1 with
      | HarvestResult.yield i r st2 =>
        pipeLoop step depth fuel
          { st2 with last := (i : Int), complete := st2.complete + 1, out := st2.out ++ [(i, r)] }
      | HarvestResult.stop st2 => finish st2
      | HarvestResult.fail st2 => (st2.out, Outcome.mismatch))
    = (expect step st1 its ps, Outcome.ok) := by
  cases hin : st1.inflight with
  | nil =>
    have hl := hne hin
    have hip : its = [] ∧ ps = [] := by
      rcases inv.live with h | h
      · rw [hl] at h; cases h
      · exact h
    obtain ⟨rfl, rfl⟩ := hip
    have hw : st1.wire = [] := by
      have := inv.wire
      rw [hin] at this
      simpa using this.symm
    have hc := inv.cnt
    rw [hin] at hc
    simp [harvestNext, inv.harv, hin, finish, expect, hw, flatItems, future, hc]
  | cons hd tl =>
    have hw := inv.wire
    rw [hin] at hw
    cases hwire : st1.wire with
    | nil => rw [hwire] at hw; simp at hw
    | cons rp w =>
      rw [hwire] at hw
      simp only [List.cons_append, List.map_cons, List.cons.injEq] at hw
      obtain ⟨hhd, htl⟩ := hw
      · 
        have hok : ctxEq hd.1 rp.1 = true := by
          rw [← hhd]; exact inv.okI hd (by simp [hin])
        have hh : harvestNext st1 =
            HarvestResult.yield hd.1 rp.2 { st1 with inflight := tl, wire := w } := by
          obtain ⟨i, a⟩ := hd
          obtain ⟨j, r⟩ := rp
          simp only at hok
          simp [harvestNext, inv.harv, hin, hwire, hok]
        rw [hh]
        simp only
        let st3 : PState α σ ρ :=
          { st1 with inflight := tl, wire := w, last := (hd.1 : Int),
                     complete := st1.complete + 1, out := st1.out ++ [(hd.1, rp.2)] }
        have inv' : Inv st3 its ps :=
          ⟨inv.ev, inv.ne, htl, inv.harv, by have := inv.cnt; simp [hin, st3] at this ⊢; omega,
           inv.live, fun x hx => inv.okI x (by
             simp only [hin, List.cons_append, List.mem_cons]; exact Or.inr hx), inv.okP⟩
        have := IH st3 its ps inv' (by simp [meas, hin, st3] at hm ⊢; omega)
        rw [this]
        simp [expect, hin, hwire, mk, List.append_assoc, st3]

theorem pipeLoop_spec (step : σ → α → σ × ρ) (depth : Int) :
    ∀ (fuel : Nat) (st : PState α σ ρ) (its : List (Nat × α)) (ps : List (Packet α)),
      Inv st its ps → meas st its ps < fuel →
      pipeLoop step depth fuel st = (expect step st its ps, Outcome.ok) := by
  intro fuel
  induction fuel with
  | zero => intro st its ps _ h; exact absurd h (Nat.not_lt_zero _)
  | succ fuel IH =>
    intro st its ps inv hm
    rw [pipeLoop]
    by_cases hdone : (!st.live && st.inflight.isEmpty) = true
    · rw [if_pos hdone]
      simp only [Bool.and_eq_true, Bool.not_eq_eq_eq_not, Bool.not_true, List.isEmpty_iff] at hdone
      obtain ⟨hl, hin⟩ := hdone
      have hip : its = [] ∧ ps = [] := by
        rcases inv.live with h | h
        · rw [hl] at h; cases h
        · exact h
      obtain ⟨rfl, rfl⟩ := hip
      have hw : st.wire = [] := by
        have := inv.wire
        rw [hin] at this
        simpa using this.symm
      have hc := inv.cnt
      rw [hin] at hc
      simp [finish, expect, hin, hw, flatItems, future, hc]
    · rw [if_neg hdone]
      obtain ⟨its1, ps1, inv1, hexp, hmeas, hne⟩ := issueStep_inv step st its ps inv
      have hm1 : meas (issueStep step st) its1 ps1 < fuel + 1 := by
        cases hl : st.live with
        | true => simp [hl] at hmeas; omega
        | false =>
          -- not live: nothing was issued, and the loop condition says something is in flight
          have h1 : issueStep step st = st := by simp [issueStep, hl]
          have hip : its = [] ∧ ps = [] := by
            rcases inv.live with h | h
            · rw [hl] at h; cases h
            · exact h
          simp [hl] at hmeas
          omega
      simp only
      rw [← hexp]
      split
      · exact harvest_phase step depth fuel IH _ its1 ps1 inv1 hm1 hne
      · rename_i hc
        -- no harvest this round: the issuer is live and something was issued
        have hlive : (issueStep step st).live = true := by
          simp only [Bool.or_eq_true, decide_eq_true_eq, Bool.not_eq_eq_eq_not, Bool.not_true,
            not_or, Bool.not_eq_false] at hc
          exact hc.2
        have hstl : st.live = true := by
          cases hl : st.live with
          | true => rfl
          | false =>
            have h1 : issueStep step st = st := by simp [issueStep, hl]
            rw [h1, hl] at hlive; cases hlive
        apply IH _ its1 ps1 inv1
        simp [hstl] at hmeas
        omega

/-! ### from the initial state -/

theorem pipeInit_inv (index : Nat) (s0 : σ) (ps : List (Packet α))
    (hne : ∀ p ∈ ps, p.members ≠ []) (hok : ∀ p ∈ ps, ctxEq p.index p.index = true) :
    Inv (pipeInit (ρ := ρ) index s0 ps) [] ps :=
  ⟨by simp [pipeInit, itemEvents], hne, by simp [pipeInit], rfl, by simp [pipeInit], Or.inl rfl,
   by simp [pipeInit], hok⟩

theorem pipeline_spec (step : σ → α → σ × ρ) (depth : Int) (index : Nat) (s0 : σ)
    (ps : List (Packet α)) (hne : ∀ p ∈ ps, p.members ≠ [])
    (hok : ∀ p ∈ ps, ctxEq p.index p.index = true) :
    pipeline step depth index s0 ps
      = (List.zipWith mk (flatItems ps) (future step s0 ps), Outcome.ok) := by
  unfold pipeline
  rw [pipeLoop_spec step depth _ _ [] ps (pipeInit_inv index s0 ps hne hok)]
  · simp [expect, pipeInit]
  · simp [meas, pipeInit, pipeFuel]

/-! ### synchronous -/

theorem syncGo_spec (step : σ → α → σ × ρ) :
    ∀ (fuel : Nat) (its : List (Nat × α)) (ps : List (Packet α)) (s : σ) (w out : List (Nat × ρ)),
      (∀ p ∈ ps, p.members ≠ []) →
      its.map Prod.fst = w.map Prod.fst →
      (∀ it ∈ its, ctxEq it.1 it.1 = true) → (∀ p ∈ ps, ctxEq p.index p.index = true) →
      its.length + (eventsOf ps).length < fuel →
      syncGo step fuel (itemEvents its ++ eventsOf ps) s w out
        = (out ++ List.zipWith mk (its ++ flatItems ps) (w ++ future step s ps), Outcome.ok) := by
  intro fuel
  induction fuel with
  | zero => intro its ps s w out _ _ _ _ h; exact absurd h (Nat.not_lt_zero _)
  | succ fuel IH =>
    intro its ps s w out hne hw hokI hokP hm
    rw [syncGo]
    cases its with
    | cons it its' =>
      rw [pull_item]
      simp only
      cases w with
      | nil => simp at hw
      | cons rp w' =>
        simp only [List.map_cons, List.cons.injEq] at hw
        obtain ⟨hhd, htl⟩ := hw
        have hok : ctxEq it.1 rp.1 = true := by rw [← hhd]; exact hokI it (by simp)
        obtain ⟨i, a⟩ := it
        obtain ⟨j, r⟩ := rp
        simp only at hok
        simp only [hok, if_true]
        rw [IH its' ps s w' _ hne htl (fun x hx => hokI x (by simp [hx])) hokP
          (by simp at hm; omega)]
        simp [mk, List.append_assoc]
    | nil =>
      have hwn : w = [] := by simpa using hw.symm
      subst hwn
      cases ps with
      | nil =>
        simp [itemEvents, eventsOf, pull, flatItems, future]
      | cons p ps' =>
        have hpne := hne p (by simp)
        cases hmem : p.members with
        | nil => exact absurd hmem hpne
        | cons a as =>
          simp only [itemEvents, List.map_nil, List.nil_append]
          rw [pull_packet step p ps' a as hmem]
          simp only [List.nil_append]
          have hlen := runMembers_length step s p.members
          cases hrs : (runMembers step s p.members).2 with
          | nil => rw [hrs, hmem] at hlen; simp at hlen
          | cons r rs =>
            simp only [tagged, List.map_cons]
            have hok : ctxEq p.index p.index = true := hokP p (by simp)
            simp only [hok, if_true]
            have hl : as.length = rs.length := by
              rw [hrs, hmem] at hlen; simpa using hlen.symm
            have hfw : (as.map fun b => (p.index, b)).map Prod.fst
                = (rs.map fun r => (p.index, r)).map Prod.fst := by
              simp only [List.map_map, Function.comp_def, List.map_const', hl]
            rw [IH (as.map fun b => (p.index, b)) ps' _ _ _ (fun q hq => hne q (by simp [hq])) hfw
              (by intro x hx; simp only [List.mem_map] at hx; obtain ⟨b, _, rfl⟩ := hx; exact hok)
              (fun q hq => hokP q (by simp [hq]))
              (by simp [eventsOf_cons, itemEvents, hmem] at hm ⊢; omega)]
            have hrs' := hrs
            rw [hmem] at hrs'
            simp only [flatItems, future, List.flatMap_cons, hmem, hrs', tagged, List.map_cons,
              List.cons_append, List.zipWith_cons_cons, mk, List.nil_append, List.append_assoc]

theorem synchronous_spec (step : σ → α → σ × ρ) (s0 : σ) (ps : List (Packet α))
    (hne : ∀ p ∈ ps, p.members ≠ []) (hok : ∀ p ∈ ps, ctxEq p.index p.index = true) :
    synchronous step s0 ps
      = (List.zipWith mk (flatItems ps) (future step s0 ps), Outcome.ok) := by
  unfold synchronous
  have := syncGo_spec step ((eventsOf ps).length + 1) [] ps s0 [] [] hne rfl
    (by simp) hok (by simp)
  simpa [itemEvents] using this

end Cpppo.Client

namespace Cpppo.Client
open Cpppo.Py

variable {α σ ρ : Type}

theorem zipWith_mk_snd : ∀ (its : List (Nat × α)) (rs : List (Nat × ρ)), its.length = rs.length →
    (List.zipWith mk its rs).map Prod.snd = rs.map Prod.snd := by
  intro its
  induction its with
  | nil => intro rs h; cases rs with
    | nil => rfl
    | cons _ _ => simp at h
  | cons it its ih => intro rs h; cases rs with
    | nil => simp at h
    | cons r rs => simp [mk, ih rs (by simpa using h)]

theorem zipWith_mk_fst : ∀ (its : List (Nat × α)) (rs : List (Nat × ρ)), its.length = rs.length →
    (List.zipWith mk its rs).map Prod.fst = its.map Prod.fst := by
  intro its
  induction its with
  | nil => intro rs _; rfl
  | cons it its ih => intro rs h; cases rs with
    | nil => simp at h
    | cons r rs => simp [mk, ih rs (by simpa using h)]

theorem flatItems_snd (ps : List (Packet α)) : (flatItems ps).map Prod.snd = flatMembers ps := by
  induction ps with
  | nil => rfl
  | cons p ps ih =>
    simp only [flatItems, flatMembers, List.flatMap_cons, List.map_append] at ih ⊢
    rw [ih]
    simp [Function.comp_def]

/-- `str(index)` fits the 8-byte sender context below 10^8 -/
theorem ctxEq_of_lt (i : Nat) (h : i < 10 ^ 8) : ctxEq i i = true := by
  unfold ctxEq
  have hl : (decimal i).length ≤ 8 := by
    unfold decimal
    rw [List.length_map]
    exact toDigits_length 10 (by omega) i 8 (by omega) h
  rw [List.take_of_length_le hl]
  exact beq_self_eq_true _

end Cpppo.Client
