import Cpppo.Model.ClientRx
/-! helper lemmas for the client receive model (C13) -/
namespace Cpppo.ClientRx

/-! ### little-endian fields -/

theorem leNat_le16 (n : Nat) (h : n < 65536) : leNat (le16 n) = n := by
  simp only [le16, leNat]; omega

theorem leNat_le32 (n : Nat) (h : n < 4294967296) : leNat (le32 n) = n := by
  simp only [le32, leNat]; omega

@[simp] theorem le16_length (n : Nat) : (le16 n).length = 2 := rfl
@[simp] theorem le32_length (n : Nat) : (le32 n).length = 4 := rfl

/-! ### `splitN` -/

theorem splitN_append (a b : Bytes) : splitN a.length (a ++ b) = some (a, b) := by
  simp [splitN]

theorem splitN_append' (n : Nat) (a b : Bytes) (h : a.length = n) : splitN n (a ++ b) = some (a, b) := by
  subst h; exact splitN_append a b

/-- what `splitN` returns is a split of its input -/
theorem splitN_some {n : Nat} {bs a b : Bytes} (h : splitN n bs = some (a, b)) :
    bs = a ++ b ∧ a.length = n := by
  unfold splitN at h
  split at h
  · simp at h
  · simp only [Option.some.injEq, Prod.mk.injEq] at h
    obtain ⟨rfl, rfl⟩ := h
    refine ⟨(List.take_append_drop n bs).symm, ?_⟩
    simp only [List.length_take]; omega

/-- more input behind does not change a split that already succeeded -/
theorem splitN_mono {n : Nat} {bs a b : Bytes} (x : Bytes) (h : splitN n bs = some (a, b)) :
    splitN n (bs ++ x) = some (a, b ++ x) := by
  obtain ⟨rfl, rfl⟩ := splitN_some h
  rw [List.append_assoc]; exact splitN_append a (b ++ x)

/-! ### `takeFrame` -/

theorem encodeFrame_length (f : Frame) (h : f.WF) :
    (encodeFrame f).length = 24 + f.payload.length := by
  obtain ⟨_, _, _, _, hc, _⟩ := h
  simp only [encodeFrame, List.length_append, le16_length, le32_length, hc]; omega

/-- **Round trip of the framing**: a complete frame at the front of the input is taken off exactly. -/
theorem takeFrame_encode (f : Frame) (h : f.WF) (rest : Bytes) :
    takeFrame (encodeFrame f ++ rest) = some (f, rest) := by
  obtain ⟨h1, h2, h3, h4, h5, h6⟩ := h
  unfold takeFrame encodeFrame
  simp only [List.append_assoc]
  rw [splitN_append' 2 _ _ (le16_length _)]; dsimp only
  rw [splitN_append' 2 _ _ (le16_length _)]; dsimp only
  rw [splitN_append' 4 _ _ (le32_length _)]; dsimp only
  rw [splitN_append' 4 _ _ (le32_length _)]; dsimp only
  rw [splitN_append' 8 _ _ h5]; dsimp only
  rw [splitN_append' 4 _ _ (le32_length _)]; dsimp only
  rw [leNat_le16 _ h2, splitN_append]; dsimp only
  rw [leNat_le16 _ h1, leNat_le32 _ h3, leNat_le32 _ h4, leNat_le32 _ h6]

/-- more input behind does not change a frame that was already complete -/
theorem takeFrame_mono {p r : Bytes} {g : Frame} (x : Bytes) (h : takeFrame p = some (g, r)) :
    takeFrame (p ++ x) = some (g, r ++ x) := by
  unfold takeFrame at h ⊢
  split at h
  · simp at h
  rename_i c r1 e1; rw [splitN_mono x e1]; dsimp only
  split at h
  · simp at h
  rename_i l r2 e2; rw [splitN_mono x e2]; dsimp only
  split at h
  · simp at h
  rename_i s r3 e3; rw [splitN_mono x e3]; dsimp only
  split at h
  · simp at h
  rename_i st r4 e4; rw [splitN_mono x e4]; dsimp only
  split at h
  · simp at h
  rename_i cx r5 e5; rw [splitN_mono x e5]; dsimp only
  split at h
  · simp at h
  rename_i o r6 e6; rw [splitN_mono x e6]; dsimp only
  split at h
  · simp at h
  rename_i pl rest e7; rw [splitN_mono x e7]; dsimp only
  simp only [Option.some.injEq, Prod.mk.injEq] at h ⊢
  obtain ⟨h1, h2⟩ := h
  exact ⟨h1, by rw [h2]⟩

/-- a frame taken off the input accounts for 24 header bytes, its payload, and the remainder -/
theorem takeFrame_some_length {p r : Bytes} {g : Frame} (h : takeFrame p = some (g, r)) :
    p.length = 24 + g.payload.length + r.length := by
  unfold takeFrame at h
  split at h
  · simp at h
  rename_i c r1 e1
  split at h
  · simp at h
  rename_i l r2 e2
  split at h
  · simp at h
  rename_i s r3 e3
  split at h
  · simp at h
  rename_i st r4 e4
  split at h
  · simp at h
  rename_i cx r5 e5
  split at h
  · simp at h
  rename_i o r6 e6
  split at h
  · simp at h
  rename_i pl rest e7
  simp only [Option.some.injEq, Prod.mk.injEq] at h
  obtain ⟨rfl, rfl⟩ := h
  obtain ⟨rfl, h1⟩ := splitN_some e1
  obtain ⟨rfl, h2⟩ := splitN_some e2
  obtain ⟨rfl, h3⟩ := splitN_some e3
  obtain ⟨rfl, h4⟩ := splitN_some e4
  obtain ⟨rfl, h5⟩ := splitN_some e5
  obtain ⟨rfl, h6⟩ := splitN_some e6
  obtain ⟨rfl, h7⟩ := splitN_some e7
  simp only [List.length_append]; omega

/-- **A strict prefix of a frame yields no frame**, whatever follows the frame on the wire. -/
theorem takeFrame_strict_prefix (f : Frame) (h : f.WF) (rest : Bytes) (k : Nat)
    (hk : k < (encodeFrame f).length) : takeFrame ((encodeFrame f ++ rest).take k) = none := by
  match hp : takeFrame ((encodeFrame f ++ rest).take k) with
  | none => rfl
  | some (g, r) =>
    exfalso
    have hm := takeFrame_mono ((encodeFrame f ++ rest).drop k) hp
    rw [List.take_append_drop, takeFrame_encode f h rest] at hm
    simp only [Option.some.injEq, Prod.mk.injEq] at hm
    obtain ⟨rfl, hr⟩ := hm
    have hl := congrArg List.length (List.take_append_drop k (encodeFrame f ++ rest))
    have h2 := congrArg List.length hr
    simp only [List.length_append, List.length_take, List.length_drop] at hl h2
    -- the prefix parsed to `f` with remainder `r`: it is `encodeFrame f ++ r`, hence not shorter than the frame
    have hlen := takeFrame_some_length hp
    have hf := encodeFrame_length f h
    simp only [List.length_take, List.length_append] at hlen
    omega

/-! ### `pipeline` is `harvest` plus the completeness assertion, whatever the depth -/

theorem finish_eq (c : Nat) : finish c c = .ok := by simp [finish]

theorem finish_lt {c q : Nat} (h : c < q) : finish c q = .error .incomplete := by
  simp only [finish, beq_iff_eq]; rw [if_neg (by omega)]

theorem drain_eq (P : Frame → Resp) (is : List Iss) (st : CSt) (c q : Nat) (h : q = c + is.length) :
    drain P is st c q = synchronous P is st := by
  induction is generalizing st c q with
  | nil =>
    simp only [List.length_nil, Nat.add_zero] at h; subst h
    simp [drain, synchronous, harvestAll, finish_eq]
  | cons i is ih =>
    simp only [List.length_cons] at h
    unfold drain synchronous harvestAll
    cases hn : harvestNext P i st with
    | yield r st' =>
      have := ih st' (c + 1) q (by omega)
      simp only [this, synchronous]
      rcases harvestAll P is st' with ⟨rs, e, st''⟩
      cases e <;> rfl
    | stop held st' => simp [finish_lt (show c < q by omega)]
    | raise e st' => rfl

theorem fill_eq (P : Frame → Resp) (depth : Nat) (rest inflight : List Iss) (st : CSt) (last : Int)
    (c q : Nat) (h : q = c + inflight.length) :
    fill P depth rest inflight st last c q = synchronous P (inflight ++ rest) st := by
  induction rest generalizing inflight st last c q with
  | nil => simp only [fill, List.append_nil]; exact drain_eq P inflight st c q h
  | cons i rest ih =>
    unfold fill
    split
    · -- harvest one
      cases hin : inflight ++ [i] with
      | nil => simp at hin
      | cons hd tl =>
        have hlen : inflight.length + 1 = tl.length + 1 := by
          have := congrArg List.length hin; simpa using this
        have happ : inflight ++ i :: rest = hd :: (tl ++ rest) := by
          rw [show inflight ++ i :: rest = (inflight ++ [i]) ++ rest by simp, hin]; rfl
        rw [happ]
        dsimp only
        conv => rhs; unfold synchronous harvestAll
        cases hn : harvestNext P hd st with
        | yield r st' =>
          have := ih tl st' (hd.idx : Int) (c + 1) (q + 1) (by omega)
          simp only [this, synchronous]
          rcases harvestAll P (tl ++ rest) st' with ⟨rs, e, st''⟩
          cases e <;> rfl
        | stop held st' => simp [finish_lt (show c < q + 1 by omega)]
        | raise e st' => rfl
    · rw [ih (inflight ++ [i]) st last c (q + 1) (by simp; omega)]
      simp

/-- **The result stream of `pipeline` does not depend on the depth**: it is that of `harvest` over all
issued requests, ended by an error unless every request was paired. -/
theorem pipeline_eq (P : Frame → Resp) (depth index : Nat) (issued : List Iss) (st : CSt) :
    pipeline P depth index issued st = synchronous P issued st := by
  unfold pipeline
  rw [fill_eq P depth issued [] st _ 0 0 (by simp)]; simp

end Cpppo.ClientRx
