import Cpppo.Model.ClientRxSpec
/-! helper lemmas for the client receive model (C13) -/
namespace Cpppo.ClientRx

/-! ### little-endian fields -/

theorem leNat_le16 (n : Nat) (h : n < 65536) : leNat (le16 n) = n := by
  simp only [le16, leNat]; omega

theorem leNat_le32 (n : Nat) (h : n < 4294967296) : leNat (le32 n) = n := by
  simp only [le32, leNat]; omega

@[simp] theorem le16_length (n : Nat) : (le16 n).length = 2 := rfl
@[simp] theorem le32_length (n : Nat) : (le32 n).length = 4 := rfl

/-! ### `splitN` -/

theorem splitN_append (a b : Bytes) : splitN a.length (a ++ b) = some (a, b) := by
  simp [splitN]

theorem splitN_append' (n : Nat) (a b : Bytes) (h : a.length = n) : splitN n (a ++ b) = some (a, b) := by
  subst h; exact splitN_append a b

/-- what `splitN` returns is a split of its input -/
theorem splitN_some {n : Nat} {bs a b : Bytes} (h : splitN n bs = some (a, b)) :
    bs = a ++ b ∧ a.length = n := by
  unfold splitN at h
  split at h
  · simp at h
  · simp only [Option.some.injEq, Prod.mk.injEq] at h
    obtain ⟨rfl, rfl⟩ := h
    refine ⟨(List.take_append_drop n bs).symm, ?_⟩
    simp only [List.length_take]; omega

/-- more input behind does not change a split that already succeeded -/
theorem splitN_mono {n : Nat} {bs a b : Bytes} (x : Bytes) (h : splitN n bs = some (a, b)) :
    splitN n (bs ++ x) = some (a, b ++ x) := by
  obtain ⟨rfl, rfl⟩ := splitN_some h
  rw [List.append_assoc]; exact splitN_append a (b ++ x)

/-! ### `takeFrame` -/

theorem encodeFrame_length (f : Frame) (h : f.WF) :
    (encodeFrame f).length = 24 + f.payload.length := by
  obtain ⟨_, _, _, _, hc, _⟩ := h
  simp only [encodeFrame, List.length_append, le16_length, le32_length, hc]; omega

/-- **Round trip of the framing**: a complete frame at the front of the input is taken off exactly. -/
theorem takeFrame_encode (f : Frame) (h : f.WF) (rest : Bytes) :
    takeFrame (encodeFrame f ++ rest) = some (f, rest) := by
  obtain ⟨h1, h2, h3, h4, h5, h6⟩ := h
  unfold takeFrame encodeFrame
  simp only [List.append_assoc]
  rw [splitN_append' 2 _ _ (le16_length _)]; dsimp only
  rw [splitN_append' 2 _ _ (le16_length _)]; dsimp only
  rw [splitN_append' 4 _ _ (le32_length _)]; dsimp only
  rw [splitN_append' 4 _ _ (le32_length _)]; dsimp only
  rw [splitN_append' 8 _ _ h5]; dsimp only
  rw [splitN_append' 4 _ _ (le32_length _)]; dsimp only
  rw [leNat_le16 _ h2, splitN_append]; dsimp only
  rw [leNat_le16 _ h1, leNat_le32 _ h3, leNat_le32 _ h4, leNat_le32 _ h6]

theorem takeFrame_nil : takeFrame [] = none := rfl

/-- more input behind does not change a frame that was already complete -/
theorem takeFrame_mono {p r : Bytes} {g : Frame} (x : Bytes) (h : takeFrame p = some (g, r)) :
    takeFrame (p ++ x) = some (g, r ++ x) := by
  unfold takeFrame at h ⊢
  split at h
  · simp at h
  rename_i c r1 e1; rw [splitN_mono x e1]; dsimp only
  split at h
  · simp at h
  rename_i l r2 e2; rw [splitN_mono x e2]; dsimp only
  split at h
  · simp at h
  rename_i s r3 e3; rw [splitN_mono x e3]; dsimp only
  split at h
  · simp at h
  rename_i st r4 e4; rw [splitN_mono x e4]; dsimp only
  split at h
  · simp at h
  rename_i cx r5 e5; rw [splitN_mono x e5]; dsimp only
  split at h
  · simp at h
  rename_i o r6 e6; rw [splitN_mono x e6]; dsimp only
  split at h
  · simp at h
  rename_i pl rest e7; rw [splitN_mono x e7]; dsimp only
  simp only [Option.some.injEq, Prod.mk.injEq] at h ⊢
  obtain ⟨h1, h2⟩ := h
  exact ⟨h1, by rw [h2]⟩

/-- a frame taken off the input accounts for 24 header bytes, its payload, and the remainder -/
theorem takeFrame_some_length {p r : Bytes} {g : Frame} (h : takeFrame p = some (g, r)) :
    p.length = 24 + g.payload.length + r.length := by
  unfold takeFrame at h
  split at h
  · simp at h
  rename_i c r1 e1
  split at h
  · simp at h
  rename_i l r2 e2
  split at h
  · simp at h
  rename_i s r3 e3
  split at h
  · simp at h
  rename_i st r4 e4
  split at h
  · simp at h
  rename_i cx r5 e5
  split at h
  · simp at h
  rename_i o r6 e6
  split at h
  · simp at h
  rename_i pl rest e7
  simp only [Option.some.injEq, Prod.mk.injEq] at h
  obtain ⟨rfl, rfl⟩ := h
  obtain ⟨rfl, h1⟩ := splitN_some e1
  obtain ⟨rfl, h2⟩ := splitN_some e2
  obtain ⟨rfl, h3⟩ := splitN_some e3
  obtain ⟨rfl, h4⟩ := splitN_some e4
  obtain ⟨rfl, h5⟩ := splitN_some e5
  obtain ⟨rfl, h6⟩ := splitN_some e6
  obtain ⟨rfl, h7⟩ := splitN_some e7
  simp only [List.length_append]; omega

/-- **A strict prefix of a frame yields no frame**, whatever follows the frame on the wire. -/
theorem takeFrame_strict_prefix (f : Frame) (h : f.WF) (rest : Bytes) (k : Nat)
    (hk : k < (encodeFrame f).length) : takeFrame ((encodeFrame f ++ rest).take k) = none := by
  match hp : takeFrame ((encodeFrame f ++ rest).take k) with
  | none => rfl
  | some (g, r) =>
    exfalso
    have hm := takeFrame_mono ((encodeFrame f ++ rest).drop k) hp
    rw [List.take_append_drop, takeFrame_encode f h rest] at hm
    simp only [Option.some.injEq, Prod.mk.injEq] at hm
    obtain ⟨rfl, hr⟩ := hm
    have hl := congrArg List.length (List.take_append_drop k (encodeFrame f ++ rest))
    have h2 := congrArg List.length hr
    simp only [List.length_append, List.length_take, List.length_drop] at hl h2
    -- the prefix parsed to `f` with remainder `r`: it is `encodeFrame f ++ r`, hence not shorter than the frame
    have hlen := takeFrame_some_length hp
    have hf := encodeFrame_length f h
    simp only [List.length_take, List.length_append] at hlen
    omega

/-! ### `pipeline` is `harvest` plus the completeness assertion, whatever the depth -/

theorem finish_eq (c : Nat) : finish c c = .ok := by simp [finish]

theorem finish_lt {c q : Nat} (h : c < q) : finish c q = .error .incomplete := by
  simp only [finish, beq_iff_eq]; rw [if_neg (by omega)]

theorem drain_eq (P : Frame → Resp) (is : List Iss) (st : CSt) (c q : Nat) (h : q = c + is.length) :
    drain P is st c q = synchronous P is st := by
  induction is generalizing st c q with
  | nil =>
    simp only [List.length_nil, Nat.add_zero] at h; subst h
    simp [drain, synchronous, harvestAll, finish_eq]
  | cons i is ih =>
    simp only [List.length_cons] at h
    unfold drain synchronous harvestAll
    cases hn : harvestNext P i st with
    | yield r st' =>
      have := ih st' (c + 1) q (by omega)
      simp only [this, synchronous]
      rcases harvestAll P is st' with ⟨rs, e, st''⟩
      cases e <;> rfl
    | stop held st' => simp [finish_lt (show c < q by omega)]
    | raise e st' => rfl

theorem fill_eq (P : Frame → Resp) (depth : Nat) (rest inflight : List Iss) (st : CSt) (last : Int)
    (c q : Nat) (h : q = c + inflight.length) :
    fill P depth rest inflight st last c q = synchronous P (inflight ++ rest) st := by
  induction rest generalizing inflight st last c q with
  | nil => simp only [fill, List.append_nil]; exact drain_eq P inflight st c q h
  | cons i rest ih =>
    unfold fill
    split
    · -- harvest one
      cases hin : inflight ++ [i] with
      | nil => simp at hin
      | cons hd tl =>
        have hlen : inflight.length + 1 = tl.length + 1 := by
          have := congrArg List.length hin; simpa using this
        have happ : inflight ++ i :: rest = hd :: (tl ++ rest) := by
          rw [show inflight ++ i :: rest = (inflight ++ [i]) ++ rest by simp, hin]; rfl
        rw [happ]
        dsimp only
        conv => rhs; unfold synchronous harvestAll
        cases hn : harvestNext P hd st with
        | yield r st' =>
          have := ih tl st' (hd.idx : Int) (c + 1) (q + 1) (by omega)
          simp only [this, synchronous]
          rcases harvestAll P (tl ++ rest) st' with ⟨rs, e, st''⟩
          cases e <;> rfl
        | stop held st' => simp [finish_lt (show c < q + 1 by omega)]
        | raise e st' => rfl
    · rw [ih (inflight ++ [i]) st last c (q + 1) (by simp; omega)]
      simp

/-- **The result stream of `pipeline` does not depend on the depth**: it is that of `harvest` over all
issued requests, ended by an error unless every request was paired. -/
theorem pipeline_eq (P : Frame → Resp) (depth index : Nat) (issued : List Iss) (st : CSt) :
    pipeline P depth index issued st = synchronous P issued st := by
  unfold pipeline
  rw [fill_eq P depth issued [] st _ 0 0 (by simp)]; simp

/-! ### what `harvest` yields, for every input whatsoever -/

theorem harvestNext_yield {P : Frame → Resp} {i : Iss} {st st' : CSt} {r : Res}
    (h : harvestNext P i st = .yield r st') : r.iss = i ∧ Matches i (r.ctx, r.rpy) := by
  unfold harvestNext at h
  split at h
  · split at h
    · rename_i c _ _ hm
      simp only [HNext.yield.injEq] at h
      obtain ⟨rfl, _⟩ := h
      exact ⟨rfl, hm⟩
    · simp at h
  · simp at h
  · simp at h

/-- every yielded record passed the context/service assertion against the request it is yielded for -/
theorem harvestAll_matches (P : Frame → Resp) (is : List Iss) (st : CSt) :
    ∀ r ∈ (harvestAll P is st).1, Matches r.iss (r.ctx, r.rpy) := by
  induction is generalizing st with
  | nil => simp [harvestAll]
  | cons i is ih =>
    unfold harvestAll
    cases hn : harvestNext P i st with
    | yield r st' =>
      intro x hx
      simp only [List.mem_cons] at hx
      rcases hx with rfl | hx
      · have := harvestNext_yield hn
        rw [this.1]; exact this.2
      · exact ih st' x hx
    | stop held st' => simp
    | raise e st' => simp

/-- the yielded records are for the issued requests, in order, without gaps: the `n`-th record is for
the `n`-th request -/
theorem harvestAll_own (P : Frame → Resp) (is : List Iss) (st : CSt) :
    (harvestAll P is st).1.map (·.iss) = is.take (harvestAll P is st).1.length := by
  induction is generalizing st with
  | nil => simp [harvestAll]
  | cons i is ih =>
    unfold harvestAll
    cases hn : harvestNext P i st with
    | yield r st' =>
      simp only [List.map_cons, List.length_cons, List.take_succ_cons, (harvestNext_yield hn).1]
      exact congrArg _ (ih st')
    | stop held st' => simp
    | raise e st' => simp

theorem harvestAll_length_le (P : Frame → Resp) (is : List Iss) (st : CSt) :
    (harvestAll P is st).1.length ≤ is.length := by
  have := congrArg List.length (harvestAll_own P is st)
  simp only [List.length_map, List.length_take] at this; omega

/-- `harvest` ends because the requests ran out exactly when it yielded one record per request -/
theorem harvestAll_exhausted_iff (P : Frame → Resp) (is : List Iss) (st : CSt) :
    (harvestAll P is st).2.1 = .exhausted ↔ (harvestAll P is st).1.length = is.length := by
  induction is generalizing st with
  | nil => simp [harvestAll]
  | cons i is ih =>
    unfold harvestAll
    cases hn : harvestNext P i st with
    | yield r st' => simpa using ih st'
    | stop held st' => simp
    | raise e st' => simp

theorem synchronous_fst (P : Frame → Resp) (is : List Iss) (st : CSt) :
    (synchronous P is st).1 = (harvestAll P is st).1 := by
  unfold synchronous; rcases harvestAll P is st with ⟨rs, e, s⟩; cases e <;> rfl

theorem synchronous_end (P : Frame → Resp) (is : List Iss) (st : CSt) :
    (synchronous P is st).2.1 = endOfH (harvestAll P is st).2.1 := by
  unfold synchronous; rcases harvestAll P is st with ⟨rs, e, s⟩; cases e <;> rfl

/-! ### the segmentation of the input does not matter -/

theorem joinData_afterData (evs : List Ev) : joinData (afterData evs) = [] := by
  induction evs with
  | nil => rfl
  | cons ev evs ih => cases ev <;> simp [afterData, joinData, ih]

theorem afterData_idem (evs : List Ev) : afterData (afterData evs) = afterData evs := by
  induction evs with
  | nil => rfl
  | cons ev evs ih => cases ev <;> simp [afterData, ih]

/-- all input that will arrive before the next EOF / silence, put in the buffer at once -/
def flat (st : CSt) : CSt :=
  { pend := st.pend, buf := st.buf ++ joinData st.evs, evs := afterData st.evs }

theorem flat_idem (st : CSt) : flat (flat st) = flat st := by
  simp [flat, joinData_afterData, afterData_idem]

theorem await_nodata (b : Bytes) (evs : List Ev) (f : Frame) (rest : Bytes)
    (h : takeFrame b = some (f, rest)) : await b evs = (.frame f, rest, evs) := by
  cases evs <;> simp [await, h]

theorem await_flat (b : Bytes) (evs : List Ev) :
    (await b evs).1 = (await (b ++ joinData evs) (afterData evs)).1 ∧
    (await b evs).2.1 ++ joinData (await b evs).2.2 =
      (await (b ++ joinData evs) (afterData evs)).2.1 ++ joinData (await (b ++ joinData evs) (afterData evs)).2.2 ∧
    afterData (await b evs).2.2 = afterData (await (b ++ joinData evs) (afterData evs)).2.2 ∧
    ((await b evs).1 = .timeout → (await b evs).2.1 = (await (b ++ joinData evs) (afterData evs)).2.1) := by
  induction evs generalizing b with
  | nil => simp [joinData, afterData]
  | cons ev evs ih =>
    cases htf : takeFrame b with
    | some fr =>
      obtain ⟨f, rest⟩ := fr
      rw [await_nodata b _ f rest htf,
        await_nodata _ _ f _ (takeFrame_mono (joinData (ev :: evs)) htf)]
      simp [joinData_afterData, afterData_idem]
    | none =>
      cases ev with
      | data bs =>
        have := ih (b ++ bs)
        simp only [await, htf, joinData, afterData]
        rw [← List.append_assoc]
        exact this
      | eof => simp [joinData, afterData]
      | quiet => simp [joinData, afterData]
      | reset => simp [joinData, afterData]

/-- two outcomes of `collect` that differ only in how the remaining input is segmented -/
def CNext.Rel : CNext → CNext → Prop
  | .item c s, .item c' s' => c = c' ∧ flat s = flat s'
  | .done h s, .done h' s' => h = h' ∧ flat s = flat s'
  | .raise e s, .raise e' s' => e = e' ∧ flat s = flat s'
  | _, _ => False

theorem collectNext_flat (P : Frame → Resp) (st : CSt) :
    CNext.Rel (collectNext P st) (collectNext P (flat st)) := by
  obtain ⟨buf, evs, pend⟩ := st
  cases pend with
  | cons c cs => simp [collectNext, flat, CNext.Rel, joinData_afterData, afterData_idem]
  | nil =>
    obtain ⟨h1, h2, h3, h4⟩ := await_flat buf evs
    simp only [collectNext, flat]
    rcases ha : await buf evs with ⟨o, b1, e1⟩
    rcases hb : await (buf ++ joinData evs) (afterData evs) with ⟨o', b2, e2⟩
    rw [ha, hb] at h1 h2 h3 h4
    simp only at h1 h2 h3 h4
    subst h1
    cases o with
    | frame f =>
      dsimp only
      cases P f with
      | replies ctx rs =>
        cases rs with
        | nil => simp [CNext.Rel, flat, h2, h3]
        | cons r rs => simp [CNext.Rel, flat, h2, h3]
      | error e => simp [CNext.Rel, flat, h2, h3]
    | stop => simp [CNext.Rel, flat, h2, h3]
    | timeout =>
      have hb12 := h4 rfl
      subst hb12
      simp [CNext.Rel, flat, h3, List.append_cancel_left h2]
    | rxerror => simp [CNext.Rel, flat, h2, h3]

theorem CNext.Rel.symm {a b : CNext} (h : CNext.Rel a b) : CNext.Rel b a := by
  cases a <;> cases b <;> simp_all [CNext.Rel]

theorem CNext.Rel.trans {a b c : CNext} (h : CNext.Rel a b) (h' : CNext.Rel b c) : CNext.Rel a c := by
  cases a <;> cases b <;> cases c <;> simp_all [CNext.Rel]

theorem collectNext_congr (P : Frame → Resp) (st st' : CSt) (h : flat st = flat st') :
    CNext.Rel (collectNext P st) (collectNext P st') := by
  have a := collectNext_flat P st
  have b := (collectNext_flat P st').symm
  rw [h] at a
  exact a.trans b

/-- **What `harvest` yields and how it ends depends only on the bytes that arrive before each EOF /
silence, not on the blocks they arrive in.** -/
theorem harvestAll_congr (P : Frame → Resp) (is : List Iss) (st st' : CSt) (h : flat st = flat st') :
    (harvestAll P is st).1 = (harvestAll P is st').1 ∧ (harvestAll P is st).2.1 = (harvestAll P is st').2.1 := by
  induction is generalizing st st' with
  | nil => simp [harvestAll]
  | cons i is ih =>
    have hc := collectNext_congr P st st' h
    unfold harvestAll harvestNext
    cases h1 : collectNext P st <;> cases h2 : collectNext P st' <;> rw [h1, h2] at hc <;>
      simp only [CNext.Rel] at hc
    · obtain ⟨rfl, hf⟩ := hc
      dsimp only
      by_cases hm : Matches i ‹Col›
      · have := ih _ _ hf
        simp [hm, this.1, this.2]
      · simp [hm]
    · obtain ⟨rfl, _⟩ := hc; simp
    · obtain ⟨rfl, _⟩ := hc; simp

/-! ### a reply stream cut at byte offset `k` -/

theorem hasReplies_iff {x : Resp} : hasReplies x = true ↔ ∃ ctx r rs, x = .replies ctx (r :: rs) := by
  cases x with
  | replies ctx rs => cases rs <;> simp [hasReplies]
  | error e => simp [hasReplies]

theorem take_stream_ge (f : Frame) (fs : List Frame) (k : Nat) (h : (encodeFrame f).length ≤ k) :
    (stream (f :: fs)).take k = encodeFrame f ++ (stream fs).take (k - (encodeFrame f).length) := by
  simp only [stream, List.flatMap_cons, List.take_append, List.take_of_length_le h]

/-- `harvest` when no complete frame is buffered and the delivered prefix has ended -/
theorem harvestNext_cut_none (P : Frame → Resp) (i : Iss) (b : Bytes) (closed : Bool)
    (h : takeFrame b = none) :
    ∃ st', harvestNext P i { pend := [], buf := b, evs := [termEv closed] } =
      (if b.isEmpty then .stop false st' else if closed then .raise .rxerror st' else .stop true st') := by
  cases closed <;> cases hb : b.isEmpty <;>
    simp [harvestNext, collectNext, await, h, termEv, hb]

theorem harvestAll_cut (P : Frame → Resp) (closed : Bool) (is : List Iss) :
    ∀ (fs : List Frame) (k : Nat) (pend : List Col), Served P fs →
      AllMatch is (pend ++ (fs.take (whole k fs)).flatMap (colsOf P)) →
      (harvestAll P is { pend := pend, buf := (stream fs).take k, evs := [termEv closed] }).1 =
        (is.zip (pend ++ (fs.take (whole k fs)).flatMap (colsOf P))).map mkRes ∧
      (harvestAll P is { pend := pend, buf := (stream fs).take k, evs := [termEv closed] }).2.1 =
        if is.length ≤ (pend ++ (fs.take (whole k fs)).flatMap (colsOf P)).length then .exhausted
        else cutEnd closed (leftover k fs) := by
  induction is with
  | nil => intro fs k pend _ _; simp [harvestAll]
  | cons i is ih =>
    intro fs k pend hs hm
    cases pend with
    | cons c cs =>
      have hmc : Matches i c := hm (i, c) (by simp)
      have hm' : AllMatch is (cs ++ (fs.take (whole k fs)).flatMap (colsOf P)) := by
        intro p hp; exact hm p (by simp [hp])
      obtain ⟨h1, h2⟩ := ih fs k cs hs hm'
      simp only [harvestAll, harvestNext, collectNext, hmc, if_true]
      simp only [h1, h2, List.cons_append, List.zip_cons_cons, List.map_cons, List.length_cons,
        Nat.add_le_add_iff_right, mkRes, and_self]
    | nil =>
      cases fs with
      | nil =>
        obtain ⟨st', hn⟩ := harvestNext_cut_none P i [] closed takeFrame_nil
        simp only [stream, List.flatMap_nil, List.take_nil]
        unfold harvestAll
        rw [hn]
        simp [leftover, cutEnd]
      | cons f fs =>
        obtain ⟨hwf, hrep⟩ := hs f (by simp)
        obtain ⟨ctx, r, rs, hP⟩ := hasReplies_iff.mp hrep
        have hs' : Served P fs := fun g hg => hs g (by simp [hg])
        by_cases hk : (encodeFrame f).length ≤ k
        · -- the frame is wholly inside the cut
          have hw : whole k (f :: fs) = whole (k - (encodeFrame f).length) fs + 1 := by simp [whole, hk]
          have hl : leftover k (f :: fs) = leftover (k - (encodeFrame f).length) fs := by simp [leftover, hk]
          have hc : colsOf P f = (ctx, r) :: rs.map fun x => (ctx, x) := by simp [colsOf, hP]
          have havail : ([] : List Col) ++ ((f :: fs).take (whole k (f :: fs))).flatMap (colsOf P) =
              (ctx, r) :: ((rs.map fun x => (ctx, x)) ++
                (fs.take (whole (k - (encodeFrame f).length) fs)).flatMap (colsOf P)) := by
            rw [hw]; simp [hc]
          rw [havail] at hm ⊢
          rw [hl]
          have hmc : Matches i (ctx, r) := hm (i, (ctx, r)) (by simp)
          have hm' : AllMatch is ((rs.map fun x => (ctx, x)) ++
              (fs.take (whole (k - (encodeFrame f).length) fs)).flatMap (colsOf P)) := by
            intro p hp; exact hm p (by simp [hp])
          obtain ⟨h1, h2⟩ := ih fs (k - (encodeFrame f).length) _ hs' hm'
          have haw : await ((stream (f :: fs)).take k) [termEv closed] =
              (.frame f, (stream fs).take (k - (encodeFrame f).length), [termEv closed]) := by
            rw [take_stream_ge f fs k hk]
            exact await_nodata _ _ f _ (takeFrame_encode f hwf _)
          simp only [harvestAll, harvestNext, collectNext, haw, hP, hmc, if_true]
          simp only [h1, h2, List.zip_cons_cons, List.map_cons, List.length_cons,
            Nat.add_le_add_iff_right, mkRes, and_self]
        · -- the cut falls inside this frame
          have hw : whole k (f :: fs) = 0 := by simp [whole, hk]
          have hl : leftover k (f :: fs) = k := by simp [leftover, hk]
          have htf : takeFrame ((stream (f :: fs)).take k) = none := by
            simp only [stream, List.flatMap_cons]
            exact takeFrame_strict_prefix f hwf _ k (by omega)
          have hlen : ((stream (f :: fs)).take k).length = k := by
            simp only [stream, List.flatMap_cons, List.length_take, List.length_append]; omega
          have hemp : ((stream (f :: fs)).take k).isEmpty = decide (k = 0) := by
            rw [Bool.eq_iff_iff, List.isEmpty_iff_length_eq_zero, hlen]; simp
          obtain ⟨st', hn⟩ := harvestNext_cut_none P i _ closed htf
          rw [hw, hl]
          unfold harvestAll
          rw [hn, hemp]
          by_cases hk0 : k = 0 <;> cases closed <;> simp [cutEnd, hk0]

/-- the general form of `harvestAll_cut`: no assumption that the replies answer the requests -/
theorem harvestAll_cut_zip (P : Frame → Resp) (closed : Bool) (is : List Iss) :
    ∀ (fs : List Frame) (k : Nat) (pend : List Col), Served P fs →
      (harvestAll P is { pend := pend, buf := (stream fs).take k, evs := [termEv closed] }).1 =
        (zipSpec is (pend ++ (fs.take (whole k fs)).flatMap (colsOf P)) (cutEnd closed (leftover k fs))).1 ∧
      (harvestAll P is { pend := pend, buf := (stream fs).take k, evs := [termEv closed] }).2.1 =
        (zipSpec is (pend ++ (fs.take (whole k fs)).flatMap (colsOf P)) (cutEnd closed (leftover k fs))).2 := by
  induction is with
  | nil => intro fs k pend _; simp [harvestAll, zipSpec]
  | cons i is ih =>
    intro fs k pend hs
    cases pend with
    | cons c cs =>
      obtain ⟨h1, h2⟩ := ih fs k cs hs
      by_cases hmc : Matches i c
      · simp only [harvestAll, harvestNext, collectNext, hmc, if_true, List.cons_append, zipSpec]
        simp only [h1, h2, mkRes, and_self]
      · simp [harvestAll, harvestNext, collectNext, hmc, zipSpec]
    | nil =>
      cases fs with
      | nil =>
        obtain ⟨st', hn⟩ := harvestNext_cut_none P i [] closed takeFrame_nil
        simp only [stream, List.flatMap_nil, List.take_nil]
        unfold harvestAll
        rw [hn]
        simp [leftover, cutEnd, zipSpec]
      | cons f fs =>
        obtain ⟨hwf, hrep⟩ := hs f (by simp)
        obtain ⟨ctx, r, rs, hP⟩ := hasReplies_iff.mp hrep
        have hs' : Served P fs := fun g hg => hs g (by simp [hg])
        by_cases hk : (encodeFrame f).length ≤ k
        · have hw : whole k (f :: fs) = whole (k - (encodeFrame f).length) fs + 1 := by simp [whole, hk]
          have hl : leftover k (f :: fs) = leftover (k - (encodeFrame f).length) fs := by simp [leftover, hk]
          have hc : colsOf P f = (ctx, r) :: rs.map fun x => (ctx, x) := by simp [colsOf, hP]
          have havail : ([] : List Col) ++ ((f :: fs).take (whole k (f :: fs))).flatMap (colsOf P) =
              (ctx, r) :: ((rs.map fun x => (ctx, x)) ++
                (fs.take (whole (k - (encodeFrame f).length) fs)).flatMap (colsOf P)) := by
            rw [hw]; simp [hc]
          rw [havail, hl]
          obtain ⟨h1, h2⟩ := ih fs (k - (encodeFrame f).length) (rs.map fun x => (ctx, x)) hs'
          have haw : await ((stream (f :: fs)).take k) [termEv closed] =
              (.frame f, (stream fs).take (k - (encodeFrame f).length), [termEv closed]) := by
            rw [take_stream_ge f fs k hk]
            exact await_nodata _ _ f _ (takeFrame_encode f hwf _)
          by_cases hmc : Matches i (ctx, r)
          · simp only [harvestAll, harvestNext, collectNext, haw, hP, hmc, if_true, zipSpec]
            simp only [h1, h2, mkRes, and_self]
          · simp [harvestAll, harvestNext, collectNext, haw, hP, hmc, zipSpec]
        · have hw : whole k (f :: fs) = 0 := by simp [whole, hk]
          have hl : leftover k (f :: fs) = k := by simp [leftover, hk]
          have htf : takeFrame ((stream (f :: fs)).take k) = none := by
            simp only [stream, List.flatMap_cons]
            exact takeFrame_strict_prefix f hwf _ k (by omega)
          have hlen : ((stream (f :: fs)).take k).length = k := by
            simp only [stream, List.flatMap_cons, List.length_take, List.length_append]; omega
          have hemp : ((stream (f :: fs)).take k).isEmpty = decide (k = 0) := by
            rw [Bool.eq_iff_iff, List.isEmpty_iff_length_eq_zero, hlen]; simp
          obtain ⟨st', hn⟩ := harvestNext_cut_none P i _ closed htf
          rw [hw, hl]
          unfold harvestAll
          rw [hn, hemp]
          by_cases hk0 : k = 0 <;> cases closed <;> simp [cutEnd, hk0, zipSpec]

/-- when every reply answers its request, the zip pairs them all -/
theorem zipSpec_allMatch (is : List Iss) (cs : List Col) (e : HEnd) (h : AllMatch is cs) :
    zipSpec is cs e = ((is.zip cs).map mkRes, if is.length ≤ cs.length then .exhausted else e) := by
  induction is generalizing cs with
  | nil => simp [zipSpec]
  | cons i is ih =>
    cases cs with
    | nil => simp [zipSpec]
    | cons c cs =>
      have hmc : Matches i c := h (i, c) (by simp)
      have h' : AllMatch is cs := fun p hp => h p (by simp [hp])
      simp [zipSpec, hmc, ih cs h']

theorem mem_zip_append_left {α β : Type} (is : List α) (a b : List β) (p : α × β) (h : p ∈ is.zip a) :
    p ∈ is.zip (a ++ b) := by
  induction is generalizing a with
  | nil => simp at h
  | cons i is ih =>
    cases a with
    | nil => simp at h
    | cons x a =>
      simp only [List.cons_append, List.zip_cons_cons, List.mem_cons] at h ⊢
      rcases h with h | h
      · exact Or.inl h
      · exact Or.inr (ih a h)

theorem AllMatch_prefix {is : List Iss} {a b : List Col} (h : AllMatch is (a ++ b)) : AllMatch is a :=
  fun p hp => h p (mem_zip_append_left is a b p hp)

theorem flatMap_take_drop {α β : Type} (g : α → List β) (l : List α) (m : Nat) :
    l.flatMap g = (l.take m).flatMap g ++ (l.drop m).flatMap g := by
  rw [← List.flatMap_append, List.take_append_drop]

theorem synchronous_cut (P : Frame → Resp) (closed : Bool) (is : List Iss) (fs : List Frame) (k : Nat)
    (st : CSt) (hst : flat st = flat (cutState fs k closed)) (hs : Served P fs)
    (hm : AllMatch is (fs.flatMap (colsOf P))) :
    (synchronous P is st).1 = (is.zip ((fs.take (whole k fs)).flatMap (colsOf P))).map mkRes ∧
    (synchronous P is st).2.1 =
      if is.length ≤ ((fs.take (whole k fs)).flatMap (colsOf P)).length then .ok
      else .error (cutErr closed (leftover k fs)) := by
  have hm' : AllMatch is ([] ++ (fs.take (whole k fs)).flatMap (colsOf P)) := by
    rw [flatMap_take_drop (colsOf P) fs (whole k fs)] at hm
    simpa using AllMatch_prefix hm
  obtain ⟨h1, h2⟩ := harvestAll_cut P closed is fs k [] hs hm'
  obtain ⟨c1, c2⟩ := harvestAll_congr P is st (cutState fs k closed) hst
  simp only [List.nil_append] at h1 h2
  unfold cutState at c1 c2
  rw [← c1] at h1; rw [← c2] at h2
  unfold synchronous
  rcases hh : harvestAll P is st with ⟨rs, e, st'⟩
  rw [hh] at h1 h2
  simp only at h1 h2
  subst h1
  refine ⟨by cases e <;> rfl, ?_⟩
  by_cases hlt : is.length ≤ ((fs.take (whole k fs)).flatMap (colsOf P)).length
  · rw [if_pos hlt] at h2 ⊢; subst h2; rfl
  · rw [if_neg hlt] at h2 ⊢; subst h2
    unfold cutEnd cutErr
    by_cases hl0 : leftover k fs = 0
    · simp [hl0]
    · cases closed <;> simp [hl0]

/-- the general form of `synchronous_cut`: any well-formed frames (in order or not), any segmentation -/
theorem synchronous_cut_zip (P : Frame → Resp) (closed : Bool) (is : List Iss) (fs : List Frame) (k : Nat)
    (st : CSt) (hst : flat st = flat (cutState fs k closed)) (hs : Served P fs) :
    (synchronous P is st).1 =
      (zipSpec is ((fs.take (whole k fs)).flatMap (colsOf P)) (cutEnd closed (leftover k fs))).1 ∧
    (synchronous P is st).2.1 =
      endOfH (zipSpec is ((fs.take (whole k fs)).flatMap (colsOf P)) (cutEnd closed (leftover k fs))).2 := by
  obtain ⟨h1, h2⟩ := harvestAll_cut_zip P closed is fs k [] hs
  obtain ⟨c1, c2⟩ := harvestAll_congr P is st (cutState fs k closed) hst
  simp only [List.nil_append] at h1 h2
  unfold cutState at c1 c2
  rw [synchronous_fst, synchronous_end, c1, c2, h1, h2]
  exact ⟨rfl, rfl⟩

/-- a reply that does not answer the next request (one was lost, overtaken or duplicated) ends the stream with
`mismatch` right there: everything before it is paired, nothing after it is -/
theorem zipSpec_first_mismatch (is₁ : List Iss) (cs₁ : List Col) (i : Iss) (c : Col) (is₂ : List Iss)
    (cs₂ : List Col) (e : HEnd) (h : AllMatch is₁ cs₁) (hl : is₁.length = cs₁.length) (hn : ¬ Matches i c) :
    zipSpec (is₁ ++ i :: is₂) (cs₁ ++ c :: cs₂) e = ((is₁.zip cs₁).map mkRes, .raised .mismatch) := by
  induction is₁ generalizing cs₁ with
  | nil =>
    cases cs₁ with
    | nil => simp [zipSpec, hn]
    | cons _ _ => simp at hl
  | cons j js ih =>
    cases cs₁ with
    | nil => simp at hl
    | cons d ds =>
      have hm : Matches j d := h (j, d) (by simp)
      have h' : AllMatch js ds := fun p hp => h p (by simp [hp])
      simp only [List.length_cons, Nat.add_right_cancel_iff] at hl
      simp [zipSpec, hm, ih ds h' hl]

/-- … and when the lost reply was the last one, the stream ends as the connection does -/
theorem zipSpec_short (is₁ : List Iss) (cs₁ : List Col) (i : Iss) (is₂ : List Iss) (e : HEnd)
    (h : AllMatch is₁ cs₁) (hl : is₁.length = cs₁.length) :
    zipSpec (is₁ ++ i :: is₂) cs₁ e = ((is₁.zip cs₁).map mkRes, e) := by
  induction is₁ generalizing cs₁ with
  | nil =>
    cases cs₁ with
    | nil => simp [zipSpec]
    | cons _ _ => simp at hl
  | cons j js ih =>
    cases cs₁ with
    | nil => simp at hl
    | cons d ds =>
      have hm : Matches j d := h (j, d) (by simp)
      have h' : AllMatch js ds := fun p hp => h p (by simp [hp])
      simp only [List.length_cons, Nat.add_right_cancel_iff] at hl
      simp [zipSpec, hm, ih ds h' hl]

/-! ### the whole stream delivered -/

theorem stream_cons (f : Frame) (fs : List Frame) : stream (f :: fs) = encodeFrame f ++ stream fs := by
  simp [stream]

theorem whole_total (fs : List Frame) (k : Nat) (h : (stream fs).length ≤ k) : whole k fs = fs.length := by
  induction fs generalizing k with
  | nil => rfl
  | cons f fs ih =>
    rw [stream_cons, List.length_append] at h
    simp only [whole, show (encodeFrame f).length ≤ k by omega, if_true, List.length_cons]
    rw [ih _ (by omega)]

theorem leftover_total (fs : List Frame) (k : Nat) (h : (stream fs).length ≤ k) : leftover k fs = 0 := by
  induction fs generalizing k with
  | nil => rfl
  | cons f fs ih =>
    rw [stream_cons, List.length_append] at h
    simp only [leftover, show (encodeFrame f).length ≤ k by omega, if_true]
    exact ih _ (by omega)

/-! ### `connector.__init__` on a cut stream -/

/-- Registering on a connection that delivers the first `k` bytes of `reg :: fs` (all at once): it fails
when the cut is inside the Register reply, and otherwise leaves the rest of the prefix to the operations. -/
theorem connect_cut (reg : Frame) (fs : List Frame) (k : Nat) (closed : Bool) (hr : IsRegister reg) :
    connect [.data ((stream (reg :: fs)).take k), termEv closed] =
      if (encodeFrame reg).length ≤ k then
        .ok { pend := [], buf := (stream fs).take (k - (encodeFrame reg).length), evs := [termEv closed] }
      else .error (if k = 0 then (if closed then .noenip else .noresponse)
                   else (if closed then .rxerror else .partialHeld)) := by
  obtain ⟨hwf, hst, hcmd⟩ := hr
  by_cases hk : (encodeFrame reg).length ≤ k
  · rw [take_stream_ge reg fs k hk]
    have h1 : ∀ X : Bytes, await [] [.data X, termEv closed] = await X [termEv closed] := by
      intro X; simp [await, takeFrame_nil]
    unfold connect
    rw [h1, await_nodata _ _ reg _ (takeFrame_encode reg hwf _)]
    simp [hst, hcmd, hk]
  · have htf : takeFrame ((stream (reg :: fs)).take k) = none := by
      simp only [stream, List.flatMap_cons]
      exact takeFrame_strict_prefix reg hwf _ k (by omega)
    have hlen : ((stream (reg :: fs)).take k).length = k := by
      simp only [stream, List.flatMap_cons, List.length_take, List.length_append]; omega
    have hemp : ((stream (reg :: fs)).take k).isEmpty = decide (k = 0) := by
      rw [Bool.eq_iff_iff, List.isEmpty_iff_length_eq_zero, hlen]; simp
    have hne : encodeFrame reg ≠ [] := by
      intro h; rw [h] at hk; simp at hk
    by_cases hk0 : k = 0 <;> cases closed <;>
      simp [connect, await, takeFrame_nil, htf, termEv, hemp, hk, hk0, hne]

/-- The List Identity exchange of `open_gateway` when the first `k` bytes of `idf :: fs` are (still) to come:
it fails for every cut inside the List Identity reply, and otherwise leaves the rest to the operations. -/
theorem identify_cut (idf : Frame) (fs : List Frame) (k : Nat) (closed : Bool) (hi : IsIdentity idf) :
    identify { pend := [], buf := (stream (idf :: fs)).take k, evs := [termEv closed] } =
      if (encodeFrame idf).length ≤ k then
        .ok { pend := [], buf := (stream fs).take (k - (encodeFrame idf).length), evs := [termEv closed] }
      else .error (if closed ∧ k ≠ 0 then .rxerror else .noidentity) := by
  obtain ⟨hwf, hst, hcmd⟩ := hi
  by_cases hk : (encodeFrame idf).length ≤ k
  · unfold identify
    dsimp only
    rw [take_stream_ge idf fs k hk, await_nodata _ _ idf _ (takeFrame_encode idf hwf _)]
    simp [hst, hcmd, hk]
  · have htf : takeFrame ((stream (idf :: fs)).take k) = none := by
      simp only [stream, List.flatMap_cons]
      exact takeFrame_strict_prefix idf hwf _ k (by omega)
    have hlen : ((stream (idf :: fs)).take k).length = k := by
      simp only [stream, List.flatMap_cons, List.length_take, List.length_append]; omega
    have hemp : ((stream (idf :: fs)).take k).isEmpty = decide (k = 0) := by
      rw [Bool.eq_iff_iff, List.isEmpty_iff_length_eq_zero, hlen]; simp
    have hne : encodeFrame idf ≠ [] := by
      intro h; rw [h] at hk; simp at hk
    by_cases hk0 : k = 0 <;> cases closed <;>
      simp [identify, await, takeFrame_nil, htf, termEv, hemp, hk, hk0, hne]

/-- **`open_gateway` on a reply stream cut at offset `k`** (proxy without `identity_default`): it fails — and no
gateway is kept — for every cut inside the Register reply or inside the List Identity reply. -/
theorem open_cut (reg idf : Frame) (fs : List Frame) (k : Nat) (closed : Bool) (hr : IsRegister reg)
    (hi : IsIdentity idf) :
    openGateway true [.data ((stream (reg :: idf :: fs)).take k), termEv closed] =
      if (encodeFrame reg).length ≤ k then
        if (encodeFrame idf).length ≤ k - (encodeFrame reg).length then
          .ok { pend := [], buf := (stream fs).take (k - (encodeFrame reg).length - (encodeFrame idf).length),
                evs := [termEv closed] }
        else .error (.identify (if closed ∧ k - (encodeFrame reg).length ≠ 0 then .rxerror else .noidentity))
      else .error (.connect (if k = 0 then (if closed then .noenip else .noresponse)
                             else (if closed then .rxerror else .partialHeld))) := by
  unfold openGateway
  rw [connect_cut reg (idf :: fs) k closed hr]
  by_cases hk : (encodeFrame reg).length ≤ k
  · simp only [hk, if_true]
    rw [identify_cut idf fs _ closed hi]
    by_cases hk2 : (encodeFrame idf).length ≤ k - (encodeFrame reg).length <;> simp [hk2]
  · simp only [hk, if_false]

theorem open_cut_noident (reg : Frame) (fs : List Frame) (k : Nat) (closed : Bool) (hr : IsRegister reg) :
    openGateway false [.data ((stream (reg :: fs)).take k), termEv closed] =
      if (encodeFrame reg).length ≤ k then
        .ok { pend := [], buf := (stream fs).take (k - (encodeFrame reg).length), evs := [termEv closed] }
      else .error (.connect (if k = 0 then (if closed then .noenip else .noresponse)
                             else (if closed then .rxerror else .partialHeld))) := by
  unfold openGateway
  rw [connect_cut reg fs k closed hr]
  by_cases hk : (encodeFrame reg).length ≤ k <;> simp [hk]

/-- `connector.__init__` sees only the bytes, not the blocks -/
def ConnRel : Except ConnErr CSt → Except ConnErr CSt → Prop
  | .ok st, .ok st' => flat st = flat st'
  | .error e, .error e' => e = e'
  | _, _ => False

theorem connect_congr (evs evs' : List Ev) (hj : joinData evs = joinData evs')
    (ha : afterData evs = afterData evs') : ConnRel (connect evs) (connect evs') := by
  obtain ⟨a1, a2, a3, a4⟩ := await_flat [] evs
  obtain ⟨b1, b2, b3, b4⟩ := await_flat [] evs'
  rw [← hj, ← ha] at b1 b2 b3 b4
  unfold connect
  rcases hx : await [] evs with ⟨o, b, e⟩
  rcases hy : await [] evs' with ⟨o', b', e'⟩
  rcases hz : await ([] ++ joinData evs) (afterData evs) with ⟨o'', b'', e''⟩
  rw [hx, hz] at a1 a2 a3 a4
  rw [hy, hz] at b1 b2 b3 b4
  simp only at a1 a2 a3 a4 b1 b2 b3 b4
  subst a1
  subst b1
  cases o' with
  | frame f =>
    dsimp only
    by_cases hs : f.status ≠ 0
    · simp [hs, ConnRel]
    · by_cases hc : f.cmd ≠ cmdRegister
      · simp [hs, hc, ConnRel]
      · simp only [hs, hc, if_false, ConnRel, flat]
        rw [a2, a3, ← b2, ← b3]
  | stop => simp [ConnRel]
  | timeout =>
    have h1 := a4 rfl
    have h2 := b4 rfl
    subst h1; subst h2
    dsimp only
    split <;> simp [ConnRel]
  | rxerror => simp [ConnRel]

/-- the whole exchange depends only on the bytes that arrive before each EOF / silence -/
theorem exchange_congr (P : Frame → Resp) (depth : Nat) (issued : List Iss) (evs evs' : List Ev)
    (hj : joinData evs = joinData evs') (ha : afterData evs = afterData evs') :
    exchange P depth issued evs = exchange P depth issued evs' := by
  have h := connect_congr evs evs' hj ha
  unfold exchange
  cases h1 : connect evs <;> cases h2 : connect evs' <;> rw [h1, h2] at h <;> simp only [ConnRel] at h
  · rw [h]
  · dsimp only
    rw [pipeline_eq, pipeline_eq, synchronous_fst, synchronous_fst, synchronous_end, synchronous_end]
    obtain ⟨e1, e2⟩ := harvestAll_congr P issued _ _ h
    rw [e1, e2]

end Cpppo.ClientRx
