import Cpppo.Model.Dotdict

/-!
Text level of C16: `_resolve`'s `'..'` rewriting loop and leading-term search, iterated the way the
nested `target[rest]` calls do (`chain`), compute exactly the stack meaning of a dotted path.

A key is described by its structure (`SKey`: leading dots, components, the run of dots after each);
`red` is one turn of the `while '..' in mine` loop on that structure, shown to agree with the text
operation (`dotdotStep`), to preserve well-formedness and the meaning (`go`), and to shorten the text.
-/
namespace Cpppo.Dotdict

/-! ### structured keys and their text -/

def dots (n : Nat) : Name := List.replicate n '.'

/-- components with the number of dots that follow each -/
def renderComps : List (Name × Nat) → Name
  | [] => []
  | (s, d) :: r => s ++ dots d ++ renderComps r

/-- the text of a path component: non-empty, no dot, brackets balanced -/
def TextSeg (s : Name) : Prop := s ≠ [] ∧ '.' ∉ s ∧ balanced s = true

theorem dots_succ (n : Nat) : dots (n + 1) = '.' :: dots n := rfl

/-- no `..` in the text -/
def noDD (s : Name) : Prop := splitDotDot s = none

theorem splitDotDot_cons_ne (c : Char) (s : Name) (hc : c ≠ '.') :
    splitDotDot (c :: s) = (splitDotDot s).map fun (f, b) => (c :: f, b) := by
  cases s with
  | nil => simp [splitDotDot]
  | cons d r => simp [splitDotDot, hc]

theorem splitDotDot_dot_ne (d : Char) (r : Name) (hd : d ≠ '.') :
    splitDotDot ('.' :: d :: r) = (splitDotDot (d :: r)).map fun (f, b) => ('.' :: f, b) := by
  simp [splitDotDot, hd]

/-- a component does not contain `..`, and the split passes over it -/
theorem splitDotDot_seg (s : Name) (hs : '.' ∉ s) (t : Name) :
    splitDotDot (s ++ t) = (splitDotDot t).map fun (f, b) => (s ++ f, b) := by
  induction s with
  | nil => simp
  | cons c r ih =>
    have hc : c ≠ '.' := fun e => hs (by simp [e])
    have hr : '.' ∉ r := fun h => hs (by simp [h])
    rw [List.cons_append, splitDotDot_cons_ne c _ hc, ih hr]
    cases splitDotDot t with
    | none => rfl
    | some p => rfl

/-- a single dot followed by a component -/
theorem splitDotDot_dot_seg (s : Name) (hne : s ≠ []) (hs : '.' ∉ s) (t : Name) :
    splitDotDot ('.' :: (s ++ t)) = (splitDotDot t).map fun (f, b) => ('.' :: (s ++ f), b) := by
  cases s with
  | nil => exact absurd rfl hne
  | cons c r =>
    have hc : c ≠ '.' := fun e => hs (by simp [e])
    rw [List.cons_append, splitDotDot_dot_ne c _ hc, ← List.cons_append, splitDotDot_seg (c :: r) hs t]
    cases splitDotDot t with
    | none => rfl
    | some p => rfl

theorem splitDotDot_dotdot (t : Name) : splitDotDot ('.' :: '.' :: t) = some ([], t) := by
  simp [splitDotDot]

theorem truncLast_seg (s : Name) (hs : '.' ∉ s) : truncLast s = [] := by
  cases s with
  | nil => rfl
  | cons c r =>
    have hr : '.' ∉ r := fun h => hs (by simp [h])
    simp [truncLast, hr]

theorem truncLast_append_dot (q s : Name) (hs : '.' ∉ s) : truncLast (q ++ '.' :: s) = q := by
  induction q with
  | nil => simp [truncLast, hs]
  | cons c r ih => simp [truncLast, ih]


/-! ### prefixes the `..` search passes over -/

/-- text that can precede a component: nothing, one dot, or earlier components each followed by one dot -/
inductive Pre : Name → Prop
  | nil : Pre []
  | dot : Pre ['.']
  | snoc {q s : Name} : Pre q → s ≠ [] → '.' ∉ s → Pre (q ++ s ++ ['.'])

/-- `x` is empty or starts with something other than a dot -/
def NoLeadDot : Name → Prop
  | [] => True
  | c :: _ => c ≠ '.'

theorem splitDotDot_dot_noLead (x : Name) (hx : NoLeadDot x) :
    splitDotDot ('.' :: x) = (splitDotDot x).map fun (f, b) => ('.' :: f, b) := by
  cases x with
  | nil => simp [splitDotDot]
  | cons c r => exact splitDotDot_dot_ne c r hx

theorem noLeadDot_seg_append (s t : Name) (hne : s ≠ []) (hs : '.' ∉ s) : NoLeadDot (s ++ t) := by
  cases s with
  | nil => exact absurd rfl hne
  | cons c r => exact fun e => hs (by simp [e])

theorem Pre.transparent {q : Name} (hq : Pre q) : ∀ (x : Name), NoLeadDot x →
    splitDotDot (q ++ x) = (splitDotDot x).map fun (f, b) => (q ++ f, b) := by
  induction hq with
  | nil => intro x _; cases h : splitDotDot x <;> simp [h]
  | dot => intro x hx; simpa using splitDotDot_dot_noLead x hx
  | @snoc q s hq hne hs ih =>
    intro x hx
    have h1 : (q ++ s ++ ['.']) ++ x = q ++ (s ++ '.' :: x) := by simp
    rw [h1, ih _ (noLeadDot_seg_append s _ hne hs), splitDotDot_seg s hs, splitDotDot_dot_noLead x hx]
    cases splitDotDot x with
    | none => rfl
    | some p => simp


/-- a dotted path as text structure: `ld` leading dots, then components each followed by a run of dots -/
structure SKey where
  ld : Nat
  comps : List (Name × Nat)

def SKey.render (k : SKey) : Name := dots k.ld ++ renderComps k.comps

/-- components are proper texts; only the last may have no dot after it -/
def WFC : List (Name × Nat) → Prop
  | [] => True
  | (s, d) :: r => TextSeg s ∧ (r ≠ [] → 1 ≤ d) ∧ WFC r

/-- no run of two or more dots -/
def RedC : List (Name × Nat) → Prop
  | [] => True
  | (_, d) :: r => d ≤ 1 ∧ RedC r

/-- **the meaning of a dotted path**: walk the components with a stack; a run of `d` dots after a
component goes `d - 1` levels up (never above the root).  The result is the stack (innermost first)
and whether a single trailing dot is left. -/
def go : List Name → List (Name × Nat) → List Name × Bool
  | st, [] => (st, false)
  | st, [(s, d)] => if d = 1 then (s :: st, true) else ((s :: st).drop (d - 1), false)
  | st, (s, d) :: r => go ((s :: st).drop (d - 1)) r

/-- one `..` removed inside the components (the head is followed by at most one dot) -/
def redTail : List (Name × Nat) → List (Name × Nat)
  | (s0, d0) :: (s1, d1) :: r =>
    if 2 ≤ d1 then (s0, if d1 = 2 ∧ r = [] then 0 else d1 - 1) :: r
    else (s0, d0) :: redTail ((s1, d1) :: r)
  | l => l

theorem renderComps_ne {comps : List (Name × Nat)} (h : WFC comps) (hne : comps ≠ []) :
    renderComps comps ≠ [] := by
  cases comps with
  | nil => exact absurd rfl hne
  | cons hd tl =>
    obtain ⟨s, d⟩ := hd
    obtain ⟨⟨hs, _⟩, _⟩ := h
    simp [renderComps, hs]

theorem noLeadDot_renderComps {comps : List (Name × Nat)} (h : WFC comps) : NoLeadDot (renderComps comps) := by
  cases comps with
  | nil => trivial
  | cons hd tl =>
    obtain ⟨s, d⟩ := hd
    obtain ⟨⟨hs, hd', _⟩, _⟩ := h
    simp only [renderComps, List.append_assoc]
    exact noLeadDot_seg_append s _ hs hd'

/-- **the text effect of one turn of the `'..'` loop inside the components** -/
theorem dotdotStep_redTail : ∀ (comps : List (Name × Nat)) (q : Name), Pre q → WFC comps →
    (∀ s d r, comps = (s, d) :: r → d ≤ 1) → ¬ RedC comps →
    dotdotStep (q ++ renderComps comps) = some (q ++ renderComps (redTail comps))
  | [], _, _, _, _, hnr => absurd trivial hnr
  | [(s, d)], _, _, _, hd, hnr => absurd ⟨hd s d [] rfl, trivial⟩ hnr
  | (s0, d0) :: (s1, d1) :: r, q, hq, hw, hd, hnr => by
    obtain ⟨⟨hs0, hs0d, _⟩, hd0, ⟨hs1, hs1d, _⟩, hd1, hwr⟩ := hw
    have hd0' : d0 = 1 := by
      have := hd s0 d0 _ rfl
      have := hd0 (by simp)
      omega
    subst hd0'
    by_cases h2 : 2 ≤ d1
    · -- the `..` is right after `s1`
      obtain ⟨e, rfl⟩ : ∃ e, d1 = e + 2 := ⟨d1 - 2, by omega⟩
      have htext : q ++ renderComps ((s0, 1) :: (s1, e + 2) :: r)
          = q ++ (s0 ++ '.' :: (s1 ++ '.' :: '.' :: (dots e ++ renderComps r))) := by
        simp [renderComps, dots, List.replicate_succ]
      have hsplit : splitDotDot (q ++ renderComps ((s0, 1) :: (s1, e + 2) :: r))
          = some (q ++ (s0 ++ '.' :: s1), dots e ++ renderComps r) := by
        rw [htext, hq.transparent _ (noLeadDot_seg_append s0 _ hs0 hs0d), splitDotDot_seg s0 hs0d,
          splitDotDot_dot_noLead _ (noLeadDot_seg_append s1 _ hs1 hs1d), splitDotDot_seg s1 hs1d,
          splitDotDot_dotdot]
        simp
      have htrunc : truncLast (q ++ (s0 ++ '.' :: s1)) = q ++ s0 := by
        rw [← List.append_assoc]; exact truncLast_append_dot _ _ hs1d
      simp only [dotdotStep, hsplit, Option.map_some, htrunc, redTail, h2, if_true]
      have hne : q ++ s0 ≠ [] := by simp [hs0]
      by_cases hb : dots e ++ renderComps r = []
      · have he : e = 0 := by
          cases e with
          | zero => rfl
          | succ n => simp [dots, List.replicate_succ] at hb
        have hr : r = [] := by
          cases r with
          | nil => rfl
          | cons a r' =>
            have := renderComps_ne hwr (by simp)
            rw [List.append_eq_nil_iff] at hb
            exact absurd hb.2 this
        subst he hr
        simp [renderComps, dots]
      · have hcond : ¬(e + 2 = 2 ∧ r = []) := by
          rintro ⟨he, hr⟩
          have : e = 0 := by omega
          subst this hr
          simp [dots, renderComps] at hb
        simp only [hne, hb, ne_eq, not_false_eq_true, and_self, if_true, hcond, if_false]
        simp [renderComps, dots, List.replicate_succ]
    · -- pass over `s0.` and continue
      have hd1' : d1 ≤ 1 := by omega
      have hnr' : ¬ RedC ((s1, d1) :: r) := fun h => hnr ⟨by omega, h⟩
      have hq' : Pre (q ++ s0 ++ ['.']) := Pre.snoc hq hs0 hs0d
      have ih := dotdotStep_redTail ((s1, d1) :: r) (q ++ s0 ++ ['.']) hq' ⟨⟨hs1, hs1d, ‹_›⟩, hd1, hwr⟩
        (by intro s d r' e; simp only [List.cons.injEq, Prod.mk.injEq] at e; omega) hnr'
      have e1 : q ++ renderComps ((s0, 1) :: (s1, d1) :: r) = (q ++ s0 ++ ['.']) ++ renderComps ((s1, d1) :: r) := by
        simp [renderComps, dots]
      rw [e1, ih]
      simp [redTail, h2, renderComps, dots]


theorem go_cons_cons (st : List Name) (s : Name) (d : Nat) (c : Name × Nat) (r : List (Name × Nat)) :
    go st ((s, d) :: c :: r) = go ((s :: st).drop (d - 1)) (c :: r) := by
  obtain ⟨s1, d1⟩ := c
  simp [go]

theorem go_redTail : ∀ (comps : List (Name × Nat)) (st : List Name), WFC comps →
    (∀ s d r, comps = (s, d) :: r → d ≤ 1) → ¬ RedC comps → go st (redTail comps) = go st comps
  | [], _, _, _, hnr => absurd trivial hnr
  | [(s, d)], _, _, hd, hnr => absurd ⟨hd s d [] rfl, trivial⟩ hnr
  | (s0, d0) :: (s1, d1) :: r, st, hw, hd, hnr => by
    obtain ⟨_, hd0, hw1⟩ := hw
    have hd0' : d0 = 1 := by
      have := hd s0 d0 _ rfl
      have := hd0 (by simp)
      omega
    subst hd0'
    by_cases h2 : 2 ≤ d1
    · obtain ⟨e, rfl⟩ : ∃ e, d1 = e + 2 := ⟨d1 - 2, by omega⟩
      simp only [redTail, h2, if_true]
      rw [go_cons_cons]
      simp only [Nat.sub_self, List.drop_zero]
      cases r with
      | nil =>
        cases e with
        | zero => simp [go]
        | succ n =>
          have h3 : ¬ (n + 1 + 2 = 2) := by omega
          have h4 : ¬ (n + 1 + 2 - 1 = 1) := by omega
          have h5 : ¬ (n + 1 + 2 = 1) := by omega
          simp only [h3, false_and, if_false, go, h4, h5]
          congr 1
      | cons c r' =>
        simp only [and_false, if_false, reduceCtorEq]
        rw [go_cons_cons, go_cons_cons]
        congr 1
    · have hnr' : ¬ RedC ((s1, d1) :: r) := fun h => hnr ⟨by omega, h⟩
      simp only [redTail, h2, if_false]
      have hrt : ∃ c r', redTail ((s1, d1) :: r) = c :: r' := by
        cases r with
        | nil => exact ⟨_, _, rfl⟩
        | cons c r' =>
          obtain ⟨s2, d2⟩ := c
          simp only [redTail]
          split <;> exact ⟨_, _, rfl⟩
      obtain ⟨c, r', hc⟩ := hrt
      rw [hc, go_cons_cons, ← hc, go_cons_cons]
      exact go_redTail ((s1, d1) :: r) _ hw1
        (by intro s d r'' e; simp only [List.cons.injEq, Prod.mk.injEq] at e; omega) hnr'

theorem WFC_redTail : ∀ (comps : List (Name × Nat)), WFC comps → WFC (redTail comps)
  | [], h => h
  | [_], h => h
  | (s0, d0) :: (s1, d1) :: r, hw => by
    obtain ⟨hs0, hd0, hs1, hd1, hwr⟩ := hw
    by_cases h2 : 2 ≤ d1
    · simp only [redTail, h2, if_true]
      refine ⟨hs0, ?_, hwr⟩
      intro hr
      simp only [hr, and_false, if_false]
      omega
    · simp only [redTail, h2, if_false]
      have ih := WFC_redTail ((s1, d1) :: r) ⟨hs1, hd1, hwr⟩
      refine ⟨hs0, ?_, ih⟩
      intro _
      exact hd0 (by simp)

/-- text without a run of two dots is left alone by the loop -/
theorem dotdotStep_reduced : ∀ (comps : List (Name × Nat)) (q : Name), Pre q → WFC comps → RedC comps →
    dotdotStep (q ++ renderComps comps) = none
  | [], q, hq, _, _ => by
    have := hq.transparent [] trivial
    simp only [List.append_nil] at this
    simp [dotdotStep, renderComps, this, splitDotDot]
  | (s, d) :: r, q, hq, hw, hr => by
    obtain ⟨⟨hs, hsd, _⟩, hd, hwr⟩ := hw
    obtain ⟨hd1, hrr⟩ := hr
    cases r with
    | nil =>
      have hx : NoLeadDot (s ++ dots d) := noLeadDot_seg_append s _ hs hsd
      have : splitDotDot (s ++ dots d) = none := by
        rw [splitDotDot_seg s hsd]
        have : d = 0 ∨ d = 1 := by omega
        rcases this with rfl | rfl <;> simp [dots, splitDotDot]
      simp [dotdotStep, renderComps, hq.transparent _ hx, this]
    | cons c r' =>
      have hd' : d = 1 := by have := hd (by simp); omega
      subst hd'
      have ih := dotdotStep_reduced (c :: r') (q ++ s ++ ['.']) (Pre.snoc hq hs hsd) hwr hrr
      have e1 : q ++ renderComps ((s, 1) :: c :: r') = (q ++ s ++ ['.']) ++ renderComps (c :: r') := by
        simp [renderComps, dots]
      rw [e1, ih]


def SKey.WF (k : SKey) : Prop := WFC k.comps
def SKey.Reduced (k : SKey) : Prop := k.ld ≤ 1 ∧ RedC k.comps
/-- the levels a key addresses (innermost first), and whether one trailing dot is left -/
def SKey.meaning (k : SKey) : List Name × Bool := go [] k.comps

/-- one turn of the `'..'` loop, on the structure -/
def red (k : SKey) : SKey :=
  if 2 ≤ k.ld then ⟨k.ld - 2, k.comps⟩
  else match k.comps with
    | (_, d) :: r => if 2 ≤ d then ⟨d - 2, r⟩ else ⟨k.ld, redTail k.comps⟩
    | [] => k

theorem pre_dots (n : Nat) (h : n ≤ 1) : Pre (dots n) := by
  have : n = 0 ∨ n = 1 := by omega
  rcases this with rfl | rfl
  · exact Pre.nil
  · exact Pre.dot

theorem dotdotStep_render_reduced (k : SKey) (hw : k.WF) (hr : k.Reduced) : dotdotStep k.render = none :=
  dotdotStep_reduced k.comps (dots k.ld) (pre_dots _ hr.1) hw hr.2

theorem truncLast_dots_seg (n : Nat) (h : n ≤ 1) (s : Name) (hs : '.' ∉ s) : truncLast (dots n ++ s) = [] := by
  have : n = 0 ∨ n = 1 := by omega
  rcases this with rfl | rfl
  · simpa [dots] using truncLast_seg s hs
  · simpa [dots] using truncLast_append_dot [] s hs

theorem red_spec (k : SKey) (hw : k.WF) (hr : ¬ k.Reduced) :
    dotdotStep k.render = some (red k).render ∧ (red k).WF ∧ (red k).meaning = k.meaning := by
  obtain ⟨ld, comps⟩ := k
  simp only [SKey.WF, SKey.Reduced, SKey.meaning, SKey.render, red] at *
  by_cases h2 : 2 ≤ ld
  · obtain ⟨e, rfl⟩ : ∃ e, ld = e + 2 := ⟨ld - 2, by omega⟩
    simp only [h2, if_true]
    refine ⟨?_, hw, by first | rfl | trivial⟩
    simp [dotdotStep, dots, List.replicate_succ, splitDotDot_dotdot, truncLast]
  · have hld : ld ≤ 1 := by omega
    simp only [h2, if_false]
    cases comps with
    | nil => exact absurd ⟨hld, trivial⟩ hr
    | cons c r =>
      obtain ⟨s, d⟩ := c
      obtain ⟨⟨hs, hsd, hsb⟩, hd, hwr⟩ := hw
      simp only
      by_cases hd2 : 2 ≤ d
      · obtain ⟨e, rfl⟩ : ∃ e, d = e + 2 := ⟨d - 2, by omega⟩
        simp only [hd2, if_true]
        refine ⟨?_, hwr, ?_⟩
        · have hsplit : splitDotDot (dots ld ++ renderComps ((s, e + 2) :: r))
              = some (dots ld ++ s, dots e ++ renderComps r) := by
            have : renderComps ((s, e + 2) :: r) = s ++ '.' :: '.' :: (dots e ++ renderComps r) := by
              simp [renderComps, dots, List.replicate_succ]
            rw [this, (pre_dots ld hld).transparent _ (noLeadDot_seg_append s _ hs hsd),
              splitDotDot_seg s hsd, splitDotDot_dotdot]
            simp
          simp [dotdotStep, hsplit, truncLast_dots_seg ld hld s hsd]
        · cases r with
          | nil =>
            have : ¬ (e + 2 = 1) := by omega
            simp [go, this]
          | cons c' r' =>
            rw [go_cons_cons]
            simp
      · simp only [hd2, if_false]
        have hd1 : ∀ s' d' r', (s, d) :: r = (s', d') :: r' → d' ≤ 1 := by
          intro s' d' r' e
          simp only [List.cons.injEq, Prod.mk.injEq] at e
          omega
        have hnr : ¬ RedC ((s, d) :: r) := fun h => hr ⟨hld, h⟩
        have hw' : WFC ((s, d) :: r) := ⟨⟨hs, hsd, hsb⟩, hd, hwr⟩
        exact ⟨dotdotStep_redTail _ _ (pre_dots ld hld) hw' hd1 hnr, WFC_redTail _ hw',
          go_redTail _ _ hw' hd1 hnr⟩

/-! ### the loop terminates within its fuel -/

theorem splitDotDot_eq : ∀ (s f b : Name), splitDotDot s = some (f, b) → s = f ++ '.' :: '.' :: b
  | [], _, _, h => by simp [splitDotDot] at h
  | [_], _, _, h => by simp [splitDotDot] at h
  | c :: d :: r, f, b, h => by
    simp only [splitDotDot] at h
    split at h
    · rename_i hc
      simp only [Option.some.injEq, Prod.mk.injEq] at h
      obtain ⟨rfl, rfl⟩ := h
      simp [hc.1, hc.2]
    · simp only [Option.map_eq_some_iff, Prod.mk.injEq, Prod.exists] at h
      obtain ⟨f', b', h', rfl, rfl⟩ := h
      have := splitDotDot_eq (d :: r) f' b' h'
      simp [this]

theorem truncLast_length_le : ∀ (s : Name), (truncLast s).length ≤ s.length
  | [] => by simp [truncLast]
  | c :: r => by
    simp only [truncLast]
    split
    · simp; exact truncLast_length_le r
    · simp

theorem dotdotStep_shorter (s s' : Name) (h : dotdotStep s = some s') : s'.length < s.length := by
  unfold dotdotStep at h
  cases hs : splitDotDot s with
  | none => simp [hs] at h
  | some p =>
    obtain ⟨f, b⟩ := p
    simp only [hs, Option.map_some, Option.some.injEq] at h
    subst h
    have := splitDotDot_eq s f b hs
    have hl := truncLast_length_le f
    rw [this]
    simp only [List.length_append, List.length_cons]
    split <;> simp <;> omega

theorem dotdotLoop_spec : ∀ (n : Nat) (k : SKey), k.WF → k.render.length ≤ n →
    ∃ k' : SKey, k'.WF ∧ k'.Reduced ∧ k'.meaning = k.meaning ∧ dotdotLoop n k.render = k'.render
  | 0, k, hw, hl => by
    refine ⟨k, hw, ?_, rfl, rfl⟩
    obtain ⟨ld, comps⟩ := k
    simp only [SKey.render, List.length_append, Nat.le_zero, Nat.add_eq_zero_iff, List.length_eq_zero_iff] at hl
    have h1 : ld = 0 := by simpa [dots] using hl.1
    cases comps with
    | nil => exact ⟨by simp [h1], trivial⟩
    | cons c r => exact absurd hl.2 (renderComps_ne hw (by simp))
  | n + 1, k, hw, hl => by
    by_cases hr : k.Reduced
    · exact ⟨k, hw, hr, rfl, by simp [dotdotLoop, dotdotStep_render_reduced k hw hr]⟩
    · obtain ⟨h1, h2, h3⟩ := red_spec k hw hr
      have hlt := dotdotStep_shorter _ _ h1
      obtain ⟨k', hw', hr', hm', he'⟩ := dotdotLoop_spec n (red k) h2 (by omega)
      exact ⟨k', hw', hr', by rw [hm', h3], by simp [dotdotLoop, h1, he']⟩

/-- **the `'..'` loop leaves a text without `..` that means the same** -/
theorem elimDotDot_spec (k : SKey) (hw : k.WF) :
    ∃ k' : SKey, k'.WF ∧ k'.Reduced ∧ k'.meaning = k.meaning ∧ elimDotDot k.render = k'.render :=
  dotdotLoop_spec _ k hw (Nat.le_refl _)


theorem dotdotLoop_fix (n : Nat) (s : Name) (h : dotdotStep s = none) : dotdotLoop n s = s := by
  cases n <;> simp [dotdotLoop, h]

theorem splitDot_seg (s x : Name) (hs : '.' ∉ s) : splitDot (s ++ '.' :: x) = some (s, x) := by
  induction s with
  | nil => simp [splitDot]
  | cons c r ih =>
    have hc : c ≠ '.' := fun e => hs (by simp [e])
    have hr : '.' ∉ r := fun h => hs (by simp [h])
    simp [splitDot, hc, ih hr]

theorem splitDot_none (s : Name) (hs : '.' ∉ s) : splitDot s = none := by
  induction s with
  | nil => rfl
  | cons c r ih =>
    have hc : c ≠ '.' := fun e => hs (by simp [e])
    have hr : '.' ∉ r := fun h => hs (by simp [h])
    simp [splitDot, hc, ih hr]

/-- `lead` on a text that starts with a component -/
theorem lead_comps (fixed : Bool) (s : Name) (d : Nat) (r : List (Name × Nat)) (hs : TextSeg s) (hd : d ≤ 1)
    (hr : r ≠ [] → d = 1) (stale : Option Name) :
    lead fixed (renderComps ((s, d) :: r)) stale =
      .ok (s, if d = 0 then stale else some (renderComps r)) := by
  obtain ⟨hne, hsd, hsb⟩ := hs
  have hd' : d = 0 ∨ d = 1 := by omega
  cases s with
  | nil => exact absurd rfl hne
  | cons c s' =>
    have hc : c ≠ '.' := fun e => hsd (by simp [e])
    rcases hd' with rfl | rfl
    · have hr' : r = [] := by
        cases r with
        | nil => rfl
        | cons a b => have := hr (by simp); omega
      subst hr'
      simp only [renderComps, dots, List.replicate_zero, List.append_nil, lead, hc, if_false]
      rw [splitDot_none (c :: s') hsd]
      simp
    · have ht : renderComps ((c :: s', 1) :: r) = (c :: s') ++ '.' :: renderComps r := by
        simp [renderComps, dots]
      rw [ht]
      simp only [List.cons_append, lead, hc, if_false]
      rw [← List.cons_append, splitDot_seg (c :: s') _ hsd]
      simp only
      split
      · simp only [balance, hsb, if_true]; rfl
      · simp

/-- what the skipped leading dot leaves in `rest`: nothing in the repaired code, the text itself in
the code as it is -/
def staleOf (fixed : Bool) (ld : Nat) (t : Name) : Option Name :=
  if ld = 1 ∧ fixed = false then some t else none

theorem resolve_reduced (fixed : Bool) (k : SKey) (hw : k.WF) (hr : k.Reduced) :
    resolve fixed k.render = match k.comps with
      | [] => .error .key
      | (s, d) :: r => .ok (s, if d = 0 then staleOf fixed k.ld (renderComps k.comps)
                               else some (renderComps r)) := by
  obtain ⟨ld, comps⟩ := k
  have he : elimDotDot (SKey.render ⟨ld, comps⟩) = SKey.render ⟨ld, comps⟩ :=
    dotdotLoop_fix _ _ (dotdotStep_render_reduced _ hw hr)
  simp only [resolve, he]
  simp only [SKey.render, SKey.WF, SKey.Reduced] at *
  have hlead : lead fixed (dots ld ++ renderComps comps) none
      = lead fixed (renderComps comps) (staleOf fixed ld (renderComps comps)) := by
    have : ld = 0 ∨ ld = 1 := by omega
    rcases this with rfl | rfl
    · simp [dots, staleOf]
    · cases fixed <;> simp [dots, lead, staleOf]
  rw [hlead]
  cases comps with
  | nil => simp [renderComps, lead]
  | cons c r =>
    obtain ⟨s, d⟩ := c
    obtain ⟨hs, hd, hwr⟩ := hw
    obtain ⟨hd1, _⟩ := hr.2
    rw [lead_comps fixed s d r hs hd1 (fun h => by have := hd h; omega)]
    simp [hs.1]

/-- the segments of a text without `..` -/
def segsOf : List (Name × Nat) → List Name
  | [] => []
  | [(s, d)] => if d = 1 then [s, []] else [s]
  | (s, _) :: r => s :: segsOf r

theorem mem_renderComps_dot (s : Name) (d : Nat) (r : List (Name × Nat)) (h : 1 ≤ d) :
    '.' ∈ renderComps ((s, d) :: r) := by
  obtain ⟨e, rfl⟩ : ∃ e, d = e + 1 := ⟨d - 1, by omega⟩
  simp [renderComps, dots, List.replicate_succ]

theorem step_reduced (fixed : Bool) (s : Name) (d : Nat) (r : List (Name × Nat)) (hw : WFC ((s, d) :: r))
    (hr : RedC ((s, d) :: r)) :
    step fixed (renderComps ((s, d) :: r)) = .ok (s, if d = 0 then none else some (renderComps r)) := by
  unfold step
  by_cases hdot : '.' ∈ renderComps ((s, d) :: r)
  · simp only [hdot, if_true]
    have := resolve_reduced fixed ⟨0, (s, d) :: r⟩ hw ⟨by simp, hr⟩
    simpa [SKey.render, dots, staleOf] using this
  · simp only [hdot, if_false]
    have hd0 : d = 0 := by
      cases d with
      | zero => rfl
      | succ n => exact absurd (mem_renderComps_dot s (n + 1) r (by omega)) hdot
    subst hd0
    have hr' : r = [] := by
      cases r with
      | nil => rfl
      | cons a b => have := hw.2.1 (by simp); omega
    subst hr'
    simp [renderComps, dots]

theorem chainF_reduced (fixed : Bool) : ∀ (comps : List (Name × Nat)) (n : Nat), WFC comps → RedC comps → comps ≠ [] →
    comps.length + 1 ≤ n → chainF fixed n (renderComps comps) = ⟨segsOf comps, none⟩
  | [], _, _, _, hne, _ => absurd rfl hne
  | [(s, d)], n, hw, hr, _, hn => by
    obtain ⟨m, rfl⟩ : ∃ m, n = m + 1 := ⟨n - 1, by simp at hn; omega⟩
    simp only [chainF, step_reduced fixed s d [] hw hr]
    have : d = 0 ∨ d = 1 := by have := hr.1; omega
    rcases this with rfl | rfl
    · simp [segsOf]
    · obtain ⟨m', rfl⟩ : ∃ m', m = m' + 1 := ⟨m - 1, by simp at hn; omega⟩
      simp [segsOf, renderComps, chainF, step]
  | (s, d) :: c :: r, n, hw, hr, _, hn => by
    obtain ⟨m, rfl⟩ : ∃ m, n = m + 1 := ⟨n - 1, by simp at hn; omega⟩
    have hd : d = 1 := by have := hw.2.1 (by simp); have := hr.1; omega
    subst hd
    simp only [chainF, step_reduced fixed s 1 (c :: r) hw hr]
    have ih := chainF_reduced fixed (c :: r) m hw.2.2 hr.2 (by simp) (by simp at hn ⊢; omega)
    simp [ih, segsOf]


/-- what the nested calls see for a key with the given meaning: `KeyError` when it addresses the root
itself, else the levels outermost first (plus the empty segment a single trailing dot leaves) -/
def pathOf (m : List Name × Bool) : Path :=
  if m.1 = [] then ⟨[], some .key⟩ else ⟨m.1.reverse ++ (if m.2 then [[]] else []), none⟩

def SKey.path (k : SKey) : Path := pathOf k.meaning

theorem go_reduced : ∀ (comps : List (Name × Nat)) (st : List Name), WFC comps → RedC comps →
    (go st comps).1.reverse ++ (if (go st comps).2 then [[]] else []) = st.reverse ++ segsOf comps ∧
    (comps ≠ [] → (go st comps).1 ≠ [])
  | [], st, _, _ => by simp [go, segsOf]
  | [(s, d)], st, _, hr => by
    have : d = 0 ∨ d = 1 := by have := hr.1; omega
    rcases this with rfl | rfl <;> simp [go, segsOf]
  | (s, d) :: c :: r, st, hw, hr => by
    have hd : d = 1 := by have := hw.2.1 (by simp); have := hr.1; omega
    subst hd
    rw [go_cons_cons]
    have ih := go_reduced (c :: r) (s :: st) hw.2.2 hr.2
    simp only [Nat.sub_self, List.drop_zero]
    refine ⟨?_, fun _ => ih.2 (by simp)⟩
    rw [ih.1]
    obtain ⟨s1, d1⟩ := c
    simp [segsOf]

theorem renderComps_length_ge : ∀ (comps : List (Name × Nat)), WFC comps →
    comps.length ≤ (renderComps comps).length
  | [], _ => by simp
  | (s, d) :: r, hw => by
    have := renderComps_length_ge r hw.2.2
    have hs : 1 ≤ s.length := by
      have := hw.1.1
      cases s with
      | nil => exact absurd rfl this
      | cons _ _ => simp
    simp only [renderComps, List.length_append, List.length_cons]
    omega

theorem dotdotLoop_length_le : ∀ (n : Nat) (s : Name), (dotdotLoop n s).length ≤ s.length
  | 0, s => by simp [dotdotLoop]
  | n + 1, s => by
    simp only [dotdotLoop]
    cases h : dotdotStep s with
    | none => simp
    | some s' =>
      have := dotdotStep_shorter s s' h
      have := dotdotLoop_length_le n s'
      simp only
      omega

/-- the first `_resolve` on a key whose `'..'`-free form is the reduced `k'` -/
theorem chainF_via_reduced (fixed : Bool) (key : Name) (k' : SKey) (hw' : k'.WF) (hr' : k'.Reduced)
    (hdot : '.' ∈ key) (he' : elimDotDot key = k'.render) (hlen : k'.render.length ≤ key.length)
    (hok : ∀ s, k'.comps = [(s, 0)] → staleOf fixed k'.ld (renderComps k'.comps) = none) :
    chainF fixed (key.length + 1) key = pathOf k'.meaning := by
  have hres : resolve fixed key = resolve fixed k'.render := by
    have : elimDotDot k'.render = k'.render := dotdotLoop_fix _ _ (dotdotStep_render_reduced _ hw' hr')
    simp only [resolve, he', this]
  have hl : 1 ≤ key.length := by
    cases key with
    | nil => simp at hdot
    | cons _ _ => simp
  simp only [chainF, step, hdot, if_true, hres, resolve_reduced fixed k' hw' hr']
  obtain ⟨ld', comps'⟩ := k'
  simp only [SKey.meaning, SKey.WF, SKey.Reduced, SKey.render] at *
  generalize key.length = n at *
  cases comps' with
  | nil => simp [go, pathOf]
  | cons c r =>
    obtain ⟨s, d⟩ := c
    simp only
    have hd : d = 0 ∨ d = 1 := by have := hr'.2.1; omega
    have hgo := go_reduced ((s, d) :: r) [] hw' hr'.2
    rcases hd with rfl | rfl
    · have hr0 : r = [] := by
        cases r with
        | nil => rfl
        | cons a b => have := hw'.2.1 (by simp); omega
      subst hr0
      simp [go, pathOf, hok s rfl]
    · have h10 : ¬ (1 = 0) := by omega
      simp only [h10, if_false]
      cases r with
      | nil =>
        obtain ⟨m, rfl⟩ : ∃ m, n = m + 1 := ⟨n - 1, by omega⟩
        simp [renderComps, chainF, step, go, pathOf]
      | cons c2 r2 =>
        have hlen2 : (c2 :: r2).length + 1 ≤ n := by
          have h1 := renderComps_length_ge (c2 :: r2) hw'.2.2
          have h2 : 1 ≤ s.length := by
            have := hw'.1.1
            cases s with
            | nil => exact absurd rfl this
            | cons _ _ => simp
          have h3 : (renderComps ((s, 1) :: c2 :: r2)).length
              = s.length + 1 + (renderComps (c2 :: r2)).length := by
            simp [renderComps, dots]; omega
          simp only [List.length_append] at hlen
          omega
        rw [chainF_reduced fixed (c2 :: r2) _ hw'.2.2 hr'.2.2 (by simp) hlen2]
        have hne' := hgo.2 (by simp)
        simp only [pathOf, hne', if_false, hgo.1]
        obtain ⟨s2, d2⟩ := c2
        simp [segsOf]

/-- the text is one dot followed by a single component -/
def dotName : Name → Bool
  | '.' :: s => s != [] && !(decide ('.' ∈ s))
  | _ => false

/-- the key reduces (by the `'..'` loop) to one leading dot and a single component: the case in
which the code as it is leaves `rest` stale -/
def reducesToDotName (key : Name) : Bool := dotName (elimDotDot key)

/-- **`_resolve`, iterated the way the nested calls do, yields exactly the levels the dotted path
means**: every extra dot after a component goes one level up, leading dots and going above the root
are ignored, and a path that ends at the root itself is refused with `KeyError`.
`fixed = true` is the repaired `_resolve`; for the code as it is (`fixed = false`) the keys that
reduce to `.name` are excluded. -/
theorem chain_render (fixed : Bool) (k : SKey) (hw : k.WF) (hne : k.render ≠ [])
    (hok : fixed = true ∨ reducesToDotName k.render = false) : chain fixed k.render = k.path := by
  unfold chain
  by_cases hdot : '.' ∈ k.render
  · obtain ⟨k', hw', hr', hm', he'⟩ := elimDotDot_spec k hw
    have hlen : k'.render.length ≤ k.render.length := by
      rw [← he']; exact dotdotLoop_length_le _ _
    rw [SKey.path, ← hm']
    refine chainF_via_reduced fixed k.render k' hw' hr' hdot he' hlen ?_
    intro s hs
    unfold staleOf
    split
    · rename_i hc
      rcases hok with hf | hb
      · rw [hf] at hc; simp at hc
      · exfalso
        have hrend : k'.render = '.' :: s := by
          simp [SKey.render, hc.1, hs, dots, renderComps]
        have hsw : TextSeg s := by
          have := hw'
          simp only [SKey.WF, hs, WFC] at this
          exact this.1
        simp [reducesToDotName, he', hrend, dotName, hsw.1, hsw.2.1] at hb
    · rfl
  · -- no dot at all: the key is one plain component
    obtain ⟨ld, comps⟩ := k
    simp only [SKey.render, SKey.WF, SKey.path, SKey.meaning] at *
    have hld : ld = 0 := by
      cases ld with
      | zero => rfl
      | succ n => exact absurd (by simp [dots, List.replicate_succ]) hdot
    subst hld
    cases comps with
    | nil => simp [dots, renderComps] at hne
    | cons c r =>
      obtain ⟨s, d⟩ := c
      have hd0 : d = 0 := by
        cases d with
        | zero => rfl
        | succ n =>
          exact absurd (by simp [dots, renderComps, List.replicate_succ]) hdot
      subst hd0
      have hr0 : r = [] := by
        cases r with
        | nil => rfl
        | cons a b => have := hw.2.1 (by simp); omega
      subst hr0
      simp only [dots, List.replicate_zero, List.nil_append] at hdot ⊢
      simp only [renderComps, dots, List.replicate_zero, List.append_nil] at hdot ⊢
      simp [chainF, step, hdot, go, pathOf]

/-- the stack after walking a prefix of components -/
def stackAfter : List Name → List (Name × Nat) → List Name
  | st, [] => st
  | st, (s, d) :: r => stackAfter ((s :: st).drop (d - 1)) r

theorem go_append : ∀ (pre r : List (Name × Nat)) (st : List Name), r ≠ [] →
    go st (pre ++ r) = go (stackAfter st pre) r
  | [], _, _, _ => rfl
  | (s, d) :: pre, r, st, hr => by
    have hne : ∃ c t, pre ++ r = c :: t := by
      cases pre with
      | nil => cases r with
        | nil => exact absurd rfl hr
        | cons c t => exact ⟨c, t, rfl⟩
      | cons c t => exact ⟨c, t ++ r, rfl⟩
    obtain ⟨c, t, hct⟩ := hne
    rw [List.cons_append, hct, go_cons_cons, ← hct, stackAfter]
    exact go_append pre r _ hr

/-! ### segments with dots inside brackets -/

/-- the remainder text: the pieces, each followed by a dot, then `tail` -/
def rjoin (ps : List Name) (tail : Name) : Name := ps.foldr (fun p t => p ++ '.' :: t) tail

/-- `acc` with the pieces appended, each after a dot (what the balancing loop has assembled) -/
def accAfter (acc : Name) (ps : List Name) : Name := ps.foldl (fun a p => a ++ '.' :: p) acc

theorem rjoin_length (ps : List Name) (tail : Name) : ps.length ≤ (rjoin ps tail).length := by
  induction ps with
  | nil => simp [rjoin]
  | cons p r ih =>
    simp only [rjoin, List.foldr_cons, List.length_append, List.length_cons] at ih ⊢
    omega

/-- **the bracket-balancing loop joins exactly as many dot-separated pieces as it takes to balance the
brackets**: if the text assembled so far is unbalanced before each of the pieces `ps` and balanced after
the last one, the loop returns it whole, with the untouched `tail` as the rest. -/
theorem balance_pieces : ∀ (ps : List Name) (acc tail : Name) (n : Nat),
    (∀ p ∈ ps, '.' ∉ p) →
    (∀ i, i < ps.length → balanced (accAfter acc (ps.take i)) = false) →
    balanced (accAfter acc ps) = true → ps.length + 1 ≤ n →
    balance n acc (rjoin ps tail) = .ok (accAfter acc ps, tail)
  | [], acc, tail, n, _, _, hb, hn => by
    obtain ⟨m, rfl⟩ : ∃ m, n = m + 1 := ⟨n - 1, by simp at hn; omega⟩
    simp only [accAfter, List.foldl_nil] at hb
    simp [balance, hb, rjoin, accAfter]
  | p :: r, acc, tail, n, hp, hu, hb, hn => by
    obtain ⟨m, rfl⟩ : ∃ m, n = m + 1 := ⟨n - 1, by simp at hn; omega⟩
    have h0 : balanced acc = false := by simpa [accAfter] using hu 0 (by simp)
    have hpd : '.' ∉ p := hp p (by simp)
    have hne : rjoin (p :: r) tail ≠ [] := by simp [rjoin]
    have hsplit : splitDot (rjoin (p :: r) tail) = some (p, rjoin r tail) := by
      simp only [rjoin, List.foldr_cons]
      exact splitDot_seg p _ hpd
    simp only [balance, h0, Bool.false_eq_true, if_false, hne, hsplit]
    have ih := balance_pieces r (acc ++ '.' :: p) tail m (fun q hq => hp q (by simp [hq]))
      (fun i hi => by
        have := hu (i + 1) (by simp; omega)
        simpa [accAfter, List.take_succ_cons] using this)
      (by simpa [accAfter] using hb) (by simp at hn ⊢; omega)
    simpa [accAfter] using ih

/-- **`_resolve` splits the first segment off where its brackets balance**, whatever dots the index
expression contains (`a[a[0].b-1].b` → `a[a[0].b-1]` and `b`): for a key without `..` that starts with
a piece `p0` containing `[`, continues with the pieces `ps` and then `tail`. -/
theorem resolve_bracketed (fixed : Bool) (p0 : Name) (ps : List Name) (tail : Name)
    (h0 : p0 ≠ []) (h0d : '.' ∉ p0) (h0b : '[' ∈ p0) (hp : ∀ p ∈ ps, '.' ∉ p)
    (hu : ∀ i, i < ps.length → balanced (accAfter p0 (ps.take i)) = false)
    (hb : balanced (accAfter p0 ps) = true)
    (hdd : dotdotStep (p0 ++ '.' :: rjoin ps tail) = none) :
    resolve fixed (p0 ++ '.' :: rjoin ps tail) = .ok (accAfter p0 ps, some tail) := by
  have he : elimDotDot (p0 ++ '.' :: rjoin ps tail) = p0 ++ '.' :: rjoin ps tail := dotdotLoop_fix _ _ hdd
  simp only [resolve, he]
  cases p0 with
  | nil => exact absurd rfl h0
  | cons c s =>
    have hc : c ≠ '.' := fun e => h0d (by simp [e])
    simp only [List.cons_append, lead, hc, if_false]
    rw [← List.cons_append, splitDot_seg (c :: s) _ h0d]
    simp only [h0b, if_true]
    rw [balance_pieces ps (c :: s) tail _ hp hu hb (by have := rjoin_length ps tail; omega)]
    have hne : accAfter (c :: s) ps ≠ [] := by
      have : ∀ (l : List Name) (a : Name), a ≠ [] → accAfter a l ≠ [] := by
        intro l
        induction l with
        | nil => intro a ha; simpa [accAfter] using ha
        | cons q r ih => intro a ha; simp only [accAfter, List.foldl_cons]; exact ih _ (by simp)
      exact this ps _ (by simp)
    simp [Except.map, hne]

end Cpppo.Dotdict
