import Cpppo.Model.Logix

/-! Lemmas about `replyElements` / `tagAccess` (fragment arithmetic; C04, used by C03/C05). -/
namespace Cpppo.Logix

/-- elements per read fragment: the reply budget rounded up to whole elements, at least one -/
def fragCount (B siz : Nat) : Nat := max ((B + siz - 1) / siz) 1

theorem fragCount_pos (B siz : Nat) : 1 ≤ fragCount B siz := by unfold fragCount; omega

theorem replyElements_read (index cnt elm siz B nd j : Nat) (hs : 0 < siz)
    (hfit : index + elm ≤ cnt) (hj : j < elm) :
    replyElements true index cnt elm siz (j * siz) B nd =
      some ⟨index + j, min (index + elm) (index + j + fragCount B siz), index + elm, 0⟩ := by
  unfold replyElements fragCount
  have h1 : j * siz / siz = j := Nat.mul_div_cancel j hs
  simp only [h1, Nat.sub_self, Nat.zero_add, ↓reduceIte, true_or, true_and]
  generalize (B + siz - 1) / siz = q
  rw [if_pos (by omega)]

theorem replyElements_offremains (isRead : Bool) (index cnt elm siz off B nd : Nat) (x : Extent)
    (h : replyElements isRead index cnt elm siz off B nd = some x) :
    x.offremains = off - off / siz * siz ∧ x.beg = index + off / siz ∧ x.endactual = index + elm
    ∧ x.end ≤ x.endactual ∧ x.endactual ≤ cnt ∧ x.beg < x.end ∧ elm ≤ cnt := by
  unfold replyElements at h
  cases isRead <;> simp only [Bool.false_eq_true, ↓reduceIte, false_or, true_or, true_and] at h <;>
    (split at h
     · injection h with h
       subst h
       refine ⟨rfl, rfl, rfl, ?_, ?_, ?_, ?_⟩ <;> (try dsimp only) <;> omega
     · exact absurd h (by simp))

theorem replyElements_write (index cnt elm siz B nd j : Nat) (hs : 0 < siz)
    (hfit : index + elm ≤ cnt) (hnd : 1 ≤ nd) (hj : j + nd ≤ elm) :
    replyElements false index cnt elm siz (j * siz) B nd =
      some ⟨index + j, index + j + nd, index + elm, 0⟩ := by
  unfold replyElements
  have h1 : j * siz / siz = j := Nat.mul_div_cancel j hs
  simp only [h1, Nat.sub_self, Bool.false_eq_true, ↓reduceIte, false_or]
  rw [if_pos (by omega)]
  congr 1
  simp only [Extent.mk.injEq, and_true, true_and]
  omega
/-! ### list helpers -/

theorem take_drop_split (l : List Val) (a b c : Nat) :
    (l.drop a).take (b + c) = (l.drop a).take b ++ (l.drop (a + b)).take c := by
  rw [List.take_add, List.drop_drop]

theorem spliceAt_length (l : List Val) (beg : Nat) (new : List Val) (h : beg + new.length ≤ l.length) :
    (spliceAt l beg new).length = l.length := by
  unfold spliceAt
  simp only [List.length_append, List.length_take, List.length_drop]
  omega

theorem spliceAt_spliceAt (l : List Val) (a : Nat) (x y : List Val)
    (h : a + x.length + y.length ≤ l.length) :
    spliceAt (spliceAt l a x) (a + x.length) y = spliceAt l a (x ++ y) := by
  unfold spliceAt
  have ha : a ≤ l.length := by omega
  have h1 : (List.take a l ++ x ++ List.drop (a + x.length) l).take (a + x.length) = List.take a l ++ x := by
    rw [List.take_append_of_le_length (by simp; omega)]
    rw [List.take_of_length_le (by simp; omega)]
  have h2 : (List.take a l ++ x ++ List.drop (a + x.length) l).drop (a + x.length + y.length)
      = List.drop (a + (x ++ y).length) l := by
    rw [List.drop_append]
    have hl : (List.take a l ++ x).length = a + x.length := by simp; omega
    rw [List.drop_of_length_le (by omega), hl, List.drop_drop, List.nil_append]
    congr 1; simp; omega
  rw [h1, h2]
  simp [List.append_assoc]

/-- elements of a spliced list -/
theorem getElem?_spliceAt (l : List Val) (beg : Nat) (new : List Val) (k : Nat)
    (h : beg + new.length ≤ l.length) :
    (spliceAt l beg new)[k]? =
      if beg ≤ k ∧ k < beg + new.length then new[k - beg]? else l[k]? := by
  unfold spliceAt
  by_cases h1 : k < beg
  · rw [List.append_assoc, List.getElem?_append_left (by simp; omega)]
    simp [h1]; omega
  · by_cases h2 : k < beg + new.length
    · rw [List.getElem?_append_left (by simp; omega), List.getElem?_append_right (by simp; omega)]
      simp only [List.length_take]
      have : min beg l.length = beg := by omega
      rw [this, if_pos (by omega)]
    · rw [List.getElem?_append_right (by simp; omega)]
      simp only [List.length_append, List.length_take, List.getElem?_drop]
      have : min beg l.length = beg := by omega
      rw [this, if_neg (by omega)]
      congr 1; omega

end Cpppo.Logix
