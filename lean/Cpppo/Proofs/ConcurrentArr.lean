import Cpppo.Proofs.Concurrent

/-! The array instance (`execOp`): vocabulary of the C09 statements about elements, and its lemmas. -/
namespace Cpppo.Concurrent

open Cpppo.Logix (spliceAt spliceAt_length getElem?_spliceAt)

/-! ### vocabulary -/

/-- lengths of the arrays (no request changes them) -/
def shape (m : Mem) : List Nat := m.map List.length

/-- element `j` of array `k` -/
def elem (m : Mem) (k j : Nat) : Option Val := (m[k]?).bind (·[j]?)

/-- on arrays of lengths `sh` the request is an accepted write that assigns element `j` of array `k` -/
def Op.assigns (sh : List Nat) (k j : Nat) : Op → Bool
  | .write k' beg vals =>
    k' == k && decide (0 < vals.length)
      && (match sh[k']? with
          | some len => decide (beg + vals.length ≤ len)
          | none => false)
      && decide (beg ≤ j) && decide (j < beg + vals.length)
  | .read .. => false

/-- the value a write carries for element `j` -/
def Op.value (j : Nat) : Op → Option Val
  | .write _ beg vals => vals[j - beg]?
  | .read .. => none

/-- the value the last assigning request of a program carries for element `j` of array `k` -/
def lastAssigned (sh : List Nat) (k j : Nat) : List (List Op) → Option Val
  | [] => none
  | w :: rest =>
    (lastAssigned sh k j rest).or
      (match w with
       | [op] => if op.assigns sh k j then op.value j else none
       | _ => none)

/-- a program run alone -/
def runOps (m : Mem) : List (List Op) → Mem
  | [] => m
  | w :: rest => runOps (execOp m w).1 rest

/-- elements `[b, b+n)` of array `k` exist and hold one value -/
def Uniform (k b n : Nat) (m : Mem) : Prop :=
  ∃ arr v, m[k]? = some arr ∧ b + n ≤ arr.length ∧ ∀ j, b ≤ j → j < b + n → arr[j]? = some v

/-- a request that, whole, keeps the stripe `[b, b+n)` of array `k` uniform: a read; a write to another
array; a write that covers the whole stripe with one value; a write that does not touch the stripe -/
def Op.stripeSafe (k b n : Nat) : Op → Prop
  | .write k' beg vals =>
    k' ≠ k
    ∨ (beg ≤ b ∧ b + n ≤ beg + vals.length ∧ ∃ v, ∀ x ∈ (vals.drop (b - beg)).take n, x = v)
    ∨ beg + vals.length ≤ b ∨ b + n ≤ beg
  | .read .. => True

/-! ### one access -/

theorem shape_getElem? (m : Mem) (k : Nat) : (shape m)[k]? = (m[k]?).map List.length := by
  simp [shape]

theorem access_read_mem (m : Mem) (k beg n : Nat) : (access m (.read k beg n)).1 = m := by
  simp only [access]
  split
  · rfl
  · split <;> rfl

theorem shape_access (m : Mem) (op : Op) : shape (access m op).1 = shape m := by
  cases op with
  | read k beg n => rw [access_read_mem]
  | write k beg vals =>
    simp only [access]
    split
    · rfl
    · rename_i arr harr
      split
      · rename_i hv
        apply List.ext_getElem?
        intro i
        simp only [shape, List.getElem?_map, List.getElem?_set]
        by_cases hik : k = i
        · subst hik
          obtain ⟨hlt, hget⟩ := List.getElem?_eq_some_iff.mp harr
          simp [hlt, hget, spliceAt_length _ _ _ hv.2]
        · simp [hik]
      · rfl

theorem elem_access (m : Mem) (op : Op) (k j : Nat) :
    elem (access m op).1 k j = if op.assigns (shape m) k j then op.value j else elem m k j := by
  cases op with
  | read k' beg n => rw [access_read_mem]; simp [Op.assigns]
  | write k' beg vals =>
    simp only [access]
    split
    · rename_i hnone
      simp [Op.assigns, shape_getElem?, hnone]
    · rename_i arr harr
      have hlt : k' < m.length := (List.getElem?_eq_some_iff.mp harr).1
      split
      · rename_i hv
        by_cases hk : k' = k
        · subst hk
          simp only [elem, List.getElem?_set, hlt, ↓reduceIte, Option.bind_some, harr]
          rw [getElem?_spliceAt _ _ _ _ hv.2]
          simp only [Op.assigns, shape_getElem?, harr, Option.map_some, beq_self_eq_true, hv.1, hv.2,
            decide_true, Bool.and_self, Bool.true_and, Bool.and_eq_true, decide_eq_true_eq, Op.value]
        · simp [elem, hk, Op.assigns]
      · rename_i hv
        have : Op.assigns (shape m) k j (.write k' beg vals) = false := by
          simp only [Op.assigns, shape_getElem?, harr, Option.map_some]
          by_cases h1 : 0 < vals.length
          · have h2 : ¬ beg + vals.length ≤ arr.length := fun h2 => hv ⟨h1, h2⟩
            simp [h2]
          · simp [h1]
        simp [this]

theorem shape_execOp (m : Mem) (w : List Op) : shape (execOp m w).1 = shape m := by
  unfold execOp
  split
  · exact shape_access _ _
  · rfl

theorem elem_execOp_single (m : Mem) (op : Op) (k j : Nat) :
    elem (execOp m [op]).1 k j = if op.assigns (shape m) k j then op.value j else elem m k j :=
  elem_access m op k j

theorem elem_execOp_other (m : Mem) (w : List Op) (k j : Nat) (h : ∀ op, w ≠ [op]) :
    elem (execOp m w).1 k j = elem m k j := by
  unfold execOp
  split
  · rename_i op; exact absurd rfl (h op)
  · rfl

/-! ### no lost write -/

theorem no_lost_write_aux (a : Sid) (k j : Nat) (order : List (Sid × List Op)) (m m' : Mem)
    (hsh : shape m = shape m') (hel : elem m k j = elem m' k j)
    (honly : ∀ e ∈ order, e.1 ≠ a → ∀ op, e.2 = [op] → op.assigns (shape m) k j = false) :
    elem (runSeq execOp m order).1 k j = elem (runOps m' (proj a order)) k j := by
  induction order generalizing m m' with
  | nil => exact hel
  | cons e rest ih =>
    obtain ⟨s, w⟩ := e
    simp only [runSeq]
    by_cases hs : s = a
    · subst hs
      rw [proj_cons_same]
      simp only [runOps]
      apply ih
      · rw [shape_execOp, shape_execOp, hsh]
      · by_cases hw : ∃ op, w = [op]
        · obtain ⟨op, rfl⟩ := hw
          rw [elem_execOp_single, elem_execOp_single, hsh, hel]
        · have hw' : ∀ op, w ≠ [op] := fun op h => hw ⟨op, h⟩
          rw [elem_execOp_other _ _ _ _ hw', elem_execOp_other _ _ _ _ hw', hel]
      · intro e he
        rw [shape_execOp]
        exact honly e (List.mem_cons_of_mem _ he)
    · rw [proj_cons_other _ _ _ _ (Ne.symm hs)]
      apply ih
      · rw [shape_execOp, hsh]
      · rw [← hel]
        by_cases hw : ∃ op, w = [op]
        · obtain ⟨op, rfl⟩ := hw
          rw [elem_execOp_single, honly (s, [op]) List.mem_cons_self hs op rfl]
          simp
        · exact elem_execOp_other _ _ _ _ (fun op h => hw ⟨op, h⟩)
      · intro e he
        rw [shape_execOp]
        exact honly e (List.mem_cons_of_mem _ he)

theorem no_lost_write_seq (m0 : Mem) (order : List (Sid × List Op)) (a : Sid) (k j : Nat)
    (honly : ∀ e ∈ order, e.1 ≠ a → ∀ op, e.2 = [op] → op.assigns (shape m0) k j = false) :
    elem (runSeq execOp m0 order).1 k j = elem (runOps m0 (proj a order)) k j :=
  no_lost_write_aux a k j order m0 m0 rfl rfl honly

theorem option_or_assoc {β : Type} (a b c : Option β) : (a.or b).or c = a.or (b.or c) := by
  cases a <;> simp

/-- an assigning write carries a value for the element -/
theorem assigns_value (sh : List Nat) (k j : Nat) (op : Op) (h : op.assigns sh k j = true) :
    ∃ v, op.value j = some v := by
  cases op with
  | read => simp [Op.assigns] at h
  | write k' beg vals =>
    simp only [Op.assigns, Bool.and_eq_true, decide_eq_true_eq] at h
    have : j - beg < vals.length := by omega
    exact ⟨vals[j - beg], by simp [Op.value, this]⟩

theorem runOps_elem (m : Mem) (ws : List (List Op)) (k j : Nat) :
    elem (runOps m ws) k j = (lastAssigned (shape m) k j ws).or (elem m k j) := by
  induction ws generalizing m with
  | nil => simp [runOps, lastAssigned]
  | cons w rest ih =>
    simp only [runOps, lastAssigned]
    rw [ih, shape_execOp, option_or_assoc]
    congr 1
    by_cases hw : ∃ op, w = [op]
    · obtain ⟨op, rfl⟩ := hw
      rw [elem_execOp_single]
      by_cases ha : op.assigns (shape m) k j = true
      · obtain ⟨v, hv⟩ := assigns_value _ _ _ _ ha
        simp [ha, hv]
      · simp [ha]
    · have hw' : ∀ op, w ≠ [op] := fun op h => hw ⟨op, h⟩
      rw [elem_execOp_other _ _ _ _ hw']
      split
      · rename_i op; exact absurd rfl (hw' op)
      · simp

/-! ### stripes -/

theorem read_uniform (m : Mem) (k b n : Nat) (hn : 0 < n) (hu : Uniform k b n m) :
    ∃ v, (execOp m [Op.read k b n]).2 = .data (List.replicate n v) := by
  obtain ⟨arr, v, harr, hlen, hv⟩ := hu
  refine ⟨v, ?_⟩
  simp only [execOp, access, harr]
  rw [if_pos ⟨hn, hlen⟩]
  show Res.data _ = Res.data _
  congr 1
  apply List.ext_getElem?
  intro i
  by_cases hi : i < n
  · simp only [List.getElem?_take, hi, ↓reduceIte, List.getElem?_drop, List.getElem?_replicate]
    exact hv (b + i) (by omega) (by omega)
  · simp [List.getElem?_take, hi]

theorem access_uniform (k b n : Nat) (m : Mem) (op : Op) (hm : Uniform k b n m) (hs : op.stripeSafe k b n) :
    Uniform k b n (access m op).1 := by
  cases op with
  | read k' beg n' => rw [access_read_mem]; exact hm
  | write k' beg vals =>
    simp only [access]
    split
    · exact hm
    · rename_i arr' harr'
      split
      · rename_i hv
        obtain ⟨arr, v, harr, hlen, huni⟩ := hm
        by_cases hk : k' = k
        · subst hk
          rw [harr] at harr'
          obtain rfl : arr = arr' := Option.some.inj harr'
          have hlt : k' < m.length := (List.getElem?_eq_some_iff.mp harr).1
          rcases hs with hne | hcover | hdis
          · exact absurd rfl hne
          · obtain ⟨h1, h2, v', hv'⟩ := hcover
            refine ⟨spliceAt arr beg vals, v', by simp [hlt],
              by rw [spliceAt_length _ _ _ hv.2]; exact hlen, ?_⟩
            intro j hj1 hj2
            rw [getElem?_spliceAt _ _ _ _ hv.2, if_pos ⟨by omega, by omega⟩]
            have hjl : j - beg < vals.length := by omega
            rw [List.getElem?_eq_getElem hjl]
            congr 1
            apply hv'
            rw [List.mem_iff_getElem?]
            refine ⟨j - b, ?_⟩
            rw [List.getElem?_take, if_pos (by omega), List.getElem?_drop]
            have : b - beg + (j - b) = j - beg := by omega
            rw [this, List.getElem?_eq_getElem hjl]
          · refine ⟨spliceAt arr beg vals, v, by simp [hlt],
              by rw [spliceAt_length _ _ _ hv.2]; exact hlen, ?_⟩
            intro j hj1 hj2
            rw [getElem?_spliceAt _ _ _ _ hv.2, if_neg (by omega)]
            exact huni j hj1 hj2
        · refine ⟨arr, v, ?_, hlen, huni⟩
          simp [hk, harr]
      · exact hm

theorem execOp_uniform (k b n : Nat) (m : Mem) (w : List Op) (hm : Uniform k b n m)
    (hs : ∀ op, w = [op] → op.stripeSafe k b n) : Uniform k b n (execOp m w).1 := by
  unfold execOp
  split
  · rename_i op; exact access_uniform k b n m op hm (hs op rfl)
  · exact hm

end Cpppo.Concurrent
