import Cpppo.Proofs.SrvServe
/-! Forward Open / connected requests / Forward Close through the server model. -/
namespace Cpppo.Interop
open Cpppo Cpppo.Logix Cpppo.Fields

def portSegs (ports : List (Nat × Nat)) : List Srv.PSeg := ports.map fun x => Srv.PSeg.port x.1 x.2

/-- a connection path (port segments then logical segments) is parsed back -/
theorem parseSegs_connPath (ports : List (Nat × Nat)) (target : Path) (a b : Bytes)
    (ha : Ref.encPorts ports = some a) (hb : Ref.encSegs target = some b) (fuel : Nat) (hf : (a ++ b).length ≤ fuel) :
    Srv.parseSegs fuel (a ++ b) = some (portSegs ports ++ target.map segOf) := by
  induction ports generalizing a fuel with
  | nil =>
    simp [Ref.encPorts] at ha; subst ha
    simpa [portSegs] using parseSegs_encSegs target b hb fuel (by simpa using hf)
  | cons x rest ih =>
    obtain ⟨p, l⟩ := x
    obtain ⟨a', ha', rfl, h1, h2⟩ := encPorts_cons ha
    match fuel, hf with
    | f + 1, hf =>
      have hf' : (a' ++ b).length ≤ f := by simp at hf ⊢; omega
      have := ih a' ha' f hf'
      simp only [List.cons_append, Srv.parseSegs, parseSeg_port p l (a' ++ b) h1 h2, this, portSegs, List.map_cons]

theorem encConnPath_some {ports : List (Nat × Nat)} {target : Path} {cp : Bytes}
    (h : Ref.encConnPath ports target = some cp) :
    ∃ a b, Ref.encPorts ports = some a ∧ Ref.encSegs target = some b ∧ cp = a ++ b ∧ cp.length < 512
      ∧ cp.length % 2 = 0 := by
  unfold Ref.encConnPath at h
  split at h
  · rename_i a b ha hb
    split at h
    · rename_i hl
      simp only [Option.some.injEq] at h; subst h
      refine ⟨a, b, ha, hb, rfl, hl, ?_⟩
      have h1 := (parseSegs_ports ports a ha a.length (Nat.le_refl _)).2
      have h2 := encSegs_even hb
      simp only [List.length_append]; omega
    · simp at h
  · simp at h

/-- EPATH of a connection path: size in words, [pad,] segments -/
theorem parseEpath_connPath (padded : Bool) (ports : List (Nat × Nat)) (target : Path) (cp rest : Bytes)
    (h : Ref.encConnPath ports target = some cp) :
    Srv.parseEpath padded ((cp.length / 2) :: ((if padded then [0] else []) ++ cp ++ rest))
      = some (portSegs ports ++ target.map segOf, rest) := by
  obtain ⟨a, b, ha, hb, rfl, hl, hev⟩ := encConnPath_some h
  have h2 : 2 * ((a ++ b).length / 2) = (a ++ b).length := by omega
  have hp := parseSegs_connPath ports target a b ha hb (a ++ b).length (Nat.le_refl _)
  cases padded with
  | false =>
    simp only [Bool.false_eq_true, ↓reduceIte, List.nil_append, Srv.parseEpath]
    rw [h2, take_append _ (a ++ b) rest rfl]
    simp only [hp]
  | true =>
    simp only [↓reduceIte, List.cons_append, List.nil_append, Srv.parseEpath, Srv.skip1]
    rw [h2, take_append _ (a ++ b) rest rfl]
    simp only [hp]

/-- what the Connection Manager's parser makes of the reference Forward Open -/
def foReqOf (fo : Ref.FwdOpen) : Srv.FoReq :=
  { svc := if fo.large then 0x5B else 0x54, otId := fo.otId, toId := fo.toId, serial := fo.serial,
    vendor := fo.vendor, oserial := fo.oserial, otRpi := fo.otRpi, otNcp := fo.otNcp, toRpi := fo.toRpi,
    toNcp := fo.toNcp, tct := fo.tct, cpath := portSegs fo.ports ++ fo.target.map segOf }

theorem cmPath_parse (rest : Bytes) :
    Srv.parseEpath false (2 :: 32 :: 6 :: 36 :: 1 :: rest) = some ([.cls 6, .ins 1], rest) := by
  have ht := take_append 4 [32, 6, 36, 1] rest rfl
  simp only [List.cons_append, List.nil_append] at ht
  simp [Srv.parseEpath, ht, Srv.parseSegs, Srv.parseSeg, Srv.inKind, Srv.logical, Generated.iopSegElement,
    Generated.iopSegClass, Generated.iopSegInstance, u1_cons]

theorem parseFwdOpen_enc (fo : Ref.FwdOpen) (b : Bytes) (h : Ref.encFwdOpen fo = some b) :
    Srv.parseFwdOpen b = some (foReqOf fo) := by
  obtain ⟨large, prio, ticks, otId, toId, serial, vendor, oserial, mult, otRpi, otNcp, toRpi, toNcp, tct, ports, target⟩ := fo
  unfold Ref.encFwdOpen at h
  simp only at h
  cases hcp : Ref.encConnPath ports target with
  | none => simp [hcp] at h
  | some cp =>
    simp only [hcp] at h
    have hpath := parseEpath_connPath false ports target cp [] hcp
    simp only [Bool.false_eq_true, ↓reduceIte, List.nil_append, List.append_nil] at hpath
    have e10 : ∀ rest : Bytes, take 4 (mult :: 0 :: 0 :: 0 :: rest) = some ([mult, 0, 0, 0], rest) := by
      intro rest; simpa using take_append 4 [mult, 0, 0, 0] rest rfl
    cases large with
    | false =>
      simp only [Bool.false_eq_true, ↓reduceIte] at h
      split at h
      · rename_i hc
        obtain ⟨_, _, c3, c4, c5, c6, c7, _, c9, c10, c11, c12, _⟩ := hc
        simp only [Option.some.injEq] at h
        subst h
        have e1 := fun rest => u_le 4 otId rest (by omega)
        have e2 := fun rest => u_le 4 toId rest (by omega)
        have e3 := fun rest => u_le 2 serial rest (by omega)
        have e4 := fun rest => u_le 2 vendor rest (by omega)
        have e5 := fun rest => u_le 4 oserial rest (by omega)
        have e6 := fun rest => u_le 4 otRpi rest (by omega)
        have e7 := fun rest => u_le 2 otNcp rest (by omega)
        have e8 := fun rest => u_le 4 toRpi rest (by omega)
        have e9 := fun rest => u_le 2 toNcp rest (by omega)
        simp only [List.cons_append, List.nil_append, List.append_assoc, Srv.parseFwdOpen, cmPath_parse, u1_cons,
          Generated.iopSvcFwdOpenLarge, Nat.reduceEqDiff, ↓reduceIte, e1, e2, e3, e4, e5, e6, e7, e8, e9, e10, hpath,
          foReqOf, Bool.false_eq_true]
      · simp at h
    | true =>
      simp only [↓reduceIte] at h
      split at h
      · rename_i hc
        obtain ⟨_, _, c3, c4, c5, c6, c7, _, c9, c10, c11, c12, _⟩ := hc
        simp only [Option.some.injEq] at h
        subst h
        have e1 := fun rest => u_le 4 otId rest (by omega)
        have e2 := fun rest => u_le 4 toId rest (by omega)
        have e3 := fun rest => u_le 2 serial rest (by omega)
        have e4 := fun rest => u_le 2 vendor rest (by omega)
        have e5 := fun rest => u_le 4 oserial rest (by omega)
        have e6 := fun rest => u_le 4 otRpi rest (by omega)
        have e7 := fun rest => u_le 4 otNcp rest (by omega)
        have e8 := fun rest => u_le 4 toRpi rest (by omega)
        have e9 := fun rest => u_le 4 toNcp rest (by omega)
        simp only [List.cons_append, List.nil_append, List.append_assoc, Srv.parseFwdOpen, cmPath_parse, u1_cons,
          Generated.iopSvcFwdOpenLarge, ↓reduceIte, e1, e2, e3, e4, e5, e6, e7, e8, e9, e10, hpath, foReqOf]
      · simp at h

theorem encFwdOpen_head {fo : Ref.FwdOpen} {b : Bytes} (h : Ref.encFwdOpen fo = some b) :
    ∃ rest, b = (if fo.large then 0x5B else 0x54) :: 2 :: 32 :: 6 :: 36 :: 1 :: rest ∧ b.length < 600 := by
  obtain ⟨large, prio, ticks, otId, toId, serial, vendor, oserial, mult, otRpi, otNcp, toRpi, toNcp, tct, ports, target⟩ := fo
  unfold Ref.encFwdOpen at h
  simp only at h
  cases hcp : Ref.encConnPath ports target with
  | none => simp [hcp] at h
  | some cp =>
    simp only [hcp] at h
    obtain ⟨_, _, _, _, _, hl, _⟩ := encConnPath_some hcp
    cases large <;> simp only [Bool.false_eq_true, ↓reduceIte] at h ⊢ <;>
      (split at h
       · simp only [Option.some.injEq] at h; subst h
         refine ⟨_, rfl, ?_⟩
         simp only [List.cons_append, List.nil_append, List.length_cons, List.length_append, le_length, List.length_nil]
         omega
       · simp at h)

/-- the entry `forward_open` files for a new connection -/
def fwdEntry (fo : Ref.FwdOpen) (otId : Nat) : Srv.Fwd :=
  { connId := otId, serial := fo.serial, otNcp := Srv.ncpNorm fo.large fo.otNcp, otRpi := fo.otRpi,
    toNcp := Srv.ncpNorm fo.large fo.toNcp, toRpi := fo.toRpi, tct := fo.tct,
    cpath := portSegs fo.ports ++ fo.target.map segOf }

/-- the ids the target answers with: it picks the O->T id of a point-to-point connection and the T->O id
of a multicast connection -/
def foOtId (fo : Ref.FwdOpen) (rnd : Srv.Rnd) : Nat := if Srv.ncpType fo.large fo.otNcp = 2 then rnd.otId else fo.otId
def foToId (fo : Ref.FwdOpen) (rnd : Srv.Rnd) : Nat := if Srv.ncpType fo.large fo.toNcp = 1 then rnd.toId else fo.toId

def foOkBytes (fo : Ref.FwdOpen) (rnd : Srv.Rnd) : Bytes :=
  [(if fo.large then 0x5B else 0x54) + 128, 0, 0, 0] ++ Bytes.le 4 (foOtId fo rnd) ++ Bytes.le 4 (foToId fo rnd)
    ++ Bytes.le 2 fo.serial ++ Bytes.le 2 fo.vendor ++ Bytes.le 4 fo.oserial ++ Bytes.le 4 fo.otRpi
    ++ Bytes.le 4 fo.toRpi ++ [0, 0]

/-- a Forward Open with non-zero connection sizes and a fresh connection id is accepted -/
def FoAccepted (st : Srv.St) (rnd : Srv.Rnd) (fo : Ref.FwdOpen) : Prop :=
  Srv.ncpSize fo.large fo.otNcp ≠ 0 ∧ Srv.ncpSize fo.large fo.toNcp ≠ 0 ∧
    st.fwds.find? (fun f => f.connId == foOtId fo rnd) = none

theorem forwardOpen_fresh (st : Srv.St) (rnd : Srv.Rnd) (q : Srv.FoReq) (h1 : Srv.ncpSize (q.svc == Generated.iopSvcFwdOpenLarge) q.otNcp ≠ 0)
    (h2 : Srv.ncpSize (q.svc == Generated.iopSvcFwdOpenLarge) q.toNcp ≠ 0) (otId : Nat) (ho : otId = if Srv.ncpType (q.svc == Generated.iopSvcFwdOpenLarge) q.otNcp = 2 then rnd.otId else q.otId)
    (h3 : st.fwds.find? (fun f => f.connId == otId) = none) :
    Srv.forwardOpen st rnd q =
      ({ st with fwds := st.fwds ++ [{ connId := otId, serial := q.serial, otNcp := Srv.ncpNorm (q.svc == Generated.iopSvcFwdOpenLarge) q.otNcp, otRpi := q.otRpi,
                                       toNcp := Srv.ncpNorm (q.svc == Generated.iopSvcFwdOpenLarge) q.toNcp, toRpi := q.toRpi, tct := q.tct, cpath := q.cpath }] },
       [q.svc + 128, 0, 0, 0] ++ Bytes.le 4 otId
         ++ Bytes.le 4 (if Srv.ncpType (q.svc == Generated.iopSvcFwdOpenLarge) q.toNcp = 1 then rnd.toId else q.toId) ++ Bytes.le 2 q.serial
         ++ Bytes.le 2 q.vendor ++ Bytes.le 4 q.oserial ++ Bytes.le 4 q.otRpi ++ Bytes.le 4 q.toRpi ++ [0, 0]) := by
  have hsz : ¬ (Srv.ncpSize (q.svc == Generated.iopSvcFwdOpenLarge) q.otNcp = 0 ∨ Srv.ncpSize (q.svc == Generated.iopSvcFwdOpenLarge) q.toNcp = 0) := by omega
  unfold Srv.forwardOpen
  rw [if_neg hsz]
  simp only [← ho, h3]

theorem foReqOf_large (fo : Ref.FwdOpen) : ((foReqOf fo).svc == Generated.iopSvcFwdOpenLarge) = fo.large := by
  cases h : fo.large <;> simp [foReqOf, h, Generated.iopSvcFwdOpenLarge]

theorem cmRequest_fwdOpen (st : Srv.St) (rnd : Srv.Rnd) (fo : Ref.FwdOpen) (b : Bytes)
    (h : Ref.encFwdOpen fo = some b) (hacc : FoAccepted st rnd fo) :
    Srv.cmRequest true st rnd none b =
      ({ st with fwds := st.fwds ++ [fwdEntry fo (foOtId fo rnd)] }, some (foOkBytes fo rnd)) := by
  obtain ⟨rest, hb, _⟩ := encFwdOpen_head h
  have hp := parseFwdOpen_enc fo b h
  obtain ⟨h1, h2, h3⟩ := hacc
  subst hb
  have hsvc : (if fo.large = true then 0x5B else 0x54) = Generated.iopSvcFwdOpen ∨
      (if fo.large = true then 0x5B else 0x54) = Generated.iopSvcFwdOpenLarge := by
    cases fo.large <;> simp [Generated.iopSvcFwdOpen, Generated.iopSvcFwdOpenLarge]
  unfold Srv.cmRequest
  simp only [Option.bind_none, cmPath_parse, Option.map_some, Srv.targetOf, resolve_cm, Srv.cm, Generated.iopCmClass,
    true_or, ↓reduceIte, Srv.cmService, hsvc, hp]
  rw [forwardOpen_fresh st rnd (foReqOf fo) (by rw [foReqOf_large]; exact h1) (by rw [foReqOf_large]; exact h2)
    (foOtId fo rnd) (by rw [foReqOf_large]; rfl) h3]
  simp only [foReqOf_large]
  rfl

theorem encFwdOpen_ranges {fo : Ref.FwdOpen} {b : Bytes} (h : Ref.encFwdOpen fo = some b) :
    fo.otId < 4294967296 ∧ fo.toId < 4294967296 ∧ fo.serial < 65536 ∧ fo.vendor < 65536 ∧ fo.oserial < 4294967296
      ∧ fo.otRpi < 4294967296 ∧ fo.toRpi < 4294967296 := by
  obtain ⟨large, prio, ticks, otId, toId, serial, vendor, oserial, mult, otRpi, otNcp, toRpi, toNcp, tct, ports, target⟩ := fo
  unfold Ref.encFwdOpen at h
  simp only at h
  cases hcp : Ref.encConnPath ports target with
  | none => simp [hcp] at h
  | some cp =>
    simp only [hcp] at h
    cases large <;> simp only [Bool.false_eq_true, ↓reduceIte] at h <;>
      (split at h
       · rename_i hc
         obtain ⟨_, _, c3, c4, c5, c6, c7, _, c9, c10, _⟩ := hc
         exact ⟨c3, c4, c5, c6, c7, c9, c10⟩
       · simp at h)

def RndOk (rnd : Srv.Rnd) : Prop := rnd.session < 4294967296 ∧ rnd.otId < 4294967296 ∧ rnd.toId < 4294967296

/-- the reference decoder reads the Forward Open success reply -/
theorem decCip_foOk (fo : Ref.FwdOpen) (rnd : Srv.Rnd) (b : Bytes) (h : Ref.encFwdOpen fo = some b) (hr : RndOk rnd) :
    Ref.decCip (foOkBytes fo rnd) = some (.fwdOpen
      { svc := (if fo.large then 0x5B else 0x54) + 128, status := 0, otId := foOtId fo rnd, toId := foToId fo rnd,
        serial := fo.serial, vendor := fo.vendor, oserial := fo.oserial, otApi := fo.otRpi, toApi := fo.toRpi }) := by
  obtain ⟨c3, c4, c5, c6, c7, c9, c10⟩ := encFwdOpen_ranges h
  obtain ⟨_, r2, r3⟩ := hr
  have i1 : foOtId fo rnd < 4294967296 := by unfold foOtId; split <;> assumption
  have i2 : foToId fo rnd < 4294967296 := by unfold foToId; split <;> assumption
  have e1 := fun rest => u_le 4 (foOtId fo rnd) rest (by omega)
  have e2 := fun rest => u_le 4 (foToId fo rnd) rest (by omega)
  have e3 := fun rest => u_le 2 fo.serial rest (by omega)
  have e4 := fun rest => u_le 2 fo.vendor rest (by omega)
  have e5 := fun rest => u_le 4 fo.oserial rest (by omega)
  have e6 := fun rest => u_le 4 fo.otRpi rest (by omega)
  have e7 := fun rest => u_le 4 fo.toRpi rest (by omega)
  cases hl : fo.large <;>
    simp [foOkBytes, hl, Ref.decCip, Ref.decFoReply, Ref.decStatus, words, e1, e2, e3, e4, e5, e6, e7, bind, Option.bind]

theorem serve_fwdOpen (st : Srv.St) (rnd : Srv.Rnd) (c : Ref.Ctx) (timeout : Nat) (fo : Ref.FwdOpen) (fr : Bytes)
    (hc : CtxOk c = true) (henc : Ref.encMsg c (.fwdOpen timeout fo) = some fr) (hacc : FoAccepted st rnd fo) :
    Srv.serve st rnd fr =
      ({ st with fwds := st.fwds ++ [fwdEntry fo (foOtId fo rnd)] }, .reply (rrFrame c timeout (foOkBytes fo rnd))) := by
  simp only [Ref.encMsg] at henc
  split at henc
  · rename_i b hb
    unfold Ref.encRR at henc
    split at henc
    · rename_i hcond
      simp only [Option.some.injEq] at henc
      subst henc
      obtain ⟨rest, hhead, _⟩ := encFwdOpen_head hb
      have hun : Srv.parseUnconn b = some (.bare b) := by
        subst hhead
        cases fo.large <;> simp [Srv.parseUnconn, Generated.iopUnconnectedSend]
      have hne : b ≠ [] := by subst hhead; simp
      have hcmr := cmRequest_fwdOpen st rnd fo b hb hacc
      apply serve_rr st rnd c timeout b (.bare b) hc hcond.1 hne hcond.2 hun
      intro i0 i1 h0 h1
      subst h0 h1
      simp [Srv.ucmmSend, hcmr]
    · simp at henc
  · simp at henc

/-! ### connected requests (SendUnitData) -/

def routerPath : List Srv.PSeg := [.cls 2, .ins 1]

/-- the peer has a connection `id` whose path (after the port segments) designates the Message Router -/
def ConnRouter (st : Srv.St) (id : Nat) : Prop :=
  ∃ f, st.fwds.find? (fun g => g.connId == id) = some f ∧ f.cpath.dropWhile Srv.PSeg.isPort = routerPath

/-- a connected request leaves the port-stripped path in the stored entry of its connection -/
def popPorts (fwds : List Srv.Fwd) (id : Nat) : List Srv.Fwd :=
  fwds.map fun g => if g.connId = id then { g with cpath := routerPath } else g

theorem find_popPorts (fwds : List Srv.Fwd) (id k : Nat) :
    (popPorts fwds id).find? (fun g => g.connId == k) =
      (fwds.find? (fun g => g.connId == k)).map
        fun g => if g.connId = id then { g with cpath := routerPath } else g := by
  induction fwds with
  | nil => rfl
  | cons x rest ih =>
    simp only [popPorts, List.map_cons, List.find?_cons] at ih ⊢
    by_cases hx : x.connId = id
    · simp only [hx, ↓reduceIte]
      by_cases hk : (id == k) = true
      · simp [hk, hx]
      · simp only [hk]; exact ih
    · simp only [hx, ↓reduceIte]
      by_cases hk : (x.connId == k) = true
      · simp [hk, hx]
      · simp only [hk]; exact ih

theorem connRouter_popPorts (st : Srv.St) (id k : Nat) (h : ConnRouter st k) (d : Dev) :
    ConnRouter { dev := d, fwds := popPorts st.fwds id } k := by
  obtain ⟨f, hf, hp⟩ := h
  refine ⟨if f.connId = id then { f with cpath := routerPath } else f, ?_, ?_⟩
  · simp only [find_popPorts, hf, Option.map_some]
  · split
    · rfl
    · exact hp

theorem targetOf_router (d : Dev) (hro : hasRouter d = true) : Srv.targetOf true d routerPath = some router := by
  have : resolve d.symbols .no (Srv.toPath routerPath) = some (2, 1, none) := by
    simp [routerPath, Srv.toPath, Srv.PSeg.toSeg, resolve, resolveGo]
  unfold hasRouter at hro
  simp only [Srv.targetOf, this]
  have h2 : ((2, 1) : Nat × Nat) = router := by decide
  simp [h2, hro]

theorem cmRequest_connected (st : Srv.St) (rnd : Srv.Rnd) (id : Nat) (r : Req) (b : Bytes)
    (henc : Ref.encReq r = some b) (hw : WFReq r = true) (hro : hasRouter st.dev = true) (hconn : ConnRouter st id) :
    Srv.cmRequest true st rnd (some id) b =
      ({ dev := (exec st.dev r).1, fwds := popPorts st.fwds id }, (exec st.dev r).2) := by
  obtain ⟨f, hf, hp⟩ := hconn
  have hid : f.connId = id := by
    have := List.find?_some hf
    simpa using this
  have hparse := parseCip_encReq r b henc hw
  unfold Srv.cmRequest
  simp only [Option.bind_some, hf, hp, targetOf_router st.dev hro]
  have hne : router ≠ Srv.cm := by decide
  simp only [if_neg hne, hparse, execAt_router, hid, popPorts]

theorem parseItem_connId (id : Nat) (rest : Bytes) (hid : id < 4294967296) :
    Srv.parseItem (Bytes.le 2 0xA1 ++ (Bytes.le 2 4 ++ (Bytes.le 4 id ++ rest))) =
      some ({ ty := 0xA1, len := 4, body := .connId id }, rest) := by
  have e4 := fun rest => u_le 2 0xA1 rest (by omega)
  have e5 := fun rest => u_le 2 4 rest (by omega)
  have e6 := fun rest => take_append 4 (Bytes.le 4 id) rest (le_length 4 id)
  have e11 := leNat_le 4 id (by omega)
  simp only [Srv.parseItem, e4, e5, e6, e11]
  simp [Generated.iopCpfConnectionId]

theorem parseItem_connData (seq : Nat) (b : Bytes) (hseq : seq < 65536) (hb : b ≠ []) (hl : b.length < 65000) :
    Srv.parseItem (Bytes.le 2 0xB1 ++ (Bytes.le 2 (2 + b.length) ++ (Bytes.le 2 seq ++ b))) =
      some ({ ty := 0xB1, len := 2 + b.length, body := .connData seq b }, []) := by
  have e7 := fun rest => u_le 2 0xB1 rest (by omega)
  have hlen : (Bytes.le 2 seq ++ b).length = 2 + b.length := by simp [le_length]
  have e8 := fun rest => u_le 2 (2 + b.length) rest (by omega)
  have e9 : take (2 + b.length) (Bytes.le 2 seq ++ b) = some (Bytes.le 2 seq ++ b, []) := by
    simpa [hlen] using take_append (2 + b.length) (Bytes.le 2 seq ++ b) [] hlen
  have e10 := u_le 2 seq b (by omega)
  simp only [Srv.parseItem, e7, e8, e9, e10]
  simp [Generated.iopCpfConnectionId, Generated.iopCpfConnectionData, hb]

theorem parseSendData_unit (timeout id seq : Nat) (b : Bytes) (ht : timeout < 65536) (hid : id < 4294967296)
    (hseq : seq < 65536) (hb : b ≠ []) (hl : b.length < 65000) :
    Srv.parseSendData (Ref.encSendData 0 timeout (Ref.encItem 0xA1 (Bytes.le 4 id)) (Ref.encItem 0xB1 (Bytes.le 2 seq ++ b))) =
      some { iface := 0, timeout := timeout,
             items := [{ ty := 0xA1, len := 4, body := .connId id },
                       { ty := 0xB1, len := 2 + b.length, body := .connData seq b }] } := by
  have e1 := fun rest => u_le 4 0 rest (by omega)
  have e2 := fun rest => u_le 2 timeout rest (by omega)
  have e3 := fun rest => u_le 2 2 rest (by omega)
  have hlen : (Bytes.le 2 seq ++ b).length = 2 + b.length := by simp [le_length]
  simp only [Ref.encSendData, Ref.encItem, hlen, le_length, List.append_assoc, Srv.parseSendData, e1, e2, e3,
    Srv.parseItems, parseItem_connId id _ hid, parseItem_connData seq b hseq hb hl]
  simp

/-- what the server puts around a CIP reply to a connected request -/
def unitPayload (timeout id seq : Nat) (rep : Bytes) : Bytes :=
  Bytes.le 4 0 ++ Bytes.le 2 timeout ++ Bytes.le 2 2 ++ (Bytes.le 2 0xA1 ++ Bytes.le 2 4 ++ Bytes.le 4 id)
    ++ (Bytes.le 2 0xB1 ++ Bytes.le 2 (2 + rep.length) ++ (Bytes.le 2 seq ++ rep))

theorem produceSendData_unit (timeout id seq len1 : Nat) (rep : Bytes) :
    Srv.produceSendData ⟨0, timeout,
      [{ ty := 0xA1, len := 4, body := .connId id }, { ty := 0xB1, len := len1, body := .connData seq rep }]⟩
      = some (unitPayload timeout id seq rep) := by
  simp [Srv.produceSendData, Srv.produceItems, Srv.produceItem, unitPayload, le_length]

theorem decSendData_unit (timeout id seq : Nat) (rep : Bytes) (ht : timeout < 65536) (hid : id < 4294967296)
    (hseq : seq < 65536) (hl : rep.length < 65000) :
    Ref.decSendData (unitPayload timeout id seq rep) = (Ref.decCip rep).map (Ref.RMsg.cip (some (id, seq)) 0 timeout) := by
  have e1 := fun rest => u_le 4 0 rest (by omega)
  have e2 := fun rest => u_le 2 timeout rest (by omega)
  have e3 := fun rest => u_le 2 2 rest (by omega)
  have e4 := fun rest => u_le 2 0xA1 rest (by omega)
  have e5 := fun rest => u_le 2 4 rest (by omega)
  have e6 := fun rest => take_append 4 (Bytes.le 4 id) rest (le_length 4 id)
  have e7 := fun rest => u_le 2 0xB1 rest (by omega)
  have hlen : (Bytes.le 2 seq ++ rep).length = 2 + rep.length := by simp [le_length]
  have e8 := fun rest => u_le 2 (2 + rep.length) rest (by omega)
  have e9 : take (2 + rep.length) (Bytes.le 2 seq ++ rep) = some (Bytes.le 2 seq ++ rep, []) := by
    simpa [hlen] using take_append (2 + rep.length) (Bytes.le 2 seq ++ rep) [] hlen
  have e10 := u_le 2 seq rep (by omega)
  have e11 := leNat_le 4 id (by omega)
  simp only [unitPayload, List.append_assoc, Ref.decSendData, e1, e2, e3, Ref.decItem, e4, e5, e6, e7, e8, e9, e10, e11,
    bind, Option.bind]
  simp [le_length, e10, e11]

/-- the reply frame of the server for a connected request -/
def unitFrame (c : Ref.Ctx) (timeout id seq : Nat) (rep : Bytes) : Bytes :=
  Srv.produceEnip { command := 0x70, session := c.session, status := 0, context := c.context, options := 0,
                    input := unitPayload timeout id seq rep }

theorem unitPayload_length (timeout id seq : Nat) (rep : Bytes) : (unitPayload timeout id seq rep).length = 22 + rep.length := by
  simp [unitPayload, le_length]; omega

theorem decReplyMsg_unitFrame (c : Ref.Ctx) (timeout id seq : Nat) (rep : Bytes) (hc : CtxOk c = true)
    (ht : timeout < 65536) (hid : id < 4294967296) (hseq : seq < 65536) (hl : rep.length < 65000) :
    Ref.decReplyMsg (unitFrame c timeout id seq rep) =
      (Ref.decCip rep).map fun m => ((c.hdr 0x70), Ref.RMsg.cip (some (id, seq)) 0 timeout m) := by
  simp only [CtxOk, Bool.and_eq_true, decide_eq_true_eq] at hc
  have hok : EnipOk { command := 0x70, session := c.session, status := 0, context := c.context, options := 0,
                      input := unitPayload timeout id seq rep } := by
    refine ⟨by simp, hc.1.1, by simp, hc.1.2, by simp, ?_⟩
    simp only [unitPayload_length]; omega
  unfold unitFrame Ref.decReplyMsg
  rw [decFrame_produceEnip _ hok]
  simp only [ne_eq, not_true_eq_false, ↓reduceIte, Nat.reduceEqDiff, or_true]
  rw [decSendData_unit timeout id seq rep ht hid hseq hl]
  cases Ref.decCip rep <;> simp [Ref.Ctx.hdr]

/-- **a connected request is answered like the unconnected one**: executed by `exec`, reply wrapped in
SendUnitData with the connection id and the sequence count echoed -/
theorem serve_connected (st : Srv.St) (rnd : Srv.Rnd) (c : Ref.Ctx) (id seq timeout : Nat) (r : Req) (fr : Bytes)
    (hc : CtxOk c = true) (henc : Ref.encMsg c (.request (.connected id seq) timeout r) = some fr)
    (hw : WFReq r = true) (hro : hasRouter st.dev = true) (hconn : ConnRouter st id)
    (rep : Bytes) (hrep : (exec st.dev r).2 = some rep) :
    Srv.serve st rnd fr =
      ({ dev := (exec st.dev r).1, fwds := popPorts st.fwds id }, .reply (unitFrame c timeout id seq rep)) := by
  simp only [Ref.encMsg] at henc
  split at henc
  · rename_i b hb
    split at henc
    · rename_i hcond
      obtain ⟨ht, hbl, hid, hseq⟩ := hcond
      simp only [Option.some.injEq] at henc
      subst henc
      have hcmr := cmRequest_connected st rnd id r b hb hw hro hconn
      rw [hrep] at hcmr
      have hlen : (Ref.encSendData 0 timeout (Ref.encItem 0xA1 (Bytes.le 4 id)) (Ref.encItem 0xB1 (Bytes.le 2 seq ++ b))).length < 65536 := by
        simp [Ref.encSendData, Ref.encItem, le_length]; omega
      unfold Srv.serve Srv.serveWith
      rw [parseEnip_encFrame _ _ (hdr_ok c 0x70 hc (by decide)) hlen]
      simp only [Ref.Ctx.hdr, Generated.iopCmdRegister, Generated.iopCmdUnregister, Generated.iopCmdSendData]
      simp only [Nat.reduceEqDiff, ↓reduceIte, List.contains_cons, Nat.reduceBEq, Bool.true_or, Bool.or_true]
      rw [parseSendData_unit timeout id seq b ht hid hseq (encReq_ne hb) hbl]
      simp only [Srv.ucmmSend, Nat.lt_irrefl, Nat.zero_lt_succ, ↓reduceIte, hcmr, produceSendData_unit]
      rfl
    · simp at henc
  · simp at henc

/-! ### Forward Close -/

def fcOkBytes (fc : Ref.FwdClose) : Bytes :=
  [0x4E + 128, 0, 0, 0] ++ Bytes.le 2 fc.serial ++ Bytes.le 2 fc.vendor ++ Bytes.le 4 fc.oserial ++ [0, 0]

theorem encFwdClose_some {fc : Ref.FwdClose} {b : Bytes} (h : Ref.encFwdClose fc = some b) :
    ∃ cp, Ref.encConnPath fc.ports fc.target = some cp ∧
      b = [0x4E, 0x02, 0x20, 0x06, 0x24, 0x01, fc.prio, fc.ticks] ++ Bytes.le 2 fc.serial ++ Bytes.le 2 fc.vendor
          ++ Bytes.le 4 fc.oserial ++ [cp.length / 2, 0] ++ cp
      ∧ fc.serial < 65536 ∧ fc.vendor < 65536 ∧ fc.oserial < 4294967296 := by
  unfold Ref.encFwdClose at h
  split at h
  · simp at h
  · rename_i cp hcp
    split at h
    · rename_i hc
      simp only [Option.some.injEq] at h
      exact ⟨cp, hcp, h.symm, hc.2.2.1, hc.2.2.2.1, hc.2.2.2.2⟩
    · simp at h

theorem parseFwdClose_enc (fc : Ref.FwdClose) (b : Bytes) (h : Ref.encFwdClose fc = some b) :
    Srv.parseFwdClose b = some (fc.serial, fc.vendor, fc.oserial) := by
  obtain ⟨cp, hcp, rfl, c1, c2, c3⟩ := encFwdClose_some h
  have hpath := parseEpath_connPath true fc.ports fc.target cp [] hcp
  simp only [↓reduceIte, List.cons_append, List.nil_append, List.append_nil] at hpath
  have e3 := fun rest => u_le 2 fc.serial rest (by omega)
  have e4 := fun rest => u_le 2 fc.vendor rest (by omega)
  have e5 := fun rest => u_le 4 fc.oserial rest (by omega)
  simp only [List.cons_append, List.nil_append, List.append_assoc, Srv.parseFwdClose, cmPath_parse, u1_cons, e3, e4, e5,
    hpath]

theorem cmRequest_fwdClose (st : Srv.St) (rnd : Srv.Rnd) (fc : Ref.FwdClose) (b : Bytes)
    (h : Ref.encFwdClose fc = some b) :
    Srv.cmRequest true st rnd none b =
      ({ st with fwds := st.fwds.filter (fun f => f.serial != fc.serial) }, some (fcOkBytes fc)) := by
  have hp := parseFwdClose_enc fc b h
  obtain ⟨cp, hcp, rfl, _⟩ := encFwdClose_some h
  unfold Srv.cmRequest
  simp only [List.cons_append, List.nil_append, Option.bind_none, cmPath_parse, Option.map_some, Srv.targetOf, resolve_cm, Srv.cm,
    Generated.iopCmClass, true_or, ↓reduceIte, Srv.cmService, Generated.iopSvcFwdOpen, Generated.iopSvcFwdOpenLarge,
    Generated.iopSvcFwdClose, Nat.reduceEqDiff, or_self]
  simp only [List.cons_append, List.nil_append] at hp
  simp only [hp, Srv.forwardClose, Generated.iopSvcFwdClose, fcOkBytes]

theorem decCip_fcOk (fc : Ref.FwdClose) (b : Bytes) (h : Ref.encFwdClose fc = some b) :
    Ref.decCip (fcOkBytes fc) = some (.fwdClose
      { status := 0, serial := fc.serial, vendor := fc.vendor, oserial := fc.oserial }) := by
  obtain ⟨cp, hcp, _, c1, c2, c3⟩ := encFwdClose_some h
  have e3 := fun rest => u_le 2 fc.serial rest (by omega)
  have e4 := fun rest => u_le 2 fc.vendor rest (by omega)
  have e5 := fun rest => u_le 4 fc.oserial rest (by omega)
  simp [fcOkBytes, Ref.decCip, Ref.decFcReply, Ref.decStatus, words, e3, e4, e5, bind, Option.bind]

theorem serve_fwdClose (st : Srv.St) (rnd : Srv.Rnd) (c : Ref.Ctx) (timeout : Nat) (fc : Ref.FwdClose) (fr : Bytes)
    (hc : CtxOk c = true) (henc : Ref.encMsg c (.fwdClose timeout fc) = some fr) :
    Srv.serve st rnd fr =
      ({ st with fwds := st.fwds.filter (fun f => f.serial != fc.serial) }, .reply (rrFrame c timeout (fcOkBytes fc))) := by
  simp only [Ref.encMsg] at henc
  split at henc
  · rename_i b hb
    unfold Ref.encRR at henc
    split at henc
    · rename_i hcond
      simp only [Option.some.injEq] at henc
      subst henc
      obtain ⟨cp, hcp, hhead, _⟩ := encFwdClose_some hb
      have hun : Srv.parseUnconn b = some (.bare b) := by
        subst hhead
        simp [Srv.parseUnconn, Generated.iopUnconnectedSend]
      have hne : b ≠ [] := by subst hhead; simp
      have hcmr := cmRequest_fwdClose st rnd fc b hb
      apply serve_rr st rnd c timeout b (.bare b) hc hcond.1 hne hcond.2 hun
      intro i0 i1 h0 h1
      subst h0 h1
      simp [Srv.ucmmSend, hcmr]
    · simp at henc
  · simp at henc

/-- closing gives back the table a fresh Forward Open extended -/
theorem filter_after_open (fwds : List Srv.Fwd) (e : Srv.Fwd) (h : ∀ f ∈ fwds, f.serial ≠ e.serial) :
    (fwds ++ [e]).filter (fun f => f.serial != e.serial) = fwds := by
  simp only [List.filter_append, List.filter_cons, bne_self_eq_false, Bool.false_eq_true, ↓reduceIte, List.filter_nil,
    List.append_nil]
  apply List.filter_eq_self.mpr
  intro f hf
  simpa using h f hf

theorem filter_popPorts (fwds : List Srv.Fwd) (id serial : Nat) :
    (popPorts fwds id).filter (fun f => f.serial != serial) = popPorts (fwds.filter (fun f => f.serial != serial)) id := by
  induction fwds with
  | nil => rfl
  | cons x rest ih =>
    simp only [popPorts, List.map_cons, List.filter_cons] at ih ⊢
    by_cases hx : x.connId = id <;> by_cases hs : (x.serial != serial) = true <;> simp [hx, hs, ih]

end Cpppo.Interop
