import Cpppo.Model.Dotdict

/-!
Object identities for C16 (`Cpppo.Dotdict.Heap`): the repaired `__copy__` (`copyObj true`) builds a
structure all of whose mappings and lists are new cells (`copyObj_spec`), hence no assignment made
through the copy can be seen from the original (`copy_independent`).
-/
namespace Cpppo.Dotdict.Heap
open Cpppo.Dotdict

/-- the addresses a cell refers to -/
def children : Obj → List Nat
  | .int _ => []
  | .dict kvs => kvs.map (·.2)
  | .list xs => xs

/-- every address stored in a cell below `n` is below `n` -/
def ClosedBelow (n : Nat) (h : Heap) : Prop := ∀ b, b < n → ∀ a ∈ children (cell h b), a < n

def Closed (h : Heap) : Prop := ClosedBelow h.length h

theorem cell_append (h ext : Heap) (a : Nat) (ha : a < h.length) : cell (h ++ ext) a = cell h a := by
  simp [cell, List.getElem?_append_left ha]

theorem cell_append_new (h : Heap) (o : Obj) : cell (h ++ [o]) h.length = o := by
  simp [cell]

/-- the fuel is enough to walk the whole structure below `a` -/
def fits : Nat → Heap → Nat → Bool
  | 0, _, _ => false
  | f + 1, h, a => (children (cell h a)).all (fits f h)

/-- every mapping or list reachable from `a` lives at an address `≥ n` -/
def freshFrom (n : Nat) : Nat → Heap → Nat → Bool
  | 0, _, _ => true
  | f + 1, h, a =>
    match cell h a with
    | .int _ => true
    | o => decide (n ≤ a) && (children o).all (freshFrom n f h)

theorem read_congr (n : Nat) (h1 h2 : Heap) (hcell : ∀ b, b < n → cell h2 b = cell h1 b)
    (hcl : ClosedBelow n h1) : ∀ (g : Nat) (d : Nat), d < n → read g h2 d = read g h1 d
  | 0, _, _ => rfl
  | g + 1, d, hd => by
    have ih := read_congr n h1 h2 hcell hcl g
    simp only [read, hcell d hd]
    have hch := hcl d hd
    cases hc : cell h1 d with
    | int v => rfl
    | dict kvs =>
      simp only [Tree.node.injEq]
      apply List.map_congr_left
      intro p hp
      have : p.2 < n := hch p.2 (by simp only [hc, children, List.mem_map]; exact ⟨p, hp, rfl⟩)
      simp [ih p.2 this]
    | list xs =>
      simp only [Tree.list.injEq]
      apply List.map_congr_left
      intro a ha
      exact ih a (hch a (by simpa [hc, children] using ha))


theorem lookup_mem_children (kvs : List (Name × Nat)) (k : Name) (a : Nat) (h : kvs.lookup k = some a) :
    a ∈ kvs.map (·.2) := by
  induction kvs with
  | nil => simp at h
  | cons hd tl ih =>
    obtain ⟨k', a'⟩ := hd
    simp only [List.lookup] at h
    split at h
    · simp only [Option.some.injEq] at h; subst h; simp
    · simp only [List.map_cons, List.mem_cons]; exact Or.inr (ih h)

/-- a mutable cell reached by walking down from a fresh structure is fresh -/
theorem walk_fresh (n : Nat) (h : Heap) : ∀ (path : List Step) (f c a' : Nat),
    freshFrom n f h c = true → fits f h c = true → walk h c path = some a' →
    (∀ v, cell h a' ≠ .int v) → n ≤ a'
  | [], f, c, a', hfr, hfit, hw, hne => by
    simp only [walk, Option.some.injEq] at hw
    subst hw
    cases f with
    | zero => simp [fits] at hfit
    | succ f' =>
      cases hc : cell h c with
      | int v => exact absurd hc (hne v)
      | dict kvs => simp only [freshFrom, hc, Bool.and_eq_true, decide_eq_true_eq] at hfr; exact hfr.1
      | list xs => simp only [freshFrom, hc, Bool.and_eq_true, decide_eq_true_eq] at hfr; exact hfr.1
  | .key k :: r, f, c, a', hfr, hfit, hw, hne => by
    cases f with
    | zero => simp [fits] at hfit
    | succ f' =>
      simp only [walk] at hw
      cases hc : cell h c with
      | int v => simp [hc] at hw
      | list xs => simp [hc] at hw
      | dict kvs =>
        simp only [hc] at hw
        cases hl : kvs.lookup k with
        | none => simp [hl] at hw
        | some a'' =>
          simp only [hl] at hw
          have hm := lookup_mem_children kvs k a'' hl
          simp only [freshFrom, hc, children, Bool.and_eq_true, List.all_eq_true] at hfr
          simp only [fits, hc, children, List.all_eq_true] at hfit
          exact walk_fresh n h r f' a'' a' (hfr.2 a'' hm) (hfit a'' hm) hw hne
  | .idx i :: r, f, c, a', hfr, hfit, hw, hne => by
    cases f with
    | zero => simp [fits] at hfit
    | succ f' =>
      simp only [walk] at hw
      cases hc : cell h c with
      | int v => simp [hc] at hw
      | dict kvs => simp [hc] at hw
      | list xs =>
        simp only [hc] at hw
        cases hl : xs[i]? with
        | none => simp [hl] at hw
        | some a'' =>
          simp only [hl] at hw
          have hm : a'' ∈ xs := List.mem_of_getElem? hl
          simp only [freshFrom, hc, children, Bool.and_eq_true, List.all_eq_true] at hfr
          simp only [fits, hc, children, List.all_eq_true] at hfit
          exact walk_fresh n h r f' a'' a' (hfr.2 a'' hm) (hfit a'' hm) hw hne

/-- an assignment through a fresh structure does not touch any cell below `n` -/
theorem assign_below (n f : Nat) (h1 h2 : Heap) (c : Nat) (path : List Step) (k : Name) (v : Int)
    (hfr : freshFrom n f h1 c = true) (hfit : fits f h1 c = true) (hn : n ≤ h1.length)
    (ha : assign h1 c path k v = some h2) : ∀ b, b < n → cell h2 b = cell h1 b := by
  intro b hb
  unfold assign at ha
  cases hw : walk h1 c path with
  | none => simp [hw] at ha
  | some a =>
    simp only [hw] at ha
    cases hc : cell h1 a with
    | int _ => simp [hc] at ha
    | list _ => simp [hc] at ha
    | dict kvs =>
      simp only [hc, Option.some.injEq] at ha
      subst ha
      have hge : n ≤ a := walk_fresh n h1 path f c a hfr hfit hw (by intro v; rw [hc]; simp)
      have hne : a ≠ b := by omega
      simp only [cell, List.getElem?_set_ne hne]
      rw [List.getElem?_append_left (by omega)]


theorem all_congr_mem {α} (p q : α → Bool) : ∀ (l : List α), (∀ a ∈ l, p a = q a) → l.all p = l.all q
  | [], _ => rfl
  | x :: r, h => by
    simp only [List.all_cons, h x (by simp), all_congr_mem p q r (fun a ha => h a (by simp [ha]))]

theorem fits_congr (n : Nat) (h1 h2 : Heap) (hcell : ∀ b, b < n → cell h2 b = cell h1 b)
    (hcl : ClosedBelow n h1) : ∀ (g : Nat) (d : Nat), d < n → fits g h2 d = fits g h1 d
  | 0, _, _ => rfl
  | g + 1, d, hd => by
    have ih := fits_congr n h1 h2 hcell hcl g
    simp only [fits, hcell d hd]
    have hch := hcl d hd
    apply all_congr_mem
    intro a ha
    exact ih a (hch a ha)

theorem freshFrom_congr (m n : Nat) (h1 h2 : Heap) (hcell : ∀ b, b < n → cell h2 b = cell h1 b)
    (hcl : ClosedBelow n h1) : ∀ (g : Nat) (d : Nat), d < n → freshFrom m g h2 d = freshFrom m g h1 d
  | 0, _, _ => rfl
  | g + 1, d, hd => by
    have ih := freshFrom_congr m n h1 h2 hcell hcl g
    have hch := hcl d hd
    simp only [freshFrom, hcell d hd]
    cases hc : cell h1 d with
    | int _ => rfl
    | dict kvs =>
      simp only
      congr 1
      apply all_congr_mem
      intro a ha
      exact ih a (hch a (by rw [hc]; exact ha))
    | list xs =>
      simp only
      congr 1
      apply all_congr_mem
      intro a ha
      exact ih a (hch a (by rw [hc]; exact ha))

theorem freshFrom_mono (m m' : Nat) (hm : m ≤ m') (h : Heap) : ∀ (g d : Nat),
    freshFrom m' g h d = true → freshFrom m g h d = true
  | 0, _, _ => rfl
  | g + 1, d, hf => by
    simp only [freshFrom] at hf ⊢
    cases hc : cell h d with
    | int _ => rfl
    | dict kvs =>
      simp only [hc, Bool.and_eq_true, decide_eq_true_eq, List.all_eq_true] at hf ⊢
      exact ⟨by omega, fun a ha => freshFrom_mono m m' hm h g a (hf.2 a ha)⟩
    | list xs =>
      simp only [hc, Bool.and_eq_true, decide_eq_true_eq, List.all_eq_true] at hf ⊢
      exact ⟨by omega, fun a ha => freshFrom_mono m m' hm h g a (hf.2 a ha)⟩

/-- what a copy of `a` (made in heap `h`, result `c` in `h1`) must satisfy; `n` is the size of the heap
before the outermost `copy.copy` -/
structure CopySpec (n f : Nat) (h : Heap) (a : Nat) (h1 : Heap) (c : Nat) : Prop where
  ext : ∃ e, h1 = h ++ e
  closed : Closed h1
  lt : c < h1.length
  fit : fits f h1 c = true
  fresh : freshFrom n f h1 c = true
  same : read f h1 c = read f h a

theorem closed_append_stable {h : Heap} (_hc : Closed h) (e : Heap) :
    (∀ b, b < h.length → cell (h ++ e) b = cell h b) := fun b hb => cell_append h e b hb


theorem mapAcc_cons (g : Heap → Nat → Heap × Nat) (h : Heap) (x : Nat) (r : List Nat) :
    mapAcc g h (x :: r) = ((mapAcc g (g h x).1 r).1, (g h x).2 :: (mapAcc g (g h x).1 r).2) := by
  simp [mapAcc]

/-- element-wise relation between two lists of the same length -/
inductive Rel2 (R : Nat → Nat → Prop) : List Nat → List Nat → Prop
  | nil : Rel2 R [] []
  | cons {x y : Nat} {xs ys : List Nat} : R x y → Rel2 R xs ys → Rel2 R (x :: xs) (y :: ys)

theorem Rel2.imp {R S : Nat → Nat → Prop} (hrs : ∀ x y, R x y → S x y) {xs ys : List Nat}
    (h : Rel2 R xs ys) : Rel2 S xs ys := by
  induction h with
  | nil => exact Rel2.nil
  | cons hr _ ih => exact Rel2.cons (hrs _ _ hr) ih

theorem Rel2.imp_mem {R S : Nat → Nat → Prop} {xs ys : List Nat} (h : Rel2 R xs ys) :
    (∀ x y, x ∈ xs → R x y → S x y) → Rel2 S xs ys := by
  induction h with
  | nil => intro _; exact Rel2.nil
  | cons hr _ ih =>
    intro hrs
    exact Rel2.cons (hrs _ _ (by simp) hr) (ih (fun x y hx => hrs x y (by simp [hx])))

/-- what `mapAcc g h xs` yields when `g` meets `CopySpec` -/
def MapSpec (n f : Nat) (h : Heap) (xs : List Nat) (h' : Heap) (ys : List Nat) : Prop :=
  (∃ e, h' = h ++ e) ∧ Closed h' ∧
  Rel2 (fun x y => y < h'.length ∧ fits f h' y = true ∧ freshFrom n f h' y = true ∧
    read f h' y = read f h x) xs ys

theorem mapAcc_spec (n f : Nat) (g : Heap → Nat → Heap × Nat)
    (hg : ∀ h a, Closed h → n ≤ h.length → a < h.length → fits f h a = true →
      CopySpec n f h a (g h a).1 (g h a).2) :
    ∀ (xs : List Nat) (h : Heap), Closed h → n ≤ h.length →
      (∀ x ∈ xs, x < h.length ∧ fits f h x = true) →
      MapSpec n f h xs (mapAcc g h xs).1 (mapAcc g h xs).2
  | [], h, hc, _, _ => ⟨⟨[], by simp [mapAcc]⟩, by simpa [mapAcc] using hc, by simpa [mapAcc] using Rel2.nil⟩
  | x :: r, h, hc, hn, hx => by
    rw [mapAcc_cons]
    obtain ⟨hxl, hxf⟩ := hx x (by simp)
    have s1 := hg h x hc hn hxl hxf
    obtain ⟨e1, he1⟩ := s1.ext
    generalize hh1 : (g h x).1 = h1 at *
    generalize hy : (g h x).2 = y at *
    subst he1
    have hstab : ∀ b, b < h.length → cell (h ++ e1) b = cell h b := fun b hb => cell_append h e1 b hb
    have hr : ∀ x' ∈ r, x' < (h ++ e1).length ∧ fits f (h ++ e1) x' = true := by
      intro x' hx'
      obtain ⟨h1', h2'⟩ := hx x' (by simp [hx'])
      refine ⟨by simp; omega, ?_⟩
      rw [fits_congr h.length h (h ++ e1) hstab hc f x' h1']; exact h2'
    obtain ⟨⟨e2, he2⟩, hc2, hf2⟩ := mapAcc_spec n f g hg r (h ++ e1) s1.closed (by simp; omega) hr
    generalize (mapAcc g (h ++ e1) r).1 = h2 at *
    generalize (mapAcc g (h ++ e1) r).2 = ys at *
    subst he2
    have hstab2 : ∀ b, b < (h ++ e1).length → cell (h ++ e1 ++ e2) b = cell (h ++ e1) b :=
      fun b hb => cell_append (h ++ e1) e2 b hb
    refine ⟨⟨e1 ++ e2, by simp⟩, hc2, Rel2.cons ⟨?_, ?_, ?_, ?_⟩ ?_⟩
    · have := s1.lt; simp at this ⊢; omega
    · rw [fits_congr _ _ _ hstab2 s1.closed f y s1.lt]; exact s1.fit
    · rw [freshFrom_congr n _ _ _ hstab2 s1.closed f y s1.lt]; exact s1.fresh
    · rw [read_congr _ _ _ hstab2 s1.closed f y s1.lt]; exact s1.same
    · refine hf2.imp_mem ?_
      intro x' y' hx' ⟨a1, a2, a3, a4⟩
      refine ⟨a1, a2, a3, ?_⟩
      rw [a4]
      exact read_congr h.length h (h ++ e1) hstab hc f x' (hx x' (by simp [hx'])).1


theorem Rel2.length_eq {R : Nat → Nat → Prop} {xs ys : List Nat} (h : Rel2 R xs ys) : ys.length = xs.length := by
  induction h with
  | nil => rfl
  | cons _ _ ih => simp [ih]

theorem Rel2.right {R : Nat → Nat → Prop} {xs ys : List Nat} (h : Rel2 R xs ys) :
    ∀ y ∈ ys, ∃ x ∈ xs, R x y := by
  induction h with
  | nil => intro y hy; simp at hy
  | @cons x y xs ys hr _ ih =>
    intro y' hy'
    simp only [List.mem_cons] at hy'
    rcases hy' with rfl | hy'
    · exact ⟨x, by simp, hr⟩
    · obtain ⟨x', hx', hr'⟩ := ih y' hy'
      exact ⟨x', by simp [hx'], hr'⟩

theorem zip_read_eq (f : Nat) (h H : Heap) : ∀ (kvs : List (Name × Nat)) (ys : List Nat),
    Rel2 (fun x y => read f H y = read f h x) (kvs.map (·.2)) ys →
    ((kvs.map (·.1)).zip ys).map (fun p => (p.1, read f H p.2)) = kvs.map (fun p => (p.1, read f h p.2))
  | [], ys, h => by cases h; rfl
  | (k, x) :: r, ys, h => by
    cases h with
    | cons hr ht =>
      simp only [List.map_cons, List.zip_cons_cons, hr, zip_read_eq f _ _ r _ ht]

theorem list_read_eq (f : Nat) (h H : Heap) : ∀ (xs ys : List Nat),
    Rel2 (fun x y => read f H y = read f h x) xs ys → ys.map (read f H) = xs.map (read f h)
  | [], ys, h => by cases h; rfl
  | x :: r, ys, h => by
    cases h with
    | cons hr ht => simp only [List.map_cons, hr, list_read_eq f _ _ r _ ht]

/-- appending one cell whose children are old addresses keeps the heap closed -/
theorem closed_snoc {h : Heap} (hc : Closed h) (o : Obj) (ho : ∀ a ∈ children o, a < h.length) :
    Closed (h ++ [o]) := by
  intro b hb a ha
  simp only [List.length_append, List.length_cons, List.length_nil] at hb ⊢
  by_cases hbl : b < h.length
  · rw [cell_append h [o] b hbl] at ha
    have := hc b hbl a ha
    omega
  · have : b = h.length := by omega
    subst this
    rw [cell_append_new] at ha
    have := ho a ha
    omega

/-- **the repaired `__copy__`**: the copy reads as the original, and every mapping or list reachable
from it is a new object -/
theorem copyObj_spec (n : Nat) : ∀ (f : Nat) (h : Heap) (a : Nat), Closed h → n ≤ h.length →
    a < h.length → fits f h a = true → CopySpec n f h a (copyObj true f h a).1 (copyObj true f h a).2
  | 0, _, _, _, _, _, hf => by simp [fits] at hf
  | f + 1, h, a, hc, hn, ha, hf => by
    have hch := hc a ha
    simp only [fits, List.all_eq_true] at hf
    have pre : ∀ x ∈ children (cell h a), x < h.length ∧ fits f h x = true :=
      fun x hx => ⟨hch x hx, hf x hx⟩
    have ms := mapAcc_spec n f (copyObj true f) (fun h' a' c1 c2 c3 c4 => copyObj_spec n f h' a' c1 c2 c3 c4)
      (children (cell h a)) h hc hn pre
    unfold copyObj
    cases hcell : cell h a with
    | int v =>
      refine ⟨⟨[], by simp⟩, hc, ha, ?_, ?_, rfl⟩
      · simp only [fits, List.all_eq_true]; exact hf
      · simp [freshFrom, hcell]
    | dict kvs =>
      simp only [hcell, children] at ms ⊢
      obtain ⟨⟨e, he⟩, hc', hrel⟩ := ms
      generalize (mapAcc (copyObj true f) h (kvs.map (·.2))).1 = h' at *
      generalize (mapAcc (copyObj true f) h (kvs.map (·.2))).2 = ys at *
      subst he
      have hlen := hrel.length_eq
      have hkids : children (Obj.dict ((kvs.map (·.1)).zip ys)) = ys := by
        simp only [children]
        exact List.map_snd_zip (by simp [hlen])
      have hall := hrel.right
      have hstab : ∀ b, b < (h ++ e).length → cell (h ++ e ++ [Obj.dict ((kvs.map (·.1)).zip ys)]) b = cell (h ++ e) b :=
        fun b hb => cell_append _ _ b hb
      have hnew : cell (h ++ e ++ [Obj.dict ((kvs.map (·.1)).zip ys)]) (h ++ e).length
          = Obj.dict ((kvs.map (·.1)).zip ys) := cell_append_new _ _
      refine ⟨⟨e ++ [Obj.dict ((kvs.map (·.1)).zip ys)], by simp⟩, ?_, by simp, ?_, ?_, ?_⟩
      · apply closed_snoc hc'
        intro y hy
        rw [hkids] at hy
        obtain ⟨x, _, hx⟩ := hall y hy
        exact hx.1
      · simp only [fits, hnew, hkids, List.all_eq_true]
        intro y hy
        obtain ⟨x, _, hx⟩ := hall y hy
        rw [fits_congr _ _ _ hstab hc' f y hx.1]; exact hx.2.1
      · simp only [freshFrom, hnew, hkids, Bool.and_eq_true, decide_eq_true_eq, List.all_eq_true]
        refine ⟨by simp; omega, ?_⟩
        intro y hy
        obtain ⟨x, _, hx⟩ := hall y hy
        rw [freshFrom_congr n _ _ _ hstab hc' f y hx.1]; exact hx.2.2.1
      · simp only [read, hnew, hcell, Tree.node.injEq]
        apply zip_read_eq
        refine hrel.imp_mem ?_
        intro x y _ hx
        rw [read_congr _ _ _ hstab hc' f y hx.1]; exact hx.2.2.2
    | list xs =>
      simp only [hcell, children] at ms ⊢
      obtain ⟨⟨e, he⟩, hc', hrel⟩ := ms
      simp only [if_true]
      generalize (mapAcc (copyObj true f) h xs).1 = h' at *
      generalize (mapAcc (copyObj true f) h xs).2 = ys at *
      subst he
      have hall := hrel.right
      have hstab : ∀ b, b < (h ++ e).length → cell (h ++ e ++ [Obj.list ys]) b = cell (h ++ e) b :=
        fun b hb => cell_append _ _ b hb
      have hnew : cell (h ++ e ++ [Obj.list ys]) (h ++ e).length = Obj.list ys := cell_append_new _ _
      refine ⟨⟨e ++ [Obj.list ys], by simp⟩, ?_, by simp, ?_, ?_, ?_⟩
      · apply closed_snoc hc'
        intro y hy
        obtain ⟨x, _, hx⟩ := hall y hy
        exact hx.1
      · simp only [fits, hnew, children, List.all_eq_true]
        intro y hy
        obtain ⟨x, _, hx⟩ := hall y hy
        rw [fits_congr _ _ _ hstab hc' f y hx.1]; exact hx.2.1
      · simp only [freshFrom, hnew, children, Bool.and_eq_true, decide_eq_true_eq, List.all_eq_true]
        refine ⟨by simp; omega, ?_⟩
        intro y hy
        obtain ⟨x, _, hx⟩ := hall y hy
        rw [freshFrom_congr n _ _ _ hstab hc' f y hx.1]; exact hx.2.2.1
      · simp only [read, hnew, hcell, Tree.list.injEq]
        apply list_read_eq
        refine hrel.imp_mem ?_
        intro x y _ hx
        rw [read_congr _ _ _ hstab hc' f y hx.1]; exact hx.2.2.2

/-- **Copies are structurally independent (repaired `__copy__`, with object identities)**: for every
closed heap and every dotdict `d` in it, `c = copy.copy( d )` reads exactly as `d`, and whatever is
assigned through `c` afterwards — at any path, through levels and list elements — `d` reads as before. -/
theorem copy_independent (f : Nat) (h : Heap) (d : Nat) (hc : Closed h) (hd : d < h.length)
    (hf : fits f h d = true) :
    read f (copyObj true f h d).1 (copyObj true f h d).2 = read f h d ∧
    ∀ (path : List Step) (k : Name) (v : Int) (h2 : Heap),
      assign (copyObj true f h d).1 (copyObj true f h d).2 path k v = some h2 →
      ∀ g, read g h2 d = read g h d := by
  have spec := copyObj_spec h.length f h d hc (Nat.le_refl _) hd hf
  refine ⟨spec.same, ?_⟩
  intro path k v h2 ha g
  obtain ⟨e, he⟩ := spec.ext
  have hbelow := assign_below h.length f _ h2 _ path k v spec.fresh spec.fit (by rw [he]; simp) ha
  apply read_congr h.length h h2 ?_ hc g d hd
  intro b hb
  rw [hbelow b hb, he, cell_append h e b hb]


/-- decidable form of `Closed` -/
def closedB (h : Heap) : Bool :=
  (List.range h.length).all fun b => (children (cell h b)).all fun a => decide (a < h.length)

theorem closed_of_closedB (h : Heap) (hb : closedB h = true) : Closed h := by
  intro b hlt a ha
  simp only [closedB, List.all_eq_true, List.mem_range, decide_eq_true_eq] at hb
  exact hb b hlt a ha

end Cpppo.Dotdict.Heap
