import Cpppo.Model.Session
/-! Helper lemmas for C06 (`Cpppo.Session`): the random source, the service byte of every reply the
tag-serving core produces, case analysis of `process`, the `serve` loop as a fold. -/
namespace Cpppo.Session
open Cpppo Cpppo.Logix

/-! ### the random source -/

theorem pickNonzero_ne_zero {l : List Nat} {h : Nat} {rest : List Nat}
    (hp : pickNonzero l = some (h, rest)) : h ≠ 0 := by
  induction l with
  | nil => simp [pickNonzero] at hp
  | cons x xs ih =>
    unfold pickNonzero at hp
    split at hp
    · exact ih hp
    · simp only [Option.some.injEq, Prod.mk.injEq] at hp
      omega

theorem pickNonzero_mem {l : List Nat} {h : Nat} {rest : List Nat}
    (hp : pickNonzero l = some (h, rest)) : h ∈ l := by
  induction l with
  | nil => simp [pickNonzero] at hp
  | cons x xs ih =>
    unfold pickNonzero at hp
    split at hp
    · exact List.mem_cons_of_mem _ (ih hp)
    · simp only [Option.some.injEq, Prod.mk.injEq] at hp
      simp [hp.1]

theorem pickNonzero_some_of_mem {l : List Nat} {x : Nat} (hx : x ∈ l) (h0 : x ≠ 0) :
    ∃ h rest, pickNonzero l = some (h, rest) := by
  induction l with
  | nil => cases hx
  | cons y ys ih =>
    unfold pickNonzero
    split
    · rcases List.mem_cons.mp hx with rfl | hm
      · contradiction
      · exact ih hm
    · exact ⟨_, _, rfl⟩

/-! ### the first byte of a reply of the tag-serving core is the request's service code with bit 7 set -/

theorem encodeReply_head {r : Logix.Reply} {bs : Bytes} (h : encodeReply r = some bs) : bs.head? = some r.svc := by
  unfold encodeReply at h
  split at h
  · split at h
    · simp only [Option.map_eq_some_iff] at h
      obtain ⟨_, _, rfl⟩ := h
      simp
    · simp only [Option.some.injEq] at h
      subst h
      simp
  · simp only [Option.some.injEq] at h
    subst h
    simp

theorem execTag_svc (d : Dev) (self : Nat × Nat) (svc : Nat) (isRead isFrag : Bool) (p : Path)
    (reqTy n off : Nat) (data : Bytes) :
    (execTag d self svc isRead isFrag p reqTy n off data).2.svc = svc := by
  unfold execTag
  split
  · rfl
  · split
    · rfl
    · split <;> rfl

/-- the reply service code of the attribute services -/
def attrSvc : Simple → Nat
  | .getAttrSingle _ => svcGaSng
  | .setAttrSingle _ _ => svcSaSng
  | .getAttrAll _ => svcGaAll
  | _ => 0

theorem execAttr_svc (d : Dev) (self : Nat × Nat) (s : Simple) : (execAttr d self s).2.svc = attrSvc s := by
  unfold execAttr
  cases s <;> simp only [attrSvc] <;> (repeat' split) <;> first | rfl | simp_all [errReply]

theorem execSimpleAt_svc (d : Dev) (at_ : Nat × Nat) (s : Simple) :
    (execSimpleAt d at_ s).2.svc = simpleService s + 128 := by
  cases s <;> simp only [execSimpleAt, execTag_svc, execAttr_svc, attrSvc, simpleService, svcRdTag, svcRdFrg, svcWrTag,
    svcWrFrg, svcGaSng, svcSaSng, svcGaAll]

theorem execMultiple_svc {d : Dev} {p : Path} {reqs : List Simple} {r : Logix.Reply}
    (h : (execMultiple d p reqs).2 = some r) : r.svc = Generated.svcMultiple + 128 := by
  unfold execMultiple at h
  split at h
  · simp only [Option.some.injEq] at h
    subst h
    rfl
  · dsimp only at h
    split at h
    · cases h
    · simp only [Option.some.injEq] at h
      subst h
      rfl

theorem service_or (r : Req) : reqService r + 128 = reqService r ||| 128 := by
  cases r with
  | simple s =>
    cases s <;> simp [reqService, simpleService, Generated.svcReadTag, Generated.svcReadFrag, Generated.svcWriteTag,
      Generated.svcWriteFrag, Generated.svcGetAttrSingle, Generated.svcSetAttrSingle, Generated.svcGetAttrAll]
  | multiple p rs => simp [reqService, Generated.svcMultiple]

theorem exec_head {d d' : Dev} {r : Req} {bs : Bytes} (h : exec d r = (d', some bs)) :
    bs.head? = some (reqService r ||| 128) := by
  rw [← service_or]
  cases r with
  | simple s =>
    simp only [exec] at h
    have h2 : encodeReply (execSimple d s).2 = some bs := by
      have := congrArg Prod.snd h
      simpa using this
    rw [encodeReply_head h2]
    simp only [execSimple, execSimpleAt_svc, reqService]
  | multiple p rs =>
    simp only [exec] at h
    have h2 : (execMultiple d p rs).2.bind encodeReply = some bs := by
      have := congrArg Prod.snd h
      simpa using this
    obtain ⟨rep, hr, he⟩ := Option.bind_eq_some_iff.mp h2
    rw [encodeReply_head he, execMultiple_svc hr]
    rfl

theorem execReq_head {refusing : List (Nat × Nat × Nat)} {d d' : Dev} {r : Req} {bs : Bytes}
    (h : execReq refusing d r = (d', some bs)) : bs.head? = some (reqService r ||| 128) := by
  unfold execReq at h
  split at h
  · split at h
    · split at h
      · rename_i d1 bs1 hx
        split at h
        · simp only [Prod.mk.injEq] at h
          rw [encodeReply_head h.2, ← service_or]
          rfl
        · simp only [Prod.mk.injEq, Option.some.injEq] at h
          rw [← h.2]
          exact exec_head hx
      · rename_i x hx
        exact exec_head h
    · exact exec_head h
  · exact exec_head h

/-- a refusing Attribute is never changed, and the reply to a write that reaches it is still produced -/
theorem execReq_cases (refusing : List (Nat × Nat × Nat)) (d : Dev) (r : Req) :
    execReq refusing d r = exec d r ∨
      (execReq refusing d r).1 = d ∧ ∃ bs, (execReq refusing d r).2 = some bs := by
  unfold execReq
  split
  · split
    · split
      · split
        · right
          exact ⟨rfl, by simp [encodeReply, errReply]⟩
        · rename_i hx _
          left; exact hx.symm
      · left; rfl
    · left; rfl
  · left; rfl

/-- the Connection Manager always answers its own services, with the request's service code with bit 7 set -/
theorem execCm_head (s : Srv) (r : CmReq) (raw : Bytes) :
    (execCm s r).2.head? = some (Cip.service (.cm r raw) ||| 128) := by
  cases r with
  | fwdOpen large prio ticks otId toId serial vendor oserial mult otRpi otNcp toRpi toNcp tct cpath =>
    have hs : fwdOpenRpy large = Cip.service (.cm (.fwdOpen large prio ticks otId toId serial vendor oserial mult otRpi
        otNcp toRpi toNcp tct cpath) raw) ||| 128 := by
      cases large <;> simp [fwdOpenRpy, Cip.service, Generated.svcFwdOpen, Generated.svcFwdOpenLarge]
    rw [← hs]
    simp only [execCm]
    repeat' split
    all_goals simp
  | fwdClose prio ticks serial vendor oserial cpath =>
    simp [execCm, Cip.service, Generated.svcFwdClose]

/-! ### framing -/

theorem sendFraming_eq (iface timeout : Nat) (bs : Bytes) :
    sendFraming iface timeout bs =
      Bytes.le 4 iface ++ Bytes.le 2 timeout ++ [2, 0] ++ ([0, 0] ++ [0, 0]) ++
        (Bytes.le 2 Generated.cpfUnconnected ++ Bytes.le 2 bs.length ++ bs) := by
  simp [sendFraming, cpfEncode, Bytes.le]

theorem sendFraming_ne_nil (iface timeout : Nat) (bs : Bytes) : sendFraming iface timeout bs ≠ [] := by
  simp [sendFraming, Bytes.le]

/-! ### `process`, case by case -/

theorem refuse_eq (f : Frame) : refuse f = .reply (echo f (failStatus f.hdr.status) []) := rfl

theorem failStatus_ne_zero (st : Nat) : failStatus st ≠ 0 := by
  unfold failStatus
  split
  · decide
  · assumption

theorem sizeFailStatus_ne_zero : sizeFailStatus ≠ 0 := by decide

/-- frames that are, by design, not answered: an Unregister Session within the size limit -/
def Frame.silent (cfg : Cfg) (f : Frame) : Bool := f.isUnregister && fits cfg f

theorem processBody_unparsable (fixed : Bool) (cfg : Cfg) (s : Srv) (f : Frame) (h : f.parsable = false) :
    processBody fixed cfg s f = (s, .abort) := by
  unfold processBody
  cases hb : f.body <;> simp_all [Frame.parsable]

/-- a frame the command parser rejects is not answered -/
theorem process_unparsable (fixed : Bool) (cfg : Cfg) (s : Srv) (f : Frame) (h : f.parsable = false) :
    processWith fixed cfg s f = (s, .abort) := by
  simp [processWith, h, processBody_unparsable fixed cfg s f h]

theorem processBody_unregister (fixed : Bool) (cfg : Cfg) (s : Srv) (f : Frame) (h : f.isUnregister = true) :
    processBody fixed cfg s f = ({ s with session := none }, .close) := by
  unfold processBody
  cases hb : f.body <;> simp_all [Frame.isUnregister]

theorem process_unregister (fixed : Bool) (cfg : Cfg) (s : Srv) (f : Frame) (h : f.silent cfg = true) :
    processWith fixed cfg s f = ({ s with session := none }, .close) := by
  simp only [Frame.silent, Bool.and_eq_true] at h
  simp [processWith, h.2, processBody_unregister fixed cfg s f h.1]

theorem processBody_replies (fixed : Bool) (cfg : Cfg) (s : Srv) (f : Frame) (hp : f.parsable = true)
    (hu : f.isUnregister = false) : ∃ r, (processBody fixed cfg s f).2 = .reply r := by
  unfold processBody
  cases hb : f.body <;> simp_all [Frame.parsable, Frame.isUnregister, refuse]
  · split <;> exact ⟨_, rfl⟩
  · repeat' split
    all_goals exact ⟨_, rfl⟩

/-- every other frame the parser accepts is answered -/
theorem process_replies (fixed : Bool) (cfg : Cfg) (s : Srv) (f : Frame) (hp : f.parsable = true)
    (hu : f.silent cfg = false) : ∃ r, (processWith fixed cfg s f).2 = .reply r := by
  unfold processWith
  cases hf : fits cfg f with
  | false => exact ⟨echo f sizeFailStatus [], by simp [hp]⟩
  | true =>
    have : f.isUnregister = false := by simpa [Frame.silent, hf] using hu
    simpa [hp] using processBody_replies fixed cfg s f hp this

theorem processWith_fits (fixed : Bool) (cfg : Cfg) (s : Srv) (f : Frame) (hf : fits cfg f = true) :
    processWith fixed cfg s f = processBody fixed cfg s f := by
  simp [processWith, hf]

/-- a payload over the size limit: one header-only frame with a non-zero status -/
theorem process_oversize (fixed : Bool) (cfg : Cfg) (s : Srv) (f : Frame) (hp : f.parsable = true)
    (hf : fits cfg f = false) : processWith fixed cfg s f = (s, .reply (echo f sizeFailStatus [])) := by
  simp [processWith, hp, hf]

/-- what a reply shares with its request -/
structure Echoes (f : Frame) (r : ReplyFrame) : Prop where
  command : r.command = f.command
  context : r.context = f.hdr.context
  options : r.options = f.hdr.options
  session : f.isRegister = false → r.session = f.hdr.session
  handle  : f.isRegister = true → r.status = 0 → r.session ≠ 0

theorem echo_echoes (f : Frame) (st : Nat) (pl : Bytes) (h : f.isRegister = false) : Echoes f (echo f st pl) :=
  ⟨rfl, rfl, rfl, fun _ => rfl, fun h' => by simp [h] at h'⟩

theorem processBody_echoes (fixed : Bool) (cfg : Cfg) (s : Srv) (f : Frame) (r : ReplyFrame)
    (h : (processBody fixed cfg s f).2 = .reply r) : Echoes f r := by
  unfold processBody at h
  cases hb : f.body with
  | register proto opts extra =>
    simp only [hb] at h
    split at h
    · simp only [refuse, Outcome.reply.injEq] at h
      subst h
      exact ⟨rfl, rfl, rfl, fun _ => rfl, fun _ h0 => absurd h0 (failStatus_ne_zero _)⟩
    · rename_i hd rest hpk
      simp only [Outcome.reply.injEq] at h
      subst h
      exact ⟨rfl, rfl, rfl, fun h' => by simp [Frame.isRegister, hb] at h', fun _ _ => pickNonzero_ne_zero hpk⟩
  | registerShort bs => simp [hb] at h
  | unregister pl => simp [hb] at h
  | unknownCmd c pl => simp [hb] at h
  | listServices | listIdentity | listInterfaces | legacy =>
    simp only [hb, Outcome.reply.injEq] at h
    subst h
    exact echo_echoes _ _ _ (by simp [Frame.isRegister, hb])
  | sendItems u i t items =>
    simp only [hb, refuse, Outcome.reply.injEq] at h
    subst h
    exact echo_echoes _ _ _ (by simp [Frame.isRegister, hb])
  | send u i t w c =>
    have hr : f.isRegister = false := by simp [Frame.isRegister, hb]
    simp only [hb] at h
    repeat' split at h
    all_goals
      simp only [refuse, Outcome.reply.injEq] at h
      subst h
      exact echo_echoes _ _ _ hr

theorem process_echoes (fixed : Bool) (cfg : Cfg) (s : Srv) (f : Frame) (r : ReplyFrame)
    (h : (processWith fixed cfg s f).2 = .reply r) : Echoes f r := by
  unfold processWith at h
  split at h
  · simp only [Outcome.reply.injEq] at h
    subst h
    exact ⟨rfl, rfl, rfl, fun _ => rfl, fun _ h0 => absurd h0 sizeFailStatus_ne_zero⟩
  · exact processBody_echoes fixed cfg s f r h

/-! ### the serve loop -/

theorem serveWith_nil (fixed : Bool) (cfg : Cfg) (s : Srv) : serveWith fixed cfg s [] = ⟨s, [], 0, .open⟩ := rfl

/-- serving `fs ++ gs` = serving `fs`, and then, if the session is still open, `gs` from the state reached -/
theorem serveWith_append (fixed : Bool) (cfg : Cfg) (s : Srv) (fs gs : List Frame) :
    serveWith fixed cfg s (fs ++ gs) =
      let r1 := serveWith fixed cfg s fs
      match r1.end with
      | .open =>
        let r2 := serveWith fixed cfg r1.srv gs
        ⟨r2.srv, r1.replies ++ r2.replies, r1.consumed + r2.consumed, r2.end⟩
      | _ => r1 := by
  induction fs generalizing s with
  | nil =>
    simp only [List.nil_append, serveWith_nil, List.nil_append, Nat.zero_add]
  | cons f fs ih =>
    simp only [List.cons_append, serveWith]
    split
    · rename_i s' r hpr
      split
      · rw [ih s']
        dsimp only
        cases hE : (serveWith fixed cfg s' fs).end <;> simp [hE] <;> omega
      · rfl
    · rfl
    · rfl

/-- same length, related position by position (order preserved) -/
inductive Matched {α β : Type} (R : α → β → Prop) : List α → List β → Prop
  | nil : Matched R [] []
  | cons {a : α} {b : β} {as : List α} {bs : List β} : R a b → Matched R as bs → Matched R (a :: as) (b :: bs)

theorem Matched.length_eq {α β : Type} {R : α → β → Prop} {as : List α} {bs : List β} (h : Matched R as bs) :
    as.length = bs.length := by
  induction h with
  | nil => rfl
  | cons _ _ ih => simp [ih]

theorem Matched.get {α β : Type} {R : α → β → Prop} {as : List α} {bs : List β} (h : Matched R as bs)
    (k : Nat) (a : α) (b : β) (ha : as[k]? = some a) (hb : bs[k]? = some b) : R a b := by
  induction h generalizing k with
  | nil => simp at ha
  | cons hab _ ih =>
    cases k with
    | zero =>
      simp only [List.getElem?_cons_zero, Option.some.injEq] at ha hb
      subst ha hb
      exact hab
    | succ k =>
      simp only [List.getElem?_cons_succ] at ha hb
      exact ih k ha hb

/-- the frames that are to be answered: all but Unregister Session (within the size limit) -/
def expected (cfg : Cfg) (fs : List Frame) : List Frame := fs.filter fun f => !f.silent cfg

/-- The loop, for frames the command parser accepts: it consumes a prefix of the input; the replies are, in
order, one for each frame of that prefix other than Unregister, each echoing its request; it never aborts; it
leaves input unconsumed only after it has closed the session. -/
theorem serveWith_answers (fixed : Bool) (cfg : Cfg) (s : Srv) (fs : List Frame)
    (hp : ∀ f ∈ fs, f.parsable = true) :
    (serveWith fixed cfg s fs).consumed ≤ fs.length ∧
    Matched Echoes (expected cfg (fs.take (serveWith fixed cfg s fs).consumed)) (serveWith fixed cfg s fs).replies ∧
    ((serveWith fixed cfg s fs).end = .open → (serveWith fixed cfg s fs).consumed = fs.length) ∧
    (serveWith fixed cfg s fs).end ≠ .aborted := by
  induction fs generalizing s with
  | nil => exact ⟨Nat.le_refl _, Matched.nil, fun _ => rfl, by simp [serveWith]⟩
  | cons f fs ih =>
    have hpf : f.parsable = true := hp f (by simp)
    have hpfs : ∀ g ∈ fs, g.parsable = true := fun g hg => hp g (by simp [hg])
    cases hu : f.silent cfg with
    | true =>
      simp only [serveWith, process_unregister fixed cfg s f hu]
      refine ⟨by simp, ?_, by simp, by simp⟩
      simp [expected, hu, Matched.nil]
    | false =>
      obtain ⟨r, hr⟩ := process_replies fixed cfg s f hpf hu
      have hpe : processWith fixed cfg s f = ((processWith fixed cfg s f).1, .reply r) := by
        rw [← hr]
      have hech : Echoes f r := process_echoes fixed cfg s f r hr
      rw [serveWith, hpe]
      dsimp only
      split
      · obtain ⟨h1, h2, h3, h4⟩ := ih (processWith fixed cfg s f).1 hpfs
        refine ⟨by simp; omega, ?_, fun ho => by simp [h3 ho], h4⟩
        simp only [List.take_succ_cons, expected, List.filter_cons, hu, Bool.not_false, ite_true]
        exact Matched.cons hech h2
      · refine ⟨by simp, ?_, by simp, by simp⟩
        simp only [List.take_succ_cons, List.take_zero, expected, List.filter_cons, hu, Bool.not_false, ite_true,
          List.filter_nil]
        exact Matched.cons hech Matched.nil

/-- every reply but the last carries status 0; a still-open session has sent only status 0 -/
theorem serveWith_statuses (fixed : Bool) (cfg : Cfg) (s : Srv) (fs : List Frame) :
    (∀ r ∈ (serveWith fixed cfg s fs).replies.dropLast, r.status = 0) ∧
    ((serveWith fixed cfg s fs).end = .open → ∀ r ∈ (serveWith fixed cfg s fs).replies, r.status = 0) := by
  induction fs generalizing s with
  | nil => simp [serveWith]
  | cons f fs ih =>
    rw [serveWith]
    split
    · rename_i s' r _
      split
      · rename_i h0
        obtain ⟨h1, h2⟩ := ih s'
        dsimp only
        constructor
        · intro x hx
          cases hrs : (serveWith fixed cfg s' fs).replies with
          | nil => simp [hrs] at hx
          | cons y ys =>
            rw [hrs, List.dropLast_cons_cons] at hx
            rcases List.mem_cons.mp hx with rfl | hm
            · exact h0
            · exact h1 x (by rw [hrs]; exact hm)
        · intro ho x hx
          rcases List.mem_cons.mp hx with rfl | hm
          · exact h0
          · exact h2 ho x hm
      · simp
    · simp
    · simp

/-- an Unregister Session is the last frame consumed -/
theorem serveWith_unregister_last (fixed : Bool) (cfg : Cfg) (s : Srv) (fs : List Frame) (k : Nat) (f : Frame)
    (hk : k + 1 < (serveWith fixed cfg s fs).consumed) (hf : fs[k]? = some f) : f.silent cfg = false := by
  induction fs generalizing s k with
  | nil => simp [serveWith] at hk
  | cons g gs ih =>
    rw [serveWith] at hk
    split at hk
    · rename_i s' r hpr
      split at hk
      · dsimp only at hk
        cases k with
        | zero =>
          simp only [List.getElem?_cons_zero, Option.some.injEq] at hf
          subst hf
          cases hu : g.silent cfg with
          | false => rfl
          | true => rw [process_unregister fixed cfg s g hu] at hpr; cases hpr
        | succ k =>
          simp only [List.getElem?_cons_succ] at hf
          exact ih s' k (by omega) hf
      · simp at hk
    · simp at hk
    · simp at hk

theorem serveBatches_flatten (cfg : Cfg) (s : Srv) (bs : List (List Frame)) :
    serveBatches cfg s bs = serve cfg s bs.flatten := by
  induction bs generalizing s with
  | nil => rfl
  | cons b bs ih =>
    rw [serveBatches, List.flatten_cons]
    unfold serve
    rw [serveWith_append]
    unfold serve at ih
    dsimp only
    cases hE : (serveWith true cfg s b).end
    · dsimp only
      rw [ih]
    · rfl
    · rfl

end Cpppo.Session
