import Cpppo.Model.Dotdict

/-!
Helper lemmas for C16 (`Cpppo.Dotdict`): association lists, list subscripts, one level of the tree.
-/
namespace Cpppo.Dotdict

/-! ### association lists (a Python `dict` level) -/

theorem lookupK_insertK_same (k : Name) (v : Tree) (kvs : Kvs) :
    lookupK k (insertK k v kvs) = some v := by
  induction kvs with
  | nil => simp [insertK, lookupK]
  | cons hd tl ih =>
    obtain ⟨k', v'⟩ := hd
    by_cases h : k = k'
    · simp [insertK, lookupK, h]
    · simp [insertK, lookupK, h, ih]

theorem lookupK_insertK_other (k k' : Name) (v : Tree) (kvs : Kvs) (h : k' ≠ k) :
    lookupK k' (insertK k v kvs) = lookupK k' kvs := by
  induction kvs with
  | nil => simp [insertK, lookupK, h]
  | cons hd tl ih =>
    obtain ⟨k2, v2⟩ := hd
    by_cases h2 : k = k2
    · subst h2; simp [insertK, lookupK, h]
    · by_cases h3 : k' = k2
      · simp [insertK, lookupK, h2, h3]
      · simp [insertK, lookupK, h2, h3, ih]

theorem insertK_same_val (k : Name) (v : Tree) (kvs : Kvs) (h : lookupK k kvs = some v) :
    insertK k v kvs = kvs := by
  induction kvs with
  | nil => simp [lookupK] at h
  | cons hd tl ih =>
    obtain ⟨k', v'⟩ := hd
    by_cases hk : k = k'
    · subst hk; simp [lookupK] at h; simp [insertK, h]
    · simp [lookupK, hk] at h; simp [insertK, hk, ih h]

theorem lookupK_eraseK_other (k k' : Name) (kvs : Kvs) (h : k' ≠ k) :
    lookupK k' (eraseK k kvs) = lookupK k' kvs := by
  induction kvs with
  | nil => simp [eraseK]
  | cons hd tl ih =>
    obtain ⟨k2, v2⟩ := hd
    by_cases h2 : k = k2
    · subst h2; simp [eraseK, lookupK, h]
    · by_cases h3 : k' = k2
      · simp [eraseK, lookupK, h2, h3]
      · simp [eraseK, lookupK, h2, h3, ih]

/-- the raw keys of a level -/
def keysK (kvs : Kvs) : List Name := kvs.map (·.1)

theorem lookupK_none_iff (k : Name) (kvs : Kvs) : lookupK k kvs = none ↔ k ∉ keysK kvs := by
  induction kvs with
  | nil => simp [lookupK, keysK]
  | cons hd tl ih =>
    obtain ⟨k', v'⟩ := hd
    by_cases h : k = k'
    · simp [lookupK, keysK, h]
    · simp only [lookupK, h, if_false, ih, keysK, List.map_cons, List.mem_cons, false_or]

theorem keysK_insertK (k : Name) (v : Tree) (kvs : Kvs) :
    keysK (insertK k v kvs) = if k ∈ keysK kvs then keysK kvs else keysK kvs ++ [k] := by
  induction kvs with
  | nil => simp [insertK, keysK]
  | cons hd tl ih =>
    obtain ⟨k', v'⟩ := hd
    by_cases h : k = k'
    · subst h; simp [insertK, keysK]
    · have h' : ¬ k' = k := fun e => h e.symm
      simp only [keysK] at ih
      simp only [insertK, h, if_false, keysK, List.map_cons, List.mem_cons, false_or, ih]
      split <;> rename_i hm <;> simp [hm]

theorem mem_keysK_insertK (k k' : Name) (v : Tree) (kvs : Kvs) :
    k' ∈ keysK (insertK k v kvs) ↔ k' = k ∨ k' ∈ keysK kvs := by
  rw [keysK_insertK]
  split
  · constructor
    · intro h; exact Or.inr h
    · rintro (rfl | h)
      · assumption
      · exact h
  · simp [or_comm]

theorem lookupK_eraseK_same (k : Name) (kvs : Kvs) (h : (keysK kvs).Nodup) :
    lookupK k (eraseK k kvs) = none := by
  induction kvs with
  | nil => simp [eraseK, lookupK]
  | cons hd tl ih =>
    obtain ⟨k', v'⟩ := hd
    simp only [keysK, List.map_cons, List.nodup_cons] at h
    by_cases hk : k = k'
    · subst hk
      simp only [eraseK, if_true]
      exact (lookupK_none_iff _ _).mpr h.1
    · simp only [eraseK, hk, if_false, lookupK]
      exact ih h.2

/-! ### list subscripts -/

theorem listGet_listSet_same : ∀ (xs : List Tree) (j : Nat) (v : Tree), j < xs.length →
    listGet (listSet xs j v) j = some v
  | [], _, _, h => by simp at h
  | _ :: _, 0, _, _ => by simp [listSet, listGet]
  | _ :: r, j + 1, v, h => by
    simp only [listSet, listGet]
    exact listGet_listSet_same r j v (by simpa using h)

theorem listSet_length : ∀ (xs : List Tree) (j : Nat) (v : Tree), (listSet xs j v).length = xs.length
  | [], _, _ => rfl
  | _ :: _, 0, _ => rfl
  | _ :: r, j + 1, v => by simp [listSet, listSet_length r j v]

theorem listGet_lt : ∀ (xs : List Tree) (j : Nat) (v : Tree), listGet xs j = some v → j < xs.length
  | [], _, _, h => by simp [listGet] at h
  | _ :: _, 0, _, _ => by simp
  | _ :: r, j + 1, v, h => by
    simp only [listGet] at h
    have := listGet_lt r j v h
    simp; omega

theorem listSet_same : ∀ (xs : List Tree) (j : Nat) (v : Tree), listGet xs j = some v →
    listSet xs j v = xs
  | [], _, _, h => by simp [listGet] at h
  | x :: _, 0, v, h => by simp [listGet] at h; simp [listSet, h]
  | _ :: r, j + 1, v, h => by
    simp only [listGet] at h
    simp [listSet, listSet_same r j v h]

theorem listGet_listSet_other : ∀ (xs : List Tree) (j j' : Nat) (v : Tree), j' ≠ j →
    listGet (listSet xs j v) j' = listGet xs j'
  | [], _, _, _, _ => by simp [listSet]
  | _ :: _, 0, 0, _, h => by simp at h
  | _ :: _, 0, _ + 1, _, _ => by simp [listSet, listGet]
  | _ :: _, _ + 1, 0, _, _ => by simp [listSet, listGet]
  | _ :: r, j + 1, j' + 1, v, h => by
    simp only [listSet, listGet]
    exact listGet_listSet_other r j j' v (by omega)

theorem subscript_ok {t : Tree} {i : Int} {v : Tree} (h : subscript t i = .ok v) :
    ∃ xs j, t = .list xs ∧ normIndex xs.length i = some j ∧ listGet xs j = some v := by
  unfold subscript at h
  split at h
  · rename_i xs
    split at h
    · simp at h
    · rename_i j hj
      split at h
      · rename_i w hw
        simp only [Except.ok.injEq] at h
        subst h
        exact ⟨xs, j, rfl, hj, hw⟩
      · simp at h
  · simp at h

theorem subscripts_putSub : ∀ (is : List Int) (v old new : Tree), subscripts v is = .ok old →
    subscripts (putSub v is new) is = .ok new
  | [], _, _, _, _ => by simp [putSub, subscripts]
  | i :: r, v, old, new, h => by
    simp only [subscripts] at h
    split at h
    · simp at h
    · rename_i w hw
      obtain ⟨xs, j, rfl, hj, hg⟩ := subscript_ok hw
      have hlt := listGet_lt _ _ _ hg
      simp only [putSub, hj, hg, subscripts]
      have : subscript (.list (listSet xs j (putSub w r new))) i = .ok (putSub w r new) := by
        simp only [subscript, listSet_length, hj, listGet_listSet_same xs j _ hlt]
      rw [this]
      exact subscripts_putSub r w old new h

theorem putSub_same : ∀ (is : List Int) (v w : Tree), subscripts v is = .ok w → putSub v is w = v
  | [], v, w, h => by simp [subscripts] at h; simp [putSub, h]
  | i :: r, v, w, h => by
    simp only [subscripts] at h
    split at h
    · simp at h
    · rename_i u hu
      obtain ⟨xs, j, rfl, hj, hg⟩ := subscript_ok hu
      simp only [putSub, hj, hg, putSub_same r u w h, listSet_same xs j u hg]

/-! ### the object a segment denotes -/

theorem segGet_segPut (kvs : Kvs) (m : Name) (old new : Tree) (h : segGet kvs m = .ok old) :
    segGet (segPut kvs m new) m = .ok new := by
  unfold segGet segPut at *
  by_cases hb : '[' ∈ m
  · simp only [hb, if_true] at h ⊢
    unfold evalSeg at h ⊢
    cases hp : parseSeg m with
    | none => simp [hp] at h
    | some p =>
      obtain ⟨name, is⟩ := p
      simp only [hp] at h ⊢
      cases hl : lookupK name kvs with
      | none => simp [hl] at h
      | some v =>
        simp only [hl] at h ⊢
        simp only [lookupK_insertK_same]
        exact subscripts_putSub is v old new h
  · simp only [hb, if_false] at h ⊢
    simp [lookupK_insertK_same]

theorem segPut_same (kvs : Kvs) (m : Name) (v : Tree) (h : segGet kvs m = .ok v) :
    segPut kvs m v = kvs := by
  unfold segGet at h
  unfold segPut
  by_cases hb : '[' ∈ m
  · simp only [hb, if_true] at h ⊢
    unfold evalSeg at h
    cases hp : parseSeg m with
    | none => simp [hp] at h
    | some p =>
      obtain ⟨name, is⟩ := p
      simp only [hp] at h ⊢
      cases hl : lookupK name kvs with
      | none => simp [hl] at h
      | some w =>
        simp only [hl] at h ⊢
        rw [putSub_same is w v h]
        exact insertK_same_val _ _ _ hl
  · simp only [hb, if_false] at h ⊢
    split at h
    · simp at h
    · rename_i w hw
      simp only [Except.ok.injEq] at h
      subst h
      exact insertK_same_val _ _ _ hw

/-! ### literal index segments, and lookup after assignment -/

/-- a segment as the paths of the property have them: a non-empty plain name, or a literal
`name[i][j]…` -/
def GoodSeg (m : Name) : Bool :=
  m != [] && (!(decide ('[' ∈ m)) || ((parseSeg m).isSome && m.getLast? == some ']'))

theorem restTruthy_good (rest : List Name) (h : ∀ m ∈ rest, GoodSeg m = true) :
    restTruthy rest none = !(decide (rest = [])) := by
  unfold restTruthy
  cases rest with
  | nil => simp
  | cons a r =>
    have := h a (by simp)
    have hne : a ≠ [] := by
      intro e; subst e; simp [GoodSeg] at this
    simp [hne]

theorem parseInt_no_close (s : Name) (i : Int) (h : parseInt s = some i) : ']' ∉ s := by
  unfold parseInt at h
  split at h
  rename_i neg ds hsplit
  split at h
  · simp at h
  · rename_i c r
    split at h
    · rename_i hall
      have hd : ∀ x ∈ c :: r, x ≠ ']' := by
        intro x hx e
        subst e
        have := List.all_eq_true.mp hall.1 _ hx
        simp [isDigit] at this
      split at hsplit
      · rename_i r'
        simp only [Prod.mk.injEq] at hsplit
        intro hmem
        simp only [List.mem_cons] at hmem
        rcases hmem with e | hmem
        · simp at e
        · rw [hsplit.2] at hmem
          exact hd _ (by simpa using hmem) rfl
      · simp only [Prod.mk.injEq] at hsplit
        rw [hsplit.2]
        intro hmem
        exact hd _ hmem rfl
    · simp at h


theorem takeWhile_append_stop {α} (p : α → Bool) : ∀ (a : List α) (c : α) (r : List α),
    (∀ x ∈ a, p x = true) → p c = false → (a ++ c :: r).takeWhile p = a
  | [], c, r, _, hc => by simp [hc]
  | x :: a, c, r, ha, hc => by
    have hx := ha x (by simp)
    simp only [List.cons_append, List.takeWhile, hx]
    rw [takeWhile_append_stop p a c r (fun y hy => ha y (by simp [hy])) hc]

theorem dropWhile_append_stop {α} (p : α → Bool) : ∀ (a : List α) (c : α) (r : List α),
    (∀ x ∈ a, p x = true) → p c = false → (a ++ c :: r).dropWhile p = c :: r
  | [], c, r, _, hc => by simp [hc]
  | x :: a, c, r, ha, hc => by
    have hx := ha x (by simp)
    simp only [List.cons_append, List.dropWhile, hx]
    exact dropWhile_append_stop p a c r (fun y hy => ha y (by simp [hy])) hc

theorem dropWhile_head {α} (p : α → Bool) : ∀ (l : List α) (c : α) (r : List α),
    l.dropWhile p = c :: r → p c = false
  | [], _, _, h => by simp at h
  | x :: l, c, r, h => by
    simp only [List.dropWhile] at h
    cases hx : p x with
    | true => rw [hx] at h; exact dropWhile_head p l c r h
    | false => rw [hx] at h; simp only [List.cons.injEq] at h; rw [← h.1]; exact hx

theorem parseFinalIdx_lit (t : Name) (i : Int) : parseFinalIdx t = .lit i → parseInt t = some i := by
  intro h
  unfold parseFinalIdx at h
  split at h
  · rename_i j hj; simp only [FinalIdx.lit.injEq] at h; rw [hj, h]
  · simp only at h
    split at h
    · split at h <;> simp at h
    · simp at h

theorem parseSeg_final (m n : Name) (is : List Int) (i : Int)
    (hp : parseSeg m = some (n, is)) (hl : m.getLast? = some ']')
    (hi : parseInt (finalIdxText m) = some i) :
    n = beforeBracket m ∧ is = [i] := by
  unfold parseSeg at hp
  split at hp
  · rename_i hcond
    obtain ⟨_, hne⟩ := hcond
    simp only [Option.map_eq_some_iff, Prod.mk.injEq] at hp
    obtain ⟨is', hg, hn, his⟩ := hp
    subst his
    refine ⟨hn.symm, ?_⟩
    unfold finalIdxText at hi
    have hm : m = beforeBracket m ++ fromBracket m := by
      unfold beforeBracket fromBracket; rw [List.takeWhile_append_dropWhile]
    have hhead : ∀ c body, fromBracket m = c :: body → c = '[' := by
      intro c body h
      have := dropWhile_head _ m c body h
      simpa using this
    generalize fromBracket m = rest at *
    cases rest with
    | nil => exact absurd rfl hne
    | cons c body =>
      have hc := hhead c body rfl
      subst hc
      have hlast : ('[' :: body).getLast? = some ']' := by
        rw [hm] at hl
        rw [List.getLast?_append] at hl
        simpa using hl
      simp only [List.drop_succ_cons, List.drop_zero] at hi
      rcases List.eq_nil_or_concat body with rfl | ⟨idx, c, rfl⟩
      · simp at hlast
      · simp only [List.concat_eq_append] at hlast hi hg
        have hc : c = ']' := by
          have : ('[' :: (idx ++ [c])).getLast? = some c := by
            rw [show '[' :: (idx ++ [c]) = ('[' :: idx) ++ [c] from rfl, List.getLast?_append]; simp
          rw [this] at hlast; simpa using hlast
        subst hc
        rw [List.dropLast_concat] at hi
        have hno := parseInt_no_close _ _ hi
        simp only [List.length_cons, parseGroups] at hg
        rw [takeWhile_append_stop _ idx ']' [] (by intro x hx; have : x ≠ ']' := fun e => hno (e ▸ hx); simpa using this) (by simp)] at hg
        rw [dropWhile_append_stop _ idx ']' [] (by intro x hx; have : x ≠ ']' := fun e => hno (e ▸ hx); simpa using this) (by simp)] at hg
        simp only [if_true, hi] at hg
        simp only [parseGroups] at hg
        simpa using hg.symm
  · simp at hp


theorem normIndex_lt {n : Nat} {i : Int} {j : Nat} (h : normIndex n i = some j) : j < n := by
  unfold normIndex at h
  by_cases hi : i < 0
  · simp only [hi, if_true] at h
    split at h
    · simp only [Option.some.injEq] at h; omega
    · simp at h
  · simp only [hi, if_false] at h
    split at h
    · simp only [Option.some.injEq] at h; omega
    · simp at h

theorem goodSeg_ne {m : Name} (h : GoodSeg m = true) : m ≠ [] := by
  intro e; subst e; simp [GoodSeg] at h

theorem getK_setK_same (cfg : Cfg) : ∀ (segs : List Name) (kvs kvs' : Kvs) (tv : Tree),
    (∀ m ∈ segs, GoodSeg m = true) → segs ≠ [] →
    setK cfg kvs segs none (.ok tv) = (kvs', none) → getK kvs' segs none = .ok tv
  | [], _, _, _, _, hne, _ => absurd rfl hne
  | m :: rest, kvs, kvs', tv, hgood, _, hset => by
    have hgm := hgood m (by simp)
    have hgr : ∀ x ∈ rest, GoodSeg x = true := fun x hx => hgood x (by simp [hx])
    rw [setK, restTruthy_good rest hgr] at hset
    by_cases hrest : rest = []
    · -- the final segment
      subst hrest
      simp only [decide_true, Bool.not_true, Bool.false_eq_true, if_false] at hset
      by_cases hb : '[' ∈ m
      · have hg2 : (parseSeg m).isSome = true ∧ m.getLast? = some ']' := by
          simpa [GoodSeg, hb, goodSeg_ne hgm] using hgm
        simp only [hb, hg2.2, and_self, if_true] at hset
        obtain ⟨⟨n, is⟩, hp⟩ := Option.isSome_iff_exists.mp hg2.1
        cases hpf : parseFinalIdx (finalIdxText m) with
        | oom => simp [hpf] at hset
        | syntaxErr => simp [hpf] at hset
        | lit i =>
          have hi := parseFinalIdx_lit _ _ hpf
          obtain ⟨hn, his⟩ := parseSeg_final m n is i hp hg2.2 hi
          subst his
          simp only [hpf] at hset
          cases hl : lookupK (beforeBracket m) kvs with
          | none => simp [hl] at hset
          | some v =>
            simp only [hl] at hset
            cases v with
            | leaf _ => simp at hset
            | node _ => simp at hset
            | list xs =>
              simp only at hset
              cases hj : normIndex xs.length i with
              | none => simp [hj] at hset
              | some j =>
                simp only [hj, Prod.mk.injEq, and_true] at hset
                subst hset
                rw [getK]
                simp only [segGet, hb, if_true, evalSeg, hp, ← hn, lookupK_insertK_same, subscripts,
                  subscript, listSet_length, hj, listGet_listSet_same xs j tv (normIndex_lt hj),
                  and_self]
      · simp only [hb, false_and, if_false] at hset
        split at hset
        · simp at hset
        · simp only [Prod.mk.injEq, and_true] at hset
          subst hset
          rw [getK]
          simp [segGet, hb, lookupK_insertK_same]
    · -- an intermediate segment
      simp only [hrest, decide_false, Bool.not_false, if_true] at hset
      by_cases hb : '[' ∈ m
      · simp only [hb, if_true] at hset
        cases he : evalSeg kvs m with
        | error e => simp [he] at hset
        | ok target =>
          simp only [he] at hset
          cases target with
          | leaf _ => simp at hset
          | list _ => simp at hset
          | node sub =>
            simp only at hset
            cases hs : setK cfg sub rest none (.ok tv) with
            | mk sub' e =>
              simp only [hs, Prod.mk.injEq] at hset
              obtain ⟨hk, he'⟩ := hset
              subst he' hk
              have ih := getK_setK_same cfg rest sub sub' tv hgr hrest hs
              have hsg : segGet kvs m = .ok (.node sub) := by simp [segGet, hb, he]
              rw [getK, segGet_segPut kvs m _ _ hsg]
              simp [hrest, ih]
      · simp only [hb, if_false] at hset
        split at hset
        · simp at hset
        · cases hl : lookupK m kvs with
          | none =>
            simp only [hl] at hset
            cases hs : setK cfg [] rest none (.ok tv) with
            | mk sub' e =>
              simp only [hs, Prod.mk.injEq] at hset
              obtain ⟨hk, he'⟩ := hset
              subst he' hk
              have ih := getK_setK_same cfg rest [] sub' tv hgr hrest hs
              rw [getK]
              simp [segGet, hb, lookupK_insertK_same, hrest, ih]
          | some v =>
            simp only [hl] at hset
            cases v with
            | leaf _ => simp at hset
            | list _ => simp at hset
            | node sub =>
              simp only at hset
              cases hs : setK cfg sub rest none (.ok tv) with
              | mk sub' e =>
                simp only [hs, Prod.mk.injEq] at hset
                obtain ⟨hk, he'⟩ := hset
                subst he' hk
                have ih := getK_setK_same cfg rest sub sub' tv hgr hrest hs
                rw [getK]
                simp [segGet, hb, lookupK_insertK_same, hrest, ih]

end Cpppo.Dotdict
