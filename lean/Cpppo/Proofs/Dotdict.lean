import Cpppo.Model.Dotdict

/-!
Helper lemmas for C16 (`Cpppo.Dotdict`): association lists, list subscripts, one level of the tree.
-/
namespace Cpppo.Dotdict

/-! ### association lists (a Python `dict` level) -/

theorem lookupK_insertK_same (k : Name) (v : Tree) (kvs : Kvs) :
    lookupK k (insertK k v kvs) = some v := by
  induction kvs with
  | nil => simp [insertK, lookupK]
  | cons hd tl ih =>
    obtain ⟨k', v'⟩ := hd
    by_cases h : k = k'
    · simp [insertK, lookupK, h]
    · simp [insertK, lookupK, h, ih]

theorem lookupK_insertK_other (k k' : Name) (v : Tree) (kvs : Kvs) (h : k' ≠ k) :
    lookupK k' (insertK k v kvs) = lookupK k' kvs := by
  induction kvs with
  | nil => simp [insertK, lookupK, h]
  | cons hd tl ih =>
    obtain ⟨k2, v2⟩ := hd
    by_cases h2 : k = k2
    · subst h2; simp [insertK, lookupK, h]
    · by_cases h3 : k' = k2
      · simp [insertK, lookupK, h2, h3]
      · simp [insertK, lookupK, h2, h3, ih]

theorem insertK_same_val (k : Name) (v : Tree) (kvs : Kvs) (h : lookupK k kvs = some v) :
    insertK k v kvs = kvs := by
  induction kvs with
  | nil => simp [lookupK] at h
  | cons hd tl ih =>
    obtain ⟨k', v'⟩ := hd
    by_cases hk : k = k'
    · subst hk; simp [lookupK] at h; simp [insertK, h]
    · simp [lookupK, hk] at h; simp [insertK, hk, ih h]

theorem lookupK_eraseK_other (k k' : Name) (kvs : Kvs) (h : k' ≠ k) :
    lookupK k' (eraseK k kvs) = lookupK k' kvs := by
  induction kvs with
  | nil => simp [eraseK]
  | cons hd tl ih =>
    obtain ⟨k2, v2⟩ := hd
    by_cases h2 : k = k2
    · subst h2; simp [eraseK, lookupK, h]
    · by_cases h3 : k' = k2
      · simp [eraseK, lookupK, h2, h3]
      · simp [eraseK, lookupK, h2, h3, ih]

/-- the raw keys of a level -/
def keysK (kvs : Kvs) : List Name := kvs.map (·.1)

theorem lookupK_none_iff (k : Name) (kvs : Kvs) : lookupK k kvs = none ↔ k ∉ keysK kvs := by
  induction kvs with
  | nil => simp [lookupK, keysK]
  | cons hd tl ih =>
    obtain ⟨k', v'⟩ := hd
    by_cases h : k = k'
    · simp [lookupK, keysK, h]
    · simp only [lookupK, h, if_false, ih, keysK, List.map_cons, List.mem_cons, false_or]

theorem keysK_insertK (k : Name) (v : Tree) (kvs : Kvs) :
    keysK (insertK k v kvs) = if k ∈ keysK kvs then keysK kvs else keysK kvs ++ [k] := by
  induction kvs with
  | nil => simp [insertK, keysK]
  | cons hd tl ih =>
    obtain ⟨k', v'⟩ := hd
    by_cases h : k = k'
    · subst h; simp [insertK, keysK]
    · have h' : ¬ k' = k := fun e => h e.symm
      simp only [keysK] at ih
      simp only [insertK, h, if_false, keysK, List.map_cons, List.mem_cons, false_or, ih]
      split <;> rename_i hm <;> simp [hm]

theorem mem_keysK_insertK (k k' : Name) (v : Tree) (kvs : Kvs) :
    k' ∈ keysK (insertK k v kvs) ↔ k' = k ∨ k' ∈ keysK kvs := by
  rw [keysK_insertK]
  split
  · constructor
    · intro h; exact Or.inr h
    · rintro (rfl | h)
      · assumption
      · exact h
  · simp [or_comm]

theorem lookupK_eraseK_same (k : Name) (kvs : Kvs) (h : (keysK kvs).Nodup) :
    lookupK k (eraseK k kvs) = none := by
  induction kvs with
  | nil => simp [eraseK, lookupK]
  | cons hd tl ih =>
    obtain ⟨k', v'⟩ := hd
    simp only [keysK, List.map_cons, List.nodup_cons] at h
    by_cases hk : k = k'
    · subst hk
      simp only [eraseK, if_true]
      exact (lookupK_none_iff _ _).mpr h.1
    · simp only [eraseK, hk, if_false, lookupK]
      exact ih h.2

/-! ### list subscripts -/

theorem listGet_listSet_same : ∀ (xs : List Tree) (j : Nat) (v : Tree), j < xs.length →
    listGet (listSet xs j v) j = some v
  | [], _, _, h => by simp at h
  | _ :: _, 0, _, _ => by simp [listSet, listGet]
  | _ :: r, j + 1, v, h => by
    simp only [listSet, listGet]
    exact listGet_listSet_same r j v (by simpa using h)

theorem listSet_length : ∀ (xs : List Tree) (j : Nat) (v : Tree), (listSet xs j v).length = xs.length
  | [], _, _ => rfl
  | _ :: _, 0, _ => rfl
  | _ :: r, j + 1, v => by simp [listSet, listSet_length r j v]

theorem listGet_lt : ∀ (xs : List Tree) (j : Nat) (v : Tree), listGet xs j = some v → j < xs.length
  | [], _, _, h => by simp [listGet] at h
  | _ :: _, 0, _, _ => by simp
  | _ :: r, j + 1, v, h => by
    simp only [listGet] at h
    have := listGet_lt r j v h
    simp; omega

theorem listSet_same : ∀ (xs : List Tree) (j : Nat) (v : Tree), listGet xs j = some v →
    listSet xs j v = xs
  | [], _, _, h => by simp [listGet] at h
  | x :: _, 0, v, h => by simp [listGet] at h; simp [listSet, h]
  | _ :: r, j + 1, v, h => by
    simp only [listGet] at h
    simp [listSet, listSet_same r j v h]

theorem listGet_listSet_other : ∀ (xs : List Tree) (j j' : Nat) (v : Tree), j' ≠ j →
    listGet (listSet xs j v) j' = listGet xs j'
  | [], _, _, _, _ => by simp [listSet]
  | _ :: _, 0, 0, _, h => by simp at h
  | _ :: _, 0, _ + 1, _, _ => by simp [listSet, listGet]
  | _ :: _, _ + 1, 0, _, _ => by simp [listSet, listGet]
  | _ :: r, j + 1, j' + 1, v, h => by
    simp only [listSet, listGet]
    exact listGet_listSet_other r j j' v (by omega)

theorem subscript_ok {t : Tree} {i : Int} {v : Tree} (h : subscript t i = .ok v) :
    ∃ xs j, t = .list xs ∧ normIndex xs.length i = some j ∧ listGet xs j = some v := by
  unfold subscript at h
  split at h
  · rename_i xs
    split at h
    · simp at h
    · rename_i j hj
      split at h
      · rename_i w hw
        simp only [Except.ok.injEq] at h
        subst h
        exact ⟨xs, j, rfl, hj, hw⟩
      · simp at h
  · simp at h

theorem subscripts_putSub : ∀ (is : List Int) (v old new : Tree), subscripts v is = .ok old →
    subscripts (putSub v is new) is = .ok new
  | [], _, _, _, _ => by simp [putSub, subscripts]
  | i :: r, v, old, new, h => by
    simp only [subscripts] at h
    split at h
    · simp at h
    · rename_i w hw
      obtain ⟨xs, j, rfl, hj, hg⟩ := subscript_ok hw
      have hlt := listGet_lt _ _ _ hg
      simp only [putSub, hj, hg, subscripts]
      have : subscript (.list (listSet xs j (putSub w r new))) i = .ok (putSub w r new) := by
        simp only [subscript, listSet_length, hj, listGet_listSet_same xs j _ hlt]
      rw [this]
      exact subscripts_putSub r w old new h

theorem putSub_same : ∀ (is : List Int) (v w : Tree), subscripts v is = .ok w → putSub v is w = v
  | [], v, w, h => by simp [subscripts] at h; simp [putSub, h]
  | i :: r, v, w, h => by
    simp only [subscripts] at h
    split at h
    · simp at h
    · rename_i u hu
      obtain ⟨xs, j, rfl, hj, hg⟩ := subscript_ok hu
      simp only [putSub, hj, hg, putSub_same r u w h, listSet_same xs j u hg]

/-! ### the object a segment denotes -/

/-- a plain name or a literal `name[i][j]…` (not an index expression) -/
def LitSeg (m : Name) : Prop := '[' ∈ m → (parseSeg m).isSome = true

theorem segGet_segPut (kvs : Kvs) (m : Name) (old new : Tree) (hlit : LitSeg m)
    (h : segGet kvs m = .ok old) : segGet (segPut kvs m new) m = .ok new := by
  unfold segGet segPut at *
  by_cases hb : '[' ∈ m
  · simp only [hb, if_true] at h ⊢
    unfold evalSeg at h ⊢
    cases hp : parseSeg m with
    | none => have := hlit hb; simp [hp] at this
    | some p =>
      obtain ⟨name, is⟩ := p
      simp only [hp] at h ⊢
      cases hl : lookupK name kvs with
      | none => simp [hl] at h
      | some v =>
        simp only [hl] at h ⊢
        simp only [lookupK_insertK_same]
        exact subscripts_putSub is v old new h
  · simp only [hb, if_false] at h ⊢
    split at h
    · simp at h
    · rename_i w hw
      simp [replaceK, hw, lookupK_insertK_same]

theorem segPut_same (kvs : Kvs) (m : Name) (v : Tree) (hlit : LitSeg m) (h : segGet kvs m = .ok v) :
    segPut kvs m v = kvs := by
  unfold segGet at h
  unfold segPut
  by_cases hb : '[' ∈ m
  · simp only [hb, if_true] at h ⊢
    unfold evalSeg at h
    cases hp : parseSeg m with
    | none => have := hlit hb; simp [hp] at this
    | some p =>
      obtain ⟨name, is⟩ := p
      simp only [hp] at h ⊢
      cases hl : lookupK name kvs with
      | none => simp [hl] at h
      | some w =>
        simp only [hl] at h ⊢
        rw [putSub_same is w v h]
        exact insertK_same_val _ _ _ hl
  · simp only [hb, if_false] at h ⊢
    split at h
    · simp at h
    · rename_i w hw
      simp only [Except.ok.injEq] at h
      subst h
      simp only [replaceK, hw, Option.isSome_some, if_true]
      exact insertK_same_val _ _ _ hw

/-! ### literal index segments, and lookup after assignment -/

/-- a segment as the paths of the property have them: a non-empty plain name, or a literal
`name[i][j]…` -/
def GoodSeg (m : Name) : Bool :=
  m != [] && !(decide ('.' ∈ m)) &&
    (!(decide ('[' ∈ m)) || ((parseSeg m).isSome && m.getLast? == some ']' &&
      (match parseFinalIdx (finalIdxText m) with | .oom => false | _ => true)))

theorem goodSeg_lit {m : Name} (h : GoodSeg m = true) : LitSeg m := by
  intro hb
  simp only [GoodSeg, hb, decide_true, Bool.not_true, Bool.false_or, Bool.and_eq_true] at h
  exact h.2.1.1

theorem restTruthy_good (rest : List Name) (h : ∀ m ∈ rest, GoodSeg m = true) :
    restTruthy rest none = !(decide (rest = [])) := by
  unfold restTruthy
  cases rest with
  | nil => simp
  | cons a r =>
    have := h a (by simp)
    have hne : a ≠ [] := by
      intro e; subst e; simp [GoodSeg] at this
    simp [hne]

theorem parseInt_no_close (s : Name) (i : Int) (h : parseInt s = some i) : ']' ∉ s := by
  unfold parseInt at h
  split at h
  rename_i neg ds hsplit
  split at h
  · simp at h
  · rename_i c r
    split at h
    · rename_i hall
      have hd : ∀ x ∈ c :: r, x ≠ ']' := by
        intro x hx e
        subst e
        have := List.all_eq_true.mp hall.1 _ hx
        simp [isDigit] at this
      split at hsplit
      · rename_i r'
        simp only [Prod.mk.injEq] at hsplit
        intro hmem
        simp only [List.mem_cons] at hmem
        rcases hmem with e | hmem
        · simp at e
        · rw [hsplit.2] at hmem
          exact hd _ (by simpa using hmem) rfl
      · simp only [Prod.mk.injEq] at hsplit
        rw [hsplit.2]
        intro hmem
        exact hd _ hmem rfl
    · simp at h


theorem takeWhile_append_stop {α} (p : α → Bool) : ∀ (a : List α) (c : α) (r : List α),
    (∀ x ∈ a, p x = true) → p c = false → (a ++ c :: r).takeWhile p = a
  | [], c, r, _, hc => by simp [hc]
  | x :: a, c, r, ha, hc => by
    have hx := ha x (by simp)
    simp only [List.cons_append, List.takeWhile, hx]
    rw [takeWhile_append_stop p a c r (fun y hy => ha y (by simp [hy])) hc]

theorem dropWhile_append_stop {α} (p : α → Bool) : ∀ (a : List α) (c : α) (r : List α),
    (∀ x ∈ a, p x = true) → p c = false → (a ++ c :: r).dropWhile p = c :: r
  | [], c, r, _, hc => by simp [hc]
  | x :: a, c, r, ha, hc => by
    have hx := ha x (by simp)
    simp only [List.cons_append, List.dropWhile, hx]
    exact dropWhile_append_stop p a c r (fun y hy => ha y (by simp [hy])) hc

theorem dropWhile_head {α} (p : α → Bool) : ∀ (l : List α) (c : α) (r : List α),
    l.dropWhile p = c :: r → p c = false
  | [], _, _, h => by simp at h
  | x :: l, c, r, h => by
    simp only [List.dropWhile] at h
    cases hx : p x with
    | true => rw [hx] at h; exact dropWhile_head p l c r h
    | false => rw [hx] at h; simp only [List.cons.injEq] at h; rw [← h.1]; exact hx

theorem dropWhile_subset {α} (p : α → Bool) : ∀ (l : List α) (x : α), x ∈ l.dropWhile p → x ∈ l
  | [], _, h => by simp at h
  | y :: l, x, h => by
    simp only [List.dropWhile] at h
    cases hy : p y with
    | true => rw [hy] at h; exact List.mem_cons_of_mem _ (dropWhile_subset p l x h)
    | false => rw [hy] at h; exact h

theorem mem_of_not_dropWhile {α} (p : α → Bool) : ∀ (l : List α) (x : α), x ∈ l → x ∉ l.dropWhile p →
    p x = true
  | [], _, h, _ => by simp at h
  | y :: l, x, h, hn => by
    simp only [List.dropWhile] at hn
    cases hy : p y with
    | true =>
      rw [hy] at hn
      simp only [List.mem_cons] at h
      rcases h with rfl | h
      · exact hy
      · exact mem_of_not_dropWhile p l x h hn
    | false => rw [hy] at hn; exact absurd h hn

theorem parseIdx_no_close (s : Name) (i : Int) (h : parseIdx s = some i) : ']' ∉ s := by
  unfold parseIdx at h
  have h1 := parseInt_no_close _ _ h
  intro hm
  have := mem_of_not_dropWhile (fun c => decide (c = ' ')) s ']' hm h1
  simp at this

theorem parseFinalIdx_lit (t : Name) (i : Int) : parseFinalIdx t = .lit i → parseIdx t = some i := by
  intro h
  unfold parseFinalIdx at h
  split at h
  · rename_i j hj; simp only [FinalIdx.lit.injEq] at h; rw [hj, h]
  · simp only at h
    split at h
    · split at h <;> simp at h
    · simp at h

theorem parseSeg_final (m n : Name) (is : List Int) (i : Int)
    (hp : parseSeg m = some (n, is)) (hl : m.getLast? = some ']')
    (hi : parseIdx (finalIdxText m) = some i) :
    n = beforeBracket m ∧ is = [i] := by
  unfold parseSeg at hp
  split at hp
  · rename_i hcond
    obtain ⟨_, hne⟩ := hcond
    simp only [Option.map_eq_some_iff, Prod.mk.injEq] at hp
    obtain ⟨is', hg, hn, his⟩ := hp
    subst his
    refine ⟨hn.symm, ?_⟩
    unfold finalIdxText at hi
    have hm : m = beforeBracket m ++ fromBracket m := by
      unfold beforeBracket fromBracket; rw [List.takeWhile_append_dropWhile]
    have hhead : ∀ c body, fromBracket m = c :: body → c = '[' := by
      intro c body h
      have := dropWhile_head _ m c body h
      simpa using this
    generalize fromBracket m = rest at *
    cases rest with
    | nil => exact absurd rfl hne
    | cons c body =>
      have hc := hhead c body rfl
      subst hc
      have hlast : ('[' :: body).getLast? = some ']' := by
        rw [hm] at hl
        rw [List.getLast?_append] at hl
        simpa using hl
      simp only [List.drop_succ_cons, List.drop_zero] at hi
      rcases List.eq_nil_or_concat body with rfl | ⟨idx, c, rfl⟩
      · simp at hlast
      · simp only [List.concat_eq_append] at hlast hi hg
        have hc : c = ']' := by
          have : ('[' :: (idx ++ [c])).getLast? = some c := by
            rw [show '[' :: (idx ++ [c]) = ('[' :: idx) ++ [c] from rfl, List.getLast?_append]; simp
          rw [this] at hlast; simpa using hlast
        subst hc
        rw [List.dropLast_concat] at hi
        have hno := parseIdx_no_close _ _ hi
        simp only [List.length_cons, parseGroups] at hg
        rw [takeWhile_append_stop _ idx ']' [] (by intro x hx; have : x ≠ ']' := fun e => hno (e ▸ hx); simpa using this) (by simp)] at hg
        rw [dropWhile_append_stop _ idx ']' [] (by intro x hx; have : x ≠ ']' := fun e => hno (e ▸ hx); simpa using this) (by simp)] at hg
        simp only [if_true, hi] at hg
        simp only [parseGroups] at hg
        simpa using hg.symm
  · simp at hp


theorem normIndex_lt {n : Nat} {i : Int} {j : Nat} (h : normIndex n i = some j) : j < n := by
  unfold normIndex at h
  by_cases hi : i < 0
  · simp only [hi, if_true] at h
    split at h
    · simp only [Option.some.injEq] at h; omega
    · simp at h
  · simp only [hi, if_false] at h
    split at h
    · simp only [Option.some.injEq] at h; omega
    · simp at h

theorem goodSeg_ne {m : Name} (h : GoodSeg m = true) : m ≠ [] := by
  intro e; subst e; simp [GoodSeg] at h

theorem getK_setK_same (cfg : Cfg) : ∀ (segs : List Name) (kvs kvs' : Kvs) (tv : Tree),
    (∀ m ∈ segs, GoodSeg m = true) → segs ≠ [] →
    setK cfg kvs segs none (.ok tv) = (kvs', none) → getK kvs' segs none = .ok tv
  | [], _, _, _, _, hne, _ => absurd rfl hne
  | m :: rest, kvs, kvs', tv, hgood, _, hset => by
    have hgm := hgood m (by simp)
    have hgr : ∀ x ∈ rest, GoodSeg x = true := fun x hx => hgood x (by simp [hx])
    rw [setK, restTruthy_good rest hgr] at hset
    by_cases hrest : rest = []
    · -- the final segment
      subst hrest
      simp only [decide_true, Bool.not_true, Bool.false_eq_true, if_false] at hset
      by_cases hb : '[' ∈ m
      · have hg3 : ¬'.' ∈ m ∧ ((parseSeg m).isSome = true ∧ m.getLast? = some ']') ∧
            (match parseFinalIdx (finalIdxText m) with | .oom => false | _ => true) = true := by
          simpa [GoodSeg, hb, goodSeg_ne hgm] using hgm
        have hg2 : (parseSeg m).isSome = true ∧ m.getLast? = some ']' := hg3.2.1
        simp only [hb, hg2.2, and_self, if_true] at hset
        obtain ⟨⟨n, is⟩, hp⟩ := Option.isSome_iff_exists.mp hg2.1
        cases hpf : parseFinalIdx (finalIdxText m) with
        | oom => have := hg3.2.2; simp [hpf] at this
        | syntaxErr => simp [hpf] at hset
        | lit i =>
          have hi := parseFinalIdx_lit _ _ hpf
          obtain ⟨hn, his⟩ := parseSeg_final m n is i hp hg2.2 hi
          subst his
          simp only [hpf] at hset
          cases hl : lookupK (beforeBracket m) kvs with
          | none => simp [hl] at hset
          | some v =>
            simp only [hl] at hset
            cases v with
            | leaf _ => simp at hset
            | node _ => simp at hset
            | list xs =>
              simp only at hset
              cases hj : normIndex xs.length i with
              | none => simp [hj] at hset
              | some j =>
                simp only [hj, Prod.mk.injEq, and_true] at hset
                subst hset
                rw [getK]
                simp only [segGet, hb, if_true, evalSeg, hp, ← hn, lookupK_insertK_same, subscripts,
                  subscript, listSet_length, hj, listGet_listSet_same xs j tv (normIndex_lt hj),
                  and_self]
      · simp only [hb, false_and, if_false] at hset
        split at hset
        · simp at hset
        · simp only [Prod.mk.injEq, and_true] at hset
          subst hset
          rw [getK]
          simp [segGet, hb, lookupK_insertK_same]
    · -- an intermediate segment
      simp only [hrest, decide_false, Bool.not_false, if_true] at hset
      by_cases hb : '[' ∈ m
      · simp only [hb, if_true] at hset
        cases he : evalSeg kvs m with
        | error e => simp [he] at hset
        | ok target =>
          simp only [he] at hset
          cases target with
          | leaf _ => simp at hset
          | list _ => simp at hset
          | node sub =>
            simp only at hset
            cases hs : setK cfg sub rest none (.ok tv) with
            | mk sub' e =>
              simp only [hs, Prod.mk.injEq] at hset
              obtain ⟨hk, he'⟩ := hset
              subst he' hk
              have ih := getK_setK_same cfg rest sub sub' tv hgr hrest hs
              have hsg : segGet kvs m = .ok (.node sub) := by simp [segGet, hb, he]
              rw [getK, segGet_segPut kvs m _ _ (goodSeg_lit hgm) hsg]
              simp [hrest, ih]
      · simp only [hb, if_false] at hset
        split at hset
        · simp at hset
        · cases hl : lookupK m kvs with
          | none =>
            simp only [hl] at hset
            cases hs : setK cfg [] rest none (.ok tv) with
            | mk sub' e =>
              simp only [hs, Prod.mk.injEq] at hset
              obtain ⟨hk, he'⟩ := hset
              subst he' hk
              have ih := getK_setK_same cfg rest [] sub' tv hgr hrest hs
              rw [getK]
              simp [segGet, hb, lookupK_insertK_same, hrest, ih]
          | some v =>
            simp only [hl] at hset
            cases v with
            | leaf _ => simp at hset
            | list _ => simp at hset
            | node sub =>
              simp only at hset
              cases hs : setK cfg sub rest none (.ok tv) with
              | mk sub' e =>
                simp only [hs, Prod.mk.injEq] at hset
                obtain ⟨hk, he'⟩ := hset
                subst he' hk
                have ih := getK_setK_same cfg rest sub sub' tv hgr hrest hs
                rw [getK]
                simp [segGet, hb, lookupK_insertK_same, hrest, ih]


/-! ### well-formed trees: a level is a map (no key twice) whose keys satisfy `P`, recursively -/

mutual
def wfT (P : Name → Bool) : Tree → Bool
  | .leaf _ => true
  | .node kvs => wfK P kvs
  | .list xs => wfL P xs
def wfK (P : Name → Bool) : Kvs → Bool
  | [] => true
  | (k, v) :: r => P k && (lookupK k r).isNone && wfT P v && wfK P r
def wfL (P : Name → Bool) : List Tree → Bool
  | [] => true
  | x :: r => wfT P x && wfL P r
end

variable {P : Name → Bool}

theorem wfK_cons {k : Name} {v : Tree} {r : Kvs} :
    wfK P ((k, v) :: r) = true ↔ P k = true ∧ lookupK k r = none ∧ wfT P v = true ∧ wfK P r = true := by
  simp [wfK, and_assoc]

theorem wfK_lookup {kvs : Kvs} {k : Name} {v : Tree} (h : wfK P kvs = true) (hl : lookupK k kvs = some v) :
    P k = true ∧ wfT P v = true := by
  induction kvs with
  | nil => simp [lookupK] at hl
  | cons hd tl ih =>
    obtain ⟨k', v'⟩ := hd
    obtain ⟨hp, _, hv, hr⟩ := wfK_cons.mp h
    by_cases hk : k = k'
    · subst hk; simp [lookupK] at hl; subst hl; exact ⟨hp, hv⟩
    · simp [lookupK, hk] at hl; exact ih hr hl

theorem wfK_insertK {kvs : Kvs} {k : Name} {v : Tree} (h : wfK P kvs = true) (hk : P k = true)
    (hv : wfT P v = true) : wfK P (insertK k v kvs) = true := by
  induction kvs with
  | nil => simp [insertK, wfK, hk, hv, lookupK]
  | cons hd tl ih =>
    obtain ⟨k', v'⟩ := hd
    obtain ⟨hp, hn, hv', hr⟩ := wfK_cons.mp h
    by_cases hkk : k = k'
    · subst hkk
      simp only [insertK, if_true]
      exact wfK_cons.mpr ⟨hp, hn, hv, hr⟩
    · simp only [insertK, hkk, if_false]
      refine wfK_cons.mpr ⟨hp, ?_, hv', ih hr⟩
      rw [lookupK_insertK_other _ _ _ _ (fun e => hkk e.symm)]
      exact hn

theorem wfK_eraseK {kvs : Kvs} {k : Name} (h : wfK P kvs = true) : wfK P (eraseK k kvs) = true := by
  induction kvs with
  | nil => simp [eraseK, wfK]
  | cons hd tl ih =>
    obtain ⟨k', v'⟩ := hd
    obtain ⟨hp, hn, hv', hr⟩ := wfK_cons.mp h
    by_cases hkk : k = k'
    · subst hkk; simp only [eraseK, if_true]; exact hr
    · simp only [eraseK, hkk, if_false]
      refine wfK_cons.mpr ⟨hp, ?_, hv', ih hr⟩
      rw [lookupK_eraseK_other _ _ _ (fun e => hkk e.symm)]
      exact hn

theorem wfK_nodup {kvs : Kvs} (h : wfK P kvs = true) : (keysK kvs).Nodup := by
  induction kvs with
  | nil => simp [keysK]
  | cons hd tl ih =>
    obtain ⟨k', v'⟩ := hd
    obtain ⟨_, hn, _, hr⟩ := wfK_cons.mp h
    simp only [keysK, List.map_cons, List.nodup_cons]
    exact ⟨(lookupK_none_iff _ _).mp hn, ih hr⟩

theorem wfL_listGet : ∀ {xs : List Tree} {j : Nat} {v : Tree}, wfL P xs = true → listGet xs j = some v →
    wfT P v = true
  | [], _, _, _, h => by simp [listGet] at h
  | x :: _, 0, v, hw, h => by
    simp only [listGet, Option.some.injEq] at h; subst h
    simp only [wfL, Bool.and_eq_true] at hw; exact hw.1
  | _ :: r, j + 1, v, hw, h => by
    simp only [listGet] at h
    simp only [wfL, Bool.and_eq_true] at hw
    exact wfL_listGet hw.2 h

theorem wfL_listSet : ∀ {xs : List Tree} {j : Nat} {v : Tree}, wfL P xs = true → wfT P v = true →
    wfL P (listSet xs j v) = true
  | [], _, _, _, _ => by simp [listSet, wfL]
  | _ :: _, 0, _, hw, hv => by
    simp only [wfL, Bool.and_eq_true] at hw
    simp [listSet, wfL, hv, hw.2]
  | _ :: r, j + 1, v, hw, hv => by
    simp only [wfL, Bool.and_eq_true] at hw
    simp [listSet, wfL, hw.1, wfL_listSet hw.2 hv]

theorem wfT_subscripts : ∀ {is : List Int} {v w : Tree}, wfT P v = true → subscripts v is = .ok w →
    wfT P w = true
  | [], v, w, hv, h => by simp [subscripts] at h; subst h; exact hv
  | i :: r, v, w, hv, h => by
    simp only [subscripts] at h
    split at h
    · simp at h
    · rename_i u hu
      obtain ⟨xs, j, rfl, _, hg⟩ := subscript_ok hu
      simp only [wfT] at hv
      exact wfT_subscripts (wfL_listGet hv hg) h

theorem wfT_putSub : ∀ {is : List Int} {v new : Tree}, wfT P v = true → wfT P new = true →
    wfT P (putSub v is new) = true
  | [], _, _, _, hn => by simp [putSub, hn]
  | i :: r, .leaf _, _, hv, _ => by simp [putSub, hv]
  | i :: r, .node _, _, hv, _ => by simp [putSub, hv]
  | i :: r, .list xs, new, hv, hn => by
    simp only [putSub]
    split
    · exact hv
    · split
      · exact hv
      · rename_i j _ u hu
        simp only [wfT] at hv ⊢
        exact wfL_listSet hv (wfT_putSub (wfL_listGet hv hu) hn)

theorem wfL_append : ∀ {xs ys : List Tree}, wfL P xs = true → wfL P ys = true → wfL P (xs ++ ys) = true
  | [], _, _, hy => hy
  | x :: r, ys, hx, hy => by
    simp only [wfL, Bool.and_eq_true] at hx
    simp only [List.cons_append, wfL, Bool.and_eq_true]
    exact ⟨hx.1, wfL_append hx.2 hy⟩

/-- what an index expression evaluates to is part of the (well-formed) tree, or a number -/
theorem wfT_evalEx {kvs : Kvs} (h : wfK P kvs = true) : ∀ (ex : Ex) (v : Tree),
    evalEx kvs ex = .ok v → wfT P v = true
  | .int n, v, hv => by simp only [evalEx, Except.ok.injEq] at hv; subst hv; rfl
  | .name s, v, hv => by
    simp only [evalEx] at hv
    split at hv
    · simp at hv
    · rename_i w hw; simp only [Except.ok.injEq] at hv; subst hv; exact (wfK_lookup h hw).2
  | .sub e i, v, hv => by
    simp only [evalEx] at hv
    split at hv
    · simp at hv
    · rename_i ve hve
      split at hv
      · simp at hv
      · rename_i vi hvi
        have hwe := wfT_evalEx h e ve hve
        unfold subscriptV at hv
        split at hv
        · rename_i xs n
          obtain ⟨xs', j, he, _, hg⟩ := subscript_ok hv
          simp only [Tree.list.injEq] at he
          subst he
          simp only [wfT] at hwe
          exact wfL_listGet hwe hg
        · simp at hv
        · simp at hv
  | .attr e a, v, hv => by
    simp only [evalEx] at hv
    split at hv
    · simp at hv
    · rename_i sub hve
      have hwe := wfT_evalEx h e _ hve
      split at hv
      · simp at hv
      · rename_i w hw
        simp only [Except.ok.injEq] at hv; subst hv
        simp only [wfT] at hwe
        exact (wfK_lookup hwe hw).2
    · simp at hv
  | .neg e, v, hv => by
    simp only [evalEx] at hv
    split at hv
    · simp at hv
    · simp only [Except.ok.injEq] at hv; subst hv; rfl
    · simp at hv
  | .add a b, v, hv => by
    simp only [evalEx] at hv
    split at hv
    · simp at hv
    · rename_i va hva
      split at hv
      · simp at hv
      · rename_i vb hvb
        split at hv
        · simp only [Except.ok.injEq] at hv; subst hv; rfl
        · rename_i xs ys
          have h1 := wfT_evalEx h a _ hva
          have h2 := wfT_evalEx h b _ hvb
          simp only [Except.ok.injEq] at hv; subst hv
          simp only [wfT] at h1 h2 ⊢
          exact wfL_append h1 h2
        · simp at hv
  | .minus a b, v, hv => by
    simp only [evalEx] at hv
    split at hv
    · simp at hv
    · split at hv
      · simp at hv
      · split at hv
        · simp only [Except.ok.injEq] at hv; subst hv; rfl
        · simp at hv

theorem wfT_putPlace : ∀ (p : List PStep) (t new : Tree), wfT P t = true → wfT P new = true →
    wfT P (putPlace t p new) = true
  | [], _, _, _, hn => by simpa [putPlace] using hn
  | .key k :: r, .node kvs, new, ht, hn => by
    simp only [putPlace]
    split
    · rename_i v hv
      simp only [wfT] at ht ⊢
      have := wfK_lookup ht hv
      exact wfK_insertK ht this.1 (wfT_putPlace r v new this.2 hn)
    · exact ht
  | .idx j :: r, .list xs, new, ht, hn => by
    simp only [putPlace]
    split
    · rename_i v hv
      simp only [wfT] at ht ⊢
      exact wfL_listSet ht (wfT_putPlace r v new (wfL_listGet ht hv) hn)
    · exact ht
  | .key _ :: _, .leaf _, _, ht, _ => by simpa [putPlace] using ht
  | .key _ :: _, .list _, _, ht, _ => by simpa [putPlace] using ht
  | .idx _ :: _, .leaf _, _, ht, _ => by simpa [putPlace] using ht
  | .idx _ :: _, .node _, _, ht, _ => by simpa [putPlace] using ht

theorem wfT_segGet {kvs : Kvs} {m : Name} {v : Tree} (h : wfK P kvs = true) (hg : segGet kvs m = .ok v) :
    wfT P v = true := by
  unfold segGet at hg
  split at hg
  · unfold evalSeg at hg
    split at hg
    · split at hg
      · simp at hg
      · exact wfT_evalEx h _ _ hg
    · split at hg
      · simp at hg
      · rename_i w hw
        exact wfT_subscripts (wfK_lookup h hw).2 hg
  · split at hg
    · simp at hg
    · rename_i w hw
      simp only [Except.ok.injEq] at hg; subst hg
      exact (wfK_lookup h hw).2

theorem wfK_replaceK {kvs : Kvs} {k : Name} {v : Tree} (h : wfK P kvs = true) (hv : wfT P v = true) :
    wfK P (replaceK k v kvs) = true := by
  unfold replaceK
  split
  · rename_i hs
    obtain ⟨w, hw⟩ := Option.isSome_iff_exists.mp hs
    exact wfK_insertK h (wfK_lookup h hw).1 hv
  · exact h

theorem wfK_segPut {kvs : Kvs} {m : Name} {new : Tree} (h : wfK P kvs = true)
    (hn : wfT P new = true) : wfK P (segPut kvs m new) = true := by
  unfold segPut
  split
  · split
    · split
      · exact h
      · split
        · exact h
        · rename_i p _
          have := wfT_putPlace p (.node kvs) new (by simpa [wfT] using h) hn
          cases hpp : putPlace (.node kvs) p new with
          | node kvs' => rw [hpp] at this; simpa [kvsOf, wfT] using this
          | leaf _ => simp [kvsOf, wfK]
          | list _ => simp [kvsOf, wfK]
    · split
      · exact h
      · rename_i w hw
        have := wfK_lookup h hw
        exact wfK_insertK h this.1 (wfT_putSub this.2 hn)
  · exact wfK_replaceK h hn


theorem wfK_setIndexed {kvs : Kvs} {name : Name} {i : Int} {tv : Tree} (hw : wfK P kvs = true)
    (hv : wfT P tv = true) : wfK P (setIndexed kvs name i tv).1 = true := by
  unfold setIndexed
  split
  · exact hw
  · rename_i xs hl
    split
    · exact hw
    · have hsub := wfK_lookup hw hl
      refine wfK_insertK hw hsub.1 ?_
      simp only [wfT] at hsub ⊢
      exact wfL_listSet hsub.2 hv
  · exact hw

theorem wfK_setK (cfg : Cfg) (hfix : cfg.fixReserved = true) (kvs : Kvs) (segs : List Name)
    (fin : Option Err) (cv : Except Err Tree) (hw : wfK P kvs = true)
    (hcv : ∀ tv, cv = .ok tv → wfT P tv = true)
    (hP : ∀ m ∈ segs, isReserved cfg m = false → ('[' ∉ m ∨ m.getLast? ≠ some ']') → P m = true) :
    wfK P (setK cfg kvs segs fin cv).1 = true := by
  fun_induction setK cfg kvs segs fin cv
  all_goals try (first | exact hw | skip)
  case case4 kvs m rest fin cv _ hb sub hev sub' e hs ih =>
    have hsg : segGet kvs m = .ok (.node sub) := by simp [segGet, hb, hev]
    have hsub : wfK P sub = true := by simpa [wfT] using wfT_segGet hw hsg
    have := ih hsub hcv (fun x hx => hP x (by simp [hx]))
    rw [hs] at this
    exact wfK_segPut hw (by simpa [wfT] using this)
  case case7 kvs m rest fin cv _ hb hres hl sub' e hs ih =>
    have := ih (by simp [wfK]) hcv (fun x hx => hP x (by simp [hx]))
    rw [hs] at this
    have hr : isReserved cfg m = false := by simpa [hfix] using hres
    exact wfK_insertK hw (hP m (by simp) hr (Or.inl hb)) (by simpa [wfT] using this)
  case case8 kvs m rest fin cv _ hb hres sub hl sub' e hs ih =>
    have hsub := (wfK_lookup hw hl)
    have := ih (by simpa [wfT] using hsub.2) hcv (fun x hx => hP x (by simp [hx]))
    rw [hs] at this
    exact wfK_insertK hw hsub.1 (by simpa [wfT] using this)
  case case13 => exact wfK_setIndexed hw (hcv _ rfl)
  case case18 kvs m rest fin _ v hb i _ xs hl j _ =>
    have hsub := (wfK_lookup hw hl)
    refine wfK_insertK hw hsub.1 ?_
    simp only [wfT] at hsub ⊢
    exact wfL_listSet hsub.2 (hcv v rfl)
  case case21 kvs m rest fin _ v hb hres =>
    have hr : isReserved cfg m = false := by simpa using hres
    refine wfK_insertK hw (hP m (by simp) hr ?_) (hcv v rfl)
    by_cases h : '[' ∈ m
    · right; intro hl; exact hb ⟨h, hl⟩
    · left; exact h

/-- every raw key an assignment along `segs` may create satisfies `P` -/
def KeysOK (P : Name → Bool) (cfg : Cfg) (segs : List Name) : Prop :=
  ∀ m ∈ segs, isReserved cfg m = false → ('[' ∉ m ∨ m.getLast? ≠ some ']') → P m = true

mutual
/-- a value whose stored parts are well-formed and whose plain-dict keys create only `P` keys -/
def valOK (P : Name → Bool) (cfg : Cfg) : PVal → Prop
  | .tree t => wfT P t = true
  | .pdict items => itemsOK P cfg items
def itemsOK (P : Name → Bool) (cfg : Cfg) : List (Name × PVal) → Prop
  | [] => True
  | (k, v) :: r => KeysOK P cfg (chain cfg.fixResolve k).segs ∧ valOK P cfg v ∧ itemsOK P cfg r
end

mutual
theorem conv_wf (cfg : Cfg) (hfix : cfg.fixReserved = true) :
    ∀ (v : PVal) (t : Tree), valOK P cfg v → conv cfg v = .ok t → wfT P t = true
  | .tree t', t, hv, h => by
    simp only [conv, Except.ok.injEq] at h; subst h; exact hv
  | .pdict items, t, hv, h => by
    simp only [conv] at h
    exact convItems_wf cfg hfix items [] t hv (by simp [wfK]) h
theorem convItems_wf (cfg : Cfg) (hfix : cfg.fixReserved = true) :
    ∀ (items : List (Name × PVal)) (acc : Kvs) (t : Tree), itemsOK P cfg items → wfK P acc = true →
      convItems cfg items acc = .ok t → wfT P t = true
  | [], acc, t, _, ha, h => by
    simp only [convItems, Except.ok.injEq] at h; subst h; simpa [wfT] using ha
  | (k, v) :: r, acc, t, hi, ha, h => by
    simp only [itemsOK] at hi
    simp only [convItems] at h
    split at h
    · simp at h
    · rename_i acc' hs
      have hw := wfK_setK (P := P) cfg hfix acc (chain cfg.fixResolve k).segs (chain cfg.fixResolve k).fin
        (conv cfg v) ha (fun tv htv => conv_wf cfg hfix v tv hi.2.1 htv) hi.1
      rw [hs] at hw
      exact convItems_wf cfg hfix r acc' t hi.2.2 hw h
end


theorem wfT_getK : ∀ (segs : List Name) (kvs : Kvs) (fin : Option Err) (v : Tree), wfK P kvs = true →
    getK kvs segs fin = .ok v → wfT P v = true
  | [], kvs, some e, v, _, h => by simp [getK] at h
  | [], kvs, none, v, hw, h => by simp only [getK, Except.ok.injEq] at h; subst h; simpa [wfT] using hw
  | m :: rest, kvs, fin, v, hw, h => by
    rw [getK] at h
    split at h
    · simp at h
    · rename_i target ht
      have hwt := wfT_segGet hw ht
      split at h
      · simp only [Except.ok.injEq] at h; subst h; exact hwt
      · split at h
        · simp at h
        · simp at h
        · exact wfT_getK rest _ fin v (by simpa [wfT] using hwt) h

theorem wfK_delK (cfg : Cfg) (kvs : Kvs) (segs : List Name) (fin : Option Err) (hw : wfK P kvs = true) :
    wfK P (delK cfg kvs segs fin).1 = true := by
  fun_induction delK cfg kvs segs fin
  all_goals try (first | exact hw | skip)
  case case6 => exact wfK_eraseK hw
  case case7 kvs m rest fin _ sub sub' e hs ht ih =>
    have hsub : wfK P sub = true := by
      have := wfT_getK _ _ _ _ hw ht
      simpa [wfT] using this
    have := ih hsub
    rw [hs] at this
    exact wfK_segPut hw (by simpa [wfT] using this)

theorem wfK_popK (kvs : Kvs) (segs : List Name) (fin : Option Err) (hasD : Bool) (hw : wfK P kvs = true) :
    wfK P (popK kvs segs fin hasD).1 = true := by
  fun_induction popK kvs segs fin hasD
  all_goals try (first | exact hw | skip)
  case case3 => exact wfK_eraseK hw
  case case7 kvs m rest fin hasD _ sub hl sub' r hs ih =>
    have hsub := wfK_lookup hw hl
    have := ih (by simpa [wfT] using hsub.2)
    rw [hs] at this
    exact wfK_insertK hw hsub.1 (by simpa [wfT] using this)

/-! #### the API level -/

def wfRoot (P : Name → Bool) (t : Tree) : Prop := ∃ kvs, t = .node kvs ∧ wfK P kvs = true

theorem wfRoot_setT (cfg : Cfg) (hfix : cfg.fixReserved = true) (t : Tree) (k : Name) (v : PVal)
    (ht : wfRoot P t) (hk : KeysOK P cfg (chain cfg.fixResolve k).segs) (hv : valOK P cfg v) :
    wfRoot P (setT cfg t k v).1 := by
  obtain ⟨kvs, rfl, hw⟩ := ht
  refine ⟨_, rfl, ?_⟩
  exact wfK_setK cfg hfix kvs _ _ _ hw (fun tv htv => conv_wf cfg hfix v tv hv htv) hk

theorem wfRoot_delT (cfg : Cfg) (t : Tree) (k : Name) (ht : wfRoot P t) : wfRoot P (delT cfg t k).1 := by
  obtain ⟨kvs, rfl, hw⟩ := ht
  exact ⟨_, rfl, wfK_delK cfg kvs _ _ hw⟩

theorem wfRoot_popT (cfg : Cfg) (t : Tree) (k : Name) (hasD : Bool) (ht : wfRoot P t) :
    wfRoot P (popT cfg t k hasD).1 := by
  obtain ⟨kvs, rfl, hw⟩ := ht
  exact ⟨_, rfl, wfK_popK kvs _ _ _ hw⟩

theorem wfRoot_setdefaultT (cfg : Cfg) (hfix : cfg.fixReserved = true) (t : Tree) (k : Name) (v : PVal)
    (ht : wfRoot P t) (hk : KeysOK P cfg (chain cfg.fixResolve k).segs) (hv : valOK P cfg v) :
    wfRoot P (setdefaultT cfg t k v).1 := by
  unfold setdefaultT
  split
  · exact ht
  · exact ht
  · have := wfRoot_setT cfg hfix t k v ht hk hv
    split
    · rename_i t' e hs; rw [hs] at this; exact this
    · rename_i t' hs; rw [hs] at this; exact this

theorem wfRoot_updateT (cfg : Cfg) (hfix : cfg.fixReserved = true) :
    ∀ (items : List (Name × PVal)) (t : Tree), wfRoot P t → itemsOK P cfg items →
      wfRoot P (updateT cfg t items).1
  | [], t, ht, _ => by simpa [updateT] using ht
  | (k, v) :: r, t, ht, hi => by
    simp only [itemsOK] at hi
    have := wfRoot_setT cfg hfix t k v ht hi.1 hi.2.1
    simp only [updateT]
    split
    · rename_i t' e hs; rw [hs] at this; exact this
    · rename_i t' hs; rw [hs] at this
      exact wfRoot_updateT cfg hfix r t' this hi.2.2

/-- an operation all of whose keys and values may only create `P` keys -/
def OpOK (P : Name → Bool) (cfg : Cfg) : Op → Prop
  | .set k v => KeysOK P cfg (chain cfg.fixResolve k).segs ∧ valOK P cfg v
  | .setdefault k v => KeysOK P cfg (chain cfg.fixResolve k).segs ∧ valOK P cfg v
  | .update items => itemsOK P cfg items
  | _ => True

theorem wfRoot_applyOp (cfg : Cfg) (hfix : cfg.fixReserved = true) (t : Tree) (op : Op)
    (ht : wfRoot P t) (hop : OpOK P cfg op) : wfRoot P (applyOp cfg t op) := by
  cases op with
  | get k => exact ht
  | contains k => exact ht
  | set k v => exact wfRoot_setT cfg hfix t k v ht hop.1 hop.2
  | del k => exact wfRoot_delT cfg t k ht
  | pop k hasD => exact wfRoot_popT cfg t k hasD ht
  | setdefault k v => exact wfRoot_setdefaultT cfg hfix t k v ht hop.1 hop.2
  | update items => exact wfRoot_updateT cfg hfix items t ht hop

theorem wfRoot_run (cfg : Cfg) (hfix : cfg.fixReserved = true) :
    ∀ (ops : List Op) (t : Tree), wfRoot P t → (∀ op ∈ ops, OpOK P cfg op) → wfRoot P (run cfg t ops)
  | [], t, ht, _ => by simpa [run] using ht
  | op :: r, t, ht, h => by
    simp only [run, List.foldl_cons]
    exact wfRoot_run cfg hfix r _ (wfRoot_applyOp cfg hfix t op ht (h op (by simp)))
      (fun o ho => h o (by simp [ho]))

theorem goodSeg_nodot {m : Name} (h : GoodSeg m = true) : '.' ∉ m := by
  intro hd
  simp [GoodSeg, hd] at h

theorem chain_single (fixed : Bool) (m : Name) (h : '.' ∉ m) : chain fixed m = ⟨[m], none⟩ := by
  simp [chain, chainF, step, h]

theorem getTop_good (cfg : Cfg) (kvs : Kvs) (m : Name) (h : '.' ∉ m) :
    getTop cfg kvs m = segGet kvs m := by
  unfold getTop
  rw [chain_single _ _ h]
  simp only [getK]
  cases segGet kvs m <;> simp

/-- **Deleting a non-empty level is refused**: `KeyError`, nothing changes. -/
theorem delK_refuses_nonempty (cfg : Cfg) : ∀ (segs : List Name) (kvs : Kvs) (x : Name × Tree) (sub : Kvs),
    (∀ m ∈ segs, GoodSeg m = true) → segs ≠ [] → getK kvs segs none = .ok (.node (x :: sub)) →
    delK cfg kvs segs none = (kvs, some .key)
  | [], _, _, _, _, hne, _ => absurd rfl hne
  | m :: rest, kvs, x, sub, hgood, _, hget => by
    have hgm := hgood m (by simp)
    rw [getK] at hget
    rw [delK, getTop_good cfg kvs m (goodSeg_nodot hgm)]
    cases hs : segGet kvs m with
    | error e => simp [hs] at hget
    | ok target =>
      simp only [hs] at hget ⊢
      by_cases hrest : rest = []
      · subst hrest
        simp only [and_self, if_true, Except.ok.injEq] at hget ⊢
        subst hget
        rfl
      · simp only [hrest, false_and, if_false] at hget ⊢
        cases target with
        | leaf _ => simp at hget
        | list _ => simp at hget
        | node s =>
          simp only at hget ⊢
          rw [delK_refuses_nonempty cfg rest s x sub (fun y hy => hgood y (by simp [hy])) hrest hget]
          simp only [segPut_same kvs m _ (goodSeg_lit hgm) hs]


/-- **Deleting a leaf (or an empty level) removes it**: afterwards the path is absent. -/
theorem delK_leaf (cfg : Cfg) : ∀ (segs : List Name) (kvs : Kvs) (v : Tree),
    wfK P kvs = true → (∀ m ∈ segs, GoodSeg m = true) → (∀ l, segs.getLast? = some l → '[' ∉ l) →
    segs ≠ [] → getK kvs segs none = .ok v → (∀ x sub, v ≠ .node (x :: sub)) →
    ∃ kvs', delK cfg kvs segs none = (kvs', none) ∧ getK kvs' segs none = .error .key
  | [], _, _, _, _, _, hne, _, _ => absurd rfl hne
  | m :: rest, kvs, v, hw, hgood, hlast, _, hget, hv => by
    have hgm := hgood m (by simp)
    rw [getK] at hget
    rw [delK, getTop_good cfg kvs m (goodSeg_nodot hgm)]
    cases hs : segGet kvs m with
    | error e => simp [hs] at hget
    | ok target =>
      simp only [hs] at hget ⊢
      by_cases hrest : rest = []
      · subst hrest
        simp only [and_self, if_true, Except.ok.injEq] at hget ⊢
        subst hget
        have hb : '[' ∉ m := hlast m (by simp)
        simp only [segGet, hb, if_false] at hs
        cases hl : lookupK m kvs with
        | none => simp [hl] at hs
        | some w =>
          simp only [hl, Except.ok.injEq] at hs
          subst hs
          refine ⟨eraseK m kvs, ?_, ?_⟩
          · cases w with
            | leaf _ => rfl
            | list _ => rfl
            | node s =>
              cases s with
              | nil => rfl
              | cons x sub => exact absurd rfl (hv x sub)
          · rw [getK]
            simp [segGet, hb, lookupK_eraseK_same m kvs (wfK_nodup hw)]
      · simp only [hrest, false_and, if_false] at hget ⊢
        cases target with
        | leaf _ => simp at hget
        | list _ => simp at hget
        | node s =>
          simp only at hget ⊢
          have hws : wfK P s = true := by simpa [wfT] using wfT_segGet hw hs
          have hlast' : ∀ l, rest.getLast? = some l → '[' ∉ l := by
            intro l hl
            apply hlast l
            cases rest with
            | nil => exact absurd rfl hrest
            | cons a r => rw [List.getLast?_cons_cons]; exact hl
          obtain ⟨s', hd, hg⟩ := delK_leaf cfg rest s v hws (fun y hy => hgood y (by simp [hy])) hlast' hrest hget hv
          refine ⟨segPut kvs m (.node s'), by rw [hd], ?_⟩
          rw [getK, segGet_segPut kvs m _ _ (goodSeg_lit hgm) hs]
          simp [hrest, hg]


theorem takeWhile_all {α} (p : α → Bool) : ∀ (l : List α), (∀ x ∈ l, p x = true) → l.takeWhile p = l
  | [], _ => rfl
  | x :: l, h => by
    simp only [List.takeWhile, h x (by simp)]
    rw [takeWhile_all p l (fun y hy => h y (by simp [hy]))]

theorem beforeBracket_plain (m : Name) (h : '[' ∉ m) : beforeBracket m = m := by
  unfold beforeBracket
  apply takeWhile_all
  intro x hx
  have : x ≠ '[' := fun e => h (e ▸ hx)
  simpa using this

theorem parseSeg_name {m n : Name} {is : List Int} (h : parseSeg m = some (n, is)) : n = beforeBracket m := by
  unfold parseSeg at h
  split at h
  · simp only [Option.map_eq_some_iff, Prod.mk.injEq] at h
    obtain ⟨_, _, hn, _⟩ := h
    exact hn.symm
  · simp at h

theorem lookupK_segPut_other (kvs : Kvs) (m k : Name) (new : Tree) (h : k ≠ beforeBracket m)
    (hlit : LitSeg m) : lookupK k (segPut kvs m new) = lookupK k kvs := by
  unfold segPut
  split
  · rename_i hb0
    split
    · rename_i hp0; have := hlit hb0; simp [hp0] at this
    · rename_i name is hp
      have := parseSeg_name hp
      subst this
      split
      · rfl
      · exact lookupK_insertK_other _ _ _ _ h
  · rename_i hb
    rw [beforeBracket_plain m hb] at h
    unfold replaceK
    split
    · exact lookupK_insertK_other _ _ _ _ h
    · rfl

theorem lookupK_setIndexed_other (kvs : Kvs) (name k : Name) (i : Int) (tv : Tree) (h : k ≠ name) :
    lookupK k (setIndexed kvs name i tv).1 = lookupK k kvs := by
  unfold setIndexed
  repeat' (first
    | rfl
    | exact lookupK_insertK_other _ _ _ _ h
    | split)

/-- an assignment through `m` touches only the entry `m` is based on -/
theorem lookupK_setK_other (cfg : Cfg) (kvs : Kvs) (m : Name) (ps : List Name) (fin : Option Err)
    (cv : Except Err Tree) (k : Name) (h : k ≠ beforeBracket m)
    (hm : '[' ∈ m → m.getLast? = some ']') (hlit : LitSeg m) :
    lookupK k (setK cfg kvs (m :: ps) fin cv).1 = lookupK k kvs := by
  have h2 : '[' ∉ m → k ≠ m := fun hb => by rw [beforeBracket_plain m hb] at h; exact h
  unfold setK
  repeat' (first
    | rfl
    | exact lookupK_segPut_other _ _ _ _ h hlit
    | exact lookupK_setIndexed_other _ _ _ _ _ h
    | exact lookupK_insertK_other _ _ _ _ h
    | exact lookupK_insertK_other _ _ _ _ (h2 ‹_›)
    | exact lookupK_insertK_other _ _ _ _ (h2 (fun h1 => ‹¬ ('[' ∈ m ∧ m.getLast? = some ']')› ⟨h1, hm h1⟩))
    | split)

theorem segGet_congr (kvs kvs' : Kvs) (m : Name) (hlit : LitSeg m)
    (h : lookupK (beforeBracket m) kvs' = lookupK (beforeBracket m) kvs) : segGet kvs' m = segGet kvs m := by
  unfold segGet
  split
  · rename_i hb0
    unfold evalSeg
    split
    · rename_i hp0; have := hlit hb0; simp [hp0] at this
    · rename_i name is hp
      rw [parseSeg_name hp, h]
  · rename_i hb
    rw [beforeBracket_plain m hb] at h
    rw [h]

theorem getK_congr_head (kvs kvs' : Kvs) (m : Name) (rest : List Name) (fin : Option Err)
    (h : segGet kvs' m = segGet kvs m) : getK kvs' (m :: rest) fin = getK kvs (m :: rest) fin := by
  rw [getK, getK, h]

theorem restTruthy_of_good (ps : List Name) (fin : Option Err) (hne : ps ≠ [])
    (hg : ∀ m ∈ ps, GoodSeg m = true) : restTruthy ps fin = true := by
  unfold restTruthy
  cases ps with
  | nil => exact absurd rfl hne
  | cons a r =>
    have := goodSeg_ne (hg a (by simp))
    simp [this]

/-- the first level of an assignment that has to descend: nothing happens, or the sub-level `m`
denotes is replaced by its updated version, or a new level `m` is created -/
theorem setK_descend (cfg : Cfg) (kvs : Kvs) (m : Name) (ps : List Name) (fin : Option Err)
    (cv : Except Err Tree) (hr : restTruthy ps fin = true) :
    (setK cfg kvs (m :: ps) fin cv).1 = kvs ∨
    (∃ sub, segGet kvs m = .ok (.node sub) ∧
      (setK cfg kvs (m :: ps) fin cv).1 = segPut kvs m (.node (setK cfg sub ps fin cv).1)) ∨
    ('[' ∉ m ∧ lookupK m kvs = none ∧
      (setK cfg kvs (m :: ps) fin cv).1 = insertK m (.node (setK cfg [] ps fin cv).1) kvs) := by
  rw [setK.eq_def]
  simp only [hr, if_true]
  by_cases hb : '[' ∈ m
  · simp only [hb, if_true]
    cases he : evalSeg kvs m with
    | error e => left; rfl
    | ok t =>
      cases t with
      | leaf _ => left; rfl
      | list _ => left; rfl
      | node sub =>
        right; left
        refine ⟨sub, by simp [segGet, hb, he], ?_⟩
        simp only
  · simp only [hb, if_false]
    split
    · left; rfl
    · cases hl : lookupK m kvs with
      | none => right; right; exact ⟨by simp, rfl, by simp only⟩
      | some t =>
        cases t with
        | leaf _ => left; rfl
        | list _ => left; rfl
        | node sub =>
          right; left
          refine ⟨sub, by simp [segGet, hb, hl], ?_⟩
          simp only [segPut, hb, if_false, replaceK, hl, Option.isSome_some, if_true]

/-- two paths that part ways at an entry of some level -/
inductive Indep : List Name → List Name → Prop
  | head {m m' : Name} {ps qs : List Name} : beforeBracket m ≠ beforeBracket m' → Indep (m :: ps) (m' :: qs)
  | tail {m : Name} {ps qs : List Name} : Indep ps qs → Indep (m :: ps) (m :: qs)

theorem Indep.ne_nil {p q : List Name} (h : Indep p q) : p ≠ [] ∧ q ≠ [] := by
  cases h <;> simp

theorem getK_nil_not_ok (q : List Name) (hq : q ≠ []) (hlit : ∀ m ∈ q, LitSeg m) (v : Tree) :
    getK [] q none ≠ .ok v := by
  cases q with
  | nil => exact absurd rfl hq
  | cons a r =>
    rw [getK]
    have : ∀ m, LitSeg m → ∃ e, segGet [] m = .error e := by
      intro m hl
      unfold segGet
      split
      · rename_i hb0
        unfold evalSeg
        split
        · rename_i hp0; have := hl hb0; simp [hp0] at this
        · exact ⟨_, rfl⟩
      · exact ⟨_, rfl⟩
    obtain ⟨e, he⟩ := this a (hlit a (by simp))
    simp [he]

/-- **An assignment does not disturb an independent path**: whatever the assignment at `p` does
(including failing half-way), looking up `q` gives the same answer as before. -/
theorem getK_setK_indep (cfg : Cfg) {p q : List Name} (h : Indep p q) :
    ∀ (kvs : Kvs) (fin : Option Err) (cv : Except Err Tree) (v : Tree),
    (∀ m ∈ p, GoodSeg m = true) → (∀ m ∈ q, GoodSeg m = true) →
    (getK (setK cfg kvs p fin cv).1 q none = .ok v ↔ getK kvs q none = .ok v) := by
  induction h with
  | @head m m' ps qs hne =>
    intro kvs fin cv v hp hq
    have hgm := hp m (by simp)
    have hm : '[' ∈ m → m.getLast? = some ']' := by
      intro hb
      have : ¬'.' ∈ m ∧ ((parseSeg m).isSome = true ∧ m.getLast? = some ']') ∧
          (match parseFinalIdx (finalIdxText m) with | .oom => false | _ => true) = true := by
        simpa [GoodSeg, hb, goodSeg_ne hgm] using hgm
      exact this.2.1.2
    rw [getK_congr_head _ _ _ _ _ (segGet_congr _ _ _ (goodSeg_lit (hq m' (by simp)))
      (lookupK_setK_other cfg kvs m ps fin cv _ (fun e => hne e.symm) hm (goodSeg_lit hgm)))]
  | @tail m ps qs hi ih =>
    intro kvs fin cv v hp hqg
    have hqs : ∀ x ∈ qs, GoodSeg x = true := fun x hx => hqg x (by simp [hx])
    have hps : ∀ x ∈ ps, GoodSeg x = true := fun x hx => hp x (by simp [hx])
    have hr := restTruthy_of_good ps fin hi.ne_nil.1 hps
    have hq : qs ≠ [] := hi.ne_nil.2
    rcases setK_descend cfg kvs m ps fin cv hr with h0 | ⟨sub, hs, h1⟩ | ⟨hb, hl, h2⟩
    · rw [h0]
    · rw [h1, getK, getK, segGet_segPut kvs m _ _ (goodSeg_lit (hp m (by simp))) hs, hs]
      simp only [hq, false_and, if_false]
      exact ih sub fin cv v hps hqs
    · rw [h2, getK, getK]
      simp only [segGet, hb, if_false, lookupK_insertK_same, hl, hq, false_and]
      constructor
      · intro hg
        exact absurd ((ih [] fin cv v hps hqs).mp hg)
          (getK_nil_not_ok qs hi.ne_nil.2 (fun x hx => goodSeg_lit (hqs x hx)) v)
      · intro hg; simp at hg


theorem insertK_absent (k : Name) (v : Tree) (kvs : Kvs) (h : lookupK k kvs = none) :
    insertK k v kvs = kvs ++ [(k, v)] := by
  induction kvs with
  | nil => rfl
  | cons hd tl ih =>
    obtain ⟨k', v'⟩ := hd
    by_cases hk : k = k'
    · subst hk; simp [lookupK] at h
    · simp only [lookupK, hk, if_false] at h
      simp [insertK, hk, ih h]

/-- a raw key that the constructor re-inserts unchanged: no dot, no bracket, not reserved -/
def CopyKey (cfg : Cfg) (k : Name) : Bool :=
  !(decide ('.' ∈ k)) && !(decide ('[' ∈ k)) && !(isReserved cfg k)

theorem setK_single (cfg : Cfg) (acc : Kvs) (k : Name) (v : Tree) (hk : CopyKey cfg k = true) :
    setK cfg acc [k] none (.ok v) = (insertK k v acc, none) := by
  have h : '.' ∉ k ∧ '[' ∉ k ∧ isReserved cfg k = false := by
    simpa [CopyKey, and_assoc] using hk
  rw [setK]
  simp [restTruthy, h.2.1, h.2.2]

theorem buildK_ok (cfg : Cfg) : ∀ (kvs acc : Kvs), (∀ p ∈ kvs, CopyKey cfg p.1 = true) →
    (keysK (acc ++ kvs)).Nodup → buildK cfg kvs acc = .ok (.node (acc ++ kvs))
  | [], acc, _, _ => by simp [buildK]
  | (k, v) :: r, acc, hk, hn => by
    have hkk := hk (k, v) (by simp)
    have hdot : '.' ∉ k := by
      have : '.' ∉ k ∧ '[' ∉ k ∧ isReserved cfg k = false := by simpa [CopyKey, and_assoc] using hkk
      exact this.1
    have habs : lookupK k acc = none := by
      rw [lookupK_none_iff]
      intro hmem
      simp only [keysK, List.map_append, List.map_cons] at hn hmem
      have := (List.nodup_append.mp hn).2.2 k hmem k (by simp)
      exact this rfl
    simp only [buildK, chain_single _ _ hdot, setK_single cfg acc k v hkk, insertK_absent _ _ _ habs]
    rw [buildK_ok cfg r (acc ++ [(k, v)]) (fun p hp => hk p (by simp [hp])) (by simpa using hn)]
    simp

mutual
theorem copyT_ok (cfg : Cfg) : ∀ (t : Tree), wfT (CopyKey cfg) t = true → copyT cfg t = .ok t
  | .leaf _, _ => rfl
  | .node kvs, h => by
    simp only [wfT] at h
    simp only [copyT, copyVals_ok cfg kvs h]
    have hk : ∀ p ∈ kvs, CopyKey cfg p.1 = true := by
      intro p hp
      have : ∀ (l : Kvs), wfK (CopyKey cfg) l = true → ∀ p ∈ l, CopyKey cfg p.1 = true := by
        intro l
        induction l with
        | nil => simp
        | cons hd tl ih =>
          intro hw q hq
          obtain ⟨k', v'⟩ := hd
          obtain ⟨h1, _, _, h4⟩ := wfK_cons.mp hw
          simp only [List.mem_cons] at hq
          rcases hq with rfl | hq
          · exact h1
          · exact ih h4 q hq
      exact this kvs h p hp
    simpa using buildK_ok cfg kvs [] hk (by simpa using wfK_nodup h)
  | .list xs, h => by
    simp only [wfT] at h
    simp only [copyT, copyList_ok cfg xs h]
    rfl
theorem copyVals_ok (cfg : Cfg) : ∀ (kvs : Kvs), wfK (CopyKey cfg) kvs = true → copyVals cfg kvs = .ok kvs
  | [], _ => rfl
  | (k, v) :: r, h => by
    obtain ⟨_, _, h3, h4⟩ := wfK_cons.mp h
    simp [copyVals, copyT_ok cfg v h3, copyVals_ok cfg r h4]
theorem copyList_ok (cfg : Cfg) : ∀ (xs : List Tree), wfL (CopyKey cfg) xs = true → copyList cfg xs = .ok xs
  | [], _ => rfl
  | x :: r, h => by
    simp only [wfL, Bool.and_eq_true] at h
    simp [copyList, copyT_ok cfg x h.1, copyList_ok cfg r h.2]
end

/-! ### plain dicts -/

theorem convItems_node (cfg : Cfg) : ∀ (items : List (Name × PVal)) (acc : Kvs) (t : Tree),
    convItems cfg items acc = .ok t → ∃ kvs, t = .node kvs
  | [], acc, t, h => by simp only [convItems, Except.ok.injEq] at h; exact ⟨acc, h.symm⟩
  | (k, v) :: r, acc, t, h => by
    simp only [convItems] at h
    split at h
    · simp at h
    · exact convItems_node cfg r _ t h

/-- a plain dict is converted into a level -/
theorem conv_pdict_node (cfg : Cfg) (items : List (Name × PVal)) (t : Tree)
    (h : conv cfg (.pdict items) = .ok t) : ∃ kvs, t = .node kvs := by
  simp only [conv] at h
  exact convItems_node cfg items [] t h

theorem restTruthy_ne (rest : List Name) (fin : Option Err) (h : restTruthy rest fin = true) :
    rest ≠ [] ∨ fin ≠ none := by
  unfold restTruthy at h
  by_cases h1 : rest = []
  · subst h1
    right
    intro hf; subst hf; simp at h
  · exact Or.inl h1

/-- an assignment that reports success had a value to store -/
theorem setK_ok_cv (cfg : Cfg) (kvs : Kvs) (segs : List Name) (fin : Option Err) (cv : Except Err Tree)
    (kvs' : Kvs) (hne : segs ≠ [] ∨ fin ≠ none) (h : setK cfg kvs segs fin cv = (kvs', none)) :
    ∃ tv, cv = .ok tv := by
  fun_induction setK cfg kvs segs fin cv generalizing kvs'
  all_goals try (simp at h; done)
  case case2 => simp at hne
  case case4 kvs m rest fin cv hr _ sub _ sub' e hs ih =>
    simp only [Prod.mk.injEq] at h
    rw [h.2] at hs
    exact ih sub' (restTruthy_ne _ _ hr) hs
  case case7 kvs m rest fin cv hr _ _ _ sub' e hs ih =>
    simp only [Prod.mk.injEq] at h
    rw [h.2] at hs
    exact ih sub' (restTruthy_ne _ _ hr) hs
  case case8 kvs m rest fin cv hr _ _ sub _ sub' e hs ih =>
    simp only [Prod.mk.injEq] at h
    rw [h.2] at hs
    exact ih sub' (restTruthy_ne _ _ hr) hs
  case case13 => exact ⟨_, rfl⟩
  case case18 => exact ⟨_, rfl⟩
  case case21 => exact ⟨_, rfl⟩

/-- the items of a plain dict are assigned in order; the last one is what the final `__setitem__` did -/
theorem convItems_snoc (cfg : Cfg) : ∀ (its : List (Name × PVal)) (k : Name) (v : PVal) (acc : Kvs) (t : Tree),
    convItems cfg (its ++ [(k, v)]) acc = .ok t →
    ∃ acc' sub, setK cfg acc' (chain cfg.fixResolve k).segs (chain cfg.fixResolve k).fin (conv cfg v) = (sub, none)
      ∧ t = .node sub
  | [], k, v, acc, t, h => by
    simp only [List.nil_append, convItems] at h
    split at h
    · simp at h
    · rename_i sub hs
      simp only [Except.ok.injEq] at h
      exact ⟨acc, sub, hs, h.symm⟩
  | (k0, v0) :: r, k, v, acc, t, h => by
    simp only [List.cons_append, convItems] at h
    split at h
    · simp at h
    · exact convItems_snoc cfg r k v _ t h

/-! ### pop with a default -/

/-- every level down to the last component exists, and the last component is not an entry of its level -/
def AbsentLast : Kvs → List Name → Prop
  | _, [] => False
  | kvs, [m] => lookupK m kvs = none
  | kvs, m :: c :: r => ∃ sub, lookupK m kvs = some (.node sub) ∧ AbsentLast sub (c :: r)

/-- **`pop( path, default )` of an absent entry of an existing level returns the default and changes
nothing, at any depth** (`.ok none` is "the default was returned"). -/
theorem popK_default_absent : ∀ (segs : List Name) (kvs : Kvs), AbsentLast kvs segs →
    popK kvs segs none true = (kvs, .ok none)
  | [], _, h => absurd h (by simp [AbsentLast])
  | [m], kvs, h => by
    simp only [AbsentLast] at h
    simp [popK, h]
  | m :: c :: r, kvs, h => by
    obtain ⟨sub, hl, hs⟩ := h
    have ih := popK_default_absent (c :: r) sub hs
    rw [popK]
    simp only [reduceCtorEq, false_and, if_false, hl, ih, insertK_same_val m _ kvs hl]

end Cpppo.Dotdict
