import Cpppo.Proofs.Forwards
import Cpppo.Model.Concurrent

/-! the Forward Open table as the shared memory of the thread machine of `Model/Concurrent.lean` -/
namespace Cpppo.Forwards
open Cpppo.Concurrent

/-- in any sequential order of whole requests in which every request carries only operations of its own
session's peer (distinct sessions = distinct peers), the replies session `s` gets are those of its own
requests run alone on its own part of the table -/
theorem proj_runSeq_restrict (peerOf : Sid → Peer) (hinj : ∀ a b, peerOf a = peerOf b → a = b) (s : Sid)
    (ord : List (Sid × List Op)) (t : Table)
    (H : ∀ e ∈ ord, ∀ op ∈ e.2, op.peer = peerOf e.1) :
    proj s (runSeq run t ord).2 = seqReplies (restrict (peerOf s) t) (proj s ord) := by
  induction ord generalizing t with
  | nil => rfl
  | cons e rest ih =>
    obtain ⟨s', w⟩ := e
    have Hw : ∀ op ∈ w, op.peer = peerOf s' := H (s', w) List.mem_cons_self
    have Hr : ∀ e ∈ rest, ∀ op ∈ e.2, op.peer = peerOf e.1 := fun e he => H e (List.mem_cons_of_mem _ he)
    by_cases hs : s' = s
    · subst hs
      simp only [runSeq, proj, List.filterMap_cons, if_true]
      have := ih (run t w).1 Hr
      simp only [proj] at this
      rw [this, seqReplies, run_restrict_own (peerOf s') w t Hw]
    · have hne : ∀ op ∈ w, op.peer ≠ peerOf s := by
        intro op hop e
        exact hs (hinj _ _ ((Hw op hop).symm.trans e))
      simp only [runSeq, proj, List.filterMap_cons, hs, if_false]
      have := ih (run t w).1 Hr
      simp only [proj] at this
      rw [this, run_restrict_other (peerOf s) w t hne]

theorem mem_proj_of_mem {β : Type} (e : Sid × β) (l : List (Sid × β)) (h : e ∈ l) : e.2 ∈ proj e.1 l := by
  unfold proj
  rw [List.mem_filterMap]
  exact ⟨e, h, by simp⟩

end Cpppo.Forwards
