import Cpppo.Proofs.Rx
import Cpppo.Proofs.Regex

/-!
Soundness of the bisimulation check `isBisim` (C11): a list of pairs (fsm state, expression) that
contains `(init, r)`, agrees on acceptance and is closed under every named symbol and one unnamed
symbol (successor = fsm step × simplified derivative) witnesses that the fsm accepts exactly `r`.
-/
set_option linter.dupNamespace false
namespace Cpppo.Rx
open Language Computability
namespace Rx

/-! ### the simplifier preserves the language -/

theorem inSpine_le (a : Rx) : ∀ t, inSpine a t = true → lang a ≤ lang t := by
  intro t
  induction t with
  | alt x y _ ihy =>
    intro h
    simp only [inSpine, Bool.or_eq_true, beq_iff_eq] at h
    rcases h with rfl | h
    · exact le_sup_left
    · exact le_trans (ihy h) le_sup_right
  | none | eps | lit _ | cls _ _ | dot | cat _ _ | star _ =>
    intro h; simp only [inSpine, beq_iff_eq] at h; rw [h]

theorem lang_alt (r s : Rx) : lang (alt r s) = lang r + lang s := rfl
theorem lang_cat (r s : Rx) : lang (cat r s) = lang r * lang s := rfl
theorem lang_star (r : Rx) : lang (star r) = KStar.kstar (lang r) := rfl
theorem lang_none : lang none = 0 := rfl
theorem lang_eps : lang eps = 1 := rfl

theorem add_of_inSpine (a t : Rx) (h : inSpine a t = true) : lang a + lang t = lang t :=
  sup_eq_right.mpr (inSpine_le a t h)

theorem lang_mkAlt (r s : Rx) : lang (mkAlt r s) = lang r + lang s := by
  fun_induction mkAlt r s with
  | case1 s => simp [lang_none]
  | case2 a b s t ht ih =>
    rw [lang_alt, add_assoc, ← ih]; exact (add_of_inSpine a t ht).symm
  | case3 a b s t ht ih => rw [lang_alt, lang_alt, add_assoc, ← ih]
  | case4 r s _ _ hs =>
    have : s = none := by simpa using hs
    subst this; simp [lang_none]
  | case5 r s _ _ _ hin => exact (add_of_inSpine r s hin).symm
  | case6 r s _ _ _ _ => rfl

theorem lang_mkCat (r s : Rx) : lang (mkCat r s) = lang r * lang s := by
  fun_induction mkCat r s with
  | case1 a b s hs =>
    have : s = none := by simpa using hs
    subst this; simp [lang_none]
  | case2 a b s _ ih => rw [lang_cat, lang_cat, ih, mul_assoc]
  | case3 r s _ h =>
    simp only [Bool.or_eq_true, beq_iff_eq] at h
    rcases h with rfl | rfl <;> simp [lang_none]
  | case4 r s _ _ h =>
    have : r = eps := by simpa using h
    subst this; simp [lang_eps]
  | case5 r s _ _ _ h =>
    have : s = eps := by simpa using h
    subst this; simp [lang_eps]
  | case6 r s _ _ _ _ => rfl

theorem lang_mkStar (r : Rx) : lang (mkStar r) = KStar.kstar (lang r) := by
  unfold mkStar
  split
  · rename_i h
    simp only [Bool.or_eq_true, beq_iff_eq] at h
    rcases h with rfl | rfl
    · simp [lang_none, lang_eps]
    · simp [lang_eps]
  · rfl

theorem lang_simp (e : Rx) : lang (simp e) = lang e := by
  induction e with
  | alt r s ihr ihs => simp only [simp, lang_mkAlt, ihr, ihs, lang_alt]
  | cat r s ihr ihs => simp only [simp, lang_mkCat, ihr, ihs, lang_cat]
  | star r ih => simp only [simp, lang_mkStar, ih, lang_star]
  | none | eps | lit _ | cls _ _ | dot => rfl

theorem lang_nderiv (c : Sym) (e : Rx) : lang (nderiv c e) = lang (deriv c e) := lang_simp _

/-- expressions with the same language are matched alike after any input -/
theorem nullable_derivs_congr {e e' : Rx} (h : lang e = lang e') (w : List Sym) :
    nullable (derivs e w) = nullable (derivs e' w) := by
  have h1 := rmatch_iff e w
  have h2 := rmatch_iff e' w
  unfold rmatch at h1 h2
  rw [h] at h1
  cases ha : nullable (derivs e w) <;> cases hb : nullable (derivs e' w) <;> simp_all

/-- two symbols that an expression does not name have the same derivative -/
theorem deriv_unnamed (c c' : Sym) : ∀ e : Rx, c ∉ syms e → c' ∉ syms e → deriv c e = deriv c' e := by
  intro e
  induction e with
  | none | eps | dot => intros; rfl
  | lit a =>
    intro h h'
    simp only [syms, List.mem_singleton] at h h'
    have h1 : a ≠ c := fun x => h x.symm
    have h2 : a ≠ c' := fun x => h' x.symm
    simp [deriv, h1, h2]
  | cls neg cs =>
    intro h h'
    simp only [syms] at h h'
    simp [deriv, clsMatch, h, h']
  | alt r s ihr ihs =>
    intro h h'
    simp only [syms, List.mem_append, not_or] at h h'
    simp only [deriv, ihr h.1 h'.1, ihs h.2 h'.2]
  | cat r s ihr ihs =>
    intro h h'
    simp only [syms, List.mem_append, not_or] at h h'
    simp only [deriv, ihr h.1 h'.1, ihs h.2 h'.2]
  | star r ih =>
    intro h h'
    simp only [syms] at h h'
    simp only [deriv, ih h h']

end Rx
end Cpppo.Rx

namespace Cpppo.Regex
open Cpppo.Rx

theorem le_foldl_max (l : List Nat) : ∀ (m x : Nat), (x ≤ m ∨ x ∈ l) → x ≤ l.foldl max m := by
  induction l with
  | nil => intro m x h; rcases h with h | h; exact h; simp at h
  | cons y l ih =>
    intro m x h
    simp only [List.foldl_cons]
    apply ih
    rcases h with h | h
    · left; omega
    · simp only [List.mem_cons] at h
      rcases h with rfl | h
      · left; omega
      · right; exact h

theorem le_maxOf (l : List Nat) (x : Nat) (h : x ∈ l) : x ≤ maxOf l := le_foldl_max l 0 x (Or.inr h)

/-- a symbol the fsm does not name takes the anything-else entry -/
theorem Fsm.step_unnamed (F : Fsm) (q : Nat) (c : Sym) (h : c ∉ fsmSyms F) :
    F.step q c = ((F.tab q).lookup none).getD q := by
  have : (F.tab q).lookup (some c) = none := by
    apply lookup_none_of_not_key
    intro e he heq
    apply h
    rcases F.tab_mem_or_nil q with hm | hnil
    · exact List.mem_flatMap.mpr ⟨_, hm, List.mem_filterMap.mpr ⟨e, he, heq⟩⟩
    · rw [hnil] at he; simp at he
  simp [Fsm.step, this]

theorem mem_syms_of_pair (F : Fsm) (R : List (Nat × Rx)) (p : Nat × Rx) (hp : p ∈ R) (c : Sym)
    (hc : c ∈ p.2.syms) : c ∈ sigOf F R := by
  simp only [sigOf, List.mem_cons, List.mem_append, List.mem_flatMap]
  right; right; exact ⟨p, hp, hc⟩

/-- every symbol behaves, on every pair of `R`, like some symbol of `sigOf F R` -/
theorem exists_rep (F : Fsm) (R : List (Nat × Rx)) (c : Sym) :
    ∃ c' ∈ sigOf F R, ∀ p ∈ R, F.step p.1 c = F.step p.1 c' ∧ Rx.deriv c p.2 = Rx.deriv c' p.2 := by
  by_cases hc : c ∈ sigOf F R
  · exact ⟨c, hc, fun _ _ => ⟨rfl, rfl⟩⟩
  · -- `c` is named nowhere; neither is the extra symbol
    let named := fsmSyms F ++ R.flatMap fun p => p.2.syms
    have hsig : sigOf F R = (maxOf named + 1) :: named := rfl
    have hfresh : ∀ x ∈ named, x ≠ maxOf named + 1 := by
      intro x hx h
      have := le_maxOf named x hx
      rw [h] at this
      exact Nat.not_succ_le_self _ this
    refine ⟨maxOf named + 1, by rw [hsig]; simp, fun p hp => ⟨?_, ?_⟩⟩
    · have h1 : c ∉ fsmSyms F := fun h => hc (by rw [hsig]; simp [named, h])
      have h2 : maxOf named + 1 ∉ fsmSyms F := fun h => hfresh _ (by simp [named, h]) rfl
      rw [F.step_unnamed _ _ h1, F.step_unnamed _ _ h2]
    · apply Rx.deriv_unnamed
      · exact fun h => hc (mem_syms_of_pair F R p hp c h)
      · intro h
        exact hfresh _ (by simp only [named, List.mem_append, List.mem_flatMap]; exact Or.inr ⟨p, hp, h⟩) rfl

/-- **soundness of the certificate check**: the fsm accepts exactly the sentences of `r` -/
theorem isBisim_sound (F : Fsm) (r : Rx) (R : List (Nat × Rx)) (h : isBisim F r R = true) :
    ∀ w, F.accepts w = r.rmatch w := by
  simp only [isBisim, Bool.and_eq_true, List.contains_iff_mem, List.all_eq_true, beq_iff_eq] at h
  obtain ⟨hinit, hall⟩ := h
  have key : ∀ (w : List Sym) (p : Nat × Rx), p ∈ R →
      F.final (F.run p.1 w) = Rx.nullable (Rx.derivs p.2 w) := by
    intro w
    induction w with
    | nil => intro p hp; exact (hall p hp).1
    | cons c w ih =>
      intro p hp
      obtain ⟨c', hc', hrep⟩ := exists_rep F R c
      obtain ⟨h1, h2⟩ := hrep p hp
      have hnext := (hall p hp).2 c' hc'
      have := ih _ hnext
      simp only at this
      rw [F.run_cons, h1, this]
      have hd : Rx.derivs p.2 (c :: w) = Rx.derivs (Rx.deriv c p.2) w := rfl
      rw [hd, h2]
      exact Rx.nullable_derivs_congr (Rx.lang_nderiv c' p.2) w
  intro w
  exact key w (F.init, r) hinit

end Cpppo.Regex
