import Cpppo.Model.History

/-!
`misc.natural` as a sort key: lexicographic comparison of tuples of strings is a strict total order on
keys, hence "not greater" is a total preorder on names and the insertion sort of the model returns a
sorted permutation (property C18: the order in which `reader.open` visits the files).
-/
namespace Cpppo.History

/-- a strict total order given as a Boolean `<` -/
structure StrictTotal {α : Type} (lt : α → α → Bool) : Prop where
  irrefl : ∀ a, lt a a = false
  trans : ∀ a b c, lt a b = true → lt b c = true → lt a c = true
  tri : ∀ a b, lt a b = false → lt b a = false → a = b

theorem StrictTotal.asymm {α : Type} {lt : α → α → Bool} (h : StrictTotal lt) {a b : α}
    (hab : lt a b = true) : lt b a = false := by
  cases hba : lt b a with
  | false => rfl
  | true => have := h.trans a b a hab hba; rw [h.irrefl] at this; exact (Bool.false_ne_true this).elim

theorem natLt_strictTotal : StrictTotal (fun a b : Nat => decide (a < b)) :=
  ⟨fun a => by simp, fun a b c h1 h2 => by simp at *; omega, fun a b h1 h2 => by simp at *; omega⟩

theorem lexLt_cons {α : Type} (lt : α → α → Bool) (x y : α) (xs ys : List α) :
    lexLt lt (x :: xs) (y :: ys) = (lt x y || (!lt y x && lexLt lt xs ys)) := rfl

theorem lexLt_strictTotal {α : Type} {lt : α → α → Bool} (h : StrictTotal lt) : StrictTotal (lexLt lt) := by
  refine ⟨?_, ?_, ?_⟩
  · intro a
    induction a with
    | nil => rfl
    | cons x xs ih => simp [lexLt_cons, h.irrefl, ih]
  · intro a
    induction a with
    | nil =>
      intro b c h1 h2
      cases b with
      | nil => simp [lexLt] at h1
      | cons y ys =>
        cases c with
        | nil => simp [lexLt] at h2
        | cons z zs => rfl
    | cons x xs ih =>
      intro b c h1 h2
      cases b with
      | nil => simp [lexLt] at h1
      | cons y ys =>
        cases c with
        | nil => simp [lexLt] at h2
        | cons z zs =>
          rw [lexLt_cons] at h1 h2 ⊢
          simp only [Bool.or_eq_true, Bool.and_eq_true, Bool.not_eq_true'] at h1 h2 ⊢
          -- compare x with y and y with z
          have hxy : lt x y = true ∨ x = y := by
            rcases h1 with h' | ⟨h', _⟩
            · exact Or.inl h'
            · cases hx : lt x y with
              | true => exact Or.inl rfl
              | false => exact Or.inr (h.tri x y hx h')
          have hyz : lt y z = true ∨ y = z := by
            rcases h2 with h' | ⟨h', _⟩
            · exact Or.inl h'
            · cases hy : lt y z with
              | true => exact Or.inl rfl
              | false => exact Or.inr (h.tri y z hy h')
          rcases hxy with hxy | rfl
          · rcases hyz with hyz | rfl
            · exact Or.inl (h.trans x y z hxy hyz)
            · exact Or.inl hxy
          · rcases hyz with hyz | rfl
            · exact Or.inl hyz
            · right
              refine ⟨h.irrefl x, ?_⟩
              have t1 : lexLt lt xs ys = true := by
                rcases h1 with h' | ⟨_, h'⟩
                · rw [h.irrefl] at h'; exact (Bool.false_ne_true h').elim
                · exact h'
              have t2 : lexLt lt ys zs = true := by
                rcases h2 with h' | ⟨_, h'⟩
                · rw [h.irrefl] at h'; exact (Bool.false_ne_true h').elim
                · exact h'
              exact ih ys zs t1 t2
  · intro a
    induction a with
    | nil =>
      intro b h1 _
      cases b with
      | nil => rfl
      | cons y ys => simp [lexLt] at h1
    | cons x xs ih =>
      intro b h1 h2
      cases b with
      | nil => simp [lexLt] at h2
      | cons y ys =>
        rw [lexLt_cons] at h1 h2
        simp only [Bool.or_eq_false_iff, Bool.and_eq_false_iff, Bool.not_eq_false'] at h1 h2
        have hxy : x = y := h.tri x y h1.1 h2.1
        subst hxy
        have t1 : lexLt lt xs ys = false := by
          rcases h1.2 with h' | h'
          · rw [h.irrefl] at h'; exact (Bool.noConfusion h')
          · exact h'
        have t2 : lexLt lt ys xs = false := by
          rcases h2.2 with h' | h'
          · rw [h.irrefl] at h'; exact (Bool.noConfusion h')
          · exact h'
        rw [ih ys t1 t2]

theorem strLt_strictTotal : StrictTotal strLt := lexLt_strictTotal natLt_strictTotal
theorem keyLt_strictTotal : StrictTotal keyLt := lexLt_strictTotal strLt_strictTotal

/-- `a` does not sort after `b` -/
def naturalLe (a b : List Nat) : Bool := !naturalLt b a

/-! ### insertion sort with a key order -/

theorem insertBy_perm {α : Type} (lt : α → α → Bool) (x : α) (l : List α) :
    (insertBy lt x l).Perm (x :: l) := by
  induction l with
  | nil => exact List.Perm.refl _
  | cons y ys ih =>
    simp only [insertBy]
    split
    · exact ((List.Perm.cons y ih).trans (List.Perm.swap x y ys))
    · exact List.Perm.refl _

theorem sortByLt_perm {α : Type} (lt : α → α → Bool) (l : List α) : (sortByLt lt l).Perm l := by
  induction l with
  | nil => exact List.Perm.refl _
  | cons x xs ih => exact (insertBy_perm lt x _).trans (List.Perm.cons x ih)

/-- `le` derived from a key order: total and transitive -/
structure TotalPre {α : Type} (le : α → α → Bool) : Prop where
  total : ∀ a b, le a b = true ∨ le b a = true
  trans : ∀ a b c, le a b = true → le b c = true → le a c = true

theorem insertBy_sorted {α : Type} (lt : α → α → Bool) (hp : TotalPre (fun a b => !lt b a)) (x : α)
    (l : List α) (hl : l.Pairwise (fun a b => lt b a = false)) :
    (insertBy lt x l).Pairwise (fun a b => lt b a = false) := by
  induction l with
  | nil => simp [insertBy]
  | cons y ys ih =>
    simp only [insertBy]
    have hy := List.pairwise_cons.mp hl
    split
    · rename_i hyx
      refine List.pairwise_cons.mpr ⟨?_, ih hy.2⟩
      intro z hz
      have := (insertBy_perm lt x ys).mem_iff.mp hz
      simp only [List.mem_cons] at this
      rcases this with rfl | hz'
      · -- lt y z → ¬ lt z y
        rcases hp.total y z with h | h
        · simpa using h
        · simp at h; rw [h] at hyx; exact (Bool.noConfusion hyx)
      · exact hy.1 z hz'
    · rename_i hyx
      have hyx' : lt y x = false := by simpa using hyx
      refine List.pairwise_cons.mpr ⟨?_, hl⟩
      intro z hz
      simp only [List.mem_cons] at hz
      rcases hz with rfl | hz
      · exact hyx'
      · have h1 : (fun a b => !lt b a) x y = true := by simp [hyx']
        have h2 : (fun a b => !lt b a) y z = true := by simp [hy.1 z hz]
        have := hp.trans x y z h1 h2
        simpa using this

theorem sortByLt_sorted {α : Type} (lt : α → α → Bool) (hp : TotalPre (fun a b => !lt b a)) (l : List α) :
    (sortByLt lt l).Pairwise (fun a b => lt b a = false) := by
  induction l with
  | nil => simp [sortByLt]
  | cons x xs ih => exact insertBy_sorted lt hp x _ ih

/-- the negation of a strict total order pulled back along a key is a total preorder -/
theorem totalPre_of_key {α β : Type} {lt : β → β → Bool} (h : StrictTotal lt) (key : α → β) :
    TotalPre (fun a b : α => !lt (key b) (key a)) := by
  refine ⟨?_, ?_⟩
  · intro a b
    cases hab : lt (key b) (key a) with
    | false => left; rfl
    | true => right; simp [h.asymm hab]
  · intro a b c h1 h2
    simp only [Bool.not_eq_true'] at h1 h2 ⊢
    cases hca : lt (key c) (key a) with
    | false => rfl
    | true =>
      -- key c < key a, ¬ key b < key a, ¬ key c < key b
      cases hab : lt (key a) (key b) with
      | true => have := h.trans _ _ _ hca hab; rw [h2] at this; exact (Bool.noConfusion this)
      | false =>
        have := h.tri _ _ hab h1
        rw [this] at hca; rw [h2] at hca; exact (Bool.noConfusion hca)

theorem natural_totalPre : TotalPre naturalLe := totalPre_of_key keyLt_strictTotal naturalKey

end Cpppo.History
