import Cpppo.Model.Poll
import Cpppo.Proofs.Merge
/-! Lemmas about the polling model: address translation over the bank table, the hull of a merged
block, the store fold. -/
namespace Cpppo.Poll
open Cpppo.Merge

/-- The bank table is usable with 10000-blocks of size `block`: offsets are non-negative and no two
banks have addresses in the same block (so a merged range, which never leaves a block, never mixes
two Modbus functions). -/
def BanksWF (block : Nat) (banks : List Bank) : Prop :=
  (∀ e ∈ banks, e.1 ≤ e.2.1 ∧ e.2.2.2 ≤ e.1) ∧
  banks.Pairwise (fun e f => e.2.1 / block < f.1 / block ∨ f.2.1 / block < e.1 / block)

instance (block : Nat) (banks : List Bank) : Decidable (BanksWF block banks) := by
  unfold BanksWF; infer_instance

theorem translate_some {banks : List Bank} {a k o : Nat} (h : translate banks a = some (k, o)) :
    ∃ e ∈ banks, e.1 ≤ a ∧ a ≤ e.2.1 ∧ k = e.2.2.1 ∧ o = a - e.2.2.2 := by
  induction banks with
  | nil => simp [translate] at h
  | cons e bs ih =>
    obtain ⟨lo, hi, k', base⟩ := e
    simp only [translate] at h
    split at h
    · rename_i hin
      simp only [Option.some.injEq, Prod.mk.injEq] at h
      exact ⟨(lo, hi, k', base), by simp, hin.1, hin.2, h.1.symm, h.2.symm⟩
    · obtain ⟨e, he, h'⟩ := ih h
      exact ⟨e, by simp [he], h'⟩

/-- two valid addresses of one block, and everything between them, translate into one bank, offsets
running along with the addresses -/
theorem translate_between {block : Nat} {banks : List Bank} (hwf : BanksWF block banks)
    {a b x k o k' o' : Nat} (ha : translate banks a = some (k, o)) (hb : translate banks b = some (k', o'))
    (hax : a ≤ x) (hxb : x ≤ b) (hblk : a / block = b / block) :
    translate banks x = some (k, o + (x - a)) := by
  induction banks with
  | nil => simp [translate] at ha
  | cons e bs ih =>
    obtain ⟨lo, hi, k0, base⟩ := e
    obtain ⟨hrange, hpw⟩ := hwf
    simp only [List.pairwise_cons] at hpw
    have he : lo ≤ hi ∧ base ≤ lo := hrange (lo, hi, k0, base) (by simp)
    have hwf' : BanksWF block bs := ⟨fun e he => hrange e (by simp [he]), hpw.2⟩
    have hxblk : x / block = a / block := by
      have h1 : a / block ≤ x / block := Nat.div_le_div_right hax
      have h2 : x / block ≤ b / block := Nat.div_le_div_right hxb
      omega
    -- an address inside the head bank shares its block with no address of a later bank
    have sep : ∀ {y z ky oy : Nat}, lo ≤ y → y ≤ hi → translate bs z = some (ky, oy) →
        y / block = z / block → False := by
      intro y z ky oy hy1 hy2 hz hyz
      obtain ⟨f, hf, hf1, hf2, _, _⟩ := translate_some hz
      have : hi / block < f.1 / block ∨ f.2.1 / block < lo / block := hpw.1 f hf
      have h1 : lo / block ≤ y / block := Nat.div_le_div_right hy1
      have h2 : y / block ≤ hi / block := Nat.div_le_div_right hy2
      have h3 : f.1 / block ≤ z / block := Nat.div_le_div_right hf1
      have h4 : z / block ≤ f.2.1 / block := Nat.div_le_div_right hf2
      omega
    simp only [translate] at ha hb ⊢
    by_cases hain : lo ≤ a ∧ a ≤ hi
    · rw [if_pos hain] at ha
      simp only [Option.some.injEq, Prod.mk.injEq] at ha
      by_cases hbin : lo ≤ b ∧ b ≤ hi
      · rw [if_pos ⟨by omega, by omega⟩]
        simp only [Option.some.injEq, Prod.mk.injEq]
        exact ⟨ha.1, by omega⟩
      · rw [if_neg hbin] at hb
        exact (sep hain.1 hain.2 hb hblk).elim
    · rw [if_neg hain] at ha
      by_cases hbin : lo ≤ b ∧ b ≤ hi
      · exact (sep hbin.1 hbin.2 ha hblk.symm).elim
      · rw [if_neg hbin] at hb
        by_cases hxin : lo ≤ x ∧ x ≤ hi
        · exact (sep hxin.1 hxin.2 ha hxblk).elim
        · rw [if_neg hxin]
          exact ih hwf' ha hb

/-! ### the hull of a merged block (singleton requests) -/

/-- a non-empty block starts at a requested register and ends with one of the same 10000-block -/
def Hull (block : Nat) (Req : Nat → Prop) (s : Range) : Prop :=
  s.2 ≠ 0 → Req s.1 ∧ ∃ e, Req e ∧ e / block = s.1 / block ∧ s.1 + s.2 = e + 1

theorem sweep_hull (block reach : Nat) (Req : Nat → Prop) (base len : Nat) (rest : List Range)
    (hsorted : rest.Pairwise (fun r q => r.1 ≤ q.1)) (hbase : ∀ r ∈ rest, base ≤ r.1)
    (hreq : ∀ r ∈ rest, r.2 = 1 ∧ Req r.1) (hblk : Hull block Req (base, len)) :
    ∀ s ∈ sweep true block reach base len rest, Hull block Req s := by
  induction rest generalizing base len with
  | nil => intro s hs; simp [sweep] at hs; subst hs; exact hblk
  | cons r rest ih =>
    obtain ⟨a, c⟩ := r
    simp only [List.pairwise_cons] at hsorted
    have hba : base ≤ a := hbase (a, c) (by simp)
    have hrest : ∀ r ∈ rest, base ≤ r.1 := fun r hr => hbase r (by simp [hr])
    have hresta : ∀ r ∈ rest, a ≤ r.1 := fun r hr => hsorted.1 r hr
    have ⟨hc, hra⟩ := hreq (a, c) (by simp)
    simp only at hc hra
    subst hc
    have hreq' : ∀ r ∈ rest, r.2 = 1 ∧ Req r.1 := fun r hr => hreq r (by simp [hr])
    have hnew : Hull block Req (a, 1) := fun _ => ⟨hra, a, hra, rfl, rfl⟩
    simp only [sweep]
    split
    · rename_i hlen
      split
      · rename_i hm
        apply ih _ _ hsorted.2 hrest hreq'
        intro _
        obtain ⟨hb1, e, he, heb, hee⟩ := hblk hlen
        simp only at hb1 heb hee ⊢
        refine ⟨hb1, ?_⟩
        simp only [if_true]
        by_cases hgt : len < a + 1 - base
        · exact ⟨a, hra, hm.1, by rw [Nat.max_eq_right (by omega)]; omega⟩
        · exact ⟨e, he, heb, by rw [Nat.max_eq_left (by omega)]; exact hee⟩
      · intro s hs
        simp only [List.mem_cons] at hs
        rcases hs with rfl | hs
        · exact hblk
        · exact ih a 1 hsorted.2 hresta hreq' hnew s hs
    · exact ih a 1 hsorted.2 hresta hreq' hnew

/-! ### every request of a cycle stays inside one bank -/

def Valid (banks : List Bank) (y : Nat) : Prop := ∃ k o, translate banks y = some (k, o)

/-- all polled addresses are valid Modbus addresses -/
def KeysValid (banks : List Bank) (data : Data) : Prop := ∀ kv ∈ data, Valid banks kv.1

theorem sorted_keys_mem (data : Data) (q : Range) (hq : q ∈ sortRanges (keys data)) :
    q.2 = 1 ∧ ∃ kv ∈ data, kv.1 = q.1 := by
  have := (sortRanges_perm (keys data)).mem_iff.mp hq
  simp only [keys, List.mem_map] at this
  obtain ⟨kv, hkv, rfl⟩ := this
  exact ⟨rfl, kv, hkv, rfl⟩

/-- every range a cycle polls translates, cell by cell, into one run of offsets of one bank -/
theorem piece_translate {banks : List Bank} {cfg : Cfg} (hc : 0 < cfg.coil) (hr : 0 < cfg.reg)
    (hwf : BanksWF cfg.block banks) {data : Data} (hkeys : KeysValid banks data) {reach : Nat}
    {rngs : List Range} (hm : merge cfg (keys data) reach none = some rngs) :
    ∀ p ∈ rngs, 1 ≤ p.2 ∧ ∃ k off, translate banks p.1 = some (k, off) ∧
      (∀ x, p.1 ≤ x → x < p.1 + p.2 → translate banks x = some (k, off + (x - p.1))) ∧
      ∃ s1 o1, translate banks s1 = some (k, o1) ∧ p.2 ≤ defaultLimit cfg.coil cfg.reg s1 := by
  unfold merge mergeWith blocksOf at hm
  split at hm
  · simp at hm
  · rename_i b l rest hs
    simp only [Option.map_some, Option.some.injEq] at hm
    subst hm
    have hsorted := sorted_addr (keys data)
    rw [hs, List.pairwise_cons] at hsorted
    have hmem : ∀ q ∈ (b, l) :: rest, q.2 = 1 ∧ Valid banks q.1 := by
      intro q hq
      rw [← hs] at hq
      obtain ⟨h1, kv, hkv, hk⟩ := sorted_keys_mem data q hq
      exact ⟨h1, hk ▸ hkeys kv hkv⟩
    have hb := hmem (b, l) (by simp)
    simp only at hb
    have hull := sweep_hull cfg.block reach (Valid banks) b l rest hsorted.2 (fun q hq => hsorted.1 q hq)
      (fun q hq => hmem q (by simp [hq])) (fun _ => ⟨hb.2, b, hb.2, rfl, by rw [hb.1]⟩)
    intro p hp
    obtain ⟨s, hs', hps⟩ := List.mem_flatMap.mp hp
    have hcon := shatterGo_consec s.1 s.2 _ (effLimit_pos (lim := none) (a := s.1) hc hr)
    have hin := hcon.mem p hps
    have hs2 : s.2 ≠ 0 := by omega
    obtain ⟨⟨k, o, hk⟩, e, ⟨k', o', hk'⟩, heb, hee⟩ := hull s hs' hs2
    refine ⟨hin.2.2, k, o + (p.1 - s.1), ?_, ?_, s.1, o, hk, ?_⟩
    · exact translate_between hwf hk hk' hin.1 (by omega) heb.symm
    · intro x hx1 hx2
      have := translate_between hwf hk hk' (x := x) (by omega) (by omega) heb.symm
      rw [this]
      congr 2
      omega
    · have := shatterGo_le s.1 s.2 _ p hps
      simpa [effLimit] using this

/-! ### reading and storing -/

theorem cells_length (off c : Nat) : (cells off c).length = c := by simp [cells]

theorem readRange_some {banks : List Bank} {dev : Dev} {r : Range} {k off : Nat}
    (ht : translate banks r.1 = some (k, off)) (hbad : ∀ i, i < r.2 → dev.bad k (off + i) = false) :
    readRange banks dev r = some ((cells off r.2).map (dev.val k)) := by
  unfold readRange
  rw [ht]
  simp only
  rw [if_neg]
  simp only [List.any_eq_true, cells, List.mem_map, List.mem_range, not_exists, not_and]
  rintro x ⟨i, hi, rfl⟩
  simp [hbad i hi]

theorem readRange_eq {banks : List Bank} {dev : Dev} {r : Range} {k off : Nat} {vals : List Nat}
    (ht : translate banks r.1 = some (k, off)) (h : readRange banks dev r = some vals) :
    vals = (cells off r.2).map (dev.val k) := by
  unfold readRange at h
  rw [ht] at h
  simp only at h
  split at h
  · simp at h
  · simpa using h.symm

theorem lookup_mem {data : Data} {x : Nat} {v : Option Nat} (h : lookup data x = some v) :
    ∃ kv ∈ data, kv.1 = x := by
  induction data with
  | nil => simp [lookup] at h
  | cons kv rest ih =>
    obtain ⟨k, w⟩ := kv
    simp only [lookup] at h
    split at h
    · rename_i hk; exact ⟨(k, w), by simp, hk⟩
    · obtain ⟨kv, hkv, hx⟩ := ih h
      exact ⟨kv, by simp [hkv], hx⟩

theorem readRange_length {banks : List Bank} {dev : Dev} {r : Range} {vals : List Nat}
    (h : readRange banks dev r = some vals) : vals.length = r.2 := by
  unfold readRange at h
  split at h
  · simp at h
  · split at h
    · simp at h
    · simp only [Option.some.injEq] at h
      subst h
      simp [cells]

theorem store_keys (data : Data) (a : Nat) (vals : List Nat) :
    (store data a vals).map (·.1) = data.map (·.1) := by
  unfold store
  rw [List.map_map]
  apply List.map_congr_left
  intro kv _
  simp only [Function.comp]
  split <;> rfl

theorem lookup_store (data : Data) (a : Nat) (vals : List Nat) (x : Nat) :
    lookup (store data a vals) x =
      (lookup data x).map fun v => if a ≤ x ∧ x < a + vals.length then vals[x - a]? else v := by
  induction data with
  | nil => simp [store, lookup]
  | cons kv rest ih =>
    obtain ⟨k, v⟩ := kv
    unfold store at ih ⊢
    simp only [List.map_cons]
    by_cases hk : k = x
    · subst hk
      by_cases hin : a ≤ k ∧ k < a + vals.length
      · simp [lookup, hin]
      · simp [lookup, hin]
    · by_cases hin : a ≤ k ∧ k < a + vals.length
      · simp only [hin, and_self, ↓reduceIte, lookup, hk]
        exact ih
      · simp only [hin, ↓reduceIte, lookup, hk]
        exact ih

theorem fold_keys (banks : List Bank) (dev : Dev) (rngs : List Range) (acc : Data × List Range × List Range) :
    (rngs.foldl (stepRange banks dev) acc).1.map (·.1) = acc.1.map (·.1) := by
  induction rngs generalizing acc with
  | nil => rfl
  | cons r rest ih =>
    simp only [List.foldl_cons]
    rw [ih]
    unfold stepRange
    split
    · exact store_keys _ _ _
    · rfl

/-- a register no polled range contains keeps its value -/
theorem fold_lookup_notin (banks : List Bank) (dev : Dev) (rngs : List Range) (acc : Data × List Range × List Range)
    (x : Nat) (hx : ∀ r ∈ rngs, ¬ InRange r x) :
    lookup (rngs.foldl (stepRange banks dev) acc).1 x = lookup acc.1 x := by
  induction rngs generalizing acc with
  | nil => rfl
  | cons r rest ih =>
    simp only [List.foldl_cons]
    rw [ih _ (fun q hq => hx q (by simp [hq]))]
    have hr := hx r (by simp)
    unfold stepRange
    split
    · rename_i vals hv
      have hl := readRange_length hv
      simp only [lookup_store]
      cases lookup acc.1 x with
      | none => rfl
      | some v =>
        simp only [Option.map_some, Option.some.injEq]
        rw [if_neg]
        simp only [InRange] at hr
        omega
    · rfl

/-- a known register inside a polled range holds the value read for it, or - when that read failed -
what it held before -/
theorem fold_lookup_in (banks : List Bank) (dev : Dev) (rngs : List Range)
    (hpw : rngs.Pairwise (fun r q => r.1 + r.2 ≤ q.1)) (acc : Data × List Range × List Range)
    (r : Range) (hr : r ∈ rngs) (x : Nat) (hx : InRange r x) (v : Option Nat) (hv : lookup acc.1 x = some v) :
    lookup (rngs.foldl (stepRange banks dev) acc).1 x =
      match readRange banks dev r with
      | some vals => some vals[x - r.1]?
      | none => some v := by
  induction rngs generalizing acc with
  | nil => simp at hr
  | cons q rest ih =>
    simp only [List.pairwise_cons] at hpw
    simp only [List.foldl_cons]
    simp only [List.mem_cons] at hr
    rcases hr with rfl | hr
    · rw [fold_lookup_notin]
      · cases hrd : readRange banks dev r with
        | none => simp only [stepRange, hrd]; exact hv
        | some vals =>
          have hl := readRange_length hrd
          simp only [stepRange, hrd, lookup_store, hv, Option.map_some, Option.some.injEq]
          rw [if_pos]
          simp only [InRange] at hx
          omega
      · intro q hq hqx
        have := hpw.1 q hq
        simp only [InRange] at hx hqx
        omega
    · apply ih hpw.2 _ hr
      have hsep := hpw.1 r hr
      unfold stepRange
      split
      · rename_i vals hvals
        have hl := readRange_length hvals
        simp only [lookup_store, hv, Option.map_some, Option.some.injEq]
        rw [if_neg]
        simp only [InRange] at hx
        omega
      · exact hv

theorem fold_lists (banks : List Bank) (dev : Dev) (rngs : List Range) (acc : Data × List Range × List Range) :
    (rngs.foldl (stepRange banks dev) acc).2.1 = acc.2.1 ++ rngs.filter (fun r => (readRange banks dev r).isSome)
    ∧ (rngs.foldl (stepRange banks dev) acc).2.2 = acc.2.2 ++ rngs.filter (fun r => (readRange banks dev r).isNone) := by
  induction rngs generalizing acc with
  | nil => simp
  | cons r rest ih =>
    simp only [List.foldl_cons]
    obtain ⟨h1, h2⟩ := ih (stepRange banks dev acc r)
    rw [h1, h2]
    unfold stepRange
    cases hrd : readRange banks dev r with
    | none => simp [hrd]
    | some vals => simp [hrd]

end Cpppo.Poll
