import Cpppo.Model.Source
/-!
Refinement of the concrete `peeking`/`chaining` model to its abstract view, and the accounting of
`sent` (helper lemmas for `Props/C10.lean`).
-/
namespace Cpppo.Source

theorem pull_some {bs : List (List Sym)} {x xs rest} (h : pull bs = some (x, xs, rest)) :
    bs.flatten = x :: xs ++ rest.flatten := by
  induction bs with
  | nil => simp [pull] at h
  | cons b bs ih =>
    cases b with
    | nil => simp only [pull] at h; simpa using ih h
    | cons y ys =>
      simp only [pull, Option.some.injEq, Prod.mk.injEq] at h
      obtain ⟨rfl, rfl, rfl⟩ := h
      simp

theorem pull_none {bs : List (List Sym)} (h : pull bs = none) : bs.flatten = [] := by
  induction bs with
  | nil => rfl
  | cons b bs ih =>
    cases b with
    | nil => simp only [pull] at h; simpa using ih h
    | cons y ys => simp [pull] at h

/-- `next` on the concrete source is `next` on the view -/
theorem next_abs (s : Source) : s.next.1 = s.abs.next.1 ∧ s.next.2.abs = s.abs.next.2 := by
  obtain ⟨back, cur, chain, sent⟩ := s
  cases back with
  | cons x b => simp [Source.next, Source.abs, Source.view, ASrc.next]
  | nil =>
    cases cur with
    | cons x c => simp [Source.next, Source.abs, Source.view, ASrc.next]
    | nil =>
      simp only [Source.next, Source.abs, Source.view, List.nil_append]
      cases hp : pull chain.reverse with
      | none =>
        have := pull_none hp
        simp [ASrc.next, this]
      | some v =>
        obtain ⟨x, xs, bs⟩ := v
        have := pull_some hp
        simp [ASrc.next, this]

/-- `peek` shows the head of the view and leaves the view and `sent` unchanged -/
theorem peek_abs (s : Source) : s.peek.1 = s.abs.peek ∧ s.peek.2.abs = s.abs := by
  have hn := next_abs s
  obtain ⟨back, cur, chain, sent⟩ := s
  cases back with
  | cons x b => simp [Source.peek, Source.abs, Source.view, ASrc.peek]
  | nil =>
    simp only [Source.peek]
    cases hnx : Source.next { back := [], cur := cur, chain := chain, sent := sent } with
    | mk r s' =>
      rw [hnx] at hn
      simp only at hn
      obtain ⟨h1, h2⟩ := hn
      cases hv : (Source.abs { back := [], cur := cur, chain := chain, sent := sent }).rest with
      | nil =>
        simp only [ASrc.next, hv] at h1 h2
        subst h1
        simp only [ASrc.peek, hv, List.head?_nil, true_and]
        exact h2
      | cons y ys =>
        simp only [ASrc.next, hv] at h1 h2
        subst h1
        simp only [ASrc.peek, hv, List.head?_cons, true_and]
        obtain ⟨b', c', ch', st'⟩ := s'
        simp only [Source.abs, Source.view, ASrc.mk.injEq] at h2 hv ⊢
        obtain ⟨h2a, h2b⟩ := h2
        refine ⟨?_, by simp only [Source.push]; omega⟩
        simp only [List.nil_append] at hv
        simp only [Source.push, List.nil_append, hv, ← h2a, List.cons_append, List.append_assoc]

theorem push_abs (s : Source) (x : Sym) : (s.push x).abs = s.abs.push x := by
  simp [Source.push, Source.abs, Source.view, ASrc.push]

theorem chain_abs (s : Source) (b : List Sym) : (s.chainBlock b).abs = s.abs.chainBlock b := by
  simp [Source.chainBlock, Source.abs, Source.view, ASrc.chainBlock]

theorem step_abs (s : Source) (o : Op) :
    (s.step o).1 = (s.abs.step o).1 ∧ (s.step o).2.abs = (s.abs.step o).2 := by
  cases o with
  | next => exact next_abs s
  | peek => exact peek_abs s
  | push x => exact ⟨rfl, push_abs s x⟩
  | chain b => exact ⟨rfl, chain_abs s b⟩

theorem steps_abs (s : Source) (ops : List Op) :
    (s.steps ops).1 = (s.abs.steps ops).1 ∧ (s.steps ops).2.abs = (s.abs.steps ops).2 := by
  induction ops generalizing s with
  | nil => simp [Source.steps, ASrc.steps]
  | cons o os ih =>
    have h := step_abs s o
    simp only [Source.steps, ASrc.steps]
    have ih' := ih (s.step o).2
    rw [h.2] at ih'
    exact ⟨by rw [h.1, ih'.1], ih'.2⟩

/-- `sent` is the number of symbols delivered by `next` minus the number pushed back -/
theorem steps_sent (a : ASrc) (ops : List Op) :
    (a.steps ops).2.sent = a.sent + countNext ops (a.steps ops).1 - countPush ops := by
  induction ops generalizing a with
  | nil => simp [ASrc.steps, countNext, countPush]
  | cons o os ih =>
    simp only [ASrc.steps]
    rw [ih]
    cases o with
    | next =>
      cases hr : a.rest with
      | nil => simp [ASrc.step, ASrc.next, hr, countNext, countPush]
      | cons x r => simp [ASrc.step, ASrc.next, hr, countNext, countPush]; omega
    | peek =>
      cases hp : a.peek <;> simp [ASrc.step, hp, countNext, countPush]
    | push x => simp [ASrc.step, ASrc.push, countNext, countPush]; omega
    | chain b => simp [ASrc.step, ASrc.chainBlock, countNext, countPush]

/-! ### pushes that restore what was taken (the discipline `remembering.push` asserts) -/

/-- every `push` gives back the most recently taken symbol that has not been given back yet;
`taken` is the stack of those symbols -/
def disciplined : List Sym → ASrc → List Op → Bool
  | _, _, [] => true
  | taken, a, .next :: os =>
    match a.rest with
    | [] => disciplined taken a os
    | x :: _ => disciplined (x :: taken) a.next.2 os
  | taken, a, .peek :: os => disciplined taken a os
  | taken, a, .push x :: os =>
    match taken with
    | y :: t => x == y && disciplined t (a.push x) os
    | [] => false
  | taken, a, .chain b :: os => disciplined taken (a.chainBlock b) os

def takenAfter : List Sym → ASrc → List Op → List Sym
  | taken, _, [] => taken
  | taken, a, .next :: os =>
    match a.rest with
    | [] => takenAfter taken a os
    | x :: _ => takenAfter (x :: taken) a.next.2 os
  | taken, a, .peek :: os => takenAfter taken a os
  | taken, a, .push x :: os => takenAfter taken.tail (a.push x) os
  | taken, a, .chain b :: os => takenAfter taken (a.chainBlock b) os

def chained : List Op → List Sym
  | [] => []
  | .chain b :: os => b ++ chained os
  | _ :: os => chained os

theorem disciplined_accounts (taken : List Sym) (a : ASrc) (ops : List Op)
    (h : disciplined taken a ops = true) :
    (takenAfter taken a ops).reverse ++ (a.steps ops).2.rest = taken.reverse ++ a.rest ++ chained ops
    ∧ (a.steps ops).2.sent - (takenAfter taken a ops).length = a.sent - taken.length := by
  induction ops generalizing taken a with
  | nil => simp [takenAfter, ASrc.steps, chained]
  | cons o os ih =>
    cases o with
    | next =>
      cases hr : a.rest with
      | nil =>
        simp only [disciplined, hr] at h
        have := ih taken a h
        simp only [takenAfter, hr, ASrc.steps, ASrc.step, ASrc.next, chained]
        simpa [hr] using this
      | cons x r =>
        simp only [disciplined, hr] at h
        have := ih (x :: taken) a.next.2 h
        simp only [takenAfter, hr, ASrc.steps, ASrc.step, chained]
        simp only [ASrc.next, hr] at this ⊢
        constructor
        · simpa using this.1
        · have := this.2; simp only [List.length_cons] at this; omega
    | peek =>
      simp only [disciplined] at h
      simpa [takenAfter, ASrc.steps, ASrc.step, chained] using ih taken a h
    | push x =>
      cases taken with
      | nil => simp [disciplined] at h
      | cons y t =>
        simp only [disciplined, Bool.and_eq_true, beq_iff_eq] at h
        obtain ⟨rfl, h⟩ := h
        have := ih t (a.push x) h
        simp only [takenAfter, List.tail_cons, ASrc.steps, ASrc.step, chained]
        simp only [ASrc.push] at this ⊢
        constructor
        · simpa using this.1
        · have := this.2; simp only [List.length_cons]; omega
    | chain b =>
      simp only [disciplined] at h
      have := ih taken (a.chainBlock b) h
      simp only [takenAfter, ASrc.steps, ASrc.step, chained]
      simp only [ASrc.chainBlock] at this ⊢
      constructor
      · simpa using this.1
      · exact this.2

end Cpppo.Source
