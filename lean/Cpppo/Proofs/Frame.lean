import Cpppo.Proofs.Request
import Cpppo.Proofs.Reply
/-! Encapsulation frames, CPF items, and delivery of a request to the object its path designates. -/
namespace Cpppo.Interop
open Cpppo Cpppo.Logix Cpppo.Fields

/-! ### encapsulation header, both directions -/

theorem parseEnip_encFrame (h : Ref.Hdr) (payload : Bytes) (hok : h.ok = true) (hl : payload.length < 65536) :
    Srv.parseEnip (Ref.encFrame h payload) =
      some { command := h.command, session := h.session, status := h.status, context := h.context,
             options := h.options, input := payload } := by
  simp only [Ref.Hdr.ok, Bool.and_eq_true, decide_eq_true_eq] at hok
  obtain ⟨⟨⟨⟨⟨h1, h2⟩, h3⟩, h4⟩, _⟩, h6⟩ := hok
  unfold Ref.encFrame Srv.parseEnip
  have e1 := fun rest => u_le 2 h.command rest (by omega)
  have e2 := fun rest => u_le 2 payload.length rest (by omega)
  have e3 := fun rest => u_le 4 h.session rest (by omega)
  have e4 := fun rest => u_le 4 h.status rest (by omega)
  have e5 := fun rest => take_append 8 h.context rest h4
  have e6 := fun rest => u_le 4 h.options rest (by omega)
  simp only [List.append_assoc, e1, e2, e3, e4, e5, e6, ↓reduceIte]

/-- the fields of a produced frame are in range -/
def EnipOk (e : Srv.Enip) : Prop :=
  e.command < 65536 ∧ e.session < 4294967296 ∧ e.status < 4294967296 ∧ e.context.length = 8
    ∧ e.options < 4294967296 ∧ e.input.length < 65536

theorem decFrame_produceEnip (e : Srv.Enip) (hok : EnipOk e) :
    Ref.decFrame (Srv.produceEnip e) =
      some ({ command := e.command, session := e.session, status := e.status, context := e.context,
              options := e.options }, e.input) := by
  obtain ⟨h1, h2, h3, h4, h5, h6⟩ := hok
  unfold Srv.produceEnip Ref.decFrame
  have e1 := fun rest => u_le 2 e.command rest (by omega)
  have e2 := fun rest => u_le 2 e.input.length rest (by omega)
  have e3 := fun rest => u_le 4 e.session rest (by omega)
  have e4 := fun rest => u_le 4 e.status rest (by omega)
  have e5 := fun rest => take_append 8 e.context rest h4
  have e6 := fun rest => u_le 4 e.options rest (by omega)
  simp only [List.append_assoc, e1, e2, e3, e4, e5, e6, ↓reduceIte]

/-! ### where a request is delivered -/

def simplePath : Simple → Path
  | .readTag p _ | .readFrag p _ _ | .writeTag p _ _ _ | .writeFrag p _ _ _ _
  | .getAttrSingle p | .setAttrSingle p _ | .getAttrAll p => p

def reqPath : Req → Path
  | .simple s => simplePath s
  | .multiple p _ => p

theorem routeTarget_self (d : Dev) (p : Path) (c i : Nat) (a : Option Nat)
    (hr : resolve d.symbols .no p = some (c, i, a)) : (routeTarget d (c, i) p).getD (c, i) = (c, i) := by
  simp [routeTarget, hr]

theorem routeTarget_router (d : Dev) (p : Path) (c i : Nat) (a : Option Nat)
    (hr : resolve d.symbols .no p = some (c, i, a)) (hex : (d.obj? c i).isSome = true) :
    (routeTarget d router p).getD router = (c, i) := by
  simp only [routeTarget, hr]
  by_cases hc : (c, i) = router
  · simp [hc]
  · simp [hc, hex]

/-- executing at the object the path designates is executing at the Message Router (which routes there) -/
theorem execAt_designated (d : Dev) (r : Req) (c i : Nat) (a : Option Nat)
    (hr : resolve d.symbols .no (reqPath r) = some (c, i, a)) (hex : (d.obj? c i).isSome = true) :
    Srv.execAt d (c, i) r = exec d r := by
  cases r with
  | simple s =>
    have h1 := routeTarget_self d (simplePath s) c i a hr
    have h2 := routeTarget_router d (simplePath s) c i a hr hex
    cases s <;> simp only [simplePath] at h1 h2 <;>
      simp [Srv.execAt, exec, execSimple, execSimpleAt, h1, h2]
  | multiple p ss =>
    have h1 := routeTarget_self d p c i a hr
    have h2 := routeTarget_router d p c i a hr hex
    unfold Srv.execAt exec Srv.execMultipleAt execMultiple
    simp only [h1, h2]
    rfl

theorem execAt_router (d : Dev) (r : Req) : Srv.execAt d router r = exec d r := by
  cases r with
  | simple s => rfl
  | multiple p ss => rfl

/-- the request is not addressed to the Connection Manager itself -/
def notCM (d : Dev) (r : Req) : Bool :=
  match resolve d.symbols .no (reqPath r) with
  | some (c, i, _) => (c, i) != Srv.cm
  | none => true

def hasRouter (d : Dev) : Bool := (d.obj? router.1 router.2).isSome

theorem execAt_targetOf (d : Dev) (r : Req) (segs : List Srv.PSeg) (hs : Srv.toPath segs = reqPath r)
    (hcm : notCM d r = true) (hro : hasRouter d = true) :
    ∃ t, Srv.targetOf true d segs = some t ∧ t ≠ Srv.cm ∧ Srv.execAt d t r = exec d r := by
  unfold Srv.targetOf
  rw [hs]
  unfold hasRouter at hro
  unfold notCM at hcm
  cases hr : resolve d.symbols .no (reqPath r) with
  | none =>
    refine ⟨router, by simp [hro], by decide, execAt_router d r⟩
  | some x =>
    obtain ⟨c, i, a⟩ := x
    rw [hr] at hcm
    simp only [bne_iff_ne, ne_eq] at hcm
    by_cases hex : (d.obj? c i).isSome = true
    · exact ⟨(c, i), by simp [hex], hcm, execAt_designated d r c i a hr hex⟩
    · refine ⟨router, by simp [hex, hcm, hro], by decide, execAt_router d r⟩

end Cpppo.Interop
