import Cpppo.Proofs.ConcurrentArr
import Cpppo.Proofs.Exec

/-! The Logix instance (`execLgx`): every tag request is at most ONE slice operation on ONE tag's array
(the model-level counterpart of the structural check "exactly one storage access per accepted request"). -/
namespace Cpppo.Concurrent
open Cpppo.Logix

/-- what the tag request `execTag …` does to the tag arrays of the device -/
def OneArrayOp (d : Dev) (r : Dev × Reply) : Prop :=
  -- refused: no access, the device is untouched, an error status is returned
  (r.1 = d ∧ r.2.status ≠ 0 ∧ r.2.status ≠ 6)
  -- ONE slice read of one tag: the device is untouched, the reply carries `vals[beg, beg+k)`
  ∨ (∃ c i a tag beg k, d.attr? c i a = some tag ∧ r.1 = d ∧ (r.2.status = 0 ∨ r.2.status = 6)
        ∧ r.2.vals = (tag.vals.drop beg).take k)
  -- ONE slice assignment to one tag (a scalar: its single element): nothing else changes
  ∨ (∃ c i a tag beg w, d.attr? c i a = some tag ∧ r.2.status = 0
        ∧ r.1 = d.setAttr c i a { tag with vals := if tag.scalar then w.take 1 else spliceAt tag.vals beg w })

theorem execTag_one_array_op (d : Dev) (self : Nat × Nat) (svc : Nat) (isRead isFrag : Bool) (p : Path)
    (reqTy n off : Nat) (data : Bytes) :
    OneArrayOp d (execTag d self svc isRead isFrag p reqTy n off data) := by
  unfold execTag
  split
  · left; exact ⟨rfl, by simp [errReply], by simp [errReply]⟩
  · rename_i c i a tag hr
    have htag := (resolveTag_some hr).1
    split
    · left; exact ⟨rfl, by simp [errReply], by simp [errReply]⟩
    · rename_i wvals _
      cases isRead with
      | true =>
        rcases tagAccess_read_cases tag d.maxBytes (resolveElement p) n (if isFrag then off else 0) wvals with
          h | ⟨st, vals, h, hst, beg, k, hv, _⟩
        · rw [h]; left; exact ⟨rfl, by simp [errReply], by simp [errReply]⟩
        · rw [h]; right; left
          exact ⟨c, i, a, tag, beg, k, htag, rfl, hst, hv⟩
      | false =>
        have hcases : tagAccess tag d.maxBytes false (resolveElement p) n (if isFrag then off else 0) wvals = .refused ∨
            ∃ beg, tagAccess tag d.maxBytes false (resolveElement p) n (if isFrag then off else 0) wvals =
              .wrote { tag with vals := if tag.scalar then wvals.take 1 else spliceAt tag.vals beg wvals } := by
          unfold tagAccess
          split
          · left; rfl
          · split
            · left; rfl
            · rename_i x _ _
              right; exact ⟨x.beg, by simp⟩
        rcases hcases with h | ⟨beg, h⟩
        · rw [h]; left; exact ⟨rfl, by simp [errReply], by simp [errReply]⟩
        · rw [h]; right; right
          exact ⟨c, i, a, tag, beg, wvals, htag, rfl, rfl⟩

/-- the four tag services -/
def isTagRequest : Simple → Bool
  | .readTag .. | .readFrag .. | .writeTag .. | .writeFrag .. => true
  | _ => false

theorem execSimple_one_array_op (d : Dev) (s : Simple) (hs : isTagRequest s = true) :
    OneArrayOp d (execSimple d s) := by
  unfold execSimple execSimpleAt
  cases s <;> simp [isTagRequest] at hs <;> exact execTag_one_array_op _ _ _ _ _ _ _ _ _ _

end Cpppo.Concurrent
