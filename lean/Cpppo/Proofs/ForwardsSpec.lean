import Cpppo.Proofs.Forwards

/-! refinement of the Forward Open table (an insertion-ordered association list, as the dict) to the simplest
possible specification: a partial map `Key → Option Entry` -/
namespace Cpppo.Forwards

/-- the abstract table -/
abbrev Spec := Key → Option Entry

def Spec.step (f : Spec) : Op → Spec × Out
  | .fopen p cid serial tgt =>
    match f ⟨p, cid⟩ with
    | some _ => (f, .refused)
    | none => (fun k => if k = ⟨p, cid⟩ then some ⟨serial, tgt⟩ else f k, .opened)
  | .fclose p serial =>
    (fun k => match f k with
      | some e => if k.peer = p ∧ e.serial = serial then none else some e
      | none => none, .closed)
  | .fin p => (fun k => if k.peer = p then none else f k, .ended)
  | .send p cid pl => (f, respond (f ⟨p, cid⟩) pl)

def Spec.run (f : Spec) : List Op → Spec × List Out
  | [] => (f, [])
  | op :: ops =>
    let r := Spec.step f op
    let rs := Spec.run r.1 ops
    (rs.1, r.2 :: rs.2)

theorem lookup_none_of_not_mem (t : Table) (k : Key) (h : k ∉ t.map (·.1)) : lookup t k = none := by
  induction t with
  | nil => rfl
  | cons kv r ih =>
    obtain ⟨k', e⟩ := kv
    simp only [List.map_cons, List.mem_cons, not_or] at h
    simp only [lookup]
    rw [if_neg (fun e => h.1 e.symm)]
    exact ih h.2

theorem not_mem_filter_keys (f : Key × Entry → Bool) (t : Table) (k : Key) (h : k ∉ t.map (·.1)) :
    k ∉ (t.filter f).map (·.1) := by
  intro hm
  rw [List.mem_map] at hm
  obtain ⟨kv, hkv, rfl⟩ := hm
  exact h (List.mem_map.mpr ⟨kv, (List.mem_filter.mp hkv).1, rfl⟩)

/-- with unique keys a filter acts on a lookup pointwise -/
theorem lookup_filter (f : Key × Entry → Bool) (t : Table) (k : Key) (hn : KeysNodup t) :
    lookup (t.filter f) k = match lookup t k with
      | some e => if f (k, e) then some e else none
      | none => none := by
  induction t with
  | nil => rfl
  | cons kv r ih =>
    obtain ⟨k', e⟩ := kv
    have hn' : KeysNodup r := by
      unfold KeysNodup at hn ⊢
      exact (List.nodup_cons.mp hn).2
    have hk' : k' ∉ r.map (·.1) := by
      unfold KeysNodup at hn
      exact (List.nodup_cons.mp hn).1
    by_cases hk : k' = k
    · subst hk
      simp only [lookup, if_true]
      cases hf : f (k', e)
      · simp only [List.filter, hf]
        rw [lookup_none_of_not_mem _ _ (not_mem_filter_keys f r k' hk')]
        simp
      · simp [List.filter, hf, lookup]
    · cases hf : f (k', e)
      · simp only [List.filter, hf, lookup, hk, if_false]
        exact ih hn'
      · simp only [List.filter, hf, lookup, hk, if_false]
        exact ih hn'

/-- one concrete step is one abstract step (state through `lookup`, output equal) -/
theorem step_refines (t : Table) (op : Op) (hn : KeysNodup t) :
    (∀ k, lookup (step t op).1 k = (Spec.step (lookup t) op).1 k) ∧ (step t op).2 = (Spec.step (lookup t) op).2 := by
  cases op with
  | fopen p cid serial tgt =>
    simp only [step, Spec.step]
    cases hl : lookup t ⟨p, cid⟩ with
    | some e => exact ⟨fun k => rfl, rfl⟩
    | none =>
      refine ⟨fun k => ?_, rfl⟩
      simp only [lookup_append, lookup]
      by_cases hk : k = ⟨p, cid⟩
      · subst hk
        simp [hl]
      · have hk' : ¬ ((⟨p, cid⟩ : Key) = k) := fun e => hk e.symm
        simp only [hk, hk', if_false]
        cases lookup t k <;> rfl
  | fclose p serial =>
    refine ⟨fun k => ?_, rfl⟩
    simp only [step, Spec.step]
    rw [lookup_filter _ t k hn]
    cases lookup t k with
    | none => rfl
    | some e =>
      by_cases h1 : k.peer = p <;> by_cases h2 : e.serial = serial <;> simp [h1, h2]
  | fin p =>
    refine ⟨fun k => ?_, rfl⟩
    simp only [step, Spec.step]
    rw [lookup_filter _ t k hn]
    cases lookup t k with
    | none => by_cases h1 : k.peer = p <;> simp [h1]
    | some e => by_cases h1 : k.peer = p <;> simp [h1]
  | send p cid pl => exact ⟨fun k => rfl, rfl⟩

theorem Spec.step_congr (f g : Spec) (h : ∀ k, f k = g k) (op : Op) : Spec.step f op = Spec.step g op := by
  have : f = g := funext h
  rw [this]

/-- every run is the abstract run: same outputs, and every lookup in the final table is the abstract map's -/
theorem run_refines (ops : List Op) (t : Table) (hn : KeysNodup t) :
    (∀ k, lookup (run t ops).1 k = (Spec.run (lookup t) ops).1 k) ∧ (run t ops).2 = (Spec.run (lookup t) ops).2 := by
  induction ops generalizing t with
  | nil => exact ⟨fun k => rfl, rfl⟩
  | cons op ops ih =>
    obtain ⟨h1, h2⟩ := step_refines t op hn
    obtain ⟨i1, i2⟩ := ih (step t op).1 (step_keysNodup t op hn)
    have hs : Spec.step (lookup t) op = (lookup (step t op).1, (step t op).2) := by
      apply Prod.ext
      · exact (funext h1).symm
      · exact h2.symm
    simp only [run, Spec.run, hs]
    exact ⟨i1, by rw [i2]⟩

end Cpppo.Forwards
